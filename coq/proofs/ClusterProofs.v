From Coq Require Import List NArith ZArith Bool Lia ZifyBool ZifyN ZifyNat.
From Verif Require Import Cluster.
Import ListNotations.
Open Scope N_scope.
Ltac Zify.zify_post_hook ::= Z.div_mod_to_equations.

Lemma mem_In x l : mem x l = true <-> In x l.
Proof.
  unfold mem. rewrite existsb_exists. split.
  - intros [y [Hy E]]. apply N.eqb_eq in E. subst. exact Hy.
  - intros H. exists x. split; [exact H | apply N.eqb_refl].
Qed.

Lemma dedup_In x l : In x (dedup l) <-> In x l.
Proof.
  induction l as [|y r IH]; cbn; [tauto|].
  destruct (mem y r) eqn:E.
  - rewrite IH. split; [auto|]. intros [->|H]; [apply mem_In; exact E | exact H].
  - cbn. rewrite IH. tauto.
Qed.

Lemma dedup_NoDup l : NoDup (dedup l).
Proof.
  induction l as [|y r IH]; cbn; [constructor|].
  destruct (mem y r) eqn:E; [exact IH|].
  constructor; [|exact IH].
  rewrite dedup_In. intros H. apply mem_In in H. congruence.
Qed.

Lemma voter_ids_spec c x :
  In x (voter_ids c) <-> exists n, In n c /\ nvoter n = true /\ nid n = x.
Proof.
  unfold voter_ids. rewrite dedup_In, in_map_iff. split.
  - intros [n [E H]]. apply filter_In in H. exists n. tauto.
  - intros [n [H [V E]]]. exists n. split; [exact E|]. apply filter_In. tauto.
Qed.

Lemma voter_ids_NoDup c : NoDup (voter_ids c).
Proof. apply dedup_NoDup. Qed.

(* pigeonhole on a duplicate-free list, by counting *)
Lemma filter_count_both {A} (p q : A -> bool) (l : list A) :
  (length (filter p l) + length (filter q l) <=
   length l + length (filter (fun x => p x && q x) l))%nat.
Proof.
  induction l as [|x r IH]; cbn; [lia|].
  destruct (p x), (q x); cbn; lia.
Qed.

Lemma filter_nonempty_ex {A} (p : A -> bool) (l : list A) :
  (0 < length (filter p l))%nat -> exists x, In x l /\ p x = true.
Proof.
  induction l as [|x r IH]; cbn; [lia|].
  destruct (p x) eqn:E.
  - intros _. exists x. auto.
  - intros H. destruct (IH H) as [y [Hy Py]]. exists y. auto.
Qed.

Definition active_in (act : list N) (d : list N) : list N := filter (fun x => mem x act) d.

Lemma healthy_majority c act rl :
  healthy (health_of c act rl) = true ->
  (2 * length (active_in act (voter_ids c)) > length (voter_ids c))%nat
  /\ has_leader (health_of c act rl) = true.
Proof.
  unfold health_of, active_in, nlen; cbn [healthy has_leader].
  intros H. apply andb_true_iff in H. destruct H as [H1 H2].
  split; [|exact H2].
  apply N.leb_le in H1. lia.
Qed.

Lemma healthy_iff c act rl :
  healthy (health_of c act rl) = true <->
  (2 * length (active_in act (voter_ids c)) > length (voter_ids c))%nat
  /\ (exists p, In p rl /\ snd p = Leader).
Proof.
  unfold health_of, active_in, nlen; cbn [healthy has_leader].
  rewrite andb_true_iff, N.leb_le, existsb_exists. split.
  - intros [H1 [p [Hp Ep]]]. split; [lia|]. exists p. split; [exact Hp|].
    destruct (snd p); cbn in Ep; congruence.
  - intros [H1 [p [Hp Ep]]]. split; [lia|]. exists p. split; [exact Hp|]. rewrite Ep. reflexivity.
Qed.

Lemma quorum_intersection c a1 r1 a2 r2 :
  healthy (health_of c a1 r1) = true ->
  healthy (health_of c a2 r2) = true ->
  exists x, In x a1 /\ In x a2 /\ In x (voter_ids c).
Proof.
  intros H1 H2.
  apply healthy_majority in H1. apply healthy_majority in H2.
  destruct H1 as [M1 _]. destruct H2 as [M2 _].
  unfold active_in in *.
  pose proof (filter_count_both (fun x => mem x a1) (fun x => mem x a2) (voter_ids c)) as P.
  destruct (filter_nonempty_ex (fun x => mem x a1 && mem x a2) (voter_ids c)) as [x [Hx Px]]; [lia|].
  apply andb_true_iff in Px. destruct Px as [P1 P2].
  exists x. apply mem_In in P1. apply mem_In in P2. auto.
Qed.

(* ---- reachable-state invariants ---- *)
Definition Inv (s : state) : Prop :=
  NoDup (active s) /\ NoDup (map nid (nodes s)).

Lemma NoDup_snoc {A} (l : list A) x : NoDup l -> ~ In x l -> NoDup (l ++ [x]).
Proof.
  induction 1 as [|y l Hy Hl IH]; cbn; intros Hx.
  - repeat constructor. intros [].
  - constructor.
    + rewrite in_app_iff. cbn. intros [H|[H|[]]]; [contradiction | subst; tauto].
    + apply IH. tauto.
Qed.

Lemma set_insert_NoDup x l : NoDup l -> NoDup (set_insert x l).
Proof.
  unfold set_insert. intros H. destruct (mem x l) eqn:E; [exact H|].
  apply NoDup_snoc; [exact H|]. intros Hy. apply mem_In in Hy. congruence.
Qed.

Lemma NoDup_filter {A} (p : A -> bool) l : NoDup l -> NoDup (filter p l).
Proof.
  induction 1 as [|x l Hx Hl IH]; cbn; [constructor|].
  destruct (p x); [constructor; [|exact IH]|exact IH].
  intros H. apply filter_In in H. tauto.
Qed.

Lemma cfg_update_ids c id v :
  existsb (fun n => N.eqb (nid n) id) c = true ->
  map nid (cfg_update c id v) = map nid c.
Proof.
  induction c as [|n r IH]; cbn; [discriminate|].
  destruct (N.eqb (nid n) id) eqn:E; cbn.
  - intros _. apply N.eqb_eq in E. rewrite E. reflexivity.
  - intros H. rewrite IH; auto.
Qed.

Lemma cfg_add_NoDup c id v : NoDup (map nid c) -> NoDup (map nid (cfg_add c id v)).
Proof.
  unfold cfg_add. intros H.
  destruct (existsb (fun n => N.eqb (nid n) id) c) eqn:E.
  - rewrite cfg_update_ids; auto.
  - rewrite map_app. cbn. apply NoDup_snoc; [exact H|].
    intros Hy.
    apply in_map_iff in Hy. destruct Hy as [n [En Hn]].
    assert (existsb (fun n => N.eqb (nid n) id) c = true); [|congruence].
    apply existsb_exists. exists n. split; [exact Hn|]. apply N.eqb_eq. exact En.
Qed.

Lemma map_filter_NoDup (p : node -> bool) c : NoDup (map nid c) -> NoDup (map nid (filter p c)).
Proof.
  induction c as [|n r IH]; cbn; [constructor|].
  intros H. inversion H as [|? ? Hn Hr]; subst.
  destruct (p n); cbn; [constructor|]; auto.
  intros Hin. apply Hn. apply in_map_iff in Hin. destruct Hin as [m [Em Hm]].
  apply in_map_iff. exists m. split; [exact Em|]. apply filter_In in Hm. tauto.
Qed.

Lemma step_inv s o : Inv s -> Inv (step s o).
Proof.
  intros [Ha Hn]. destruct o; unfold Inv; cbn; split; auto.
  - apply cfg_add_NoDup; exact Hn.
  - apply NoDup_filter; exact Ha.
  - apply map_filter_NoDup; exact Hn.
  - apply set_insert_NoDup; exact Ha.
  - apply NoDup_filter; exact Ha.
Qed.

Lemma init_cfg_NoDup l c0 : NoDup (map nid c0) ->
  NoDup (map nid (fold_left (fun c p => cfg_add c (fst p) (snd p)) l c0)).
Proof.
  revert c0. induction l as [|p r IH]; cbn; intros c0 H; [exact H|].
  apply IH. apply cfg_add_NoDup. exact H.
Qed.

Lemma init_inv l : Inv (init l).
Proof.
  unfold Inv, init; cbn. split; [constructor|].
  apply init_cfg_NoDup. constructor.
Qed.

Lemma run_inv l ops : Inv (run l ops).
Proof.
  unfold run. generalize (init_inv l). generalize (init l).
  induction ops as [|o r IH]; cbn; intros s H; [exact H|].
  apply IH. apply step_inv. exact H.
Qed.

(* with distinct member ids, the distinct-voter count is the plain voter count *)
Lemma dedup_id l : NoDup l -> dedup l = l.
Proof.
  induction 1 as [|x l Hx Hl IH]; cbn; [reflexivity|].
  destruct (mem x l) eqn:E; [apply mem_In in E; contradiction|]. rewrite IH. reflexivity.
Qed.

Lemma all_histories l ops :
  let s := run l ops in
  NoDup (active s) /\ NoDup (map nid (nodes s)) /\
  (healthy (health_status s) = true ->
   (2 * length (active_in (active s) (voter_ids (nodes s))) > length (voter_ids (nodes s)))%nat
   /\ has_leader (health_status s) = true).
Proof.
  intros s. destruct (run_inv l ops) as [Ha Hn].
  split; [exact Ha|]. split; [exact Hn|].
  intros H. exact (healthy_majority _ _ _ H).
Qed.

Lemma distinct_voters c :
  NoDup (voter_ids c) /\
  forall x, In x (voter_ids c) <-> exists n, In n c /\ nvoter n = true /\ nid n = x.
Proof. split; [apply voter_ids_NoDup | intros x; apply voter_ids_spec]. Qed.
