(* Proofs for C07 on the node-chain model MvccReads.v. *)
From Coq Require Import List NArith Bool Lia ZArith ZifyBool ZifyNat ZifyN.
From Verif Require Import CheckLib Txn Mvcc MvccReads.
Import ListNotations.
Open Scope N_scope.

Arguments N.add : simpl never.
Arguments N.eqb : simpl never.
Arguments N.ltb : simpl never.
Arguments N.leb : simpl never.

Lemma rfind_app_false {A} (p : A -> bool) l x : p x = false -> rfind p (l ++ [x]) = rfind p l.
Proof. intros H. induction l as [|y l IH]; cbn; [now rewrite H|]. now rewrite IH. Qed.

Lemma olast_In {A} (l : list A) y : olast l = Some y -> In y l.
Proof.
  induction l as [|x l IH]; cbn; [discriminate|]. destruct l; [intros E; inversion E; auto|].
  intros E. right. now apply IH.
Qed.

Lemma rfind_upd_last {A} (p : A -> bool) (f : A -> A) l :
  (forall y, olast l = Some y -> p y = false /\ p (f y) = false) ->
  rfind p (upd_last f l) = rfind p l.
Proof.
  induction l as [|x l IH]; cbn; auto. destruct l as [|z l'].
  - intros H. destruct (H x eq_refl) as [H1 H2]. cbn. now rewrite H1, H2.
  - intros H. cbn [rfind] in *. rewrite IH; auto.
Qed.

Lemma rfind_all {A} (p : A -> bool) l : l <> [] -> (forall x, In x l -> p x = true) -> rfind p l <> None.
Proof.
  induction l as [|x l IH]; [congruence|]. intros _ H. cbn. destruct (rfind p l); [congruence|].
  rewrite (H x) by (now left). congruence.
Qed.

Definition wf (s : nstore) : Prop := forall id x, In x (chains s id) -> v_ver x <= ncur s.

Lemma updc_same f k v : updc f k v k = v.
Proof. unfold updc. now rewrite N.eqb_refl. Qed.
Lemma updc_other f k v x : x <> k -> updc f k v x = f x.
Proof. intros H. unfold updc. destruct (N.eqb_spec x k); congruence. Qed.

Lemma In_upd_last {A} (f : A -> A) l y : In y (upd_last f l) -> In y l \/ exists x, In x l /\ y = f x.
Proof.
  induction l as [|x l IH]; cbn; [tauto|]. destruct l as [|z l'].
  - intros [<-|[]]. right. eauto.
  - intros [<-|H]; [auto|]. destruct (IH H) as [H1|[w [H1 H2]]]; [auto | right; eauto].
Qed.

Lemma wf_init : wf ninit.
Proof. intros id x []. Qed.

Lemma wf_chain_upd (cur cur' : N) (ch : N -> list ver) id c :
  (forall i x, In x (ch i) -> v_ver x <= cur) -> cur <= cur' ->
  (forall x, In x c -> v_ver x <= cur') ->
  forall i x, In x (updc ch id c i) -> v_ver x <= cur'.
Proof.
  intros W L C i x. unfold updc. destruct (N.eqb i id); [apply C|]. intros H. apply W in H. lia.
Qed.

Lemma wf_step s o : wf s -> wf (fst (nstep s o)) /\ ncur s <= ncur (fst (nstep s o)).
Proof.
  intros W. unfold wf in *. destruct o; cbn.
  - destruct (nalloc s hint) as [[i fr] nx]. cbn. split; [|lia].
    apply (wf_chain_upd (ncur s)); auto; [lia|]. intros x H.
    apply in_app_or in H as [H|[<-|[]]]; [exact (W _ _ H) | cbn; lia].
  - destruct (olast (chains s id)) as [latest|] eqn:E; cbn; [|split; [auto|lia]].
    destruct (N.ltb (v_ver latest) (ncur s)); unfold with_chain; cbn; (split; [|lia]);
      (apply (wf_chain_upd (ncur s)); auto; [lia|]); intros x H.
    + apply in_app_or in H as [H|[<-|[]]]; [exact (W _ _ H) | cbn; lia].
    + apply In_upd_last in H as [H|[y [H ->]]]; cbn; exact (W _ _ H).
  - destruct (olast (chains s id)) as [latest|] eqn:E; cbn; [|split; [auto|lia]].
    destruct (N.ltb (v_ver latest) (ncur s) && phas k (v_props latest)); unfold with_chain; cbn; (split; [|lia]);
      (apply (wf_chain_upd (ncur s)); auto; [lia|]); intros x H.
    + apply in_app_or in H as [H|[<-|[]]]; [exact (W _ _ H) | cbn; lia].
    + apply In_upd_last in H as [H|[y [H ->]]]; cbn; exact (W _ _ H).
  - split; [|lia]. intros id x H. apply W in H. lia.
  - destruct (read_at s id (ncur s)); cbn; [|split; [auto|lia]]. split; [|lia].
    apply (wf_chain_upd (ncur s)); auto; [lia|]. intros x [].
Qed.

Lemma prem_absent k p : phas k p = false -> prem k p = p.
Proof.
  induction p as [|x p IH]; cbn; auto. intros H. apply orb_false_iff in H as [H1 H2].
  rewrite H1. cbn. f_equal. now apply IH.
Qed.

Lemma upd_last_id {A} (f : A -> A) l : (forall y, olast l = Some y -> f y = y) -> upd_last f l = l.
Proof.
  induction l as [|x l IH]; cbn; auto. destruct l as [|z l'].
  - intros H. now rewrite (H x eq_refl).
  - intros H. f_equal. now apply IH.
Qed.

Lemma stable_step s o id v :
  wf s -> v < ncur s -> is_delete_of id o = false ->
  read_at (fst (nstep s o)) id v = read_at s id v.
Proof.
  intros W Hv Hd. unfold read_at. destruct o; cbn.
  - destruct (nalloc s hint) as [[i fr] nx]. cbn. unfold updc. destruct (N.eqb_spec id i) as [->|]; auto.
    apply rfind_app_false. cbn. lia.
  - destruct (olast (chains s id0)) as [latest|] eqn:E; cbn; auto.
    destruct (N.ltb_spec (v_ver latest) (ncur s)); cbn; unfold updc; destruct (N.eqb_spec id id0) as [->|]; auto.
    + apply rfind_app_false. cbn. lia.
    + apply rfind_upd_last. intros y Hy. rewrite E in Hy. inversion Hy; subst. cbn. lia.
  - destruct (olast (chains s id0)) as [latest|] eqn:E; cbn; auto.
    destruct (N.ltb_spec (v_ver latest) (ncur s)); cbn; [destruct (phas k (v_props latest)) eqn:PH; cbn|];
      unfold updc; destruct (N.eqb_spec id id0) as [->|]; auto.
    + apply rfind_app_false. cbn. lia.
    + rewrite upd_last_id; auto. intros y Hy. rewrite E in Hy. inversion Hy; subst.
      rewrite prem_absent by auto. now destruct y.
    + apply rfind_upd_last. intros y Hy. rewrite E in Hy. inversion Hy; subst. cbn. lia.
  - reflexivity.
  - cbn in Hd. destruct (read_at s id0 (ncur s)); cbn; auto. unfold updc.
    destruct (N.eqb_spec id id0) as [->|]; auto. rewrite N.eqb_refl in Hd. discriminate.
Qed.

Lemma wf_run_from ops s : wf s -> wf (nrun_from s ops) /\ ncur s <= ncur (nrun_from s ops).
Proof.
  revert s. induction ops as [|o ops IH]; intros s W; [cbn; split; [auto|lia]|].
  change (nrun_from s (o :: ops)) with (nrun_from (fst (nstep s o)) ops).
  destruct (wf_step s o W) as [W' L]. destruct (IH _ W') as [W'' L']. split; [auto|lia].
Qed.

Lemma wf_run ops : wf (nrun ops).
Proof. apply wf_run_from, wf_init. Qed.

(* reads at an older version are stable under every later operation, unless the history
   deletes the node whose past is read *)
Lemma read_stable_from ops s id v :
  wf s -> v < ncur s -> Known_C07 id ops = false ->
  read_at (nrun_from s ops) id v = read_at s id v.
Proof.
  revert s. induction ops as [|o ops IH]; intros s W Hv K; auto.
  change (nrun_from s (o :: ops)) with (nrun_from (fst (nstep s o)) ops).
  cbn in K. apply orb_false_iff in K as [K1 K2]. destruct (wf_step s o W) as [W' L].
  rewrite IH; auto; [now apply stable_step | lia].
Qed.

Lemma nrun_app ops1 ops2 : nrun (ops1 ++ ops2) = nrun_from (nrun ops1) ops2.
Proof. unfold nrun, nrun_from. apply fold_left_app. Qed.

Lemma read_stable ops1 ops2 id v :
  v < ncur (nrun ops1) -> Known_C07 id ops2 = false ->
  read_at (nrun (ops1 ++ ops2)) id v = read_at (nrun ops1) id v.
Proof. intros Hv K. rewrite nrun_app. apply read_stable_from; auto. apply wf_run. Qed.

Lemma read_refuted :
  exists ops1 ops2 id v, Known_C07 id ops2 = true /\ v < ncur (nrun ops1) /\
    read_at (nrun (ops1 ++ ops2)) id v <> read_at (nrun ops1) id v.
Proof.
  exists [NCreate 1 [(0, 5)]; NBump], [NDelete 1], 1, 1. vm_compute. repeat split; congruence.
Qed.

Lemma range_from_NoDup s k : NoDup (range_from s k).
Proof.
  assert (H : forall k s x, In x (range_from s k) -> s <= x).
  { induction k0 as [|k0 IH]; cbn; intros s0 x; [tauto|]. intros [<-|Hx]; [lia|]. apply IH in Hx. lia. }
  revert s. induction k as [|k IH]; intros s; cbn; constructor; auto.
  intros Hx. apply H in Hx. lia.
Qed.

(* scans: no id twice; the count is the number of scanned ids, which are exactly the
   entities readable at the current version *)
Lemma scan_unique s : NoDup (scan_ids s) /\ node_count s = N.of_nat (length (scan_ids s)).
Proof. split; [apply NoDup_filter, range_from_NoDup | reflexivity]. Qed.

Lemma filter_ext_all {A} (f g : A -> bool) l : (forall x, f x = g x) -> filter f l = filter g l.
Proof. intros H. induction l; cbn; auto. now rewrite H, IHl. Qed.

Lemma scan_is_live s : wf s -> scan_ids s = live_ids s.
Proof.
  intros W. unfold scan_ids, live_ids. apply filter_ext_all. intros id. unfold read_at.
  destruct (chains s id) as [|x l] eqn:E; [reflexivity|].
  destruct (rfind (fun e => N.leb (v_ver e) (ncur s)) (x :: l)) eqn:R; auto.
  exfalso. revert R. apply rfind_all; [congruence|]. intros y Hy. rewrite <- E in Hy. apply W in Hy. lia.
Qed.

Lemma deleted_unreadable s id s' :
  nstep s (NDelete id) = (s', NOk) -> forall v, read_at s' id v = None.
Proof.
  cbn. destruct (read_at s id (ncur s)); intros H; inversion H; subst. intros w.
  unfold read_at; cbn. now rewrite updc_same.
Qed.

(* the relationship version log as it was before the repair held post-images only: a read
   between a relationship's creation and its first property update returned the properties
   current at read time; the repaired functions answer the same history stably *)
Lemma edge_read_original_defect :
  let ops1 := [Mvcc.CreateNode []; Mvcc.CreateNode []; Mvcc.CreateEdge 1 2; Tx (Begin RC); Tx (Commit 1)] in
  let s1 := Mvcc.run ops1 in
  1 < curv s1 /\
  read_edge_orig (set_edge_orig s1 1 0 5) 1 1 <> read_edge_orig s1 1 1 /\
  read_edge (Mvcc.run (ops1 ++ [SetEdge 1 0 5])) 1 1 = read_edge s1 1 1 /\
  read_edge s1 1 1 = Some {| v_ver := 1; v_props := [] |}.
Proof. vm_compute. repeat split; congruence. Qed.

(* ---------------- read = state as of that version in the monotone history ---------------- *)
Lemma rfind_app {A} (p : A -> bool) l x : rfind p (l ++ [x]) = if p x then Some x else rfind p l.
Proof.
  induction l as [|y l IH]; cbn [app rfind]; [destruct (p x); reflexivity|].
  rewrite IH. destruct (p x); reflexivity.
Qed.

Lemma rfind_last_true {A} (p : A -> bool) l y : olast l = Some y -> p y = true -> rfind p l = Some y.
Proof.
  induction l as [|x l IH]; [discriminate|]. destruct l as [|z l'].
  - cbn. intros [= ->] ->. reflexivity.
  - intros H Hp. change (olast (x :: z :: l')) with (olast (z :: l')) in H.
    cbn [rfind]. cbn [rfind] in IH. rewrite (IH H Hp). reflexivity.
Qed.

Lemma olast_upd_last {A} (f : A -> A) l y : olast l = Some y -> olast (upd_last f l) = Some (f y).
Proof.
  induction l as [|x l IH]; [discriminate|]. destruct l as [|z l'].
  - cbn. intros [= ->]. reflexivity.
  - intros H. change (olast (x :: z :: l')) with (olast (z :: l')) in H.
    change (upd_last f (x :: z :: l')) with (x :: upd_last f (z :: l')).
    specialize (IH H). destruct (upd_last f (z :: l')) eqn:E; [discriminate|]. exact IH.
Qed.

Lemma olast_app {A} (l : list A) x : olast (l ++ [x]) = Some x.
Proof.
  induction l as [|y l IH]; [reflexivity|]. cbn [app]. destruct (l ++ [x]) eqn:E; [destruct l; discriminate|].
  exact IH.
Qed.

Lemma asof_app evs e id v :
  asof (evs ++ [e]) id v = if N.eqb (ev_id e) id && N.leb (ev_ver e) v then ev_state e else asof evs id v.
Proof. unfold asof. rewrite rfind_app. destruct (_ && _); reflexivity. Qed.

Lemma state_of_app evs e id :
  state_of (evs ++ [e]) id = if N.eqb (ev_id e) id then ev_state e else state_of evs id.
Proof. unfold state_of. rewrite rfind_app. destruct (N.eqb _ _); reflexivity. Qed.

(* the relation between the chain of [id] and its recorded history *)
Definition Rel (id : N) (s : nstore) (evs : list event) : Prop :=
  wf s /\
  state_of evs id = option_map v_props (olast (chains s id)) /\
  forall v, option_map v_props (read_at s id v) = asof evs id v.

Lemma rel_init id : Rel id ninit [].
Proof. split; [apply wf_init|]. split; reflexivity. Qed.

(* appending an entry at the current version to the chain and the matching event *)
Lemma rel_append id s evs c p chain' :
  (forall v, option_map v_props (rfind (fun e => N.leb (v_ver e) v) chain') =
             if N.leb c v then Some p else option_map v_props (read_at s id v)) ->
  option_map v_props (olast chain') = Some p ->
  (forall v, option_map v_props (read_at s id v) = asof evs id v) ->
  (state_of (evs ++ [(id, c, Some p)]) id = option_map v_props (olast chain')) /\
  (forall v, option_map v_props (rfind (fun e => N.leb (v_ver e) v) chain') = asof (evs ++ [(id, c, Some p)]) id v).
Proof.
  intros H1 H2 H3. split.
  - rewrite state_of_app. unfold ev_id; cbn [fst]. rewrite N.eqb_refl. cbn. symmetry. exact H2.
  - intros v. rewrite asof_app. unfold ev_id, ev_ver, ev_state; cbn [fst snd]. rewrite N.eqb_refl. cbn [andb].
    rewrite H1, H3. reflexivity.
Qed.

Lemma chain_app_reads s id c p v :
  option_map v_props (rfind (fun e => N.leb (v_ver e) v) (chains s id ++ [{| v_ver := c; v_props := p |}])) =
  if N.leb c v then Some p else option_map v_props (read_at s id v).
Proof. rewrite rfind_app. cbn [v_ver]. destruct (N.leb c v); reflexivity. Qed.

Lemma chain_upd_reads s id (f : ver -> ver) latest v :
  wf s -> olast (chains s id) = Some latest -> N.ltb (v_ver latest) (ncur s) = false ->
  (forall e, v_ver (f e) = v_ver e) ->
  option_map v_props (rfind (fun e => N.leb (v_ver e) v) (upd_last f (chains s id))) =
  if N.leb (ncur s) v then Some (v_props (f latest)) else option_map v_props (read_at s id v).
Proof.
  intros W Ho Hlt Hf.
  assert (v_ver latest = ncur s) as Hv.
  { pose proof (W id latest (olast_In _ _ Ho)). lia. }
  destruct (N.leb (ncur s) v) eqn:E.
  - rewrite (rfind_last_true _ _ (f latest)); [reflexivity|apply olast_upd_last; exact Ho|]. rewrite Hf. lia.
  - unfold read_at. rewrite rfind_upd_last; [reflexivity|].
    intros y Hy. rewrite Ho in Hy. injection Hy as <-. rewrite Hf. split; lia.
Qed.

Lemma rel_other id id' (ch ch' : list ver) (evs evs' : list event) :
  id' <> id -> ch' = ch ->
  (evs' = evs \/ exists e, evs' = evs ++ [e] /\ ev_id e = id') ->
  state_of evs id = option_map v_props (olast ch) ->
  (forall v, option_map v_props (rfind (fun e => N.leb (v_ver e) v) ch) = asof evs id v) ->
  state_of evs' id = option_map v_props (olast ch') /\
  (forall v, option_map v_props (rfind (fun e => N.leb (v_ver e) v) ch') = asof evs' id v).
Proof.
  intros Hne -> [->|[e [-> He]]] HS HR; [split; assumption|]. split.
  - rewrite state_of_app, He. destruct (N.eqb_spec id' id); [congruence|exact HS].
  - intros v. rewrite asof_app, He. destruct (N.eqb_spec id' id); [congruence|apply HR].
Qed.

Lemma rel_step id s evs o :
  is_delete_of id o = false -> Rel id s evs ->
  Rel id (fst (nstep s o)) (hstep (ncur s) evs o (snd (nstep s o))).
Proof.
  intros Hd [W [HS HR]]. split; [apply wf_step; exact W|].
  destruct o as [hint p|id' k x|id' k|  |id']; cbn [nstep].
  - (* create *)
    destruct (nalloc s hint) as [[i fr] nx] eqn:Ea. cbn [fst snd hstep chains]. unfold read_at. cbn [chains].
    destruct (N.eqb_spec id i) as [->|Hne].
    + rewrite updc_same. apply (rel_append i s evs (ncur s) p); auto.
      * intros v. apply chain_app_reads.
      * rewrite olast_app. reflexivity.
    + rewrite updc_other by auto. split.
      * rewrite state_of_app. unfold ev_id; cbn [fst]. destruct (N.eqb_spec i id); [congruence|]. exact HS.
      * intros v. rewrite asof_app. unfold ev_id; cbn [fst]. destruct (N.eqb_spec i id); [congruence|]. apply HR.
  - (* set *)
    destruct (olast (chains s id')) as [latest|] eqn:Eo; cbn [fst snd hstep]; [|split; assumption].
    destruct (N.eqb_spec id id') as [<-|Hne].
    + rewrite HS, Eo. cbn [option_map].
      destruct (N.ltb (v_ver latest) (ncur s)) eqn:E1; cbn [fst snd]; unfold read_at, with_chain; cbn [chains];
        rewrite updc_same.
      * apply (rel_append id s evs (ncur s)); auto.
        -- intros v. apply chain_app_reads.
        -- rewrite olast_app. reflexivity.
      * apply (rel_append id s evs (ncur s)); auto.
        -- intros v. rewrite (chain_upd_reads s id _ latest v W Eo E1); reflexivity.
        -- rewrite (olast_upd_last _ _ latest Eo). reflexivity.
    + destruct (N.ltb (v_ver latest) (ncur s)); cbn [fst snd]; unfold read_at, with_chain; cbn [chains];
        (eapply (rel_other id id' (chains s id) _ evs); [congruence|apply updc_other; auto| |exact HS|exact HR]);
        (destruct (state_of evs id'); [right; eexists; split; reflexivity|left; reflexivity]).
  - (* remove *)
    destruct (olast (chains s id')) as [latest|] eqn:Eo; cbn [fst snd hstep].
    2:{ destruct (N.eqb_spec id id') as [<-|Hne].
        - pose proof HS as HS'. rewrite Eo in HS'. cbn in HS'. rewrite HS'. split; [rewrite HS', Eo; reflexivity|exact HR].
        - destruct (state_of evs id') as [st|]; [|split; assumption]. split.
          + rewrite state_of_app; unfold ev_id; cbn [fst]; destruct (N.eqb_spec id' id); [congruence|exact HS].
          + intros v; rewrite asof_app; unfold ev_id; cbn [fst]; destruct (N.eqb_spec id' id); [congruence|apply HR]. }
    destruct (N.eqb_spec id id') as [<-|Hne].
    + rewrite HS, Eo. cbn [option_map].
      destruct (N.ltb (v_ver latest) (ncur s)) eqn:E1; cbn [andb].
      * destruct (phas k (v_props latest)) eqn:PH; cbn [fst snd]; unfold read_at, with_chain; cbn [chains];
          rewrite updc_same.
        -- apply (rel_append id s evs (ncur s)); auto.
           ++ intros v. apply chain_app_reads.
           ++ rewrite olast_app. reflexivity.
        -- (* nothing to remove from an older version: the chain is unchanged, the event repeats the state *)
           rewrite upd_last_id.
           2:{ intros y Hy. rewrite Eo in Hy. injection Hy as <-. rewrite prem_absent by auto. destruct latest; reflexivity. }
           rewrite prem_absent by auto.
           apply (rel_append id s evs (ncur s)); auto.
           ++ intros v. destruct (N.leb (ncur s) v) eqn:E; [|reflexivity].
              rewrite (rfind_last_true _ _ latest Eo); [reflexivity|].
              pose proof (W id latest (olast_In _ _ Eo)). lia.
           ++ rewrite Eo. reflexivity.
      * cbn [fst snd]; unfold read_at, with_chain; cbn [chains]; rewrite updc_same.
        apply (rel_append id s evs (ncur s)); auto.
        -- intros v. rewrite (chain_upd_reads s id _ latest v W Eo E1); reflexivity.
        -- rewrite (olast_upd_last _ _ latest Eo). reflexivity.
    + destruct (N.ltb (v_ver latest) (ncur s) && phas k (v_props latest)); cbn [fst snd]; unfold read_at, with_chain; cbn [chains];
        (eapply (rel_other id id' (chains s id) _ evs); [congruence|apply updc_other; auto| |exact HS|exact HR]);
        (destruct (state_of evs id'); [right; eexists; split; reflexivity|left; reflexivity]).
  - (* bump *) cbn. split; assumption.
  - (* delete of another node *)
    cbn in Hd. destruct (N.eqb_spec id' id) as [E|Hne]; [discriminate|].
    destruct (read_at s id' (ncur s)) as [r0|]; cbn [fst snd hstep]; [|split; assumption].
    unfold read_at; cbn [chains]. rewrite updc_other by auto. split.
    + rewrite state_of_app; unfold ev_id; cbn [fst]; destruct (N.eqb_spec id' id); [congruence|exact HS].
    + intros w; rewrite asof_app; unfold ev_id; cbn [fst]; destruct (N.eqb_spec id' id); [congruence|apply HR].
Qed.

Lemma rel_run_from id ops : forall sh,
  Known_C07 id ops = false -> Rel id (fst sh) (snd sh) ->
  Rel id (fst (hrun_from sh ops)) (snd (hrun_from sh ops)).
Proof.
  induction ops as [|o ops IH]; intros sh K R; [exact R|].
  cbn in K. apply orb_false_iff in K as [K1 K2].
  unfold hrun_from in *. cbn [fold_left]. apply IH; auto.
  unfold hgstep. pose proof (rel_step id (fst sh) (snd sh) o K1 R) as H.
  destruct (nstep (fst sh) o) as [s' r]. exact H.
Qed.

Lemma hrun_fst ops : forall sh, fst (hrun_from sh ops) = nrun_from (fst sh) ops.
Proof.
  induction ops as [|o ops IH]; intros sh; [reflexivity|].
  unfold hrun_from, nrun_from in *. cbn [fold_left]. rewrite IH. unfold hgstep.
  destruct (nstep (fst sh) o); reflexivity.
Qed.

Theorem read_is_asof : forall ops id v,
  Known_C07 id ops = false ->
  fst (hrun ops) = nrun ops /\
  option_map v_props (read_at (nrun ops) id v) = asof (snd (hrun ops)) id v.
Proof.
  intros ops id v K. split; [apply hrun_fst|].
  pose proof (rel_run_from id ops (ninit, []) K (rel_init id)) as [_ [_ H]].
  rewrite (hrun_fst ops (ninit, [])) in H. cbn [fst] in H. unfold hrun, nrun. apply H.
Qed.
