(* Proofs for C26: the executable specifications of model/Algos.v equal their
   declarative (inductive / quantified) definitions, for every graph. *)
From Coq Require Import List NArith Bool Arith Lia ZifyBool ZifyNat ZifyN FinFun.
From Verif Require Import CheckLib Algos.
Import ListNotations.

(* ================================================================== *)
(* Declarative definitions                                              *)
(* ================================================================== *)

Definition wf (g : graph) : Prop :=
  forall u v w, In (u, v, w) (ge g) -> u < gn g /\ v < gn g.

(* a walk from s with at most k edges, ending in v, of total weight c *)
Inductive walkn (g : graph) (s : nat) : nat -> nat -> N -> Prop :=
| W0 : forall k, walkn g s k s 0%N
| WS : forall k x v w c, walkn g s k x c -> In (x, v, w) (ge g) -> walkn g s (S k) v (c + w)%N.

Definition walk (g : graph) (s v : nat) (c : N) : Prop := exists k, walkn g s k v c.
Definition reach (g : graph) (s v : nat) : Prop := exists c, walk g s v c.

(* o is the cheapest walk cost from s to v (None: there is no walk) *)
Definition is_dist (g : graph) (s v : nat) (o : option N) : Prop :=
  match o with
  | Some c => walk g s v c /\ forall c', walk g s v c' -> (c <= c')%N
  | None => ~ reach g s v
  end.

(* a vertex list that is a path of the graph, with the weights of the chosen edges summing to c *)
Inductive path_cost (g : graph) : list nat -> N -> Prop :=
| PC1 : forall v, path_cost g [v] 0%N
| PCS : forall u v w p c, In (u, v, w) (ge g) -> path_cost g (v :: p) c ->
                          path_cost g (u :: v :: p) (w + c)%N.

Definition mutual (g : graph) (u v : nat) : Prop := reach g u v /\ reach g v u.

Definition is_mincut (g : graph) (s t : nat) (c : N) : Prop :=
  (exists S : nat -> bool, S s = true /\ S t = false /\ cut_cap g S = c) /\
  (forall S : nat -> bool, S s = true -> S t = false -> (c <= cut_cap g S)%N).

Inductive sublist {A} : list A -> list A -> Prop :=
| SL_nil : forall l, sublist [] l
| SL_cons : forall x a b, sublist a b -> sublist (x :: a) (x :: b)
| SL_skip : forall x a b, sublist a b -> sublist a (x :: b).

(* T: a set of edges of g (a sub-multiset of the edge list), with |C|-1 edges, that connects
   every node of 0's undirected component C to node 0 *)
Definition spanning_tree (g : graph) (T : list edge) : Prop :=
  sublist T (ge g) /\
  length T = length (comp_of (sym g) 0) - 1 /\
  forall v, v < gn g -> reach (sym g) 0 v -> reach (sym {| gn := gn g; ge := T |}) 0 v.

Definition is_mst_weight (g : graph) (c : N) : Prop :=
  (exists T, spanning_tree g T /\ tweight T = c) /\
  (forall T, spanning_tree g T -> (c <= tweight T)%N).

Definition arc (g : graph) (u v : nat) : Prop := exists w, In (u, v, w) (ge g).
Definition adj (g : graph) (u v : nat) : Prop := arc g u v \/ arc g v u.

(* ================================================================== *)
(* small list facts                                                     *)
(* ================================================================== *)

Lemma nth_map_seq : forall {A} (f : nat -> A) n v d, v < n -> nth v (map f (seq 0 n)) d = f v.
Proof.
  intros A f n v d Hv.
  rewrite nth_indep with (d' := f 0) by (rewrite map_length, seq_length; exact Hv).
  rewrite map_nth. rewrite seq_nth by exact Hv. reflexivity.
Qed.

Lemma nodup_app : forall {A} (a b : list A),
  NoDup a -> NoDup b -> (forall x, In x a -> ~ In x b) -> NoDup (a ++ b).
Proof.
  intros A a; induction a as [|x a IH]; intros b Ha Hb Hd; cbn; [exact Hb|].
  inversion Ha as [|? ? Hx Ha']; subst. constructor.
  - rewrite in_app_iff. intros [H|H]; [exact (Hx H)|]. exact (Hd x (or_introl eq_refl) H).
  - apply IH; auto. intros y Hy. apply Hd. right; exact Hy.
Qed.

Lemma nodup_list_prod : forall {A B} (a : list A) (b : list B),
  NoDup a -> NoDup b -> NoDup (list_prod a b).
Proof.
  intros A B a; induction a as [|x a IH]; intros b Ha Hb; cbn; [constructor|].
  inversion Ha as [|? ? Hx Ha']; subst. apply nodup_app.
  - apply Injective_map_NoDup; [|exact Hb]. intros p q E; inversion E; reflexivity.
  - apply IH; assumption.
  - intros [p q] H1 H2. apply in_map_iff in H1. destruct H1 as [y [E _]]. inversion E; subst.
    apply in_prod_iff in H2. exact (Hx (proj1 H2)).
Qed.

Lemma wfb_wf : forall g, wfb g = true <-> wf g.
Proof.
  intros g; unfold wfb, wf. rewrite forallb_forall. split.
  - intros H u v w Hin. specialize (H _ Hin). unfold esrc, edst in H. cbn [fst snd] in H.
    apply andb_true_iff in H. rewrite !Nat.ltb_lt in H. exact H.
  - intros H [[u v] w] Hin. specialize (H _ _ _ Hin). unfold esrc, edst. cbn [fst snd].
    apply andb_true_iff. rewrite !Nat.ltb_lt. exact H.
Qed.

Lemma sym_edges : forall g u v w,
  In (u, v, w) (ge (sym g)) <-> In (u, v, w) (ge g) \/ In (v, u, w) (ge g).
Proof.
  intros g u v w. cbn. rewrite in_app_iff, in_map_iff. split.
  - intros [H|[[[a b] c] [E H]]]; [left; exact H|]. unfold rev_edge in E; cbn in E.
    inversion E; subst. right; exact H.
  - intros [H|H]; [left; exact H|]. right. exists (v, u, w). split; [reflexivity|exact H].
Qed.

Lemma unitw_edges : forall g u v w,
  In (u, v, w) (ge (unitw g)) <-> w = 1%N /\ exists w', In (u, v, w') (ge g).
Proof.
  intros g u v w. cbn. rewrite in_map_iff. split.
  - intros [[[a b] c] [E H]]. cbn in E. inversion E; subst. split; [reflexivity|]. exists c; exact H.
  - intros [-> [w' H]]. exists (u, v, w'). split; [reflexivity|exact H].
Qed.

Lemma wf_sym : forall g, wf g -> wf (sym g).
Proof.
  intros g H u v w Hin. apply sym_edges in Hin. destruct Hin as [Hin|Hin]; apply H in Hin; cbn; tauto.
Qed.

Lemma wf_unitw : forall g, wf g -> wf (unitw g).
Proof.
  intros g H u v w Hin. apply unitw_edges in Hin. destruct Hin as [_ [w' Hin]]. apply H in Hin. exact Hin.
Qed.

(* ================================================================== *)
(* walks                                                                *)
(* ================================================================== *)

Lemma walkn_S : forall g s k v c, walkn g s k v c -> walkn g s (S k) v c.
Proof.
  intros g s k v c H; induction H as [k|k x v w c H IH Hin]; [constructor|].
  econstructor; eassumption.
Qed.

Lemma walkn_le : forall g s k k' v c, k <= k' -> walkn g s k v c -> walkn g s k' v c.
Proof.
  intros g s k k' v c Hle H. induction Hle; [exact H|]. apply walkn_S; exact IHHle.
Qed.

Lemma walkn_app : forall g s k1 x c1, walkn g s k1 x c1 ->
  forall k2 v c2, walkn g x k2 v c2 -> walkn g s (k1 + k2) v (c1 + c2)%N.
Proof.
  intros g s k1 x c1 H1 k2 v c2 H2. induction H2 as [k|k y v w c H2 IH Hin].
  - rewrite N.add_0_r. apply walkn_le with (k := k1); [lia|exact H1].
  - replace (k1 + S k) with (S (k1 + k)) by lia. rewrite N.add_assoc.
    econstructor; eassumption.
Qed.

Lemma walk_refl : forall g s, walk g s s 0%N.
Proof. intros g s. exists 0. constructor. Qed.

Lemma walk_trans : forall g s x v c1 c2, walk g s x c1 -> walk g x v c2 -> walk g s v (c1 + c2)%N.
Proof.
  intros g s x v c1 c2 [k1 H1] [k2 H2]. exists (k1 + k2). eapply walkn_app; eassumption.
Qed.

Lemma walk_edge : forall g u v w, In (u, v, w) (ge g) -> walk g u v w.
Proof.
  intros g u v w H. exists 1. replace w with (0 + w)%N by lia. econstructor; [constructor|exact H].
Qed.

Lemma reach_refl : forall g s, reach g s s.
Proof. intros g s. exists 0%N. apply walk_refl. Qed.

Lemma reach_trans : forall g a b c, reach g a b -> reach g b c -> reach g a c.
Proof.
  intros g a b c [c1 H1] [c2 H2]. exists (c1 + c2)%N. eapply walk_trans; eassumption.
Qed.

Lemma walkn_end_lt : forall g s k v c, wf g -> s < gn g -> walkn g s k v c -> v < gn g.
Proof.
  intros g s k v c Hwf Hs H. destruct H as [k|k x v w c H Hin]; [exact Hs|].
  apply Hwf in Hin. tauto.
Qed.

(* simple walks: the visited vertices (most recent first) are pairwise distinct *)
Inductive swalk (g : graph) (s : nat) : list nat -> nat -> N -> Prop :=
| SW0 : swalk g s [s] s 0%N
| SWS : forall l x c v w, swalk g s l x c -> In (x, v, w) (ge g) -> ~ In v l ->
                          swalk g s (v :: l) v (c + w)%N.

Lemma swalk_facts : forall g s l v c, wf g -> s < gn g -> swalk g s l v c ->
  NoDup l /\ In v l /\ (forall y, In y l -> y < gn g) /\ walkn g s (length l - 1) v c.
Proof.
  intros g s l v c Hwf Hs H. induction H as [|l x c v w H IH Hin Hni].
  - repeat split.
    + constructor; [intros []|constructor].
    + left; reflexivity.
    + intros y [<-|[]]. exact Hs.
    + cbn. constructor.
  - destruct IH as [Hnd [Hx [Hr Hw]]]. repeat split.
    + constructor; assumption.
    + left; reflexivity.
    + intros y [<-|Hy]; [apply Hwf in Hin; tauto|apply Hr; exact Hy].
    + destruct l as [|z l]; [destruct Hx|]. cbn [length] in *.
      replace (S (S (length l)) - 1) with (S (S (length l) - 1)) by lia.
      econstructor; eassumption.
Qed.

Lemma swalk_truncate : forall g s l x c, swalk g s l x c ->
  forall v, In v l -> exists l' c', (c' <= c)%N /\ swalk g s l' v c'.
Proof.
  intros g s l x c H. induction H as [|l x c v0 w H IH Hin Hni]; intros v Hv.
  - destruct Hv as [<-|[]]. exists [s], 0%N. split; [lia|constructor].
  - destruct Hv as [<-|Hv].
    + exists (v0 :: l), (c + w)%N. split; [lia|]. econstructor; eassumption.
    + destruct (IH v Hv) as [l' [c' [Hle Hs]]]. exists l', c'. split; [lia|exact Hs].
Qed.

Lemma walkn_simplify : forall g s k v c, walkn g s k v c ->
  exists l c', (c' <= c)%N /\ swalk g s l v c'.
Proof.
  intros g s k v c H. induction H as [k|k x v w c H IH Hin].
  - exists [s], 0%N. split; [lia|constructor].
  - destruct IH as [l [c' [Hle Hs]]].
    destruct (in_dec Nat.eq_dec v l) as [Hv|Hv].
    + destruct (swalk_truncate _ _ _ _ _ Hs v Hv) as [l' [c'' [Hle' Hs']]].
      exists l', c''. split; [lia|exact Hs'].
    + exists (v :: l), (c' + w)%N. split; [lia|]. econstructor; eassumption.
Qed.

(* every walk can be replaced by one with at most |V|-1 edges that is not more expensive *)
Lemma walk_short : forall g s v c, wf g -> s < gn g -> walk g s v c ->
  exists c', (c' <= c)%N /\ walkn g s (gn g - 1) v c'.
Proof.
  intros g s v c Hwf Hs [k H].
  destruct (walkn_simplify _ _ _ _ _ H) as [l [c' [Hle Hsw]]].
  destruct (swalk_facts _ _ _ _ _ Hwf Hs Hsw) as [Hnd [_ [Hr Hw]]].
  exists c'. split; [exact Hle|].
  assert (Hlen : length l <= gn g).
  { rewrite <- (seq_length (gn g) 0). apply NoDup_incl_length; [exact Hnd|].
    intros y Hy. apply in_seq. specialize (Hr y Hy). lia. }
  eapply walkn_le; [|exact Hw]. lia.
Qed.

(* ================================================================== *)
(* relaxation rounds compute the cheapest bounded walks                 *)
(* ================================================================== *)

Definition ole (r x : option N) : Prop :=
  forall c, x = Some c -> exists c0, r = Some c0 /\ (c0 <= c)%N.

Lemma ole_refl : forall r, ole r r.
Proof. intros r c H. exists c. split; [exact H|lia]. Qed.

Lemma ole_trans : forall a b c, ole a b -> ole b c -> ole a c.
Proof.
  intros a b c H1 H2 x Hx. destruct (H2 x Hx) as [y [Hy Hle]].
  destruct (H1 y Hy) as [z [Hz Hle']]. exists z. split; [exact Hz|lia].
Qed.

Lemma ole_omin_l : forall a b, ole (omin a b) a.
Proof.
  intros [a|] [b|] c H; inversion H; subst; cbn; eexists; split; try reflexivity; lia.
Qed.
Lemma ole_omin_r : forall a b, ole (omin a b) b.
Proof.
  intros [a|] [b|] c H; inversion H; subst; cbn; eexists; split; try reflexivity; lia.
Qed.
Lemma omin_cases : forall a b, omin a b = a \/ omin a b = b.
Proof.
  intros [a|] [b|]; cbn; auto. destruct (N.min_spec a b) as [[_ ->]|[_ ->]]; auto.
Qed.

Lemma relax_fold : forall (cand : edge -> option N) v E a,
  let r := fold_left (fun acc e => if edst e =? v then omin acc (cand e) else acc) E a in
  (r = a \/ exists e, In e E /\ edst e = v /\ r = cand e) /\
  ole r a /\
  (forall e, In e E -> edst e = v -> ole r (cand e)).
Proof.
  intros cand v E; induction E as [|e E IH]; intros a; cbn.
  - split; [left; reflexivity|]. split; [apply ole_refl|]. intros e [].
  - destruct (Nat.eqb_spec (edst e) v) as [Ee|Ne].
    + specialize (IH (omin a (cand e))). cbn in IH. destruct IH as [Hc [Hle Hall]]. split; [|split].
      * destruct Hc as [Hc|[e' [Hin [Hd Hr]]]].
        -- destruct (omin_cases a (cand e)) as [Hm|Hm].
           ++ left. rewrite Hc. exact Hm.
           ++ right. exists e. split; [left; reflexivity|]. split; [exact Ee|rewrite Hc; exact Hm].
        -- right. exists e'. split; [right; exact Hin|]. split; assumption.
      * eapply ole_trans; [exact Hle|apply ole_omin_l].
      * intros e' [<-|Hin] Hd.
        -- eapply ole_trans; [exact Hle|apply ole_omin_r].
        -- apply Hall; assumption.
    + specialize (IH a). cbn in IH. destruct IH as [Hc [Hle Hall]]. split; [|split].
      * destruct Hc as [Hc|[e' [Hin [Hd Hr]]]]; [left; exact Hc|].
        right. exists e'. split; [right; exact Hin|]. split; assumption.
      * exact Hle.
      * intros e' [<-|Hin] Hd; [contradiction|]. apply Hall; assumption.
Qed.

(* d is exact for walks of at most k edges *)
Definition exact_k (g : graph) (s k : nat) (d : dvec) : Prop :=
  length d = gn g /\
  forall v, v < gn g ->
    (forall c, dget d v = Some c -> walkn g s k v c) /\
    (forall c, walkn g s k v c -> exists c0, dget d v = Some c0 /\ (c0 <= c)%N).

Lemma exact_init : forall g s, exact_k g s 0 (dinit g s).
Proof.
  intros g s. split; [unfold dinit; rewrite map_length, seq_length; reflexivity|].
  intros v Hv. unfold dget, dinit. rewrite nth_map_seq by exact Hv. split.
  - intros c H. destruct (Nat.eqb_spec v s) as [->|]; [|discriminate]. inversion H; subst. constructor.
  - intros c H. inversion H; subst. rewrite Nat.eqb_refl. exists 0%N. split; [reflexivity|lia].
Qed.

Lemma dget_relax : forall g d v, v < gn g -> dget (relax g d) v = relax1 g d v.
Proof. intros g d v Hv. unfold dget, relax. apply nth_map_seq; exact Hv. Qed.

Lemma exact_step : forall g s k d, wf g -> exact_k g s k d -> exact_k g s (S k) (relax g d).
Proof.
  intros g s k d Hwf [Hlen Hd]. split; [unfold relax; rewrite map_length, seq_length; reflexivity|].
  intros v Hv. rewrite dget_relax by exact Hv. unfold relax1.
  pose proof (relax_fold (fun e => oadd (dget d (esrc e)) (ew e)) v (ge g) (dget d v)) as HF.
  cbn zeta in HF. destruct HF as [Hc [Hle Hall]].
  set (r := fold_left _ (ge g) (dget d v)) in *. split.
  - intros c Hr. destruct Hc as [Hc|[[[x y] w] [Hin [Hy Hc]]]].
    + apply walkn_S. apply (proj1 (Hd v Hv)). rewrite <- Hc. exact Hr.
    + cbn in Hy, Hc. subst y. rewrite Hr in Hc.
      destruct (dget d x) as [cx|] eqn:Ex; cbn in Hc; [|discriminate]. inversion Hc; subst.
      econstructor; [|exact Hin]. apply (proj1 (Hd x (proj1 (Hwf _ _ _ Hin)))). exact Ex.
  - intros c Hw. inversion Hw as [k0|k0 x v0 w c1 Hw1 Hin]; subst.
    + destruct (proj2 (Hd _ Hv) 0%N (W0 _ _ k)) as [c0 [E0 Hle0]].
      destruct (Hle _ E0) as [c1 [E1 Hle1]]. exists c1. split; [exact E1|lia].
    + destruct (proj2 (Hd x (proj1 (Hwf _ _ _ Hin))) c1 Hw1) as [c0 [E0 Hle0]].
      assert (Ho : ole r (oadd (dget d x) w)) by (apply (Hall (x, v, w) Hin); reflexivity).
      rewrite E0 in Ho. cbn in Ho. destruct (Ho _ eq_refl) as [r0 [Er Hler]].
      exists r0. split; [exact Er|lia].
Qed.

Lemma exact_iter : forall g s k, wf g -> exact_k g s k (iter k (relax g) (dinit g s)).
Proof.
  intros g s k Hwf; induction k as [|k IH]; cbn; [apply exact_init|].
  apply exact_step; assumption.
Qed.

(* C26_spec_shortest : the relaxation spec is the cheapest walk cost *)
Theorem sp_cost_spec : forall g s t, wf g -> s < gn g -> t < gn g ->
  is_dist g s t (sp_cost g s t).
Proof.
  intros g s t Hwf Hs Ht. unfold sp_cost, bf.
  destruct (exact_iter g s (gn g) Hwf) as [_ H]. specialize (H t Ht). destruct H as [H1 H2].
  destruct (dget (iter (gn g) (relax g) (dinit g s)) t) as [c|] eqn:E; cbn.
  - split; [exists (gn g); apply H1; reflexivity|].
    intros c' Hw. destruct (walk_short _ _ _ _ Hwf Hs Hw) as [c'' [Hle Hn]].
    assert (Hn' : walkn g s (gn g) t c'') by (eapply walkn_le; [|exact Hn]; lia).
    destruct (H2 c'' Hn') as [c0 [E0 Hle0]].
    inversion E0; subst. lia.
  - intros [c Hw]. destruct (walk_short _ _ _ _ Hwf Hs Hw) as [c'' [Hle Hn]].
    assert (Hn' : walkn g s (gn g) t c'') by (eapply walkn_le; [|exact Hn]; lia).
    destruct (H2 c'' Hn') as [c0 [E0 _]]. discriminate.
Qed.

Theorem hop_dist_spec : forall g s t, wf g -> s < gn g -> t < gn g ->
  is_dist (unitw g) s t (hop_dist g s t).
Proof.
  intros g s t Hwf Hs Ht. unfold hop_dist. apply sp_cost_spec; [apply wf_unitw; exact Hwf| |]; assumption.
Qed.

Theorem reachb_spec : forall g s t, wf g -> s < gn g -> t < gn g ->
  reachb g s t = true <-> reach g s t.
Proof.
  intros g s t Hwf Hs Ht. unfold reachb. pose proof (sp_cost_spec g s t Hwf Hs Ht) as H.
  destruct (sp_cost g s t) as [c|]; cbn in *.
  - split; [intros _; exists c; exact (proj1 H)|reflexivity].
  - split; [discriminate|intros Hr; contradiction].
Qed.

(* ================================================================== *)
(* components = classes of mutual reachability                          *)
(* ================================================================== *)

Lemma mutual_refl : forall g u, mutual g u u.
Proof. intros; split; apply reach_refl. Qed.
Lemma mutual_sym : forall g u v, mutual g u v -> mutual g v u.
Proof. intros g u v [H1 H2]; split; assumption. Qed.
Lemma mutual_trans : forall g a b c, mutual g a b -> mutual g b c -> mutual g a c.
Proof. intros g a b c [H1 H2] [H3 H4]; split; eapply reach_trans; eassumption. Qed.

Definition comp_pred (g : graph) (u v : nat) : bool :=
  is_some (dget (bf g u) v) && reachb g v u.

Lemma comp_pred_spec : forall g u v, wf g -> u < gn g -> v < gn g ->
  comp_pred g u v = true <-> mutual g u v.
Proof.
  intros g u v Hwf Hu Hv. unfold comp_pred, mutual.
  change (is_some (dget (bf g u) v)) with (reachb g u v).
  rewrite andb_true_iff, !reachb_spec by assumption. reflexivity.
Qed.

Lemma comp_of_in : forall g u v, wf g -> u < gn g ->
  In v (comp_of g u) <-> v < gn g /\ mutual g u v.
Proof.
  intros g u v Hwf Hu. unfold comp_of. cbn zeta.
  change (fun v0 => is_some (dget (bf g u) v0) && reachb g v0 u) with (comp_pred g u).
  rewrite filter_In, in_seq. split.
  - intros [Hr Hp]. assert (Hv : v < gn g) by lia. split; [exact Hv|]. apply comp_pred_spec; assumption.
  - intros [Hv Hm]. split; [lia|]. apply comp_pred_spec; assumption.
Qed.

Lemma comp_of_nodup : forall g u, NoDup (comp_of g u).
Proof. intros g u. unfold comp_of. apply NoDup_filter, seq_NoDup. Qed.

Lemma comp_of_eq : forall g u u', wf g -> u < gn g -> u' < gn g -> mutual g u u' ->
  comp_of g u = comp_of g u'.
Proof.
  intros g u u' Hwf Hu Hu' Hm. unfold comp_of. cbn zeta.
  change (fun v0 => is_some (dget (bf g u) v0) && reachb g v0 u) with (comp_pred g u).
  change (fun v0 => is_some (dget (bf g u') v0) && reachb g v0 u') with (comp_pred g u').
  apply filter_ext_in. intros v Hv. apply in_seq in Hv. assert (Hv' : v < gn g) by lia.
  apply eq_true_iff_eq. rewrite !comp_pred_spec by assumption. split; intros H.
  - eapply mutual_trans; [apply mutual_sym; exact Hm|exact H].
  - eapply mutual_trans; eassumption.
Qed.

Lemma components_in : forall g C,
  In C (components g) <-> exists u, u < gn g /\ comp_of g u = C /\ hd_error C = Some u.
Proof.
  intros g C. unfold components. rewrite in_flat_map. split.
  - intros [u [Hu HC]]. apply in_seq in Hu. destruct (comp_of g u) as [|x r] eqn:E; [destruct HC|].
    destruct (Nat.eqb_spec x u) as [->|]; [|destruct HC]. destruct HC as [<-|[]].
    exists u. split; [lia|]. split; [exact E|reflexivity].
  - intros [u [Hu [E Hh]]]. exists u. split; [apply in_seq; lia|]. rewrite E.
    destruct C as [|x r]; [discriminate|]. cbn in Hh. inversion Hh; subst. rewrite Nat.eqb_refl.
    left; reflexivity.
Qed.

(* the components list is a partition of the nodes into the classes of [mutual] *)
Theorem components_partition : forall g, wf g ->
  (forall C, In C (components g) ->
     C <> [] /\ NoDup C /\
     forall u, In u C -> forall v, In v C <-> v < gn g /\ mutual g u v) /\
  (forall v, v < gn g -> exists C, In C (components g) /\ In v C) /\
  (forall C1 C2 v, In C1 (components g) -> In C2 (components g) -> In v C1 -> In v C2 -> C1 = C2).
Proof.
  intros g Hwf. split; [|split].
  - intros C HC. apply components_in in HC. destruct HC as [u0 [Hu0 [E Hh]]]. subst C.
    split; [intros E; rewrite E in Hh; discriminate|]. split; [apply comp_of_nodup|].
    intros u Hu v. apply comp_of_in in Hu; [|assumption|assumption]. destruct Hu as [Hu Hm].
    rewrite comp_of_in by assumption. split.
    + intros [Hv Hm']. split; [exact Hv|]. eapply mutual_trans; [apply mutual_sym; exact Hm|exact Hm'].
    + intros [Hv Hm']. split; [exact Hv|]. eapply mutual_trans; eassumption.
  - intros v Hv. assert (Hin : In v (comp_of g v)) by (apply comp_of_in; auto using mutual_refl).
    destruct (comp_of g v) as [|m r] eqn:E; [destruct Hin|].
    assert (Hm : In m (comp_of g v)) by (rewrite E; left; reflexivity).
    apply comp_of_in in Hm; [|assumption|assumption]. destruct Hm as [Hm Hmut].
    exists (m :: r). split; [|exact Hin]. apply components_in. exists m. split; [exact Hm|].
    split; [|reflexivity]. rewrite <- E. symmetry. apply comp_of_eq; assumption.
  - intros C1 C2 v H1 H2 Hv1 Hv2. apply components_in in H1, H2.
    destruct H1 as [u1 [Hu1 [E1 _]]]. destruct H2 as [u2 [Hu2 [E2 _]]]. subst C1 C2.
    apply comp_of_in in Hv1, Hv2; try assumption. destruct Hv1 as [Hv Hm1]. destruct Hv2 as [_ Hm2].
    apply comp_of_eq; try assumption. eapply mutual_trans; [exact Hm1|apply mutual_sym; exact Hm2].
Qed.

(* in the undirected multigraph reachability is symmetric: weak connectivity *)
Lemma sym_walkn_rev : forall g s k v c, walkn (sym g) s k v c -> walk (sym g) v s c.
Proof.
  intros g s k v c H. induction H as [k|k x v w c H IH Hin]; [apply walk_refl|].
  rewrite N.add_comm. eapply walk_trans; [|exact IH]. apply walk_edge.
  apply sym_edges. apply sym_edges in Hin. tauto.
Qed.

Lemma sym_reach_sym : forall g u v, reach (sym g) u v -> reach (sym g) v u.
Proof. intros g u v [c [k H]]. exists c. eapply sym_walkn_rev; exact H. Qed.

Lemma sym_mutual : forall g u v, mutual (sym g) u v <-> reach (sym g) u v.
Proof. intros g u v. split; [intros [H _]; exact H|intros H; split; [exact H|apply sym_reach_sym; exact H]]. Qed.

(* ================================================================== *)
(* minimum cut by enumeration                                           *)
(* ================================================================== *)

Lemma min_list_spec : forall l,
  match min_list l with
  | Some c => In c l /\ forall x, In x l -> (c <= x)%N
  | None => l = []
  end.
Proof.
  induction l as [|x l IH]; [reflexivity|].
  change (min_list (x :: l)) with (omin (Some x) (min_list l)).
  destruct (min_list l) as [m|]; cbn [omin].
  - destruct IH as [Hin Hle]. destruct (N.min_spec x m) as [[Hlt ->]|[Hge ->]].
    + split; [left; reflexivity|]. intros y [<-|Hy]; [lia|]. specialize (Hle y Hy). lia.
    + split; [right; exact Hin|]. intros y [<-|Hy]; [lia|]. apply Hle; exact Hy.
  - subst l. split; [left; reflexivity|]. intros y [<-|[]]. lia.
Qed.

Lemma masks_complete : forall n (S : nat -> bool), In (map S (seq 0 n)) (masks n).
Proof.
  induction n as [|n IH]; intros S; cbn; [left; reflexivity|].
  apply in_flat_map. exists (map (fun i => S (Datatypes.S i)) (seq 0 n)). split; [apply IH|].
  rewrite <- seq_shift, map_map. destruct (S 0); cbn; auto.
Qed.

Lemma cut_cap_ext : forall g S1 S2,
  (forall u v w, In (u, v, w) (ge g) -> S1 u = S2 u /\ S1 v = S2 v) ->
  cut_cap g S1 = cut_cap g S2.
Proof.
  intros g S1 S2. unfold cut_cap. induction (ge g) as [|[[u v] w] E IH]; intros H; cbn; [reflexivity|].
  destruct (H u v w (or_introl eq_refl)) as [-> ->]. rewrite IH; [reflexivity|].
  intros u' v' w' Hin. apply (H u' v' w'). right; exact Hin.
Qed.

Theorem mincut_spec : forall g s t, wf g -> s < gn g -> t < gn g ->
  match mincut g s t with
  | Some c => is_mincut g s t c
  | None => s = t
  end.
Proof.
  intros g s t Hwf Hs Ht. unfold mincut.
  set (ms := filter (fun m => mask_fn m s && negb (mask_fn m t)) (masks (gn g))).
  pose proof (min_list_spec (map (fun m => cut_cap g (mask_fn m)) ms)) as H.
  assert (Hmask : forall S v, v < gn g -> mask_fn (map S (seq 0 (gn g))) v = S v).
  { intros S v Hv. unfold mask_fn. apply nth_map_seq; exact Hv. }
  assert (Hcap : forall S, cut_cap g (mask_fn (map S (seq 0 (gn g)))) = cut_cap g S).
  { intros S. apply cut_cap_ext. intros u v w Hin. apply Hwf in Hin. destruct Hin.
    split; apply Hmask; assumption. }
  assert (Hin : forall S, S s = true -> S t = false -> In (map S (seq 0 (gn g))) ms).
  { intros S H1 H2. unfold ms. apply filter_In. split; [apply masks_complete|].
    rewrite !Hmask by assumption. rewrite H1, H2. reflexivity. }
  destruct (min_list _) as [c|].
  - destruct H as [Hc Hle]. apply in_map_iff in Hc. destruct Hc as [m [Ec Hm]]. split.
    + exists (mask_fn m). unfold ms in Hm. apply filter_In in Hm. destruct Hm as [_ Hm].
      apply andb_true_iff in Hm. destruct Hm as [Hm1 Hm2]. apply negb_true_iff in Hm2. auto.
    + intros S H1 H2. rewrite <- Hcap. apply Hle.
      apply (in_map (fun m => cut_cap g (mask_fn m))). apply Hin; assumption.
  - destruct (Nat.eq_dec s t) as [E|NE]; [exact E|]. exfalso.
    apply map_eq_nil in H. specialize (Hin (fun v => v =? s)). rewrite H in Hin.
    apply Hin; [apply Nat.eqb_refl|]. apply Nat.eqb_neq. auto.
Qed.

(* ================================================================== *)
(* minimum spanning tree weight by enumeration                          *)
(* ================================================================== *)

Lemma choose_spec : forall {A} k (l T : list A),
  In T (choose k l) <-> sublist T l /\ length T = k.
Proof.
  intros A k l; revert k; induction l as [|x l IH]; intros k T.
  - destruct k; cbn.
    + split; [intros [<-|[]]; split; [constructor|reflexivity]|].
      intros [_ HT]. destruct T; [left; reflexivity|discriminate].
    + split; [intros []|]. intros [HS HT]. inversion HS; subst. discriminate.
  - destruct k as [|k]; cbn [choose].
    + split; [intros [<-|[]]; split; [constructor|reflexivity]|].
      intros [_ HT]. destruct T; [left; reflexivity|discriminate].
    + rewrite in_app_iff, in_map_iff. split.
      * intros [[T' [<- HT']]|HT].
        -- apply IH in HT'. destruct HT' as [HS HL]. split; [constructor; exact HS|cbn; lia].
        -- apply IH in HT. destruct HT as [HS HL]. split; [constructor; exact HS|exact HL].
      * intros [HS HL]. inversion HS; subst.
        -- discriminate.
        -- left. exists a. split; [reflexivity|]. apply IH. split; [assumption|cbn in HL; lia].
        -- right. apply IH. split; assumption.
Qed.

Lemma sublist_in : forall {A} (a b : list A) x, sublist a b -> In x a -> In x b.
Proof.
  intros A a b x H; induction H; intros Hx; cbn in *; [destruct Hx| |]; tauto.
Qed.

Lemma connects_spec : forall n T C, wf {| gn := n; ge := T |} -> 0 < n ->
  (forall v, In v C -> v < n) ->
  connects n T C = true <-> forall v, In v C -> reach (sym {| gn := n; ge := T |}) 0 v.
Proof.
  intros n T C Hwf Hn HC. unfold connects. cbn zeta. rewrite forallb_forall.
  split; intros H v Hv; specialize (H v Hv).
  - apply (reachb_spec (sym {| gn := n; ge := T |}) 0 v); [apply wf_sym; exact Hwf|exact Hn|apply HC; exact Hv|exact H].
  - apply (reachb_spec (sym {| gn := n; ge := T |}) 0 v) in H; [exact H|apply wf_sym; exact Hwf|exact Hn|apply HC; exact Hv].
Qed.

Theorem mst_spec_ok : forall g, wf g -> 0 < gn g ->
  match mst_spec g with
  | Some c => is_mst_weight g c
  | None => forall T, ~ spanning_tree g T
  end.
Proof.
  intros g Hwf Hn. unfold mst_spec. cbn zeta.
  set (C := comp_of (sym g) 0).
  set (Ts := filter (fun T => connects (gn g) T C) (choose (length C - 1) (ge g))).
  assert (HC : forall v, In v C <-> v < gn g /\ reach (sym g) 0 v).
  { intros v. unfold C. rewrite comp_of_in; [|apply wf_sym; exact Hwf|exact Hn]. rewrite sym_mutual. reflexivity. }
  assert (HTs : forall T, In T Ts <-> spanning_tree g T).
  { intros T. unfold Ts, spanning_tree. fold C. rewrite filter_In, choose_spec. split.
    - intros [[HS HL] Hc]. split; [exact HS|]. split; [exact HL|].
      assert (HwT : wf {| gn := gn g; ge := T |}).
      { intros u v w Hin. cbn in Hin. apply (Hwf u v w). eapply sublist_in; eassumption. }
      intros v Hv Hr. apply (proj1 (connects_spec (gn g) T C HwT Hn (fun v Hv => proj1 (proj1 (HC v) Hv))) Hc).
      apply HC. split; assumption.
    - intros [HS [HL Hc]]. split; [split; assumption|].
      assert (HwT : wf {| gn := gn g; ge := T |}).
      { intros u v w Hin. cbn in Hin. apply (Hwf u v w). eapply sublist_in; eassumption. }
      apply (connects_spec (gn g) T C HwT Hn (fun v Hv => proj1 (proj1 (HC v) Hv))).
      intros v Hv. apply HC in Hv. destruct Hv. apply Hc; assumption. }
  pose proof (min_list_spec (map tweight Ts)) as H. destruct (min_list _) as [c|].
  - destruct H as [Hc Hle]. apply in_map_iff in Hc. destruct Hc as [T [Ec HT]]. split.
    + exists T. split; [apply HTs; exact HT|exact Ec].
    + intros T' HT'. apply Hle. apply in_map. apply HTs. exact HT'.
  - apply map_eq_nil in H. intros T HT. apply HTs in HT. rewrite H in HT. destruct HT.
Qed.

(* |C| in [spanning_tree] really is the number of nodes of 0's undirected component *)
Lemma component_enumeration : forall g, wf g -> 0 < gn g ->
  NoDup (comp_of (sym g) 0) /\
  forall v, In v (comp_of (sym g) 0) <-> v < gn g /\ reach (sym g) 0 v.
Proof.
  intros g Hwf Hn. split; [apply comp_of_nodup|]. intros v.
  rewrite comp_of_in; [|apply wf_sym; exact Hwf|exact Hn]. rewrite sym_mutual. reflexivity.
Qed.

(* ================================================================== *)
(* triangles and clustering coefficients                                *)
(* ================================================================== *)

Lemma arcb_spec : forall g u v, arcb g u v = true <-> arc g u v.
Proof.
  intros g u v. unfold arcb, arc. rewrite existsb_exists. split.
  - intros [[[a b] w] [Hin H]]. unfold esrc, edst in H. cbn [fst snd] in H.
    apply andb_true_iff in H. rewrite !Nat.eqb_eq in H. destruct H; subst. exists w; exact Hin.
  - intros [w Hin]. exists (u, v, w). split; [exact Hin|]. unfold esrc, edst. cbn [fst snd].
    rewrite !Nat.eqb_refl. reflexivity.
Qed.

Lemma adjb_spec : forall g u v, adjb g u v = true <-> adj g u v.
Proof. intros g u v. unfold adjb, adj. rewrite orb_true_iff, !arcb_spec. reflexivity. Qed.

Definition triangle (g : graph) (u v w : nat) : Prop :=
  u < v /\ v < w /\ w < gn g /\ adj g u v /\ adj g v w /\ adj g u w.

(* the counted list enumerates every triangle exactly once *)
Theorem triangles_def : forall g,
  NoDup (tri_list g) /\
  (forall u v w, In (u, (v, w)) (tri_list g) <-> triangle g u v w) /\
  triangles_spec g = N.of_nat (length (tri_list g)).
Proof.
  intros g. split; [|split; [|reflexivity]].
  - unfold tri_list, triples. repeat apply NoDup_filter.
    repeat apply nodup_list_prod; apply seq_NoDup.
  - intros u v w. unfold tri_list, triples, is_tri, triangle.
    rewrite !filter_In, !in_prod_iff, !in_seq. cbn [fst snd].
    rewrite !andb_true_iff, !Nat.ltb_lt, !adjb_spec. split.
    + intros [[[_ [_ Hw]] [H1 H2]] [[H3 H4] H5]]. repeat split; try assumption; lia.
    + intros [H1 [H2 [H3 [H4 [H5 H6]]]]]. repeat split; try assumption; lia.
Qed.

Theorem lcc_u_def : forall g v,
  NoDup (nbrs g v) /\
  (forall u, In u (nbrs g v) <-> u < gn g /\ u <> v /\ adj g u v) /\
  NoDup (nbr_pairs g v) /\
  (forall a b, In (a, b) (nbr_pairs g v) <->
               a < b /\ In a (nbrs g v) /\ In b (nbrs g v) /\ adj g a b) /\
  lcc_u g v =
    (let d := length (nbrs g v) in
     if d <? 2 then (0%N, 1%N)
     else (N.of_nat (length (nbr_pairs g v)), N.of_nat (d * (d - 1) / 2))).
Proof.
  intros g v. assert (Hn : NoDup (nbrs g v)) by (unfold nbrs; apply NoDup_filter, seq_NoDup).
  split; [exact Hn|]. split; [|split; [|split; [|reflexivity]]].
  - intros u. unfold nbrs. rewrite filter_In, in_seq, andb_true_iff, negb_true_iff, Nat.eqb_neq, adjb_spec.
    split; [intros [H1 [H2 H3]]|intros [H1 [H2 H3]]]; repeat split; try assumption; lia.
  - unfold nbr_pairs. apply NoDup_filter. apply nodup_list_prod; exact Hn.
  - intros a b. unfold nbr_pairs. rewrite filter_In, in_prod_iff. cbn [fst snd].
    rewrite andb_true_iff, Nat.ltb_lt, adjb_spec. tauto.
Qed.

Lemma darc_spec : forall g u v, darc g u v = true <-> u <> v /\ arc g u v.
Proof.
  intros g u v. unfold darc. rewrite andb_true_iff, negb_true_iff, Nat.eqb_neq, arcb_spec. reflexivity.
Qed.

(* ================================================================== *)
(* the path predicate used to validate returned paths                   *)
(* ================================================================== *)

Lemma succs_in : forall g u v w, In (v, w) (succs g u) <-> In (u, v, w) (ge g).
Proof.
  intros g u v w. unfold succs. rewrite in_map_iff. split.
  - intros [[[a b] c] [E H]]. apply filter_In in H. destruct H as [Hin Hs].
    unfold esrc, edst, ew in *. cbn [fst snd] in *. apply Nat.eqb_eq in Hs. inversion E; subst. exact Hin.
  - intros Hin. exists (u, v, w). split; [reflexivity|]. apply filter_In. split; [exact Hin|].
    unfold esrc. cbn [fst]. apply Nat.eqb_refl.
Qed.

Lemma path_sums_spec : forall g p c, In c (path_sums g p) <-> path_cost g p c.
Proof.
  intros g p; induction p as [|u r IH]; intros c.
  - cbn. split; [intros []|intros H; inversion H].
  - destruct r as [|v r'].
    + cbn. split; [intros [<-|[]]; constructor|]. intros H; inversion H; subst. left; reflexivity.
    + change (path_sums g (u :: v :: r')) with
        (nodup N.eq_dec (flat_map (fun c0 => map (fun w => (w + c0)%N)
           (map snd (filter (fun x => fst x =? v) (succs g u)))) (path_sums g (v :: r')))).
      rewrite nodup_In, in_flat_map. split.
      * intros [c0 [Hc0 Hc]]. apply IH in Hc0. apply in_map_iff in Hc. destruct Hc as [w [<- Hw]].
        apply in_map_iff in Hw. destruct Hw as [[v' w'] [E Hw]]. cbn in E. subst w'.
        apply filter_In in Hw. destruct Hw as [Hin Hv]. cbn [fst] in Hv. apply Nat.eqb_eq in Hv. subst v'.
        constructor; [apply succs_in; exact Hin|exact Hc0].
      * intros H. inversion H as [|? ? w ? c0 Hin Hp]; subst. exists c0. split; [apply IH; exact Hp|].
        apply in_map_iff. exists w. split; [reflexivity|]. apply in_map_iff. exists (v, w).
        split; [reflexivity|]. apply filter_In. split; [apply succs_in; exact Hin|].
        cbn [fst]. apply Nat.eqb_refl.
Qed.

Theorem path_costb_spec : forall g p c, path_costb g p c = true <-> path_cost g p c.
Proof.
  intros g p c. unfold path_costb. rewrite existsb_exists, <- path_sums_spec. split.
  - intros [x [Hx E]]. apply N.eqb_eq in E. subst x. exact Hx.
  - intros H. exists c. split; [exact H|apply N.eqb_refl].
Qed.

Lemma last_cons_indep : forall (p : list nat) v a b, last (v :: p) a = last (v :: p) b.
Proof.
  induction p as [|x p IH]; intros v a b; [reflexivity|].
  change (last (v :: x :: p) a) with (last (x :: p) a).
  change (last (v :: x :: p) b) with (last (x :: p) b). apply IH.
Qed.

(* a validated path is a walk of that cost between its end points *)
Lemma path_cost_walk : forall g p c, path_cost g p c ->
  forall s, hd_error p = Some s -> walk g s (last p s) c.
Proof.
  intros g p c H; induction H as [v|u v w p c Hin H IH]; intros s Hs; cbn in Hs; inversion Hs; subst.
  - cbn. apply walk_refl.
  - change (last (s :: v :: p) s) with (last (v :: p) s).
    rewrite (last_cons_indep p v s v).
    eapply walk_trans; [apply walk_edge; exact Hin|]. apply IH. reflexivity.
Qed.

Theorem path_ok_real : forall g s t spec o, path_ok g s t spec o = true ->
  match o with
  | Some (p, c) => spec = Some c /\ path_cost g p c /\ hd_error p = Some s /\ last p s = t /\ walk g s t c
  | None => spec = None
  end.
Proof.
  intros g s t spec o H. unfold path_ok in H. destruct spec as [c0|], o as [[p c]|]; try discriminate; [|reflexivity].
  apply andb_true_iff in H. destruct H as [H Hc]. apply andb_true_iff in H. destruct H as [He Hf].
  apply N.eqb_eq in He. subst c0. apply path_costb_spec in Hc.
  unfold path_fromto in Hf. destruct p as [|x r]; [discriminate|].
  apply andb_true_iff in Hf. destruct Hf as [Hx Hl]. apply Nat.eqb_eq in Hx, Hl. subst x.
  assert (Hlast : last (s :: r) s = t) by exact Hl.
  repeat split; try assumption. rewrite <- Hlast. apply (path_cost_walk g (s :: r) c Hc s). reflexivity.
Qed.

(* ================================================================== *)
(* Prim: the original incoming-edge lookup is wrong, the repaired one    *)
(* is right on the witness                                               *)
(* ================================================================== *)

Definition prim_witness : graph := {| gn := 2; ge := [(1, 0, 5%N); (1, 0, 1%N)] |}.

Lemma prim_original_defect :
  mres_total (prim_original prim_witness) = Some 5%N /\
  mres_total (prim_model prim_witness) = Some 1%N /\
  mst_spec prim_witness = Some 1%N.
Proof. vm_compute. repeat split. Qed.

Theorem wcc_partition : forall g, wf g ->
  (forall C, In C (wcc_spec g) ->
     C <> [] /\ NoDup C /\
     forall u, In u C -> forall v, In v C <-> v < gn g /\ reach (sym g) u v) /\
  (forall v, v < gn g -> exists C, In C (wcc_spec g) /\ In v C) /\
  (forall C1 C2 v, In C1 (wcc_spec g) -> In C2 (wcc_spec g) -> In v C1 -> In v C2 -> C1 = C2).
Proof.
  intros g Hwf. destruct (components_partition (sym g) (wf_sym g Hwf)) as [H1 [H2 H3]].
  unfold wcc_spec. split; [|split; [exact H2|exact H3]].
  intros C HC. destruct (H1 C HC) as [Hne [Hnd Hm]]. split; [exact Hne|]. split; [exact Hnd|].
  intros u Hu v. rewrite (Hm u Hu v), sym_mutual. reflexivity.
Qed.

(* what a path result must satisfy to be "a real path of optimal cost (or none when unreachable)" *)
Definition pres_optimal (g : graph) (s t : nat) (spec : option N) (r : pres) : Prop :=
  match r with
  | RNone => spec = None
  | RPath p c => spec = Some c /\ path_cost g p c /\ hd_error p = Some s /\ last p s = t
  | RFuel => False
  end.

(* ================================================================== *)
(* the bfs model as written: what it returns is a real path, so its     *)
(* length is at least the specification's hop distance                  *)
(* ================================================================== *)

Section BfsSound.
Variable g : graph.
Variable s : nat.

Definition visited (vis : list (nat * option nat)) (i : nat) : Prop := is_some (alookup i vis) = true.

(* every recorded parent link is an edge from a visited node; only s has no parent *)
Definition bfs_inv (vis : list (nat * option nat)) : Prop :=
  (forall i p, alookup i vis = Some (Some p) -> (exists w, In (p, i, w) (ge g)) /\ visited vis p) /\
  (forall i, alookup i vis = Some None -> i = s).

Lemma expand_inv : forall cur l q vis,
  bfs_inv vis -> visited vis cur -> (forall x, In x q -> visited vis x) ->
  (forall x, In x l -> exists w, In (cur, x, w) (ge g)) ->
  let '(q2, vis2) := fold_left (bfs_expand cur) l (q, vis) in
  bfs_inv vis2 /\ (forall x, In x q2 -> visited vis2 x).
Proof.
  intros cur l; induction l as [|nx l IH]; intros q vis Hinv Hcur Hq Hl; cbn [fold_left].
  - split; assumption.
  - unfold bfs_expand at 2. destruct (is_some (alookup nx vis)) eqn:Ev.
    + apply IH; auto. intros x Hx. apply Hl. right; exact Hx.
    + assert (Hne : nx <> cur) by (intros ->; unfold visited in Hcur; congruence).
      assert (Hmono : forall i, visited vis i -> visited ((nx, Some cur) :: vis) i).
      { intros i Hi. unfold visited in *. cbn [alookup]. destruct (nx =? i); [reflexivity|exact Hi]. }
      apply IH.
      * destruct Hinv as [H1 H2]. split.
        -- intros i p Hi. cbn [alookup] in Hi. destruct (Nat.eqb_spec nx i) as [->|Hni].
           ++ inversion Hi; subst. split; [apply Hl; left; reflexivity|apply Hmono; exact Hcur].
           ++ destruct (H1 i p Hi) as [He Hp]. split; [exact He|apply Hmono; exact Hp].
        -- intros i Hi. cbn [alookup] in Hi. destruct (nx =? i); [discriminate|apply H2; exact Hi].
      * apply Hmono; exact Hcur.
      * intros x Hx. apply in_app_iff in Hx. destruct Hx as [Hx|[<-|[]]].
        -- apply Hmono, Hq; exact Hx.
        -- unfold visited. cbn [alookup]. rewrite Nat.eqb_refl. reflexivity.
      * intros x Hx. apply Hl. right; exact Hx.
Qed.

Lemma recon_sound : forall vis t fuel cur acc p,
  bfs_inv vis -> visited vis cur ->
  path_cost (unitw g) (cur :: acc) (N.of_nat (length acc)) -> last (cur :: acc) s = t ->
  recon fuel (bfs_par vis) cur acc = Some p ->
  path_cost (unitw g) p (N.of_nat (length p - 1)) /\ hd_error p = Some s /\ last p s = t.
Proof.
  intros vis t fuel; induction fuel as [|f IH]; intros cur acc p Hinv Hcur Hpc Hlast Hr; cbn [recon] in Hr;
    [discriminate|].
  unfold bfs_par in Hr at 1. unfold visited in Hcur.
  destruct (alookup cur vis) as [[p0|]|] eqn:Ea; cbn in Hcur; try discriminate.
  - destruct Hinv as [H1 H2]. destruct (H1 cur p0 Ea) as [[w Hw] Hp0].
    apply (IH p0 (cur :: acc) p (conj H1 H2) Hp0); [| |exact Hr].
    + replace (N.of_nat (length (cur :: acc))) with (1 + N.of_nat (length acc))%N by (cbn [length]; lia).
      constructor; [|exact Hpc]. apply unitw_edges. split; [reflexivity|]. exists w; exact Hw.
    + rewrite <- Hlast. reflexivity.
  - inversion Hr; subst p. destruct Hinv as [_ H2]. rewrite (H2 cur Ea) in *.
    split; [|split; [reflexivity|exact Hlast]].
    replace (length (s :: acc) - 1) with (length acc) by (cbn [length]; lia). exact Hpc.
Qed.

Lemma bfs_loop_sound : forall t fuel q vis p c,
  bfs_inv vis -> (forall x, In x q -> visited vis x) ->
  bfs_loop fuel g t q vis = RPath p c ->
  c = N.of_nat (length p - 1) /\ path_cost (unitw g) p c /\ hd_error p = Some s /\ last p s = t.
Proof.
  intros t fuel; induction fuel as [|f IH]; intros q vis p c Hinv Hq Hr; cbn [bfs_loop] in Hr; [discriminate|].
  destruct q as [|cur q']; [discriminate|].
  destruct (Nat.eqb_spec cur t) as [->|Hne].
  - destruct (recon (S (length vis)) (bfs_par vis) t []) as [p'|] eqn:Er; [|discriminate].
    inversion Hr; subst p' c.
    destruct (recon_sound vis t _ t [] p Hinv (Hq t (or_introl eq_refl)) (PC1 _ t) eq_refl Er) as [H1 [H2 H3]].
    repeat split; assumption.
  - pose proof (expand_inv cur (map fst (succs g cur)) q' vis Hinv (Hq cur (or_introl eq_refl))
                  (fun x Hx => Hq x (or_intror Hx))) as HE.
    destruct (fold_left (bfs_expand cur) (map fst (succs g cur)) (q', vis)) as [q2 vis2].
    destruct HE as [Hinv2 Hq2].
    + intros x Hx. apply in_map_iff in Hx. destruct Hx as [[x' w] [<- Hx]]. exists w. apply succs_in. exact Hx.
    + eapply IH; eassumption.
Qed.

End BfsSound.

(* whatever the bfs model returns is a real path from s to t whose reported cost is its
   number of edges, hence (by the specification's optimality) not below the hop distance;
   the converse inequality and "None only when unreachable" are the part not proved *)
Theorem bfs_model_sound : forall g s t p c, wf g ->
  bfs_model g s t = RPath p c ->
  path_cost (unitw g) p c /\ hd_error p = Some s /\ last p s = t /\
  c = N.of_nat (length p - 1) /\
  exists c0, hop_dist g s t = Some c0 /\ (c0 <= c)%N.
Proof.
  intros g s t p c Hwf Hr. unfold bfs_model in Hr.
  destruct ((s <? gn g) && (t <? gn g)) eqn:Hb; [|discriminate].
  apply andb_true_iff in Hb. destruct Hb as [Hs Ht]. apply Nat.ltb_lt in Hs, Ht.
  assert (Hinv : bfs_inv g s [(s, None)]).
  { split.
    - intros i p0 Hi. cbn [alookup] in Hi. destruct (s =? i); discriminate.
    - intros i Hi. cbn [alookup] in Hi. destruct (Nat.eqb_spec s i); [auto|discriminate]. }
  destruct (bfs_loop_sound g s t (S (S (gn g))) [s] [(s, None)] p c Hinv) as [Hc [Hp [Hh Hl]]]; [|exact Hr|].
  - intros x [<-|[]]. unfold visited. cbn [alookup]. rewrite Nat.eqb_refl. reflexivity.
  - repeat split; try assumption.
    pose proof (hop_dist_spec g s t Hwf Hs Ht) as Hd.
    assert (Hw : walk (unitw g) s t c).
    { rewrite <- Hl. apply (path_cost_walk (unitw g) p c Hp s Hh). }
    destruct (hop_dist g s t) as [c0|]; cbn in Hd.
    + exists c0. split; [reflexivity|]. apply (proj2 Hd). exact Hw.
    + exfalso. apply Hd. exists c. exact Hw.
Qed.

(* ================================================================== *)
(* the dijkstra model as written: the reported cost is the cost of a    *)
(* real walk, hence not below the specification's optimum               *)
(* ================================================================== *)

Lemma pop_min_in : forall {A} (key : A -> N) l x r,
  pop_min key l = Some (x, r) -> In x l /\ forall y, In y r -> In y l.
Proof.
  intros A key l; induction l as [|a l IH]; intros x r H; cbn [pop_min] in H; [discriminate|].
  destruct (pop_min key l) as [[y r']|] eqn:E.
  - destruct (IH y r' eq_refl) as [Hy Hr']. destruct (key a <=? key y)%N; inversion H; subst.
    + split; [left; reflexivity|intros z Hz; right; exact Hz].
    + split; [right; exact Hy|]. intros z [<-|Hz]; [left; reflexivity|right; apply Hr'; exact Hz].
  - inversion H; subst. split; [left; reflexivity|intros z []].
Qed.

Section DijSound.
Variable g : graph.
Variable s : nat.

Definition heap_ok (h : list (N * nat)) : Prop := forall c v, In (c, v) h -> walk g s v c.

Lemma dij_relax_ok : forall cost node l h d p,
  heap_ok h -> walk g s node cost -> (forall v w, In (v, w) l -> In (node, v, w) (ge g)) ->
  heap_ok (fst (fst (fold_left (dij_relax cost node) l (h, d, p)))).
Proof.
  intros cost node l; induction l as [|[v w] l IH]; intros h d p Hh Hn Hl; cbn [fold_left]; [exact Hh|].
  unfold dij_relax at 2.
  destruct (match alookup v d with Some dv => (cost + w <? dv)%N | None => true end).
  - apply IH; [|exact Hn|intros v' w' H'; apply Hl; right; exact H'].
    intros c' v' Hin. apply in_app_iff in Hin. destruct Hin as [Hin|[E|[]]]; [apply Hh; exact Hin|].
    inversion E; subst. eapply walk_trans; [exact Hn|]. apply walk_edge. apply Hl. left; reflexivity.
  - apply IH; [exact Hh|exact Hn|intros v' w' H'; apply Hl; right; exact H'].
Qed.

Lemma dij_loop_cost : forall t fuel heap dist parent p c,
  heap_ok heap -> dij_loop fuel g t heap dist parent = RPath p c -> walk g s t c.
Proof.
  intros t fuel; induction fuel as [|f IH]; intros heap dist parent p c Hh Hr; cbn [dij_loop] in Hr; [discriminate|].
  destruct (pop_min fst heap) as [[[cost node] heap']|] eqn:Ep; [|discriminate].
  destruct (pop_min_in _ _ _ _ Ep) as [Hx Hrest].
  assert (Hh' : heap_ok heap') by (intros c' v' Hin; apply Hh, Hrest; exact Hin).
  destruct (Nat.eqb_spec node t) as [->|Hne].
  - destruct (recon _ _ t []) as [p'|]; [|discriminate]. inversion Hr; subst. apply Hh; exact Hx.
  - destruct (match alookup node dist with Some d => (d <? cost)%N | None => false end).
    + eapply IH; eassumption.
    + pose proof (dij_relax_ok cost node (succs g node) heap' dist parent Hh' (Hh _ _ Hx)
                    (fun v w H => proj1 (succs_in g node v w) H)) as Hok.
      destruct (fold_left (dij_relax cost node) (succs g node) (heap', dist, parent)) as [[h2 d2] p2].
      cbn [fst] in Hok. eapply IH; eassumption.
Qed.

End DijSound.

Theorem dijkstra_model_cost_sound : forall g s t p c, wf g ->
  dijkstra_model g s t = RPath p c ->
  walk g s t c /\ exists c0, sp_cost g s t = Some c0 /\ (c0 <= c)%N.
Proof.
  intros g s t p c Hwf Hr. unfold dijkstra_model in Hr.
  destruct ((s <? gn g) && (t <? gn g)) eqn:Hb; [|discriminate].
  apply andb_true_iff in Hb. destruct Hb as [Hs Ht]. apply Nat.ltb_lt in Hs, Ht.
  assert (Hw : walk g s t c).
  { eapply (dij_loop_cost g s t _ [(0%N, s)]); [|exact Hr].
    intros c' v' [E|[]]. inversion E; subst. apply walk_refl. }
  split; [exact Hw|]. pose proof (sp_cost_spec g s t Hwf Hs Ht) as Hd.
  destruct (sp_cost g s t) as [c0|]; cbn in Hd.
  - exists c0. split; [reflexivity|apply (proj2 Hd); exact Hw].
  - exfalso. apply Hd. exists c. exact Hw.
Qed.
