(* Proofs about model/Nlq.v : extract_cypher never slices out of range; an accepted statement
   is a read. *)
From Coq Require Import List NArith Bool Lia PeanoNat Arith.
From Verif Require Import CheckLib QueryCache Routing Nlq.
Import ListNotations.
Open Scope N_scope.

Lemma starts_with_len : forall p s, starts_with p s = true -> (length p <= length s)%nat.
Proof.
  induction p as [|a p IH]; intros [|b s]; cbn; try lia; try discriminate.
  intros H; apply andb_true_iff in H; destruct H as [_ H]; apply IH in H; lia.
Qed.

Lemma find_bound : forall p s i, find p s = Some i -> (i + length p <= length s)%nat.
Proof.
  intros p s; induction s as [|c s IH]; intros i; cbn [find].
  - destruct (starts_with p []) eqn:E; [|discriminate].
    intros H; inversion H; subst. apply starts_with_len in E; cbn in *; lia.
  - destruct (starts_with p (c :: s)) eqn:E.
    + intros H; inversion H; subst. apply starts_with_len in E; lia.
    + destruct (find p s) as [j|]; [|discriminate].
      intros H; inversion H; subst. specialize (IH j eq_refl). cbn [length]. lia.
Qed.

Lemma slice_from_ok : forall s n, (n <= length s)%nat -> slice_from s n = Some (skipn n s).
Proof. intros s n H; unfold slice_from. apply Nat.leb_le in H; rewrite H; reflexivity. Qed.

Theorem extract_total : forall r, exists q, extract r = XSome q.
Proof.
  intros r; unfold extract.
  set (t := trim r).
  set (unf := match filter cypher_line (lines t) with
              | [] => XSome (trim (trim_end_matches fence (trim_start_matches fence (trim_start_matches fence_cypher t))))
              | _ :: _ => XSome (join_sp (filter cypher_line (lines t))) end).
  assert (U : exists q, unf = XSome q).
  { unfold unf; destruct (filter cypher_line (lines t)); eexists; reflexivity. }
  destruct (find fence t) as [start|] eqn:F.
  2:{ destruct (filter cypher_line (lines t)) eqn:E; eexists; reflexivity. }
  apply find_bound in F; cbn [length fence] in F.
  rewrite (slice_from_ok t (start + 3)) by lia.
  set (after := skipn (start + 3) t).
  set (cs := match find [10] after with Some i => S i | None => O end).
  assert (CS : (cs <= length after)%nat).
  { unfold cs; destruct (find [10] after) as [i|] eqn:G; [|lia]. apply find_bound in G; cbn in G; lia. }
  rewrite (slice_from_ok after cs CS).
  destruct (find fence (skipn cs after)) as [e|] eqn:G.
  2:{ destruct (filter cypher_line (lines t)) eqn:E; eexists; reflexivity. }
  apply find_bound in G; cbn [length fence] in G. rewrite skipn_length in G.
  unfold slice.
  assert (A : (Nat.leb cs (cs + e) && Nat.leb (cs + e) (length after))%bool = true).
  { apply andb_true_iff; split; apply Nat.leb_le; lia. }
  rewrite A. eexists; reflexivity.
Qed.

(* what text_to_cypher hands back passed both checks *)
Lemma accepted_inv : forall plans r q,
  text_to_cypher plans r = VAccepted q -> extract r = XSome q /\ prefix_ok q = true /\ plans q = true.
Proof.
  intros plans r q; unfold text_to_cypher, is_safe.
  destruct (extract r) as [|q0]; [discriminate|].
  destruct (prefix_ok q0) eqn:P; destruct (plans q0) eqn:L; cbn; try discriminate.
  intros H; inversion H; subst; auto.
Qed.

Theorem accepted_is_read : forall parses r q,
  text_to_cypher (plans_as_read_tok parses) r = VAccepted q ->
  is_write_tok (lexw q) = false /\ parses q = true.
Proof.
  intros parses r q H. apply accepted_inv in H. destruct H as [_ [_ H]].
  unfold plans_as_read_tok in H. apply andb_true_iff in H. destruct H as [H1 H2].
  apply negb_true_iff in H2. auto.
Qed.

Theorem never_panics : forall plans r, text_to_cypher plans r <> VPanic.
Proof.
  intros plans r; unfold text_to_cypher. destruct (extract_total r) as [q E]; rewrite E.
  destruct (is_safe plans q); discriminate.
Qed.
