(* Proofs for C27: PageRank mass conservation and step formula over exact rationals;
   CDLP step = min of the most frequent neighbour labels; a synchronous step does not
   depend on the order in which nodes are processed. *)
From Coq Require Import List NArith ZArith QArith Qabs Qreduction Bool Arith Lia ZifyBool ZifyNat ZifyN.
From Verif Require Import CheckLib Iterative.
Import ListNotations.
Close Scope Q_scope.

(* ================================================================== *)
(* lists                                                                *)
(* ================================================================== *)

Lemma nth_map_seq' : forall {A} (f : nat -> A) n v d, v < n -> nth v (map f (seq 0 n)) d = f v.
Proof.
  intros A f n v d Hv.
  rewrite nth_indep with (d' := f 0) by (rewrite map_length, seq_length; exact Hv).
  rewrite map_nth. rewrite seq_nth by exact Hv. reflexivity.
Qed.

Lemma map_nth_seq_id : forall {A} (l : list A) d, map (fun i => nth i l d) (seq 0 (length l)) = l.
Proof.
  intros A l d. apply nth_ext with (d := d) (d' := d).
  - rewrite map_length, seq_length. reflexivity.
  - intros i Hi. rewrite map_length, seq_length in Hi.
    apply (nth_map_seq' (fun j => nth j l d)). exact Hi.
Qed.

(* ================================================================== *)
(* CDLP                                                                 *)
(* ================================================================== *)

(* r is at least as good as x: more frequent, or as frequent and not larger *)
Definition geq (ls : list N) (r x : N) : Prop :=
  cnt x ls < cnt r ls \/ (cnt x ls = cnt r ls /\ (r <= x)%N).

Lemma better_false : forall ls x r, better ls x r = false -> geq ls r x.
Proof. intros ls x r. unfold better, geq. lia. Qed.

Lemma better_true : forall ls x r, better ls x r = true ->
  geq ls x r /\ forall y, geq ls r y -> geq ls x y.
Proof. intros ls x r. unfold better, geq. intros H. split; [lia|intros y Hy; lia]. Qed.

Lemma geq_refl : forall ls r, geq ls r r.
Proof. intros. unfold geq. lia. Qed.

Lemma fold_best : forall ls l acc,
  let b := fold_left (fun acc x => if better ls x acc then x else acc) l acc in
  (b = acc \/ In b l) /\ geq ls b acc /\ forall x, In x l -> geq ls b x.
Proof.
  intros ls l; induction l as [|x l IH]; intros acc; cbn.
  - split; [left; reflexivity|]. split; [apply geq_refl|intros x []].
  - destruct (better ls x acc) eqn:E.
    + destruct (better_true _ _ _ E) as [H1 H2]. specialize (IH x). cbn in IH.
      destruct IH as [Hin [Hg Hall]]. split; [|split].
      * destruct Hin as [->|Hin]; [right; left; reflexivity|right; right; exact Hin].
      * revert Hg H1. unfold geq. lia.
      * intros y [<-|Hy]; [exact Hg|apply Hall; exact Hy].
    + pose proof (better_false _ _ _ E) as H1. specialize (IH acc). cbn in IH.
      destruct IH as [Hin [Hg Hall]]. split; [|split].
      * destruct Hin as [->|Hin]; [left; reflexivity|right; right; exact Hin].
      * exact Hg.
      * intros y [<-|Hy]; [revert Hg H1; unfold geq; lia|apply Hall; exact Hy].
Qed.

(* best = the smallest among the labels of maximal multiplicity *)
Lemma best_spec : forall x r,
  let ls := x :: r in
  let b := best ls x in
  In b ls /\
  forall y, In y ls -> cnt y ls <= cnt b ls /\ (cnt y ls = cnt b ls -> (b <= y)%N).
Proof.
  intros x r ls b. destruct (fold_best ls ls x) as [Hin [_ Hall]]. fold (best ls x) in Hin, Hall. fold b in Hin, Hall.
  split.
  - destruct Hin as [->|Hin]; [left; reflexivity|exact Hin].
  - intros y Hy. specialize (Hall y Hy). unfold geq in Hall. lia.
Qed.

Theorem cdlp_step_spec : forall n es lab v, v < n ->
  nth v (cdlp_step n es lab) 0%N = cdlp_label es lab v /\
  match nbr_labels es lab v with
  | [] => cdlp_label es lab v = lget lab v
  | ls => In (cdlp_label es lab v) ls /\
          forall y, In y ls ->
            cnt y ls <= cnt (cdlp_label es lab v) ls /\
            (cnt y ls = cnt (cdlp_label es lab v) ls -> (cdlp_label es lab v <= y)%N)
  end.
Proof.
  intros n es lab v Hv. split; [unfold cdlp_step; apply nth_map_seq'; exact Hv|].
  unfold cdlp_label. destruct (nbr_labels es lab v) as [|x r]; [reflexivity|]. apply best_spec.
Qed.

(* the neighbour labels really are the previous labels of the out- and in-neighbours,
   one entry per edge *)
Lemma nbr_labels_def : forall es lab v,
  nbr_labels es lab v = map (lget lab) (isuccs es v) ++ map (lget lab) (ipreds es v).
Proof. intros. unfold nbr_labels. apply map_app. Qed.

Lemma upd_length : forall {A} (l : list A) i x, length (upd l i x) = length l.
Proof. intros A l; induction l as [|y l IH]; intros [|i] x; cbn; auto. Qed.

Lemma nth_upd_eq : forall {A} (l : list A) i x d, i < length l -> nth i (upd l i x) d = x.
Proof.
  intros A l; induction l as [|y l IH]; intros [|i] x d H; cbn in *; try lia; [reflexivity|].
  apply IH. lia.
Qed.

Lemma nth_upd_neq : forall {A} (l : list A) i j x d, i <> j -> nth j (upd l i x) d = nth j l d.
Proof.
  intros A l; induction l as [|y l IH]; intros [|i] [|j] x d H; cbn; try reflexivity; try lia.
  apply IH. lia.
Qed.

Lemma sched_nth : forall (f : nat -> N) order buf,
  let res := fold_left (fun b v => upd b v (f v)) order buf in
  length res = length buf /\
  forall v, v < length buf ->
    (In v order -> nth v res 0%N = f v) /\ (~ In v order -> nth v res 0%N = nth v buf 0%N).
Proof.
  intros f order; induction order as [|a order IH]; intros buf; cbn.
  - split; [reflexivity|]. intros v Hv. split; [intros []|reflexivity].
  - specialize (IH (upd buf a (f a))). cbn in IH. destruct IH as [Hlen IH].
    rewrite upd_length in Hlen, IH. split; [exact Hlen|]. intros v Hv. specialize (IH v Hv).
    destruct IH as [IH1 IH2]. split.
    + intros [<-|Hin].
      * destruct (in_dec Nat.eq_dec a order) as [Hi|Hni]; [apply IH1; exact Hi|].
        rewrite IH2 by exact Hni. apply nth_upd_eq. exact Hv.
      * apply IH1; exact Hin.
    + intros Hni. rewrite IH2 by tauto. apply nth_upd_neq. tauto.
Qed.

(* processing the nodes in any order that covers every node, into a buffer with any previous
   contents, yields the synchronous step: the new labelling depends on the previous one only *)
Theorem cdlp_sched_independent : forall n es lab order buf,
  length buf = n -> (forall v, v < n -> In v order) ->
  cdlp_step_sched es lab order buf = cdlp_step n es lab.
Proof.
  intros n es lab order buf Hlen Hcov. unfold cdlp_step_sched.
  destruct (sched_nth (cdlp_label es lab) order buf) as [Hl Hn]. cbn zeta in Hl, Hn.
  apply nth_ext with (d := 0%N) (d' := 0%N).
  - rewrite Hl, Hlen. unfold cdlp_step. rewrite map_length, seq_length. reflexivity.
  - intros v Hv. rewrite Hl, Hlen in Hv. unfold cdlp_step. rewrite nth_map_seq' by exact Hv.
    apply Hn; [lia|apply Hcov; exact Hv].
Qed.

Corollary cdlp_order_irrelevant : forall n es lab o1 o2 b1 b2,
  length b1 = n -> length b2 = n ->
  (forall v, v < n -> In v o1) -> (forall v, v < n -> In v o2) ->
  cdlp_step_sched es lab o1 b1 = cdlp_step_sched es lab o2 b2.
Proof.
  intros. rewrite (cdlp_sched_independent n), (cdlp_sched_independent n); auto.
Qed.

(* ================================================================== *)
(* PageRank: sums over Q                                                *)
(* ================================================================== *)
Open Scope Q_scope.

Lemma qsum_cons : forall x l, qsum (x :: l) = x + qsum l.
Proof. reflexivity. Qed.
Lemma qsum_nil : qsum [] = 0.
Proof. reflexivity. Qed.

Lemma qsum_map_ext : forall {A} (f g : A -> Q) l,
  (forall x, In x l -> f x == g x) -> qsum (map f l) == qsum (map g l).
Proof.
  intros A f g l; induction l as [|x l IH]; intros H; simpl map; [reflexivity|].
  rewrite !qsum_cons.
  rewrite (H x (or_introl eq_refl)), IH; [reflexivity|]. intros y Hy. apply H. right; exact Hy.
Qed.

Lemma qsum_map_plus : forall {A} (f g : A -> Q) l,
  qsum (map (fun x => f x + g x) l) == qsum (map f l) + qsum (map g l).
Proof.
  intros A f g l; induction l as [|x l IH]; simpl map; [rewrite !qsum_nil; ring|].
  rewrite !qsum_cons, IH. ring.
Qed.

Lemma qsum_map_scal : forall {A} c (f : A -> Q) l,
  qsum (map (fun x => c * f x) l) == c * qsum (map f l).
Proof.
  intros A c f l; induction l as [|x l IH]; simpl map; [rewrite !qsum_nil; ring|].
  rewrite !qsum_cons, IH. ring.
Qed.

Lemma qn_S : forall k, qn (S k) == qn k + 1.
Proof.
  intros k. unfold qn. rewrite Nat2Z.inj_succ. unfold Z.succ. rewrite inject_Z_plus. reflexivity.
Qed.

Lemma qn_nonzero : forall k, (0 < k)%nat -> ~ qn k == 0.
Proof. intros k Hk. unfold qn, inject_Z, Qeq. cbn. lia. Qed.

Lemma qsum_const : forall {A} c (l : list A), qsum (map (fun _ => c) l) == qn (length l) * c.
Proof.
  intros A c l; induction l as [|x l IH]; simpl map; simpl length.
  - rewrite qsum_nil. unfold qn. simpl Z.of_nat. ring.
  - rewrite qsum_cons, IH, qn_S. ring.
Qed.

Lemma qsum_zero : forall {A} (l : list A), qsum (map (fun _ => 0) l) == 0.
Proof. intros A l. rewrite qsum_const. ring. Qed.

Lemma qsum_indicator : forall x c len a,
  qsum (map (fun i => if (x =? i)%nat then c else 0) (seq a len)) ==
  if ((a <=? x)%nat && (x <? a + len)%nat)%bool then c else 0.
Proof.
  intros x c len; induction len as [|len IH]; intros a; simpl seq; simpl map.
  - rewrite qsum_nil. destruct (a <=? x)%nat eqn:E1, (x <? a + 0)%nat eqn:E2; cbn [andb]; try reflexivity. lia.
  - rewrite qsum_cons, IH.
    destruct (Nat.eqb_spec x a) as [->|Hne].
    + replace (S a <=? a)%nat with false by (symmetry; apply Nat.leb_gt; lia). cbn [andb].
      replace (a <=? a)%nat with true by (symmetry; apply Nat.leb_le; lia).
      replace (a <? a + S len)%nat with true by (symmetry; apply Nat.ltb_lt; lia). cbn [andb]. ring.
    + destruct (S a <=? x)%nat eqn:E1, (x <? S a + len)%nat eqn:E2, (a <=? x)%nat eqn:E3, (x <? a + S len)%nat eqn:E4;
        cbn [andb]; try ring; exfalso; lia.
Qed.

(* a sum over the edges can be grouped by any node-valued key of the edge *)
Lemma regroup : forall (key : iedge -> nat) (g : iedge -> Q) n es,
  (forall e, In e es -> (key e < n)%nat) ->
  qsum (map (fun i => qsum (map g (filter (fun e => (key e =? i)%nat) es))) (seq 0 n)) == qsum (map g es).
Proof.
  intros key g n es; induction es as [|e es IH]; intros H.
  - transitivity (qsum (map (fun _ : nat => 0) (seq 0 n))).
    + apply qsum_map_ext. intros i _. reflexivity.
    + rewrite qsum_zero. reflexivity.
  - rewrite (qsum_map_ext _ (fun i => (if (key e =? i)%nat then g e else 0)
                                       + qsum (map g (filter (fun e0 => (key e0 =? i)%nat) es)))).
    + rewrite qsum_map_plus, IH by (intros e' He'; apply H; right; exact He').
      rewrite qsum_indicator. cbn [Nat.leb andb Nat.add].
      replace (key e <? n)%nat with true by (symmetry; apply Nat.ltb_lt; apply H; left; reflexivity).
      simpl map. rewrite qsum_cons. reflexivity.
    + intros i _. simpl filter. destruct (key e =? i)%nat; simpl map; [rewrite qsum_cons; reflexivity|ring].
Qed.

Lemma qsum_red : forall {A} (f : A -> Q) l, qsum (map (fun x => Qred (f x)) l) == qsum (map f l).
Proof. intros. apply qsum_map_ext. intros x _. apply Qred_correct. Qed.

Lemma qsum_sget : forall s, qsum (map (sget s) (seq 0 (length s))) == qsum s.
Proof. intros s. unfold sget. rewrite map_nth_seq_id. reflexivity. Qed.

(* ================================================================== *)
(* PageRank                                                             *)
(* ================================================================== *)

Definition wf_edges (n : nat) (es : list iedge) : Prop :=
  forall e, In e es -> (fst e < n)%nat /\ (snd e < n)%nat.

Definition share (es : list iedge) (s : list Q) (u : nat) : Q :=
  if (0 <? outdeg es u)%nat then sget s u / qn (outdeg es u) else 0.

(* total rank handed over along edges = total rank of the nodes that have out-edges *)
Lemma incoming_total : forall n es s, wf_edges n es ->
  qsum (map (pr_incoming es s) (seq 0 n)) ==
  qsum (map (fun u => if (0 <? outdeg es u)%nat then sget s u else 0) (seq 0 n)).
Proof.
  intros n es s Hwf.
  rewrite (qsum_map_ext _ (fun i => qsum (map (fun e => share es s (fst e)) (filter (fun e => (snd e =? i)%nat) es)))).
  2:{ intros i _. unfold pr_incoming, ipreds. rewrite map_map. reflexivity. }
  rewrite (regroup snd) by (intros e He; apply Hwf; exact He).
  rewrite <- (regroup fst _ n) by (intros e He; apply Hwf; exact He).
  apply qsum_map_ext. intros u _.
  rewrite (qsum_map_ext _ (fun _ => share es s u)).
  2:{ intros e He. apply filter_In in He. destruct He as [_ He]. apply Nat.eqb_eq in He. rewrite He. reflexivity. }
  rewrite qsum_const.
  change (length (filter (fun e : iedge => (fst e =? u)%nat) es)) with (outdeg es u). unfold share.
  destruct (0 <? outdeg es u)%nat eqn:E.
  - field. apply qn_nonzero. apply Nat.ltb_lt. exact E.
  - ring.
Qed.

(* C27_pr_mass, one iteration *)
Theorem pr_step_mass : forall n es d s, (0 < n)%nat -> wf_edges n es -> length s = n ->
  qsum s == 1 -> qsum (pr_step n es d true s) == 1.
Proof.
  intros n es d s Hn Hwf Hlen Hs. unfold pr_step. rewrite qsum_red. unfold pr_score.
  set (D := pr_dangling n es true s).
  rewrite (qsum_map_ext _ (fun i => (1 - d) / qn n + (d * pr_incoming es s i + d * D))) by (intros; ring).
  rewrite qsum_map_plus, qsum_map_plus, qsum_map_scal, !qsum_const, seq_length, incoming_total by exact Hwf.
  assert (HD : qn n * D ==
               qsum (map (fun i => if (outdeg es i =? 0)%nat then sget s i else 0) (seq 0 n))).
  { unfold D, pr_dangling. field. apply qn_nonzero; exact Hn. }
  assert (Hall : qsum (map (fun u => if (0 <? outdeg es u)%nat then sget s u else 0) (seq 0 n))
                 + qn n * D == 1).
  { rewrite HD, <- qsum_map_plus.
    rewrite (qsum_map_ext _ (sget s)).
    - rewrite <- Hlen, qsum_sget. exact Hs.
    - intros u _. destruct (outdeg es u) as [|k]; cbn; ring. }
  transitivity ((1 - d) + d * (qsum (map (fun u => if (0 <? outdeg es u)%nat then sget s u else 0) (seq 0 n)) + qn n * D)).
  - field. apply qn_nonzero; exact Hn.
  - rewrite Hall. ring.
Qed.

Lemma pr_step_length : forall n es d b s, length (pr_step n es d b s) = n.
Proof. intros. unfold pr_step. rewrite map_length, seq_length. reflexivity. Qed.

Lemma pr_init_mass : forall n, (0 < n)%nat -> length (pr_init n) = n /\ qsum (pr_init n) == 1.
Proof.
  intros n Hn. unfold pr_init. split; [apply repeat_length|].
  assert (H : forall c k, qsum (repeat c k) == qn k * c).
  { intros c k; induction k as [|k IH]; simpl repeat.
    - rewrite qsum_nil. unfold qn. simpl Z.of_nat. ring.
    - rewrite qsum_cons, IH, qn_S. ring. }
  rewrite H, Qred_correct. field. apply qn_nonzero; exact Hn.
Qed.

Lemma pr_iter_mass : forall k n es d tol s, (0 < n)%nat -> wf_edges n es -> length s = n ->
  qsum s == 1 ->
  length (pr_iter k n es d tol true s) = n /\ qsum (pr_iter k n es d tol true s) == 1.
Proof.
  intros k; induction k as [|k IH]; intros n es d tol s Hn Hwf Hlen Hs; cbn [pr_iter].
  - split; assumption.
  - destruct (qltb _ tol).
    + split; [apply pr_step_length|apply pr_step_mass; assumption].
    + apply IH; try assumption; [apply pr_step_length|apply pr_step_mass; assumption].
Qed.

(* C27_pr_mass: every graph, every damping factor, iteration count and tolerance *)
Theorem page_rank_mass : forall n es d iterations tol, (0 < n)%nat -> wf_edges n es ->
  length (page_rank n es d iterations tol true) = n /\
  qsum (page_rank n es d iterations tol true) == 1.
Proof.
  intros n es d it tol Hn Hwf. unfold page_rank.
  replace (n =? 0)%nat with false by (symmetry; apply Nat.eqb_neq; lia).
  destruct (pr_init_mass n Hn) as [Hl Hs]. apply pr_iter_mass; assumption.
Qed.

(* C27_pr_step_def: the LDBC Graphalytics formula *)
Theorem pr_step_def : forall n es d dangling s i, (i < n)%nat ->
  nth i (pr_step n es d dangling s) 0 ==
  (1 - d) / qn n
  + d * (qsum (map (fun u => sget s u / qn (outdeg es u)) (ipreds es i))
         + (if dangling
            then qsum (map (fun u => if (outdeg es u =? 0)%nat then sget s u else 0) (seq 0 n)) / qn n
            else 0)).
Proof.
  intros n es d dangling s i Hi. unfold pr_step. rewrite nth_map_seq' by exact Hi.
  rewrite Qred_correct. unfold pr_score, pr_incoming, pr_dangling.
  rewrite (qsum_map_ext (fun u => if (0 <? outdeg es u)%nat then sget s u / qn (outdeg es u) else 0)
                        (fun u => sget s u / qn (outdeg es u))); [reflexivity|].
  intros u Hu. unfold ipreds in Hu. apply in_map_iff in Hu. destruct Hu as [e [<- He]].
  apply filter_In in He. destruct He as [He _].
  assert (Hpos : (0 < outdeg es (fst e))%nat).
  { unfold outdeg. assert (Hin : In e (filter (fun e0 => (fst e0 =? fst e)%nat) es))
      by (apply filter_In; split; [exact He|apply Nat.eqb_refl]).
    assert (Hl : forall (l : list iedge) x, In x l -> (0 < length l)%nat)
      by (intros [|y0 l0] x0 H0; [destruct H0|cbn [length]; lia]).
    eapply Hl. exact Hin. }
  replace (0 <? outdeg es (fst e))%nat with true by (symmetry; apply Nat.ltb_lt; exact Hpos). reflexivity.
Qed.
