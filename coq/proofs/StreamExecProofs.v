(* Proofs about the streaming write pipeline (model/StreamExec.v). *)
From Coq Require Import List ZArith NArith Bool Lia.
From Verif Require Import CheckLib StreamExec.
Import ListNotations.
Open Scope N_scope.
Arguments apply_effect : simpl never.

Definition wf (g : graph) : Prop :=
  (forall n, In n (nodes g) -> nid n < next_node g) /\
  (forall e, In e (edges g) -> esrc e < next_node g /\ edst e < next_node g).

Lemma wf_b_spec : forall g, wf_b g = true -> wf g.
Proof.
  intros g H. unfold wf_b in H. apply andb_true_iff in H. destruct H as [H1 H2].
  rewrite forallb_forall in H1, H2. split.
  - intros n Hn. apply N.ltb_lt. apply H1; exact Hn.
  - intros e He. specialize (H2 e He). apply andb_true_iff in H2. destruct H2 as [A B].
    split; apply N.ltb_lt; assumption.
Qed.

Lemma find_node_some : forall id g n, find_node id g = Some n -> In n (nodes g) /\ nid n = id.
Proof.
  unfold find_node. intros id g n H. apply find_some in H. destruct H as [H1 H2].
  split; [exact H1 | apply N.eqb_eq; exact H2].
Qed.

(* ---------- what a store call can change ---------- *)
Lemma next_node_mono : forall e g g', apply_effect e g = Applied g' -> next_node g <= next_node g'.
Proof.
  intros e g g' H. destruct e; unfold apply_effect in H; cbn in H.
  - inversion H; subst; cbn. lia.
  - destruct (find_node id g); [|discriminate]. destruct (_ && _); [discriminate|]. inversion H; subst; cbn. lia.
  - destruct (find_node id g); [|discriminate]. destruct (mem label (nlabels n)); [inversion H; subst; lia|].
    destruct (existsb _ (uniq g)); [discriminate|]. inversion H; subst; cbn. lia.
  - destruct (find_node id g); [|discriminate]. inversion H; subst; cbn. lia.
  - destruct (find_node id g); [|discriminate]. destruct (incident id g); [discriminate|]. inversion H; subst; cbn. lia.
  - destruct (find_node src g); [|discriminate]. destruct (find_node dst g); [|discriminate]. inversion H; subst; cbn. lia.
  - inversion H; subst; cbn. lia.
Qed.

Lemma created_ge : forall p g x, In x (r_created (exec p g)) -> next_node g <= x.
Proof.
  induction p as [| e | eff cl k IH | eff k IH | f IH]; intros g x Hx; cbn in Hx.
  - destruct Hx.
  - destruct Hx.
  - destruct (apply_effect eff g) as [g'|e'] eqn:E.
    + cbn in Hx. apply in_app_or in Hx. destruct Hx as [Hx|Hx].
      * destruct eff; cbn in Hx; try destruct Hx as [Hx|[]]; try destruct Hx. subst. lia.
      * pose proof (next_node_mono _ _ _ E). specialize (IH g' x Hx). lia.
    + destruct cl as [c|]; [destruct (apply_effect (EDeleteNode c) g)|]; cbn in Hx; destruct Hx.
  - destruct (apply_effect eff g) as [g'|e'] eqn:E.
    + cbn in Hx. apply in_app_or in Hx. destruct Hx as [Hx|Hx].
      * destruct eff; cbn in Hx; try destruct Hx as [Hx|[]]; try destruct Hx. subst. lia.
      * pose proof (next_node_mono _ _ _ E). specialize (IH g' x Hx). lia.
    + apply IH; exact Hx.
  - apply (IH g g x Hx).
Qed.

(* a row whose store calls all had no effect leaves the store as it was *)
Lemma exec_unapplied : forall p g,
  r_err (exec p g) = None -> r_applied (exec p g) = [] -> r_graph (exec p g) = g.
Proof.
  induction p as [| e | eff cl k IH | eff k IH | f IH]; intros g He Ha; cbn in *.
  - reflexivity.
  - discriminate.
  - destruct (apply_effect eff g) as [g'|e'].
    + cbn in Ha. discriminate.
    + destruct cl as [c|]; [destruct (apply_effect (EDeleteNode c) g)|]; cbn in He; discriminate.
  - destruct (apply_effect eff g) as [g'|e'].
    + cbn in Ha. discriminate.
    + apply IH; assumption.
  - apply IH; assumption.
Qed.

(* ---------- the failing row: one node built and removed again ---------- *)
Record framed (g0 : graph) (c : N) (g : graph) : Prop := {
  fr_nodes : exists nc, nodes g = nodes g0 ++ [nc] /\ nid nc = c;
  fr_edges : edges g = edges g0;
  fr_uniq : uniq g = uniq g0;
  fr_next : next_node g = N.succ c;
  fr_old : forall n, In n (nodes g0) -> nid n < c;
  fr_ends : forall e, In e (edges g0) -> esrc e < c /\ edst e < c
}.

Lemma map_upd_old : forall (l : list node) c f,
  (forall n, In n l -> nid n < c) ->
  map (fun n => if N.eqb (nid n) c then f n else n) l = l.
Proof.
  induction l as [|n l IH]; intros c f H; cbn; [reflexivity|].
  assert (Hn : nid n < c) by (apply H; left; reflexivity).
  destruct (N.eqb (nid n) c) eqn:E; [apply N.eqb_eq in E; lia|].
  f_equal. apply IH. intros m Hm. apply H. right; exact Hm.
Qed.

Lemma framed_upd : forall g0 c g f, (forall n, nid (f n) = nid n) ->
  framed g0 c g -> framed g0 c (upd_node c f g).
Proof.
  intros g0 c g f Hf F. destruct F as [[nc [Hn Hc]] He Hu Hx Ho Hen].
  constructor; cbn; try assumption.
  exists (f nc). split; [|rewrite Hf; exact Hc].
  rewrite Hn, map_app. cbn. rewrite (map_upd_old _ _ _ Ho).
  rewrite Hc, N.eqb_refl. reflexivity.
Qed.

Lemma filter_old : forall (l : list node) c,
  (forall n, In n l -> nid n < c) -> filter (fun n => negb (N.eqb (nid n) c)) l = l.
Proof.
  induction l as [|n l IH]; intros c H; cbn; [reflexivity|].
  assert (Hn : nid n < c) by (apply H; left; reflexivity).
  destruct (N.eqb (nid n) c) eqn:E; [apply N.eqb_eq in E; lia|]. cbn.
  f_equal. apply IH. intros m Hm. apply H. right; exact Hm.
Qed.

Lemma framed_delete : forall g0 c g g', framed g0 c g ->
  apply_effect (EDeleteNode c) g = Applied g' -> obs g' = obs g0.
Proof.
  intros g0 c g g' F H. destruct F as [[nc [Hn Hc]] He Hu Hx Ho Hen]. unfold apply_effect in H.
  destruct (find_node c g); [|discriminate]. destruct (incident c g); [discriminate|].
  inversion H; subst; clear H. unfold obs, remove_node; cbn. rewrite He, Hu. f_equal. f_equal.
  rewrite Hn, filter_app. cbn. rewrite N.eqb_refl. cbn. rewrite app_nil_r. apply filter_old; exact Ho.
Qed.

Lemma applied_on_c : forall eff g g' c g0, framed g0 c g ->
  apply_effect eff g = Applied g' -> opt_eqb (target_of eff g) (Some c) = true -> framed g0 c g'.
Proof.
  intros eff g g' c g0 F H T. destruct eff; cbn in T; try discriminate.
  - (* create: its target is the next id, not c *)
    apply N.eqb_eq in T. rewrite (fr_next _ _ _ F) in T. lia.
  - apply N.eqb_eq in T. subst id. unfold apply_effect in H; cbn in H.
    destruct (find_node c g); [|discriminate]. destruct (_ && _); [discriminate|].
    inversion H; subst. apply framed_upd; [reflexivity | exact F].
  - apply N.eqb_eq in T. subst id. unfold apply_effect in H; cbn in H.
    destruct (find_node c g); [|discriminate]. destruct (mem label (nlabels n)); [inversion H; subst; exact F|].
    destruct (existsb _ (uniq g)); [discriminate|].
    inversion H; subst. apply framed_upd; [reflexivity | exact F].
  - apply N.eqb_eq in T. subst id. unfold apply_effect in H; cbn in H.
    destruct (find_node c g); [|discriminate].
    inversion H; subst. apply framed_upd; [reflexivity | exact F].
Qed.

Lemma exec_framed : forall p g0 c g e,
  framed g0 c g ->
  r_err (exec p g) = Some e -> r_cleaned (exec p g) = Some c ->
  forallb (fun t => opt_eqb t (Some c)) (r_applied (exec p g)) = true ->
  obs (r_graph (exec p g)) = obs g0.
Proof.
  induction p as [| e0 | eff cl k IH | eff k IH | f IH]; intros g0 c g e F He Hc Ha; cbn in *.
  - discriminate.
  - discriminate.
  - destruct (apply_effect eff g) as [g'|e'] eqn:E.
    + cbn in *. apply andb_true_iff in Ha. destruct Ha as [Ht Ha].
      eapply IH; eauto. eapply applied_on_c; eauto.
    + destruct cl as [c'|]; [|cbn in Hc; discriminate].
      destruct (apply_effect (EDeleteNode c') g) as [g'|] eqn:D; cbn in *; [|discriminate].
      inversion Hc; subst c'. eapply framed_delete; eauto.
  - destruct (apply_effect eff g) as [g'|e'] eqn:E.
    + cbn in *. apply andb_true_iff in Ha. destruct Ha as [Ht Ha].
      eapply IH; eauto. eapply applied_on_c; eauto.
    + eapply IH; eauto.
  - eapply IH; eauto.
Qed.

Lemma framed_create : forall g ls g', wf g ->
  apply_effect (ECreateNode ls) g = Applied g' -> framed g (next_node g) g'.
Proof.
  intros g ls g' [W1 W2] H. unfold apply_effect in H. inversion H; subst; clear H.
  constructor; cbn; auto.
  eexists; split; reflexivity.
Qed.

(* a successful store call on an existing node, or not on a node at all: the row has a residue *)
Lemma residue_step : forall eff g g' k, wf g ->
  apply_effect eff g = Applied g' ->
  (forall ls, eff <> ECreateNode ls) ->
  in_row_residue (cons_applied (target_of eff g) (created_of eff g) (exec k g')) = true.
Proof.
  intros eff g g' k [W1 W2] E Hnc. unfold in_row_residue. cbn.
  destruct (r_cleaned (exec k g')) as [c|] eqn:C; [|reflexivity].
  destruct (opt_eqb (target_of eff g) (Some c)) eqn:T; [|reflexivity]. cbn.
  assert (Hlt : c < next_node g).
  { destruct eff; cbn in T; try discriminate.
    - exfalso. eapply Hnc; reflexivity.
    - apply N.eqb_eq in T. subst. unfold apply_effect in E; cbn in E. destruct (find_node c g) eqn:Fn; [|discriminate].
      apply find_node_some in Fn. destruct Fn as [Hin <-]. apply W1; exact Hin.
    - apply N.eqb_eq in T. subst. unfold apply_effect in E; cbn in E. destruct (find_node c g) eqn:Fn; [|discriminate].
      apply find_node_some in Fn. destruct Fn as [Hin <-]. apply W1; exact Hin.
    - apply N.eqb_eq in T. subst. unfold apply_effect in E; cbn in E. destruct (find_node c g) eqn:Fn; [|discriminate].
      apply find_node_some in Fn. destruct Fn as [Hin <-]. apply W1; exact Hin. }
  assert (Hcr : created_of eff g = []).
  { destruct eff; try reflexivity. exfalso. eapply Hnc; reflexivity. }
  rewrite Hcr. cbn.
  unfold mem. destruct (existsb (N.eqb c) (r_created (exec k g'))) eqn:M; [|apply orb_true_iff; right; reflexivity].
  apply existsb_exists in M. destruct M as [x [Hx Hxc]]. apply N.eqb_eq in Hxc. subst x.
  pose proof (created_ge _ _ _ Hx). pose proof (next_node_mono _ _ _ E). lia.
Qed.

Lemma exec_clean : forall p g e, wf g ->
  r_err (exec p g) = Some e -> in_row_residue (exec p g) = false ->
  obs (r_graph (exec p g)) = obs g.
Proof.
  induction p as [| e0 | eff cl k IH | eff k IH | f IH]; intros g e W He Hr; cbn in *.
  - discriminate.
  - reflexivity.
  - destruct (apply_effect eff g) as [g'|e'] eqn:E.
    + destruct eff as [ls| | | | | |];
        try (rewrite (residue_step _ g g' k W E) in Hr; [discriminate | intros; discriminate]).
      (* the row starts building a node *)
      unfold in_row_residue in Hr. cbn in Hr, He.
      destruct (r_cleaned (exec k g')) as [c|] eqn:C; [|discriminate].
      apply orb_false_iff in Hr. destruct Hr as [Hall _]. apply negb_false_iff in Hall.
      apply andb_true_iff in Hall. destruct Hall as [Ht Hall]. apply N.eqb_eq in Ht. subst c.
      eapply exec_framed; eauto. eapply framed_create; eauto.
    + destruct cl as [c|]; [|reflexivity].
      destruct (apply_effect (EDeleteNode c) g) as [g'|]; cbn in *; [|reflexivity].
      unfold in_row_residue in Hr. cbn in Hr. discriminate.
  - destruct (apply_effect eff g) as [g'|e'] eqn:E.
    + destruct eff as [ls| | | | | |];
        try (rewrite (residue_step _ g g' k W E) in Hr; [discriminate | intros; discriminate]).
      unfold in_row_residue in Hr. cbn in Hr, He.
      destruct (r_cleaned (exec k g')) as [c|] eqn:C; [|discriminate].
      apply orb_false_iff in Hr. destruct Hr as [Hall _]. apply negb_false_iff in Hall.
      apply andb_true_iff in Hall. destruct Hall as [Ht Hall]. apply N.eqb_eq in Ht. subst c.
      eapply exec_framed; eauto. eapply framed_create; eauto.
    + eapply IH; eauto.
  - eapply IH; eauto.
Qed.

(* ---------- the row loop ---------- *)
Lemma prior_sticky : forall w post src g, prior (run_stream w post src g true) = true.
Proof.
  intros w post. induction src as [|[r|e] rest IH]; intros g; cbn; try reflexivity.
  destruct (r_err (exec (w r) g)); [reflexivity|].
  destruct (post r (r_graph (exec (w r) g))); [reflexivity | apply IH].
Qed.

Lemma run_stream_clean : forall w post src g e, wf g ->
  let r := run_stream w post src g false in
  e_out r = Some e -> prior r = false -> inrow r = false -> obs (g_out r) = obs g.
Proof.
  intros w post. induction src as [|[r|e0] rest IH]; intros g e W; cbn.
  - discriminate.
  - destruct (r_err (exec (w r) g)) as [e1|] eqn:E1.
    + cbn. intros _ _ Hin. eapply exec_clean; eauto.
    + destruct (nonempty (r_applied (exec (w r) g))) eqn:NE.
      * destruct (post r (r_graph (exec (w r) g))); cbn; [discriminate|].
        intros _ Hp. rewrite prior_sticky in Hp. discriminate.
      * assert (Ha : r_applied (exec (w r) g) = []) by (destruct (r_applied (exec (w r) g)); [reflexivity | discriminate]).
        rewrite (exec_unapplied _ _ E1 Ha).
        destruct (post r g); cbn; [reflexivity|]. apply IH; exact W.
  - reflexivity.
Qed.

Lemma run_stream_ok_unapplied : forall w post src g,
  let r := run_stream w post src g false in
  e_out r = None -> prior r = false -> g_out r = g.
Proof.
  intros w post. induction src as [|[r|e0] rest IH]; intros g; cbn.
  - reflexivity.
  - destruct (r_err (exec (w r) g)) as [e1|] eqn:E1; [cbn; discriminate|].
    destruct (nonempty (r_applied (exec (w r) g))) eqn:NE.
    + destruct (post r (r_graph (exec (w r) g))); cbn; [discriminate|].
      intros _ Hp. rewrite prior_sticky in Hp. discriminate.
    + assert (Ha : r_applied (exec (w r) g) = []) by (destruct (r_applied (exec (w r) g)); [reflexivity | discriminate]).
      rewrite (exec_unapplied _ _ E1 Ha).
      destruct (post r g); cbn; [discriminate|]. apply IH.
  - discriminate.
Qed.

Theorem known_complement : forall g s e, wf g ->
  e_out (run g s) = Some e -> Known_C05 g s = false -> obs (g_out (run g s)) = obs g.
Proof.
  intros g s e W. unfold Known_C05, class_of, run.
  destruct (s_plan_err s); [reflexivity|].
  destruct (if s_barrier s then first_err (s_source s) else None); [reflexivity|].
  destruct (s_write_first s).
  - set (r1 := run_stream (s_write s) (fun _ _ => None) (s_source s) g false).
    destruct (e_out r1) as [e1|] eqn:E1.
    + rewrite E1. intros _ Hk.
      destruct (prior r1) eqn:P; [discriminate|]. destruct (inrow r1) eqn:I; [discriminate|].
      eapply (run_stream_clean _ _ _ g e1 W); eauto.
    + destruct (run_post (s_post s) (lefts (s_source s)) (g_out r1)); cbn.
      * intros _ Hk. destruct (prior r1) eqn:P; [discriminate|].
        unfold r1 in *. rewrite (run_stream_ok_unapplied _ _ _ g E1 P). reflexivity.
      * rewrite E1. discriminate.
  - set (r1 := run_stream (s_write s) (s_post s) (s_source s) g false).
    intros He Hk. rewrite He in Hk.
    destruct (prior r1) eqn:P; [discriminate|]. destruct (inrow r1) eqn:I; [discriminate|].
    eapply (run_stream_clean _ _ _ g e W); eauto.
Qed.

(* ---------- the faithful characterisation: the prefix stays ---------- *)
Definition apply_rows (w : row -> prog) (rows : list row) (g : graph) : graph :=
  fold_left (fun g r => r_graph (exec (w r) g)) rows g.

Definition prefix_state (w : row -> prog) (src : list (row + err)) (g g' : graph) : Prop :=
  exists pre rest, src = map inl pre ++ rest /\
    (g' = apply_rows w pre g \/
     exists rk rest', rest = inl rk :: rest' /\ g' = r_graph (exec (w rk) (apply_rows w pre g))).

Lemma prefix_cons : forall w r src g g',
  prefix_state w src (r_graph (exec (w r) g)) g' -> prefix_state w (inl r :: src) g g'.
Proof.
  intros w r src g g' [pre [rest [Hs H]]]. exists (r :: pre), rest. split; [cbn; rewrite Hs; reflexivity|].
  cbn. exact H.
Qed.

Lemma run_stream_prefix : forall w post src g pr,
  prefix_state w src g (g_out (run_stream w post src g pr)).
Proof.
  intros w post. induction src as [|[r|e0] rest IH]; intros g pr; cbn.
  - exists [], []. split; [reflexivity | left; reflexivity].
  - destruct (r_err (exec (w r) g)) eqn:E1; cbn.
    + exists [], (inl r :: rest). split; [reflexivity|]. right. exists r, rest. split; reflexivity.
    + destruct (post r (r_graph (exec (w r) g))); cbn.
      * exists [r], rest. split; [reflexivity | left; reflexivity].
      * apply prefix_cons. apply IH.
  - exists [], (inr e0 :: rest). split; [reflexivity | left; reflexivity].
Qed.

Theorem prefix_applied : forall g s,
  prefix_state (s_write s) (s_source s) g (g_out (run g s)).
Proof.
  intros g s. unfold run.
  destruct (s_plan_err s); [exists [], (s_source s); split; [reflexivity | left; reflexivity]|].
  destruct (if s_barrier s then first_err (s_source s) else None);
    [exists [], (s_source s); split; [reflexivity | left; reflexivity]|].
  destruct (s_write_first s).
  - set (r1 := run_stream (s_write s) (fun _ _ => None) (s_source s) g false).
    destruct (e_out r1); [apply run_stream_prefix|].
    destruct (run_post _ _ _); cbn; apply run_stream_prefix.
  - apply run_stream_prefix.
Qed.

(* ---------- the property, refuted on the faithful model ---------- *)
Definition atomic_full : Prop :=
  forall g s e, wf g -> e_out (run g s) = Some e -> obs (g_out (run g s)) = obs g.

Definition w_graph : graph :=
  {| nodes := []; edges := []; uniq := [(1, 1)]; next_node := 1; next_edge := 0 |}.
(* UNWIND [1, 1] AS x CREATE (:L {k: x}) with UNIQUE :L(k) *)
Definition w_rows : stmt := compile (TUnwindCreate [VInt 1; VInt 1] [1] [(1, PX)] None).
(* UNWIND [0] AS x CREATE (:L {k: 10 / x}) *)
Definition w_half : stmt := compile (TUnwindCreate [VInt 0] [1] [(1, PDivBy 10)] None).

Lemma w_graph_wf : wf w_graph.
Proof. apply wf_b_spec. reflexivity. Qed.

Theorem refuted_rows :
  wf w_graph /\ class_of (run w_graph w_rows) = Some PartialApply /\ Known_C05 w_graph w_rows = true /\
  e_out (run w_graph w_rows) = Some ErrConstraint /\
  nodes (g_out (run w_graph w_rows)) = [{| nid := 1; nlabels := [1]; nprops := [(1, VInt 1)] |}].
Proof. split; [exact w_graph_wf|]. vm_compute. repeat split; reflexivity. Qed.

Theorem refuted_half :
  wf w_graph /\ class_of (run w_graph w_half) = Some HalfBuiltRow /\ Known_C05 w_graph w_half = true /\
  e_out (run w_graph w_half) = Some ErrDivZero /\
  nodes (g_out (run w_graph w_half)) = [{| nid := 1; nlabels := [1]; nprops := [] |}].
Proof. split; [exact w_graph_wf|]. vm_compute. repeat split; reflexivity. Qed.

Theorem refuted : exists g s, wf g /\ Known_C05 g s = true /\
  ~ (forall e, e_out (run g s) = Some e -> obs (g_out (run g s)) = obs g).
Proof.
  exists w_graph, w_rows. split; [exact w_graph_wf|]. split; [vm_compute; reflexivity|].
  intros H. specialize (H ErrConstraint eq_refl). vm_compute in H. discriminate.
Qed.

Theorem not_atomic_full : ~ atomic_full.
Proof.
  intros A. specialize (A w_graph w_rows ErrConstraint w_graph_wf eq_refl). vm_compute in A. discriminate.
Qed.
