From Coq Require Import List NArith ZArith Bool Lia ZifyBool ZifyN ZifyNat.
From Verif Require Import CypherCore Cypher CypherWrite.
Import ListNotations.
Open Scope N_scope.

(* ---------- association lists ---------- *)
Lemma alookup_aset_eq {A} k (v : A) l : alookup k (aset k v l) = Some v.
Proof.
  induction l as [|[k' v'] r IH]; cbn; [rewrite N.eqb_refl; reflexivity|].
  destruct (k =? k') eqn:E; cbn; [rewrite N.eqb_refl; reflexivity | rewrite E; exact IH].
Qed.

Lemma alookup_aset_neq {A} k k' (v : A) l : k' <> k -> alookup k' (aset k v l) = alookup k' l.
Proof.
  intros H. induction l as [|[k2 v2] r IH]; cbn.
  - destruct (k' =? k) eqn:E; [lia | reflexivity].
  - destruct (k =? k2) eqn:E; cbn.
    + destruct (k' =? k) eqn:E2; [lia|]. destruct (k' =? k2) eqn:E3; [lia | reflexivity].
    + destruct (k' =? k2); [reflexivity | exact IH].
Qed.

Lemma alookup_adel_eq {A} k (l : list (N * A)) : alookup k (adel k l) = None.
Proof.
  unfold adel. induction l as [|[k' v'] r IH]; cbn; [reflexivity|].
  destruct (k =? k') eqn:E; cbn; [exact IH | rewrite E; exact IH].
Qed.

Lemma alookup_adel_neq {A} k k' (l : list (N * A)) : k' <> k -> alookup k' (adel k l) = alookup k' l.
Proof.
  intros H. unfold adel. induction l as [|[k2 v2] r IH]; cbn; [reflexivity|].
  destruct (k =? k2) eqn:E; cbn.
  - destruct (k' =? k2) eqn:E2; [lia | exact IH].
  - destruct (k' =? k2); [reflexivity | exact IH].
Qed.

(* the effect of storing a value, reference semantics: the key reads as the value
   (null = absent), every other key is untouched *)
Lemma prop_of_put k k' v ps :
  prop_of k' (put_prop ref_w k v ps) = if k' =? k then v else prop_of k' ps.
Proof.
  unfold prop_of. destruct (k' =? k) eqn:E.
  - apply N.eqb_eq in E. subst k'. destruct v; cbn [put_prop ref_w wc_null_removes];
      rewrite ?alookup_aset_eq, ?alookup_adel_eq; reflexivity.
  - assert (H : k' <> k) by lia. destruct v; cbn [put_prop ref_w wc_null_removes];
      rewrite ?alookup_aset_neq, ?alookup_adel_neq by exact H; reflexivity.
Qed.

(* ---------- fresh ids ---------- *)
Lemma NoDup_snoc {A} (l : list A) x : ~ In x l -> NoDup l -> NoDup (l ++ [x]).
Proof.
  induction l as [|a r IH]; cbn; intros Hx ND; [constructor; [tauto | constructor]|].
  inversion ND as [|? ? Ha Hr]; subst. constructor.
  - rewrite in_app_iff. cbn. intros [H|[H|[]]]; [tauto | subst; tauto].
  - apply IH; tauto.
Qed.

Lemma max_id_ge l : forall acc x, (In x l \/ x <= acc) -> x <= fold_left N.max l acc.
Proof.
  induction l as [|y r IH]; cbn; intros acc x H; [destruct H as [[]|H]; exact H|].
  apply IH. destruct H as [[->|H]|H]; [right; lia | left; exact H | right; lia].
Qed.

Lemma fresh_node_new g : ~ In (fresh_node g) (map n_id (g_nodes g)).
Proof.
  unfold fresh_node, max_id. intros H. pose proof (max_id_ge _ 0 _ (or_introl H)). lia.
Qed.

Lemma fresh_rel_new g : ~ In (fresh_rel g) (map r_id (g_rels g)).
Proof.
  unfold fresh_rel, max_id. intros H. pose proof (max_id_ge _ 0 _ (or_introl H)). lia.
Qed.

(* CREATE of a pattern position that is not already bound: exactly one node is added,
   under an id no node of the graph has; ids stay pairwise distinct *)
Lemma create_npat_fresh wc g r np g' r' i :
  (match np_var np with Some x => alookup x r | None => None end) = None ->
  create_npat wc g r np = Ok (g', r', i) ->
  i = fresh_node g /\ ~ In i (map n_id (g_nodes g)) /\
  (exists n, g_nodes g' = g_nodes g ++ [n] /\ n_id n = i) /\ g_rels g' = g_rels g /\
  (NoDup (map n_id (g_nodes g)) -> NoDup (map n_id (g_nodes g'))).
Proof.
  intros Hb H. unfold create_npat in H. rewrite Hb in H.
  destruct (props_storable (np_props np)); [|discriminate]. inversion H; subst. clear H.
  split; [reflexivity|]. split; [apply fresh_node_new|]. split; [eexists; split; reflexivity|].
  split; [reflexivity|]. cbn. intros ND. rewrite map_app. cbn.
  apply NoDup_snoc; [apply fresh_node_new | exact ND].
Qed.

(* ---------- SET: the frame ---------- *)
Lemma set_node_prop_frame g i k v :
  let g' := set_node_prop ref_w g i k v in
  g_rels g' = g_rels g /\
  map n_id (g_nodes g') = map n_id (g_nodes g) /\
  (forall j, j <> i -> find_node g' j = find_node g j) /\
  (forall n, find_node g i = Some n ->
     exists n', find_node g' i = Some n' /\ n_id n' = n_id n /\ n_labels n' = n_labels n /\
                forall k', prop_of k' (n_props n') = if k' =? k then v else prop_of k' (n_props n)).
Proof.
  cbn zeta. unfold set_node_prop, map_node, find_node. cbn [g_nodes g_rels].
  split; [reflexivity|]. split.
  - induction (g_nodes g) as [|n r IH]; cbn; [reflexivity|]. rewrite IH.
    destruct (n_id n =? i); reflexivity.
  - split.
    + intros j Hj. induction (g_nodes g) as [|n r IH]; cbn; [reflexivity|].
      destruct (n_id n =? i) eqn:E; cbn.
      * destruct (n_id n =? j) eqn:E2; [lia | exact IH].
      * destruct (n_id n =? j); [reflexivity | exact IH].
    + intros n. induction (g_nodes g) as [|m r IH]; cbn; [discriminate|].
      destruct (n_id m =? i) eqn:E; cbn; rewrite E.
      * intros [= ->]. eexists. split; [reflexivity|]. cbn. repeat split; try reflexivity.
        intros k'. apply prop_of_put.
      * exact IH.
Qed.

Lemma set_rel_prop_frame g i k v :
  let g' := set_rel_prop ref_w g i k v in
  g_nodes g' = g_nodes g /\
  map r_id (g_rels g') = map r_id (g_rels g) /\
  (forall j, j <> i -> find_rel g' j = find_rel g j) /\
  (forall e, find_rel g i = Some e ->
     exists e', find_rel g' i = Some e' /\ r_src e' = r_src e /\ r_tgt e' = r_tgt e /\ r_type e' = r_type e /\
                forall k', prop_of k' (r_props e') = if k' =? k then v else prop_of k' (r_props e)).
Proof.
  cbn zeta. unfold set_rel_prop, map_rel, find_rel. cbn [g_nodes g_rels].
  split; [reflexivity|]. split.
  - induction (g_rels g) as [|n r IH]; cbn; [reflexivity|]. rewrite IH.
    destruct (r_id n =? i); reflexivity.
  - split.
    + intros j Hj. induction (g_rels g) as [|n r IH]; cbn; [reflexivity|].
      destruct (r_id n =? i) eqn:E; cbn.
      * destruct (r_id n =? j) eqn:E2; [lia | exact IH].
      * destruct (r_id n =? j); [reflexivity | exact IH].
    + intros n. induction (g_rels g) as [|m r IH]; cbn; [discriminate|].
      destruct (r_id m =? i) eqn:E; cbn; rewrite E.
      * intros [= ->]. eexists. split; [reflexivity|]. cbn. repeat split; try reflexivity.
        intros k'. apply prop_of_put.
      * exact IH.
Qed.

(* SET x.k = e on a row that binds x to node i is exactly that primitive *)
Lemma apply_set_prop_node cf pe r g x k e i v g' :
  alookup x r = Some (VNode i) -> eval_expr cf g pe r e = Ok v ->
  apply_set ref_w cf pe r g (SetProp x k e) = Ok g' ->
  storable v = true /\ g' = set_node_prop ref_w g i k v.
Proof.
  intros Hx He H. cbn in H. rewrite Hx, He in H. unfold set_prop_on in H.
  destruct (storable v); [|discriminate]. inversion H. auto.
Qed.

(* ---------- DETACH DELETE ---------- *)
Lemma has_node_In g i : has_node g i = true <-> In i (map n_id (g_nodes g)).
Proof.
  unfold has_node. rewrite existsb_exists, in_map_iff. split.
  - intros [n [H E]]. exists n. split; [lia | exact H].
  - intros [n [E H]]. exists n. split; [exact H | lia].
Qed.

Lemma detach_delete_exact g i :
  let g' := detach_delete_node g i in
  (forall n, In n (g_nodes g') <-> In n (g_nodes g) /\ n_id n <> i) /\
  (forall e, In e (g_rels g') <-> In e (g_rels g) /\ r_src e <> i /\ r_tgt e <> i) /\
  (well_formed g = true -> well_formed g' = true).
Proof.
  cbn zeta. unfold detach_delete_node. cbn [g_nodes g_rels]. split; [|split].
  - intros n. rewrite filter_In. split; intros [H1 H2]; (split; [exact H1 | lia]).
  - intros e. rewrite filter_In. unfold incident. split; intros [H1 H2]; (split; [exact H1 | lia]).
  - unfold well_formed. cbn [g_rels]. rewrite !forallb_forall. intros WF e He.
    apply filter_In in He. destruct He as [He Hi]. unfold incident in Hi.
    specialize (WF e He). apply andb_true_iff in WF. destruct WF as [W1 W2].
    assert (Hk : forall j, j <> i -> has_node g j = true ->
                 has_node {| g_nodes := filter (fun n => negb (n_id n =? i)) (g_nodes g);
                             g_rels := filter (fun r => negb (incident i r)) (g_rels g) |} j = true).
    { intros j Hj H. unfold has_node in *. cbn [g_nodes]. rewrite existsb_exists in *.
      destruct H as [n [Hn En]]. exists n. split; [|exact En]. apply filter_In. split; [exact Hn | lia]. }
    apply andb_true_iff. split; apply Hk; try assumption; lia.
Qed.

(* ---------- DELETE without DETACH: the guard ---------- *)
Lemma delete_node_dangling g i e :
  In e (g_rels g) -> incident i e = true -> well_formed (delete_node g i) = false.
Proof.
  intros He Hi. unfold well_formed, delete_node. cbn [g_rels].
  apply not_true_is_false. intros WF. rewrite forallb_forall in WF. specialize (WF e He).
  apply andb_true_iff in WF. destruct WF as [W1 W2]. unfold has_node in W1, W2. cbn [g_nodes] in W1, W2.
  rewrite existsb_exists in W1, W2. unfold incident in Hi.
  destruct W1 as [n1 [H1 E1]]. destruct W2 as [n2 [H2 E2]].
  apply filter_In in H1. apply filter_In in H2. lia.
Qed.

(* a statement whose updates leave a relationship without an endpoint is an error *)
Lemma exec_ordered_guard wc cf pe (b : bool) g s rows g1 rows1 :
  eval_clauses cf g pe (s_reads s) [[]] = Ok rows ->
  exec_updates wc cf pe (s_updates s) g (if b then rev rows else rows) = Ok (g1, rows1) ->
  well_formed g1 = false ->
  exec_ordered wc cf pe b g s = ErrT.
Proof.
  intros H1 H2 H3. unfold exec_ordered. rewrite H1. cbn [obind]. rewrite H2. cbn [obind fst]. rewrite H3. reflexivity.
Qed.

(* MATCH ... (one row, binding x to a connected node) DELETE x  is refused *)
Lemma delete_guard wc cf g s x i e r :
  s_updates s = [UDelete false [x]] ->
  eval_clauses cf g [] (s_reads s) [[]] = Ok [r] ->
  alookup x r = Some (VNode i) ->
  In e (g_rels g) -> incident i e = true ->
  exec_ordered wc cf [] false g s = ErrT /\ exec_ordered wc cf [] true g s = ErrT /\
  exec_stmt_cfg wc cf g s = ErrT.
Proof.
  intros Hu Hr Hx He Hi.
  assert (Hup : forall b : bool, exec_updates wc cf [] (s_updates s) g (if b then rev [r] else [r]) = Ok (delete_node g i, [r])).
  { intros b. rewrite Hu. assert (E : (if b return list row then rev [r] else [r]) = [r]) by (destruct b; reflexivity). rewrite E.
    unfold exec_updates, exec_uclause, per_row. cbn. unfold apply_delete. rewrite Hx. cbn. reflexivity. }
  assert (A : forall b : bool, exec_ordered wc cf [] b g s = ErrT).
  { intros b. eapply exec_ordered_guard; [exact Hr | apply Hup | eapply delete_node_dangling; eassumption]. }
  split; [apply A|]. split; [apply A|].
  unfold exec_stmt_cfg. rewrite !A. reflexivity.
Qed.

(* ---------- MERGE ---------- *)
(* SET / labels never add or remove an entity *)
Lemma set_prop_on_ids wc g t k v g' :
  set_prop_on wc g t k v = Ok g' ->
  map n_id (g_nodes g') = map n_id (g_nodes g) /\ map r_id (g_rels g') = map r_id (g_rels g).
Proof.
  unfold set_prop_on. destruct (storable v); [|discriminate].
  destruct t; try discriminate; intros [= <-]; try (split; reflexivity).
  - unfold set_node_prop, map_node. cbn. split; [|reflexivity].
    induction (g_nodes g) as [|n r IH]; cbn; [reflexivity|]. rewrite IH. destruct (n_id n =? id); reflexivity.
  - unfold set_rel_prop, map_rel. cbn. split; [reflexivity|].
    induction (g_rels g) as [|n r IH]; cbn; [reflexivity|]. rewrite IH. destruct (r_id n =? id); reflexivity.
Qed.

Definition same_ids (g g' : graph) : Prop :=
  map n_id (g_nodes g') = map n_id (g_nodes g) /\ map r_id (g_rels g') = map r_id (g_rels g).

Lemma same_ids_refl g : same_ids g g. Proof. split; reflexivity. Qed.
Lemma same_ids_trans a b c : same_ids a b -> same_ids b c -> same_ids a c.
Proof. intros [H1 H2] [H3 H4]. split; congruence. Qed.

Lemma ofold_ids {B} (f : graph -> B -> outcome graph) :
  (forall g b g', f g b = Ok g' -> same_ids g g') ->
  forall l g g', ofold f l g = Ok g' -> same_ids g g'.
Proof.
  intros Hf. induction l as [|b r IH]; cbn; intros g g' H; [inversion H; apply same_ids_refl|].
  destruct (f g b) as [g1| | |] eqn:E; cbn in H; try discriminate.
  eapply same_ids_trans; [eapply Hf; exact E | eapply IH; exact H].
Qed.

Lemma apply_set_ids wc cf pe r g it g' : apply_set wc cf pe r g it = Ok g' -> same_ids g g'.
Proof.
  destruct it as [x k e|x kvs|x ls]; cbn [apply_set].
  - destruct (alookup x r) as [t|]; [|discriminate].
    destruct (eval_expr cf g pe r e); try discriminate;
      try (destruct (wc_set_errors wc); [discriminate|]); intros H; exact (set_prop_on_ids _ _ _ _ _ _ H).
  - destruct (alookup x r) as [t|]; [|discriminate].
    destruct (resolve_props cf g pe r kvs) as [ps| | |]; cbn [obind]; try discriminate.
    apply (ofold_ids (fun g kv => set_prop_on wc g t (fst kv) (snd kv))).
    intros g0 b g1 H. apply set_prop_on_ids in H. exact H.
  - destruct (alookup x r) as [[]|]; try discriminate; intros [= <-]; try apply same_ids_refl.
    unfold node_add_labels, map_node, same_ids. cbn. split; [|reflexivity].
    induction (g_nodes g) as [|n t IH]; cbn; [reflexivity|]. rewrite IH. destruct (n_id n =? id); reflexivity.
Qed.

(* MERGE on a row whose pattern has matches: every match is bound (one output row per
   match, in match order), nothing is created or removed *)
Lemma merge_binds_every_match cf pe p oc om g r vp g' rows :
  resolve_cpath cf pe g r p = Ok vp ->
  match_rows true g [vpath_ppat vp] r <> [] ->
  merge_row ref_w cf pe p oc om g r = Ok (g', rows) ->
  rows = match_rows true g [vpath_ppat vp] r /\ same_ids g g' /\ (om = [] -> g' = g).
Proof.
  intros Hr Hm H. unfold merge_row in H. rewrite Hr in H. cbn [obind] in H.
  destruct (vpath_has_null vp); [discriminate|].
  destruct (match_rows true g [vpath_ppat vp] r) as [|m ms] eqn:E; [congruence|].
  cbn [wc_merge_all ref_w] in H.
  destruct (ofold (fun g0 m0 => ofold (apply_set ref_w cf pe m0) om g0) (m :: ms) g) as [g2| | |] eqn:E2;
    cbn in H; try discriminate.
  inversion H; subst. split; [reflexivity|]. split.
  - eapply (ofold_ids (fun g0 m0 => ofold (apply_set ref_w cf pe m0) om g0)); [|exact E2].
    intros g0 b g1 H0. eapply (ofold_ids (apply_set ref_w cf pe b)); [|exact H0].
    intros. eapply apply_set_ids. eassumption.
  - intros ->. clear -E2. revert g E2. induction (m :: ms) as [|a t IH]; cbn; intros g E2; [inversion E2; reflexivity|].
    apply IH in E2. exact E2.
Qed.

(* ---- idempotence of MERGE on a node pattern with literal properties ---- *)
Definition scalar (v : value) : bool :=
  match v with VBool _ | VInt _ | VStr _ => true | _ => false end.
(* a storable value that is not null *)
Definition plain (v : value) : bool :=
  match v with
  | VBool _ | VInt _ | VStr _ => true
  | VList l => forallb scalar l
  | _ => false
  end.

Lemma list_eqb_refl (x : list N) : list_eqb N.eqb x x = true.
Proof. induction x as [|a r IH]; cbn; [reflexivity|]. rewrite N.eqb_refl, IH. reflexivity. Qed.

Lemma eq3_scalar v : scalar v = true -> eq3 v v = Some true.
Proof.
  destruct v; cbn; try discriminate; intros _.
  - destruct b; reflexivity.
  - rewrite Z.eqb_refl. reflexivity.
  - rewrite list_eqb_refl. reflexivity.
Qed.

Lemma eq3_plain v : plain v = true -> eq3 v v = Some true.
Proof.
  destruct v; try discriminate; try (intros _; apply eq3_scalar; reflexivity).
  cbn [plain]. intros H. cbn [eq3]. rewrite Nat.eqb_refl.
  induction l as [|a r IH]; [reflexivity|]. cbn in H. apply andb_true_iff in H. destruct H as [Ha Hr].
  cbn. rewrite (eq3_scalar a Ha). specialize (IH Hr). cbn in IH. rewrite IH. reflexivity.
Qed.

Lemma plain_not_null v : plain v = true -> v <> VNull.
Proof. destruct v; cbn; congruence. Qed.

Lemma plain_storable v : plain v = true -> storable v = true.
Proof.
  destruct v; cbn; try congruence. intros H. rewrite forallb_forall in *. intros x Hx.
  specialize (H x Hx). destruct x; cbn in *; congruence.
Qed.

Lemma put_prop_plain wc k v ps : plain v = true -> put_prop wc k v ps = aset k v ps.
Proof. destruct v; cbn; try discriminate; reflexivity. Qed.

(* properties built from a pattern map with distinct keys read back as written *)
Lemma built_props_lookup wc (kvs : list (N * value)) : forall acc,
  NoDup (map fst kvs) -> forallb (fun kv => plain (snd kv)) kvs = true ->
  forall k v, In (k, v) kvs ->
  prop_of k (fold_left (fun acc kv => put_prop wc (fst kv) (snd kv) acc) kvs acc) = v.
Proof.
  induction kvs as [|[k0 v0] r IH]; intros acc ND Hp k v Hin; [destruct Hin|].
  cbn in ND, Hp. inversion ND as [|? ? Hn Hr]; subst. apply andb_true_iff in Hp. destruct Hp as [Hp0 Hpr].
  cbn [fold_left fst snd]. destruct Hin as [[= -> ->]|Hin].
  - rewrite put_prop_plain by exact Hp0.
    assert (G : forall l acc', alookup k (fold_left (fun acc kv => put_prop wc (fst kv) (snd kv) acc) l acc') =
                               alookup k acc' \/ In k (map fst l)).
    { induction l as [|[k1 v1] t IHl]; intros acc'; cbn; [left; reflexivity|].
      destruct (N.eq_dec k1 k) as [->|Hne]; [right; left; reflexivity|].
      destruct (IHl (put_prop wc k1 v1 acc')) as [E|E]; [|right; right; exact E].
      left. rewrite E. destruct v1; cbn; rewrite ?alookup_aset_neq, ?alookup_adel_neq by congruence; try reflexivity.
      destruct (wc_null_removes wc); rewrite ?alookup_aset_neq, ?alookup_adel_neq by congruence; reflexivity. }
    destruct (G r (aset k v acc)) as [E|E]; [|contradiction].
    unfold prop_of. rewrite E, alookup_aset_eq. reflexivity.
  - apply IH; assumption.
Qed.

Lemma add_labels_has ls : forall acc l, (In l ls \/ In l acc) -> memN l (add_labels ls acc) = true.
Proof.
  unfold add_labels. induction ls as [|a r IH]; cbn; intros acc l H.
  - destruct H as [[]|H]. unfold memN. apply existsb_exists. exists l. split; [exact H | apply N.eqb_refl].
  - apply IH. destruct H as [[->|H]|H].
    + right. destruct (memN l acc) eqn:E.
      * unfold memN in E. apply existsb_exists in E. destruct E as [y [Hy Ey]]. apply N.eqb_eq in Ey. subst. exact Hy.
      * apply in_or_app. right. left. reflexivity.
    + left. exact H.
    + right. destruct (memN a acc); [exact H | apply in_or_app; left; exact H].
Qed.

(* the node CREATE / MERGE builds for a pattern satisfies the pattern *)
Lemma created_node_ok wc i (np : npat value) :
  NoDup (map fst (np_props np)) -> forallb (fun kv => plain (snd kv)) (np_props np) = true ->
  node_ok np (Build_node i (add_labels (np_labels np) [])
                (fold_left (fun acc kv => put_prop wc (fst kv) (snd kv) acc) (np_props np) [])) = true.
Proof.
  intros ND Hp. unfold node_ok. cbn [n_labels n_props]. apply andb_true_iff. split.
  - apply forallb_forall. intros l Hl. apply add_labels_has. left. exact Hl.
  - apply forallb_forall. intros [k v] Hkv. unfold prop_match. cbn [fst snd].
    rewrite (built_props_lookup wc (np_props np) [] ND Hp k v Hkv).
    rewrite forallb_forall in Hp. specialize (Hp (k, v) Hkv). cbn in Hp. rewrite (eq3_plain v Hp). reflexivity.
Qed.

Lemma match_rows_node_nonempty g (np : npat value) n :
  In n (g_nodes g) -> node_ok np n = true -> match_rows true g [(np, [])] [] <> [].
Proof.
  intros Hin Hok. unfold match_rows, enum_pats, enum_path. cbn [fst snd].
  intros H. apply map_eq_nil in H.
  assert (K : forall l, In n l ->
            flat_map (fun n0 : node =>
              if node_ok np n0 then
                match bind_var (np_var np) (VNode (n_id n0)) [] with
                | Some r1 => map (fun m : list seg_asg * row * list N => (n_id n0, fst (fst m), snd (fst m), snd m))
                                 (enum_segs g [] (n_id n0) r1 [])
                | None => []
                end
              else []) l <> []).
  { induction l as [|a t IH]; [intros []|]. intros [->|Ht]; cbn [flat_map].
    - rewrite Hok. unfold bind_var. destruct (np_var np); cbn; discriminate.
    - intros E. apply app_eq_nil in E. destruct E as [_ E]. exact (IH Ht E). }
  specialize (K (g_nodes g) Hin).
  destruct (flat_map _ (g_nodes g)) as [|m ms] eqn:E; [exact (K eq_refl)|].
  cbn in H. discriminate.
Qed.

Lemma oseq_oks {A} (l : list A) : oseq (map (@Ok A) l) = Ok l.
Proof. induction l as [|a r IH]; cbn; [reflexivity|]. rewrite IH. reflexivity. Qed.

Definition lit_props (l : list (N * value)) : list (N * expr) := map (fun kv => (fst kv, ELit (snd kv))) l.

Lemma resolve_lit_props cf g pe r l : resolve_props cf g pe r (lit_props l) = Ok l.
Proof.
  unfold resolve_props, omap, lit_props. rewrite map_map. cbn.
  replace (map (fun x : N * value => Ok (fst x, snd x)) l) with (map (@Ok (N * value)) l);
    [apply oseq_oks|]. apply map_ext. intros [k v]. reflexivity.
Qed.

Lemma ofold_id {B} (l : list B) (g0 : graph) : ofold (fun (g2 : graph) (_ : B) => Ok g2) l g0 = Ok g0.
Proof. revert g0; induction l as [|a t IH]; cbn; intros; [reflexivity | apply IH]. Qed.

(* MERGE (x:L.. {k: literal, ..}) run twice on the same (empty) row: the second run
   finds what the first left and changes nothing *)
Lemma merge_node_idempotent cf pe x ls kvs g g1 rows1 :
  NoDup (map fst kvs) -> forallb (fun kv => plain (snd kv)) kvs = true ->
  let p : cpath := (NP x ls (lit_props kvs), []) in
  merge_row ref_w cf pe p [] [] g [] = Ok (g1, rows1) ->
  exists rows2, merge_row ref_w cf pe p [] [] g1 [] = Ok (g1, rows2) /\ rows2 <> [].
Proof.
  intros ND Hp p H.
  assert (Hres : forall g0, resolve_cpath cf pe g0 [] p = Ok (NP x ls kvs, [])).
  { intros g0. unfold resolve_cpath, resolve_npat, p. cbn [fst snd np_props np_var np_labels].
    rewrite resolve_lit_props. reflexivity. }
  assert (Hnn : vpath_has_null (NP x ls kvs, []) = false).
  { unfold vpath_has_null. cbn. rewrite orb_false_r. apply not_true_is_false. intros E.
    apply existsb_exists in E. destruct E as [[k v] [Hin Ev]]. rewrite forallb_forall in Hp.
    specialize (Hp _ Hin). cbn in Hp, Ev. destruct v; cbn in *; congruence. }
  assert (Hpp : vpath_ppat (NP x ls kvs, []) = (NP x ls kvs, [])) by reflexivity.
  unfold merge_row in H. rewrite Hres in H. cbn [obind] in H. rewrite Hnn, Hpp in H.
  match type of H with (match ?t with _ => _ end) = _ => destruct t as [|m ms] eqn:Em end.
  - (* nothing matched: the node was created; now it matches *)
    unfold create_vpath in H. cbn [fst snd] in H.
    unfold create_npat in H. cbn [np_var np_labels np_props] in H.
    assert (Hb : match x with Some x0 => alookup x0 ([] : row) | None => None end = None) by (destruct x; reflexivity).
    rewrite Hb in H.
    assert (Hst : props_storable kvs = true).
    { unfold props_storable. rewrite forallb_forall in *. intros kv Hin. apply plain_storable, Hp, Hin. }
    rewrite Hst in H.
    set (n := Build_node (fresh_node g) (add_labels ls [])
                (fold_left (fun acc kv => put_prop ref_w (fst kv) (snd kv) acc) kvs [])) in *.
    cbn [obind create_segs ofold fst snd] in H. inversion H; subst g1 rows1. clear H.
    unfold merge_row. rewrite Hres. cbn [obind]. rewrite Hnn, Hpp.
    match goal with |- context [match ?t with [] => _ | _ => _ end] =>
      assert (Hm : t <> []); [|destruct t as [|m ms] eqn:E2; [congruence|]] end.
    { apply (match_rows_node_nonempty _ _ n).
      - unfold add_node. cbn. apply in_or_app. right. left. reflexivity.
      - apply (created_node_ok ref_w (fresh_node g) (NP x ls kvs)); assumption. }
    cbn. rewrite ofold_id. cbn. eexists. split; [reflexivity | discriminate].
  - (* it matched already: same graph, same answer *)
    cbn in H. rewrite ofold_id in H. cbn in H. inversion H; subst g1 rows1. clear H.
    unfold merge_row. rewrite Hres. cbn [obind]. rewrite Hnn, Hpp.
    rewrite Em. cbn.
    rewrite ofold_id. cbn. eexists. split; [reflexivity | discriminate].
Qed.
