(* Witnesses for the recorded C14 classes (the import is the one of SnapshotJson.v). *)
From Coq Require Import List NArith Bool Arith Lia.
From Verif Require Import SnapshotJson SnapshotFs.
From Verif Require Import SnapshotFsProofs.
Import ListNotations.
Open Scope N_scope.

Definition imp_json (g : store) (b : list line) (ks : list (list N)) : store :=
  outcome_store (import no_narrow (fun s => s) (fun _ => []) g (HOk true []) b ks).

Definition one_rec (id : N) (label : str) (name : str) : line :=
  LNode {| nr_id := id; nr_labels := [label]; nr_props := [([110;97;109;101], JStr name)] |}.

Definition snap_a : list line := [one_rec 1 [65] [120]].
Definition snap_b : list line := [one_rec 1 [66] [121]].
Definition snap_dup : list line := [one_rec 1 [80] [120]; one_rec 2 [80] [120]].
Definition k_name : list (list N) := [[110;97;109;101]].

Notation restored_j := (restored line store empty_store imp_json).
Notation graph_after_j := (graph_after line store empty_store imp_json).

(* two acknowledged imports: a clean restart restores only the second *)
Lemma refuted_replaced_clean :
  exists acked, Known_C14_clean line acked = true /\
    restored_j (after_acked line (map fst acked)) <> graph_after_j acked.
Proof.
  exists [(snap_a, []); (snap_b, [])]. split; [reflexivity|].
  intros H. apply (f_equal (fun s => length (nodes s))) in H. vm_compute in H. discriminate.
Qed.

(* one acknowledged import, the next one crashes right after the rename: neither the
   previous acknowledged state nor the new one is restored *)
Lemma refuted_replaced_crash :
  exists acked new i k, Known_C14 line acked new i = true /\
    let s := run line (after_acked line (map fst acked)) (crash_ops line (persist line (fst new)) i k) in
    restored_j s <> graph_after_j acked /\ restored_j s <> graph_after_j (acked ++ [new]).
Proof.
  exists [(snap_a, [])], (snap_b, []), 5%nat, 0%nat. split; [reflexivity|]. cbn zeta. split.
  - intros H. apply (f_equal (fun s => map n_labels (nodes s))) in H. vm_compute in H. discriminate.
  - intros H. apply (f_equal (fun s => length (nodes s))) in H. vm_compute in H. discriminate.
Qed.

(* an import with dedup keys that merged two records of the snapshot is restored unmerged *)
Lemma refuted_dedup :
  exists acked, Known_C14_dedup line acked = true /\ length acked = 1%nat /\
    restored_j (after_acked line (map fst acked)) <> graph_after_j acked.
Proof.
  exists [(snap_dup, k_name)]. split; [reflexivity|]. split; [reflexivity|].
  intros H. apply (f_equal (fun s => length (nodes s))) in H. vm_compute in H. discriminate.
Qed.

(* power loss after an acknowledged persist: no directory fsync, so the marker entry may
   be dropped and nothing is restored *)
Lemma refuted_power_loss :
  exists (b : list N) s', In s' (power_loss N (after_acked N [b]))
    /\ restore N (after_acked N [b]) = Some b /\ restore N s' = None.
Proof.
  exists [1]. eexists. split; [|split].
  - vm_compute. right. right. right. left. reflexivity.
  - reflexivity.
  - reflexivity.
Qed.

(* the pinned ordering (marker removed first): a crash after the removal restores nothing
   although the previous import was acknowledged *)
Lemma pinned_order_refuted :
  exists (a b : list N) i,
    restore N (after_acked N [a]) = Some a /\
    restore N (run N (after_acked N [a]) (crash_ops N (persist_pinned N b) i 0)) = None.
Proof. exists [1], [2], 2%nat. split; reflexivity. Qed.

(* non-vacuity of the conditional theorems: one acknowledged import and a second one
   interrupted before the rename; a single acknowledged import *)
Lemma nv_c14 :
  Known_C14 line [(snap_a, [])] (snap_b, []) 4 = false
  /\ Known_C14_clean line [(snap_a, [])] = false
  /\ length (nodes (restored_j (after_acked line [snap_a]))) = 1%nat.
Proof. repeat split; vm_compute; reflexivity. Qed.
