(* Proofs for C26, max flow: the Edmonds-Karp model of model/Flow.v returns the minimum cut
   (soundness: a valid flow never exceeds a cut; termination: no augmenting path => the
   residual-reachable set is a saturated cut; fuel: every augmentation adds at least 1). *)
From Coq Require Import List NArith ZArith Bool Arith Lia ZifyBool ZifyNat ZifyN.
From Verif Require Import CheckLib Algos AlgosProofs AlgosOptimal Flow.
Import ListNotations.

Open Scope Z_scope.

Definition zsum (f : nat -> Z) (l : list nat) : Z := fold_right (fun x a => f x + a) 0 l.

Lemma zsum_cons : forall f x l, zsum f (x :: l) = f x + zsum f l.
Proof. reflexivity. Qed.

Lemma zsum_ext : forall f h l, (forall x, In x l -> f x = h x) -> zsum f l = zsum h l.
Proof.
  intros f h l; induction l as [|x l IH]; intros H; [reflexivity|].
  rewrite !zsum_cons, (H x (or_introl eq_refl)), IH; [reflexivity|]. intros y Hy; apply H; right; exact Hy.
Qed.

Lemma zsum_plus : forall f h l, zsum (fun x => f x + h x) l = zsum f l + zsum h l.
Proof. intros f h l; induction l as [|x l IH]; [reflexivity|]. rewrite !zsum_cons, IH. lia. Qed.

Lemma zsum_opp : forall f l, zsum (fun x => - f x) l = - zsum f l.
Proof. intros f l; induction l as [|x l IH]; [reflexivity|]. rewrite !zsum_cons, IH. lia. Qed.

Lemma zsum_zero : forall l, zsum (fun _ => 0) l = 0.
Proof. induction l as [|x l IH]; [reflexivity|]. rewrite zsum_cons, IH. reflexivity. Qed.

Lemma zsum_swap : forall (f : nat -> nat -> Z) l1 l2,
  zsum (fun u => zsum (fun v => f u v) l2) l1 = zsum (fun v => zsum (fun u => f u v) l1) l2.
Proof.
  intros f l1; induction l1 as [|x l1 IH]; intros l2.
  - cbn. symmetry. apply zsum_zero.
  - rewrite zsum_cons, IH. rewrite <- zsum_plus. apply zsum_ext. intros v _. rewrite zsum_cons. reflexivity.
Qed.

(* a point change of the summand *)
Lemma zsum_point : forall f h l v0 d, NoDup l -> In v0 l ->
  (forall x, In x l -> x <> v0 -> h x = f x) -> h v0 = f v0 + d -> zsum h l = zsum f l + d.
Proof.
  intros f h l v0 d Hnd; induction Hnd as [|x l Hx Hnd IH]; intros Hin Hoth Hv; [destruct Hin|].
  rewrite !zsum_cons. destruct Hin as [->|Hin].
  - rewrite Hv. rewrite (zsum_ext h f l); [lia|]. intros y Hy. apply Hoth; [right; exact Hy|]. intros ->. contradiction.
  - rewrite (Hoth x) by (try (left; reflexivity); intros ->; contradiction).
    rewrite (IH Hin (fun y Hy => Hoth y (or_intror Hy)) Hv). lia.
Qed.

Lemma skew_zero : forall (k : nat -> nat -> Z) l, (forall u v, k u v = - k v u) ->
  zsum (fun u => zsum (fun v => k u v) l) l = 0.
Proof.
  intros k l H. set (X := zsum (fun u => zsum (fun v => k u v) l) l).
  assert (E : X = - X).
  { unfold X at 1. rewrite zsum_swap.
    rewrite (zsum_ext _ (fun v => - zsum (fun u => k v u) l)).
    - rewrite zsum_opp. reflexivity.
    - intros v _. rewrite <- zsum_opp. apply zsum_ext. intros u _. apply H. }
  lia.
Qed.

Lemma zsum_same : forall f h l, (forall x, h x = f x) -> zsum h l = zsum f l.
Proof. intros. apply zsum_ext. auto. Qed.

Definition ind (b : bool) (x : Z) : Z := if b then x else 0.

Lemma ind_zsum : forall b f l, ind b (zsum f l) = zsum (fun x => ind b (f x)) l.
Proof. intros [|] f l; cbn [ind]; [reflexivity|]. symmetry. apply zsum_zero. Qed.

Lemma zsum_indicator : forall (x : nat) (c : Z) l, NoDup l -> In x l ->
  zsum (fun i => if (x =? i)%nat then c else 0) l = c.
Proof.
  intros x c l Hnd Hin.
  rewrite (zsum_point (fun _ => 0) _ l x c Hnd Hin).
  - rewrite zsum_zero. lia.
  - intros y _ Hy. destruct (Nat.eqb_spec x y); [congruence|reflexivity].
  - rewrite Nat.eqb_refl. lia.
Qed.

Lemma capuv_cons : forall n e E u v,
  capuv {| gn := n; ge := e :: E |} u v =
  ((if ((esrc e =? u)%nat && (edst e =? v)%nat)%bool then ew e else 0) + capuv {| gn := n; ge := E |} u v)%N.
Proof. intros n e E u v. unfold capuv. cbn [ge fold_right]. destruct ((esrc e =? u)%nat && (edst e =? v)%nat)%bool; lia. Qed.

(* the specification's cut capacity as a double sum over node pairs *)
Lemma cut_cap_sum_gen : forall n E (S : nat -> bool),
  (forall u v w, In (u, v, w) E -> (u < n)%nat /\ (v < n)%nat) ->
  Z.of_N (cut_cap {| gn := n; ge := E |} S) =
  zsum (fun u => ind (S u) (zsum (fun v => ind (negb (S v)) (Z.of_N (capuv {| gn := n; ge := E |} u v))) (seq 0 n))) (seq 0 n).
Proof.
  intros n E S; induction E as [|e E IH]; intros HW.
  - unfold cut_cap. cbn [ge fold_right]. rewrite (zsum_ext _ (fun _ => 0)); [rewrite zsum_zero; reflexivity|].
    intros u _. rewrite (zsum_ext _ (fun _ => 0)); [rewrite zsum_zero; destruct (S u); reflexivity|].
    intros v _. unfold capuv. cbn. destruct (S v); reflexivity.
  - assert (HW' : forall u v w, In (u, v, w) E -> (u < n)%nat /\ (v < n)%nat) by (intros u v w H; apply (HW u v w); right; exact H).
    specialize (IH HW').
    destruct e as [[a b] w]. destruct (HW a b w (or_introl eq_refl)) as [Ha Hb].
    assert (Hcc : cut_cap {| gn := n; ge := (a, b, w) :: E |} S =
                  ((if S a && negb (S b) then w else 0) + cut_cap {| gn := n; ge := E |} S)%N).
    { unfold cut_cap. cbn [ge fold_right]. unfold esrc, edst, ew. cbn [fst snd]. destruct (S a && negb (S b)); lia. }
    rewrite Hcc.
    rewrite (zsum_ext _ (fun u => ind (S u) (zsum (fun v => ind (negb (S v)) (Z.of_N (capuv {| gn := n; ge := E |} u v))) (seq 0 n))
                              + (if (a =? u)%nat then ind (S a) (ind (negb (S b)) (Z.of_N w)) else 0))).
    + rewrite zsum_plus, <- IH, zsum_indicator by (try apply seq_NoDup; apply in_seq; lia).
      destruct (S a), (S b); cbn [andb negb ind]; lia.
    + intros u _. destruct (Nat.eqb_spec a u) as [<-|Hne].
      * destruct (S a); cbn [ind]; [|lia].
        rewrite (zsum_ext _ (fun v => ind (negb (S v)) (Z.of_N (capuv {| gn := n; ge := E |} a v))
                                      + (if (b =? v)%nat then ind (negb (S b)) (Z.of_N w) else 0))).
        -- rewrite zsum_plus, zsum_indicator by (try apply seq_NoDup; apply in_seq; lia). lia.
        -- intros v _. rewrite capuv_cons. unfold esrc, edst, ew. cbn [fst snd]. rewrite Nat.eqb_refl. cbn [andb].
           destruct (Nat.eqb_spec b v) as [Ebv|Hnb]; [subst v; destruct (S b); cbn [ind negb]; lia|destruct (S v); cbn [ind negb]; lia].
      * rewrite Z.add_0_r. f_equal. apply zsum_ext. intros v _. rewrite capuv_cons. unfold esrc, edst, ew. cbn [fst snd].
        destruct (Nat.eqb_spec a u); [contradiction|]. cbn [andb]. f_equal; try lia.
Qed.

Close Scope Z_scope.
Lemma pairs_in : forall p a b, In (a, b) (pairs_of p) -> In a p /\ In b p.
Proof.
  induction p as [|u p IH]; intros a b H; [destruct H|]. destruct p as [|v p']; [destruct H|].
  cbn [pairs_of] in H. destruct H as [E|H]; [inversion E; subst; split; [left|right; left]; reflexivity|].
  destruct (IH a b H). split; right; assumption.
Qed.

Lemma bottleneck_le : forall r p a b, In (a, b) (pairs_of p) -> (bottleneck r p <= r a b)%N.
Proof.
  intros r p a b H. unfold bottleneck. destruct (pairs_of p) as [|[u v] rest]; [destruct H|].
  assert (G : forall l m, (fold_left (fun m e => N.min m (r (fst e) (snd e))) l m <= m)%N /\
                          forall x y, In (x, y) l -> (fold_left (fun m e => N.min m (r (fst e) (snd e))) l m <= r x y)%N).
  { induction l as [|[x0 y0] l IHl]; intros m; cbn [fold_left fst snd]; [split; [lia|intros x y []]|].
    destruct (IHl (N.min m (r x0 y0))) as [A B]. split; [lia|]. intros x y [E|Hin]; [inversion E; subst; lia|apply B; exact Hin]. }
  destruct (G rest (r u v)) as [A B]. destruct H as [E|H]; [inversion E; subst; exact A|apply B; exact H].
Qed.

Lemma bottleneck_pos : forall r p, pairs_of p <> [] ->
  (forall a b, In (a, b) (pairs_of p) -> (0 < r a b)%N) -> (0 < bottleneck r p)%N.
Proof.
  intros r p Hne Hpos. unfold bottleneck. destruct (pairs_of p) as [|[u v] rest]; [contradiction|].
  assert (G : forall l m, (0 < m)%N -> (forall x y, In (x, y) l -> (0 < r x y)%N) ->
                          (0 < fold_left (fun m e => N.min m (r (fst e) (snd e))) l m)%N).
  { induction l as [|[x0 y0] l IHl]; intros m Hm Hl; cbn [fold_left fst snd]; [exact Hm|].
    apply IHl; [specialize (Hl x0 y0 (or_introl eq_refl)); lia|intros x y Hin; apply Hl; right; exact Hin]. }
  apply G; [apply Hpos; left; reflexivity|intros x y Hin; apply Hpos; right; exact Hin].
Qed.


Open Scope Z_scope.

Section FlowInv.
Variable g : graph.
Variable s t : nat.
Hypothesis Hwf : wf g.
Hypothesis Hs : (s < gn g)%nat.
Hypothesis Ht : (t < gn g)%nat.
Hypothesis Hst : s <> t.

Let n := gn g.
Let ns := seq 0 n.

Definition cz (u v : nat) : Z := Z.of_N (capuv g u v).
Definition gz (r : rmap) (u v : nat) : Z := cz u v - Z.of_N (r u v).
Definition net (r : rmap) (x : nat) : Z := zsum (fun v => gz r x v) ns.

(* a valid flow of value [total], in residual form *)
Definition finv (r : rmap) (total : N) : Prop :=
  (forall u v, (r u v + r v u = capuv g u v + capuv g v u)%N) /\
  (forall x, (x < n)%nat -> x <> s -> x <> t -> net r x = 0) /\
  net r s = Z.of_N total.

Lemma gz_skew : forall r total u v, finv r total -> gz r u v = - gz r v u.
Proof. intros r total u v [H _]. unfold gz, cz. specialize (H u v). lia. Qed.

(* the flow value crosses every cut *)
Lemma cut_value : forall r total (S : nat -> bool), finv r total -> S s = true -> S t = false ->
  Z.of_N total = zsum (fun u => ind (S u) (zsum (fun v => ind (negb (S v)) (gz r u v)) ns)) ns.
Proof.
  intros r total S F Hs' Ht'. pose proof F as [H1 [H2 H3]].
  assert (A : zsum (fun u => ind (S u) (net r u)) ns = Z.of_N total).
  { rewrite (zsum_point (fun _ => 0) (fun u => ind (S u) (net r u)) ns s (Z.of_N total)).
    - rewrite zsum_zero. lia.
    - apply seq_NoDup.
    - apply in_seq. unfold n in *. lia.
    - intros x Hx Hxs. apply in_seq in Hx. destruct (S x) eqn:E; [|reflexivity]. cbn [ind].
      apply H2; [unfold n in *; lia|exact Hxs|]. intros ->. congruence.
    - rewrite Hs'. cbn [ind]. rewrite H3. lia. }
  set (k := fun u v => ind (S u) (ind (S v) (gz r u v))).
  assert (X : zsum (fun u => zsum (fun v => k u v) ns) ns = 0).
  { apply skew_zero. intros u v. unfold k. rewrite (gz_skew r total u v F).
    destruct (S u), (S v); cbn [ind]; lia. }
  rewrite <- A.
  rewrite (zsum_ext (fun u => ind (S u) (net r u))
             (fun u => zsum (fun v => k u v) ns + ind (S u) (zsum (fun v => ind (negb (S v)) (gz r u v)) ns))).
  - rewrite zsum_plus, X. lia.
  - intros u _. unfold net, k. rewrite !ind_zsum, <- zsum_plus. apply zsum_ext. intros v _.
    destruct (S u), (S v); cbn [ind negb]; lia.
Qed.

Lemma cut_cap_sum : forall (S : nat -> bool),
  Z.of_N (cut_cap g S) =
  zsum (fun u => ind (S u) (zsum (fun v => ind (negb (S v)) (cz u v)) ns)) ns.
Proof.
  intros S. pose proof (cut_cap_sum_gen n (ge g) S Hwf) as H. unfold cz, ns.
  replace (cut_cap g S) with (cut_cap {| gn := n; ge := ge g |} S) by reflexivity.
  rewrite H. apply zsum_ext. intros u _. f_equal.
Qed.

(* SOUNDNESS: the value of a valid flow is at most the capacity of every s-t cut *)
Lemma flow_le_cut : forall r total (S : nat -> bool), finv r total -> S s = true -> S t = false ->
  (total <= cut_cap g S)%N.
Proof.
  intros r total S F H1 H2. pose proof (cut_value r total S F H1 H2) as A. pose proof (cut_cap_sum S) as B.
  assert (zsum (fun u => ind (S u) (zsum (fun v => ind (negb (S v)) (gz r u v)) ns)) ns <=
          zsum (fun u => ind (S u) (zsum (fun v => ind (negb (S v)) (cz u v)) ns)) ns).
  { assert (Hmono : forall f h l, (forall x, f x <= h x) -> zsum f l <= zsum h l).
    { intros f h l H. induction l as [|x l IH]; [cbn; lia|]. rewrite !zsum_cons. specialize (H x). lia. }
    apply Hmono. intros u. destruct (S u); cbn [ind]; [|lia]. apply Hmono. intros v.
    destruct (S v); cbn [ind negb]; [lia|]. unfold gz. lia. }
  lia.
Qed.

(* when no residual capacity leaves S, the value IS the capacity of the cut S *)
Lemma flow_eq_cut : forall r total (S : nat -> bool), finv r total -> S s = true -> S t = false ->
  (forall u v, (u < n)%nat -> (v < n)%nat -> S u = true -> S v = false -> r u v = 0%N) ->
  total = cut_cap g S.
Proof.
  intros r total S F H1 H2 Hsat. pose proof (cut_value r total S F H1 H2) as A. pose proof (cut_cap_sum S) as B.
  assert (E : zsum (fun u => ind (S u) (zsum (fun v => ind (negb (S v)) (gz r u v)) ns)) ns =
              zsum (fun u => ind (S u) (zsum (fun v => ind (negb (S v)) (cz u v)) ns)) ns).
  { apply zsum_ext. intros u Hu. apply in_seq in Hu. destruct (S u) eqn:Eu; cbn [ind]; [|reflexivity].
    apply zsum_ext. intros v Hv. apply in_seq in Hv. destruct (S v) eqn:Ev; cbn [ind negb]; [reflexivity|].
    unfold gz. rewrite (Hsat u v) by (unfold n in *; try lia; assumption). lia. }
  lia.
Qed.


(* ---- dynamics: pushes along a simple path ---- *)

Definition p1 (r : rmap) : Prop := forall u v, (r u v + r v u = capuv g u v + capuv g v u)%N.

Ltac eqb_cases :=
  repeat match goal with
         | |- context [Nat.eqb ?x ?y] => destruct (Nat.eqb_spec x y); try subst; cbn [andb] in *
         end.

Lemma push_get : forall r u v f a b, u <> v ->
  push r u v f a b =
  if ((a =? u)%nat && (b =? v)%nat)%bool then (r u v - f)%N
  else if ((a =? v)%nat && (b =? u)%nat)%bool then (r v u + f)%N else r a b.
Proof.
  intros r u v f a b Huv. unfold push, rupd. eqb_cases; try reflexivity; try congruence.
Qed.

Lemma push_p1 : forall r u v f, u <> v -> (f <= r u v)%N -> p1 r -> p1 (push r u v f).
Proof.
  intros r u v f Huv Hf H a b. rewrite !push_get by exact Huv.
  pose proof (H a b) as Hab. pose proof (H u v) as Huv'.
  eqb_cases; try congruence; try lia.
Qed.


Definition zi (b : bool) (f : N) : Z := if b then Z.of_N f else 0.

Lemma push_net : forall r u v f x, u <> v -> (u < n)%nat -> (v < n)%nat -> (f <= r u v)%N ->
  net (push r u v f) x = net r x + zi (x =? u)%nat f - zi (x =? v)%nat f.
Proof.
  intros r u v f x Huv Hu Hv Hf. unfold net.
  assert (Inu : In u ns) by (apply in_seq; unfold n in *; lia).
  assert (Inv : In v ns) by (apply in_seq; unfold n in *; lia).
  destruct (Nat.eqb_spec x u) as [->|Hxu]; [|destruct (Nat.eqb_spec x v) as [->|Hxv]].
  - destruct (Nat.eqb_spec u v); [contradiction|]. cbn [zi].
    rewrite (zsum_point (fun w => gz r u w) (fun w => gz (push r u v f) u w) ns v (Z.of_N f)); [lia|apply seq_NoDup|exact Inv| |].
    + intros w _ Hw. unfold gz. rewrite push_get by exact Huv. eqb_cases; try congruence; reflexivity.
    + unfold gz. rewrite push_get by exact Huv. eqb_cases; try congruence. lia.
  - cbn [zi].
    rewrite (zsum_point (fun w => gz r v w) (fun w => gz (push r u v f) v w) ns u (- Z.of_N f)); [lia|apply seq_NoDup|exact Inu| |].
    + intros w _ Hw. unfold gz. rewrite push_get by exact Huv. eqb_cases; try congruence; reflexivity.
    + unfold gz. rewrite push_get by exact Huv. eqb_cases; try congruence. lia.
  - cbn [zi]. rewrite (zsum_ext (fun w => gz (push r u v f) x w) (fun w => gz r x w)); [lia|].
    intros w _. unfold gz. rewrite push_get by exact Huv. eqb_cases; try congruence; reflexivity.
Qed.

(* pushing f along a simple path whose edges all have residual capacity >= f *)
Lemma apply_path_inv : forall p r f,
  NoDup p -> (forall x, In x p -> (x < n)%nat) ->
  (forall a b, In (a, b) (pairs_of p) -> (f <= r a b)%N) -> p1 r ->
  p1 (apply_path r p f) /\
  forall x d, net (apply_path r p f) x =
    net r x + zi (match p with h :: _ => (x =? h)%nat | [] => false end) f
            - zi (match p with h :: _ => (x =? last p d)%nat | [] => false end) f.
Proof.
  induction p as [|a p IH]; intros r f Hnd Hlt Hcap Hp1.
  - split; [exact Hp1|]. intros x d. cbn [zi]. unfold apply_path. cbn. lia.
  - destruct p as [|b p'].
    + split; [exact Hp1|]. intros x d. unfold apply_path. cbn [pairs_of fold_left last]. destruct (x =? a)%nat; cbn [zi]; lia.
    + inversion Hnd as [|? ? Ha Hnd']; subst.
      assert (Hab : a <> b) by (intros ->; apply Ha; left; reflexivity).
      assert (Hf : (f <= r a b)%N) by (apply Hcap; left; reflexivity).
      assert (Han : (a < n)%nat) by (apply Hlt; left; reflexivity).
      assert (Hbn : (b < n)%nat) by (apply Hlt; right; left; reflexivity).
      change (apply_path r (a :: b :: p') f) with (apply_path (push r a b f) (b :: p') f).
      destruct (IH (push r a b f) f Hnd' (fun x Hx => Hlt x (or_intror Hx))) as [IH1 IH2].
      * intros x y Hxy. destruct (pairs_in _ _ _ Hxy) as [Hx Hy]. rewrite push_get by exact Hab.
        assert (x <> a) by (intros ->; contradiction). assert (y <> a) by (intros ->; contradiction).
        eqb_cases; try congruence; apply Hcap; right; exact Hxy.
      * apply push_p1; assumption.
      * split; [exact IH1|]. intros x d. rewrite (IH2 x d), push_net by assumption.
        change (last (a :: b :: p') d) with (last (b :: p') d).
        destruct (x =? a)%nat, (x =? b)%nat, (x =? last (b :: p') d)%nat; cbn [zi]; lia.
Qed.

End FlowInv.

Close Scope Z_scope.

(* ---- a minimum-hop path has no repeated node ---- *)

Lemma path_suffix : forall g0 l1 x l2 c, path_cost g0 (l1 ++ x :: l2) c ->
  exists c2, (c2 <= c)%N /\ path_cost g0 (x :: l2) c2.
Proof.
  intros g0 l1; induction l1 as [|a l1 IH]; intros x l2 c H.
  - exists c. split; [lia|exact H].
  - cbn [app] in H. inversion H as [v E|u v w p' c' Hin Hp E1]; subst.
    + destruct l1; discriminate.
    + assert (E : v :: p' = l1 ++ x :: l2) by assumption. rewrite E in Hp.
      destruct (IH x l2 c' Hp) as [c2 [Hle Hp2]]. exists c2. split; [lia|exact Hp2].
Qed.

Lemma last_app_cons : forall (l1 : list nat) x l2 d, last (l1 ++ x :: l2) d = last (x :: l2) d.
Proof.
  induction l1 as [|a l1 IH]; intros x l2 d; [reflexivity|].
  cbn [app]. rewrite <- (IH x l2 d). destruct (l1 ++ x :: l2) eqn:E; [destruct l1; discriminate|reflexivity].
Qed.

Lemma shortest_simple : forall g0 p c, path_cost (unitw g0) p c ->
  forall d, (forall c', walk (unitw g0) (hd d p) (last p d) c' -> (c <= c')%N) -> NoDup p.
Proof.
  intros g0 p c H. induction H as [v|u v w p' c Hin Hp IH]; intros d Hmin.
  - constructor; [intros []|constructor].
  - assert (Hw1 : w = 1%N) by (apply unitw_edges in Hin; tauto).
    cbn [hd] in Hmin. change (last (u :: v :: p') d) with (last (v :: p') d) in Hmin.
    constructor.
    + intros Hu. apply in_split in Hu. destruct Hu as [l1 [l2 E]].
      rewrite E in Hp. destruct (path_suffix _ _ _ _ _ Hp) as [c2 [Hle Hp2]].
      assert (Hw : walk (unitw g0) u (last (v :: p') d) c2).
      { rewrite E, last_app_cons. rewrite (last_cons_indep l2 u d u).
        apply (path_cost_walk (unitw g0) (u :: l2) c2 Hp2 u). reflexivity. }
      specialize (Hmin c2 Hw). lia.
    + apply (IH d). cbn [hd]. intros c' Hw.
      assert (Hw' : walk (unitw g0) u (last (v :: p') d) (w + c')%N)
        by (eapply walk_trans; [apply walk_edge; exact Hin|exact Hw]).
      specialize (Hmin _ Hw'). lia.
Qed.

(* ---- the loop ---- *)

Section EkLoop.
Variable g : graph.
Variable s t : nat.
Variable ord : nat -> list nat.
Hypothesis Hwf : wf g.
Hypothesis Hs : s < gn g.
Hypothesis Ht : t < gn g.
Hypothesis Hst : s <> t.
(* the iteration order of residual[u]: any order that visits every node and nothing else *)
Hypothesis Hord : forall u v, In v (ord u) -> v < gn g.
Hypothesis Hcov : forall u v, u < gn g -> v < gn g -> In v (ord u).

Let n := gn g.

Lemma res_edges : forall r u v w, In (u, v, w) (ge (resgraph ord n r)) <->
  u < n /\ In v (ord u) /\ (0 < r u v)%N /\ w = r u v.
Proof.
  intros r u v w. cbn [resgraph ge]. rewrite in_flat_map. split.
  - intros [u0 [Hu0 H]]. apply in_seq in Hu0. apply in_flat_map in H. destruct H as [v0 [Hv0 H]].
    destruct (N.ltb_spec 0 (r u0 v0)); [|destruct H]. destruct H as [E|[]]. inversion E; subst.
    repeat split; try assumption; lia.
  - intros [Hu [Hv [Hr ->]]]. exists u. split; [apply in_seq; lia|]. apply in_flat_map. exists v. split; [exact Hv|].
    destruct (N.ltb_spec 0 (r u v)); [left; reflexivity|lia].
Qed.

Lemma res_wf : forall r, wf (resgraph ord n r).
Proof.
  intros r u v w H. apply res_edges in H. destruct H as [Hu [Hv _]]. cbn [resgraph gn]. split; [exact Hu|apply Hord in Hv; exact Hv].
Qed.

Lemma res_path_pairs : forall r p c, path_cost (unitw (resgraph ord n r)) p c ->
  forall a b, In (a, b) (pairs_of p) -> (0 < r a b)%N /\ a < n /\ b < n.
Proof.
  intros r p c H. induction H as [v|u v w p' c Hin Hp IH]; intros a b Hab; [destruct Hab|].
  cbn [pairs_of] in Hab. destruct Hab as [E|Hab]; [|apply IH; exact Hab].
  inversion E; subst. apply unitw_edges in Hin. destruct Hin as [_ [w' Hin]]. apply res_edges in Hin.
  destruct Hin as [Hu [Hv [Hr _]]]. split; [exact Hr|]. split; [exact Hu|apply Hord in Hv; exact Hv].
Qed.

Lemma res_path_nodes : forall r p c, path_cost (unitw (resgraph ord n r)) p c ->
  (forall x, hd_error p = Some x -> x < n) -> forall x, In x p -> x < n.
Proof.
  intros r p c H. induction H as [v|u v w p' c Hin Hp IH]; intros Hh x Hx.
  - destruct Hx as [<-|[]]. apply Hh. reflexivity.
  - destruct Hx as [<-|Hx]; [apply Hh; reflexivity|]. apply IH; [|exact Hx].
    intros y Hy. cbn in Hy. inversion Hy; subst. apply unitw_edges in Hin. destruct Hin as [_ [w' Hin]].
    apply res_edges in Hin. destruct Hin as [_ [Hv _]]. apply Hord in Hv. exact Hv.
Qed.

Lemma cut_cap_le_total : forall S, (cut_cap g S <= tweight (ge g))%N.
Proof.
  intros S. unfold cut_cap, tweight. induction (ge g) as [|e E IH]; cbn [fold_right]; [lia|].
  destruct (S (esrc e) && negb (S (edst e))); lia.
Qed.

Lemma ek_loop_ok : forall fuel r total,
  finv g s t r total -> N.to_nat (tweight (ge g)) + 2 <= fuel + N.to_nat total ->
  exists tot, ek_loop fuel ord n s t r total = FFlow tot /\ mincut g s t = Some tot.
Proof.
  induction fuel as [|f IH]; intros r total F Hfuel.
  - exfalso. pose proof (flow_le_cut g s t Hwf Hs Ht Hst r total (fun x => x =? s) F (Nat.eqb_refl s)) as H.
    assert (Ht' : (t =? s) = false) by (apply Nat.eqb_neq; auto). specialize (H Ht').
    pose proof (cut_cap_le_total (fun x => x =? s)). lia.
  - cbn [ek_loop]. set (gr := resgraph ord n r).
    pose proof (bfs_optimal gr s t (res_wf r) Hs Ht) as Hopt.
    destruct (bfs_model gr s t) as [|p c|]; cbn [pres_optimal] in Hopt.
    + (* no augmenting path: the residual-reachable set is a saturated cut *)
      pose proof (hop_dist_spec gr s t (res_wf r) Hs Ht) as Hd. rewrite Hopt in Hd. cbn in Hd.
      set (S := fun x => reachb (unitw gr) s x).
      assert (Hwu : wf (unitw gr)) by (apply wf_unitw, res_wf).
      assert (HSs : S s = true) by (apply (reachb_spec (unitw gr) s s Hwu Hs Hs), reach_refl).
      assert (HSt : S t = false).
      { destruct (S t) eqn:E; [|reflexivity]. exfalso. apply Hd. apply (reachb_spec (unitw gr) s t Hwu Hs Ht). exact E. }
      assert (Hsat : forall u v, u < gn g -> v < gn g -> S u = true -> S v = false -> r u v = 0%N).
      { intros u v Hu Hv HSu HSv. destruct (N.eq_dec (r u v) 0) as [E|E]; [exact E|]. exfalso.
        assert (Hedge : In (u, v, 1%N) (ge (unitw gr))).
        { apply unitw_edges. split; [reflexivity|]. exists (r u v). apply res_edges.
          split; [exact Hu|]. split; [apply Hcov; assumption|]. split; [lia|reflexivity]. }
        assert (HSv' : S v = true).
        { apply (reachb_spec (unitw gr) s v Hwu Hs Hv).
          eapply reach_trans; [apply (reachb_spec (unitw gr) s u Hwu Hs Hu); exact HSu|].
          exists 1%N. apply walk_edge. exact Hedge. }
        congruence. }
      pose proof (flow_eq_cut g s t Hwf Hs Ht Hst r total S F HSs HSt Hsat) as Heq.
      exists total. split; [reflexivity|].
      pose proof (mincut_spec g s t Hwf Hs Ht) as Hm. destruct (mincut g s t) as [c'|]; [|contradiction].
      destruct Hm as [[S' [H1 [H2 H3]]] Hmin]. f_equal.
      pose proof (flow_le_cut g s t Hwf Hs Ht Hst r total S' F H1 H2). specialize (Hmin S HSs HSt). lia.
    + (* an augmenting path *)
      destruct Hopt as [Hc [Hp [Hh Hl]]].
      pose proof (hop_dist_spec gr s t (res_wf r) Hs Ht) as Hd. rewrite Hc in Hd. cbn in Hd. destruct Hd as [_ Hmin].
      assert (Hnd : NoDup p).
      { apply (shortest_simple gr p c Hp s). destruct p as [|x p']; [discriminate|]. cbn in Hh. inversion Hh; subst x.
        cbn [hd]. rewrite Hl. exact Hmin. }
      assert (Hnodes : forall x, In x p -> x < gn g).
      { apply (res_path_nodes r p c Hp). intros x Hx. rewrite Hh in Hx. inversion Hx; subst. exact Hs. }
      pose proof (res_path_pairs r p c Hp) as Hpairs.
      assert (Hne : pairs_of p <> []).
      { destruct p as [|x [|y p']]; try discriminate. cbn in Hh, Hl. inversion Hh; subst. contradiction. }
      set (pf := bottleneck r p).
      assert (Hpos : (0 < pf)%N) by (apply bottleneck_pos; [exact Hne|intros a b Hab; apply (Hpairs a b Hab)]).
      destruct F as [F1 [F2 F3]].
      destruct (apply_path_inv g s t Hs Ht Hst p r pf Hnd Hnodes (fun a b Hab => bottleneck_le r p a b Hab) F1) as [A1 A2].
      assert (Hhd : exists p', p = s :: p') by (destruct p as [|x p']; [discriminate|cbn in Hh; inversion Hh; subst; eauto]).
      destruct Hhd as [p' Ep].
      assert (F' : finv g s t (apply_path r p pf) (total + pf)).
      { split; [exact A1|]. split.
        - intros x Hx Hxs Hxt. rewrite (A2 x s). rewrite Ep at 1 2. rewrite Hl.
          destruct (Nat.eqb_spec x s); [contradiction|]. destruct (Nat.eqb_spec x t); [contradiction|].
          unfold zi. rewrite (F2 x Hx Hxs Hxt). lia.
        - rewrite (A2 s s). rewrite Ep at 1 2. rewrite Hl. rewrite Nat.eqb_refl.
          destruct (Nat.eqb_spec s t); [contradiction|]. unfold zi. rewrite F3. lia. }
      apply (IH (apply_path r p pf) (total + pf)%N F'). lia.
    + contradiction.
Qed.

End EkLoop.

Lemma mincut_same : forall g s, mincut g s s = None.
Proof.
  intros g s. unfold mincut.
  replace (filter (fun m => mask_fn m s && negb (mask_fn m s)) (masks (gn g))) with (@nil (list bool)); [reflexivity|].
  induction (masks (gn g)) as [|m l IH]; [reflexivity|]. cbn [filter]. destruct (mask_fn m s); cbn [andb negb]; exact IH.
Qed.

(* C26_ek_equals_mincut: for every iteration order of the residual maps *)
Theorem ek_equals_mincut : forall g s t ord, wf g -> s < gn g -> t < gn g ->
  (forall u v, In v (ord u) -> v < gn g) -> (forall u v, u < gn g -> v < gn g -> In v (ord u)) ->
  ek_model ord g s t = match mincut g s t with Some c => FFlow c | None => FNone end.
Proof.
  intros g s t ord Hwf Hs Ht Hord Hcov. unfold ek_model.
  replace ((s <? gn g) && (t <? gn g)) with true by (symmetry; apply andb_true_iff; split; apply Nat.ltb_lt; assumption).
  destruct (Nat.eqb_spec s t) as [->|Hst]; [rewrite mincut_same; reflexivity|].
  destruct (ek_loop_ok g s t ord Hwf Hs Ht Hst Hord Hcov (S (S (N.to_nat (tweight (ge g))))) (init_res g) 0%N) as [tot [E1 E2]].
  - split; [intros u v; unfold init_res; lia|]. split.
    + intros x _ _ _. unfold net, gz, cz, init_res. rewrite (zsum_ext _ (fun _ => 0%Z)); [apply zsum_zero|]. intros v _. lia.
    + unfold net, gz, cz, init_res. rewrite (zsum_ext _ (fun _ => 0%Z)); [rewrite zsum_zero; reflexivity|]. intros v _. lia.
  - lia.
  - rewrite E1, E2. reflexivity.
Qed.
