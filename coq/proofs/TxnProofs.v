(* Proofs about model/Txn.v (property C09). *)
From Coq Require Import List NArith Bool Lia ZArith ZifyBool ZifyN Sorted.
From Verif Require Import Txn.
Import ListNotations.
Open Scope N_scope.

Arguments N.add : simpl never.
Arguments N.ltb : simpl never.
Arguments N.leb : simpl never.
Arguments N.eqb : simpl never.

(* ------------------------------------------------------------------ maps *)
Lemma lookup_set {A} k k' (v : A) m :
  lookup k' (set k v m) = if N.eqb k' k then Some v else lookup k' m.
Proof.
  induction m as [|[a b] m IH]; cbn [set lookup].
  - reflexivity.
  - destruct (N.eqb k a) eqn:Eka; cbn [lookup].
    + apply N.eqb_eq in Eka; subst a. destruct (N.eqb k' k); reflexivity.
    + rewrite IH. destruct (N.eqb k' a) eqn:E1; destruct (N.eqb k' k) eqn:E2; try reflexivity.
      apply N.eqb_eq in E1, E2. subst. rewrite N.eqb_refl in Eka. discriminate.
Qed.

Lemma keys_set {A} k (v : A) m k' :
  In k' (map fst (set k v m)) <-> k' = k \/ In k' (map fst m).
Proof.
  induction m as [|[a b] m IH]; cbn [set map fst In].
  - intuition.
  - destruct (N.eqb k a) eqn:Eka; cbn [map fst In].
    + apply N.eqb_eq in Eka; subst a. intuition.
    + rewrite IH. intuition.
Qed.

Lemma nodup_set {A} k (v : A) m : NoDup (map fst m) -> NoDup (map fst (set k v m)).
Proof.
  induction m as [|[a b] m IH]; cbn [set map fst]; intros H.
  - constructor; [intros []|constructor].
  - inversion H as [|? ? Hn Hd]; subst. destruct (N.eqb k a) eqn:Eka; cbn [map fst].
    + apply N.eqb_eq in Eka; subst a. constructor; assumption.
    + constructor; [|auto]. rewrite keys_set. intros [->|Hi]; [|auto].
      rewrite N.eqb_refl in Eka; discriminate.
Qed.

Lemma lookup_in_keys {A} k (m : list (N * A)) v : lookup k m = Some v -> In k (map fst m).
Proof.
  induction m as [|[a b] m IH]; cbn [lookup map fst In]; [discriminate|].
  destruct (N.eqb k a) eqn:E; [apply N.eqb_eq in E; auto|auto].
Qed.

Lemma lookup_none_keys {A} k (m : list (N * A)) : lookup k m = None -> ~ In k (map fst m).
Proof.
  induction m as [|[a b] m IH]; cbn [lookup map fst In]; [tauto|].
  destruct (N.eqb k a) eqn:E; [discriminate|]. intros H [->|Hi]; [|apply IH; auto].
  rewrite N.eqb_refl in E; discriminate.
Qed.

Lemma lookup_filter {A} (p : N * A -> bool) k m :
  NoDup (map fst m) ->
  lookup k (filter p m) =
  match lookup k m with Some v => if p (k, v) then Some v else None | None => None end.
Proof.
  induction m as [|[a b] m IH]; cbn [filter lookup map fst]; intros Hd; [reflexivity|].
  inversion Hd as [|? ? Hn Hd']; subst.
  destruct (N.eqb k a) eqn:E.
  - apply N.eqb_eq in E; subst a.
    destruct (p (k, b)) eqn:Ep; cbn [lookup]; [rewrite N.eqb_refl; reflexivity|].
    rewrite (IH Hd'). destruct (lookup k m) eqn:El; [|reflexivity].
    exfalso; apply Hn; eapply lookup_in_keys; eauto.
  - destruct (p (a, b)); cbn [lookup]; [rewrite E|]; apply IH; auto.
Qed.

Lemma keys_filter {A} (p : N * A -> bool) m k :
  In k (map fst (filter p m)) -> In k (map fst m).
Proof.
  rewrite !in_map_iff. intros [x [Hx Hi]]. apply filter_In in Hi. exists x; tauto.
Qed.

Lemma nodup_filter_keys {A} (p : N * A -> bool) m :
  NoDup (map fst m) -> NoDup (map fst (filter p m)).
Proof.
  induction m as [|x m IH]; cbn [filter map]; intros H; [constructor|].
  inversion H; subst. destruct (p x); cbn [map]; auto.
  constructor; auto. intros Hi; apply keys_filter in Hi; auto.
Qed.

Lemma set_add_in x y l : In x (set_add y l) <-> x = y \/ In x l.
Proof.
  induction l as [|z l IH]; cbn [set_add In]; [intuition|].
  destruct (N.eqb y z) eqn:E1.
  - apply N.eqb_eq in E1; subst. cbn [In]. intuition.
  - destruct (N.ltb y z); cbn [In]; [intuition|]. rewrite IH. intuition.
Qed.

Lemma mem_in x l : mem x l = true <-> In x l.
Proof.
  unfold mem. rewrite existsb_exists. split.
  - intros [y [Hi E]]. apply N.eqb_eq in E; subst; auto.
  - intros H; exists x; split; auto. apply N.eqb_refl.
Qed.

Lemma lookup_record_commit e last v ws :
  lookup e (record_commit last v ws) = if mem e ws then Some v else lookup e last.
Proof.
  unfold record_commit. revert last.
  induction ws as [|w ws IH]; intros last; cbn [fold_left mem existsb]; [reflexivity|].
  rewrite IH. fold (mem e ws). destruct (mem e ws); cbn [orb]; [destruct (N.eqb e w); reflexivity|].
  rewrite lookup_set. destruct (N.eqb e w); reflexivity.
Qed.

Lemma conflict_true last start ws :
  conflict last start ws = true <->
  exists e v, In e ws /\ lookup e last = Some v /\ start < v.
Proof.
  unfold conflict. rewrite existsb_exists. split.
  - intros [e [Hi H]]. destruct (lookup e last) as [v|] eqn:El; [|discriminate].
    exists e, v. repeat split; auto. lia.
  - intros [e [v [Hi [El Hlt]]]]. exists e. split; auto. rewrite El. lia.
Qed.

(* ------------------------------------------------------------- predicates *)
Definition active (s : state) (t : N) : Prop :=
  exists x, lookup t (txns s) = Some x /\ t_status x = Active.

Definition finished (s : state) (t : N) : Prop :=
  exists x, lookup t (txns s) = Some x /\ t_status x <> Active.

(* another transaction published, at a version above t's start version, a write
   to an entity (node or relationship) of t's write set *)
Definition blocked (s : state) (g : list crec) (t : N) : Prop :=
  exists x c, lookup t (txns s) = Some x /\ In c g /\ c_txn c <> t /\ t_start x < c_ver c /\
    ((exists n, In n (t_wn x) /\ In n (c_wn c)) \/ (exists e, In e (t_we x) /\ In e (c_we c))).

Lemma is_active_true x : is_active x = true <-> t_status x = Active.
Proof. unfold is_active. destruct (t_status x); cbn; split; congruence. Qed.

Lemma is_active_false x : is_active x = false <-> t_status x <> Active.
Proof. unfold is_active. destruct (t_status x); cbn; split; congruence. Qed.

(* ------------------------------------------------------------- invariant *)
Record Inv (s : state) (g : list crec) : Prop := {
  inv_nodup : NoDup (map fst (txns s));
  inv_keys : forall k, In k (map fst (txns s)) -> k < next s;
  inv_start : forall t x, lookup t (txns s) = Some x -> t_start x <= cur s;
  inv_ver : forall c, In c g -> c_ver c <= cur s;
  inv_who : forall c, In c g -> c_txn c < next s /\
                              forall x, lookup (c_txn c) (txns s) = Some x -> t_status x <> Active;
  inv_ln_sound : forall n v, lookup n (last_n s) = Some v -> exists c, In c g /\ c_ver c = v /\ In n (c_wn c);
  inv_ln_max : forall c n, In c g -> In n (c_wn c) -> exists v, lookup n (last_n s) = Some v /\ c_ver c <= v;
  inv_le_sound : forall e v, lookup e (last_e s) = Some v -> exists c, In c g /\ c_ver c = v /\ In e (c_we c);
  inv_le_max : forall c e, In c g -> In e (c_we c) -> exists v, lookup e (last_e s) = Some v /\ c_ver c <= v
}.

Lemma inv_init : Inv init [].
Proof.
  constructor; cbn; try (intros; contradiction); try (intros; discriminate); try constructor.
Qed.

(* the result of a commit, case by case *)
Lemma commit_cases s t :
  (lookup t (txns s) = None /\ commit s t = (s, RNotFound)) \/
  (exists x, lookup t (txns s) = Some x /\ t_status x <> Active /\ commit s t = (s, RNotActive)) \/
  (exists x, lookup t (txns s) = Some x /\ t_status x = Active /\
     (conflict (last_n s) (t_start x) (t_wn x) || conflict (last_e s) (t_start x) (t_we x)) = true /\
     commit s t = (with_txns s (set t (with_status x Aborted (t_commit x)) (txns s)), RConflict)) \/
  (exists x, lookup t (txns s) = Some x /\ t_status x = Active /\
     conflict (last_n s) (t_start x) (t_wn x) = false /\ conflict (last_e s) (t_start x) (t_we x) = false /\
     commit s t = ({| cur := cur s + 1; next := next s;
                      txns := set t (with_status x Committed (Some (cur s + 1))) (txns s);
                      last_n := record_commit (last_n s) (cur s + 1) (t_wn x);
                      last_e := record_commit (last_e s) (cur s + 1) (t_we x) |}, ROk (cur s + 1))).
Proof.
  unfold commit. destruct (lookup t (txns s)) as [x|] eqn:El; [|left; auto].
  right. destruct (is_active x) eqn:Ea; cbn [negb].
  - apply is_active_true in Ea. right.
    destruct (conflict (last_n s) (t_start x) (t_wn x) || conflict (last_e s) (t_start x) (t_we x)) eqn:Ec.
    + left. exists x. auto.
    + right. apply orb_false_iff in Ec. exists x. tauto.
  - apply is_active_false in Ea. left. exists x. auto.
Qed.

Lemma abort_cases s t :
  (lookup t (txns s) = None /\ abort s t = (s, RNotFound)) \/
  (exists x, lookup t (txns s) = Some x /\ t_status x <> Active /\ abort s t = (s, RNotActive)) \/
  (exists x, lookup t (txns s) = Some x /\ t_status x = Active /\
     abort s t = (with_txns s (set t (with_status x Aborted (t_commit x)) (txns s)), RUnit)).
Proof.
  unfold abort. destruct (lookup t (txns s)) as [x|] eqn:El; [|left; auto].
  right. destruct (is_active x) eqn:Ea; cbn [negb].
  - apply is_active_true in Ea. right. exists x. auto.
  - apply is_active_false in Ea. left. exists x. auto.
Qed.

(* updating an existing entry keeps the key set *)
Lemma keys_set_existing {A} t (x y : A) m k :
  lookup t m = Some x -> (In k (map fst (set t y m)) <-> In k (map fst m)).
Proof.
  intros El. rewrite keys_set. split; [intros [->|]; auto; eapply lookup_in_keys; eauto | auto].
Qed.

(* an update of transaction t that keeps start and does not make anything active *)
Lemma inv_update s g t x y :
  Inv s g -> lookup t (txns s) = Some x ->
  t_start y = t_start x -> (t_status y = Active -> t_status x = Active) ->
  Inv (with_txns s (set t y (txns s))) g.
Proof.
  intros I El Hs Ha. destruct I. constructor; cbn [with_txns cur next txns last_n last_e]; auto.
  - apply nodup_set; auto.
  - intros k Hk. apply inv_keys0. eapply keys_set_existing; eauto.
  - intros t' x'. rewrite lookup_set. destruct (N.eqb t' t) eqn:E.
    + intros [= <-]. rewrite Hs. eauto.
    + eauto.
  - intros c Hc. destruct (inv_who0 c Hc) as [H1 H2]. split; auto.
    intros x'. rewrite lookup_set. destruct (N.eqb (c_txn c) t) eqn:E.
    + apply N.eqb_eq in E. intros [= <-]. intros Hy. apply Ha in Hy. rewrite E in H2.
      exact (H2 x El Hy).
    + auto.
Qed.

Lemma inv_step s g o : Inv s g -> Inv (fst (step s o)) (log_step s g o).
Proof.
  intros I. destruct o as [i|t n|t e|t|t|w|]; cbn [step fst log_step].
  - (* Begin *)
    destruct I. unfold begin_txn. cbn [fst].
    constructor; cbn [cur next txns last_n last_e]; auto.
    + apply nodup_set; auto.
    + intros k. rewrite keys_set. intros [->|Hk]; [lia|]. apply inv_keys0 in Hk. lia.
    + intros t x. rewrite lookup_set. destruct (N.eqb t (next s)).
      * intros [= <-]. cbn. lia.
      * eauto.
    + intros c Hc. destruct (inv_who0 c Hc) as [H1 H2]. split; [lia|].
      intros x. rewrite lookup_set. destruct (N.eqb (c_txn c) (next s)) eqn:E; [|auto].
      apply N.eqb_eq in E. lia.
  - (* WriteN *)
    unfold write_n. destruct (lookup t (txns s)) as [x|] eqn:El; [|assumption].
    eapply inv_update; eauto.
  - unfold write_e. destruct (lookup t (txns s)) as [x|] eqn:El; [|assumption].
    eapply inv_update; eauto.
  - (* Commit *)
    destruct (commit_cases s t) as [[El E]|[[x [El [Hs E]]]|[[x [El [Hs [Hc E]]]]|[x [El [Hs [Hn [He E]]]]]]]];
      rewrite E; cbn [fst snd]; rewrite ?El.
    + assumption.
    + assumption.
    + eapply inv_update; eauto; cbn; congruence.
    + destruct I. set (v := cur s + 1) in *.
      constructor; cbn [cur next txns last_n last_e].
      * apply nodup_set; auto.
      * intros k Hk. apply inv_keys0. eapply keys_set_existing; eauto.
      * intros t' x'. rewrite lookup_set. destruct (N.eqb t' t).
        -- intros [= <-]. cbn. apply inv_start0 in El. lia.
        -- intros H. apply inv_start0 in H. lia.
      * intros c [<-|Hc]; cbn [c_ver]; [lia|]. apply inv_ver0 in Hc. lia.
      * intros c [<-|Hc]; cbn [c_txn].
        -- split; [apply inv_keys0; eapply lookup_in_keys; eauto|].
           intros x'. rewrite lookup_set, N.eqb_refl. intros [= <-]. cbn. congruence.
        -- destruct (inv_who0 c Hc) as [H1 H2]. split; auto.
           intros x'. rewrite lookup_set. destruct (N.eqb (c_txn c) t); [intros [= <-]; cbn; congruence|auto].
      * intros n v'. rewrite lookup_record_commit. destruct (mem n (t_wn x)) eqn:Em.
        -- intros [= <-]. eexists. split; [left; reflexivity|]. cbn. split; auto. apply mem_in; auto.
        -- intros H. destruct (inv_ln_sound0 _ _ H) as [c [Hc1 Hc2]]. exists c. split; [right|]; auto.
      * intros c n [<-|Hc]; cbn [c_wn c_ver]; intros Hn'.
        -- exists v. rewrite lookup_record_commit. apply mem_in in Hn'. rewrite Hn'. split; [auto|lia].
        -- rewrite lookup_record_commit. destruct (mem n (t_wn x)).
           ++ exists v. split; auto. apply inv_ver0 in Hc. lia.
           ++ eauto.
      * intros e v'. rewrite lookup_record_commit. destruct (mem e (t_we x)) eqn:Em.
        -- intros [= <-]. eexists. split; [left; reflexivity|]. cbn. split; auto. apply mem_in; auto.
        -- intros H. destruct (inv_le_sound0 _ _ H) as [c [Hc1 Hc2]]. exists c. split; [right|]; auto.
      * intros c e [<-|Hc]; cbn [c_we c_ver]; intros He'.
        -- exists v. rewrite lookup_record_commit. apply mem_in in He'. rewrite He'. split; [auto|lia].
        -- rewrite lookup_record_commit. destruct (mem e (t_we x)).
           ++ exists v. split; auto. apply inv_ver0 in Hc. lia.
           ++ eauto.
  - (* Abort *)
    destruct (abort_cases s t) as [[El E]|[[x [El [Hs E]]]|[x [El [Hs E]]]]]; rewrite E; cbn [fst]; auto.
    eapply inv_update; eauto; cbn; congruence.
  - apply (fun H => H w). clear w. intros w.
    destruct I. unfold gc_txns. constructor; cbn [with_txns cur next txns last_n last_e]; auto.
    + apply nodup_filter_keys; auto.
    + intros k Hk. apply keys_filter in Hk. auto.
    + intros t x. rewrite lookup_filter by auto. destruct (lookup t (txns s)) eqn:El; [|discriminate].
      destruct (_ || _); [|discriminate]. intros [= <-]. eauto.
    + intros c Hc. destruct (inv_who0 c Hc) as [H1 H2]. split; auto.
      intros x. rewrite lookup_filter by auto. destruct (lookup (c_txn c) (txns s)) eqn:El; [|discriminate].
      destruct (_ || _); [|discriminate]. intros [= <-]. eauto.
  - generalize (watermark s). intros w.
    destruct I. unfold gc_txns. constructor; cbn [with_txns cur next txns last_n last_e]; auto.
    + apply nodup_filter_keys; auto.
    + intros k Hk. apply keys_filter in Hk. auto.
    + intros t x. rewrite lookup_filter by auto. destruct (lookup t (txns s)) eqn:El; [|discriminate].
      destruct (_ || _); [|discriminate]. intros [= <-]. eauto.
    + intros c Hc. destruct (inv_who0 c Hc) as [H1 H2]. split; auto.
      intros x. rewrite lookup_filter by auto. destruct (lookup (c_txn c) (txns s)) eqn:El; [|discriminate].
      destruct (_ || _); [|discriminate]. intros [= <-]. eauto.
Qed.

Lemma grun_from_app sg a b : grun_from sg (a ++ b) = grun_from (grun_from sg a) b.
Proof. unfold grun_from. apply fold_left_app. Qed.

Lemma inv_grun_from sg ops : Inv (fst sg) (snd sg) -> Inv (fst (grun_from sg ops)) (snd (grun_from sg ops)).
Proof.
  revert sg. induction ops as [|o ops IH]; intros sg I; cbn; auto.
  apply IH. unfold gstep; cbn [fst snd]. apply inv_step; auto.
Qed.

Lemma inv_grun ops : Inv (fst (grun ops)) (snd (grun ops)).
Proof. apply inv_grun_from. exact inv_init. Qed.

Lemma fst_grun_from sg ops : fst (grun_from sg ops) = run_from (fst sg) ops.
Proof.
  revert sg. induction ops as [|o ops IH]; intros sg; [reflexivity|].
  unfold grun_from, run_from in *. cbn [fold_left]. rewrite IH. reflexivity.
Qed.

Lemma fst_grun ops : fst (grun ops) = run ops.
Proof. apply fst_grun_from. Qed.

(* ----------------------------------------------------- first committer wins *)
Lemma commit_ok_iff s g t :
  Inv s g ->
  ((exists v, snd (commit s t) = ROk v) <-> active s t /\ ~ blocked s g t).
Proof.
  intros I. split.
  - intros [v Hv].
    destruct (commit_cases s t) as [[El E]|[[x [El [Hs E]]]|[[x [El [Hs [Hc E]]]]|[x [El [Hs [Hn [He E]]]]]]]];
      rewrite E in Hv; cbn in Hv; try discriminate.
    split; [exists x; auto|].
    intros [x' [c [El' [Hc [Hne [Hlt Hw]]]]]]. rewrite El in El'. injection El' as <-.
    destruct Hw as [[n [H1 H2]]|[e [H1 H2]]].
    + destruct (inv_ln_max _ _ I c n Hc H2) as [v' [Hl Hle]].
      assert (conflict (last_n s) (t_start x) (t_wn x) = true) as K; [|congruence].
      apply conflict_true. exists n, v'. repeat split; auto. lia.
    + destruct (inv_le_max _ _ I c e Hc H2) as [v' [Hl Hle]].
      assert (conflict (last_e s) (t_start x) (t_we x) = true) as K; [|congruence].
      apply conflict_true. exists e, v'. repeat split; auto. lia.
  - intros [[x [El Hs]] Hnb].
    destruct (commit_cases s t) as [[El' E]|[[x' [El' [Hs' E]]]|[[x' [El' [Hs' [Hc E]]]]|[x' [El' [Hs' [Hn [He E]]]]]]]];
      rewrite E; cbn [snd]; rewrite El in El'; try discriminate; try injection El' as <-;
      try congruence; [|eauto].
    exfalso. apply Hnb. apply orb_true_iff in Hc. destruct Hc as [Hc|Hc]; apply conflict_true in Hc;
      destruct Hc as [e [v [Hi [Hl Hlt]]]].
    + destruct (inv_ln_sound _ _ I _ _ Hl) as [c [Hc [Hv Hin]]].
      exists x, c. repeat split; auto; [|lia|left; eauto].
      intros Heq. destruct (inv_who _ _ I c Hc) as [_ H2]. rewrite Heq in H2. exact (H2 x El Hs).
    + destruct (inv_le_sound _ _ I _ _ Hl) as [c [Hc [Hv Hin]]].
      exists x, c. repeat split; auto; [|lia|right; eauto].
      intros Heq. destruct (inv_who _ _ I c Hc) as [_ H2]. rewrite Heq in H2. exact (H2 x El Hs).
Qed.

Lemma commit_conflict_iff s g t :
  Inv s g -> (snd (commit s t) = RConflict <-> active s t /\ blocked s g t).
Proof.
  intros I. pose proof (commit_ok_iff s g t I) as [H1 H2]. split.
  - intros Hc.
    destruct (commit_cases s t) as [[El E]|[[x [El [Hs E]]]|[[x [El [Hs [Hcf E]]]]|[x [El [Hs [Hn [He E]]]]]]]];
      rewrite E in Hc; cbn in Hc; try discriminate.
    assert (active s t) as Ha by (exists x; auto). split; auto.
    (* classical on a decidable fact: reuse the computation *)
    apply orb_true_iff in Hcf. destruct Hcf as [Hcf|Hcf]; apply conflict_true in Hcf;
      destruct Hcf as [e [v [Hi [Hl Hlt]]]].
    + destruct (inv_ln_sound _ _ I _ _ Hl) as [c [Hc' [Hv Hin]]].
      exists x, c. repeat split; auto; [|lia|left; eauto].
      intros Heq. destruct (inv_who _ _ I c Hc') as [_ H3]. rewrite Heq in H3. exact (H3 x El Hs).
    + destruct (inv_le_sound _ _ I _ _ Hl) as [c [Hc' [Hv Hin]]].
      exists x, c. repeat split; auto; [|lia|right; eauto].
      intros Heq. destruct (inv_who _ _ I c Hc') as [_ H3]. rewrite Heq in H3. exact (H3 x El Hs).
  - intros [[x [El Hs]] Hb].
    destruct (commit_cases s t) as [[El' E]|[[x' [El' [Hs' E]]]|[[x' [El' [Hs' [Hc E]]]]|[x' [El' [Hs' [Hn [He E]]]]]]]];
      rewrite E; cbn [snd]; rewrite El in El'; try discriminate; try injection El' as <-; try congruence.
    exfalso. assert (exists v, snd (commit s t) = ROk v) as K by (rewrite E; cbn; eauto).
    apply H1 in K. tauto.
Qed.

Theorem commit_iff : forall ops t,
  let s := fst (grun ops) in let g := snd (grun ops) in
  ((exists v, snd (commit s t) = ROk v) <-> active s t /\ ~ blocked s g t) /\
  (snd (commit s t) = RConflict <-> active s t /\ blocked s g t) /\
  (snd (commit s t) = RNotActive <-> finished s t) /\
  (snd (commit s t) = RNotFound <-> lookup t (txns s) = None).
Proof.
  intros ops t s g. pose proof (inv_grun ops) as I. fold s g in I.
  split; [apply commit_ok_iff; auto|]. split; [apply commit_conflict_iff; auto|].
  destruct (commit_cases s t) as [[El E]|[[x [El [Hs E]]]|[[x [El [Hs [Hc E]]]]|[x [El [Hs [Hn [He E]]]]]]]];
    rewrite E; cbn [snd]; unfold finished; rewrite El; split; split; try discriminate; try congruence; eauto;
    try (intros [x' [[= <-] H]]; congruence); intros [x' [H _]]; discriminate.
Qed.

(* ------------------------------------------------ versions strictly increase *)
Fixpoint ok_versions (l : list result) : list N :=
  match l with
  | [] => []
  | ROk v :: r => v :: ok_versions r
  | _ :: r => ok_versions r
  end.

Lemma step_cur s o :
  cur s <= cur (fst (step s o)) /\
  (forall v, snd (step s o) = ROk v -> v = cur s + 1 /\ cur (fst (step s o)) = v).
Proof.
  destruct o as [i|t n|t e|t|t|w|]; cbn [step fst snd].
  - cbn. split; [lia|discriminate].
  - unfold write_n. destruct (lookup t (txns s)); cbn; split; try lia; discriminate.
  - unfold write_e. destruct (lookup t (txns s)); cbn; split; try lia; discriminate.
  - destruct (commit_cases s t) as [[El E]|[[x [El [Hs E]]]|[[x [El [Hs [Hc E]]]]|[x [El [Hs [Hn [He E]]]]]]]];
      rewrite E; cbn [fst snd with_txns cur]; split; try lia; try discriminate.
    intros v [= <-]. auto.
  - destruct (abort_cases s t) as [[El E]|[[x [El [Hs E]]]|[x [El [Hs E]]]]];
      rewrite E; cbn [fst snd with_txns cur]; split; try lia; discriminate.
  - cbn. split; [lia|discriminate].
  - cbn. split; [lia|discriminate].
Qed.

Lemma versions_strict_from ops : forall s,
  StronglySorted N.lt (ok_versions (trace s ops)) /\
  Forall (fun v => cur s < v) (ok_versions (trace s ops)).
Proof.
  induction ops as [|o ops IH]; intros s; cbn [trace ok_versions]; [split; constructor|].
  destruct (step s o) as [s' res] eqn:Es.
  destruct (IH s') as [Hs Hf]. pose proof (step_cur s o) as [Hle Hok]. rewrite Es in Hle, Hok. cbn [fst snd] in *.
  assert (Forall (fun v => cur s < v) (ok_versions (trace s' ops))) as Hf'.
  { eapply Forall_impl; [|exact Hf]. cbn. intros; lia. }
  destruct res; cbn [ok_versions]; auto.
  destruct (Hok v eq_refl) as [Hv Hc]. split.
  - constructor; auto. eapply Forall_impl; [|exact Hf]. cbn. intros; lia.
  - constructor; auto. lia.
Qed.

Theorem versions_strict : forall ops,
  StronglySorted N.lt (ok_versions (trace init ops)) /\
  forall pre t v, snd (commit (run pre) t) = ROk v ->
                  cur (run pre) < v /\ cur (fst (commit (run pre) t)) = v.
Proof.
  intros ops. split; [apply versions_strict_from|].
  intros pre t v H. pose proof (step_cur (run pre) (Commit t)) as [_ Hok]. cbn [step] in Hok.
  destruct (Hok v H). split; [lia|auto].
Qed.

(* ----------------------------------------- committed / aborted are final *)
Definition is_end (o : op) (t : N) : Prop := o = Commit t \/ o = Abort t.
Definition refused (r : result) : Prop := r = RNotActive \/ r = RNotFound.

Lemma end_refused_if_not_active s o t : is_end o t -> ~ active s t -> refused (snd (step s o)) /\ fst (step s o) = s.
Proof.
  intros [->| ->] Hna; cbn [step].
  - destruct (commit_cases s t) as [[El E]|[[x [El [Hs E]]]|[[x [El [Hs [Hc E]]]]|[x [El [Hs [Hn [He E]]]]]]]];
      rewrite E; cbn [snd fst]; unfold refused; auto; exfalso; apply Hna; exists x; auto.
  - destruct (abort_cases s t) as [[El E]|[[x [El [Hs E]]]|[x [El [Hs E]]]]];
      rewrite E; cbn [snd fst]; unfold refused; auto; exfalso; apply Hna; exists x; auto.
Qed.

Lemma end_makes_not_active s o t : is_end o t -> ~ active (fst (step s o)) t.
Proof.
  intros [->| ->]; cbn [step].
  - destruct (commit_cases s t) as [[El E]|[[x [El [Hs E]]]|[[x [El [Hs [Hc E]]]]|[x [El [Hs [Hn [He E]]]]]]]];
      rewrite E; unfold active; cbn [fst with_txns txns]; intros [x' [El' Hs']].
    + congruence.
    + congruence.
    + rewrite lookup_set, N.eqb_refl in El'. injection El' as <-. discriminate.
    + rewrite lookup_set, N.eqb_refl in El'. injection El' as <-. discriminate.
  - destruct (abort_cases s t) as [[El E]|[[x [El [Hs E]]]|[x [El [Hs E]]]]];
      rewrite E; unfold active; cbn [fst with_txns txns]; intros [x' [El' Hs']].
    + congruence.
    + congruence.
    + rewrite lookup_set, N.eqb_refl in El'. injection El' as <-. discriminate.
Qed.

Lemma next_mono s o : next s <= next (fst (step s o)).
Proof.
  destruct o as [i|t n|t e|t|t|w|]; cbn [step fst].
  - cbn. lia.
  - unfold write_n. destruct (lookup t (txns s)); cbn; lia.
  - unfold write_e. destruct (lookup t (txns s)); cbn; lia.
  - destruct (commit_cases s t) as [[El E]|[[x [El [Hs E]]]|[[x [El [Hs [Hc E]]]]|[x [El [Hs [Hn [He E]]]]]]]];
      rewrite E; cbn; lia.
  - destruct (abort_cases s t) as [[El E]|[[x [El [Hs E]]]|[x [El [Hs E]]]]]; rewrite E; cbn; lia.
  - cbn. lia.
  - cbn. lia.
Qed.

(* a property of the table entry of t that every step keeps once t's id has been handed out:
   R x y says entry y may replace entry x *)
Lemma entry_step s g o t :
  Inv s g -> t < next s ->
  forall y, lookup t (txns (fst (step s o))) = Some y ->
  exists x, lookup t (txns s) = Some x /\ t_iso y = t_iso x /\ t_start y = t_start x /\
            (t_status y = Active -> t_status x = Active).
Proof.
  intros I Hlt y. destruct o as [i|t' n|t' e|t'|t'|w|]; cbn [step fst].
  - cbn. rewrite lookup_set. destruct (N.eqb t (next s)) eqn:E; [apply N.eqb_eq in E; lia|]. eauto.
  - unfold write_n. destruct (lookup t' (txns s)) as [x|] eqn:El; [|eauto].
    cbn. rewrite lookup_set. destruct (N.eqb t t') eqn:E; [|eauto].
    apply N.eqb_eq in E; subst t'. intros [= <-]. exists x. cbn. auto.
  - unfold write_e. destruct (lookup t' (txns s)) as [x|] eqn:El; [|eauto].
    cbn. rewrite lookup_set. destruct (N.eqb t t') eqn:E; [|eauto].
    apply N.eqb_eq in E; subst t'. intros [= <-]. exists x. cbn. auto.
  - destruct (commit_cases s t') as [[El E]|[[x [El [Hs E]]]|[[x [El [Hs [Hc E]]]]|[x [El [Hs [Hn [He E]]]]]]]];
      rewrite E; cbn [fst with_txns txns]; eauto; rewrite lookup_set;
      (destruct (N.eqb t t') eqn:Et; [|eauto]); apply N.eqb_eq in Et; subst t';
      intros [= <-]; exists x; cbn; auto.
  - destruct (abort_cases s t') as [[El E]|[[x [El [Hs E]]]|[x [El [Hs E]]]]];
      rewrite E; cbn [fst with_txns txns]; eauto; rewrite lookup_set;
      (destruct (N.eqb t t') eqn:Et; [|eauto]); apply N.eqb_eq in Et; subst t';
      intros [= <-]; exists x; cbn; auto.
  - cbn. rewrite lookup_filter by (apply (inv_nodup _ _ I)).
    destruct (lookup t (txns s)) as [x|]; [|discriminate]. destruct (_ || _); [|discriminate].
    intros [= <-]. eauto.
  - cbn. rewrite lookup_filter by (apply (inv_nodup _ _ I)).
    destruct (lookup t (txns s)) as [x|]; [|discriminate]. destruct (_ || _); [|discriminate].
    intros [= <-]. eauto.
Qed.

(* an Active transaction is never dropped from the table *)
Lemma active_kept s g o t :
  Inv s g -> active s t -> lookup t (txns (fst (step s o))) <> None.
Proof.
  intros I [x [El Hs]]. destruct o as [i|t' n|t' e|t'|t'|w|]; cbn [step fst].
  - cbn. rewrite lookup_set. destruct (N.eqb t (next s)); congruence.
  - unfold write_n. destruct (lookup t' (txns s)) eqn:El'; [|congruence].
    cbn. rewrite lookup_set. destruct (N.eqb t t'); congruence.
  - unfold write_e. destruct (lookup t' (txns s)) eqn:El'; [|congruence].
    cbn. rewrite lookup_set. destruct (N.eqb t t'); congruence.
  - destruct (commit_cases s t') as [[El' E]|[[x' [El' [Hs' E]]]|[[x' [El' [Hs' [Hc E]]]]|[x' [El' [Hs' [Hn [He E]]]]]]]];
      rewrite E; cbn [fst with_txns txns]; try congruence; rewrite lookup_set; destruct (N.eqb t t'); congruence.
  - destruct (abort_cases s t') as [[El' E]|[[x' [El' [Hs' E]]]|[x' [El' [Hs' E]]]]];
      rewrite E; cbn [fst with_txns txns]; try congruence; rewrite lookup_set; destruct (N.eqb t t'); congruence.
  - cbn. rewrite lookup_filter by (apply (inv_nodup _ _ I)). rewrite El. cbn [snd].
    apply is_active_true in Hs. rewrite Hs. cbn. congruence.
  - cbn. rewrite lookup_filter by (apply (inv_nodup _ _ I)). rewrite El. cbn [snd].
    apply is_active_true in Hs. rewrite Hs. cbn. congruence.
Qed.

Lemma not_active_step s g o t :
  Inv s g -> t < next s -> ~ active s t -> ~ active (fst (step s o)) t.
Proof.
  intros I Hlt Hna [y [El Hs]]. destruct (entry_step s g o t I Hlt y El) as [x [Hx [_ [_ Ha]]]].
  apply Hna. exists x. auto.
Qed.

Lemma not_active_run ops : forall sg t,
  Inv (fst sg) (snd sg) -> t < next (fst sg) -> ~ active (fst sg) t ->
  ~ active (fst (grun_from sg ops)) t /\ Inv (fst (grun_from sg ops)) (snd (grun_from sg ops)).
Proof.
  induction ops as [|o ops IH]; intros sg t I Hlt Hna; [auto|].
  unfold grun_from in *. cbn [fold_left]. apply IH.
  - unfold gstep; cbn [fst snd]. apply inv_step; auto.
  - unfold gstep; cbn [fst]. pose proof (next_mono (fst sg) o). lia.
  - unfold gstep; cbn [fst]. eapply not_active_step; eauto.
Qed.

Lemma run_app a b : run (a ++ b) = run_from (run a) b.
Proof. unfold run, run_from. apply fold_left_app. Qed.

Theorem final : forall ops1 o ops2 o' t,
  is_end o t -> is_end o' t ->
  snd (step (run ops1) o) <> RNotFound ->
  refused (snd (step (run (ops1 ++ o :: ops2)) o')) /\
  fst (step (run (ops1 ++ o :: ops2)) o') = run (ops1 ++ o :: ops2).
Proof.
  intros ops1 o ops2 o' t Ho Ho' Hnf.
  apply (end_refused_if_not_active _ _ t); auto.
  pose proof (inv_grun ops1) as I. rewrite run_app. cbn [run_from fold_left].
  change (fold_left (fun s o => fst (step s o)) ops2 (fst (step (run ops1) o)))
    with (run_from (fst (step (run ops1) o)) ops2).
  rewrite <- (fst_grun ops1) in *.
  set (sg := grun ops1) in *.
  assert (t < next (fst sg)) as Hlt.
  { destruct (lookup t (txns (fst sg))) eqn:El.
    - apply (inv_keys _ _ I). eapply lookup_in_keys; eauto.
    - exfalso. apply Hnf. destruct Ho as [->| ->]; cbn [step].
      + destruct (commit_cases (fst sg) t) as [[_ E]|[[x [El' _]]|[[x [El' _]]|[x [El' _]]]]]; [rewrite E; auto|congruence..].
      + destruct (abort_cases (fst sg) t) as [[_ E]|[[x [El' _]]|[x [El' _]]]]; [rewrite E; auto|congruence..]. }
  pose proof (not_active_run ops2 (gstep sg o) t) as K.
  rewrite fst_grun_from in K. unfold gstep in K; cbn [fst snd] in K.
  apply K.
  - apply inv_step; auto.
  - pose proof (next_mono (fst sg) o). lia.
  - apply end_makes_not_active; auto.
Qed.

(* ----------------------------------------------------------- read version *)
Lemma entry_run ops : forall sg t,
  Inv (fst sg) (snd sg) -> t < next (fst sg) ->
  forall y, lookup t (txns (fst (grun_from sg ops))) = Some y ->
  exists x, lookup t (txns (fst sg)) = Some x /\ t_iso y = t_iso x /\ t_start y = t_start x.
Proof.
  induction ops as [|o ops IH]; intros sg t I Hlt y Hy; [exists y; auto|].
  unfold grun_from in *. cbn [fold_left] in Hy.
  destruct (IH (gstep sg o) t) with (y := y) as [x' [Hx' [Hi Hs]]]; auto.
  - unfold gstep; cbn [fst snd]. apply inv_step; auto.
  - unfold gstep; cbn [fst]. pose proof (next_mono (fst sg) o). lia.
  - unfold gstep in Hx'; cbn [fst] in Hx'.
    destruct (entry_step _ _ o t I Hlt x' Hx') as [x [Hx [Hi' [Hs' _]]]].
    exists x. repeat split; congruence.
Qed.

Theorem read_version_rule : forall ops1 i ops2,
  let s1 := run ops1 in
  let t := next s1 in
  let s := run (ops1 ++ Begin i :: ops2) in
  snd (step s1 (Begin i)) = RBegin t /\
  (forall x, lookup t (txns s) = Some x ->
     read_version s t = Some (match i with RC => cur s | SI => cur s1 end)) /\
  (active s t -> read_version s t <> None).
Proof.
  intros ops1 i ops2 s1 t s. split; [reflexivity|]. split.
  - intros y Hy. pose proof Hy as Hy0. pose proof (inv_grun ops1) as I. rewrite fst_grun in I.
    unfold s in Hy. rewrite run_app in Hy. cbn [run_from fold_left] in Hy.
    change (fold_left (fun s o => fst (step s o)) ops2 (fst (step (run ops1) (Begin i))))
      with (run_from (fst (step (run ops1) (Begin i))) ops2) in Hy.
    pose proof (entry_run ops2 (gstep (grun ops1) (Begin i)) t) as K.
    rewrite fst_grun_from in K. unfold gstep in K; cbn [fst snd] in K. rewrite fst_grun in K.
    destruct (K (inv_step _ _ _ I)) with (y := y) as [x [Hx [Hi Hs]]]; auto.
    { cbn. fold s1. unfold t. lia. }
    cbn in Hx. fold s1 in Hx. rewrite lookup_set in Hx. fold t in Hx. rewrite N.eqb_refl in Hx.
    injection Hx as <-. cbn in Hi, Hs.
    unfold read_version. rewrite Hy0, Hi, Hs. reflexivity.
  - intros [x [Hx _]]. unfold read_version. rewrite Hx. discriminate.
Qed.

(* ----------------------- "version above my start" = "committed after I began" *)
Lemma log_step_shape s g o :
  log_step s g o = g \/ exists c, log_step s g o = c :: g /\ c_ver c = cur s + 1.
Proof.
  destruct o; cbn [log_step]; auto.
  destruct (commit_cases s t) as [[El E]|[[x [El [Hs E]]]|[[x [El [Hs [Hc E]]]]|[x [El [Hs [Hn [He E]]]]]]]];
    rewrite E, El; cbn [snd]; auto.
  right. eexists. split; [reflexivity|]. reflexivity.
Qed.

Lemma log_grows ops : forall sg,
  exists gnew, snd (grun_from sg ops) = gnew ++ snd sg /\
               (forall c, In c gnew -> cur (fst sg) < c_ver c) /\
               cur (fst sg) <= cur (fst (grun_from sg ops)).
Proof.
  induction ops as [|o ops IH]; intros sg.
  - exists []. cbn. split; auto. split; [intros c []|lia].
  - unfold grun_from in *. cbn [fold_left].
    destruct (IH (gstep sg o)) as [gn [Hg [Hv Hc]]].
    assert (fst (gstep sg o) = fst (step (fst sg) o)) as E1 by reflexivity.
    assert (snd (gstep sg o) = log_step (fst sg) (snd sg) o) as E2 by reflexivity.
    rewrite E1 in Hv, Hc. rewrite E2 in Hg.
    pose proof (step_cur (fst sg) o) as [Hle _].
    destruct (log_step_shape (fst sg) (snd sg) o) as [E|[c [E Hcv]]]; rewrite E in Hg.
    + exists gn. split; auto. split; [|lia].
      intros c Hc'. apply Hv in Hc'. lia.
    + exists (gn ++ [c]). rewrite <- app_assoc. cbn [app]. split; auto.
      split; [|lia].
      intros c' Hc'. apply in_app_or in Hc'. destruct Hc' as [Hc'|[<-|[]]]; [apply Hv in Hc'; lia|lia].
Qed.

Theorem after_begin : forall ops1 i ops2,
  let s1 := fst (grun ops1) in
  let g1 := snd (grun ops1) in
  let g := snd (grun (ops1 ++ Begin i :: ops2)) in
  exists gnew, g = gnew ++ g1 /\
    (forall c, In c g1 -> c_ver c <= cur s1) /\
    (forall c, In c gnew -> cur s1 < c_ver c).
Proof.
  intros ops1 i ops2 s1 g1 g.
  unfold g, grun. rewrite grun_from_app. fold (grun ops1).
  change (grun_from (grun ops1) (Begin i :: ops2)) with (grun_from (gstep (grun ops1) (Begin i)) ops2).
  destruct (log_grows ops2 (gstep (grun ops1) (Begin i))) as [gn [Hg [Hv _]]].
  exists gn. split; [exact Hg|]. split.
  - apply (inv_ver _ _ (inv_grun ops1)).
  - exact Hv.
Qed.

(* --------------------------------------------------- interleaving completeness *)
(* [Merge ss l]: l is an interleaving of the scripts ss (each script's order kept) *)
Inductive Merge {A} : list (list A) -> list A -> Prop :=
| Merge_nil : forall ss, Forall (fun s => s = []) ss -> Merge ss []
| Merge_cons : forall ss1 s ss2 x l,
    Merge (ss1 ++ s :: ss2) l -> Merge (ss1 ++ (x :: s) :: ss2) (x :: l).

Definition proj {A} (f : A -> nat) (l : list A) (k : nat) : list A :=
  filter (fun x => Nat.eqb (f x) k) l.

Lemma proj_cons_other {A} (f : A -> nat) x l k : f x <> k -> proj f (x :: l) k = proj f l k.
Proof. intros H. unfold proj. cbn [filter]. apply Nat.eqb_neq in H. rewrite H. reflexivity. Qed.

Lemma proj_cons_same {A} (f : A -> nat) x l : proj f (x :: l) (f x) = x :: proj f l (f x).
Proof. unfold proj. cbn [filter]. rewrite Nat.eqb_refl. reflexivity. Qed.

Lemma map_proj_other {A} (f : A -> nat) x l ks :
  ~ In (f x) ks -> map (proj f (x :: l)) ks = map (proj f l) ks.
Proof.
  intros H. apply map_ext_in. intros k Hk. apply proj_cons_other. intros E; subst; auto.
Qed.

(* every sequence is an interleaving of its projections on any finite partition of its
   elements into owners (e.g. op -> the transaction / client that issued it) *)
Theorem interleave_complete {A} (f : A -> nat) (n : nat) (l : list A) :
  (forall x, In x l -> (f x < n)%nat) -> Merge (map (proj f l) (seq 0 n)) l.
Proof.
  induction l as [|x l IH]; intros H.
  - constructor. apply Forall_forall. intros s Hs. apply in_map_iff in Hs. destruct Hs as [k [<- _]]. reflexivity.
  - assert (f x < n)%nat as Hx by (apply H; left; auto).
    assert (seq 0 n = seq 0 (f x) ++ f x :: seq (S (f x)) (n - S (f x))) as Hseq.
    { replace n with (f x + S (n - S (f x)))%nat at 1 by lia. rewrite seq_app. cbn [seq plus]. reflexivity. }
    rewrite Hseq, map_app. cbn [map]. rewrite proj_cons_same.
    rewrite !map_proj_other.
    + apply Merge_cons. rewrite <- (map_cons (proj f l)), <- map_app, <- Hseq.
      apply IH. intros y Hy. apply H. right; auto.
    + rewrite in_seq. lia.
    + rewrite in_seq. lia.
Qed.

(* conversely an interleaving contains exactly the elements of the scripts *)
Lemma merge_elements {A} (ss : list (list A)) l : Merge ss l -> forall x, In x l <-> In x (concat ss).
Proof.
  induction 1 as [ss Hf|ss1 s ss2 x l Hm IH]; intros y.
  - split; [intros []|]. rewrite in_concat. intros [s [Hs Hy]].
    rewrite Forall_forall in Hf. rewrite (Hf s Hs) in Hy. destruct Hy.
  - specialize (IH y). rewrite !concat_app in *. cbn [concat] in *.
    rewrite !in_app_iff in *. cbn [In]. tauto.
Qed.
