(* Proofs about the elitist search skeleton and the Pareto front (model/Solver.v). *)
From Coq Require Import List ZArith NArith Bool Lia Sorted.
From Verif Require Import CheckLib Solver.
Import ListNotations.
Open Scope Z_scope.

Definition in_box (bs : list (Z * Z)) (x : point) : Prop :=
  Forall2 (fun b v => fst b <= v <= snd b) bs x.

Definition proper_box (bs : list (Z * Z)) : Prop := Forall (fun b => fst b <= snd b) bs.
Definition inverted_box (bs : list (Z * Z)) : Prop := Exists (fun b => snd b < fst b) bs.

Lemma in_boxb_spec : forall bs x, in_boxb bs x = true <-> in_box bs x.
Proof.
  unfold in_box. induction bs as [|[lo hi] r IH]; intros [|v t]; cbn.
  - split; [constructor | reflexivity].
  - split; [discriminate | intros H; inversion H].
  - split; [discriminate | intros H; inversion H].
  - rewrite !andb_true_iff, IH, !Z.leb_le. split.
    + intros [[H1 H2] H3]. constructor; [cbn; lia | exact H3].
    + intros H; inversion H as [|? ? ? ? Hb Ht]; subst. cbn in Hb. repeat split; try lia; exact Ht.
Qed.

(* ---------- clamp / gen_range / sample ---------- *)
Lemma clamp_ok : forall x lo hi v, clamp x lo hi = Ok v -> lo <= v <= hi.
Proof.
  unfold clamp. intros x lo hi v. destruct (hi <? lo) eqn:E; [discriminate|].
  apply Z.ltb_ge in E. intros H; inversion H; subst; clear H.
  destruct (x <? lo) eqn:E1; [lia|]. apply Z.ltb_ge in E1.
  destruct (hi <? x) eqn:E2; [lia|]. apply Z.ltb_ge in E2. lia.
Qed.

Lemma clamp_total : forall x lo hi, lo <= hi -> exists v, clamp x lo hi = Ok v.
Proof.
  unfold clamp. intros x lo hi H. destruct (hi <? lo) eqn:E; [apply Z.ltb_lt in E; lia|].
  eexists; reflexivity.
Qed.

Lemma clamp_inverted : forall x lo hi, hi < lo <-> clamp x lo hi = Panic ClampInverted.
Proof.
  unfold clamp. intros x lo hi. destruct (hi <? lo) eqn:E.
  - apply Z.ltb_lt in E. split; [reflexivity | intros _; exact E].
  - apply Z.ltb_ge in E. split; [lia | discriminate].
Qed.

Lemma gen_range_empty : forall r lo hi, hi <= lo -> gen_range r lo hi = Panic EmptyRange.
Proof.
  unfold gen_range. intros r lo hi H. destruct (lo <? hi) eqn:E; [apply Z.ltb_lt in E; lia | reflexivity].
Qed.

Lemma gen_range_ok : forall r lo hi v, gen_range r lo hi = Ok v -> lo <= v < hi.
Proof.
  unfold gen_range. intros r lo hi v. destruct (lo <? hi) eqn:E; [|discriminate].
  apply Z.ltb_lt in E. intros H; inversion H; subst.
  pose proof (Z.mod_pos_bound r (hi - lo)). lia.
Qed.

Lemma sample_ok : forall r lo hi v, sample r lo hi = Ok v -> lo <= v <= hi.
Proof.
  unfold sample. intros r lo hi v. destruct (lo =? hi) eqn:E.
  - apply Z.eqb_eq in E. intros H; inversion H; lia.
  - intros H. apply gen_range_ok in H. lia.
Qed.

Lemma sample_total : forall r lo hi, lo <= hi -> exists v, sample r lo hi = Ok v.
Proof.
  unfold sample, gen_range. intros r lo hi H. destruct (lo =? hi) eqn:E; [eexists; reflexivity|].
  apply Z.eqb_neq in E. destruct (lo <? hi) eqn:E1; [eexists; reflexivity|].
  apply Z.ltb_ge in E1. lia.
Qed.

Lemma sample_inverted : forall r lo hi, hi < lo -> sample r lo hi = Panic EmptyRange.
Proof.
  unfold sample. intros r lo hi H. destruct (lo =? hi) eqn:E; [apply Z.eqb_eq in E; lia|].
  apply gen_range_empty. lia.
Qed.

Lemma sample_degenerate : forall r lo, sample r lo lo = Ok lo.
Proof. unfold sample. intros. rewrite Z.eqb_refl. reflexivity. Qed.

(* ---------- build / sequence ---------- *)
Lemma build_ok : forall g,
  (forall j lo hi v, g j lo hi = Ok v -> lo <= v <= hi) ->
  forall bs j x, build g j bs = Ok x -> in_box bs x.
Proof.
  intros g Hg. unfold in_box. induction bs as [|[lo hi] r IH]; intros j x; cbn.
  - intros H; inversion H; constructor.
  - destruct (g j lo hi) as [v|p] eqn:E; cbn; [|discriminate].
    destruct (build g (S j) r) as [t|p] eqn:E2; cbn; [|discriminate].
    intros H; inversion H; subst. constructor; [cbn; eauto | eauto].
Qed.

Lemma build_total : forall g,
  (forall j lo hi, lo <= hi -> exists v, g j lo hi = Ok v) ->
  forall bs j, proper_box bs -> exists x, build g j bs = Ok x.
Proof.
  intros g Hg. induction bs as [|[lo hi] r IH]; intros j Hp; cbn.
  - eexists; reflexivity.
  - inversion Hp as [|? ? Hb Hr]; subst. cbn in Hb.
    destruct (Hg j lo hi Hb) as [v ->]. cbn.
    destruct (IH (S j) Hr) as [t ->]. cbn. eexists; reflexivity.
Qed.

Lemma build_panic : forall g p,
  (forall j lo hi, hi < lo -> g j lo hi = Panic p) ->
  (forall j lo hi, lo <= hi -> exists v, g j lo hi = Ok v) ->
  forall bs j, inverted_box bs -> build g j bs = Panic p.
Proof.
  intros g p Hinv Hok. induction bs as [|[lo hi] r IH]; intros j Hex; cbn.
  - inversion Hex.
  - destruct (Z_lt_le_dec hi lo) as [Hlt|Hle].
    + rewrite (Hinv j lo hi Hlt). reflexivity.
    + destruct (Hok j lo hi Hle) as [v ->]. cbn.
      inversion Hex as [? ? Hb|? ? Hr]; subst; [cbn in Hb; lia|].
      rewrite (IH (S j) Hr). reflexivity.
Qed.

Lemma sequence_ok : forall A (l : list (outcome A)) r,
  sequence l = Ok r -> Forall2 (fun o a => o = Ok a) l r.
Proof.
  induction l as [|o l IH]; intros r; cbn.
  - intros H; inversion H; constructor.
  - destruct o as [a|p]; cbn; [|discriminate].
    destruct (sequence l) as [t|p] eqn:E; cbn; [|discriminate].
    intros H; inversion H; subst. constructor; auto.
Qed.

Lemma sequence_length : forall A (l : list (outcome A)) r, sequence l = Ok r -> length r = length l.
Proof.
  intros A l r H. apply sequence_ok in H. induction H; cbn; [reflexivity | f_equal; assumption].
Qed.

Lemma sequence_total : forall A (l : list (outcome A)),
  Forall (fun o => exists a, o = Ok a) l -> exists r, sequence l = Ok r.
Proof.
  induction l as [|o l IH]; intros H; cbn.
  - eexists; reflexivity.
  - inversion H as [|? ? [a ->] Hl]; subst. cbn. destruct (IH Hl) as [t ->]. cbn. eexists; reflexivity.
Qed.

Lemma sequence_map_ok : forall A (g : nat -> outcome A) l r,
  sequence (map g l) = Ok r -> forall a, In a r -> exists i, In i l /\ g i = Ok a.
Proof.
  induction l as [|i l IH]; intros r; cbn.
  - intros H; inversion H; subst. intros a [].
  - destruct (g i) as [b|p] eqn:E; cbn; [|discriminate].
    destruct (sequence (map g l)) as [t|p] eqn:E2; cbn; [|discriminate].
    intros H; inversion H; subst. intros a [->|Ha].
    + exists i. auto.
    + destruct (IH t eq_refl a Ha) as [k [Hk Hg]]. exists k. auto.
Qed.

(* ---------- best_of ---------- *)
Lemma best_of_in : forall l a, In (best_of a l) (a :: l).
Proof.
  unfold best_of. induction l as [|c l IH]; intros a; cbn [fold_left].
  - left; reflexivity.
  - destruct (better c a).
    + destruct (IH c) as [H|H]; [right; left; exact H | right; right; exact H].
    + destruct (IH a) as [H|H]; [left; exact H | right; right; exact H].
Qed.

Lemma best_of_le_start : forall l a, fit (best_of a l) <= fit a.
Proof.
  unfold best_of. induction l as [|c l IH]; intros a; cbn [fold_left]; [lia|].
  destruct (better c a) eqn:E.
  - unfold better in E. apply Z.ltb_lt in E. specialize (IH c). lia.
  - apply IH.
Qed.

Lemma best_of_le : forall l a x, In x (a :: l) -> fit (best_of a l) <= fit x.
Proof.
  induction l as [|c l IH]; intros a x Hx.
  - destruct Hx as [->|[]]. cbn. lia.
  - change (best_of a (c :: l)) with (best_of (if better c a then c else a) l).
    destruct (better c a) eqn:E; unfold better in E.
    + apply Z.ltb_lt in E. destruct Hx as [->|[->|Hx]].
      * pose proof (best_of_le_start l c). lia.
      * apply best_of_le_start.
      * apply IH. right; exact Hx.
    + apply Z.ltb_ge in E. destruct Hx as [->|[->|Hx]].
      * apply best_of_le_start.
      * pose proof (best_of_le_start l a). lia.
      * apply IH. right; exact Hx.
Qed.

(* ---------- running minimum ---------- *)
Lemma fold_min_le_start : forall l a, fold_left Z.min l a <= a.
Proof. induction l as [|b l IH]; intros a; cbn; [lia|]. specialize (IH (Z.min a b)). lia. Qed.

Lemma fold_min_le : forall l a x, In x l -> fold_left Z.min l a <= x.
Proof.
  induction l as [|b l IH]; intros a x []; cbn.
  - subst. pose proof (fold_min_le_start l (Z.min a x)). lia.
  - apply IH; assumption.
Qed.

Lemma fold_min_in : forall l a, fold_left Z.min l a = a \/ In (fold_left Z.min l a) l.
Proof.
  induction l as [|b l IH]; intros a; cbn; [left; reflexivity|].
  destruct (IH (Z.min a b)) as [H|H]; [|right; right; exact H].
  rewrite H. destruct (Z.min_spec a b) as [[_ ->]|[_ ->]]; [left; reflexivity | right; left; reflexivity].
Qed.

Lemma pmin_char : forall l m, In m l -> (forall x, In x l -> m <= x) -> pmin l = Some m.
Proof.
  intros [|a r] m Hin Hmin; [destruct Hin|]. cbn. f_equal.
  assert (H1 : fold_left Z.min r a <= m).
  { destruct Hin as [->|Hin]; [apply fold_min_le_start | apply fold_min_le; exact Hin]. }
  assert (H2 : m <= fold_left Z.min r a).
  { apply Hmin. destruct (fold_min_in r a) as [->|H]; [left; reflexivity | right; exact H]. }
  lia.
Qed.

Lemma prefix_min_stable : forall l1 l2 p, (p <= length l1)%nat ->
  prefix_min (l1 ++ l2) p = prefix_min l1 p.
Proof.
  intros l1 l2 p H. unfold prefix_min. rewrite firstn_app.
  replace (p - length l1)%nat with O by lia. cbn. rewrite app_nil_r. reflexivity.
Qed.

Lemma sorted_snoc : forall (l : list Z) x,
  StronglySorted (fun a b => b <= a) l -> Forall (fun h => x <= h) l ->
  StronglySorted (fun a b => b <= a) (l ++ [x]).
Proof.
  induction l as [|a l IH]; intros x Hs Hf; cbn.
  - constructor; constructor.
  - inversion Hs as [|? ? Hs' Ha]; subst. inversion Hf as [|? ? Hx Hf']; subst.
    constructor; [apply IH; assumption|].
    apply Forall_app. split; [exact Ha | constructor; [exact Hx | constructor]].
Qed.

Lemma Forall2_weaken : forall A B (P Q : A -> B -> Prop) l1 l2,
  (forall a b, P a b -> Q a b) -> Forall2 P l1 l2 -> Forall2 Q l1 l2.
Proof. intros A B P Q l1 l2 H F. induction F; constructor; auto. Qed.

(* ---------- the skeleton ---------- *)
Section Skeleton.
  Variable f : point -> Z.
  Variable bounds : list (Z * Z).
  Variable init_raw : N -> nat -> nat -> Z.
  Variable cand_raw : N -> nat -> nat -> list ind -> nat -> Z.
  Variable accept : ind -> ind -> bool.

  Definition ok_ind (i : ind) : Prop := in_box bounds (vars i) /\ fit i = f (vars i).

  Lemma init_one_ok : forall seed idx i, init_one f bounds init_raw seed idx = Ok i -> ok_ind i.
  Proof.
    unfold init_one. intros seed idx i.
    destruct (build _ 0%nat bounds) as [x|p] eqn:E; cbn; [|discriminate].
    intros H; inversion H; subst. split; [|reflexivity]. cbn.
    eapply build_ok; [|exact E]. intros j lo hi v Hv. eapply sample_ok; exact Hv.
  Qed.

  Lemma candidate_ok : forall seed iter prev idx i,
    candidate f bounds cand_raw seed iter prev idx = Ok i -> ok_ind i.
  Proof.
    unfold candidate. intros seed iter prev idx i.
    destruct (build _ 0%nat bounds) as [x|p] eqn:E; cbn; [|discriminate].
    intros H; inversion H; subst. split; [|reflexivity]. cbn.
    eapply build_ok; [|exact E]. intros j lo hi v Hv. eapply clamp_ok; exact Hv.
  Qed.

  Lemma candidates_ok : forall seed iter prev cs,
    candidates f bounds cand_raw seed iter prev = Ok cs ->
    Forall ok_ind cs /\ length cs = length prev.
  Proof.
    unfold candidates. intros seed iter prev cs H. split.
    - apply Forall_forall. intros a Ha.
      destruct (sequence_map_ok _ _ _ _ H a Ha) as [i [_ Hi]]. eapply candidate_ok; exact Hi.
    - apply sequence_length in H. rewrite H, map_length, seq_length. reflexivity.
  Qed.

  Lemma select_in : forall old new x, In x (select accept old new) -> In x old \/ In x new.
  Proof.
    induction old as [|o r IH]; intros [|c t] x; cbn; try tauto.
    intros [H|H].
    - destruct (accept o c); subst; auto.
    - destruct (IH t x H); auto.
  Qed.

  Lemma select_length : forall old new, length new = length old ->
    length (select accept old new) = length old.
  Proof.
    induction old as [|o r IH]; intros [|c t]; cbn; try discriminate; auto.
  Qed.

  Record inv (s : state) : Prop := {
    inv_pop : Forall ok_ind (pop s);
    inv_pop_ne : pop s <> [];
    inv_evals : Forall ok_ind (evals s);
    inv_arch_in : In (arch s) (evals s);
    inv_arch_min : forall x, In x (evals s) -> fit (arch s) <= fit x;
    inv_pop_in : incl (pop s) (evals s);
    inv_hist_sorted : StronglySorted (fun a b => b <= a) (hist s);
    inv_hist_ge : Forall (fun h => fit (arch s) <= h) (hist s);
    inv_hist_pos : Forall2 (fun h p => (p <= length (evals s))%nat /\
                                       prefix_min (map fit (evals s)) p = Some h)
                           (hist s) (hpos s)
  }.

  Lemma arch_is_pmin : forall s, inv s -> pmin (map fit (evals s)) = Some (fit (arch s)).
  Proof.
    intros s I. apply pmin_char.
    - apply in_map. apply (inv_arch_in _ I).
    - intros x Hx. apply in_map_iff in Hx. destruct Hx as [i [<- Hi]]. apply (inv_arch_min _ I); exact Hi.
  Qed.

  Lemma init_inv : forall seed n s, init_state f bounds init_raw seed n = Ok s -> inv s.
  Proof.
    unfold init_state. intros seed n s.
    destruct (sequence _) as [p|q] eqn:E; cbn; [|discriminate].
    destruct p as [|a r]; [discriminate|]. intros H; inversion H; subst; clear H.
    assert (Hok : Forall ok_ind (a :: r)).
    { apply Forall_forall. intros x Hx.
      destruct (sequence_map_ok _ _ _ _ E x Hx) as [i [_ Hi]]. eapply init_one_ok; exact Hi. }
    constructor; cbn.
    - exact Hok.
    - discriminate.
    - exact Hok.
    - apply best_of_in.
    - intros x Hx. apply best_of_le. exact Hx.
    - apply incl_refl.
    - constructor.
    - constructor.
    - constructor.
  Qed.

  Lemma generation_inv : forall seed iter s s',
    inv s -> generation f bounds cand_raw accept seed iter s = Ok s' -> inv s'.
  Proof.
    unfold generation. intros seed iter s s' I.
    destruct (candidates _ _ _ _ _ _) as [cs|q] eqn:E; cbn; [|discriminate].
    intros H; inversion H; subst; clear H.
    destruct (candidates_ok _ _ _ _ E) as [Hcs Hlen].
    assert (Hbl : fit (best_of (arch s) cs) <= fit (arch s)) by apply best_of_le_start.
    constructor; cbn.
    - apply Forall_forall. intros x Hx. destruct (select_in _ _ _ Hx) as [Ho|Hn].
      + eapply Forall_forall; [apply (inv_pop _ I) | exact Ho].
      + eapply Forall_forall; [exact Hcs | exact Hn].
    - intros Hnil. apply (f_equal (@length ind)) in Hnil.
      rewrite (select_length _ _ Hlen) in Hnil. destruct (pop s) eqn:Ep; [|discriminate].
      apply (inv_pop_ne _ I); exact Ep.
    - apply Forall_app. split; [apply (inv_evals _ I) | exact Hcs].
    - apply in_or_app. destruct (best_of_in cs (arch s)) as [Ha|Hc].
      + left. rewrite <- Ha. apply (inv_arch_in _ I).
      + right. exact Hc.
    - intros x Hx. apply in_app_or in Hx. destruct Hx as [Hx|Hx].
      + pose proof (inv_arch_min _ I x Hx). lia.
      + apply best_of_le. right; exact Hx.
    - intros x Hx. apply in_or_app. destruct (select_in _ _ _ Hx) as [Ho|Hn].
      + left. apply (inv_pop_in _ I); exact Ho.
      + right; exact Hn.
    - apply sorted_snoc; [apply (inv_hist_sorted _ I) | apply (inv_hist_ge _ I)].
    - apply Forall_app. split.
      + eapply Forall_impl; [|apply (inv_hist_ge _ I)]. cbn. intros h Hh. lia.
      + constructor; [exact Hbl | constructor].
    - apply Forall2_app.
      + eapply Forall2_weaken; [|apply (inv_hist_pos _ I)]. cbn. intros h p [Hp Hm].
        rewrite app_length, map_app. split; [lia|].
        rewrite prefix_min_stable; [exact Hm | rewrite map_length; exact Hp].
      + constructor; [|constructor]. rewrite app_length, map_app. split; [lia|].
        rewrite prefix_min_stable by (rewrite map_length; lia).
        unfold prefix_min. rewrite <- (map_length fit (evals s)), firstn_all.
        apply arch_is_pmin; exact I.
  Qed.

  Lemma iterate_inv : forall seed todo iter s s',
    inv s -> iterate f bounds cand_raw accept seed iter todo s = Ok s' -> inv s'.
  Proof.
    induction todo as [|t IH]; intros iter s s' I; cbn.
    - intros H; inversion H; subst; exact I.
    - destruct (generation _ _ _ _ _ _ _) as [s1|q] eqn:E; cbn; [|discriminate].
      intros H. eapply IH; [|exact H]. eapply generation_inv; eauto.
  Qed.

  Lemma run_inv : forall seed n iters s,
    run f bounds init_raw cand_raw accept seed n iters = Ok s -> inv s.
  Proof.
    unfold run. intros seed n iters s.
    destruct (init_state _ _ _ _ _) as [s0|q] eqn:E; cbn; [|discriminate].
    intros H. eapply iterate_inv; [|exact H]. eapply init_inv; exact E.
  Qed.

  Lemma pop_best_in : forall s, pop s <> [] -> In (pop_best s) (pop s).
  Proof.
    unfold pop_best. intros s H. destruct (pop s) as [|a r]; [congruence|]. apply best_of_in.
  Qed.

  (* ---- totality / panics depend on the box only ---- *)
  Lemma init_one_total : proper_box bounds -> forall seed idx,
    exists i, init_one f bounds init_raw seed idx = Ok i.
  Proof.
    intros Hp seed idx. unfold init_one.
    destruct (build_total (fun j lo hi => sample (init_raw seed idx j) lo hi)
                (fun j lo hi H => sample_total _ lo hi H) bounds 0%nat Hp) as [x ->].
    cbn. eexists; reflexivity.
  Qed.

  Lemma candidate_total : proper_box bounds -> forall seed iter prev idx,
    exists i, candidate f bounds cand_raw seed iter prev idx = Ok i.
  Proof.
    intros Hp seed iter prev idx. unfold candidate.
    destruct (build_total (fun j lo hi => clamp (cand_raw seed iter idx prev j) lo hi)
                (fun j lo hi H => clamp_total _ lo hi H) bounds 0%nat Hp) as [x ->].
    cbn. eexists; reflexivity.
  Qed.

  Lemma iterate_total : proper_box bounds -> forall seed todo iter s,
    exists s', iterate f bounds cand_raw accept seed iter todo s = Ok s'.
  Proof.
    intros Hp seed. induction todo as [|t IH]; intros iter s; cbn.
    - eexists; reflexivity.
    - unfold generation, candidates.
      destruct (sequence_total _ (map (candidate f bounds cand_raw seed iter (pop s))
                                      (seq 0 (length (pop s))))) as [cs ->].
      { apply Forall_forall. intros o Ho. apply in_map_iff in Ho. destruct Ho as [i [<- _]].
        apply candidate_total; exact Hp. }
      cbn. apply IH.
  Qed.

  Lemma run_total : proper_box bounds -> forall seed n iters, (0 < n)%nat ->
    exists s, run f bounds init_raw cand_raw accept seed n iters = Ok s.
  Proof.
    intros Hp seed n iters Hn. unfold run, init_state.
    destruct (sequence_total _ (map (init_one f bounds init_raw seed) (seq 0 n))) as [p Hpq].
    { apply Forall_forall. intros o Ho. apply in_map_iff in Ho. destruct Ho as [i [<- _]].
      apply init_one_total; exact Hp. }
    rewrite Hpq. cbn. pose proof (sequence_length _ _ _ Hpq) as Hl.
    rewrite map_length, seq_length in Hl. destruct p as [|a r]; [cbn in Hl; lia|].
    cbn. apply iterate_total; exact Hp.
  Qed.

  Lemma run_inverted_panics : inverted_box bounds -> forall seed n iters, (0 < n)%nat ->
    run f bounds init_raw cand_raw accept seed n iters = Panic EmptyRange.
  Proof.
    intros Hi seed n iters Hn. unfold run, init_state.
    destruct n as [|n]; [lia|]. cbn [seq map sequence].
    unfold init_one at 1.
    rewrite (build_panic (fun j lo hi => sample (init_raw seed 0%nat j) lo hi) EmptyRange
               (fun j lo hi H => sample_inverted _ lo hi H)
               (fun j lo hi H => sample_total _ lo hi H) bounds 0%nat Hi).
    reflexivity.
  Qed.
End Skeleton.

(* ---------- greedy replacement: the population minimum is the archive minimum ---------- *)
Lemma select_greedy_old : forall old new, length new = length old ->
  forall o, In o old -> exists p, In p (select greedy old new) /\ fit p <= fit o.
Proof.
  induction old as [|a r IH]; intros [|c t] Hl o Ho; cbn in *; try discriminate; try tauto.
  destruct Ho as [->|Ho].
  - eexists; split; [left; reflexivity|]. unfold greedy. destruct (fit c <? fit o) eqn:E; [apply Z.ltb_lt in E|]; lia.
  - destruct (IH t ltac:(lia) o Ho) as [p [Hp Hle]]. exists p; auto.
Qed.

Lemma select_greedy_new : forall old new, length new = length old ->
  forall c, In c new -> exists p, In p (select greedy old new) /\ fit p <= fit c.
Proof.
  induction old as [|a r IH]; intros [|d t] Hl c Hc; cbn in *; try discriminate; try tauto.
  destruct Hc as [->|Hc].
  - eexists; split; [left; reflexivity|]. unfold greedy. destruct (fit c <? fit a) eqn:E; [|apply Z.ltb_ge in E]; lia.
  - destruct (IH t ltac:(lia) c Hc) as [p [Hp Hle]]. exists p; auto.
Qed.

Section Greedy.
  Variable f : point -> Z.
  Variable bounds : list (Z * Z).
  Variable init_raw : N -> nat -> nat -> Z.
  Variable cand_raw : N -> nat -> nat -> list ind -> nat -> Z.

  Definition ginv (s : state) : Prop :=
    pop s <> [] /\ fit (pop_best s) = fit (arch s) /\ phist s = hist s.

  Lemma pop_best_le : forall s x, In x (pop s) -> fit (pop_best s) <= fit x.
  Proof.
    unfold pop_best. intros s x Hx. destruct (pop s) as [|a r]; [destruct Hx|]. apply best_of_le; exact Hx.
  Qed.

  Lemma greedy_generation : forall seed iter s s',
    ginv s -> generation f bounds cand_raw greedy seed iter s = Ok s' -> ginv s'.
  Proof.
    unfold generation. intros seed iter s s' [Hne [Hfit Hh]].
    destruct (candidates _ _ _ _ _ _) as [cs|q] eqn:E; cbn; [|discriminate].
    intros H; inversion H; subst; clear H.
    destruct (candidates_ok _ _ _ _ _ _ _ E) as [_ Hlen].
    assert (Hne' : select greedy (pop s) cs <> []).
    { intros Hnil. apply (f_equal (@length ind)) in Hnil.
      rewrite (select_length _ _ _ Hlen) in Hnil. destruct (pop s); [congruence | discriminate]. }
    split; [exact Hne'|]. split; [|cbn; rewrite Hh, Hfit; reflexivity].
    set (s' := {| pop := select greedy (pop s) cs; arch := best_of (arch s) cs;
                  hist := hist s ++ [fit (arch s)]; phist := phist s ++ [fit (pop_best s)];
                  evals := evals s ++ cs; hpos := hpos s ++ [length (evals s)] |}).
    change (fit (pop_best s') = fit (best_of (arch s) cs)).
    assert (Hge : fit (best_of (arch s) cs) <= fit (pop_best s')).
    { pose proof (pop_best_in s' Hne') as Hin. cbn in Hin.
      destruct (select_in _ _ _ _ Hin) as [Ho|Hn].
      - pose proof (pop_best_le s _ Ho). pose proof (best_of_le_start cs (arch s)). lia.
      - apply best_of_le. right; exact Hn. }
    assert (Hle : fit (pop_best s') <= fit (best_of (arch s) cs)).
    { destruct (best_of_in cs (arch s)) as [Ha|Hc].
      - rewrite <- Ha, <- Hfit.
        destruct (select_greedy_old _ _ Hlen _ (pop_best_in s Hne)) as [p [Hp Hpl]].
        pose proof (pop_best_le s' p Hp). lia.
      - destruct (select_greedy_new _ _ Hlen _ Hc) as [p [Hp Hpl]].
        pose proof (pop_best_le s' p Hp). lia. }
    lia.
  Qed.

  Lemma greedy_run : forall seed n iters s,
    run f bounds init_raw cand_raw greedy seed n iters = Ok s -> ginv s.
  Proof.
    unfold run, init_state. intros seed n iters s.
    destruct (sequence _) as [p|q]; cbn; [|discriminate].
    destruct p as [|a r]; [discriminate|]. cbn.
    assert (G0 : ginv {| pop := a :: r; arch := best_of a r; hist := []; phist := [];
                         evals := a :: r; hpos := [] |}).
    { split; [discriminate|]. split; reflexivity. }
    revert G0. generalize {| pop := a :: r; arch := best_of a r; hist := []; phist := [];
                             evals := a :: r; hpos := [] |}.
    generalize 0%nat. induction iters as [|t IH]; intros iter s0 G0; cbn.
    - intros H; inversion H; subst; exact G0.
    - destruct (generation _ _ _ _ _ _ _) as [s1|q] eqn:E; cbn; [|discriminate].
      apply IH. eapply greedy_generation; eauto.
  Qed.
End Greedy.

(* ---------- the property theorems (re-exported by props/C34.v) ---------- *)
Theorem in_bounds : forall f bounds init_raw cand_raw accept seed n iters s,
  run f bounds init_raw cand_raw accept seed n iters = Ok s ->
  in_box bounds (vars (arch s)) /\ in_box bounds (vars (pop_best s)) /\
  Forall (fun i => in_box bounds (vars i)) (pop s) /\
  Forall (fun i => in_box bounds (vars i)) (evals s).
Proof.
  intros f bounds ir cr acc seed n iters s H. pose proof (run_inv _ _ _ _ _ _ _ _ _ H) as I.
  pose proof (inv_evals _ _ _ I) as He. pose proof (inv_pop _ _ _ I) as Hp.
  rewrite Forall_forall in He, Hp. repeat split.
  - apply (He _ (inv_arch_in _ _ _ I)).
  - apply (Hp _ (pop_best_in _ (inv_pop_ne _ _ _ I))).
  - apply Forall_forall. intros x Hx. apply (Hp x Hx).
  - apply Forall_forall. intros x Hx. apply (He x Hx).
Qed.

Theorem no_panic_on_proper_box : forall f bounds init_raw cand_raw accept seed n iters,
  proper_box bounds -> (0 < n)%nat ->
  exists s, run f bounds init_raw cand_raw accept seed n iters = Ok s.
Proof. intros. apply run_total; assumption. Qed.

Theorem inverted_box_panics : forall f bounds init_raw cand_raw accept seed n iters,
  inverted_box bounds -> (0 < n)%nat ->
  run f bounds init_raw cand_raw accept seed n iters = Panic EmptyRange.
Proof. intros. apply run_inverted_panics; assumption. Qed.

Theorem best_consistent : forall f bounds init_raw cand_raw accept seed n iters s,
  run f bounds init_raw cand_raw accept seed n iters = Ok s ->
  fit (arch s) = f (vars (arch s)) /\ fit (pop_best s) = f (vars (pop_best s)) /\
  In (arch s) (evals s) /\ In (pop_best s) (evals s).
Proof.
  intros f bounds ir cr acc seed n iters s H. pose proof (run_inv _ _ _ _ _ _ _ _ _ H) as I.
  pose proof (inv_evals _ _ _ I) as He. pose proof (inv_pop _ _ _ I) as Hp.
  rewrite Forall_forall in He, Hp.
  pose proof (pop_best_in _ (inv_pop_ne _ _ _ I)) as Hpb. repeat split.
  - apply (He _ (inv_arch_in _ _ _ I)).
  - apply (Hp _ Hpb).
  - apply (inv_arch_in _ _ _ I).
  - apply (inv_pop_in _ _ _ I). exact Hpb.
Qed.

Definition nonincreasing_list (l : list Z) : Prop := StronglySorted (fun a b => b <= a) l.

Theorem history_monotone : forall f bounds init_raw cand_raw accept seed n iters s,
  run f bounds init_raw cand_raw accept seed n iters = Ok s ->
  nonincreasing_list (hist s) /\ Forall (fun h => fit (arch s) <= h) (hist s).
Proof.
  intros f bounds ir cr acc seed n iters s H. pose proof (run_inv _ _ _ _ _ _ _ _ _ H) as I.
  split; [apply (inv_hist_sorted _ _ _ I) | apply (inv_hist_ge _ _ _ I)].
Qed.

Theorem history_monotone_greedy : forall f bounds init_raw cand_raw seed n iters s,
  run f bounds init_raw cand_raw greedy seed n iters = Ok s ->
  nonincreasing_list (phist s) /\ Forall (fun h => fit (pop_best s) <= h) (phist s) /\
  phist s = hist s /\ fit (pop_best s) = fit (arch s).
Proof.
  intros f bounds ir cr seed n iters s H.
  destruct (greedy_run _ _ _ _ _ _ _ _ H) as [_ [Hfit Hh]].
  destruct (history_monotone _ _ _ _ _ _ _ _ _ H) as [Hs Hg].
  rewrite Hh, Hfit. repeat split; assumption.
Qed.

(* every history entry is the running minimum of the evaluations made before it,
   and the final best is the minimum of all evaluations: the law the
   correspondence check replays on the implementation's evaluation log *)
Theorem hist_is_prefix_min : forall f bounds init_raw cand_raw accept seed n iters s,
  run f bounds init_raw cand_raw accept seed n iters = Ok s ->
  Forall2 (fun h p => (p <= length (evals s))%nat /\ prefix_min (map fit (evals s)) p = Some h)
          (hist s) (hpos s) /\
  pmin (map fit (evals s)) = Some (fit (arch s)).
Proof.
  intros f bounds ir cr acc seed n iters s H. pose proof (run_inv _ _ _ _ _ _ _ _ _ H) as I.
  split; [apply (inv_hist_pos _ _ _ I) | apply arch_is_pmin with (f := f) (bounds := bounds); exact I].
Qed.

(* ---------- scheduling independence ---------- *)
Lemma lookup_fun : forall A (g : nat -> A) i (l : list (nat * A)),
  (forall k a, In (k, a) l -> a = g k) -> (exists a, In (i, a) l) -> lookup i l = Some (g i).
Proof.
  induction l as [|[k a] l IH]; intros Hf [b Hb]; [destruct Hb|]. cbn.
  destruct (Nat.eqb k i) eqn:E.
  - apply Nat.eqb_eq in E. subst. f_equal. apply Hf. left; reflexivity.
  - apply IH.
    + intros k' a' H'. apply Hf. right; exact H'.
    + destruct Hb as [Hb|Hb]; [inversion Hb; subst; rewrite Nat.eqb_refl in E; discriminate|].
      exists b; exact Hb.
Qed.

Lemma par_results_spec : forall A (g : nat -> A) parts k a,
  In (k, a) (par_results g parts) <-> In k (concat parts) /\ a = g k.
Proof.
  intros A g parts k a. unfold par_results. rewrite in_flat_map. split.
  - intros [part [Hp Hin]]. apply in_map_iff in Hin. destruct Hin as [i [Hi Hin]].
    inversion Hi; subst. split; [|reflexivity]. apply in_concat. exists part; auto.
  - intros [Hk ->]. apply in_concat in Hk. destruct Hk as [part [Hp Hin]].
    exists part. split; [exact Hp|]. apply in_map_iff. exists k; auto.
Qed.

Theorem assemble_any_schedule : forall A (g : nat -> A) (parts : list (list nat)) idxs,
  (forall i, In i idxs -> In i (concat parts)) ->
  assemble idxs (par_results g parts) = Some (map g idxs).
Proof.
  intros A g parts. induction idxs as [|i r IH]; intros Hc; cbn; [reflexivity|].
  rewrite (lookup_fun A g i).
  - rewrite IH; [reflexivity|]. intros k Hk. apply Hc. right; exact Hk.
  - intros k a H. apply par_results_spec in H. tauto.
  - exists (g i). apply par_results_spec. split; [apply Hc; left; reflexivity | reflexivity].
Qed.

Theorem sched_independent : forall f bounds cand_raw parts seed iter prev,
  (forall i, (i < length prev)%nat -> In i (concat parts)) ->
  candidates_sched f bounds cand_raw parts seed iter prev = candidates f bounds cand_raw seed iter prev.
Proof.
  intros f bounds cr parts seed iter prev Hc. unfold candidates_sched, candidates.
  rewrite assemble_any_schedule; [reflexivity|].
  intros i Hi. apply in_seq in Hi. apply Hc. lia.
Qed.

(* ---------- Pareto ---------- *)
Lemma pareto_asym : forall a b s, pareto a b false = true -> pareto b a s = false.
Proof.
  induction a as [|x a IH]; intros [|y b] s; cbn; try discriminate.
  destruct (y <? x) eqn:E1; [discriminate|]. apply Z.ltb_ge in E1.
  destruct (x <? y) eqn:E2; [reflexivity|]. apply Z.ltb_ge in E2.
  cbn. intros H. apply IH; exact H.
Qed.

Lemma dominates_asym : forall a b, dominates a b = true -> dominates b a = false.
Proof.
  intros [f1 v1] [f2 v2]. unfold dominates.
  destruct (v1 =? 0) eqn:A1; destruct (0 <? v2) eqn:A2; destruct (0 <? v1) eqn:A3;
    destruct (v2 =? 0) eqn:A4; cbn;
    try rewrite Z.eqb_eq in *; try rewrite Z.eqb_neq in *;
    try rewrite Z.ltb_lt in *; try rewrite Z.ltb_ge in *; try lia; try discriminate; try reflexivity;
    try (intros H; apply pareto_asym; exact H).
Qed.

Lemma dominates_irrefl : forall a, dominates a a = false.
Proof.
  intros a. destruct (dominates a a) eqn:E; [|reflexivity].
  pose proof (dominates_asym _ _ E). congruence.
Qed.

Theorem front_spec : forall l x,
  In x (front l) <-> In x l /\ (forall y, In y l -> dominates y x = false).
Proof.
  intros l x. unfold front, nondominated. rewrite filter_In, negb_true_iff. split.
  - intros [Hin He]. split; [exact Hin|]. intros y Hy.
    destruct (dominates y x) eqn:E; [|reflexivity].
    assert (existsb (fun y => dominates y x) l = true) by (apply existsb_exists; eauto). congruence.
  - intros [Hin Hn]. split; [exact Hin|].
    destruct (existsb (fun y => dominates y x) l) eqn:E; [|reflexivity].
    apply existsb_exists in E. destruct E as [y [Hy Hd]]. rewrite (Hn y Hy) in Hd. discriminate.
Qed.

Lemma dom_count_zero : forall x i l j,
  dom_count x i j l = 0%nat <->
  (forall k y, nth_error l k = Some y -> (j + k)%nat <> i -> dominates y x = false).
Proof.
  intros x i. induction l as [|y r IH]; intros j; cbn [dom_count].
  - split; [intros _ [|k] y H; discriminate | reflexivity].
  - split.
    + intros H. apply Nat.eq_add_0 in H. destruct H as [H0 Hr].
      intros [|k] z Hz Hne; cbn in Hz.
      * inversion Hz; subst. destruct (Nat.eqb i j) eqn:E; [apply Nat.eqb_eq in E; lia|].
        destruct (dominates x z) eqn:D1; [apply dominates_asym; exact D1|].
        destruct (dominates z x); [discriminate | reflexivity].
      * apply (proj1 (IH (S j)) Hr k z Hz). lia.
    + intros H. apply Nat.eq_add_0. split.
      * destruct (Nat.eqb i j) eqn:E; [reflexivity|]. apply Nat.eqb_neq in E.
        destruct (dominates x y); [reflexivity|].
        rewrite (H 0%nat y eq_refl); [reflexivity | lia].
      * apply IH. intros k z Hz Hne. apply (H (S k) z Hz). lia.
Qed.

Lemma fnds_go_spec : forall all pre l, all = pre ++ l ->
  fnds_go all (length pre) l = filter (nondominated all) l.
Proof.
  intros all pre l; revert pre. induction l as [|x r IH]; intros pre Hall; cbn; [reflexivity|].
  assert (Hr : fnds_go all (S (length pre)) r = filter (nondominated all) r).
  { specialize (IH (pre ++ [x])). rewrite app_length in IH. cbn in IH.
    replace (length pre + 1)%nat with (S (length pre)) in IH by lia.
    apply IH. rewrite <- app_assoc. exact Hall. }
  rewrite Hr.
  assert (Heq : Nat.eqb (dom_count x (length pre) 0 all) 0 = nondominated all x).
  { unfold nondominated. destruct (existsb (fun y => dominates y x) all) eqn:E; cbn.
    - apply Nat.eqb_neq. intros H0. rewrite dom_count_zero in H0.
      apply existsb_exists in E. destruct E as [y [Hy Hd]].
      apply In_nth_error in Hy. destruct Hy as [k Hk].
      destruct (Nat.eq_dec k (length pre)) as [->|Hne].
      + rewrite Hall, nth_error_app2, Nat.sub_diag in Hk by lia. cbn in Hk. inversion Hk; subst.
        rewrite dominates_irrefl in Hd. discriminate.
      + rewrite (H0 k y Hk) in Hd; [discriminate | cbn; exact Hne].
    - apply Nat.eqb_eq. apply dom_count_zero. intros k y Hk _.
      destruct (dominates y x) eqn:D; [|reflexivity].
      assert (existsb (fun y => dominates y x) all = true).
      { apply existsb_exists. exists y. split; [eapply nth_error_In; exact Hk | exact D]. }
      congruence. }
  rewrite Heq. reflexivity.
Qed.

Theorem fnds_front_is_front : forall l, fnds_front l = front l.
Proof. intros l. unfold fnds_front, front. apply (fnds_go_spec l [] l). reflexivity. Qed.

Theorem front_nondominated : forall l,
  (forall x y, In x (front l) -> In y (front l) -> dominates y x = false) /\
  (forall x, In x l -> (forall y, In y l -> dominates y x = false) -> In x (front l)) /\
  (forall x, In x (front l) -> In x l) /\
  fnds_front l = front l.
Proof.
  intros l. repeat split.
  - intros x y Hx Hy. apply front_spec in Hx. apply front_spec in Hy.
    apply (proj2 Hx). apply (proj1 Hy).
  - intros x Hx Hn. apply front_spec. auto.
  - intros x Hx. apply front_spec in Hx. tauto.
  - apply fnds_front_is_front.
Qed.

(* ---------- what the skeleton theorems give for anything that refines the skeleton ---------- *)
(* observable semantics of a solver: objective, box, seed, population size,
   iterations, worker threads  |->  panic or (best variables, best fitness, history) *)
Definition solver_sem :=
  (point -> Z) -> list (Z * Z) -> N -> nat -> nat -> nat -> outcome (point * Z * list Z).

Definition result_of (o : outcome state) : outcome (point * Z * list Z) :=
  match o with Ok s => Ok (archive_result s) | Panic p => Panic p end.

(* "is an instance of the skeleton": some oracle and replacement policy reproduce it *)
Definition refines_skeleton (solve : solver_sem) : Prop :=
  exists init_raw cand_raw accept, forall f bounds seed n iters threads,
    solve f bounds seed n iters threads =
    result_of (run f bounds init_raw cand_raw accept seed n iters).

Definition solver_property (solve : solver_sem) : Prop :=
  forall f bounds seed n iters threads, proper_box bounds -> (0 < n)%nat ->
  exists x b h, solve f bounds seed n iters threads = Ok (x, b, h) /\
    in_box bounds x /\ b = f x /\ nonincreasing_list h /\ Forall (fun v => b <= v) h /\
    forall threads', solve f bounds seed n iters threads' = solve f bounds seed n iters threads.

Theorem skeleton_instances : forall solve, refines_skeleton solve -> solver_property solve.
Proof.
  intros solve [ir [cr [acc Hr]]] f bounds seed n iters threads Hp Hn.
  destruct (run_total f bounds ir cr acc Hp seed n iters Hn) as [s Hs].
  exists (vars (arch s)), (fit (arch s)), (hist s).
  rewrite Hr, Hs. cbn. split; [reflexivity|].
  destruct (in_bounds _ _ _ _ _ _ _ _ _ Hs) as [Hb _].
  destruct (best_consistent _ _ _ _ _ _ _ _ _ Hs) as [Hc _].
  destruct (history_monotone _ _ _ _ _ _ _ _ _ Hs) as [Hm Hg].
  repeat split; try assumption.
  intros t'. rewrite Hr, Hs. reflexivity.
Qed.

Theorem in_bounds_total : forall f bounds init_raw cand_raw accept seed n iters,
  proper_box bounds -> (0 < n)%nat ->
  exists s, run f bounds init_raw cand_raw accept seed n iters = Ok s /\
    in_box bounds (vars (arch s)) /\ in_box bounds (vars (pop_best s)) /\
    Forall (fun i => in_box bounds (vars i)) (pop s) /\
    Forall (fun i => in_box bounds (vars i)) (evals s).
Proof.
  intros f bounds ir cr acc seed n iters Hp Hn.
  destruct (run_total f bounds ir cr acc Hp seed n iters Hn) as [s Hs].
  exists s. split; [exact Hs | eapply in_bounds; exact Hs].
Qed.
