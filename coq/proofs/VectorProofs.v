(* Proofs for C29 (vector search): coq/model/Vector.v.
   The distance oracle [dist] and its order [leb] are Section variables; the only
   laws used are that [leb] is a total preorder (total, transitive). *)
From Coq Require Import List NArith Bool Lia Permutation Sorted.
From Verif Require Import Vector.
Import ListNotations.
Open Scope N_scope.

(* ---------- association lists ---------- *)
Section Assoc.
Context {A : Type}.
Implicit Types (l : list (N * A)).

Lemma aget_In : forall l id x, aget id l = Some x -> In (id, x) l.
Proof.
  induction l as [|[k y] r IH]; cbn; intros id x H; [discriminate|].
  destruct (N.eqb_spec k id) as [->|Hne].
  - inversion H; subst; auto.
  - right; auto.
Qed.

Lemma In_aget : forall l id x, NoDup (map fst l) -> In (id, x) l -> aget id l = Some x.
Proof.
  induction l as [|[k y] r IH]; cbn; intros id x Hnd Hin; [contradiction|].
  inversion Hnd as [|? ? Hni Hnd']; subst.
  destruct Hin as [E|Hin].
  - inversion E; subst. rewrite N.eqb_refl. reflexivity.
  - destruct (N.eqb_spec k id) as [->|Hne]; [|auto].
    exfalso. apply Hni. apply in_map_iff. exists (id, x); auto.
Qed.

Lemma aget_None : forall l id, aget id l = None -> ~ In id (map fst l).
Proof.
  induction l as [|[k y] r IH]; cbn; intros id H; [tauto|].
  destruct (N.eqb_spec k id) as [->|Hne]; [discriminate|].
  intros [E|Hin]; [congruence|]. eapply IH; eauto.
Qed.

Lemma aset_keys : forall l id x, map fst (aset id x l) = map fst l.
Proof.
  induction l as [|[k y] r IH]; cbn; intros id x; [reflexivity|].
  destruct (N.eqb_spec k id) as [->|Hne]; cbn; [reflexivity|]. rewrite IH. reflexivity.
Qed.

Lemma aset_In : forall l id x i y, NoDup (map fst l) ->
  (In (i, y) (aset id x l) <->
   (i = id /\ y = x /\ In id (map fst l)) \/ (i <> id /\ In (i, y) l)).
Proof.
  induction l as [|[k z] r IH]; cbn; intros id x i y Hnd.
  - tauto.
  - inversion Hnd as [|? ? Hni Hnd']; subst.
    destruct (N.eqb_spec k id) as [->|Hne]; cbn.
    + split.
      * intros [E|Hin]; [inversion E; subst; left; auto|].
        right. split; [|auto]. intros ->. apply Hni. apply in_map_iff. exists (id, y); auto.
      * intros [(-> & -> & _)|(Hne & [E|Hin])]; [left; reflexivity| |right; auto].
        inversion E; subst. congruence.
    + rewrite (IH id x i y Hnd'). split.
      * intros [E|[(-> & -> & Hin)|(Hn & Hin)]].
        -- inversion E; subst. right. split; [congruence|auto].
        -- left; auto.
        -- right; auto.
      * intros [(-> & -> & [E|Hin])|(Hn & [E|Hin])]; [congruence| | |]; auto.
Qed.
End Assoc.

Lemma in_keys {A} (l : list (N * A)) id x : In (id, x) l -> In id (map fst l).
Proof. intros H. apply in_map_iff. exists (id, x); auto. Qed.

Lemma keys_in {A} (l : list (N * A)) id : In id (map fst l) -> exists x, In (id, x) l.
Proof. intros H. apply in_map_iff in H as ([k x] & E & Hin). cbn in E; subst. eauto. Qed.

Lemma NoDup_snoc {A} : forall (ks : list A) x, NoDup ks -> ~ In x ks -> NoDup (ks ++ [x]).
Proof.
  induction ks as [|k ks IH]; cbn; intros x Hnd Hni.
  - constructor; [tauto|constructor].
  - inversion Hnd; subst. constructor.
    + rewrite in_app_iff. cbn. intros [H|[H|[]]]; [auto|]. subst. apply Hni. left; auto.
    + apply IH; auto.
Qed.

Lemma NoDup_firstn {A} : forall n (l : list A), NoDup l -> NoDup (firstn n l).
Proof.
  induction n as [|n IH]; intros [|x l] H; cbn; try constructor.
  - inversion H; subst. intros Hin. apply H2. rewrite <- (firstn_skipn n l). apply in_or_app; auto.
  - inversion H; subst; auto.
Qed.

Lemma In_firstn {A} : forall n (l : list A) x, In x (firstn n l) -> In x l.
Proof. intros n l x H. rewrite <- (firstn_skipn n l). apply in_or_app; auto. Qed.

Lemma sorted_firstn_skipn {A} (R : A -> A -> Prop) :
  forall n l, StronglySorted R l -> forall a b, In a (firstn n l) -> In b (skipn n l) -> R a b.
Proof.
  induction n as [|n IH]; intros [|x l] Hs a b Ha Hb; cbn in *; try contradiction.
  apply StronglySorted_inv in Hs as [Hs Hall].
  destruct Ha as [->|Ha].
  - rewrite Forall_forall in Hall. apply Hall. rewrite <- (firstn_skipn n l). apply in_or_app; auto.
  - eapply IH; eauto.
Qed.

Lemma sorted_firstn {A} (R : A -> A -> Prop) :
  forall n l, StronglySorted R l -> StronglySorted R (firstn n l).
Proof.
  induction n as [|n IH]; intros [|x l] Hs; cbn; try constructor.
  - apply StronglySorted_inv in Hs as [Hs _]; auto.
  - apply StronglySorted_inv in Hs as [_ Hall]. rewrite Forall_forall in *.
    intros y Hy. apply Hall. eapply In_firstn; eauto.
Qed.

Section Proofs.
Variable V : Type.
Variable D : Type.
Variable okdim : V -> bool.
Variable dist : V -> V -> option D.
Variable leb : D -> D -> bool.
Variable ann : list (N * V) -> V -> N -> list N.
Hypothesis leb_total : forall a b, leb a b = true \/ leb b a = true.
Hypothesis leb_trans : forall a b c, leb a b = true -> leb b c = true -> leb a c = true.

Notation index := (list (N * V)).
Notation scored := (scored V D dist).
Notation sort := (sort D leb).
Notation insert := (insert D leb).
Notation search := (search V D okdim dist leb ann).
Notation step := (step V D okdim dist leb ann).
Notation run := (run V D okdim dist leb ann).
Notation idx_add := (idx_add V okdim).
Notation swap_remove := (swap_remove V).

Definition le2 (a b : N * D) : Prop := leb (snd a) (snd b) = true.

(* ---------- stable insertion sort ---------- *)
Lemma insert_perm : forall x l, Permutation (insert x l) (x :: l).
Proof.
  intros x l; induction l as [|y r IH]; cbn; [reflexivity|].
  destruct (leb (snd x) (snd y)); [reflexivity|].
  rewrite IH. apply perm_swap.
Qed.

Lemma sort_perm : forall l, Permutation (sort l) l.
Proof.
  induction l as [|x r IH]; cbn; [reflexivity|].
  rewrite insert_perm. constructor. exact IH.
Qed.

Lemma insert_sorted : forall x l, StronglySorted le2 l -> StronglySorted le2 (insert x l).
Proof.
  intros x l; induction l as [|y r IH]; cbn; intros Hs.
  - constructor; constructor.
  - destruct (leb (snd x) (snd y)) eqn:E.
    + constructor; [exact Hs|]. constructor; [exact E|].
      apply StronglySorted_inv in Hs as [_ Hall]. rewrite Forall_forall in *.
      intros z Hz. unfold le2. eapply leb_trans; [exact E|]. apply Hall; auto.
    + apply StronglySorted_inv in Hs as [Hs Hall]. constructor; [auto|].
      rewrite Forall_forall in *. intros z Hz.
      apply (Permutation_in _ (insert_perm x r)) in Hz. destruct Hz as [<-|Hz]; [|auto].
      unfold le2. destruct (leb_total (snd x) (snd y)); congruence.
Qed.

Lemma sort_sorted : forall l, StronglySorted le2 (sort l).
Proof. induction l as [|x r IH]; cbn; [constructor|]. apply insert_sorted; auto. Qed.

(* ---------- the scored list ---------- *)
Lemma scored_In : forall q (l : index) id d,
  In (id, d) (scored q l) <-> exists v, In (id, v) l /\ dist q v = Some d.
Proof.
  intros q l id d. unfold Vector.scored. rewrite in_flat_map. split.
  - intros ([i v] & Hin & Hs). unfold score1 in Hs; cbn in Hs.
    destruct (dist q v) eqn:E; cbn in Hs; [|contradiction].
    destruct Hs as [Hs|[]]. inversion Hs; subst. eauto.
  - intros (v & Hin & E). exists (id, v). split; [auto|]. unfold score1; cbn. rewrite E. left; auto.
Qed.

Lemma scored_keys_In : forall q (l : index) id, In id (map fst (scored q l)) -> In id (map fst l).
Proof.
  intros q l id H. apply keys_in in H as (d & H). apply scored_In in H as (v & Hin & _).
  eapply in_keys; eauto.
Qed.

Lemma scored_nodup : forall q (l : index), NoDup (map fst l) -> NoDup (map fst (scored q l)).
Proof.
  intros q l; induction l as [|[i v] r IH]; cbn; intros Hnd; [constructor|].
  inversion Hnd as [|? ? Hni Hnd']; subst.
  unfold score1; cbn. destruct (dist q v); cbn; [|auto].
  constructor; [|auto]. intros Hin. apply Hni. eapply scored_keys_In; eauto.
Qed.

Lemma scored_length : forall q (l : index), (length (scored q l) <= length l)%nat.
Proof.
  intros q l; induction l as [|[i v] r IH]; [cbn; lia|].
  unfold Vector.scored in *. cbn [flat_map]. rewrite app_length.
  unfold score1 at 1; cbn [snd fst]. destruct (dist q v); cbn [length]; lia.
Qed.

(* ---------- index operations ---------- *)
Lemma has_iff : forall (l : index) id, has V id l = true <-> In id (map fst l).
Proof.
  intros l id. unfold has. rewrite existsb_exists. split.
  - intros ([k v] & Hin & E). cbn in E. apply N.eqb_eq in E; subst. eapply in_keys; eauto.
  - intros H. apply keys_in in H as (v & H). exists (id, v). split; [auto|]. cbn. apply N.eqb_refl.
Qed.

Lemma last_removelast_perm {A} : forall (r : list A) d, r <> [] -> Permutation (last r d :: removelast r) r.
Proof.
  intros r d Hne. rewrite (app_removelast_last d Hne) at 3.
  apply Permutation_cons_append.
Qed.

Lemma swap_remove_perm : forall (l : index) id, NoDup (map fst l) ->
  Permutation (swap_remove id l) (filter (fun e => negb (N.eqb (fst e) id)) l).
Proof.
  induction l as [|[k v] r IH]; intros id Hnd; cbn; [reflexivity|].
  inversion Hnd as [|? ? Hni Hnd']; subst.
  destruct (N.eqb_spec k id) as [->|Hne]; cbn.
  - assert (Hf : filter (fun e => negb (N.eqb (fst e) id)) r = r).
    { clear IH Hnd Hnd'. induction r as [|[k' v'] r' IHr]; cbn; [reflexivity|].
      destruct (N.eqb_spec k' id) as [->|Hn]; cbn.
      - exfalso. apply Hni. left; reflexivity.
      - rewrite IHr; [reflexivity|]. intros H. apply Hni. right; exact H. }
    rewrite Hf. destruct r as [|e r']; [reflexivity|].
    apply last_removelast_perm. discriminate.
  - constructor. apply IH; auto.
Qed.

Lemma swap_remove_In : forall (l : index) id i w, NoDup (map fst l) ->
  (In (i, w) (swap_remove id l) <-> i <> id /\ In (i, w) l).
Proof.
  intros l id i w Hnd. pose proof (swap_remove_perm l id Hnd) as P. split.
  - intros H. apply (Permutation_in _ P) in H. apply filter_In in H as [Hin E]. cbn in E.
    split; [|auto]. intros ->. rewrite N.eqb_refl in E. discriminate.
  - intros [Hne Hin]. apply (Permutation_in _ (Permutation_sym P)). apply filter_In. split; [auto|].
    cbn. destruct (N.eqb_spec i id); [contradiction|reflexivity].
Qed.

Lemma filter_keys_nodup {A} : forall (f : N * A -> bool) (l : list (N * A)),
  NoDup (map fst l) -> NoDup (map fst (filter f l)).
Proof.
  intros f l; induction l as [|[k v] r IH]; cbn; intros Hnd; [constructor|].
  inversion Hnd as [|? ? Hni Hnd']; subst.
  destruct (f (k, v)); cbn; [|auto]. constructor; [|auto].
  intros Hin. apply Hni. apply in_map_iff in Hin as ([k' v'] & E & Hin). cbn in E; subst.
  apply filter_In in Hin as [Hin _]. eapply in_keys; eauto.
Qed.

Lemma swap_remove_nodup : forall (l : index) id, NoDup (map fst l) -> NoDup (map fst (swap_remove id l)).
Proof.
  intros l id Hnd. eapply Permutation_NoDup.
  - apply Permutation_map. apply Permutation_sym. apply swap_remove_perm; auto.
  - apply filter_keys_nodup; auto.
Qed.

Lemma idx_add_In : forall (l : index) id v i w, NoDup (map fst l) ->
  (In (i, w) (idx_add l id v) <->
   (okdim v = true /\ i = id /\ w = v) \/ (i <> id /\ In (i, w) l)).
Proof.
  intros l id v i w Hnd. unfold Vector.idx_add. destruct (okdim v) eqn:Eo.
  - destruct (has V id l) eqn:Eh.
    + unfold replace. rewrite (aset_In l id v i w Hnd). apply has_iff in Eh. tauto.
    + assert (Hni : ~ In id (map fst l)) by (rewrite <- has_iff; congruence).
      rewrite in_app_iff. cbn. split.
      * intros [Hin|[E|[]]].
        -- right. split; [|auto]. intros ->. apply Hni. eapply in_keys; eauto.
        -- inversion E; subst. left; auto.
      * intros [(_ & -> & ->)|(_ & Hin)]; auto.
  - rewrite (swap_remove_In l id i w Hnd). split; [tauto|]. intros [(E & _)|H]; [discriminate|auto].
Qed.

Lemma idx_add_nodup : forall (l : index) id v, NoDup (map fst l) -> NoDup (map fst (idx_add l id v)).
Proof.
  intros l id v Hnd. unfold Vector.idx_add. destruct (okdim v).
  - destruct (has V id l) eqn:Eh.
    + unfold replace. rewrite aset_keys. auto.
    + rewrite map_app. change (map fst [(id, v)]) with [id]. apply NoDup_snoc; [auto|].
      rewrite <- has_iff; congruence.
  - apply swap_remove_nodup; auto.
Qed.

(* ---------- search ---------- *)
(* (id, d) is an entry of the index together with its distance to the query *)
Definition rel (q : V) (l : index) (id : N) (d : D) : Prop :=
  exists v, In (id, v) l /\ dist q v = Some d.

Lemma topk_ok : forall q (l : index) (c : list (N * D)) n,
  (forall id d, In (id, d) c -> rel q l id d) -> NoDup (map fst c) ->
  (forall id d, In (id, d) (firstn n (sort c)) -> rel q l id d) /\
  NoDup (map fst (firstn n (sort c))) /\ StronglySorted le2 (firstn n (sort c)).
Proof.
  intros q l c n Hrel Hnd. split; [|split].
  - intros id d H. apply In_firstn in H. apply (Permutation_in _ (sort_perm c)) in H. auto.
  - rewrite <- firstn_map. apply NoDup_firstn. eapply Permutation_NoDup; [|exact Hnd].
    apply Permutation_map. apply Permutation_sym. apply sort_perm.
  - apply sorted_firstn. apply sort_sorted.
Qed.

Lemma dedup_In : forall c seen x, In x (dedup seen c) -> memN x seen = false /\ In x c.
Proof.
  induction c as [|y r IH]; cbn; intros seen x H; [contradiction|].
  destruct (memN y seen) eqn:E.
  - apply IH in H as [H1 H2]. auto.
  - destruct H as [<-|H]; [auto|]. apply IH in H as [H1 H2]. split; [|auto].
    cbn in H1. apply orb_false_iff in H1 as [_ H1]. exact H1.
Qed.

Lemma dedup_nodup : forall c seen, NoDup (dedup seen c).
Proof.
  induction c as [|y r IH]; cbn; intros seen; [constructor|].
  destruct (memN y seen); [auto|]. constructor; [|auto].
  intros H. apply dedup_In in H as [H _]. cbn in H. rewrite N.eqb_refl in H. discriminate.
Qed.

Lemma flat_map_keys_nodup : forall (f : N -> list (N * D)) ids,
  (forall i p, In p (f i) -> fst p = i) -> (forall i, (length (f i) <= 1)%nat) ->
  NoDup ids -> NoDup (map fst (flat_map f ids)).
Proof.
  intros f ids Hf Hl; induction ids as [|a ids IH]; cbn; intros Hnd; [constructor|].
  inversion Hnd as [|? ? Hni Hnd']; subst. rewrite map_app.
  pose proof (Hf a) as Hfa. pose proof (Hl a) as Hla.
  destruct (f a) as [|p [|p' t]]; cbn in *; [auto| |lia].
  constructor; [|auto]. intros Hin.
  apply in_map_iff in Hin as (p2 & E & Hin). apply in_flat_map in Hin as (j & Hj & Hp2).
  apply Hf in Hp2. pose proof (Hfa p (or_introl eq_refl)) as Hp.
  assert (Hja : j = a) by congruence. apply Hni. rewrite <- Hja. exact Hj.
Qed.

Lemma rescored_rel : forall q (l : index) c id d,
  In (id, d) (rescored V D dist l q c) -> rel q l id d.
Proof.
  intros q l c id d H. unfold rescored in H. apply in_flat_map in H as (i & Hi & H).
  unfold lookup in H. destruct (aget i l) as [v|] eqn:E; [|contradiction].
  unfold score1 in H; cbn in H. destruct (dist q v) eqn:Ed; [|contradiction].
  destruct H as [H|[]]. inversion H; subst. exists v. split; [apply aget_In; auto|auto].
Qed.

Lemma rescored_nodup : forall q (l : index) c, NoDup (map fst (rescored V D dist l q c)).
Proof.
  intros q l c. unfold rescored. apply flat_map_keys_nodup.
  - intros i p H. unfold lookup in H. destruct (aget i l) as [v|]; [|contradiction].
    unfold score1 in H; cbn in H. destruct (dist q v); [|contradiction].
    destruct H as [<-|[]]. reflexivity.
  - intros i. unfold lookup. destruct (aget i l) as [v|]; [|cbn; lia].
    unfold score1; cbn. destruct (dist q v); cbn; lia.
  - apply dedup_nodup.
Qed.

Ltac dif H := match type of H with (if ?c then _ else _) = _ => destruct c eqn:? end.

Lemma search_sound : forall (l : index) q k r, NoDup (map fst l) -> search l q k = Some r ->
  (forall id d, In (id, d) r -> rel q l id d) /\ NoDup (map fst r) /\ StronglySorted le2 r.
Proof.
  intros l q k r Hnd H. unfold Vector.search, exact in H. cbv zeta in H.
  assert (Hex : forall n, (forall id d, In (id, d) (firstn n (sort (scored q l))) -> rel q l id d) /\
     NoDup (map fst (firstn n (sort (scored q l)))) /\ StronglySorted le2 (firstn n (sort (scored q l)))).
  { intros n. apply topk_ok; [|apply scored_nodup; auto]. intros id d Hin. apply scored_In; auto. }
  dif H; [discriminate|].
  dif H.
  { injection H as <-. split; [intros ? ? Hin; cbn in Hin; contradiction|split; constructor]. }
  dif H.
  { injection H as <-. apply Hex. }
  dif H; injection H as <-.
  - apply Hex.
  - apply topk_ok; [|apply rescored_nodup]. intros id d Hin. eapply rescored_rel; eauto.
Qed.

Lemma search_small : forall (l : index) q k r, N.leb (nlen l) 128 = true -> search l q k = Some r ->
  r = firstn (N.to_nat (N.min k (nlen l))) (sort (scored q l)).
Proof.
  intros l q k r Hs H. unfold Vector.search, exact in H. cbv zeta in H.
  dif H; [discriminate|].
  dif H.
  - destruct l as [|e l']; [|cbn in *; discriminate].
    injection H as <-. cbn. destruct (N.to_nat _); reflexivity.
  - dif H; [injection H as <-; reflexivity|]. exfalso.
    apply N.leb_le in Hs. rewrite N.leb_gt in *. unfold nlen in *.
    match goal with E : 128 < _ |- _ => exact (N.lt_irrefl _ (N.lt_le_trans _ _ _ E Hs)) end.
Qed.

Lemma search_exact_k : forall (l : index) q k r, NoDup (map fst l) ->
  N.leb (nlen l) 128 = true -> search l q k = Some r ->
  length r = Nat.min (N.to_nat k) (length (scored q l)) /\
  (forall id d id' d', In (id, d) r -> rel q l id' d' -> ~ In id' (map fst r) -> leb d d' = true).
Proof.
  intros l q k r Hnd Hs H. apply search_small in H; [|auto]. subst r. split.
  - rewrite firstn_length. rewrite (Permutation_length (sort_perm (scored q l))).
    pose proof (scored_length q l). unfold nlen. rewrite N2Nat.inj_min, Nat2N.id. lia.
  - intros id d id' d' Hin Hrel Hni.
    set (m := N.to_nat (N.min k (nlen l))) in *. set (S := sort (scored q l)) in *.
    assert (Hin' : In (id', d') S).
    { apply (Permutation_in _ (Permutation_sym (sort_perm _))). apply scored_In. exact Hrel. }
    rewrite <- (firstn_skipn m S) in Hin'. apply in_app_or in Hin' as [Hf|Hsk].
    + exfalso. apply Hni. eapply in_keys; eauto.
    + apply (sorted_firstn_skipn le2 m S (sort_sorted _) (id, d) (id', d') Hin Hsk).
Qed.

(* ---------- the store-side state machine ---------- *)
Definition elig (nd : node V) (v : V) : Prop :=
  nlabel nd = true /\ nprop nd = Some (PVec v) /\ okdim v = true.

Record Inv (s : state V) : Prop := {
  inv_nodes : NoDup (map fst (nodes s));
  inv_fresh : forall id, In id (map fst (nodes s)) -> id < next s /\ ~ In id (free s);
  inv_free : NoDup (free s);
  inv_free_lt : forall id, In id (free s) -> id < next s;
  inv_idx_nodup : NoDup (map fst (idx s));
  inv_idx : forall id v, In (id, v) (idx s) <-> exists nd, In (id, nd) (nodes s) /\ elig nd v }.

Lemma inv_idx_upd : forall (Nn Nn' : list (N * node V)) (I I' : index) id nd',
  (forall i x, In (i, x) Nn' <-> (i = id /\ x = nd') \/ (i <> id /\ In (i, x) Nn)) ->
  (forall i w, In (i, w) I <-> exists nd, In (i, nd) Nn /\ elig nd w) ->
  (forall i w, In (i, w) I' <-> (i = id /\ elig nd' w) \/ (i <> id /\ In (i, w) I)) ->
  forall i w, In (i, w) I' <-> exists nd, In (i, nd) Nn' /\ elig nd w.
Proof.
  intros Nn Nn' I I' id nd' HN HI HI' i w. rewrite HI'. split.
  - intros [(-> & He)|(Hne & Hin)].
    + exists nd'. split; [apply HN; left; auto|auto].
    + apply HI in Hin as (nd & Hin & He). exists nd. split; [apply HN; right; auto|auto].
  - intros (nd & Hin & He). apply HN in Hin as [(-> & ->)|(Hne & Hin)]; [left; auto|].
    right. split; [auto|]. apply HI. eauto.
Qed.

Lemma upd_add : forall (I : index) id v nd', NoDup (map fst I) ->
  (forall w, elig nd' w <-> (w = v /\ okdim v = true)) ->
  forall i w, In (i, w) (idx_add I id v) <-> (i = id /\ elig nd' w) \/ (i <> id /\ In (i, w) I).
Proof. intros I id v nd' Hnd He i w. rewrite idx_add_In by auto. rewrite He. tauto. Qed.

Lemma upd_remove : forall (I : index) id nd', NoDup (map fst I) -> (forall w, ~ elig nd' w) ->
  forall i w, In (i, w) (swap_remove id I) <-> (i = id /\ elig nd' w) \/ (i <> id /\ In (i, w) I).
Proof. intros I id nd' Hnd He i w. rewrite swap_remove_In by auto. specialize (He w). tauto. Qed.

Lemma upd_same : forall (I : index) id nd', (forall w, ~ In (id, w) I) -> (forall w, ~ elig nd' w) ->
  forall i w, In (i, w) I <-> (i = id /\ elig nd' w) \/ (i <> id /\ In (i, w) I).
Proof.
  intros I id nd' Hno He i w. specialize (He w). split; [|tauto].
  intros Hin. right. split; [|auto]. intros ->. eapply Hno; eauto.
Qed.

Lemma no_entry : forall s id, Inv s ->
  (forall nd, In (id, nd) (nodes s) -> forall w, ~ elig nd w) -> forall w, ~ In (id, w) (idx s).
Proof.
  intros s id HI Hn w Hin. apply (inv_idx s HI) in Hin as (nd & Hin & He). eapply Hn; eauto.
Qed.

Lemma live_unique : forall s id nd nd', Inv s -> get V id (nodes s) = Some nd ->
  In (id, nd') (nodes s) -> nd' = nd.
Proof.
  intros s id nd nd' HI Hg Hin. unfold get in Hg.
  rewrite (In_aget _ _ _ (inv_nodes s HI) Hin) in Hg. congruence.
Qed.

Lemma inv_set : forall s id nd nd' (I' : index),
  Inv s -> get V id (nodes s) = Some nd -> NoDup (map fst I') ->
  (forall i w, In (i, w) I' <-> (i = id /\ elig nd' w) \/ (i <> id /\ In (i, w) (idx s))) ->
  Inv {| nodes := set V id nd' (nodes s); free := free s; next := next s; idx := I' |}.
Proof.
  intros s id nd nd' I' HI Hg Hnd HI'. unfold set.
  constructor; cbn [nodes free next idx].
  - rewrite aset_keys. apply (inv_nodes s HI).
  - rewrite aset_keys. apply (inv_fresh s HI).
  - apply (inv_free s HI).
  - apply (inv_free_lt s HI).
  - exact Hnd.
  - apply (inv_idx_upd (nodes s) _ (idx s) I' id nd'); [|apply (inv_idx s HI)|exact HI'].
    intros i x. rewrite (aset_In _ id nd' i x (inv_nodes s HI)).
    assert (In id (map fst (nodes s))) by (eapply in_keys; apply aget_In; exact Hg). tauto.
Qed.

Lemma elig_vec : forall b v w, elig {| nlabel := b; nprop := Some (PVec v) |} w <-> (b = true /\ w = v /\ okdim v = true).
Proof.
  intros b v w. unfold elig; cbn. split.
  - intros (-> & E & Ho). inversion E; subst. auto.
  - intros (-> & -> & Ho). auto.
Qed.

Lemma step_inv : forall s o, Inv s -> Inv (fst (step s o)).
Proof.
  intros s o HI. destruct o as [lbl p|id p|id|id|id|id|q k|]; cbn [Vector.step].
  - (* Create *)
    set (nd' := {| nlabel := lbl; nprop := p |}).
    assert (Hgen : forall id fr nx,
      ~ In id (map fst (nodes s)) -> NoDup fr ->
      (forall i, In i (id :: map fst (nodes s)) -> i < nx /\ ~ In i fr) ->
      (forall i, In i fr -> i < nx) ->
      Inv {| nodes := (id, nd') :: nodes s; free := fr; next := nx;
             idx := if lbl then match p with Some (PVec v) => idx_add (idx s) id v | _ => idx s end
                    else idx s |}).
    { intros id fr nx Hfresh Hfr Hall Hlt.
      assert (Hno : forall w, ~ In (id, w) (idx s)).
      { intros w Hin. apply (inv_idx s HI) in Hin as (nd & Hin & _). apply Hfresh. eapply in_keys; eauto. }
      assert (HN : forall i x, In (i, x) ((id, nd') :: nodes s) <->
                               (i = id /\ x = nd') \/ (i <> id /\ In (i, x) (nodes s))).
      { intros i x. cbn. split.
        - intros [E|Hin]; [inversion E; auto|]. right. split; [|auto].
          intros ->. apply Hfresh. eapply in_keys; eauto.
        - intros [(-> & ->)|(_ & Hin)]; auto. }
      constructor; cbn [nodes free next idx].
      - cbn. constructor; [exact Hfresh|apply (inv_nodes s HI)].
      - exact Hall.
      - exact Hfr.
      - exact Hlt.
      - destruct lbl; [|apply (inv_idx_nodup s HI)].
        destruct p as [[v|]|]; try apply (inv_idx_nodup s HI).
        apply idx_add_nodup. apply (inv_idx_nodup s HI).
      - apply (inv_idx_upd (nodes s) _ (idx s) _ id nd' HN (inv_idx s HI)).
        subst nd'. destruct lbl.
        + destruct p as [[v|]|].
          * apply upd_add; [apply (inv_idx_nodup s HI)|]. intros w. rewrite elig_vec. tauto.
          * apply upd_same; [exact Hno|]. intros w (_ & E & _). cbn in E. discriminate.
          * apply upd_same; [exact Hno|]. intros w (_ & E & _). cbn in E. discriminate.
        + apply upd_same; [exact Hno|]. intros w (E & _). cbn in E. discriminate. }
    destruct (free s) as [|f fr] eqn:Ef; cbn [fst].
    + apply Hgen.
      * intros Hin. apply (inv_fresh s HI) in Hin as [Hlt _]. lia.
      * constructor.
      * intros i [<-|Hin]; [split; [lia|tauto]|].
        apply (inv_fresh s HI) in Hin as [Hlt _]. split; [lia|tauto].
      * intros i [].
    + pose proof (inv_free s HI) as Hfr. rewrite Ef in Hfr. inversion Hfr as [|? ? Hnf Hfr']; subst.
      apply Hgen.
      * intros Hin. apply (inv_fresh s HI) in Hin as [_ Hn]. apply Hn. rewrite Ef. left; auto.
      * exact Hfr'.
      * intros i [<-|Hin].
        -- split; [apply (inv_free_lt s HI); rewrite Ef; left; auto|exact Hnf].
        -- apply (inv_fresh s HI) in Hin as [Hlt Hn]. split; [auto|].
           intros H. apply Hn. rewrite Ef. right; auto.
      * intros i Hin. apply (inv_free_lt s HI). rewrite Ef. right; auto.
  - (* SetProp *)
    destruct (get V id (nodes s)) as [nd|] eqn:Hg; cbn [fst]; [|exact HI].
    destruct (nlabel nd) eqn:El.
    + destruct p as [v|].
      * apply (inv_set s id nd _ _ HI Hg); [apply idx_add_nodup; apply (inv_idx_nodup s HI)|].
        apply upd_add; [apply (inv_idx_nodup s HI)|]. intros w. rewrite elig_vec. tauto.
      * apply (inv_set s id nd _ _ HI Hg); [apply swap_remove_nodup; apply (inv_idx_nodup s HI)|].
        apply upd_remove; [apply (inv_idx_nodup s HI)|]. intros w (_ & E & _). cbn in E. discriminate.
    + apply (inv_set s id nd _ _ HI Hg); [apply (inv_idx_nodup s HI)|].
      apply upd_same; [|intros w (E & _); cbn in E; discriminate].
      apply (no_entry s id HI). intros nd2 Hin w (E & _).
      rewrite (live_unique s id nd nd2 HI Hg Hin) in E. congruence.
  - (* RemoveProp *)
    destruct (get V id (nodes s)) as [nd|] eqn:Hg; cbn [fst]; [|exact HI].
    destruct (nlabel nd) eqn:El.
    + apply (inv_set s id nd _ _ HI Hg); [apply swap_remove_nodup; apply (inv_idx_nodup s HI)|].
      apply upd_remove; [apply (inv_idx_nodup s HI)|]. intros w (_ & E & _). cbn in E. discriminate.
    + apply (inv_set s id nd _ _ HI Hg); [apply (inv_idx_nodup s HI)|].
      apply upd_same; [|intros w (E & _); cbn in E; discriminate].
      apply (no_entry s id HI). intros nd2 Hin w (E & _).
      rewrite (live_unique s id nd nd2 HI Hg Hin) in E. congruence.
  - (* AddLabel *)
    destruct (get V id (nodes s)) as [nd|] eqn:Hg; cbn [fst]; [|exact HI].
    destruct (nprop nd) as [[v|]|] eqn:Ep.
    + apply (inv_set s id nd _ _ HI Hg); [apply idx_add_nodup; apply (inv_idx_nodup s HI)|].
      apply upd_add; [apply (inv_idx_nodup s HI)|]. intros w. rewrite elig_vec. tauto.
    + apply (inv_set s id nd _ _ HI Hg); [apply (inv_idx_nodup s HI)|].
      apply upd_same; [|intros w (_ & E & _); cbn in E; discriminate].
      apply (no_entry s id HI). intros nd2 Hin w (_ & E & _).
      rewrite (live_unique s id nd nd2 HI Hg Hin) in E. congruence.
    + apply (inv_set s id nd _ _ HI Hg); [apply (inv_idx_nodup s HI)|].
      apply upd_same; [|intros w (_ & E & _); cbn in E; discriminate].
      apply (no_entry s id HI). intros nd2 Hin w (_ & E & _).
      rewrite (live_unique s id nd nd2 HI Hg Hin) in E. congruence.
  - (* RemoveLabel *)
    destruct (get V id (nodes s)) as [nd|] eqn:Hg; cbn [fst]; [|exact HI].
    destruct (nlabel nd) eqn:El; cbn [fst]; [|exact HI].
    apply (inv_set s id nd _ _ HI Hg); [apply swap_remove_nodup; apply (inv_idx_nodup s HI)|].
    apply upd_remove; [apply (inv_idx_nodup s HI)|]. intros w (E & _). cbn in E. discriminate.
  - (* Delete *)
    destruct (get V id (nodes s)) as [nd|] eqn:Hg; cbn [fst]; [|exact HI].
    assert (Hlive : In id (map fst (nodes s))) by (eapply in_keys; apply aget_In; exact Hg).
    assert (HN : forall i x, In (i, x) (del V id (nodes s)) <-> i <> id /\ In (i, x) (nodes s)).
    { intros i x. unfold del. rewrite filter_In. cbn. split.
      - intros [Hin E]. split; [|auto]. intros ->. rewrite N.eqb_refl in E. discriminate.
      - intros [Hne Hin]. split; [auto|]. destruct (N.eqb_spec i id); [contradiction|reflexivity]. }
    assert (HI' : forall i w,
      In (i, w) (if nlabel nd then swap_remove id (idx s) else idx s) <-> i <> id /\ In (i, w) (idx s)).
    { intros i w. destruct (nlabel nd) eqn:El.
      - apply swap_remove_In. apply (inv_idx_nodup s HI).
      - split; [|tauto]. intros Hin. split; [|auto]. intros ->.
        eapply (no_entry s id HI); [|exact Hin]. intros nd2 Hin2 w2 (E & _).
        rewrite (live_unique s id nd nd2 HI Hg Hin2) in E. congruence. }
    constructor; cbn [nodes free next idx].
    + unfold del. apply filter_keys_nodup. apply (inv_nodes s HI).
    + intros i Hin. apply keys_in in Hin as (x & Hin). apply HN in Hin as [Hne Hin].
      apply in_keys in Hin. apply (inv_fresh s HI) in Hin as [Hlt Hn]. split; [auto|].
      intros [E|H]; [congruence|auto].
    + constructor; [|apply (inv_free s HI)]. apply (inv_fresh s HI). exact Hlive.
    + intros i [<-|Hin]; [apply (inv_fresh s HI); exact Hlive|apply (inv_free_lt s HI); auto].
    + destruct (nlabel nd); [apply swap_remove_nodup|]; apply (inv_idx_nodup s HI).
    + intros i w. rewrite HI'. rewrite (inv_idx s HI). split.
      * intros (Hne & nd2 & Hin & He). exists nd2. split; [apply HN; auto|auto].
      * intros (nd2 & Hin & He). apply HN in Hin as [Hne Hin]. split; [auto|eauto].
  - exact HI.
  - exact HI.
Qed.

Lemma init_inv : Inv init.
Proof.
  constructor; cbn [nodes free next idx init map].
  - constructor.
  - intros i [].
  - constructor.
  - intros i [].
  - constructor.
  - intros i v. split; [intros []|intros (nd & [] & _)].
Qed.

Lemma run_inv : forall ops, Inv (run ops).
Proof.
  intros ops. unfold Vector.run.
  assert (H : forall s, Inv s -> Inv (fold_left (fun s o => fst (step s o)) ops s)).
  { induction ops as [|o r IH]; cbn; intros s Hs; [exact Hs|]. apply IH. apply step_inv. exact Hs. }
  apply H. apply init_inv.
Qed.

(* ---------- the property, for every history ---------- *)
(* node [id] is live, carries the label and a vector of the index's dimension at the
   property, and [d] is the declared distance from [q] to that (current) vector *)
Definition eligible (s : state V) (q : V) (id : N) (d : D) : Prop :=
  exists nd v, In (id, nd) (nodes s) /\ nlabel nd = true /\ nprop nd = Some (PVec v) /\
               okdim v = true /\ dist q v = Some d.

Lemma rel_eligible : forall s q id d, Inv s -> (rel q (idx s) id d <-> eligible s q id d).
Proof.
  intros s q id d HI. unfold rel, eligible. split.
  - intros (v & Hin & Hd). apply (inv_idx s HI) in Hin as (nd & Hin & (El & Ep & Eo)).
    exists nd, v. auto.
  - intros (nd & v & Hin & El & Ep & Eo & Hd). exists v. split; [|auto].
    apply (inv_idx s HI). exists nd. split; [auto|]. split; auto.
Qed.

Lemma search_step : forall s q k, snd (step s (Search q k)) = ORes (search (idx s) q k).
Proof. reflexivity. Qed.

Theorem live_thm : forall ops q k r id d,
  snd (step (run ops) (Search q k)) = ORes (Some r) -> In (id, d) r ->
  exists nd v, In (id, nd) (nodes (run ops)) /\ nlabel nd = true /\
               nprop nd = Some (PVec v) /\ okdim v = true.
Proof.
  intros ops q k r id d H Hin. rewrite search_step in H. inversion H as [Hs].
  pose proof (run_inv ops) as HI.
  destruct (search_sound _ _ _ _ (inv_idx_nodup _ HI) Hs) as (Hrel & _ & _).
  apply Hrel in Hin. apply (rel_eligible _ q id d HI) in Hin as (nd & v & ? & ? & ? & ? & ?).
  exists nd, v. auto.
Qed.

Theorem current_thm : forall ops q k r id d,
  snd (step (run ops) (Search q k)) = ORes (Some r) -> In (id, d) r ->
  NoDup (map fst (nodes (run ops))) /\
  forall nd, In (id, nd) (nodes (run ops)) ->
    exists v, nprop nd = Some (PVec v) /\ dist q v = Some d.
Proof.
  intros ops q k r id d H Hin. rewrite search_step in H. inversion H as [Hs].
  pose proof (run_inv ops) as HI. split; [apply (inv_nodes _ HI)|].
  destruct (search_sound _ _ _ _ (inv_idx_nodup _ HI) Hs) as (Hrel & _ & _).
  apply Hrel in Hin. apply (rel_eligible _ q id d HI) in Hin as (nd & v & Hn & ? & ? & ? & ?).
  intros nd2 Hin2.
  assert (nd2 = nd).
  { pose proof (In_aget _ _ _ (inv_nodes _ HI) Hn) as E1.
    pose proof (In_aget _ _ _ (inv_nodes _ HI) Hin2) as E2. congruence. }
  subst. eauto.
Qed.

Theorem unique_thm : forall ops q k r,
  snd (step (run ops) (Search q k)) = ORes (Some r) -> NoDup (map fst r).
Proof.
  intros ops q k r H. rewrite search_step in H. inversion H as [Hs].
  pose proof (run_inv ops) as HI.
  destruct (search_sound _ _ _ _ (inv_idx_nodup _ HI) Hs) as (_ & Hnd & _). exact Hnd.
Qed.

Theorem sorted_thm : forall ops q k r,
  snd (step (run ops) (Search q k)) = ORes (Some r) ->
  StronglySorted (fun a b => leb (snd a) (snd b) = true) r.
Proof.
  intros ops q k r H. rewrite search_step in H. inversion H as [Hs].
  pose proof (run_inv ops) as HI.
  destruct (search_sound _ _ _ _ (inv_idx_nodup _ HI) Hs) as (_ & _ & Hso). exact Hso.
Qed.

(* the eligible nodes as a duplicate-free list *)
Theorem exact_k_thm : forall ops q k r,
  snd (step (run ops) (Search q k)) = ORes (Some r) ->
  nlen (idx (run ops)) <= 128 ->
  (forall id d id' d', In (id, d) r -> eligible (run ops) q id' d' -> ~ In id' (map fst r) ->
                       leb d d' = true) /\
  exists E : list (N * D),
    NoDup (map fst E) /\ (forall id d, In (id, d) E <-> eligible (run ops) q id d) /\
    length r = Nat.min (N.to_nat k) (length E).
Proof.
  intros ops q k r H Hsmall. rewrite search_step in H. inversion H as [Hs].
  pose proof (run_inv ops) as HI.
  apply N.leb_le in Hsmall.
  destruct (search_exact_k _ _ _ _ (inv_idx_nodup _ HI) Hsmall Hs) as (Hlen & Hom). split.
  - intros id d id' d' Hin He Hni. eapply Hom; eauto. apply rel_eligible; auto.
  - exists (scored q (idx (run ops))). split; [apply scored_nodup; apply (inv_idx_nodup _ HI)|].
    split; [|exact Hlen]. intros id d. rewrite scored_In. apply rel_eligible; auto.
Qed.

(* the index holds exactly the eligible nodes, once each, with their current vector *)
Theorem index_exact_thm : forall ops,
  NoDup (map fst (idx (run ops))) /\
  forall id v, In (id, v) (idx (run ops)) <->
    exists nd, In (id, nd) (nodes (run ops)) /\ nlabel nd = true /\
               nprop nd = Some (PVec v) /\ okdim v = true.
Proof.
  intros ops. pose proof (run_inv ops) as HI. split; [apply (inv_idx_nodup _ HI)|].
  intros id v. rewrite (inv_idx _ HI). unfold elig. split; intros (nd & ? & ?); exists nd; tauto.
Qed.

End Proofs.
