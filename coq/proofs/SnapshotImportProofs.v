(* C13: a failed import that performed no dedup merge leaves nodes, relationships and
   hierarchy declarations exactly as they were. *)
From Coq Require Import List NArith ZArith Bool Lia.
From Verif Require Import SnapshotJson SnapshotJsonProofs.
Import ListNotations.
Open Scope N_scope.

Definition nmem (x : N) (l : list N) : bool := existsb (N.eqb x) l.

Lemma nmem_in : forall x l, nmem x l = true <-> In x l.
Proof.
  intros x l. unfold nmem. rewrite existsb_exists. split.
  - intros [y [Hy E]]. apply N.eqb_eq in E. now subst.
  - intros H. exists x. split; [exact H | apply N.eqb_refl].
Qed.

Lemma nmem_false : forall x l, nmem x l = false <-> ~ In x l.
Proof. intros x l. rewrite <- nmem_in. destruct (nmem x l); split; congruence. Qed.

Lemma filter_all {A} (p : A -> bool) : forall l, (forall x, In x l -> p x = true) -> filter p l = l.
Proof.
  induction l as [|x r IH]; intros H; cbn; [reflexivity|].
  rewrite (H x (or_introl eq_refl)). f_equal. apply IH. intros y Hy. apply H. now right.
Qed.

Lemma filter_none {A} (p : A -> bool) : forall l, (forall x, In x l -> p x = false) -> filter p l = [].
Proof.
  induction l as [|x r IH]; intros H; cbn; [reflexivity|].
  rewrite (H x (or_introl eq_refl)). apply IH. intros y Hy. apply H. now right.
Qed.

Lemma filter_filter {A} (p q : A -> bool) : forall l, filter p (filter q l) = filter (fun x => q x && p x) l.
Proof.
  induction l as [|x r IH]; cbn; [reflexivity|]. destruct (q x); cbn; [destruct (p x)|]; now rewrite IH.
Qed.

(* the rollback: every listed node and every relationship touching one is gone *)
Lemma del_nodes : forall l s,
  nodes (fold_left delete_node l s) = filter (fun n => negb (nmem (n_id n) l)) (nodes s).
Proof.
  induction l as [|id r IH]; intros s; cbn [fold_left].
  - symmetry. apply filter_all. reflexivity.
  - rewrite IH. cbn [delete_node nodes]. rewrite filter_filter. apply filter_ext. intros n.
    unfold nmem. cbn [existsb]. destruct (N.eqb (n_id n) id), (existsb (N.eqb (n_id n)) r); reflexivity.
Qed.

Lemma del_edges : forall l s,
  edges (fold_left delete_node l s)
  = filter (fun e => negb (nmem (e_src e) l || nmem (e_tgt e) l)) (edges s).
Proof.
  induction l as [|id r IH]; intros s; cbn [fold_left].
  - symmetry. apply filter_all. reflexivity.
  - rewrite IH. cbn [delete_node edges]. rewrite filter_filter. apply filter_ext. intros e.
    unfold nmem. cbn [existsb].
    destruct (N.eqb (e_src e) id), (N.eqb (e_tgt e) id), (existsb (N.eqb (e_src e)) r), (existsb (N.eqb (e_tgt e)) r); reflexivity.
Qed.

Lemma del_hier : forall l s, hier (fold_left delete_node l s) = hier s.
Proof. induction l as [|id r IH]; intros s; cbn [fold_left]; [reflexivity|]. now rewrite IH. Qed.

(* allocator soundness: ids in use are neither free nor beyond the counter *)
Definition Aw (s : store) : Prop :=
  (forall id, In id (map n_id (nodes s)) -> ~ In id (free_n s) /\ id < next_n s)
  /\ (forall id, In id (free_n s) -> id < next_n s)
  /\ NoDup (free_n s).

Definition closed (s : store) : Prop :=
  forall e, In e (edges s) -> In (e_src e) (map n_id (nodes s)) /\ In (e_tgt e) (map n_id (nodes s)).

Lemma alloc_fresh : forall s id fr nx n,
  Aw s -> alloc s = (id, fr, nx) -> n_id n = id ->
  ~ In id (map n_id (nodes s)) /\ Aw (add_node s n fr nx).
Proof.
  intros s id fr nx n (A1 & A2 & A3) Ha Hid. unfold alloc in Ha.
  destruct (rev (free_n s)) as [|x r] eqn:Er.
  - injection Ha as E1 E2 E3. subst fr nx. rewrite <- E1 in *. clear E1.
    assert (Hf : free_n s = []) by (rewrite <- (rev_involutive (free_n s)), Er; reflexivity).
    split.
    + intros Hin. apply A1 in Hin. lia.
    + unfold Aw, add_node. cbn [nodes free_n next_n]. repeat split.
      * tauto.
      * rewrite map_app in H. apply in_app_or in H. destruct H as [H|H].
        -- apply A1 in H. lia.
        -- cbn in H. destruct H as [H|[]]. lia.
      * intros id' [].
      * constructor.
  - injection Ha as E1 E2 E3. subst fr nx x.
    assert (Hf : free_n s = rev r ++ [id]) by (rewrite <- (rev_involutive (free_n s)), Er; reflexivity).
    rewrite Hf in *.
    assert (Hnd : ~ In id (rev r)).
    { apply NoDup_remove_2 in A3. rewrite app_nil_r in A3. exact A3. }
    split.
    + intros Hin. apply A1 in Hin. destruct Hin as [Hin _]. apply Hin. apply in_or_app. right. now left.
    + unfold Aw, add_node. cbn [nodes free_n next_n]. repeat split.
      * rewrite map_app in H. apply in_app_or in H. destruct H as [H|H].
        -- apply A1 in H. destruct H as [H _]. intros Hc. apply H. apply in_or_app. now left.
        -- cbn in H. destruct H as [H|[]]. rewrite Hid in H. subst id0. exact Hnd.
      * rewrite map_app in H. apply in_app_or in H. destruct H as [H|H].
        -- now apply A1 in H.
        -- cbn in H. destruct H as [H|[]]. rewrite Hid in H. subst id0. apply A2. apply in_or_app. right. now left.
      * intros id' H. apply A2. apply in_or_app. now left.
      * apply NoDup_remove_1 in A3. now rewrite app_nil_r in A3.
Qed.

Section Atomic.
Variable narrow : json -> option N.
Variable norm : str -> str.
Variable numstr : json -> str.
Notation step := (step_line narrow norm numstr).
Notation runl := (run_lines narrow norm numstr).

Lemma step_merges_mono : forall v2 ks x l x', step v2 ks x l = Some x' -> merges x <= merges x'.
Proof.
  intros v2 ks x l x' H. destruct l; cbn in H.
  - destruct (dedup_lookup norm numstr (dindex x) ks r).
    + inversion H; subst; cbn; lia.
    + destruct (alloc (st x)) as [[id fr] nx]. inversion H; subst; cbn; lia.
  - destruct (rget (er_src r) (remap x)); [|discriminate].
    destruct (rget (er_tgt r) (remap x)); [|discriminate]. inversion H; subst; cbn; lia.
  - inversion H; subst; cbn; lia.
  - inversion H; subst; lia.
  - discriminate.
Qed.

Lemma run_merges_mono : forall v2 ks ls x, merges x <= merges (fst (runl v2 ks x ls)).
Proof.
  intros v2 ks ls. induction ls as [|l r IH]; intros x; cbn; [lia|].
  destruct (step v2 ks x l) as [x'|] eqn:E; cbn; [|lia].
  apply step_merges_mono in E. specialize (IH x'). lia.
Qed.

(* what a merge-free run keeps invariant, relative to the store [s] the import started from *)
Record Inv (s : store) (x : ist) : Prop := {
  i_nodes : exists C, nodes (st x) = nodes s ++ C /\ map n_id C = created x;
  i_edges : exists E, edges (st x) = edges s ++ E
                      /\ Forall (fun e => In (e_src e) (created x) \/ In (e_tgt e) (created x)) E;
  i_hier : hier (st x) = hier s;
  i_remap : forall k v, rget k (remap x) = Some v -> In v (created x);
  i_fresh : forall id, In id (created x) -> ~ In id (map n_id (nodes s));
  i_alloc : Aw (st x)
}.

Lemma step_inv : forall s v2 ks x l x',
  Inv s x -> step v2 ks x l = Some x' -> merges x' = merges x -> Inv s x'.
Proof.
  intros s v2 ks x l x' [[C [HC1 HC2]] [E [HE1 HE2]] Hh Hr Hf Ha] H Hm.
  destruct l; cbn in H.
  - (* node *)
    destruct (dedup_lookup norm numstr (dindex x) ks r) as [eid|].
    { inversion H; subst x'; cbn in Hm. lia. }
    destruct (alloc (st x)) as [[id fr] nx] eqn:Eal. inversion H; subst x'; clear H.
    destruct (alloc_fresh (st x) id fr nx (new_node narrow v2 id r) Ha Eal eq_refl) as [Hfr Ha'].
    constructor; cbn [st remap created add_node nodes edges hier].
    + exists (C ++ [new_node narrow v2 id r]). split.
      * rewrite HC1, <- app_assoc. reflexivity.
      * rewrite map_app, HC2. reflexivity.
    + exists E. split; [exact HE1|]. eapply Forall_impl; [|exact HE2].
      intros e [H|H]; [left|right]; apply in_or_app; now left.
    + exact Hh.
    + intros k v Hk. cbn in Hk. destruct (N.eqb k (nr_id r)).
      * inversion Hk; subst. apply in_or_app. right. now left.
      * apply in_or_app. left. eapply Hr; eauto.
    + intros id' Hin. apply in_app_or in Hin. destruct Hin as [Hin|Hin]; [now apply Hf|].
      cbn in Hin. destruct Hin as [<-|[]]. intros Hc. apply Hfr. rewrite HC1, map_app. apply in_or_app. now left.
    + exact Ha'.
  - (* edge *)
    destruct (rget (er_src r) (remap x)) as [a|] eqn:Ea; [|discriminate].
    destruct (rget (er_tgt r) (remap x)) as [b|] eqn:Eb; [|discriminate].
    inversion H; subst x'; clear H.
    constructor; cbn [st remap created add_edge nodes edges hier free_n next_n].
    + exists C. split; assumption.
    + eexists (E ++ [_]). split.
      * rewrite HE1, <- app_assoc. reflexivity.
      * apply Forall_app. split; [exact HE2|]. constructor; [|constructor]. cbn. left. eapply Hr; eauto.
    + exact Hh.
    + exact Hr.
    + exact Hf.
    + exact Ha.
  - (* hierarchy declaration *)
    inversion H; subst x'; clear H.
    constructor; cbn [st remap created]; eauto.
  - inversion H; subst x'. constructor; eauto.
  - discriminate.
Qed.

Lemma run_inv : forall s v2 ks ls x,
  Inv s x -> merges (fst (runl v2 ks x ls)) = merges x -> Inv s (fst (runl v2 ks x ls)).
Proof.
  intros s v2 ks ls. induction ls as [|l r IH]; intros x HI Hm; cbn in *; [exact HI|].
  destruct (step v2 ks x l) as [x'|] eqn:E; cbn in *; [|exact HI].
  pose proof (step_merges_mono _ _ _ _ _ E) as M1.
  pose proof (run_merges_mono v2 ks r x') as M2.
  assert (Hx' : merges x' = merges x) by lia.
  apply IH; [eapply step_inv; eauto | lia].
Qed.

Theorem atomic : forall s h ls ks s',
  Aw s -> closed s ->
  import narrow norm numstr s h ls ks = Failed s' ->
  merges_of narrow norm numstr s h ls ks = 0 ->
  nodes s' = nodes s /\ edges s' = edges s /\ hier s' = hier s.
Proof.
  intros s h ls ks s' Ha Hc Himp Hm. unfold import in Himp. unfold merges_of in Hm.
  destruct h as [v2 labels|]; [|inversion Himp; subst; auto].
  set (x0 := {| st := s; remap := []; created := []; dindex := prepop norm s labels ks; merges := 0; hdecls := [] |}) in *.
  assert (I0 : Inv s x0).
  { constructor; cbn.
    - exists []. now rewrite app_nil_r.
    - exists []. rewrite app_nil_r. split; [reflexivity | constructor].
    - reflexivity.
    - intros k v H. discriminate.
    - intros id [].
    - exact Ha. }
  pose proof (run_inv s v2 ks ls x0 I0) as HI. cbn [merges x0] in HI. specialize (HI Hm).
  destruct (runl v2 ks x0 ls) as [x ok] eqn:Er. cbn [fst] in HI.
  destruct ok; [discriminate|]. inversion Himp; subst s'; clear Himp.
  destruct HI as [[C [HC1 HC2]] [E [HE1 HE2]] Hh Hr Hf _].
  rewrite del_nodes, del_edges, del_hier. repeat split; [| |exact Hh].
  - rewrite HC1, filter_app.
    rewrite (filter_all _ (nodes s)), (filter_none _ C); [now rewrite app_nil_r| |].
    + intros n Hn. apply negb_false_iff. apply nmem_in. rewrite <- in_rev, <- HC2. now apply in_map.
    + intros n Hn. apply negb_true_iff. apply nmem_false. rewrite <- in_rev. intros Hc'.
      apply (Hf _ Hc'). now apply in_map.
  - rewrite HE1, filter_app.
    rewrite (filter_all _ (edges s)), (filter_none _ E); [now rewrite app_nil_r| |].
    + intros e He. rewrite Forall_forall in HE2. apply negb_false_iff. apply orb_true_iff.
      destruct (HE2 e He) as [H|H]; [left|right]; apply nmem_in; now rewrite <- in_rev.
    + intros e He. destruct (Hc e He) as [H1 H2]. apply negb_true_iff. apply orb_false_iff.
      split; apply nmem_false; rewrite <- in_rev; intros Hc'; eapply Hf; eauto.
Qed.
End Atomic.

(* ---------- a successful import adds exactly the snapshot ---------- *)
Definition count_n (ls : list line) : nat := length (filter (fun l => match l with LNode _ => true | _ => false end) ls).
Definition count_e (ls : list line) : nat := length (filter (fun l => match l with LEdge _ => true | _ => false end) ls).

Lemma upd_node_length : forall id f l, length (upd_node id f l) = length l.
Proof. intros id f l. induction l as [|n r IH]; cbn; [reflexivity|]. destruct (N.eqb (n_id n) id); cbn; congruence. Qed.

Lemma add_hier_nodes_edges : forall hs s,
  nodes (fold_left add_hier hs s) = nodes s /\ edges (fold_left add_hier hs s) = edges s.
Proof.
  induction hs as [|h r IH]; intros s; cbn [fold_left]; [split; reflexivity|].
  destruct (IH (add_hier s h)) as [H1 H2]. rewrite H1, H2. unfold add_hier.
  destruct (existsb _ _); split; reflexivity.
Qed.

Section Exact.
Variable narrow : json -> option N.
Variable norm : str -> str.
Variable numstr : json -> str.
Notation step := (step_line narrow norm numstr).
Notation runl := (run_lines narrow norm numstr).

Lemma run_counts : forall v2 ks ls x x',
  runl v2 ks x ls = (x', true) ->
  (length (nodes (st x')) + length (created x) = length (nodes (st x)) + length (created x'))%nat
  /\ (length (created x') + N.to_nat (merges x') = length (created x) + N.to_nat (merges x) + count_n ls)%nat
  /\ exists E, edges (st x') = edges (st x) ++ E /\ length E = count_e ls.
Proof.
  intros v2 ks ls. induction ls as [|l r IH]; intros x x' H; cbn in H.
  - inversion H; subst. (split; [lia|split; [cbn; lia|]]). exists []. now rewrite app_nil_r.
  - destruct (step v2 ks x l) as [x1|] eqn:E; [|discriminate].
    destruct (IH x1 x' H) as (I1 & I2 & [E2 [I3 I4]]). clear IH H.
    unfold count_n, count_e in *.
    set (cn := length (filter (fun l => match l with LNode _ => true | _ => false end) r)) in *.
    set (ce := length (filter (fun l => match l with LEdge _ => true | _ => false end) r)) in *.
    destruct l; cbn in E.
    + destruct (dedup_lookup norm numstr (dindex x) ks r0) as [eid|].
      * inversion E; subst x1; clear E. cbn [st remap created merges with_nodes nodes edges] in *.
        rewrite upd_node_length in I1. cbn [filter length]; fold cn; fold ce.
        rewrite N2Nat.inj_add in I2. change (N.to_nat 1) with 1%nat in I2.
        (split; [lia|split; [lia|]]). exists E2. split; assumption.
      * destruct (alloc (st x)) as [[id fr] nx]. inversion E; subst x1; clear E.
        cbn [st remap created merges add_node nodes edges] in *. rewrite !app_length in *. cbn [length] in *.
        cbn [filter length]; fold cn; fold ce.
        (split; [lia|split; [lia|]]). exists E2. split; assumption.
    + destruct (rget (er_src r0) (remap x)); [|discriminate].
      destruct (rget (er_tgt r0) (remap x)); [|discriminate]. inversion E; subst x1; clear E.
      cbn [st remap created merges add_edge nodes edges] in *.
      cbn [filter length]; fold cn; fold ce.
      (split; [lia|split; [lia|]]). eexists (_ :: E2). split.
      * rewrite I3, <- app_assoc. reflexivity.
      * cbn. now rewrite I4.
    + inversion E; subst x1; clear E. cbn [st created merges] in *.
      cbn [filter length]; fold cn; fold ce. (split; [lia|split; [lia|]]). exists E2. split; assumption.
    + inversion E; subst x1; clear E.
      cbn [filter length]; fold cn; fold ce. (split; [lia|split; [lia|]]). exists E2. split; assumption.
    + discriminate.
Qed.

(* a successful import adds exactly the snapshot: one created-or-merged node per node
   record, the created ones are new nodes, no node disappears, and the relationships are
   the old ones followed by one per edge record *)
Theorem success_exact : forall s h ls ks s' c m,
  import narrow norm numstr s h ls ks = Imported s' c m ->
  (N.to_nat c + N.to_nat m = count_n ls)%nat
  /\ (length (nodes s') = length (nodes s) + N.to_nat c)%nat
  /\ exists E, edges s' = edges s ++ E /\ length E = count_e ls.
Proof.
  intros s h ls ks s' c m H. unfold import in H. destruct h as [v2 labels|]; [|discriminate].
  match type of H with context [runl v2 ks ?X ls] => set (x0 := X) in * end.
  destruct (runl v2 ks x0 ls) as [x ok] eqn:Er. destruct ok; [|discriminate].
  inversion H; subst s' c m; clear H.
  destruct (run_counts _ _ _ _ _ Er) as (I1 & I2 & [E [I3 I4]]).
  cbn [x0 st created merges] in I1, I2, I3.
  destruct (add_hier_nodes_edges (hdecls x) (st x)) as [H1 H2]. rewrite H1, H2.
  unfold nlen. rewrite Nat2N.id. cbn [length] in *.
  (split; [lia|split; [lia|]]). exists E. split; assumption.
Qed.
End Exact.

(* ---------- the recorded class: a dedup merge preceded the failure ---------- *)
Definition c13_start : store :=
  {| nodes := [{| n_id := 1; n_labels := [[80]]; n_row := [([110;97;109;101], PStr [120])];
                  n_col := [([110;97;109;101], PStr [120])] |}];
     edges := []; hier := []; free_n := []; next_n := 2 |}.
Definition c13_lines : list line :=
  [ LNode {| nr_id := 1; nr_labels := [[80]; [83]];
             nr_props := [([110;97;109;101], JStr [120]); ([101;120;116;114;97], JInt 7%Z)] |};
    LEdge {| er_src := 1; er_tgt := 1; er_ty := [83;69;76;70]; er_props := [] |};
    LFail ].
Definition c13_keys : list str := [[110;97;109;101]].

Lemma refuted_merge :
  let imp := import no_narrow (fun s => s) (fun _ => []) c13_start (HOk true [[80]; [83]]) c13_lines c13_keys in
  Aw c13_start /\ closed c13_start
  /\ (exists s', imp = Failed s' /\ ~ (nodes s' = nodes c13_start /\ edges s' = edges c13_start /\ hier s' = hier c13_start))
  /\ merges_of no_narrow (fun s => s) (fun _ => []) c13_start (HOk true [[80]; [83]]) c13_lines c13_keys = 1.
Proof.
  cbn zeta. split; [|split; [|split]].
  - unfold Aw, c13_start. cbn. split; [|split].
    + intros id [<-|[]]. split; [intros [] | reflexivity].
    + intros id [].
    + constructor.
  - intros e [].
  - eexists. split; [vm_compute; reflexivity|]. intros (_ & H & _). discriminate H.
  - vm_compute. reflexivity.
Qed.
