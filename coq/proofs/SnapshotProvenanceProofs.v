(* C13 content, provenance: what the target of a dedup merge matched (the dedup index only
   ever holds entries that a node of the start store, or a node created earlier from the same
   stream, answers to). *)
From Coq Require Import List NArith ZArith Bool Lia.
From Verif Require Import SnapshotJson SnapshotJsonProofs SnapshotImportProofs SnapshotContentProofs.
Import ListNotations.
Open Scope N_scope.

Section Prov.
Variable narrow : json -> option N.
Variable norm : str -> str.
Variable numstr : json -> str.

(* the string a record is deduplicated on under [key] (v1 snapshots use the stored value) *)
Definition rec_dval (v2 : bool) (r : nrec) (key : str) : option str :=
  match aget key (nr_props r) with
  | Some j => if v2 then dval_json norm numstr j else dval_pv norm (j2p narrow j)
  | None => None
  end.

(* an existing node of the start store answers to (l, key, vs) *)
Definition matches_existing (s : store) (labels : list str) (l key vs : str) (id : N) : Prop :=
  exists n, In n (nodes s) /\ n_id n = id /\ In l labels /\ smem l (n_labels n) = true
    /\ ((exists v, aget key (n_row n) = Some v /\ dval_pv norm v = Some vs)
        \/ (dval_pv norm (col_get key (n_col n)) = Some vs /\ is_empty_str (col_get key (n_col n)) = false)).

(* a node created earlier in this import answers to (l, key, vs) *)
Definition matches_created (v2 : bool) (pre : list action) (l key vs : str) (id : N) : Prop :=
  exists r, In (ACreate r id) pre /\ In l (snap_labels r) /\ rec_dval v2 r key = Some vs.

Definition prov (s : store) (labels : list str) (v2 : bool) (ks : list str) (pre : list action)
  (k : dkey) (id : N) : Prop :=
  let '(l, key, vs) := k in
  In key ks /\ (matches_existing s labels l key vs id \/ matches_created v2 pre l key vs id).

Definition PROV s labels v2 ks pre (d : list (dkey * N)) : Prop :=
  forall k id, dget k d = Some id -> prov s labels v2 ks pre k id.

Lemma dkey_eqb_eq : forall a b, dkey_eqb a b = true -> a = b.
Proof.
  intros [[l1 k1] v1] [[l2 k2] v2] H. cbn in H.
  apply andb_true_iff in H. destruct H as [H H3]. apply andb_true_iff in H. destruct H as [H1 H2].
  apply str_eqb_eq in H1, H2, H3. now subst.
Qed.

Lemma dget_dput : forall k k' v d id,
  dget k (dput k' v d) = Some id -> (k = k' /\ id = v) \/ dget k d = Some id.
Proof.
  intros k k' v d id H. unfold dput in H. cbn in H. destruct (dkey_eqb k k') eqn:E.
  - left. apply dkey_eqb_eq in E. inversion H. now subst.
  - now right.
Qed.

Lemma PROV_put : forall s labels v2 ks pre k v d,
  prov s labels v2 ks pre k v -> PROV s labels v2 ks pre d -> PROV s labels v2 ks pre (dput k v d).
Proof.
  intros s labels v2 ks pre k v d Hk Hd k0 id H. apply dget_dput in H. destruct H as [[-> ->]|H]; auto.
Qed.

Lemma prov_mono : forall s labels v2 ks pre pre' k id,
  (forall a, In a pre -> In a pre') -> prov s labels v2 ks pre k id -> prov s labels v2 ks pre' k id.
Proof.
  intros s labels v2 ks pre pre' [[l key] vs] id Hsub [Hk [H|H]]; split; auto.
  right. destruct H as (r & H1 & H2). exists r. split; auto.
Qed.

Lemma prepop_node_prov : forall s labels v2 ks pre label n ks0 d,
  In n (nodes s) -> In label labels -> smem label (n_labels n) = true ->
  (forall key, In key ks0 -> In key ks) ->
  PROV s labels v2 ks pre d -> PROV s labels v2 ks pre (prepop_node norm label ks0 n d).
Proof.
  intros s labels v2 ks pre label n ks0 d Hn Hl Hs. unfold prepop_node. revert d.
  induction ks0 as [|key ks0 IH]; intros d Hsub Hd; [exact Hd|].
  cbn [fold_left]. apply IH; [intros k Hk; apply Hsub; now right|].
  assert (Hkey : In key ks) by (apply Hsub; now left).
  assert (Hrow : forall v vs, aget key (n_row n) = Some v -> dval_pv norm v = Some vs ->
                 prov s labels v2 ks pre (label, key, vs) (n_id n)).
  { intros v vs H1 H2. split; [exact Hkey|]. left. exists n. repeat split; try assumption. left. eauto. }
  assert (Hcol : forall cs, dval_pv norm (col_get key (n_col n)) = Some cs ->
                 is_empty_str (col_get key (n_col n)) = false ->
                 prov s labels v2 ks pre (label, key, cs) (n_id n)).
  { intros cs H1 H2. split; [exact Hkey|]. left. exists n. repeat split; try assumption. now right. }
  destruct (aget key (n_row n)) as [v|] eqn:Er.
  - destruct (dval_pv norm v) as [vs|] eqn:Ev; [|exact Hd].
    destruct (dval_pv norm (col_get key (n_col n))) as [cs|] eqn:Ec.
    + destruct (is_empty_str (col_get key (n_col n))) eqn:Ee.
      * apply PROV_put; [eapply Hrow; eauto|exact Hd].
      * apply PROV_put; [now apply Hcol|]. apply PROV_put; [eapply Hrow; eauto|exact Hd].
    + apply PROV_put; [eapply Hrow; eauto|exact Hd].
  - destruct (dval_pv norm (col_get key (n_col n))) as [cs|] eqn:Ec; [|exact Hd].
    destruct (is_empty_str (col_get key (n_col n))) eqn:Ee; [exact Hd|].
    apply PROV_put; [now apply Hcol|exact Hd].
Qed.

Lemma prepop_prov : forall s labels v2 ks pre, PROV s labels v2 ks pre (prepop norm s labels ks).
Proof.
  intros s labels v2 ks pre. unfold prepop. destruct ks as [|k0 ks0]; [intros k id H; discriminate|].
  set (ks := k0 :: ks0). clearbody ks.
  assert (G : forall ls d, (forall l, In l ls -> In l labels) -> PROV s labels v2 ks pre d ->
              PROV s labels v2 ks pre (fold_left (fun d label =>
                fold_left (fun d n => if smem label (n_labels n) then prepop_node norm label ks n d else d)
                          (nodes s) d) ls d)).
  { induction ls as [|l ls IH]; intros d Hls Hd; [exact Hd|]. cbn [fold_left].
    apply IH; [intros l' H'; apply Hls; now right|].
    assert (F : forall ns d, (forall n, In n ns -> In n (nodes s)) -> PROV s labels v2 ks pre d ->
                PROV s labels v2 ks pre
                  (fold_left (fun d n => if smem l (n_labels n) then prepop_node norm l ks n d else d) ns d)).
    { induction ns as [|n ns IHn]; intros d0 Hin Hd0; [exact Hd0|]. cbn [fold_left]. apply IHn.
      - intros n' H'. apply Hin. now right.
      - destruct (smem l (n_labels n)) eqn:Es; [|exact Hd0].
        apply prepop_node_prov; auto.
        + apply Hin. now left.
        + apply Hls. now left. }
    apply F; auto. }
  apply G; auto. intros k id H. discriminate.
Qed.

Lemma register_prov : forall s labels v2 ks pre r id d,
  In (ACreate r id) pre ->
  PROV s labels v2 ks pre d -> PROV s labels v2 ks pre (register narrow norm numstr v2 ks r id d).
Proof.
  intros s labels v2 ks pre r id d Hin. unfold register.
  assert (G : forall ks0 d, (forall key, In key ks0 -> In key ks) -> PROV s labels v2 ks pre d ->
    PROV s labels v2 ks pre
      (fold_left (fun d key =>
         match aget key (nr_props r) with
         | Some j => match (if v2 then dval_json norm numstr j else dval_pv norm (j2p narrow j)) with
                     | Some vs => fold_left (fun d l => dput (l, key, vs) id d) (snap_labels r) d
                     | None => d
                     end
         | None => d
         end) ks0 d)).
  { induction ks0 as [|key ks0 IH]; intros d0 Hsub Hd; [exact Hd|]. cbn [fold_left].
    apply IH; [intros k Hk; apply Hsub; now right|].
    destruct (aget key (nr_props r)) as [j|] eqn:Ej; [|exact Hd].
    destruct (if v2 then dval_json norm numstr j else dval_pv norm (j2p narrow j)) as [vs|] eqn:Ev; [|exact Hd].
    assert (L : forall ls d1, (forall l, In l ls -> In l (snap_labels r)) -> PROV s labels v2 ks pre d1 ->
                PROV s labels v2 ks pre (fold_left (fun d l => dput (l, key, vs) id d) ls d1)).
    { induction ls as [|l ls IHl]; intros d1 Hls Hd1; [exact Hd1|]. cbn [fold_left].
      apply IHl; [intros l' H'; apply Hls; now right|].
      apply PROV_put; [|exact Hd1]. split; [apply Hsub; now left|]. right. exists r.
      split; [exact Hin|]. split; [apply Hls; now left|]. unfold rec_dval. now rewrite Ej. }
    apply L; auto. }
  intros Hd. apply G; auto.
Qed.
End Prov.

Section ProvRun.
Variable narrow : json -> option N.
Variable norm : str -> str.
Variable numstr : json -> str.

(* what the target of a merge matched: one of the record's labels ("" if none), one of the
   dedup keys, the record's normalised value under it - and a node of the start store, or a
   node created earlier from this stream, answering to exactly that *)
Definition hit_prov (s : store) (labels : list str) (v2 : bool) (ks : list str)
  (pre : list action) (r : nrec) (eid : N) : Prop :=
  exists key l j vs,
    In key ks /\ In l (snap_labels r) /\ aget key (nr_props r) = Some j
    /\ dval_json norm numstr j = Some vs
    /\ (matches_existing norm s labels l key vs eid
        \/ matches_created narrow norm numstr v2 pre l key vs eid).

Lemma step_node_shape : forall v2 ks x r x',
  step_line narrow norm numstr v2 ks x (LNode r) = Some x' ->
  (exists eid, dedup_lookup norm numstr (dindex x) ks r = Some eid
     /\ remap x' = (nr_id r, eid) :: remap x /\ dindex x' = dindex x /\ created x' = created x)
  \/ (exists id, remap x' = (nr_id r, id) :: remap x /\ created x' = created x ++ [id]
        /\ dindex x' = register narrow norm numstr v2 ks r id (dindex x)).
Proof.
  intros v2 ks x r x' H. cbn in H.
  destruct (dedup_lookup norm numstr (dindex x) ks r) as [eid|] eqn:E.
  - inversion H; subst x'. left. exists eid. repeat split.
  - destruct (alloc (st x)) as [[id fr] nx]. inversion H; subst x'. right. exists id. repeat split.
Qed.

Lemma step_other_dindex : forall v2 ks x l x',
  (match l with LNode _ => False | _ => True end) ->
  step_line narrow norm numstr v2 ks x l = Some x' -> dindex x' = dindex x.
Proof.
  intros v2 ks x l x' Hl H. destruct l; cbn in H; try contradiction.
  - destruct (rget (er_src r) (remap x)); [|discriminate].
    destruct (rget (er_tgt r) (remap x)); [|discriminate]. inversion H; reflexivity.
  - inversion H; reflexivity.
  - inversion H; reflexivity.
  - discriminate.
Qed.

Lemma PROV_mono : forall s labels v2 ks pre pre' d,
  (forall a, In a pre -> In a pre') ->
  PROV narrow norm numstr s labels v2 ks pre d -> PROV narrow norm numstr s labels v2 ks pre' d.
Proof. intros s labels v2 ks pre pre' d Hs H k id Hk. eapply prov_mono; eauto. Qed.

Lemma run_content_prov : forall s labels v2 ks ls x x' pre,
  INV x -> wf_lines ls -> PROV narrow norm numstr s labels v2 ks pre (dindex x) ->
  run_lines narrow norm numstr v2 ks x ls = (x', true) ->
  exists acts,
    map act_rec acts = line_recs ls
    /\ astar narrow norm numstr ks (cfg_of x) acts (cfg_of x')
    /\ created x' = created x ++ created_ids acts
    /\ merges x' = merges x + N.of_nat (count_merges acts)
    /\ (forall p r eid q, acts = p ++ AMerge r eid :: q -> hit_prov s labels v2 ks (pre ++ p) r eid).
Proof.
  intros s labels v2 ks ls. induction ls as [|l t IH]; intros x x' pre HI Hw HP H; cbn in H.
  - inversion H; subst. exists []. repeat split; cbn; try constructor; try now rewrite app_nil_r. lia.
    intros p r eid q E. destruct p; discriminate.
  - destruct (step_line narrow norm numstr v2 ks x l) as [x1|] eqn:E; [|discriminate].
    inversion Hw as [|? ? Hl Ht]; subst.
    destruct (step_content _ _ _ _ _ _ _ _ HI Hl E) as [HI1 Hs].
    destruct l as [r|r|r| |].
    + (* node record *)
      destruct Hs as (a & A1 & A2 & A3 & A4).
      pose proof (astep_inv _ _ _ _ _ _ _ _ _ A2) as Ainv.
      assert (Hstep : PROV narrow norm numstr s labels v2 ks (pre ++ [a]) (dindex x1)
                      /\ (forall r0 eid, a = AMerge r0 eid -> hit_prov s labels v2 ks pre r0 eid)).
      { destruct (step_node_shape _ _ _ _ _ E) as [(eid0 & D1 & D2 & D3 & D4)|(id0 & D2 & D4 & D3)].
        - rewrite D3. split.
          + eapply PROV_mono; [|exact HP]. intros a0 H0. apply in_or_app. now left.
          + intros r0 eid Ea. subst a. cbn in A1. inversion A1; subst r0.
            destruct Ainv as (ns1 & Ec & _). unfold cfg_of in Ec. inversion Ec as [[E1 E2 E3]].
            rewrite D2 in E3. inversion E3; subst eid.
            destruct (dedup_lookup_in _ _ _ _ _ _ D1) as (key & l0 & j & vs & K1 & K2 & K3 & K4 & K5).
            destruct (HP _ _ K5) as [_ Hm]. exists key, l0, j, vs. repeat split; assumption.
        - destruct a as [r0 eid|r0 id|r0 a0 b0]; cbn in A1; try discriminate; inversion A1; subst r0.
          + exfalso. rewrite D4 in A3. cbn in A3. rewrite app_nil_r in A3.
            apply (f_equal (@length N)) in A3. rewrite app_length in A3. cbn in A3. lia.
          + destruct Ainv as (n1 & Ec & _). unfold cfg_of in Ec. inversion Ec as [[E1 E2 E3]].
            rewrite D2 in E3. inversion E3; subst id. split; [|intros ? ? Hd; discriminate Hd].
            rewrite D3. apply register_prov.
            * apply in_or_app. right. now left.
            * eapply PROV_mono; [|exact HP]. intros a0 H0. apply in_or_app. now left. }
      destruct Hstep as [HP1 Hhit].
      destruct (IH x1 x' (pre ++ [a]) HI1 Ht HP1 H) as (acts & R1 & R2 & R3 & R4 & R5).
      exists (a :: acts). repeat split.
      * cbn. now rewrite A1, R1.
      * econstructor; eauto.
      * rewrite R3, A3. cbn [created_ids flat_map]. rewrite app_nil_r, <- app_assoc. reflexivity.
      * rewrite R4, A4. unfold count_merges. cbn [filter]. destruct a; cbn [length]; lia.
      * intros p r0 eid q Eq. destruct p as [|a0 p'].
        -- cbn in Eq. inversion Eq; subst. rewrite app_nil_r. now apply Hhit.
        -- cbn in Eq. inversion Eq; subst. specialize (R5 _ _ _ _ eq_refl).
           rewrite <- app_assoc in R5. exact R5.
    + (* edge record *)
      destruct Hs as (a & A1 & A2 & A3 & A4).
      assert (HP1 : PROV narrow norm numstr s labels v2 ks (pre ++ [a]) (dindex x1)).
      { rewrite (step_other_dindex v2 ks x (LEdge r) x1 I E). eapply PROV_mono; [|exact HP].
        intros a0 H0. apply in_or_app. now left. }
      destruct (IH x1 x' (pre ++ [a]) HI1 Ht HP1 H) as (acts & R1 & R2 & R3 & R4 & R5).
      exists (a :: acts). repeat split.
      * cbn. now rewrite A1, R1.
      * econstructor; eauto.
      * rewrite R3, A3. destruct a; try discriminate. reflexivity.
      * rewrite R4, A4. destruct a; try discriminate. reflexivity.
      * intros p r0 eid q Eq. destruct p as [|a0 p'].
        -- cbn in Eq. inversion Eq; subst. discriminate A1.
        -- cbn in Eq. inversion Eq; subst. specialize (R5 _ _ _ _ eq_refl).
           rewrite <- app_assoc in R5. exact R5.
    + destruct Hs as (S1 & S2 & S3).
      assert (HP1 : PROV narrow norm numstr s labels v2 ks pre (dindex x1)) by (rewrite (step_other_dindex v2 ks x (LHier r) x1 I E); exact HP).
      destruct (IH x1 x' pre HI1 Ht HP1 H) as (acts & R1 & R2 & R3 & R4 & R5).
      exists acts. rewrite <- S1, <- S2, <- S3. repeat split; assumption.
    + destruct Hs as (S1 & S2 & S3).
      assert (HP1 : PROV narrow norm numstr s labels v2 ks pre (dindex x1)) by (rewrite (step_other_dindex v2 ks x LSkip x1 I E); exact HP).
      destruct (IH x1 x' pre HI1 Ht HP1 H) as (acts & R1 & R2 & R3 & R4 & R5).
      exists acts. rewrite <- S1, <- S2, <- S3. repeat split; assumption.
    + discriminate.
Qed.

(* the full statement: C13_success_content plus what every merge target matched *)
Theorem success_actions_prov : forall s v2 labels ls ks s' c m,
  wf_pre s -> wf_lines ls ->
  import narrow norm numstr s (HOk v2 labels) ls ks = Imported s' c m ->
  exists acts im,
    map act_rec acts = line_recs ls
    /\ astar narrow norm numstr ks (nodes s, edges s, []) acts (nodes s', edges s', im)
    /\ c = nlen (created_ids acts) /\ m = N.of_nat (count_merges acts)
    /\ (forall p r eid q, acts = p ++ AMerge r eid :: q -> hit_prov s labels v2 ks p r eid).
Proof.
  intros s v2 labels ls ks s' c m (Ha & Hid & Hc) Hw H. unfold import in H.
  match type of H with context [run_lines _ _ _ v2 ks ?X ls] => set (x0 := X) in * end.
  destruct (run_lines narrow norm numstr v2 ks x0 ls) as [x ok] eqn:Er. destruct ok; [|discriminate].
  inversion H; subst s' c m; clear H.
  assert (I0 : INV x0).
  { constructor; cbn [x0 st dindex]; try assumption. apply prepop_vals. }
  assert (P0 : PROV narrow norm numstr s labels v2 ks [] (dindex x0)) by apply prepop_prov.
  destruct (run_content_prov _ _ _ _ _ _ _ _ I0 Hw P0 Er) as (acts & R1 & R2 & R3 & R4 & R5).
  destruct (add_hier_nodes_edges (hdecls x) (st x)) as [H1 H2].
  exists acts, (remap x). rewrite H1, H2. repeat split.
  - exact R1.
  - exact R2.
  - rewrite R3. reflexivity.
  - rewrite R4. cbn [x0 merges]. lia.
  - intros p r eid q E. exact (R5 _ _ _ _ E).
Qed.
End ProvRun.
