(* C26: the dijkstra model of model/Algos.v returns a real path of optimal cost, None exactly
   when the target is unreachable, and never runs out of fuel (settled-set invariant). *)
From Coq Require Import List NArith Bool Arith Lia ZifyBool ZifyNat ZifyN Permutation.
From Verif Require Import CheckLib Algos AlgosProofs.
Import ListNotations.

(* ================================================================== *)
(* Dijkstra                                                             *)
(* ================================================================== *)

Lemma pop_min_none : forall {A} (key : A -> N) l, pop_min key l = None -> l = [].
Proof.
  intros A key l; destruct l as [|a l]; [reflexivity|]. cbn [pop_min].
  destruct (pop_min key l) as [[y r]|]; [destruct (key a <=? key y)%N|]; discriminate.
Qed.

Lemma pop_min_perm : forall {A} (key : A -> N) l x r, pop_min key l = Some (x, r) ->
  Permutation l (x :: r) /\ forall y, In y l -> (key x <= key y)%N.
Proof.
  intros A key l; induction l as [|a l IH]; intros x r H; cbn [pop_min] in H; [discriminate|].
  destruct (pop_min key l) as [[y r']|] eqn:E.
  - destruct (IH y r' eq_refl) as [Hp Hm]. destruct (N.leb_spec (key a) (key y)) as [Hle|Hgt]; inversion H; subst.
    + split; [apply Permutation_refl|]. intros z [<-|Hz]; [lia|]. specialize (Hm z Hz). lia.
    + split.
      * eapply Permutation_trans; [apply perm_skip; exact Hp|apply perm_swap].
      * intros z [<-|Hz]; [lia|]. apply Hm; exact Hz.
  - inversion H; subst. apply pop_min_none in E. subst l. split; [apply Permutation_refl|].
    intros z [<-|[]]. lia.
Qed.

Section DijOpt.
Variable g : graph.
Variable s t : nat.
Hypothesis Hwf : wf g.
Hypothesis Hs : s < gn g.

(* settle order: newest first; rank = 1-based settle time, mu puts unsettled nodes last *)
Fixpoint rank (se : list nat) (v : nat) : nat :=
  match se with
  | [] => 0
  | x :: r => if x =? v then S (length r) else rank r v
  end.
Definition mu (se : list nat) (v : nat) : nat := if memb v se then rank se v else S (length se).

Lemma memb_in : forall x l, memb x l = true <-> In x l.
Proof.
  intros x l. unfold memb. rewrite existsb_exists. split.
  - intros [y [Hy E]]. apply Nat.eqb_eq in E. subst. exact Hy.
  - intros H. exists x. split; [exact H|apply Nat.eqb_refl].
Qed.

Lemma rank_le : forall se v, rank se v <= length se.
Proof. induction se as [|x r IH]; intros v; cbn; [lia|]. destruct (x =? v); [lia|specialize (IH v); lia]. Qed.

Lemma mu_settled_lt : forall se u v, In u se -> ~ In v se -> mu se u < mu se v.
Proof.
  intros se u v Hu Hv. unfold mu. apply memb_in in Hu. rewrite Hu.
  destruct (memb v se) eqn:E; [apply memb_in in E; contradiction|]. pose proof (rank_le se u). lia.
Qed.

Lemma mu_cons_old : forall se u x, ~ In u se -> In x se -> mu (u :: se) x = mu se x.
Proof.
  intros se u x Hu Hx. unfold mu. assert (u <> x) by (intros ->; contradiction).
  replace (memb x (u :: se)) with true by (symmetry; apply memb_in; right; exact Hx).
  replace (memb x se) with true by (symmetry; apply memb_in; exact Hx).
  cbn [rank]. destruct (Nat.eqb_spec u x); [contradiction|reflexivity].
Qed.

Lemma mu_cons_new : forall se u, ~ In u se -> mu (u :: se) u = mu se u.
Proof.
  intros se u Hu. unfold mu.
  replace (memb u (u :: se)) with true by (symmetry; apply memb_in; left; reflexivity).
  destruct (memb u se) eqn:E; [apply memb_in in E; contradiction|].
  cbn [rank]. rewrite Nat.eqb_refl. reflexivity.
Qed.

Lemma mu_cons_unsettled : forall se u x, ~ In x (u :: se) -> mu (u :: se) x = S (mu se x) .
Proof.
  intros se u x Hx. unfold mu.
  destruct (memb x (u :: se)) eqn:E; [apply memb_in in E; contradiction|].
  destruct (memb x se) eqn:E2; [apply memb_in in E2; exfalso; apply Hx; right; exact E2|]. reflexivity.
Qed.

Record dinv (se : list nat) (pu : nat) (pend : list (nat * N))
       (heap : list (N * nat)) (dist : list (nat * N)) (par : list (nat * nat)) : Prop := {
  i_s : alookup s dist = Some 0%N /\ alookup s par = None;
  i_heap : forall c v, In (c, v) heap -> exists dv, alookup v dist = Some dv /\ (dv <= c)%N;
  i_dist : forall v dv, alookup v dist = Some dv ->
             walk g s v dv /\ (In v se \/ In (dv, v) heap) /\ (v = s \/ is_some (alookup v par) = true);
  i_set : forall u, In u se -> exists du, alookup u dist = Some du /\
             (forall c', walk g s u c' -> (du <= c')%N) /\
             (forall v w, In (u, v, w) (ge g) ->
                (u = pu /\ In (v, w) pend) \/ exists dv, alookup v dist = Some dv /\ (dv <= du + w)%N);
  i_mono : forall u du c v, In u se -> alookup u dist = Some du -> In (c, v) heap -> (du <= c)%N;
  i_t : ~ In t se;
  i_stale : forall c v dv, In (c, v) heap -> In v se -> alookup v dist = Some dv -> (dv < c)%N;
  i_nodup : NoDup heap /\ NoDup se;
  i_par : forall v u, alookup v par = Some u ->
             In u se /\ mu se u < mu se v /\
             exists w du dv, In (u, v, w) (ge g) /\ alookup u dist = Some du /\
                             alookup v dist = Some dv /\ (du + w <= dv)%N
}.

(* every walk from s ends in a settled node whose label is at most the walk's cost, or there
   is a heap entry at most that cost *)
Lemma dij_claim : forall se pu heap dist par, dinv se pu [] heap dist par ->
  forall k v c', walkn g s k v c' ->
  (In v se /\ exists dv, alookup v dist = Some dv /\ (dv <= c')%N) \/
  (exists cy y, In (cy, y) heap /\ (cy <= c')%N).
Proof.
  intros se pu heap dist par I k v c' Hw. induction Hw as [k|k x v w c1 Hw IH Hin].
  - destruct (i_dist _ _ _ _ _ _ I s 0%N (proj1 (i_s _ _ _ _ _ _ I))) as [_ [[Hse|Hh] _]].
    + left. split; [exact Hse|]. exists 0%N. split; [exact (proj1 (i_s _ _ _ _ _ _ I))|lia].
    + right. exists 0%N, s. split; [exact Hh|lia].
  - destruct IH as [[Hx [dx [Edx Hle]]]|[cy [y [Hy Hle]]]]; [|right; exists cy, y; split; [exact Hy|lia]].
    destruct (i_set _ _ _ _ _ _ I x Hx) as [dx' [Edx' [_ Hedges]]].
    rewrite Edx in Edx'. inversion Edx'; subst dx'.
    destruct (Hedges v w Hin) as [[_ []]|[dv [Edv Hdv]]].
    destruct (i_dist _ _ _ _ _ _ I v dv Edv) as [_ [[Hse|Hh] _]].
    + left. split; [exact Hse|]. exists dv. split; [exact Edv|lia].
    + right. exists dv, v. split; [exact Hh|lia].
Qed.

Lemma alookup_cons : forall {A} (k : nat) (v : A) l x,
  alookup x ((k, v) :: l) = if k =? x then Some v else alookup x l.
Proof. reflexivity. Qed.

Lemma nodup_snoc' : forall {A} (l : list A) x, NoDup l -> ~ In x l -> NoDup (l ++ [x]).
Proof.
  intros A l x Hl Hx. apply nodup_app; [exact Hl|constructor; [intros []|constructor]|].
  intros y Hy [<-|[]]. contradiction.
Qed.

(* one relaxation from the settled node u whose label is c *)
Lemma relax_step : forall se u c v w l h d p,
  dinv se u ((v, w) :: l) h d p -> In u se -> alookup u d = Some c ->
  (forall x dx, In x se -> alookup x d = Some dx -> (dx <= c)%N) ->
  In (u, v, w) (ge g) ->
  exists h' d' p', dij_relax c u (h, d, p) (v, w) = (h', d', p') /\
    dinv se u l h' d' p' /\ alookup u d' = Some c /\
    (forall x dx, In x se -> alookup x d' = Some dx -> (dx <= c)%N) /\
    length h' <= S (length h).
Proof.
  intros se u c v w l h d p I Hu Ec Hle Hedge.
  assert (Hwu : walk g s u c) by (apply (i_dist _ _ _ _ _ _ I u c Ec)).
  assert (Hwv : walk g s v (c + w)%N) by (eapply walk_trans; [exact Hwu|apply walk_edge; exact Hedge]).
  unfold dij_relax.
  destruct (match alookup v d with Some dv => (c + w <? dv)%N | None => true end) eqn:Eupd.
  - (* the label of v improves *)
    assert (Hvse : ~ In v se).
    { intros Hv. destruct (i_set _ _ _ _ _ _ I v Hv) as [dv [Edv [Hopt _]]]. rewrite Edv in Eupd.
      specialize (Hopt _ Hwv). lia. }
    assert (Hvs : v <> s).
    { intros ->. rewrite (proj1 (i_s _ _ _ _ _ _ I)) in Eupd. lia. }
    assert (Hvu : v <> u) by (intros ->; contradiction).
    assert (Hold : forall dv0, alookup v d = Some dv0 -> (c + w < dv0)%N).
    { intros dv0 E. rewrite E in Eupd. lia. }
    assert (Hsame : forall x, In x se -> alookup x ((v, (c + w)%N) :: d) = alookup x d).
    { intros x Hx. rewrite alookup_cons. destruct (Nat.eqb_spec v x) as [->|]; [contradiction|reflexivity]. }
    exists (h ++ [((c + w)%N, v)]), ((v, (c + w)%N) :: d), ((v, u) :: p).
    split; [reflexivity|]. split; [|split; [|split]].
    + constructor.
      * destruct (i_s _ _ _ _ _ _ I) as [A B]. rewrite !alookup_cons.
        destruct (Nat.eqb_spec v s); [contradiction|]. split; assumption.
      * intros c0 x Hin. apply in_app_iff in Hin. rewrite alookup_cons. destruct Hin as [Hin|[E|[]]].
        -- destruct (i_heap _ _ _ _ _ _ I c0 x Hin) as [dx [Edx Hdx]].
           destruct (Nat.eqb_spec v x) as [->|]; [|exists dx; split; assumption].
           exists (c + w)%N. split; [reflexivity|]. specialize (Hold dx Edx). lia.
        -- inversion E; subst. rewrite Nat.eqb_refl. exists (c + w)%N. split; [reflexivity|lia].
      * intros x dx. rewrite !alookup_cons. destruct (Nat.eqb_spec v x) as [->|Hne].
        -- intros E; inversion E; subst dx. split; [exact Hwv|]. split; [right; apply in_app_iff; right; left; reflexivity|].
           right. reflexivity.
        -- intros E. destruct (i_dist _ _ _ _ _ _ I x dx E) as [A [B C]]. split; [exact A|]. split; [|exact C].
           destruct B as [B|B]; [left; exact B|right; apply in_app_iff; left; exact B].
      * intros x Hx. destruct (i_set _ _ _ _ _ _ I x Hx) as [dx [Edx [Hopt Hedges]]].
        exists dx. rewrite (Hsame x Hx). split; [exact Edx|]. split; [exact Hopt|].
        intros y wy Hy. rewrite alookup_cons.
        destruct (Hedges y wy Hy) as [[-> Hp]|[dv [Edv Hdv]]].
        -- destruct Hp as [E|Hp]; [|left; split; [reflexivity|exact Hp]].
           inversion E; subst. right. rewrite Nat.eqb_refl. exists (c + wy)%N. split; [reflexivity|].
           rewrite Ec in Edx. inversion Edx; subst. lia.
        -- right. destruct (Nat.eqb_spec v y) as [<-|Hne]; [|exists dv; split; assumption].
           exists (c + w)%N. split; [reflexivity|]. specialize (Hold dv Edv). lia.
      * intros x dx c0 y Hx. rewrite (Hsame x Hx). intros Edx Hin. apply in_app_iff in Hin.
        destruct Hin as [Hin|[E|[]]]; [eapply (i_mono _ _ _ _ _ _ I); eassumption|].
        inversion E; subst. specialize (Hle x dx Hx Edx). lia.
      * exact (i_t _ _ _ _ _ _ I).
      * intros c0 y dy Hin Hy. rewrite (Hsame y Hy). intros Edy. apply in_app_iff in Hin.
        destruct Hin as [Hin|[E|[]]]; [eapply (i_stale _ _ _ _ _ _ I); eassumption|].
        inversion E; subst. contradiction.
      * destruct (i_nodup _ _ _ _ _ _ I) as [A B]. split; [|exact B]. apply nodup_snoc'; [exact A|].
        intros Hin. destruct (i_heap _ _ _ _ _ _ I _ _ Hin) as [dv [Edv Hdv]]. specialize (Hold dv Edv). lia.
      * intros x y. rewrite alookup_cons. destruct (Nat.eqb_spec v x) as [<-|Hne].
        -- intros E; inversion E; subst y. split; [exact Hu|]. split; [apply mu_settled_lt; assumption|].
           exists w, c, (c + w)%N. split; [exact Hedge|]. split; [rewrite (Hsame u Hu); exact Ec|].
           split; [rewrite alookup_cons, Nat.eqb_refl; reflexivity|lia].
        -- intros E. destruct (i_par _ _ _ _ _ _ I x y E) as [Hy [Hmu [w0 [dy [dx [He [Edy [Edx Hd]]]]]]]].
           split; [exact Hy|]. split; [exact Hmu|]. exists w0, dy, dx. split; [exact He|].
           split; [rewrite (Hsame y Hy); exact Edy|]. split; [|exact Hd].
           rewrite alookup_cons. destruct (Nat.eqb_spec v x); [contradiction|exact Edx].
    + rewrite (Hsame u Hu). exact Ec.
    + intros x dx Hx. rewrite (Hsame x Hx). apply Hle. exact Hx.
    + rewrite app_length. cbn [length]. lia.
  - (* no improvement: the edge is already satisfied *)
    exists h, d, p. split; [reflexivity|]. split; [|split; [exact Ec|split; [exact Hle|lia]]].
    destruct I as [Is Ih Id Iset Im It Ist Ind Ip]. constructor; try assumption.
    intros x Hx. destruct (Iset x Hx) as [dx [Edx [Hopt Hedges]]]. exists dx. split; [exact Edx|]. split; [exact Hopt|].
    intros y wy Hy. destruct (Hedges y wy Hy) as [[-> Hp]|R]; [|right; exact R].
    destruct Hp as [E|Hp]; [|left; split; [reflexivity|exact Hp]].
    inversion E; subst. right. rewrite Ec in Edx. inversion Edx; subst.
    destruct (alookup y d) as [dv|]; [|discriminate]. exists dv. split; [reflexivity|lia].
Qed.

Lemma relax_all : forall l se u c h d p,
  dinv se u l h d p -> In u se -> alookup u d = Some c ->
  (forall x dx, In x se -> alookup x d = Some dx -> (dx <= c)%N) ->
  (forall v w, In (v, w) l -> In (u, v, w) (ge g)) ->
  exists h' d' p', fold_left (dij_relax c u) l (h, d, p) = (h', d', p') /\
    dinv se u [] h' d' p' /\ length h' <= length h + length l.
Proof.
  induction l as [|[v w] l IH]; intros se u c h d p I Hu Ec Hle Hl.
  - exists h, d, p. split; [reflexivity|]. split; [exact I|cbn; lia].
  - destruct (relax_step se u c v w l h d p I Hu Ec Hle (Hl v w (or_introl eq_refl)))
      as [h1 [d1 [p1 [E1 [I1 [Ec1 [Hle1 Hlen1]]]]]]].
    destruct (IH se u c h1 d1 p1 I1 Hu Ec1 Hle1 (fun v0 w0 H => Hl v0 w0 (or_intror H)))
      as [h2 [d2 [p2 [E2 [I2 Hlen2]]]]].
    exists h2, d2, p2. split; [cbn [fold_left]; rewrite E1; exact E2|]. split; [exact I2|cbn [length]; lia].
Qed.

(* edges whose source is not settled yet *)
Definition ue (se : list nat) : nat := length (filter (fun e => negb (memb (esrc e) se)) (ge g)).

Lemma ue_settle : forall se u, ~ In u se -> ue se = ue (u :: se) + length (succs g u).
Proof.
  intros se u Hu. unfold ue, succs. rewrite map_length.
  induction (ge g) as [|e E IH]; [reflexivity|]. cbn [filter].
  assert (Hm : memb (esrc e) (u :: se) = (esrc e =? u) || memb (esrc e) se) by reflexivity.
  rewrite Hm. destruct (Nat.eqb_spec (esrc e) u) as [Eq|Ne].
  - rewrite Eq. destruct (memb u se) eqn:Em; [apply memb_in in Em; contradiction|]. cbn [orb negb length]. lia.
  - cbn [orb]. destruct (memb (esrc e) se); cbn [negb length]; lia.
Qed.

(* removing a stale heap entry *)
Lemma pop_stale : forall se pu heap d p c u heap' du,
  dinv se pu [] heap d p -> pop_min fst heap = Some ((c, u), heap') ->
  alookup u d = Some du -> (du < c)%N -> dinv se pu [] heap' d p.
Proof.
  intros se pu heap d p c u heap' du I Hpop Edu Hlt.
  destruct (pop_min_perm _ _ _ _ Hpop) as [Hperm _].
  assert (Hsub : forall x, In x heap' -> In x heap)
    by (intros x Hx; eapply Permutation_in; [apply Permutation_sym; exact Hperm|right; exact Hx]).
  destruct I as [Is Ih Id Iset Im It Ist Ind Ip]. constructor; try assumption.
  - intros c0 v Hin. apply Ih, Hsub, Hin.
  - intros v dv E. destruct (Id v dv E) as [A [B C]]. split; [exact A|]. split; [|exact C].
    destruct B as [B|B]; [left; exact B|]. right.
    apply (Permutation_in _ Hperm) in B. destruct B as [B|B]; [|exact B].
    inversion B; subst. rewrite Edu in E. inversion E; subst. lia.
  - intros x dx c0 y Hx Edx Hin. eapply Im; [exact Hx|exact Edx|apply Hsub; exact Hin].
  - intros c0 y dy Hin. apply Ist, Hsub, Hin.
  - destruct Ind as [A B]. split; [|exact B].
    apply (Permutation_NoDup Hperm) in A. inversion A; assumption.
Qed.

(* settling the node at the top of the heap *)
Lemma pop_settle : forall se pu heap d p c u heap' du,
  dinv se pu [] heap d p -> pop_min fst heap = Some ((c, u), heap') -> u <> t ->
  alookup u d = Some du -> ~ (du < c)%N ->
  du = c /\ ~ In u se /\ dinv (u :: se) u (succs g u) heap' d p /\
  (forall x dx, In x (u :: se) -> alookup x d = Some dx -> (dx <= c)%N).
Proof.
  intros se pu heap d p c u heap' du I Hpop Hut Edu Hnl.
  destruct (pop_min_perm _ _ _ _ Hpop) as [Hperm Hmin].
  assert (Hin : In (c, u) heap) by (eapply Permutation_in; [apply Permutation_sym; exact Hperm|left; reflexivity]).
  assert (Hsub : forall x, In x heap' -> In x heap)
    by (intros x Hx; eapply Permutation_in; [apply Permutation_sym; exact Hperm|right; exact Hx]).
  destruct (i_heap _ _ _ _ _ _ I c u Hin) as [du' [Edu' Hdu]]. rewrite Edu in Edu'. inversion Edu'; subst du'.
  assert (Hdc : du = c) by lia. subst du.
  assert (Huse : ~ In u se).
  { intros Hu. pose proof (i_stale _ _ _ _ _ _ I c u c Hin Hu Edu). lia. }
  assert (Hnd : NoDup ((c, u) :: heap')) by (apply (Permutation_NoDup Hperm), (i_nodup _ _ _ _ _ _ I)).
  split; [reflexivity|]. split; [exact Huse|]. split.
  - constructor.
    + exact (i_s _ _ _ _ _ _ I).
    + intros c0 v H0. apply (i_heap _ _ _ _ _ _ I), Hsub, H0.
    + intros v dv E. destruct (i_dist _ _ _ _ _ _ I v dv E) as [A [B C]]. split; [exact A|]. split; [|exact C].
      destruct B as [B|B]; [left; right; exact B|].
      apply (Permutation_in _ Hperm) in B. destruct B as [B|B]; [|right; exact B].
      inversion B; subst. left; left; reflexivity.
    + intros x [<-|Hx].
      * exists c. split; [exact Edu|]. split.
        -- intros c' [k Hw]. destruct (dij_claim _ _ _ _ _ I k u c' Hw) as [[Hu _]|[cy [y [Hy Hle]]]]; [contradiction|].
           specialize (Hmin _ Hy). cbn [fst] in Hmin. lia.
        -- intros v w Hvw. left. split; [reflexivity|apply succs_in; exact Hvw].
      * destruct (i_set _ _ _ _ _ _ I x Hx) as [dx [Edx [Hopt Hedges]]]. exists dx. split; [exact Edx|]. split; [exact Hopt|].
        intros v w Hvw. destruct (Hedges v w Hvw) as [[_ []]|R]. right; exact R.
    + intros x dx c0 y [<-|Hx] Edx H0.
      * rewrite Edu in Edx. inversion Edx; subst. specialize (Hmin _ (Hsub _ H0)). cbn [fst] in Hmin. exact Hmin.
      * eapply (i_mono _ _ _ _ _ _ I); [exact Hx|exact Edx|apply Hsub; exact H0].
    + intros [E|H0]; [exact (Hut E)|exact (i_t _ _ _ _ _ _ I H0)].
    + intros c0 y dy H0 [<-|Hy] Edy.
      * rewrite Edu in Edy. inversion Edy; subst. specialize (Hmin _ (Hsub _ H0)). cbn [fst] in Hmin.
        destruct (N.eq_dec dy c0) as [->|Hne]; [|lia]. inversion Hnd; contradiction.
      * eapply (i_stale _ _ _ _ _ _ I); [apply Hsub; exact H0|exact Hy|exact Edy].
    + split; [inversion Hnd; assumption|]. constructor; [exact Huse|apply (i_nodup _ _ _ _ _ _ I)].
    + intros x y E. destruct (i_par _ _ _ _ _ _ I x y E) as [Hy [Hmu R]]. split; [right; exact Hy|]. split; [|exact R].
      rewrite (mu_cons_old se u y Huse Hy).
      destruct (in_dec Nat.eq_dec x (u :: se)) as [[<-|Hx]|Hx].
      * rewrite mu_cons_new by exact Huse. exact Hmu.
      * rewrite mu_cons_old by assumption. exact Hmu.
      * rewrite mu_cons_unsettled by exact Hx. lia.
  - intros x dx [<-|Hx] Edx.
    + rewrite Edu in Edx. inversion Edx; subst. lia.
    + eapply (i_mono _ _ _ _ _ _ I); eassumption.
Qed.

Lemma settled_bound : forall se pu pend heap d p, dinv se pu pend heap d p -> length se <= gn g.
Proof.
  intros se pu pend heap d p I. rewrite <- (seq_length (gn g) 0).
  apply NoDup_incl_length; [apply (i_nodup _ _ _ _ _ _ I)|].
  intros x Hx. apply in_seq. destruct (i_set _ _ _ _ _ _ I x Hx) as [dx [Edx _]].
  destruct (i_dist _ _ _ _ _ _ I x dx Edx) as [[k Hw] _]. pose proof (walkn_end_lt _ _ _ _ _ Hwf Hs Hw). lia.
Qed.

(* following the parent links from a labelled node reaches s within mu steps and yields a
   real path that costs at most the label *)
Lemma dij_recon : forall se pu heap d p, dinv se pu [] heap d p ->
  forall fuel cur acc k dc, mu se cur < fuel -> alookup cur d = Some dc ->
  path_cost g (cur :: acc) k ->
  exists pth k', recon fuel (fun i => alookup i p) cur acc = Some pth /\
    path_cost g pth k' /\ (k' <= k + dc)%N /\ hd_error pth = Some s /\
    last pth s = last (cur :: acc) s.
Proof.
  intros se pu heap d p I fuel; induction fuel as [|f IH]; intros cur acc k dc Hmu Edc Hpc; [lia|].
  cbn [recon]. destruct (alookup cur p) as [u|] eqn:Ep.
  - destruct (i_par _ _ _ _ _ _ I cur u Ep) as [Hu [Hlt [w [du [dv [He [Edu [Edv Hd]]]]]]]].
    rewrite Edc in Edv. inversion Edv; subst dv.
    destruct (IH u (cur :: acc) (w + k)%N du ltac:(lia) Edu (PCS _ _ _ _ _ _ He Hpc))
      as [pth [k' [Hr [Hp [Hk [Hh Hl]]]]]].
    exists pth, k'. split; [exact Hr|]. split; [exact Hp|]. split; [lia|]. split; [exact Hh|].
    rewrite Hl. reflexivity.
  - destruct (i_dist _ _ _ _ _ _ I cur dc Edc) as [_ [_ [->|C]]]; [|rewrite Ep in C; discriminate].
    rewrite (proj1 (i_s _ _ _ _ _ _ I)) in Edc. inversion Edc; subst dc.
    exists (s :: acc), k. split; [reflexivity|]. split; [exact Hpc|]. split; [lia|]. split; reflexivity.
Qed.

Lemma dij_loop_opt : forall fuel se pu heap d p,
  dinv se pu [] heap d p -> length heap + ue se + 1 <= fuel -> t < gn g ->
  pres_optimal g s t (sp_cost g s t) (dij_loop fuel g t heap d p).
Proof.
  induction fuel as [|f IH]; intros se pu heap d p I Hfuel Ht; [lia|].
  cbn [dij_loop]. pose proof (sp_cost_spec g s t Hwf Hs Ht) as Hspec.
  destruct (pop_min fst heap) as [[[c u] heap']|] eqn:Hpop.
  - destruct (pop_min_perm _ _ _ _ Hpop) as [Hperm Hmin].
    assert (Hin : In (c, u) heap) by (eapply Permutation_in; [apply Permutation_sym; exact Hperm|left; reflexivity]).
    assert (Hlen : length heap = S (length heap')) by (rewrite (Permutation_length Hperm); reflexivity).
    destruct (i_heap _ _ _ _ _ _ I c u Hin) as [du [Edu Hdu]].
    destruct (Nat.eqb_spec u t) as [->|Hut].
    + (* the target is at the top of the heap *)
      destruct (i_dist _ _ _ _ _ _ I t du Edu) as [Hwt [[Hse|Hh] _]]; [exfalso; exact (i_t _ _ _ _ _ _ I Hse)|].
      assert (Hcd : c = du) by (specialize (Hmin _ Hh); cbn [fst] in Hmin; lia). subst c.
      assert (Hmu : mu se t < S (S (gn g))).
      { unfold mu. destruct (memb t se) eqn:Em; [apply memb_in in Em; exfalso; exact (i_t _ _ _ _ _ _ I Em)|].
        pose proof (settled_bound _ _ _ _ _ _ I). lia. }
      destruct (dij_recon _ _ _ _ _ I (S (S (gn g))) t [] 0%N du Hmu Edu (PC1 _ t))
        as [pth [k' [Hr [Hp [Hk [Hh' Hl]]]]]].
      rewrite Hr. cbn [pres_optimal]. cbn [last] in Hl.
      assert (Hw' : walk g s t k') by (rewrite <- Hl; apply (path_cost_walk g pth k' Hp s Hh')).
      destruct (sp_cost g s t) as [c0|]; cbn in Hspec.
      * destruct Hspec as [[k0 Hw0] Hopt].
        assert (Hc0 : c0 = du).
        { pose proof (Hopt _ Hwt).
          destruct (dij_claim _ _ _ _ _ I k0 t c0 Hw0) as [[Hse _]|[cy [y [Hy Hle]]]];
            [exfalso; exact (i_t _ _ _ _ _ _ I Hse)|].
          specialize (Hmin _ Hy). cbn [fst] in Hmin. lia. }
        subst c0. pose proof (Hopt _ Hw'). assert (k' = du) by lia. subst k'.
        split; [reflexivity|]. split; [exact Hp|]. split; [exact Hh'|exact Hl].
      * exfalso. apply Hspec. exists du. exact Hwt.
    + destruct (N.ltb_spec du c) as [Hlt|Hge].
      * (* stale entry *)
        rewrite Edu. replace (du <? c)%N with true by (symmetry; apply N.ltb_lt; exact Hlt).
        apply (IH se pu heap' d p (pop_stale _ _ _ _ _ _ _ _ _ I Hpop Edu Hlt)); [lia|exact Ht].
      * rewrite Edu. replace (du <? c)%N with false by (symmetry; apply N.ltb_ge; exact Hge).
        destruct (pop_settle _ _ _ _ _ _ _ _ _ I Hpop Hut Edu ltac:(lia)) as [-> [Huse [I1 Hle]]].
        destruct (relax_all (succs g u) (u :: se) u c heap' d p I1 (or_introl eq_refl) Edu Hle
                    (fun v w H => proj1 (succs_in g u v w) H)) as [h2 [d2 [p2 [E2 [I2 Hlen2]]]]].
        rewrite E2. apply (IH (u :: se) u h2 d2 p2 I2); [|exact Ht].
        pose proof (ue_settle se u Huse). lia.
  - (* heap empty: t is unreachable *)
    apply pop_min_none in Hpop. subst heap. cbn [pres_optimal].
    destruct (sp_cost g s t) as [c0|]; [|reflexivity]. exfalso. cbn in Hspec. destruct Hspec as [[k0 Hw0] _].
    destruct (dij_claim _ _ _ _ _ I k0 t c0 Hw0) as [[Hse _]|[cy [y [[] _]]]]. exact (i_t _ _ _ _ _ _ I Hse).
Qed.

End DijOpt.

(* C26_dijkstra_optimal *)
Theorem dijkstra_optimal : forall g s t, wf g -> s < gn g -> t < gn g ->
  pres_optimal g s t (sp_cost g s t) (dijkstra_model g s t).
Proof.
  intros g s t Hwf Hs Ht. unfold dijkstra_model.
  replace ((s <? gn g) && (t <? gn g)) with true
    by (symmetry; apply andb_true_iff; split; apply Nat.ltb_lt; assumption).
  apply (dij_loop_opt g s t Hwf Hs (S (S (length (ge g)))) [] 0 [(0%N, s)] [(s, 0%N)] []); [| |exact Ht].
  - constructor.
    + cbn. rewrite Nat.eqb_refl. split; reflexivity.
    + intros c v [E|[]]. inversion E; subst. exists 0%N. cbn. rewrite Nat.eqb_refl. split; [reflexivity|lia].
    + intros v dv. cbn [alookup]. destruct (Nat.eqb_spec s v) as [<-|]; [|discriminate].
      intros E; inversion E; subst. split; [apply walk_refl|]. split; [right; left; reflexivity|left; reflexivity].
    + intros u [].
    + intros u du c v [].
    + intros [].
    + intros c v dv _ [].
    + split; [constructor; [intros []|constructor]|constructor].
    + intros v u E. discriminate.
  - assert (Hf : forall (f : edge -> bool) l, length (filter f l) <= length l).
    { intros f l; induction l as [|e l IHl]; cbn [filter length]; [lia|]. destruct (f e); cbn [length]; lia. }
    unfold ue. specialize (Hf (fun e => negb (memb (esrc e) [])) (ge g)). cbn [length]. lia.
Qed.
