(* Proofs about the reference semantics of coq/model/CypherCore.v and Cypher.v. *)
From Coq Require Import List NArith ZArith Bool Lia Permutation Sorted.
From Verif Require Import CypherCore Cypher.
Import ListNotations.
Open Scope N_scope.

(* ------------------------------------------------------------------ *)
(* outcomes *)

Lemma oseq_map_Ok {A} (l : list A) : oseq (map Ok l) = Ok l.
Proof. induction l as [|x l IH]; cbn; [reflexivity | rewrite IH; reflexivity]. Qed.

Lemma oseq_ok {A} (l : list (outcome A)) (l' : list A) :
  oseq l = Ok l' <-> l = map Ok l'.
Proof.
  split.
  - revert l'; induction l as [|o l IH]; intros l' H; cbn in H.
    + inversion H; reflexivity.
    + destruct o as [a| | |]; destruct (oseq l) as [m| | |] eqn:E; cbn in H; try discriminate.
      inversion H; subst. cbn. f_equal. apply IH. reflexivity.
  - intros ->. apply oseq_map_Ok.
Qed.

Lemma omap_ok {A B} (f : A -> outcome B) (l : list A) (l' : list B) :
  omap f l = Ok l' <-> map f l = map Ok l'.
Proof. unfold omap. apply oseq_ok. Qed.

Lemma map_Ok_inj {A} (l l' : list A) : map (@Ok A) l = map Ok l' -> l = l'.
Proof.
  revert l'; induction l as [|x l IH]; intros [|y l'] H; cbn in H; try discriminate; auto.
  inversion H; subst. f_equal. auto.
Qed.

(* ------------------------------------------------------------------ *)
(* WHERE keeps exactly the rows whose predicate evaluates to true (three-valued logic) *)

Definition pred_true (cf : cfg) (g : graph) (pe : penv) (e : expr) (r : row) : bool :=
  match eval_pred cf g pe r e with Ok true => true | _ => false end.

Lemma filter_rows_spec cf g pe e rows out :
  filter_rows cf g pe (Some e) rows = Ok out ->
  out = filter (pred_true cf g pe e) rows
  /\ Forall (fun r => exists b, eval_pred cf g pe r e = Ok b) rows.
Proof.
  unfold filter_rows. intros H.
  destruct (omap _ rows) as [brs| | |] eqn:E; cbn in H; try discriminate.
  inversion H; subst; clear H.
  apply omap_ok in E. revert brs E.
  induction rows as [|r rows IH]; intros brs E; cbn [map] in E.
  - destruct brs; [|discriminate]. cbn. split; [reflexivity | constructor].
  - destruct brs as [|[b r'] brs]; [discriminate|]. cbn [map] in E. inversion E as [[E1 E2]]; clear E.
    destruct (IH _ E2) as [IH1 IH2].
    destruct (eval_pred cf g pe r e) as [b'| | |] eqn:P; cbn [obind] in E1; try discriminate.
    inversion E1; subst b' r'. split.
    + cbn [filter]. unfold pred_true at 1. rewrite P.
      destruct b; cbn [fst map snd filter]; rewrite IH1; reflexivity.
    + constructor; [exists b; exact P | exact IH2].
Qed.

(* eval_pred is true exactly when the predicate's value is the boolean true: null (unknown) and
   false both drop the row *)
Lemma eval_pred_true cf g pe r e :
  eval_pred cf g pe r e = Ok true <-> eval_expr cf g pe r e = Ok (VBool true).
Proof.
  unfold eval_pred. destruct (eval_expr cf g pe r e) as [v| | |]; cbn; try (split; discriminate).
  destruct v as [|[|]| | | | |]; cbn; split; intros H; try discriminate; try reflexivity; congruence.
Qed.

Lemma eval_pred_null cf g pe r e :
  eval_expr cf g pe r e = Ok VNull -> eval_pred cf g pe r e = Ok false.
Proof. unfold eval_pred. intros ->. reflexivity. Qed.

(* ------------------------------------------------------------------ *)
(* ORDER BY: the output is a sorted permutation of the input *)

Lemma insert_by_perm {A} (le : A -> A -> bool) x l : Permutation (insert_by le x l) (x :: l).
Proof.
  induction l as [|y l IH]; cbn; [apply Permutation_refl|].
  destruct (le x y); [apply Permutation_refl|].
  eapply perm_trans; [apply perm_skip, IH | apply perm_swap].
Qed.

Lemma sort_by_perm {A} (le : A -> A -> bool) l : Permutation (sort_by le l) l.
Proof.
  induction l as [|x l IH]; cbn; [constructor|].
  eapply perm_trans; [apply insert_by_perm | apply perm_skip, IH].
Qed.

Section SortTotal.
  Context {A : Type} (le : A -> A -> bool).
  Hypothesis le_total : forall a b, le a b = false -> le b a = true.

  Lemma insert_by_sorted x l :
    Sorted (fun a b => le a b = true) l -> Sorted (fun a b => le a b = true) (insert_by le x l).
  Proof.
    induction l as [|y l IH]; intros S; cbn.
    - repeat constructor.
    - destruct (le x y) eqn:E.
      + constructor; [exact S | constructor; exact E].
      + inversion S as [|? ? S' H']; subst. constructor; [apply IH, S'|].
        destruct l as [|z l]; cbn.
        * constructor. apply le_total, E.
        * destruct (le x z); constructor; [apply le_total, E|].
          inversion H'; assumption.
  Qed.

  Lemma sort_by_sorted l : Sorted (fun a b => le a b = true) (sort_by le l).
  Proof. induction l as [|x l IH]; cbn; [constructor | apply insert_by_sorted, IH]. Qed.
End SortTotal.

(* a nested induction principle for values *)
Lemma value_ind' (P : value -> Prop) :
  P VNull -> (forall b, P (VBool b)) -> (forall z, P (VInt z)) -> (forall s, P (VStr s)) ->
  (forall l, Forall P l -> P (VList l)) -> (forall i, P (VNode i)) -> (forall i, P (VRel i)) ->
  forall v, P v.
Proof.
  intros Hn Hb Hi Hs Hl Hno Hr.
  fix IH 1. intros [| b | z | s | l | i | i];
    [apply Hn | apply Hb | apply Hi | apply Hs | | apply Hno | apply Hr].
  apply Hl. induction l as [|x l IHl]; constructor; [apply IH | exact IHl].
Qed.

Lemma lex_cmp_opp a b : lex_cmp b a = CompOpp (lex_cmp a b).
Proof.
  revert b; induction a as [|x a IH]; intros [|y b]; cbn; auto.
  rewrite (N.compare_antisym x y). destruct (N.compare x y); cbn; auto.
Qed.

Lemma ord_cmp_opp a : forall b, ord_cmp b a = CompOpp (ord_cmp a b).
Proof.
  induction a as [| x | x | x | l IHl | i | i] using value_ind'; intros b; destruct b as [| y | y | y | m | j | j];
    cbn; auto.
  - destruct x, y; reflexivity.
  - apply Z.compare_antisym.
  - apply lex_cmp_opp.
  - revert m. induction IHl as [|u l Hu _ IH]; intros [|v m]; cbn; auto.
    rewrite (Hu v). destruct (ord_cmp u v); cbn; auto.
Qed.

Lemma key_cmp_opp dirs : forall a b, key_cmp dirs b a = CompOpp (key_cmp dirs a b).
Proof.
  induction dirs as [|d ds IH]; intros a b; cbn; [reflexivity|].
  destruct a as [|x a], b as [|y b]; cbn; auto.
  rewrite (ord_cmp_opp x y). destruct (ord_cmp x y); cbn; auto; destruct d; reflexivity.
Qed.

Lemma key_le_total dirs a b : key_le dirs a b = false -> key_le dirs b a = true.
Proof.
  unfold key_le. rewrite (key_cmp_opp dirs (fst a) (fst b)).
  destruct (key_cmp dirs (fst a) (fst b)); cbn; congruence.
Qed.

Lemma orderby_sorted_perm dirs (l : list keyed) :
  Permutation (sort_by (key_le dirs) l) l
  /\ Sorted (fun a b => key_le dirs a b = true) (sort_by (key_le dirs) l).
Proof. split; [apply sort_by_perm | apply sort_by_sorted, key_le_total]. Qed.

(* ------------------------------------------------------------------ *)
(* SKIP / LIMIT *)

Lemma window_spec {A} p (l : list A) :
  window p l =
  match p_limit p with
  | Some n => firstn (N.to_nat n) (skipn (nat_of_opt (p_skip p) 0) l)
  | None => skipn (nat_of_opt (p_skip p) 0) l
  end.
Proof. reflexivity. Qed.

(* ------------------------------------------------------------------ *)
(* DISTINCT *)

Lemma list_eqb_eq {A} (eqb : A -> A -> bool) (l : list A) :
  Forall (fun x => forall y, eqb x y = true <-> x = y) l ->
  forall m, list_eqb eqb l m = true <-> l = m.
Proof.
  induction 1 as [|x l Hx _ IH]; intros [|y m]; cbn; try (split; congruence).
  rewrite andb_true_iff, Hx, IH. split; [intros [-> ->]; reflexivity | intros E; inversion E; auto].
Qed.

Lemma N_list_eqb_eq (l m : list N) : list_eqb N.eqb l m = true <-> l = m.
Proof. apply list_eqb_eq. apply Forall_forall. intros x _ y. apply N.eqb_eq. Qed.

Lemma value_eqb_eq a : forall b, value_eqb a b = true <-> a = b.
Proof.
  induction a as [| x | x | x | l IHl | i | i] using value_ind'; intros b;
    destruct b as [| y | y | y | m | j | j]; cbn; try (split; congruence).
  - rewrite Bool.eqb_true_iff. split; congruence.
  - rewrite Z.eqb_eq. split; congruence.
  - rewrite N_list_eqb_eq. split; congruence.
  - transitivity (l = m); [|split; congruence].
    revert m. induction IHl as [|u l Hu _ IH]; intros [|v m]; cbn; try (split; congruence).
    rewrite andb_true_iff, Hu, IH. split; [intros [-> ->]; reflexivity | intros E; inversion E; auto].
  - rewrite N.eqb_eq. split; congruence.
  - rewrite N.eqb_eq. split; congruence.
Qed.

Lemma row_vals_eqb_eq a b : row_vals_eqb a b = true <-> a = b.
Proof.
  unfold row_vals_eqb. apply list_eqb_eq. apply Forall_forall. intros x _ y. apply value_eqb_eq.
Qed.

Section Dedup.
  Context {A : Type} (eqb : A -> A -> bool).
  Hypothesis eqb_eq : forall x y, eqb x y = true <-> x = y.

  Lemma dedup_by_In l x : In x (dedup_by eqb l) <-> In x l.
  Proof.
    revert x; induction l as [|y l IH]; intros x; cbn; [tauto|].
    rewrite filter_In, IH. split.
    - intros [->|[H _]]; auto.
    - intros [->|H]; [auto|].
      destruct (eqb y x) eqn:E; [left; apply eqb_eq, E | right; split; [exact H | reflexivity]].
  Qed.

  Lemma dedup_by_NoDup l : NoDup (dedup_by eqb l).
  Proof.
    induction l as [|y l IH]; cbn; constructor.
    - rewrite filter_In. intros [_ H].
      assert (E : eqb y y = true) by (apply eqb_eq; reflexivity). rewrite E in H. discriminate.
    - apply NoDup_filter, IH.
  Qed.
End Dedup.

(* RETURN DISTINCT / UNION: every row of the input is present exactly once *)
Lemma distinct_rows (t : table) :
  NoDup (dedup_by row_vals_eqb t) /\ forall r, In r (dedup_by row_vals_eqb t) <-> In r t.
Proof.
  split; [apply dedup_by_NoDup | intros r; apply dedup_by_In]; apply row_vals_eqb_eq.
Qed.

(* ------------------------------------------------------------------ *)
(* UNION [ALL] *)

Lemma union_spec cf g pe parts all ts :
  omap (eval_squery cf g pe) parts = Ok ts ->
  eval_query_cfg cf g pe (Q parts all) =
  Ok (if all then concat ts
      else match parts with [_] => concat ts | _ => dedup_by row_vals_eqb (concat ts) end).
Proof. unfold eval_query_cfg. cbn. intros ->. reflexivity. Qed.

(* ------------------------------------------------------------------ *)
(* OPTIONAL MATCH is a left outer join with null padding *)

Lemma optional_match_spec cf g pe pats w r vps kept :
  omap (resolve_ppat cf g pe r) pats = Ok vps ->
  filter_rows cf g pe w (match_rows (cf_path_iso cf) g vps r) = Ok kept ->
  eval_match cf g pe true pats w r =
  Ok (match kept with [] => [null_pad (flat_map ppat_vars pats) r] | _ => kept end)
  /\ eval_match cf g pe false pats w r = Ok kept.
Proof.
  intros H1 H2. unfold eval_match. rewrite H1. cbn. rewrite H2. cbn.
  destruct kept; split; reflexivity.
Qed.

Lemma null_pad_keeps vars : forall r x v, alookup x r = Some v -> alookup x (null_pad vars r) = Some v.
Proof.
  unfold null_pad. induction vars as [|y vars IH]; intros r x v H; cbn; [exact H|].
  apply IH. destruct (alookup y r) eqn:E; [exact H|]. cbn.
  destruct (N.eqb x y) eqn:Q; [|exact H]. apply N.eqb_eq in Q. subst. congruence.
Qed.

Lemma null_pad_binds vars : forall r x, In x vars -> exists v, alookup x (null_pad vars r) = Some v.
Proof.
  unfold null_pad. induction vars as [|y vars IH]; intros r x H; [contradiction|]. cbn.
  destruct H as [->|H]; [|apply IH, H].
  destruct (alookup x r) as [v|] eqn:E.
  - exists v. apply (null_pad_keeps vars), E.
  - exists VNull. apply (null_pad_keeps vars). cbn. rewrite N.eqb_refl. reflexivity.
Qed.

(* a variable the OPTIONAL MATCH introduces is null in the padded row *)
Lemma null_pad_new vars : forall r x, In x vars -> alookup x r = None ->
  alookup x (null_pad vars r) = Some VNull.
Proof.
  unfold null_pad. induction vars as [|y vars IH]; intros r x H E; [contradiction|]. cbn.
  destruct (N.eq_dec x y) as [->|D].
  - rewrite E. apply (null_pad_keeps vars). cbn. rewrite N.eqb_refl. reflexivity.
  - destruct H as [H|H]; [congruence|].
    destruct (alookup y r); apply IH; auto. cbn.
    destruct (N.eqb x y) eqn:Q; [apply N.eqb_eq in Q; congruence | exact E].
Qed.

(* ------------------------------------------------------------------ *)
(* several labels on one pattern node: all of them are required *)

Lemma memN_In x l : memN x l = true <-> In x l.
Proof.
  unfold memN. rewrite existsb_exists. split.
  - intros [y [H E]]. apply N.eqb_eq in E. subst. exact H.
  - intros H. exists x. split; [exact H | apply N.eqb_refl].
Qed.

Lemma node_ok_labels np n :
  node_ok np n = true -> forall l, In l (np_labels np) -> In l (n_labels n).
Proof.
  unfold node_ok. rewrite andb_true_iff, forallb_forall. intros [H _] l Hl.
  apply memN_In, H, Hl.
Qed.

Lemma node_ok_props np n :
  node_ok np n = true ->
  forall k v, In (k, v) (np_props np) -> eq3 (prop_of k (n_props n)) v = Some true.
Proof.
  unfold node_ok. rewrite andb_true_iff, forallb_forall. intros [_ H] k v Hkv.
  specialize (H _ Hkv). unfold prop_match in H. cbn in H.
  destruct (eq3 (prop_of k (n_props n)) v) as [[|]|]; congruence.
Qed.

(* RW_label_scan_intersection: scanning for all labels = intersecting the per-label scans *)
Lemma label_scan_intersection (nodes : list node) (l : N) (ls : list N) :
  filter (fun n => forallb (fun l => memN l (n_labels n)) (l :: ls)) nodes =
  filter (fun n => forallb (fun l => memN l (n_labels n)) ls)
         (filter (fun n => memN l (n_labels n)) nodes).
Proof.
  induction nodes as [|n nodes IH]; cbn; [reflexivity|].
  destruct (memN l (n_labels n)); cbn; [destruct (forallb _ ls); cbn; f_equal|]; exact IH.
Qed.

(* ------------------------------------------------------------------ *)
(* planner rewrites over the reference algebra *)

(* RW_topn: keeping a buffer of the k smallest rows while inserting = sorting, then LIMIT k *)
Lemma firstn_insert_firstn {A} (le : A -> A -> bool) x : forall l k,
  firstn k (insert_by le x (firstn k l)) = firstn k (insert_by le x l).
Proof.
  induction l as [|y l IH]; intros k.
  - rewrite firstn_nil. reflexivity.
  - destruct k as [|k]; [reflexivity|]. cbn [firstn insert_by].
    destruct (le x y).
    + cbn [firstn]. f_equal.
      change (y :: firstn k l) with (firstn (S k) (y :: l)).
      rewrite firstn_firstn. f_equal. lia.
    + cbn [firstn]. f_equal. apply IH.
Qed.

Definition topn {A} (le : A -> A -> bool) (k : nat) (l : list A) : list A :=
  fold_right (fun x acc => firstn k (insert_by le x acc)) [] l.

Lemma topn_spec {A} (le : A -> A -> bool) k (l : list A) :
  topn le k l = firstn k (sort_by le l).
Proof.
  induction l as [|x l IH]; cbn; [rewrite firstn_nil; reflexivity|].
  fold (topn le k l). rewrite IH. apply firstn_insert_firstn.
Qed.

(* RW_limit_pushdown: LIMIT commutes with a row-by-row projection (no sort, aggregate or
   DISTINCT in between - the operators in between are a [map]) *)
Lemma limit_pushdown {A B} (f : A -> B) k (l : list A) : firstn k (map f l) = map f (firstn k l).
Proof. apply firstn_map. Qed.

(* ... and LIMIT over a filter may stop the scan as soon as k rows passed, but not before:
   the answer is a prefix property of the filtered stream *)
Lemma limit_filter_prefix {A} (f : A -> bool) k (l : list A) :
  exists n, firstn k (filter f l) = filter f (firstn n l).
Proof.
  revert k; induction l as [|x l IH]; intros k.
  - exists 0%nat. destruct k; reflexivity.
  - destruct k as [|k]; [exists 0%nat; reflexivity|].
    cbn [filter]. destruct (f x) eqn:E.
    + destruct (IH k) as [n Hn]. exists (S n). cbn [firstn filter]. rewrite E, Hn. reflexivity.
    + destruct (IH (S k)) as [n Hn]. exists (S n). cbn [firstn filter]. rewrite E. exact Hn.
Qed.
