(* Proofs about the reference semantics of coq/model/CypherCore.v and Cypher.v. *)
From Coq Require Import List NArith ZArith Bool Lia Permutation Sorted.
From Verif Require Import CypherCore Cypher.
Import ListNotations.
Open Scope N_scope.

(* ------------------------------------------------------------------ *)
(* outcomes *)

Lemma oseq_map_Ok {A} (l : list A) : oseq (map Ok l) = Ok l.
Proof. induction l as [|x l IH]; cbn; [reflexivity | rewrite IH; reflexivity]. Qed.

Lemma oseq_ok {A} (l : list (outcome A)) (l' : list A) :
  oseq l = Ok l' <-> l = map Ok l'.
Proof.
  split.
  - revert l'; induction l as [|o l IH]; intros l' H; cbn in H.
    + inversion H; reflexivity.
    + destruct o as [a| | |]; destruct (oseq l) as [m| | |] eqn:E; cbn in H; try discriminate.
      inversion H; subst. cbn. f_equal. apply IH. reflexivity.
  - intros ->. apply oseq_map_Ok.
Qed.

Lemma omap_ok {A B} (f : A -> outcome B) (l : list A) (l' : list B) :
  omap f l = Ok l' <-> map f l = map Ok l'.
Proof. unfold omap. apply oseq_ok. Qed.

Lemma map_Ok_inj {A} (l l' : list A) : map (@Ok A) l = map Ok l' -> l = l'.
Proof.
  revert l'; induction l as [|x l IH]; intros [|y l'] H; cbn in H; try discriminate; auto.
  inversion H; subst. f_equal. auto.
Qed.

(* ------------------------------------------------------------------ *)
(* WHERE keeps exactly the rows whose predicate evaluates to true (three-valued logic) *)

Definition pred_true (cf : cfg) (g : graph) (pe : penv) (e : expr) (r : row) : bool :=
  match eval_pred cf g pe r e with Ok true => true | _ => false end.

Lemma filter_rows_spec cf g pe e rows out :
  filter_rows cf g pe (Some e) rows = Ok out ->
  out = filter (pred_true cf g pe e) rows
  /\ Forall (fun r => exists b, eval_pred cf g pe r e = Ok b) rows.
Proof.
  unfold filter_rows. intros H.
  destruct (omap _ rows) as [brs| | |] eqn:E; cbn in H; try discriminate.
  inversion H; subst; clear H.
  apply omap_ok in E. revert brs E.
  induction rows as [|r rows IH]; intros brs E; cbn [map] in E.
  - destruct brs; [|discriminate]. cbn. split; [reflexivity | constructor].
  - destruct brs as [|[b r'] brs]; [discriminate|]. cbn [map] in E. inversion E as [[E1 E2]]; clear E.
    destruct (IH _ E2) as [IH1 IH2].
    destruct (eval_pred cf g pe r e) as [b'| | |] eqn:P; cbn [obind] in E1; try discriminate.
    inversion E1; subst b' r'. split.
    + cbn [filter]. unfold pred_true at 1. rewrite P.
      destruct b; cbn [fst map snd filter]; rewrite IH1; reflexivity.
    + constructor; [exists b; exact P | exact IH2].
Qed.

(* eval_pred is true exactly when the predicate's value is the boolean true: null (unknown) and
   false both drop the row *)
Lemma eval_pred_true cf g pe r e :
  eval_pred cf g pe r e = Ok true <-> eval_expr cf g pe r e = Ok (VBool true).
Proof.
  unfold eval_pred. destruct (eval_expr cf g pe r e) as [v| | |]; cbn; try (split; discriminate).
  destruct v as [|[|]| | | | |]; cbn; split; intros H; try discriminate; try reflexivity; congruence.
Qed.

Lemma eval_pred_null cf g pe r e :
  eval_expr cf g pe r e = Ok VNull -> eval_pred cf g pe r e = Ok false.
Proof. unfold eval_pred. intros ->. reflexivity. Qed.

(* ------------------------------------------------------------------ *)
(* ORDER BY: the output is a sorted permutation of the input *)

Lemma insert_by_perm {A} (le : A -> A -> bool) x l : Permutation (insert_by le x l) (x :: l).
Proof.
  induction l as [|y l IH]; cbn; [apply Permutation_refl|].
  destruct (le x y); [apply Permutation_refl|].
  eapply perm_trans; [apply perm_skip, IH | apply perm_swap].
Qed.

Lemma sort_by_perm {A} (le : A -> A -> bool) l : Permutation (sort_by le l) l.
Proof.
  induction l as [|x l IH]; cbn; [constructor|].
  eapply perm_trans; [apply insert_by_perm | apply perm_skip, IH].
Qed.

Section SortTotal.
  Context {A : Type} (le : A -> A -> bool).
  Hypothesis le_total : forall a b, le a b = false -> le b a = true.

  Lemma insert_by_sorted x l :
    Sorted (fun a b => le a b = true) l -> Sorted (fun a b => le a b = true) (insert_by le x l).
  Proof.
    induction l as [|y l IH]; intros S; cbn.
    - repeat constructor.
    - destruct (le x y) eqn:E.
      + constructor; [exact S | constructor; exact E].
      + inversion S as [|? ? S' H']; subst. constructor; [apply IH, S'|].
        destruct l as [|z l]; cbn.
        * constructor. apply le_total, E.
        * destruct (le x z); constructor; [apply le_total, E|].
          inversion H'; assumption.
  Qed.

  Lemma sort_by_sorted l : Sorted (fun a b => le a b = true) (sort_by le l).
  Proof. induction l as [|x l IH]; cbn; [constructor | apply insert_by_sorted, IH]. Qed.
End SortTotal.

(* a nested induction principle for values *)
Lemma value_ind' (P : value -> Prop) :
  P VNull -> (forall b, P (VBool b)) -> (forall z, P (VInt z)) -> (forall s, P (VStr s)) ->
  (forall l, Forall P l -> P (VList l)) -> (forall i, P (VNode i)) -> (forall i, P (VRel i)) ->
  forall v, P v.
Proof.
  intros Hn Hb Hi Hs Hl Hno Hr.
  fix IH 1. intros [| b | z | s | l | i | i];
    [apply Hn | apply Hb | apply Hi | apply Hs | | apply Hno | apply Hr].
  apply Hl. induction l as [|x l IHl]; constructor; [apply IH | exact IHl].
Qed.

Lemma lex_cmp_opp a b : lex_cmp b a = CompOpp (lex_cmp a b).
Proof.
  revert b; induction a as [|x a IH]; intros [|y b]; cbn; auto.
  rewrite (N.compare_antisym x y). destruct (N.compare x y); cbn; auto.
Qed.

Lemma ord_cmp_opp a : forall b, ord_cmp b a = CompOpp (ord_cmp a b).
Proof.
  induction a as [| x | x | x | l IHl | i | i] using value_ind'; intros b; destruct b as [| y | y | y | m | j | j];
    cbn; auto.
  - destruct x, y; reflexivity.
  - apply Z.compare_antisym.
  - apply lex_cmp_opp.
  - revert m. induction IHl as [|u l Hu _ IH]; intros [|v m]; cbn; auto.
    rewrite (Hu v). destruct (ord_cmp u v); cbn; auto.
Qed.

Lemma key_cmp_opp dirs : forall a b, key_cmp dirs b a = CompOpp (key_cmp dirs a b).
Proof.
  induction dirs as [|d ds IH]; intros a b; cbn; [reflexivity|].
  destruct a as [|x a], b as [|y b]; cbn; auto.
  rewrite (ord_cmp_opp x y). destruct (ord_cmp x y); cbn; auto; destruct d; reflexivity.
Qed.

Lemma key_le_total dirs a b : key_le dirs a b = false -> key_le dirs b a = true.
Proof.
  unfold key_le. rewrite (key_cmp_opp dirs (fst a) (fst b)).
  destruct (key_cmp dirs (fst a) (fst b)); cbn; congruence.
Qed.

Lemma orderby_sorted_perm dirs (l : list keyed) :
  Permutation (sort_by (key_le dirs) l) l
  /\ Sorted (fun a b => key_le dirs a b = true) (sort_by (key_le dirs) l).
Proof. split; [apply sort_by_perm | apply sort_by_sorted, key_le_total]. Qed.

(* ------------------------------------------------------------------ *)
(* SKIP / LIMIT *)

Lemma window_spec {A} p (l : list A) :
  window p l =
  match p_limit p with
  | Some n => firstn (N.to_nat n) (skipn (nat_of_opt (p_skip p) 0) l)
  | None => skipn (nat_of_opt (p_skip p) 0) l
  end.
Proof. reflexivity. Qed.

(* ------------------------------------------------------------------ *)
(* DISTINCT *)

Lemma list_eqb_eq {A} (eqb : A -> A -> bool) (l : list A) :
  Forall (fun x => forall y, eqb x y = true <-> x = y) l ->
  forall m, list_eqb eqb l m = true <-> l = m.
Proof.
  induction 1 as [|x l Hx _ IH]; intros [|y m]; cbn; try (split; congruence).
  rewrite andb_true_iff, Hx, IH. split; [intros [-> ->]; reflexivity | intros E; inversion E; auto].
Qed.

Lemma N_list_eqb_eq (l m : list N) : list_eqb N.eqb l m = true <-> l = m.
Proof. apply list_eqb_eq. apply Forall_forall. intros x _ y. apply N.eqb_eq. Qed.

Lemma value_eqb_eq a : forall b, value_eqb a b = true <-> a = b.
Proof.
  induction a as [| x | x | x | l IHl | i | i] using value_ind'; intros b;
    destruct b as [| y | y | y | m | j | j]; cbn; try (split; congruence).
  - rewrite Bool.eqb_true_iff. split; congruence.
  - rewrite Z.eqb_eq. split; congruence.
  - rewrite N_list_eqb_eq. split; congruence.
  - transitivity (l = m); [|split; congruence].
    revert m. induction IHl as [|u l Hu _ IH]; intros [|v m]; cbn; try (split; congruence).
    rewrite andb_true_iff, Hu, IH. split; [intros [-> ->]; reflexivity | intros E; inversion E; auto].
  - rewrite N.eqb_eq. split; congruence.
  - rewrite N.eqb_eq. split; congruence.
Qed.

Lemma row_vals_eqb_eq a b : row_vals_eqb a b = true <-> a = b.
Proof.
  unfold row_vals_eqb. apply list_eqb_eq. apply Forall_forall. intros x _ y. apply value_eqb_eq.
Qed.

Section Dedup.
  Context {A : Type} (eqb : A -> A -> bool).
  Hypothesis eqb_eq : forall x y, eqb x y = true <-> x = y.

  Lemma dedup_by_In l x : In x (dedup_by eqb l) <-> In x l.
  Proof.
    revert x; induction l as [|y l IH]; intros x; cbn; [tauto|].
    rewrite filter_In, IH. split.
    - intros [->|[H _]]; auto.
    - intros [->|H]; [auto|].
      destruct (eqb y x) eqn:E; [left; apply eqb_eq, E | right; split; [exact H | reflexivity]].
  Qed.

  Lemma dedup_by_NoDup l : NoDup (dedup_by eqb l).
  Proof.
    induction l as [|y l IH]; cbn; constructor.
    - rewrite filter_In. intros [_ H].
      assert (E : eqb y y = true) by (apply eqb_eq; reflexivity). rewrite E in H. discriminate.
    - apply NoDup_filter, IH.
  Qed.
End Dedup.

(* RETURN DISTINCT / UNION: every row of the input is present exactly once *)
Lemma distinct_rows (t : table) :
  NoDup (dedup_by row_vals_eqb t) /\ forall r, In r (dedup_by row_vals_eqb t) <-> In r t.
Proof.
  split; [apply dedup_by_NoDup | intros r; apply dedup_by_In]; apply row_vals_eqb_eq.
Qed.

(* ------------------------------------------------------------------ *)
(* UNION [ALL] *)

Lemma union_spec cf g pe parts all ts :
  omap (eval_squery cf g pe) parts = Ok ts ->
  eval_query_cfg cf g pe (Q parts all) =
  Ok (if all then concat ts
      else match parts with [_] => concat ts | _ => dedup_by row_vals_eqb (concat ts) end).
Proof. unfold eval_query_cfg. cbn [q_parts q_all]. intros ->. reflexivity. Qed.

(* ------------------------------------------------------------------ *)
(* OPTIONAL MATCH is a left outer join with null padding *)

Lemma optional_match_spec cf g pe pats w r vps kept :
  omap (resolve_ppat cf g pe r) pats = Ok vps ->
  filter_rows cf g pe w (match_rows (cf_path_iso cf) g vps r) = Ok kept ->
  eval_match cf g pe true pats w r =
  Ok (match kept with [] => [null_pad (flat_map ppat_vars pats) r] | _ => kept end)
  /\ eval_match cf g pe false pats w r = Ok kept.
Proof.
  intros H1 H2. unfold eval_match. rewrite H1. cbn [obind]. rewrite H2. cbn [obind].
  destruct kept; split; reflexivity.
Qed.

Lemma null_pad_keeps vars : forall r x v, alookup x r = Some v -> alookup x (null_pad vars r) = Some v.
Proof.
  unfold null_pad. induction vars as [|y vars IH]; intros r x v H; cbn; [exact H|].
  apply IH. destruct (alookup y r) eqn:E; [exact H|]. cbn.
  destruct (N.eqb x y) eqn:Q; [|exact H]. apply N.eqb_eq in Q. subst. congruence.
Qed.

Lemma null_pad_binds vars : forall r x, In x vars -> exists v, alookup x (null_pad vars r) = Some v.
Proof.
  unfold null_pad. induction vars as [|y vars IH]; intros r x H; [contradiction|]. cbn.
  destruct H as [->|H]; [|apply IH, H].
  destruct (alookup x r) as [v|] eqn:E.
  - exists v. apply (null_pad_keeps vars), E.
  - exists VNull. apply (null_pad_keeps vars). cbn. rewrite N.eqb_refl. reflexivity.
Qed.

(* a variable the OPTIONAL MATCH introduces is null in the padded row *)
Lemma null_pad_new vars : forall r x, In x vars -> alookup x r = None ->
  alookup x (null_pad vars r) = Some VNull.
Proof.
  unfold null_pad. induction vars as [|y vars IH]; intros r x H E; [contradiction|]. cbn.
  destruct (N.eq_dec x y) as [->|D].
  - rewrite E. apply (null_pad_keeps vars). cbn. rewrite N.eqb_refl. reflexivity.
  - destruct H as [H|H]; [congruence|].
    destruct (alookup y r); apply IH; auto. cbn.
    destruct (N.eqb x y) eqn:Q; [apply N.eqb_eq in Q; congruence | exact E].
Qed.

(* ------------------------------------------------------------------ *)
(* several labels on one pattern node: all of them are required *)

Lemma memN_In x l : memN x l = true <-> In x l.
Proof.
  unfold memN. rewrite existsb_exists. split.
  - intros [y [H E]]. apply N.eqb_eq in E. subst. exact H.
  - intros H. exists x. split; [exact H | apply N.eqb_refl].
Qed.

Lemma node_ok_labels np n :
  node_ok np n = true -> forall l, In l (np_labels np) -> In l (n_labels n).
Proof.
  unfold node_ok. rewrite andb_true_iff, forallb_forall. intros [H _] l Hl.
  apply memN_In, H, Hl.
Qed.

Lemma node_ok_props np n :
  node_ok np n = true ->
  forall k v, In (k, v) (np_props np) -> eq3 (prop_of k (n_props n)) v = Some true.
Proof.
  unfold node_ok. intros H k v Hkv. apply andb_true_iff in H. destruct H as [_ H].
  rewrite forallb_forall in H. specialize (H _ Hkv). unfold prop_match in H. cbn in H.
  destruct (eq3 (prop_of k (n_props n)) v) as [[|]|]; congruence.
Qed.

Lemma filter_andb {A} (f h : A -> bool) (l : list A) :
  filter (fun x => f x && h x) l = filter h (filter f l).
Proof.
  induction l as [|x l IH]; [reflexivity|]. cbn [filter].
  destruct (f x); cbn [andb filter]; [destruct (h x)|]; rewrite IH; reflexivity.
Qed.

(* RW_label_scan_intersection: scanning for all labels = intersecting the per-label scans *)
Lemma label_scan_intersection (nodes : list node) (l : N) (ls : list N) :
  filter (fun n => forallb (fun l => memN l (n_labels n)) (l :: ls)) nodes =
  filter (fun n => forallb (fun l => memN l (n_labels n)) ls)
         (filter (fun n => memN l (n_labels n)) nodes).
Proof.
  exact (filter_andb (fun n => memN l (n_labels n))
                     (fun n => forallb (fun l => memN l (n_labels n)) ls) nodes).
Qed.

(* ------------------------------------------------------------------ *)
(* planner rewrites over the reference algebra *)

(* RW_topn: keeping a buffer of the k smallest rows while inserting = sorting, then LIMIT k *)
Lemma firstn_insert_firstn {A} (le : A -> A -> bool) x : forall l k,
  firstn k (insert_by le x (firstn k l)) = firstn k (insert_by le x l).
Proof.
  induction l as [|y l IH]; intros k.
  - rewrite firstn_nil. reflexivity.
  - destruct k as [|k]; [reflexivity|]. cbn [firstn insert_by].
    destruct (le x y).
    + cbn [firstn]. f_equal.
      change (y :: firstn k l) with (firstn (S k) (y :: l)).
      rewrite firstn_firstn. f_equal. lia.
    + cbn [firstn]. f_equal. apply IH.
Qed.

Definition topn {A} (le : A -> A -> bool) (k : nat) (l : list A) : list A :=
  fold_right (fun x acc => firstn k (insert_by le x acc)) [] l.

Lemma topn_spec {A} (le : A -> A -> bool) k (l : list A) :
  topn le k l = firstn k (sort_by le l).
Proof.
  induction l as [|x l IH]; cbn; [rewrite firstn_nil; reflexivity|].
  fold (topn le k l). rewrite IH. apply firstn_insert_firstn.
Qed.

(* RW_limit_pushdown: LIMIT commutes with a row-by-row projection (no sort, aggregate or
   DISTINCT in between - the operators in between are a [map]) *)
Lemma limit_pushdown {A B} (f : A -> B) k (l : list A) : firstn k (map f l) = map f (firstn k l).
Proof. apply firstn_map. Qed.

(* ... and LIMIT over a filter may stop the scan as soon as k rows passed, but not before:
   the answer is a prefix property of the filtered stream *)
Lemma limit_filter_prefix {A} (f : A -> bool) k (l : list A) :
  exists n, firstn k (filter f l) = filter f (firstn n l).
Proof.
  revert k; induction l as [|x l IH]; intros k.
  - exists 0%nat. destruct k; reflexivity.
  - destruct k as [|k]; [exists 0%nat; reflexivity|].
    cbn [filter]. destruct (f x) eqn:E.
    + destruct (IH k) as [n Hn]. exists (S n). cbn [firstn filter]. rewrite E, Hn. reflexivity.
    + destruct (IH (S k)) as [n Hn]. exists (S n). cbn [firstn filter]. rewrite E. exact Hn.
Qed.

(* ------------------------------------------------------------------ *)
(* the matcher against a declarative definition of matching *)

(* relationship r leads from u to v along direction d *)
Definition Step (d : dir) (r : rel) (u v : N) : Prop :=
  match d with
  | DOut => r_src r = u /\ r_tgt r = v
  | DIn => r_tgt r = u /\ r_src r = v
  | DBoth => (r_src r = u /\ r_tgt r = v) \/ (r_tgt r = u /\ r_src r = v)
  end.

Lemma hop_spec rp u r x v :
  In (x, v) (hop rp u r) <-> x = r /\ rel_ok rp r = true /\ Step (rp_dir rp) r u v.
Proof.
  unfold hop, Step. destruct (rel_ok rp r); [|cbn; intuition congruence].
  destruct (rp_dir rp).
  - destruct (N.eqb_spec (r_src r) u) as [E|E]; cbn.
    + split; [intros [H|[]]; inversion H; subst; auto | intros [-> [_ [_ <-]]]; auto].
    + split; [intros [] | intros [_ [_ [H _]]]; congruence].
  - destruct (N.eqb_spec (r_tgt r) u) as [E|E]; cbn.
    + split; [intros [H|[]]; inversion H; subst; auto | intros [-> [_ [_ <-]]]; auto].
    + split; [intros [] | intros [_ [_ [H _]]]; congruence].
  - destruct (N.eqb_spec (r_src r) u) as [E|E]; cbn.
    + split; [intros [H|[]]; inversion H; subst; auto|].
      intros [-> [_ [[_ <-]|[E2 <-]]]]; [auto | left; congruence].
    + destruct (N.eqb_spec (r_tgt r) u) as [E'|E']; cbn.
      * split; [intros [H|[]]; inversion H; subst; auto|].
        intros [-> [_ [[H _]|[_ <-]]]]; [congruence | auto].
      * split; [intros [] | intros [_ [_ [[H _]|[H _]]]]; congruence].
Qed.

Lemma hops_spec g rp u r v :
  In (r, v) (hops g rp u) <-> In r (g_rels g) /\ rel_ok rp r = true /\ Step (rp_dir rp) r u v.
Proof.
  unfold hops. rewrite in_flat_map. split.
  - intros [x [Hx H]]. apply hop_spec in H. destruct H as [-> H]. auto.
  - intros [H1 H2]. exists r. split; [exact H1 | apply hop_spec; auto].
Qed.

Inductive Walk (g : graph) (rp : rpat value) : N -> list rel -> N -> Prop :=
| Walk_nil u : Walk g rp u [] u
| Walk_cons u r v rs w :
    In r (g_rels g) -> rel_ok rp r = true -> Step (rp_dir rp) r u v ->
    Walk g rp v rs w -> Walk g rp u (r :: rs) w.

(* a trail: a walk that repeats no relationship and avoids the relationships already used *)
Definition Trail (g : graph) (rp : rpat value) (u : N) (used : list N) (rs : list rel) (w : N) : Prop :=
  Walk g rp u rs w /\ NoDup (map r_id rs) /\ (forall r, In r rs -> ~ In (r_id r) used).

Lemma memN_false x l : memN x l = false <-> ~ In x l.
Proof. rewrite <- memN_In. destruct (memN x l); split; congruence. Qed.

Lemma trails_spec fuel g rp : forall u used rs w,
  In (rs, w) (trails fuel g rp u used) <-> Trail g rp u used rs w /\ (length rs <= fuel)%nat.
Proof.
  induction fuel as [|f IH]; intros u used rs w.
  - cbn. split.
    + intros [H|[]]. inversion H; subst. split; [|cbn; lia].
      split; [constructor | split; [constructor | intros r []]].
    + intros [[Hw _] Hl]. destruct rs; [|cbn in Hl; lia]. inversion Hw; subst. auto.
  - cbn [trails]. split.
    + intros [H|H].
      * inversion H; subst. split; [|cbn; lia].
        split; [constructor | split; [constructor | intros r []]].
      * apply in_flat_map in H. destruct H as [[r v] [Hh H]]. cbn [fst snd] in H.
        destruct (memN (r_id r) used) eqn:M; [destruct H|].
        apply in_map_iff in H. destruct H as [[rs' w'] [E H]]. cbn [fst snd] in E.
        inversion E; subst; clear E.
        apply IH in H. destruct H as [[Hw [Hn Hu]] Hl].
        apply hops_spec in Hh. destruct Hh as [H1 [H2 H3]].
        apply memN_false in M.
        split; [|cbn; lia]. split; [econstructor; eauto|]. split.
        -- cbn. constructor; [|exact Hn]. intros Hin. apply in_map_iff in Hin.
           destruct Hin as [r' [E Hr']]. apply (Hu r' Hr'). left. auto.
        -- intros r' [<-|Hr']; [exact M|]. intros Hin. apply (Hu r' Hr'). right. exact Hin.
    + intros [[Hw [Hn Hu]] Hl]. destruct rs as [|r rs'].
      * inversion Hw; subst. left. reflexivity.
      * right. inversion Hw as [|? ? v ? ? H1 H2 H3 H4]; subst.
        apply in_flat_map. exists (r, v). split; [apply hops_spec; auto|]. cbn [fst snd].
        assert (M : memN (r_id r) used = false) by (apply memN_false, Hu; left; reflexivity).
        rewrite M. apply in_map_iff. exists (rs', w). split; [reflexivity|].
        apply IH. cbn in Hl, Hn. inversion Hn as [|? ? Hn1 Hn2]; subst.
        split; [|lia]. split; [exact H4|]. split; [exact Hn2|].
        intros r' Hr' [E|Hin].
        -- apply Hn1. rewrite E. apply in_map, Hr'.
        -- apply (Hu r'); [right; exact Hr' | exact Hin].
Qed.

Lemma walk_incl g rp u rs w : Walk g rp u rs w -> incl rs (g_rels g).
Proof. induction 1; intros x; cbn; [intros [] | intros [<-|H']; auto]. Qed.

(* a trail is never longer than the number of relationships of the graph *)
Lemma trail_length g rp u used rs w :
  Trail g rp u used rs w -> (length rs <= length (g_rels g))%nat.
Proof.
  intros [Hw [Hn _]]. rewrite <- (map_length r_id rs), <- (map_length r_id (g_rels g)).
  apply NoDup_incl_length; [exact Hn|]. apply incl_map. eapply walk_incl, Hw.
Qed.

(* the fuel |rels| is enough: more fuel finds no further trail *)
Lemma fuel_suffices g rp u used fuel x :
  (length (g_rels g) <= fuel)%nat ->
  In x (trails fuel g rp u used) <-> In x (trails (length (g_rels g)) g rp u used).
Proof.
  intros Hf. destruct x as [rs w]. rewrite !trails_spec. split; intros [Ht Hl]; split; auto.
  - eapply trail_length, Ht.
  - apply trail_length in Ht. lia.
Qed.

(* one pattern segment: the relationships bound form a trail of admissible length *)
Definition SegOk (g : graph) (rp : rpat value) (u : N) (used : list N) (rs : list rel) (w : N) : Prop :=
  Trail g rp u used rs w /\
  match rp_len rp with
  | None => length rs = 1%nat
  | Some (lo, hi) => (lo <= length rs)%nat /\ match hi with Some h => (length rs <= h)%nat | None => True end
  end.

Lemma seg_cands_spec g rp u used rs w :
  In (rs, w) (seg_cands g rp u used) <-> SegOk g rp u used rs w.
Proof.
  unfold seg_cands, SegOk. destruct (rp_len rp) as [[lo hi]|].
  - rewrite filter_In, trails_spec. cbn [fst]. unfold len_ok.
    rewrite andb_true_iff, Nat.leb_le. split.
    + intros [[Ht _] [H1 H2]]. split; [exact Ht|]. split; [exact H1|].
      destruct hi; [apply Nat.leb_le, H2 | exact I].
    + intros [Ht [H1 H2]]. split; [split; [exact Ht|] | split; [exact H1|]].
      * unfold varlen_fuel. destruct hi; [exact H2 | eapply trail_length, Ht].
      * destruct hi; [apply Nat.leb_le, H2 | reflexivity].
  - rewrite in_map_iff. split.
    + intros [[r v] [E H]]. cbn [fst snd] in E. inversion E; subst; clear E.
      apply filter_In in H. destruct H as [Hh M]. cbn [fst] in M.
      apply negb_true_iff, memN_false in M. apply hops_spec in Hh. destruct Hh as [H1 [H2 H3]].
      split; [|reflexivity]. split; [econstructor; eauto; constructor|].
      split; [cbn; constructor; [intros []|constructor]|].
      intros r' [<-|[]]. exact M.
    + intros [[Hw [_ Hu]] Hl]. destruct rs as [|r [|? ?]]; cbn in Hl; try lia.
      inversion Hw as [|? ? v ? ? H1 H2 H3 H4]; subst. inversion H4; subst.
      exists (r, w). split; [reflexivity|]. apply filter_In. split; [apply hops_spec; auto|].
      cbn [fst]. apply negb_true_iff, memN_false, Hu. left. reflexivity.
Qed.

(* the declarative matching relation for the segments of a path *)
Inductive SegsMatch (g : graph) :
  list (rpat value * npat value) -> N -> row -> list N -> list seg_asg -> row -> list N -> Prop :=
| SM_nil u r used : SegsMatch g [] u r used [] r used
| SM_cons rp np rest u r used rs v n r1 r2 a r' used' :
    SegOk g rp u used rs v ->
    find_node g v = Some n -> node_ok np n = true ->
    bind_var (rp_var rp) (rel_value rp rs) r = Some r1 ->
    bind_var (np_var np) (VNode v) r1 = Some r2 ->
    SegsMatch g rest v r2 (map r_id rs ++ used) a r' used' ->
    SegsMatch g ((rp, np) :: rest) u r used ((map r_id rs, v) :: a) r' used'.

Lemma enum_segs_spec g segs : forall u r used a r' used',
  In (a, r', used') (enum_segs g segs u r used) <-> SegsMatch g segs u r used a r' used'.
Proof.
  induction segs as [|[rp np] rest IH]; intros u r used a r' used'.
  - cbn. split.
    + intros [H|[]]. inversion H; subst. constructor.
    + intros H. inversion H; subst. left. reflexivity.
  - cbn [enum_segs]. rewrite in_flat_map. split.
    + intros [[rs v] [Hc H]]. cbn [fst snd] in H.
      destruct (find_node g v) as [n|] eqn:Fn; [|destruct H].
      destruct (node_ok np n) eqn:On; [|destruct H].
      destruct (bind_var (rp_var rp) (rel_value rp rs) r) as [r1|] eqn:B1; [|destruct H].
      destruct (bind_var (np_var np) (VNode v) r1) as [r2|] eqn:B2; [|destruct H].
      apply in_map_iff in H. destruct H as [[[a0 r0] u0] [E H]]. cbn [fst snd] in E.
      inversion E; subst; clear E.
      apply IH in H. apply seg_cands_spec in Hc. econstructor; eauto.
    + intros H. inversion H as [|? ? ? ? ? ? rs v n r1 r2 a0 ? ? Hs Fn On B1 B2 Hm]; subst.
      exists (rs, v). split; [apply seg_cands_spec, Hs|]. cbn [fst snd].
      rewrite Fn, On, B1, B2. apply in_map_iff. exists (a0, r', used'). split; [reflexivity|].
      apply IH, Hm.
Qed.

Definition PathMatch (g : graph) (p : ppat value) (r : row) (used : list N)
           (pa : path_asg) (r' : row) (used' : list N) : Prop :=
  exists n r1,
    In n (g_nodes g) /\ node_ok (fst p) n = true /\
    bind_var (np_var (fst p)) (VNode (n_id n)) r = Some r1 /\
    fst pa = n_id n /\ SegsMatch g (snd p) (n_id n) r1 used (snd pa) r' used'.

Lemma enum_path_spec g p r used pa r' used' :
  In (pa, r', used') (enum_path g p r used) <-> PathMatch g p r used pa r' used'.
Proof.
  unfold enum_path, PathMatch. rewrite in_flat_map. split.
  - intros [n [Hn H]]. destruct (node_ok (fst p) n) eqn:On; [|destruct H].
    destruct (bind_var (np_var (fst p)) (VNode (n_id n)) r) as [r1|] eqn:B; [|destruct H].
    apply in_map_iff in H. destruct H as [[[a0 r0] u0] [E H]]. cbn [fst snd] in E.
    inversion E; subst; clear E. apply enum_segs_spec in H.
    exists n, r1. cbn [fst snd]. auto.
  - intros [n [r1 [Hn [On [B [E H]]]]]]. exists n. split; [exact Hn|]. rewrite On, B.
    apply in_map_iff. exists (snd pa, r', used'). cbn [fst snd]. split.
    + destruct pa as [i a]. cbn in E |- *. subst. reflexivity.
    + apply enum_segs_spec, H.
Qed.

Inductive PatsMatch (iso : bool) (g : graph) :
  list (ppat value) -> row -> list N -> list path_asg -> row -> list N -> Prop :=
| PM_nil r used : PatsMatch iso g [] r used [] r used
| PM_cons p rest r used pa r1 u1 a r' used' :
    PathMatch g p r used pa r1 u1 ->
    PatsMatch iso g rest r1 (if iso then u1 else used) a r' used' ->
    PatsMatch iso g (p :: rest) r used (pa :: a) r' used'.

Lemma enum_pats_spec iso g ps : forall r used a r' used',
  In (a, r', used') (enum_pats iso g ps r used) <-> PatsMatch iso g ps r used a r' used'.
Proof.
  induction ps as [|p rest IH]; intros r used a r' used'.
  - cbn. split.
    + intros [H|[]]. inversion H; subst. constructor.
    + intros H. inversion H; subst. left. reflexivity.
  - cbn [enum_pats]. rewrite in_flat_map. split.
    + intros [[[pa r1] u1] [Hp H]]. cbn [fst snd] in H.
      apply in_map_iff in H. destruct H as [[[a0 r0] u0] [E H]]. cbn [fst snd] in E.
      inversion E; subst; clear E. apply IH in H. apply enum_path_spec in Hp.
      econstructor; eauto.
    + intros H. inversion H as [|? ? ? ? pa r1 u1 a0 ? ? Hp Hm]; subst.
      exists (pa, r1, u1). split; [apply enum_path_spec, Hp|]. cbn [fst snd].
      apply in_map_iff. exists (a0, r', used'). split; [reflexivity | apply IH, Hm].
Qed.

(* ---- relationship isomorphism: the relationships of one MATCH are pairwise distinct ---- *)
Definition segs_rels (a : list seg_asg) : list N := flat_map fst a.
Definition pats_rels (a : list path_asg) : list N := flat_map (fun pa => segs_rels (snd pa)) a.

Lemma segok_nodup g rp u used rs w :
  SegOk g rp u used rs w -> NoDup used -> NoDup (map r_id rs ++ used).
Proof.
  intros [[_ [Hn Hu]] _] Hd. induction rs as [|r rs IH]; cbn; [exact Hd|].
  cbn in Hn. inversion Hn; subst. constructor.
  - rewrite in_app_iff. intros [H|H]; [auto|]. apply (Hu r); [left; reflexivity | exact H].
  - apply IH; [assumption|]. intros r' Hr'. apply Hu. right. exact Hr'.
Qed.

Lemma segs_match_used g segs u r used a r' used' :
  SegsMatch g segs u r used a r' used' ->
  NoDup used -> NoDup used' /\ Permutation used' (segs_rels a ++ used).
Proof.
  induction 1 as [|rp np rest u r used rs v n r1 r2 a r' used' Hs Fn On B1 B2 Hm IH]; intros Hd.
  - split; [exact Hd | apply Permutation_refl].
  - destruct (IH (segok_nodup _ _ _ _ _ _ Hs Hd)) as [I1 I2]. split; [exact I1|].
    eapply perm_trans; [exact I2|]. unfold segs_rels. cbn [flat_map fst].
    rewrite <- !app_assoc. rewrite !app_assoc. apply Permutation_app_tail, Permutation_app_comm.
Qed.

Lemma pats_match_used g ps : forall r used a r' used',
  PatsMatch true g ps r used a r' used' ->
  NoDup used -> NoDup used' /\ Permutation used' (pats_rels a ++ used).
Proof.
  induction ps as [|p rest IH]; intros r used a r' used' H Hd; inversion H; subst.
  - split; [exact Hd | apply Permutation_refl].
  - match goal with
    | [ Hp : PathMatch _ _ _ _ _ _ _, Hm : PatsMatch _ _ _ _ _ _ _ _ |- _ ] =>
        destruct Hp as [n [r0 [_ [_ [_ [_ Hs]]]]]];
        destruct (segs_match_used _ _ _ _ _ _ _ _ Hs Hd) as [S1 S2];
        destruct (IH _ _ _ _ _ Hm S1) as [I1 I2]
    end.
    split; [exact I1|]. eapply perm_trans; [exact I2|].
    unfold pats_rels. cbn [flat_map]. fold (pats_rels a0).
    eapply perm_trans; [apply Permutation_app_head, S2|].
    rewrite !app_assoc. apply Permutation_app_tail, Permutation_app_comm.
Qed.

(* several labels: every node of a match carries all the labels its pattern lists *)
Lemma segs_match_labels g segs u r used a r' used' :
  SegsMatch g segs u r used a r' used' ->
  Forall2 (fun (seg : rpat value * npat value) (sa : seg_asg) =>
             exists n, find_node g (snd sa) = Some n /\
                       forall l, In l (np_labels (snd seg)) -> In l (n_labels n)) segs a.
Proof.
  induction 1; constructor; [|assumption].
  eexists. cbn [snd]. split; [eassumption|]. eapply node_ok_labels. eassumption.
Qed.

Lemma path_match_labels g p r used pa r' used' :
  PathMatch g p r used pa r' used' ->
  (exists n, In n (g_nodes g) /\ n_id n = fst pa /\
             forall l, In l (np_labels (fst p)) -> In l (n_labels n))
  /\ Forall2 (fun (seg : rpat value * npat value) (sa : seg_asg) =>
                exists n, find_node g (snd sa) = Some n /\
                          forall l, In l (np_labels (snd seg)) -> In l (n_labels n)) (snd p) (snd pa).
Proof.
  intros [n [r1 [Hn [On [_ [E Hs]]]]]]. split.
  - exists n. split; [exact Hn|]. split; [auto|]. apply node_ok_labels, On.
  - eapply segs_match_labels, Hs.
Qed.

(* the relationships matched by one MATCH clause are pairwise distinct *)
Lemma match_rel_iso g ps r a r' used' :
  In (a, r', used') (enum_pats true g ps r []) -> NoDup (pats_rels a).
Proof.
  intros H. apply enum_pats_spec in H.
  destruct (pats_match_used _ _ _ _ _ _ _ H (NoDup_nil _)) as [H1 H2].
  rewrite app_nil_r in H2. eapply Permutation_NoDup; eassumption.
Qed.

(* ------------------------------------------------------------------ *)
(* every assignment is enumerated exactly once *)

Lemma nodup_app {A} (l1 l2 : list A) :
  NoDup l1 -> NoDup l2 -> (forall x, In x l1 -> ~ In x l2) -> NoDup (l1 ++ l2).
Proof.
  induction l1 as [|a l1 IH]; intros H1 H2 Hd; cbn; [exact H2|].
  inversion H1; subst. constructor.
  - rewrite in_app_iff. intros [H|H]; [contradiction|]. apply (Hd a); [left; reflexivity | exact H].
  - apply IH; auto. intros x Hx. apply Hd. right. exact Hx.
Qed.

Lemma nodup_map_inj_on {A B} (k : A -> B) (l : list A) a a' :
  NoDup (map k l) -> In a l -> In a' l -> k a = k a' -> a = a'.
Proof.
  induction l as [|x l IH]; cbn; intros Hn H1 H2 E; [contradiction|].
  inversion Hn as [|? ? Hx Hn']; subst.
  destruct H1 as [->|H1], H2 as [->|H2]; auto.
  - exfalso. apply Hx. rewrite E. apply in_map, H2.
  - exfalso. apply Hx. rewrite <- E. apply in_map, H1.
Qed.

Lemma nodup_of_map {A B} (k : A -> B) (l : list A) : NoDup (map k l) -> NoDup l.
Proof.
  induction l as [|x l IH]; cbn; intros H; constructor; inversion H; subst; auto.
  intros Hin. apply H2. apply in_map, Hin.
Qed.

Lemma nodup_map_comp {A B C} (k : A -> B) (h : B -> C) (l : list A) :
  (forall x y, h x = h y -> x = y) -> NoDup (map k l) -> NoDup (map (fun a => h (k a)) l).
Proof.
  intros Hi. induction l as [|x l IH]; cbn; intros H; constructor; inversion H; subst; auto.
  intros Hin. apply in_map_iff in Hin. destruct Hin as [y [E Hy]]. apply Hi in E.
  apply H2. rewrite <- E. apply in_map, Hy.
Qed.

Lemma nodup_map_filter {A B} (k : A -> B) (p : A -> bool) (l : list A) :
  NoDup (map k l) -> NoDup (map k (filter p l)).
Proof.
  induction l as [|x l IH]; cbn; intros H; [constructor|]. inversion H; subst.
  destruct (p x); cbn; auto. constructor; auto.
  intros Hin. apply in_map_iff in Hin. destruct Hin as [y [E Hy]]. apply filter_In in Hy.
  apply H2. rewrite <- E. apply in_map, Hy.
Qed.

Lemma nodup_flat_map_key {A B C} (key : B -> C) (f : A -> list B) (l : list A) :
  NoDup l ->
  (forall a, In a l -> NoDup (map key (f a))) ->
  (forall a a' b b', In a l -> In a' l -> In b (f a) -> In b' (f a') -> key b = key b' -> a = a') ->
  NoDup (map key (flat_map f l)).
Proof.
  induction l as [|a l IH]; intros Hl Hin Hdis; cbn; [constructor|].
  rewrite map_app. inversion Hl as [|? ? Hna Hl']; subst. apply nodup_app.
  - apply Hin. left. reflexivity.
  - apply IH; auto.
    + intros x Hx. apply Hin. right. exact Hx.
    + intros x x' b b' Hx Hx'. apply Hdis; right; assumption.
  - intros c Hc Hc'. apply in_map_iff in Hc. destruct Hc as [b [E Hb]].
    apply in_map_iff in Hc'. destruct Hc' as [b' [E' Hb']].
    apply in_flat_map in Hb'. destruct Hb' as [a' [Ha' Hb']].
    assert (a = a') by (eapply (Hdis a a' b b'); auto; [left; reflexivity | right; exact Ha' | congruence]).
    subst. contradiction.
Qed.

Section Mult.
  Variable g : graph.
  Hypothesis rels_nodup : NoDup (map r_id (g_rels g)).
  Hypothesis nodes_nodup : NoDup (map n_id (g_nodes g)).

  Definition hop_key (c : rel * N) : N := r_id (fst c).

  Lemma hops_nodup rp u : NoDup (map hop_key (hops g rp u)).
  Proof.
    unfold hops. apply nodup_flat_map_key.
    - eapply nodup_of_map, rels_nodup.
    - intros r _. unfold hop.
      destruct (rel_ok rp r); [|constructor].
      destruct (rp_dir rp); repeat match goal with |- context [if ?b then _ else _] => destruct b end;
        cbn; repeat constructor; intros [].
    - intros r r' [x v] [x' v'] Hr Hr' Hb Hb' E.
      apply hop_spec in Hb. apply hop_spec in Hb'. destruct Hb as [-> _], Hb' as [-> _].
      unfold hop_key in E. cbn in E. eapply nodup_map_inj_on; eauto.
  Qed.

  Definition trail_key (t : list rel * N) : list N * N := (map r_id (fst t), snd t).

  Lemma trails_nodup rp fuel : forall u used, NoDup (map trail_key (trails fuel g rp u used)).
  Proof.
    induction fuel as [|f IH]; intros u used; cbn [trails map].
    - repeat constructor. intros [].
    - constructor.
      + intros Hin. apply in_map_iff in Hin. destruct Hin as [[rs w] [E Hin]].
        apply in_flat_map in Hin. destruct Hin as [c [_ Hin]].
        destruct (memN (r_id (fst c)) used); [destruct Hin|].
        apply in_map_iff in Hin. destruct Hin as [t [E' _]]. inversion E'; subst.
        unfold trail_key in E. cbn in E. discriminate.
      + apply nodup_flat_map_key.
        * eapply nodup_of_map, hops_nodup.
        * intros c _. destruct (memN (r_id (fst c)) used); [constructor|].
          rewrite map_map. unfold trail_key. cbn [fst snd map].
          apply (nodup_map_comp trail_key (fun k : list N * N => (r_id (fst c) :: fst k, snd k))); [|apply IH].
          intros [a b] [a' b'] E. cbn in E. inversion E; subst. reflexivity.
        * intros c c' b b' Hc Hc' Hb Hb' E.
          destruct (memN (r_id (fst c)) used); [destruct Hb|].
          destruct (memN (r_id (fst c')) used); [destruct Hb'|].
          apply in_map_iff in Hb. destruct Hb as [t [<- _]].
          apply in_map_iff in Hb'. destruct Hb' as [t' [<- _]].
          unfold trail_key in E. cbn in E. inversion E.
          eapply (nodup_map_inj_on hop_key); eauto. apply hops_nodup.
  Qed.

  Lemma seg_cands_nodup rp u used : NoDup (map trail_key (seg_cands g rp u used)).
  Proof.
    unfold seg_cands. destruct (rp_len rp) as [[lo hi]|].
    - apply nodup_map_filter, trails_nodup.
    - rewrite map_map. unfold trail_key. cbn [fst snd map].
      assert (H := nodup_map_filter hop_key (fun c : rel * N => negb (memN (r_id (fst c)) used)) _ (hops_nodup rp u)).
      remember (filter _ (hops g rp u)) as l eqn:El. clear El.
      induction l as [|c l IHl]; cbn [map]; [constructor|]. cbn [map] in H.
      inversion H as [|? ? Hnot Hrest]; subst.
      constructor; [|apply IHl; exact Hrest].
      intros Hin. apply in_map_iff in Hin. destruct Hin as [c' [E Hc']].
      apply Hnot. unfold hop_key. assert (E1 : r_id (fst c') = r_id (fst c)) by (inversion E; reflexivity).
      rewrite <- E1. apply (in_map (fun c0 : rel * N => r_id (fst c0))), Hc'.
  Qed.

  Lemma rels_of_ids (l l' : list rel) :
    incl l (g_rels g) -> incl l' (g_rels g) -> map r_id l = map r_id l' -> l = l'.
  Proof.
    revert l'. induction l as [|r l IH]; intros [|r' l'] H H' E; cbn in E; try discriminate; auto.
    inversion E. f_equal.
    - eapply (nodup_map_inj_on r_id); eauto; [apply H | apply H']; left; reflexivity.
    - apply IH; auto; intros x Hx; [apply H | apply H']; right; exact Hx.
  Qed.

  Lemma seg_cands_incl rp u used rs w : In (rs, w) (seg_cands g rp u used) -> incl rs (g_rels g).
  Proof. intros H. apply seg_cands_spec in H. destruct H as [[Hw _] _]. eapply walk_incl, Hw. Qed.

  Definition segs_key (m : list seg_asg * row * list N) : list seg_asg := fst (fst m).

  Lemma enum_segs_nodup segs : forall u r used, NoDup (map segs_key (enum_segs g segs u r used)).
  Proof.
    induction segs as [|[rp np] rest IH]; intros u r used; cbn [enum_segs].
    - repeat constructor. intros [].
    - apply nodup_flat_map_key.
      + eapply nodup_of_map, seg_cands_nodup.
      + intros c _. destruct (find_node g (snd c)) as [n1|]; [|constructor].
        destruct (node_ok np n1); [|constructor].
        destruct (bind_var (rp_var rp) (rel_value rp (fst c)) r) as [ra|]; [|constructor].
        destruct (bind_var (np_var np) (VNode (snd c)) ra) as [rb|]; [|constructor].
        rewrite map_map. unfold segs_key. cbn [fst snd].
        apply (nodup_map_comp segs_key (fun a : list seg_asg => (map r_id (fst c), snd c) :: a)); [|apply IH].
        intros x y E. inversion E. reflexivity.
      + intros c c' b b' Hc Hc' Hb Hb' E.
        destruct (find_node g (snd c)) as [n1|]; [|destruct Hb]. destruct (node_ok np n1); [|destruct Hb].
        destruct (bind_var (rp_var rp) (rel_value rp (fst c)) r) as [ra|]; [|destruct Hb].
        destruct (bind_var (np_var np) (VNode (snd c)) ra) as [rb|]; [|destruct Hb].
        destruct (find_node g (snd c')) as [n2|]; [|destruct Hb']. destruct (node_ok np n2); [|destruct Hb'].
        destruct (bind_var (rp_var rp) (rel_value rp (fst c')) r) as [rc|]; [|destruct Hb'].
        destruct (bind_var (np_var np) (VNode (snd c')) rc) as [rd|]; [|destruct Hb'].
        apply in_map_iff in Hb. destruct Hb as [m [<- _]].
        apply in_map_iff in Hb'. destruct Hb' as [m' [<- _]].
        unfold segs_key in E. cbn [fst snd] in E. inversion E as [[E1 E2]].
        destruct c as [rs w], c' as [rs' w']. cbn [fst snd] in *. subst w'. f_equal.
        apply rels_of_ids; auto; eapply seg_cands_incl; eauto.
  Qed.

  Definition path_key (m : path_asg * row * list N) : path_asg := fst (fst m).

  Lemma enum_path_nodup p r used : NoDup (map path_key (enum_path g p r used)).
  Proof.
    unfold enum_path. apply nodup_flat_map_key.
    - eapply nodup_of_map, nodes_nodup.
    - intros n _. destruct (node_ok (fst p) n); [|constructor].
      destruct (bind_var _ _ r); [|constructor].
      rewrite map_map. unfold path_key. cbn [fst snd].
      apply (nodup_map_comp segs_key (fun a : list seg_asg => (n_id n, a))); [|apply enum_segs_nodup].
      intros x y E. inversion E. reflexivity.
    - intros n n' b b' Hn Hn' Hb Hb' E.
      destruct (node_ok (fst p) n); [|destruct Hb]. destruct (bind_var _ _ r); [|destruct Hb].
      destruct (node_ok (fst p) n'); [|destruct Hb'].
      destruct (bind_var (np_var (fst p)) (VNode (n_id n')) r); [|destruct Hb'].
      apply in_map_iff in Hb. destruct Hb as [m [<- _]].
      apply in_map_iff in Hb'. destruct Hb' as [m' [<- _]].
      unfold path_key in E. cbn [fst snd] in E. inversion E.
      eapply (nodup_map_inj_on n_id); eauto.
  Qed.

  Definition pats_key (m : list path_asg * row * list N) : list path_asg := fst (fst m).

  Lemma enum_pats_nodup iso ps : forall r used, NoDup (map pats_key (enum_pats iso g ps r used)).
  Proof.
    induction ps as [|p rest IH]; intros r used; cbn [enum_pats].
    - repeat constructor. intros [].
    - apply nodup_flat_map_key.
      + eapply nodup_of_map, enum_path_nodup.
      + intros m _. rewrite map_map. unfold pats_key. cbn [fst snd].
        apply (nodup_map_comp pats_key (fun a : list path_asg => fst (fst m) :: a)); [|apply IH].
        intros x y E. inversion E. reflexivity.
      + intros m m' b b' Hm Hm' Hb Hb' E.
        apply in_map_iff in Hb. destruct Hb as [x [<- _]].
        apply in_map_iff in Hb'. destruct Hb' as [x' [<- _]].
        unfold pats_key in E. cbn [fst snd] in E. inversion E.
        eapply (nodup_map_inj_on path_key); eauto. apply enum_path_nodup.
  Qed.
End Mult.

(* ------------------------------------------------------------------ *)
(* aggregation: one group per distinct grouping key; the groups partition the rows *)

Lemma map_fst_filter {A B} (P : A -> bool) (l : list (A * B)) :
  map fst (filter (fun kg => P (fst kg)) l) = filter P (map fst l).
Proof.
  induction l as [|[k v] l IH]; [reflexivity|]. cbn [filter map fst].
  destruct (P k); cbn [map fst]; rewrite IH; reflexivity.
Qed.

Lemma group_rows_keys (l : list (list value * row)) :
  map fst (group_rows l) = dedup_by row_vals_eqb (map fst l).
Proof.
  induction l as [|[k r] rest IH]; [reflexivity|]. cbn [group_rows map fst dedup_by].
  f_equal. rewrite <- IH.
  exact (map_fst_filter (fun y => negb (row_vals_eqb k y)) (group_rows rest)).
Qed.

Lemma partition_concat_perm {A B} (P : A -> bool) (gs : list (A * list B)) :
  Permutation (concat (map snd (filter (fun kg => P (fst kg)) gs))
               ++ concat (map snd (filter (fun kg => negb (P (fst kg))) gs)))
              (concat (map snd gs)).
Proof.
  induction gs as [|[k rs] gs IH]; [constructor|]. cbn [filter map snd concat fst].
  destruct (P k); cbn [negb map snd concat].
  - rewrite <- app_assoc. apply Permutation_app_head, IH.
  - eapply perm_trans; [|apply Permutation_app_head, IH].
    rewrite !app_assoc. apply Permutation_app_tail, Permutation_app_comm.
Qed.

Lemma group_rows_partition (l : list (list value * row)) :
  Permutation (concat (map snd (group_rows l))) (map snd l).
Proof.
  induction l as [|[k r] rest IH]; [constructor|]. cbn [group_rows map snd concat].
  rewrite <- app_comm_cons. apply perm_skip.
  eapply perm_trans; [|exact IH].
  exact (partition_concat_perm (fun y => row_vals_eqb k y) (group_rows rest)).
Qed.

(* the grouping keys of the result are pairwise different and are exactly the keys of the input *)
Lemma group_rows_keys_spec (l : list (list value * row)) :
  NoDup (map fst (group_rows l)) /\ forall k, In k (map fst (group_rows l)) <-> In k (map fst l).
Proof.
  rewrite group_rows_keys. split; [apply dedup_by_NoDup | intros k; apply dedup_by_In]; apply row_vals_eqb_eq.
Qed.

(* ------------------------------------------------------------------ *)
(* anchor choice: a segment can be expanded from either end *)

Definition flip_dir (d : dir) : dir := match d with DOut => DIn | DIn => DOut | DBoth => DBoth end.
Definition flip_rp (rp : rpat value) : rpat value :=
  RP (rp_var rp) (rp_types rp) (flip_dir (rp_dir rp)) (rp_props rp) (rp_len rp).

Lemma step_flip d r u v : Step d r u v <-> Step (flip_dir d) r v u.
Proof. destruct d; cbn; tauto. Qed.

Lemma hops_flip g rp u v r : In (r, v) (hops g rp u) <-> In (r, u) (hops g (flip_rp rp) v).
Proof.
  rewrite !hops_spec. change (rel_ok (flip_rp rp) r) with (rel_ok rp r).
  change (rp_dir (flip_rp rp)) with (flip_dir (rp_dir rp)). rewrite (step_flip (rp_dir rp)). tauto.
Qed.

Lemma walk_snoc g rp u rs v r w :
  Walk g rp u rs v -> In r (g_rels g) -> rel_ok rp r = true -> Step (rp_dir rp) r v w ->
  Walk g rp u (rs ++ [r]) w.
Proof.
  induction 1 as [u|u r0 v0 rs w0 H1 H2 H3 H4 IH]; intros Hr Ho Hs; cbn.
  - econstructor; eauto. constructor.
  - econstructor; eauto.
Qed.

(* a walk from u to w is, read backwards, a walk from w to u for the reversed direction *)
Lemma walk_rev g rp u rs w : Walk g rp u rs w -> Walk g (flip_rp rp) w (rev rs) u.
Proof.
  induction 1 as [u|u r v rs w H1 H2 H3 H4 IH]; cbn; [constructor|].
  eapply walk_snoc; eauto. change (rp_dir (flip_rp rp)) with (flip_dir (rp_dir rp)).
  apply step_flip in H3. exact H3.
Qed.

Lemma flip_rp_invol rp : flip_rp (flip_rp rp) = rp.
Proof. destruct rp as [a b [] d e]; reflexivity. Qed.

(* ... and so the trails between two nodes are the same whichever end the expansion starts from *)
Lemma trail_rev g rp u used rs w :
  Trail g rp u used rs w <-> Trail g (flip_rp rp) w used (rev rs) u.
Proof.
  assert (F : forall rp u rs w, Trail g rp u used rs w -> Trail g (flip_rp rp) w used (rev rs) u).
  { intros rp0 u0 rs0 w0 [Hw [Hn Hu]]. split; [apply walk_rev, Hw|]. split.
    - rewrite map_rev. apply NoDup_rev, Hn.
    - intros r Hr. apply Hu. apply in_rev. exact Hr. }
  split; [apply F|]. intros H. apply F in H. rewrite flip_rp_invol, rev_involutive in H. exact H.
Qed.

(* ------------------------------------------------------------------ *)
(* orderability is a total preorder: the comparison composes *)

Definition comp_ok (ab bc ac : comparison) : Prop :=
  match ab, bc with
  | Lt, Lt | Lt, Eq | Eq, Lt => ac = Lt
  | Eq, Eq => ac = Eq
  | _, _ => True
  end.

Lemma N_compare_comp x y z : comp_ok (N.compare x y) (N.compare y z) (N.compare x z).
Proof.
  unfold comp_ok. destruct (N.compare_spec x y), (N.compare_spec y z); auto; subst;
    try (apply N.compare_lt_iff; lia); try (apply N.compare_eq_iff; lia).
Qed.

Lemma Z_compare_comp x y z : comp_ok (Z.compare x y) (Z.compare y z) (Z.compare x z).
Proof.
  unfold comp_ok. destruct (Z.compare_spec x y), (Z.compare_spec y z); auto; subst;
    try (apply Z.compare_lt_iff; lia); try (apply Z.compare_eq_iff; lia).
Qed.

Ltac solve_comp :=
  unfold comp_ok;
  repeat (match goal with
          | |- context [match ?c with Eq => _ | Lt => _ | Gt => _ end] => destruct c
          end); auto.

Lemma lex_cmp_comp a : forall b c, comp_ok (lex_cmp a b) (lex_cmp b c) (lex_cmp a c).
Proof.
  induction a as [|x a IH]; intros b c; destruct b as [|y b], c as [|z c]; cbn [lex_cmp];
    try (solve_comp; fail).
  pose proof (N_compare_comp x y z) as H. pose proof (IH b c) as H'.
  destruct (N.compare x y) eqn:E1; destruct (N.compare y z) eqn:E2; unfold comp_ok in H |- *;
    try rewrite H;
    solve [ exact I | exact H' | auto
          | destruct (lex_cmp a b); auto | destruct (lex_cmp b c); auto
          | destruct (lex_cmp a b), (lex_cmp b c); auto ].
Qed.

Lemma ord_cmp_comp a : forall b c, comp_ok (ord_cmp a b) (ord_cmp b c) (ord_cmp a c).
Proof.
  induction a as [| x | x | x | l IHl | i | i] using value_ind'; intros b c;
    destruct b as [| y | y | y | m | j | j]; destruct c as [| z | z | z | n | k | k];
    try (cbn; solve_comp; fail).
  - destruct x, y, z; cbn; auto; exact I.
  - cbn. apply Z_compare_comp.
  - cbn. apply lex_cmp_comp.
  - cbn. revert m n. induction IHl as [|u l Hu _ IH]; intros m n; destruct m as [|v m], n as [|w n];
      try (solve_comp; fail).
    pose proof (Hu v w) as H. pose proof (IH m n) as H'. cbn.
    match goal with |- comp_ok ?A ?B ?C => set (ab := A); set (bc := B); set (ac := C) end.
    unfold ab, bc, ac. clear ab bc ac.
    destruct (ord_cmp u v) eqn:E1; destruct (ord_cmp v w) eqn:E2; unfold comp_ok in H |- *;
      try rewrite H;
      solve [ exact I | exact H' | auto
            | match goal with |- context [match ?c with Eq => _ | Lt => _ | Gt => _ end] => destruct c; auto end ].
Qed.

Lemma ord_cmp_refl a : ord_cmp a a = Eq.
Proof. pose proof (ord_cmp_opp a a) as H. destruct (ord_cmp a a); cbn in H; congruence. Qed.

Definition vle (a b : value) : Prop := ord_cmp a b <> Gt.

Lemma vle_trans a b c : vle a b -> vle b c -> vle a c.
Proof.
  unfold vle. intros H1 H2. pose proof (ord_cmp_comp a b c) as H. unfold comp_ok in H.
  destruct (ord_cmp a b), (ord_cmp b c); try congruence; rewrite H; discriminate.
Qed.

Lemma vle_of_gt a b : ord_cmp a b = Gt -> vle b a.
Proof. unfold vle. intros H. rewrite (ord_cmp_opp a b), H. cbn. discriminate. Qed.

(* min / max by folding: the result is an element, and it is below / above every element *)
Lemma best_min_spec : forall r v,
  let m := fold_left (fun acc x => if (match ord_cmp acc x with Gt => false | _ => true end) then acc else x) r v in
  In m (v :: r) /\ Forall (vle m) (v :: r).
Proof.
  induction r as [|x r IH]; intros v; cbn [fold_left].
  - split; [left; reflexivity | constructor; [unfold vle; rewrite ord_cmp_refl; discriminate | constructor]].
  - set (acc := if match ord_cmp v x with Gt => false | _ => true end then v else x).
    destruct (IH acc) as [Hin Hall]. inversion Hall as [|? ? Hacc Hr]; subst.
    assert (Hv : vle acc v /\ vle acc x).
    { unfold acc. destruct (ord_cmp v x) eqn:E; split; unfold vle;
        try (rewrite ord_cmp_refl; discriminate); try (rewrite E; discriminate).
      apply vle_of_gt, E. }
    split.
    + destruct Hin as [Hin|Hin]; [|right; right; exact Hin].
      rewrite <- Hin. unfold acc. destruct (match ord_cmp v x with Gt => false | _ => true end); [left | right; left]; reflexivity.
    + constructor; [eapply vle_trans; [exact Hacc | apply Hv]|].
      constructor; [eapply vle_trans; [exact Hacc | apply Hv] | exact Hr].
Qed.

Definition vge (a b : value) : Prop := ord_cmp a b <> Lt.
Lemma vge_vle a b : vge a b <-> vle b a.
Proof. unfold vge, vle. rewrite (ord_cmp_opp a b). destruct (ord_cmp a b); cbn; split; congruence. Qed.

Lemma best_max_spec : forall r v,
  let m := fold_left (fun acc x => if (match ord_cmp acc x with Lt => false | _ => true end) then acc else x) r v in
  In m (v :: r) /\ Forall (vge m) (v :: r).
Proof.
  induction r as [|x r IH]; intros v; cbn [fold_left].
  - split; [left; reflexivity | constructor; [unfold vge; rewrite ord_cmp_refl; discriminate | constructor]].
  - set (acc := if match ord_cmp v x with Lt => false | _ => true end then v else x).
    destruct (IH acc) as [Hin Hall]. inversion Hall as [|? ? Hacc Hr]; subst.
    assert (Hv : vge acc v /\ vge acc x).
    { unfold acc. destruct (ord_cmp v x) eqn:E; split; unfold vge;
        try (rewrite ord_cmp_refl; discriminate); try (rewrite E; discriminate).
      rewrite (ord_cmp_opp v x), E. cbn. discriminate. }
    split.
    + destruct Hin as [Hin|Hin]; [|right; right; exact Hin].
      rewrite <- Hin. unfold acc. destruct (match ord_cmp v x with Lt => false | _ => true end); [left | right; left]; reflexivity.
    + assert (T : forall y, vge acc y -> vge (fold_left (fun acc0 x0 => if match ord_cmp acc0 x0 with Lt => false | _ => true end then acc0 else x0) r acc) y).
      { intros y Hy. apply vge_vle. eapply vle_trans; [apply vge_vle, Hy | apply vge_vle, Hacc]. }
      constructor; [apply T, Hv|]. constructor; [apply T, Hv | exact Hr].
Qed.

Lemma sum_values_spec xs v :
  sum_values xs = Ok v -> exists zs, xs = map VInt zs /\ v = VInt (fold_right Z.add 0%Z zs).
Proof.
  unfold sum_values. destruct (omap _ xs) as [zs| | |] eqn:E; cbn [obind]; try discriminate.
  intros H. exists zs. split.
  - clear H. apply omap_ok in E. revert zs E. induction xs as [|x xs IH]; intros [|z zs] E; cbn in E; try discriminate; auto.
    inversion E as [[E1 E2]]. destruct x; try discriminate. inversion E1; subst. cbn. f_equal. apply IH, E2.
  - unfold mk_int in H. destruct (in_i64 _); [inversion H; reflexivity | discriminate].
Qed.

(* what each aggregate computes inside a group: [vals] are the argument's values on the rows *)
Lemma agg_value_spec cf g pe a d e rows vals v :
  cf_sum_distinct cf = true -> cf_collect_distinct_entities cf = true ->
  omap (fun r => eval_expr cf g pe r e) rows = Ok vals ->
  eval_agg cf g pe a d (Some e) rows = Ok v ->
  let nn := filter (fun x => negb (value_eqb x VNull)) vals in
  exists xs,
    (if d then NoDup xs /\ (forall x, In x xs <-> In x nn) else xs = nn) /\
    match a with
    | GCount => v = VInt (Z.of_nat (length xs))
    | GSum => exists zs, xs = map VInt zs /\ v = VInt (fold_right Z.add 0%Z zs)
    | GMin => (xs = [] /\ v = VNull) \/ (In v xs /\ Forall (fun x => ord_cmp v x <> Gt) xs)
    | GMax => (xs = [] /\ v = VNull) \/ (In v xs /\ Forall (fun x => ord_cmp v x <> Lt) xs)
    | GCollect => v = VList xs
    end.
Proof.
  intros F1 F2 Hv H nn. unfold eval_agg in H. rewrite Hv in H. cbn [obind] in H. fold nn in H.
  set (xs := if d then dedup_by value_eqb nn else nn) in H.
  exists xs. split.
  { unfold xs. destruct d; [|reflexivity]. split; [apply dedup_by_NoDup | intros x; apply dedup_by_In]; apply value_eqb_eq. }
  rewrite F1 in H. rewrite F2 in H. rewrite andb_false_r in H.
  destruct a; cbn beta iota in H.
  - inversion H. reflexivity.
  - apply sum_values_spec, H.
  - destruct (existsb is_entity xs); [discriminate|]. inversion H; subst. unfold best.
    destruct xs as [|x0 r]; [left; split; reflexivity|]. right. apply best_min_spec.
  - destruct (existsb is_entity xs); [discriminate|]. inversion H; subst. unfold best.
    destruct xs as [|x0 r]; [left; split; reflexivity|]. right. apply best_max_spec.
  - inversion H. reflexivity.
Qed.

Lemma count_star_spec cf g pe a d rows :
  eval_agg cf g pe a d None rows = Ok (VInt (Z.of_nat (length rows))).
Proof. reflexivity. Qed.
