(* Proofs about the snapshot model (SnapshotJson.v): value round trip, graph round trip. *)
From Coq Require Import List NArith ZArith Bool Lia.
From Verif Require Import SnapshotJson.
Import ListNotations.
Open Scope N_scope.

(* ---------- strings, association lists, sets ---------- *)
Lemma str_eqb_refl : forall a, str_eqb a a = true.
Proof. induction a as [|x a IH]; cbn; [reflexivity|]. now rewrite N.eqb_refl, IH. Qed.

Lemma str_eqb_eq : forall a b, str_eqb a b = true <-> a = b.
Proof.
  induction a as [|x a IH]; intros [|y b]; cbn; try (split; congruence).
  rewrite andb_true_iff, N.eqb_eq, IH. split; [intros [-> ->]; reflexivity | intros E; inversion E; auto].
Qed.

Lemma str_eqb_neq : forall a b, str_eqb a b = false <-> a <> b.
Proof.
  intros a b. destruct (str_eqb a b) eqn:E.
  - apply str_eqb_eq in E. split; [discriminate | congruence].
  - split; [intros _ H; apply str_eqb_eq in H; congruence | reflexivity].
Qed.

Lemma str_eqb_sym : forall a b, str_eqb a b = str_eqb b a.
Proof.
  intros a b. destruct (str_eqb a b) eqn:E.
  - apply str_eqb_eq in E. subst. now rewrite str_eqb_refl.
  - symmetry. apply str_eqb_neq. apply str_eqb_neq in E. congruence.
Qed.

Lemma aget_adel_same {A} : forall k (l : list (str * A)), aget k (adel k l) = None.
Proof.
  intros k l. induction l as [|[k' v] r IH]; cbn; [reflexivity|].
  destruct (str_eqb k k') eqn:E; [exact IH|]. cbn. now rewrite E.
Qed.

Lemma aget_adel_other {A} : forall k k' (l : list (str * A)),
  str_eqb k k' = false -> aget k (adel k' l) = aget k l.
Proof.
  intros k k' l Hn. induction l as [|[k2 v] r IH]; cbn; [reflexivity|].
  destruct (str_eqb k' k2) eqn:E.
  - apply str_eqb_eq in E. subst k2. now rewrite Hn.
  - cbn. destruct (str_eqb k k2); [reflexivity | exact IH].
Qed.

Lemma aget_aset {A} : forall k k' (v : A) l,
  aget k (aset k' v l) = if str_eqb k k' then Some v else aget k l.
Proof.
  intros k k' v l. unfold aset. cbn. destruct (str_eqb k k') eqn:E; [reflexivity|].
  now apply aget_adel_other.
Qed.

Lemma aget_none_notin {A} : forall k (l : list (str * A)), aget k l = None <-> ~ In k (map fst l).
Proof.
  intros k l. induction l as [|[k' v] r IH]; cbn.
  - tauto.
  - destruct (str_eqb k k') eqn:E.
    + apply str_eqb_eq in E. subst. split; [discriminate | intros H; exfalso; apply H; now left].
    + apply str_eqb_neq in E. rewrite IH. split; [intros H [H1|H1]; [congruence | tauto] | tauto].
Qed.

Lemma smem_app : forall x a b, smem x (a ++ b) = smem x a || smem x b.
Proof. intros. unfold smem. apply existsb_app. Qed.

Lemma smem_sadd : forall x y l, smem x (sadd y l) = str_eqb x y || smem x l.
Proof.
  intros x y l. unfold sadd. destruct (smem y l) eqn:E.
  - destruct (str_eqb x y) eqn:Exy; [|reflexivity]. apply str_eqb_eq in Exy. subst. now rewrite E.
  - rewrite smem_app. cbn. rewrite orb_false_r. apply orb_comm.
Qed.

Lemma smem_fold_sadd : forall x ls acc,
  smem x (fold_left (fun a l => sadd l a) ls acc) = smem x ls || smem x acc.
Proof.
  intros x ls. induction ls as [|l r IH]; intros acc; [reflexivity|].
  cbn [fold_left]. rewrite IH, smem_sadd. unfold smem. cbn [existsb].
  destruct (str_eqb x l), (existsb (str_eqb x) r), (existsb (str_eqb x) acc); reflexivity.
Qed.

(* ---------- induction on values ---------- *)
Section PvInd.
  Variable P : pv -> Prop.
  Hypothesis Hstr : forall s, P (PStr s).
  Hypothesis Hint : forall z, P (PInt z).
  Hypothesis Hfloat : forall b, P (PFloat b).
  Hypothesis Hbool : forall b, P (PBool b).
  Hypothesis Hnull : P PNull.
  Hypothesis Hdt : forall z, P (PDateTime z).
  Hypothesis Harr : forall l, Forall P l -> P (PArr l).
  Hypothesis Hmap : forall m, Forall (fun kv => P (snd kv)) m -> P (PMap m).
  Hypothesis Hvec : forall l, P (PVec l).
  Hypothesis Hdur : forall a b c d, P (PDur a b c d).

  Fixpoint pv_ind' (v : pv) : P v :=
    match v with
    | PStr s => Hstr s
    | PInt z => Hint z
    | PFloat b => Hfloat b
    | PBool b => Hbool b
    | PNull => Hnull
    | PDateTime z => Hdt z
    | PArr l => Harr l ((fix go (l : list pv) : Forall P l :=
                           match l with
                           | [] => Forall_nil _
                           | x :: r => Forall_cons x (pv_ind' x) (go r)
                           end) l)
    | PMap m => Hmap m ((fix go (m : list (str * pv)) : Forall (fun kv => P (snd kv)) m :=
                           match m with
                           | [] => Forall_nil _
                           | kv :: r => Forall_cons kv (pv_ind' (snd kv)) (go r)
                           end) m)
    | PVec l => Hvec l
    | PDur a b c d => Hdur a b c d
    end.
End PvInd.

(* type invariant of PropertyValue that the model's Z does not carry: nanos is an i32 *)
Fixpoint wfv (v : pv) : Prop :=
  match v with
  | PDur _ _ _ ns => (-2147483648 <= ns < 2147483648)%Z
  | PArr l => (fix go (l : list pv) : Prop :=
                 match l with [] => True | x :: r => wfv x /\ go r end) l
  | PMap m => (fix go (m : list (str * pv)) : Prop :=
                 match m with [] => True | (_, x) :: r => wfv x /\ go r end) m
  | _ => True
  end.

Definition pmap_go (m : list (str * pv)) : list (str * json) :=
  (fix go (m : list (str * pv)) : list (str * json) :=
     match m with [] => [] | (k, x) :: r => (k, p2j x) :: go r end) m.

Lemma p2j_map : forall m, p2j (PMap m) = JObj (pmap_go m).
Proof. reflexivity. Qed.

Lemma aget_pmap_go : forall k m, aget k (pmap_go m) = option_map p2j (aget k m).
Proof.
  intros k m. induction m as [|[k' v] r IH]; cbn; [reflexivity|].
  destruct (str_eqb k k'); [reflexivity | exact IH].
Qed.

Lemma p2j_jstr : forall x t, p2j x = JStr t -> x = PStr t.
Proof. intros x t; destruct x as [ | |fb| | | | | | | ]; cbn; try discriminate; try congruence. destruct (finite64 fb); discriminate. Qed.
Lemma p2j_jint : forall x z, p2j x = JInt z -> x = PInt z.
Proof. intros x z0; destruct x as [ | |fb| | | | | | | ]; cbn; try discriminate; try congruence. destruct (finite64 fb); discriminate. Qed.
Lemma p2j_jarr : forall x l, p2j x = JArr l -> exists l', x = PArr l'.
Proof. intros x l0; destruct x as [ | |fb| | | | | | | ]; cbn; try discriminate; eauto. destruct (finite64 fb); discriminate. Qed.
Lemma p2j_jvec : forall x l, p2j x <> JVec l.
Proof. intros x l0; destruct x as [ | |fb| | | | | | | ]; cbn; try discriminate. destruct (finite64 fb); discriminate. Qed.

Lemma wrap32_id : forall z, (-2147483648 <= z < 2147483648)%Z -> wrap32 z = z.
Proof.
  intros z H. unfold wrap32.
  destruct (Z_lt_ge_dec z 0) as [Hn|Hp].
  - assert (E : (z mod 4294967296 = z + 4294967296)%Z).
    { symmetry. apply Z.mod_unique with (q := (-1)%Z); lia. }
    rewrite E. destruct (z + 4294967296 <? 2147483648)%Z eqn:L; [apply Z.ltb_lt in L; lia | lia].
  - rewrite Z.mod_small by lia. destruct (z <? 2147483648)%Z eqn:L; [reflexivity | apply Z.ltb_ge in L; lia].
Qed.

Lemma somes_finite : forall l,
  existsb (fun b => negb (finite32 b)) l = false ->
  somes (map (fun b => if finite32 b then Some b else None) l) = l.
Proof.
  induction l as [|b l IH]; cbn; [reflexivity|]. intros H.
  apply orb_false_iff in H. destruct H as [H1 H2]. apply negb_false_iff in H1. rewrite H1. cbn.
  now rewrite IH.
Qed.

Section ValueRt.
Variable narrow : json -> option N.

Definition jmap_go (m : list (str * json)) : list (str * pv) :=
  (fix go (m : list (str * json)) : list (str * pv) :=
     match m with [] => [] | (k, x) :: r => (k, j2p narrow x) :: go r end) m.

Lemma value_rt : forall v,
  wfv v -> nonfinite v = false -> type_tag_map v = false -> j2p narrow (p2j v) = v.
Proof.
  induction v as [s|z|b|b| |z|l IH|m IH|l|mo d s ns] using pv_ind'; intros Hw Hn Ht; try reflexivity.
  - (* float *) cbn in Hn. apply negb_false_iff in Hn. cbn. now rewrite Hn.
  - (* array *)
    cbn. f_equal. induction l as [|x r IHr]; [reflexivity|].
    cbn in *. inversion IH as [|? ? Hx Hr]; subst. destruct Hw as [Hw1 Hw2].
    apply orb_false_iff in Hn. destruct Hn as [Hn1 Hn2]. apply orb_false_iff in Ht. destruct Ht as [Ht1 Ht2].
    rewrite Hx by assumption. f_equal. now apply IHr.
  - (* map *)
    rewrite p2j_map.
    cbn [type_tag_map] in Ht. apply orb_false_iff in Ht. destruct Ht as [Hc Hg].
    assert (Hplain : jmap_go (pmap_go m) = m).
    { clear Hc. induction m as [|[k x] r IHr]; [reflexivity|].
      cbn in *. inversion IH as [|? ? Hx Hr]; subst. destruct Hw as [Hw1 Hw2].
      apply orb_false_iff in Hn. destruct Hn as [Hn1 Hn2].
      apply orb_false_iff in Hg. destruct Hg as [Hg1 Hg2].
      cbn in Hx. rewrite Hx by assumption. f_equal. now apply IHr. }
    cbn [j2p]. fold (jmap_go (pmap_go m)). rewrite Hplain.
    rewrite !aget_pmap_go. unfold tag_collision in Hc.
    destruct (aget k_type m) as [tv|] eqn:Et; cbn [option_map]; [|reflexivity].
    destruct (p2j tv) eqn:Ej; try reflexivity.
    apply p2j_jstr in Ej. subst tv. cbv beta iota in Hc.
    destruct (str_eqb s t_datetime) eqn:E1.
    { apply str_eqb_eq in E1. subst s. cbn in Hc.
      destruct (aget k_value m) as [vv|] eqn:Ev; cbn [option_map as_i64]; [|reflexivity].
      destruct (p2j vv) eqn:Ejv; try reflexivity.
      apply p2j_jint in Ejv. subst vv. discriminate. }
    destruct (str_eqb s t_vector) eqn:E2.
    { apply str_eqb_eq in E2. subst s. cbn in Hc.
      destruct (aget k_value m) as [vv|] eqn:Ev; cbn [option_map]; [|reflexivity].
      destruct (p2j vv) eqn:Ejv; try reflexivity.
      - apply p2j_jarr in Ejv. destruct Ejv as [l' ->]. discriminate.
      - exfalso. eapply p2j_jvec; eauto. }
    destruct (str_eqb s t_duration) eqn:E3.
    { cbn in Hc. discriminate Hc. }
    reflexivity.
  - (* vector *) cbn in Hn. cbn. now rewrite somes_finite.
  - (* duration *) cbn in Hw. cbn. now rewrite wrap32_id.
Qed.
End ValueRt.

(* ---------- folds of HashMap inserts ---------- *)
Lemma in_keys_adel {A} : forall k k' (l : list (str * A)),
  In k (map fst (adel k' l)) -> In k (map fst l) /\ k <> k'.
Proof.
  intros k k' l. induction l as [|[k2 v] r IH]; cbn; [tauto|].
  destruct (str_eqb k' k2) eqn:E.
  - intros H. apply IH in H. tauto.
  - cbn. intros [H|H].
    + subst k2. split; [now left|]. apply str_eqb_neq in E. congruence.
    + apply IH in H. tauto.
Qed.

Lemma nodup_adel {A} : forall k (l : list (str * A)), NoDup (map fst l) -> NoDup (map fst (adel k l)).
Proof.
  intros k l. induction l as [|[k2 v] r IH]; cbn; [auto|]. intros H. inversion H as [|? ? Hn Hr]; subst.
  destruct (str_eqb k k2); [auto|]. cbn. constructor; [|auto].
  intros Hin. apply in_keys_adel in Hin. tauto.
Qed.

Lemma nodup_aset {A} : forall k (v : A) l, NoDup (map fst l) -> NoDup (map fst (aset k v l)).
Proof.
  intros k v l H. unfold aset. cbn. constructor; [|now apply nodup_adel].
  intros Hin. apply in_keys_adel in Hin. tauto.
Qed.

Section Folds.
Variable g : pv -> bool.   (* values that are skipped *)
Let stepf := fun (acc : list (str * pv)) (kv : str * pv) =>
  if g (snd kv) then acc else aset (fst kv) (snd kv) acc.

Lemma fold_keep_nodup : forall l acc, NoDup (map fst acc) -> NoDup (map fst (fold_left stepf l acc)).
Proof.
  induction l as [|[k v] r IH]; intros acc H; cbn; [exact H|]. apply IH. unfold stepf. cbn.
  destruct (g v); [exact H | now apply nodup_aset].
Qed.

Lemma fold_keep_get : forall l acc k, NoDup (map fst l) ->
  aget k (fold_left stepf l acc) =
  match aget k l with
  | Some v => if g v then aget k acc else Some v
  | None => aget k acc
  end.
Proof.
  induction l as [|[k' v] r IH]; intros acc k H; [reflexivity|].
  cbn [fold_left aget]. inversion H as [|? ? Hn Hr]; subst. rewrite IH by assumption.
  destruct (str_eqb k k') eqn:E.
  - apply str_eqb_eq in E. subst k'.
    assert (Hnone : aget k r = None) by (apply aget_none_notin; exact Hn).
    rewrite Hnone. unfold stepf. cbn. destruct (g v); [reflexivity|].
    rewrite aget_aset, str_eqb_refl. reflexivity.
  - assert (Hacc : aget k (stepf acc (k', v)) = aget k acc).
    { unfold stepf. cbn. destruct (g v); [reflexivity|]. now rewrite aget_aset, E. }
    rewrite Hacc. reflexivity.
Qed.
End Folds.

Lemma merged_nodup : forall n, NoDup (map fst (n_row n)) -> NoDup (map fst (merged n)).
Proof. intros n H. unfold merged. now apply (fold_keep_nodup is_null). Qed.

Definition good_value (v : pv) : Prop := wfv v /\ nonfinite v = false /\ type_tag_map v = false.

Section GraphRt.
Variable narrow : json -> option N.
Variable norm : str -> str.
Variable numstr : json -> str.

Lemma jprops_rt : forall l, Forall good_value (map snd l) ->
  map (fun kv => (fst kv, j2p narrow (snd kv))) (jprops l) = l.
Proof.
  induction l as [|[k v] r IH]; cbn; [reflexivity|]. intros H. inversion H as [|? ? [Hw [Hn Ht]] Hr]; subst.
  rewrite value_rt by assumption. f_equal. now apply IH.
Qed.

Lemma new_node_merged : forall id n,
  NoDup (map fst (n_row n)) -> Forall good_value (map snd (merged n)) ->
  forall k, aget k (merged (new_node narrow true id (export_node n))) = aget k (merged n).
Proof.
  intros id n Hnd Hgood k.
  pose proof (merged_nodup n Hnd) as HP.
  unfold new_node, export_node. cbn [nr_props nr_labels nr_id].
  rewrite jprops_rt by assumption.
  set (P := merged n) in *.
  unfold merged at 1. cbn [n_row n_col].
  assert (HC : NoDup (map fst (fold_left (fun acc kv => aset (fst kv) (snd kv) acc) P []))).
  { apply (fold_keep_nodup (fun _ => false)). constructor. }
  rewrite (fold_keep_get is_null) by exact HC.
  rewrite (fold_keep_get (fun _ => false) P [] k HP).
  rewrite (fold_keep_get is_scalar P [] k HP).
  destruct (aget k P) as [v|]; [|reflexivity].
  cbn [aget]. destruct v; reflexivity.
Qed.

Definition create1 (x : ist) (n : node) : ist :=
  let '(id, fr, nx) := alloc (st x) in
  {| st := add_node (st x) (new_node narrow true id (export_node n)) fr nx;
     remap := (n_id n, id) :: remap x; created := created x ++ [id];
     dindex := dindex x; merges := merges x; hdecls := hdecls x |}.

Lemma step_node_nokeys : forall x n,
  step_line narrow norm numstr true [] x (LNode (export_node n)) = Some (create1 x n).
Proof.
  intros x n. unfold step_line, create1. cbn [dedup_lookup]. destruct (alloc (st x)) as [[id fr] nx].
  reflexivity.
Qed.

Lemma run_nodes : forall ns x rest,
  run_lines narrow norm numstr true [] x (map (fun n => LNode (export_node n)) ns ++ rest)
  = run_lines narrow norm numstr true [] (fold_left create1 ns x) rest.
Proof.
  induction ns as [|n r IH]; intros x rest; [reflexivity|].
  cbn [map app run_lines fold_left]. rewrite step_node_nokeys. apply IH.
Qed.

Fixpoint mk (nx : N) (ns : list node) : list node :=
  match ns with
  | [] => []
  | n :: r => new_node narrow true nx (export_node n) :: mk (nx + 1) r
  end.
Fixpoint ids (nx : N) (ns : list node) : list N :=
  match ns with [] => [] | _ :: r => nx :: ids (nx + 1) r end.

Lemma create_all : forall ns x, free_n (st x) = [] ->
  let x' := fold_left create1 ns x in
  nodes (st x') = nodes (st x) ++ mk (next_n (st x)) ns
  /\ edges (st x') = edges (st x) /\ hier (st x') = hier (st x)
  /\ free_n (st x') = []
  /\ remap x' = rev (combine (map n_id ns) (ids (next_n (st x)) ns)) ++ remap x
  /\ hdecls x' = hdecls x /\ merges x' = merges x
  /\ created x' = created x ++ ids (next_n (st x)) ns.
Proof.
  induction ns as [|n r IH]; intros x Hf.
  - cbn. rewrite !app_nil_r. repeat split; try reflexivity; assumption.
  - cbn [fold_left].
    assert (Ha : alloc (st x) = (next_n (st x), [], next_n (st x) + 1)).
    { unfold alloc. rewrite Hf. reflexivity. }
    set (x1 := create1 x n).
    assert (E1 : x1 = {| st := add_node (st x) (new_node narrow true (next_n (st x)) (export_node n)) [] (next_n (st x) + 1);
                         remap := (n_id n, next_n (st x)) :: remap x; created := created x ++ [next_n (st x)];
                         dindex := dindex x; merges := merges x; hdecls := hdecls x |}).
    { unfold x1, create1. rewrite Ha. reflexivity. }
    specialize (IH x1). rewrite E1 in IH. cbn [st add_node free_n next_n nodes edges hier remap hdecls merges created] in IH.
    specialize (IH eq_refl). cbn zeta in IH. rewrite <- E1 in IH.
    destruct IH as (I1 & I2 & I3 & I4 & I5 & I6 & I7 & I8).
    cbn zeta. cbn [mk ids map combine rev].
    repeat split; try assumption.
    + rewrite I1, <- app_assoc. reflexivity.
    + rewrite I5, <- app_assoc. reflexivity.
    + rewrite I8, <- app_assoc. reflexivity.
Qed.

Definition ren (m : list (N * N)) (e : edge) : option edge :=
  match rget (e_src e) m, rget (e_tgt e) m with
  | Some a, Some b => Some {| e_src := a; e_tgt := b; e_ty := e_ty e; e_props := e_props e |}
  | _, _ => None
  end.

Definition with_edges (x : ist) (es : list edge) : ist :=
  {| st := {| nodes := nodes (st x); edges := es; hier := hier (st x);
              free_n := free_n (st x); next_n := next_n (st x) |};
     remap := remap x; created := created x; dindex := dindex x; merges := merges x; hdecls := hdecls x |}.

Lemma run_edges : forall es x es',
  map (ren (remap x)) es = map Some es' ->
  Forall (fun e => Forall good_value (map snd (e_props e))) es ->
  run_lines narrow norm numstr true [] x (map (fun e => LEdge (export_edge e)) es)
  = (with_edges x (edges (st x) ++ es'), true).
Proof.
  induction es as [|e r IH]; intros x es' Hm Hg.
  - destruct es'; [|discriminate]. cbn. rewrite app_nil_r. destruct x as [[? ? ? ? ?] ? ? ? ? ?]. reflexivity.
  - destruct es' as [|e' r']; [discriminate|]. cbn [map] in Hm. inversion Hm as [[H1 H2]].
    inversion Hg as [|? ? Hge Hgr]; subst.
    cbn [map run_lines]. unfold step_line. cbn [export_edge er_src er_tgt er_ty er_props].
    unfold ren in H1.
    destruct (rget (e_src e) (remap x)) as [a|]; [|discriminate].
    destruct (rget (e_tgt e) (remap x)) as [b|]; [|discriminate].
    inversion H1; subst e'. rewrite jprops_rt by assumption.
    match goal with |- run_lines _ _ _ _ _ ?X _ = _ => set (x1 := X) end.
    rewrite (IH x1 r'); [| exact H2 | exact Hgr].
    unfold with_edges, x1, add_edge. cbn. rewrite <- app_assoc. reflexivity.
Qed.

Definition with_hdecls (x : ist) (hs : list hrec) : ist :=
  {| st := st x; remap := remap x; created := created x; dindex := dindex x;
     merges := merges x; hdecls := hs |}.

Lemma run_hiers : forall hs x rest,
  run_lines narrow norm numstr true [] x (map LHier hs ++ rest)
  = run_lines narrow norm numstr true [] (with_hdecls x (hdecls x ++ hs)) rest.
Proof.
  induction hs as [|h r IH]; intros x rest.
  - cbn. rewrite app_nil_r. destruct x. reflexivity.
  - cbn [map app run_lines step_line]. rewrite IH. unfold with_hdecls. cbn. rewrite <- app_assoc. reflexivity.
Qed.

Lemma rop_rt : forall o, rop_parse (rop_name o) = Some o.
Proof. destruct o; reflexivity. Qed.

Lemma import_export_hier : forall h, hier_ops_default h = false -> import_hier (export_hier h) = h.
Proof.
  intros [nm et rv ms ops] H. unfold hier_ops_default in H. cbn in H.
  unfold import_hier, export_hier. cbn.
  assert (Hops : somes (map rop_parse (map rop_name ops)) = ops).
  { clear H. induction ops as [|o r IH]; [reflexivity|]. cbn [map]. rewrite rop_rt. cbn. now rewrite IH. }
  destruct ms as [[[l|] p]|].
  - rewrite Hops. destruct ops; [discriminate|reflexivity].
  - rewrite Hops. destruct ops; [discriminate|reflexivity].
  - destruct ops as [|[] [|]]; try discriminate. reflexivity.
Qed.

Definition with_hier (s : store) (hs : list hdecl) : store :=
  {| nodes := nodes s; edges := edges s; hier := hs; free_n := free_n s; next_n := next_n s |}.

Lemma add_hier_all : forall hs s,
  NoDup (map hr_name hs) ->
  (forall h, In h hs -> ~ In (hr_name h) (map h_name (hier s))) ->
  fold_left add_hier hs s = with_hier s (hier s ++ map import_hier hs).
Proof.
  induction hs as [|h r IH]; intros s Hnd Hfresh.
  - cbn. rewrite app_nil_r. destruct s; reflexivity.
  - cbn [fold_left]. inversion Hnd as [|? ? Hn Hr]; subst.
    assert (E : existsb (fun d => str_eqb (h_name d) (hr_name h)) (hier s) = false).
    { apply not_true_is_false. intros He. apply existsb_exists in He. destruct He as [d [Hd He]].
      apply str_eqb_eq in He. apply (Hfresh h (or_introl eq_refl)). rewrite <- He. now apply in_map. }
    unfold add_hier at 2. rewrite E. rewrite IH.
    + unfold with_hier. cbn. rewrite <- app_assoc. reflexivity.
    + exact Hr.
    + intros h' Hin. cbn [hier]. rewrite map_app. intros Hc. apply in_app_or in Hc. destruct Hc as [Hc|Hc].
      * apply (Hfresh h' (or_intror Hin)). exact Hc.
      * cbn in Hc. destruct Hc as [Hc|[]].
        assert (Hnm : h_name (import_hier h) = hr_name h) by (unfold import_hier; destruct (hr_mprop h); reflexivity).
        rewrite Hnm in Hc. apply Hn. rewrite Hc. now apply in_map.
Qed.

End GraphRt.

(* ---------- the graph round trip ---------- *)
Definition wf_store (g : store) : Prop :=
  NoDup (map n_id (nodes g))
  /\ Forall (fun n => NoDup (map fst (n_row n))) (nodes g)
  /\ Forall wfv (store_values g)
  /\ Forall (fun e => In (e_src e) (map n_id (nodes g)) /\ In (e_tgt e) (map n_id (nodes g))) (edges g)
  /\ NoDup (map h_name (hier g)).

Record iso (m : list (N * N)) (g g' : store) : Prop := {
  iso_dom : map fst m = map n_id (nodes g);
  iso_cod : map snd m = map n_id (nodes g');
  iso_inj : NoDup (map snd m);
  iso_nodes : Forall2 (fun n n' => (forall l, smem l (n_labels n') = smem l (n_labels n))
                                   /\ (forall k, aget k (merged n') = aget k (merged n)))
                      (nodes g) (nodes g');
  iso_edges : map (ren m) (edges g) = map Some (edges g');
  iso_hier : hier g' = hier g }.

Lemma rget_some_in : forall k v m, rget k m = Some v -> In (k, v) m.
Proof.
  intros k v m. induction m as [|[k' v'] r IH]; cbn; [discriminate|].
  destruct (N.eqb k k') eqn:E.
  - apply N.eqb_eq in E. subst. intros H. inversion H. now left.
  - intros H. right. now apply IH.
Qed.

Lemma rget_none : forall k m, rget k m = None <-> ~ In k (map fst m).
Proof.
  intros k m. induction m as [|[k' v'] r IH]; cbn; [tauto|].
  destruct (N.eqb k k') eqn:E.
  - apply N.eqb_eq in E. subst. split; [discriminate | intros H; exfalso; apply H; now left].
  - apply N.eqb_neq in E. rewrite IH. split; [intros H [H1|H1]; [congruence|tauto] | tauto].
Qed.

Lemma rget_in : forall k v m, NoDup (map fst m) -> In (k, v) m -> rget k m = Some v.
Proof.
  intros k v m. induction m as [|[k' v'] r IH]; cbn; [tauto|]. intros Hnd Hin.
  inversion Hnd as [|? ? Hn Hr]; subst. destruct Hin as [Hin|Hin].
  - inversion Hin; subst. now rewrite N.eqb_refl.
  - destruct (N.eqb k k') eqn:E; [|now apply IH].
    apply N.eqb_eq in E. subst. exfalso. apply Hn. change k' with (fst (k', v)). now apply in_map.
Qed.

Lemma rget_rev : forall k m, NoDup (map fst m) -> rget k (rev m) = rget k m.
Proof.
  intros k m Hnd. destruct (rget k m) as [v|] eqn:E.
  - apply rget_some_in in E. apply rget_in; [rewrite map_rev; now apply NoDup_rev | now apply in_rev in E].
  - apply rget_none. apply rget_none in E. rewrite map_rev. intros H. apply E. now apply in_rev.
Qed.

Lemma ren_rev : forall m e, NoDup (map fst m) -> ren (rev m) e = ren m e.
Proof. intros m e H. unfold ren. now rewrite !rget_rev. Qed.

Lemma ren_exists : forall m es,
  Forall (fun e => In (e_src e) (map fst m) /\ In (e_tgt e) (map fst m)) es ->
  exists es', map (ren m) es = map Some es'.
Proof.
  intros m es H. induction H as [|e r [H1 H2] Hr IH].
  - exists []. reflexivity.
  - destruct IH as [es' IH].
    destruct (rget (e_src e) m) as [a|] eqn:Ea; [|apply rget_none in Ea; tauto].
    destruct (rget (e_tgt e) m) as [b|] eqn:Eb; [|apply rget_none in Eb; tauto].
    exists ({| e_src := a; e_tgt := b; e_ty := e_ty e; e_props := e_props e |} :: es').
    cbn. unfold ren at 1. rewrite Ea, Eb. now rewrite IH.
Qed.

Lemma combine_fst {A B} : forall (a : list A) (b : list B), length a = length b -> map fst (combine a b) = a.
Proof. induction a as [|x a IH]; intros [|y b] H; cbn in *; try discriminate; [reflexivity|]. f_equal. apply IH. lia. Qed.
Lemma combine_snd {A B} : forall (a : list A) (b : list B), length a = length b -> map snd (combine a b) = b.
Proof. induction a as [|x a IH]; intros [|y b] H; cbn in *; try discriminate; [reflexivity|]. f_equal. apply IH. lia. Qed.

Section Final.
Variable narrow : json -> option N.
Variable norm : str -> str.
Variable numstr : json -> str.

Lemma ids_length : forall ns nx, length (ids nx ns) = length ns.
Proof. induction ns as [|n r IH]; intros nx; cbn; [reflexivity|]. now rewrite IH. Qed.

Lemma ids_ge : forall ns nx y, In y (ids nx ns) -> nx <= y.
Proof.
  induction ns as [|n r IH]; intros nx y; cbn; [tauto|]. intros [H|H]; [lia|]. apply IH in H. lia.
Qed.

Lemma ids_nodup : forall ns nx, NoDup (ids nx ns).
Proof.
  induction ns as [|n r IH]; intros nx; cbn; constructor; [|apply IH].
  intros H. apply ids_ge in H. lia.
Qed.

Lemma mk_ids : forall ns nx, map n_id (mk narrow nx ns) = ids nx ns.
Proof. induction ns as [|n r IH]; intros nx; cbn; [reflexivity|]. now rewrite IH. Qed.

Lemma known_good : forall g, Known_C12 g = false -> Forall wfv (store_values g) ->
  Forall good_value (store_values g).
Proof.
  intros g Hk Hw. unfold Known_C12 in Hk.
  apply orb_false_iff in Hk. destruct Hk as [Hk _]. apply orb_false_iff in Hk. destruct Hk as [Hn Ht].
  unfold Known_C12_nonfinite in Hn. unfold Known_C12_type_tag in Ht.
  rewrite Forall_forall in *. intros v Hin. repeat split.
  - now apply Hw.
  - apply not_true_is_false. intros Hc.
    assert (existsb nonfinite (store_values g) = true) by (apply existsb_exists; eauto). congruence.
  - apply not_true_is_false. intros Hc.
    assert (existsb type_tag_map (store_values g) = true) by (apply existsb_exists; eauto). congruence.
Qed.

Lemma mk_iso : forall ns nx,
  Forall (fun n => NoDup (map fst (n_row n))) ns ->
  Forall (fun n => Forall good_value (map snd (merged n))) ns ->
  Forall2 (fun n n' => (forall l, smem l (n_labels n') = smem l (n_labels n))
                       /\ (forall k, aget k (merged n') = aget k (merged n)))
          ns (mk narrow nx ns).
Proof.
  induction ns as [|n r IH]; intros nx H1 H2; cbn; constructor.
  - inversion H1; inversion H2; subst. split.
    + intros l. cbn [new_node n_labels export_node nr_labels]. rewrite smem_fold_sadd. cbn. apply orb_false_r.
    + intros k. now apply new_node_merged.
  - inversion H1; inversion H2; subst. now apply IH.
Qed.

Theorem graph_rt : forall g, wf_store g -> Known_C12 g = false ->
  exists g' m,
    import narrow norm numstr empty_store (fst (export g)) (snd (export g)) []
      = Imported g' (nlen (nodes g)) 0
    /\ iso m g g'.
Proof.
  intros g (Hid & Hrow & Hwfv & Hedges & Hhn) Hk.
  pose proof (known_good g Hk Hwfv) as Hgood.
  assert (Hgn : Forall (fun n => Forall good_value (map snd (merged n))) (nodes g)).
  { rewrite Forall_forall in *. intros n Hn. apply Forall_forall. intros v Hv. apply Hgood. unfold store_values.
    apply in_or_app. left. apply in_flat_map. eauto. }
  assert (Hge : Forall (fun e => Forall good_value (map snd (e_props e))) (edges g)).
  { rewrite Forall_forall in *. intros e He. apply Forall_forall. intros v Hv. apply Hgood. unfold store_values.
    apply in_or_app. right. apply in_flat_map. eauto. }
  unfold export, export_lines, import. cbn [fst snd prepop].
  set (x0 := {| st := empty_store; remap := []; created := []; dindex := []; merges := 0; hdecls := [] |}).
  rewrite <- (map_map export_hier LHier).
  rewrite run_hiers. set (x1 := with_hdecls x0 _).
  rewrite run_nodes.
  pose proof (create_all narrow (nodes g) x1 eq_refl) as CA. cbn zeta in CA.
  set (x2 := fold_left (create1 narrow) (nodes g) x1) in *.
  destruct CA as (C1 & C2 & C3 & C4 & C5 & C6 & C7 & C8).
  cbn [x1 with_hdecls st x0 empty_store nodes edges hier next_n remap hdecls merges created app] in C1, C2, C3, C5, C6, C7, C8.
  rewrite app_nil_r in C5.
  set (A := map n_id (nodes g)) in *. set (B := ids 1 (nodes g)) in *.
  assert (HAB : length A = length B) by (unfold A, B; now rewrite map_length, ids_length).
  set (m := combine A B) in *.
  assert (Hmk : map fst m = A) by (now apply combine_fst).
  assert (Hmnd : NoDup (map fst m)) by (now rewrite Hmk).
  destruct (ren_exists m (edges g)) as [es' Hes'].
  { rewrite Hmk. exact Hedges. }
  rewrite (run_edges narrow norm numstr (edges g) x2 es').
  2:{ rewrite C5. rewrite <- Hes'. apply map_ext. intros e. now apply ren_rev. }
  2:{ exact Hge. }
  cbn [with_edges hdecls st merges created].
  rewrite C6, C7, C8. cbn [x1 with_hdecls hdecls x0 app merges].
  rewrite add_hier_all.
  - eexists. exists m. split.
    + f_equal. unfold nlen. unfold B. now rewrite ids_length.
    + cbn [with_hier hier nodes edges]. rewrite C1, C2, C3. cbn [app].
      constructor; unfold with_hier; cbn [nodes edges hier].
      * exact Hmk.
      * unfold m. rewrite combine_snd by exact HAB. unfold B. now rewrite mk_ids.
      * unfold m. rewrite combine_snd by exact HAB. apply ids_nodup.
      * now apply mk_iso.
      * exact Hes'.
      * rewrite map_map. rewrite <- (map_id (hier g)) at 2. apply map_ext_in. intros h Hin.
        apply import_export_hier. unfold Known_C12 in Hk. apply orb_false_iff in Hk. destruct Hk as [_ Hh].
        unfold Known_C12_hier_ops in Hh. apply not_true_is_false. intros Hc.
        assert (existsb hier_ops_default (hier g) = true) by (apply existsb_exists; eauto). congruence.
  - rewrite map_map. cbn [hr_name export_hier]. exact Hhn.
  - intros h _. cbn [hier]. rewrite C3. cbn. tauto.
Qed.
End Final.
