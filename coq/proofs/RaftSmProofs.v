(* Proofs for C32. *)
From Coq Require Import List NArith Bool.
From Verif Require Import CheckLib Persist PersistProofs RaftSm.
Import ListNotations.
Open Scope N_scope.

(* what a request can observe or change, apart from the append-only log *)
Definition abs (s : pstate) := (disk s, regs s, usage s).

Lemma reserve_abs : forall s1 s2 t k, abs s1 = abs s2 ->
  match reserve s1 t k, reserve s2 t k with
  | Some a, Some b => abs a = abs b
  | None, None => True
  | _, _ => False
  end.
Proof.
  intros s1 s2 t k H. unfold abs in H. inversion H as [[Hd Hr Hu]]. unfold reserve. rewrite Hr, Hu.
  destruct (alist_get (regs s2) t) as [[qn qe]|]; [|exact I].
  destruct (alist_get (usage s2) t) as [[un ue]|]; [|exact I].
  destruct k; [destruct (over qn un)|destruct (over qe ue)]; try exact I; unfold abs; cbn; congruence.
Qed.

Lemma gate_abs : forall s1 s2 o, abs s1 = abs s2 ->
  match gate s1 o, gate s2 o with
  | Some a, Some b => abs a = abs b
  | None, None => True
  | _, _ => False
  end.
Proof.
  intros s1 s2 o H. destruct o; cbn; try (apply reserve_abs; exact H); try exact H.
  - unfold abs in H. inversion H as [[Hd Hr Hu]]. rewrite Hr. destruct (alist_get (regs s2) t); [unfold abs; congruence|exact I].
  - unfold abs in H. inversion H as [[Hd Hr Hu]]. rewrite Hr. destruct (alist_get (regs s2) t); [unfold abs; congruence|exact I].
Qed.

Lemma release_abs : forall s1 s2 t k, abs s1 = abs s2 -> abs (release s1 t k) = abs (release s2 t k).
Proof.
  intros s1 s2 t k H. unfold abs in H. inversion H as [[Hd Hr Hu]]. unfold release. rewrite Hu.
  destruct (alist_get (usage s2) t) as [[un ue]|]; unfold abs; cbn; congruence.
Qed.

Lemma settle_abs : forall b s1 s2 o, abs s1 = abs s2 -> abs (settle b s1 o) = abs (settle b s2 o).
Proof.
  intros b s1 s2 o H. destruct o; cbn; auto using release_abs;
    try (destruct (kv_get (s_nodes b) (t, id)); auto using release_abs);
    try (destruct (kv_get (s_edges b) (t, id)); auto using release_abs).
Qed.

Lemma durable_abs : forall d s1 s2 o, abs s1 = abs s2 -> abs (durable_steps d s1 o) = abs (durable_steps d s2 o).
Proof.
  intros d s1 s2 o H. unfold abs in H. inversion H as [[Hd Hr Hu]]. unfold durable_steps.
  destruct (wentry_of o); [|unfold abs; congruence].
  destruct d as [|[|d]]; unfold abs; cbn; congruence.
Qed.

Lemma reopen_abs : forall s1 s2 rs, abs s1 = abs s2 -> abs (reopen s1 rs) = abs (reopen s2 rs).
Proof.
  intros s1 s2 rs H. unfold abs in H. inversion H as [[Hd Hr Hu]]. unfold reopen.
  destruct (fold_left register rs (fresh_regs, fresh_usage)) as [rg us]. unfold abs. cbn. rewrite Hd. reflexivity.
Qed.

Lemma run_op_abs : forall s1 s2 o, abs s1 = abs s2 ->
  abs (fst (run_op s1 o)) = abs (fst (run_op s2 o)) /\ snd (run_op s1 o) = snd (run_op s2 o).
Proof.
  intros s1 s2 o H.
  destruct (op_cases s1 o) as [[rs [-> [Hr1 _]]]|[w [Hw [Hr1 _]]]].
  - cbn. split; [apply reopen_abs; exact H|reflexivity].
  - destruct (op_cases s2 o) as [[rs [-> _]]|[w2 [_ [Hr2 _]]]]; [discriminate|].
    rewrite Hr1, Hr2. pose proof (gate_abs s1 s2 o H) as Ha.
    assert (Hd : disk s1 = disk s2) by (unfold abs in H; congruence).
    destruct (gate s1 o) as [a|], (gate s2 o) as [b|]; try contradiction; cbn [fst snd].
    + split; [|reflexivity]. rewrite Hd. apply settle_abs, durable_abs. exact Ha.
    + split; [exact H|reflexivity].
Qed.

(* apply is a function of (abstract state, request): same response, same next abstract state *)
Theorem apply_deterministic : forall s1 s2 r, abs s1 = abs s2 ->
  abs (fst (apply s1 r)) = abs (fst (apply s2 r)) /\ snd (apply s1 r) = snd (apply s2 r).
Proof.
  intros s1 s2 r H. unfold apply. destruct (op_of r) as [o|]; [|split; [exact H|reflexivity]].
  destruct (run_op_abs s1 s2 o H) as [Ha Hb].
  destruct (run_op s1 o) as [a1 b1], (run_op s2 o) as [a2 b2]. cbn [fst snd] in *. subst b2.
  split; [exact Ha|reflexivity].
Qed.

Theorem apply_all_deterministic : forall rs s1 s2, abs s1 = abs s2 ->
  abs (fst (apply_all s1 rs)) = abs (fst (apply_all s2 rs)) /\ snd (apply_all s1 rs) = snd (apply_all s2 rs).
Proof.
  induction rs as [|r rs IH]; intros s1 s2 H; cbn; [split; [exact H|reflexivity]|].
  destruct (apply_deterministic s1 s2 r H) as [Ha Hb].
  destruct (apply s1 r) as [a1 x1], (apply s2 r) as [a2 x2]. cbn [fst snd] in *. subst x2.
  destruct (IH a1 a2 Ha) as [Ha' Hb'].
  destruct (apply_all a1 rs) as [c1 y1], (apply_all a2 rs) as [c2 y2]. cbn [fst snd] in *. subst y2.
  split; [exact Ha'|reflexivity].
Qed.

(* replicas that start alike recover identical graphs, for every tenant, and answered alike *)
Theorem replicas_agree : forall reqs s1 s2 rs1 rs2 t, abs s1 = abs s2 ->
  snd (apply_all s1 reqs) = snd (apply_all s2 reqs) /\
  fst (recover (reopen (fst (apply_all s1 reqs)) rs1) t) = fst (recover (reopen (fst (apply_all s2 reqs)) rs2) t).
Proof.
  intros reqs s1 s2 rs1 rs2 t H. destruct (apply_all_deterministic reqs s1 s2 H) as [Ha Hb].
  split; [exact Hb|]. rewrite !recover_new_process. unfold abs in Ha. congruence.
Qed.

Lemma apply_disk : forall s r s' x, apply s r = (s', x) ->
  disk s' = if is_error x then disk s else request_effect (disk s) r.
Proof.
  intros s r s' x H. unfold apply in H. unfold request_effect. destruct (op_of r) as [o|] eqn:Eo.
  - destruct (run_op s o) as [s1 a] eqn:Er. injection H as <- <-. pose proof (run_op_disk _ _ _ _ Er) as Hd.
    destruct a; [|exact Hd]. destruct r; cbn; exact Hd.
  - injection H as <- <-. destruct r; try discriminate. reflexivity.
Qed.

(* the recovered graph is the fold of the effects of the acknowledged (non-error) requests *)
Theorem apply_all_effect : forall reqs s s' xs, apply_all s reqs = (s', xs) ->
  disk s' = fold_left request_effect (acked_requests reqs xs) (disk s).
Proof.
  induction reqs as [|r reqs IH]; intros s s' xs H; cbn in H.
  - injection H as <- <-. reflexivity.
  - destruct (apply s r) as [s1 x] eqn:E1. destruct (apply_all s1 reqs) as [s2 xs2] eqn:E2.
    injection H as <- <-. rewrite (IH _ _ _ E2). pose proof (apply_disk _ _ _ _ E1) as Hd.
    cbn [acked_requests]. destruct (is_error x); cbn [fold_left]; rewrite Hd; reflexivity.
Qed.

Theorem recovered_is_effect : forall rs reqs s xs rs' t, apply_all (init rs) reqs = (s, xs) ->
  fst (recover (reopen s rs') t) =
  view (fold_left request_effect (acked_requests reqs xs) empty_store) t.
Proof.
  intros rs reqs s xs rs' t H. rewrite recover_new_process, (apply_all_effect _ _ _ _ H), init_disk. reflexivity.
Qed.
