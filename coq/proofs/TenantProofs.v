(* Proofs about model/Tenant.v (C18): an invariant over all interleavings. *)
From Coq Require Import List Arith NArith Bool Lia Permutation.
From Verif Require Import CheckLib Tenant.
Import ListNotations.
Open Scope N_scope.

(* ---------- lists ---------- *)
Lemma mem_in : forall x l, mem x l = true <-> In x l.
Proof.
  intros x l. unfold mem. rewrite existsb_exists. split.
  - intros [y [Hy E]]. apply N.eqb_eq in E. subst. exact Hy.
  - intros H. exists x. split; [exact H | apply N.eqb_refl].
Qed.

Lemma nth_set_eq : forall {A} (l : list A) i t t', nth_error l i = Some t -> nth_error (set_nth l i t') i = Some t'.
Proof.
  induction l as [|y l IH]; intros [|i] t t' H; cbn in *; try discriminate; [reflexivity|].
  eapply IH; exact H.
Qed.

Lemma nth_set_neq : forall {A} (l : list A) i j t', i <> j -> nth_error (set_nth l i t') j = nth_error l j.
Proof.
  induction l as [|y l IH]; intros [|i] [|j] t' H; cbn; try reflexivity; try congruence.
  apply IH. congruence.
Qed.

Lemma nlen_app1 : forall {A} (l : list A) x, nlen (l ++ [x]) = nlen l + 1.
Proof. intros. unfold nlen. rewrite app_length. cbn. lia. Qed.

(* ---------- reservations in flight ---------- *)
(* a writer holds one counted unit that is not (yet) matched by a new stored entity *)
Definition hold_pc (p : pc) : N :=
  match p with
  | Reserved | Logged | Stored true => 1
  | _ => 0
  end.

Definition holds (t : thread) : N := hold_pc (at_pc t).

Fixpoint pend (l : list thread) : N :=
  match l with
  | [] => 0
  | t :: r => holds t + pend r
  end.

Lemma pend_set : forall l i t t', nth_error l i = Some t -> pend (set_nth l i t') + holds t = pend l + holds t'.
Proof.
  induction l as [|y l IH]; intros [|i] t t' H; cbn in *; try discriminate.
  - inversion H; subst. lia.
  - specialize (IH i t t' H). lia.
Qed.

Lemma pend_set_pc : forall l i t p, nth_error l i = Some t ->
  pend (set_nth l i {| target := target t; at_pc := p |}) + hold_pc (at_pc t) = pend l + hold_pc p.
Proof. intros l i t p H. apply (pend_set l i t {| target := target t; at_pc := p |} H). Qed.

Lemma pend_quiescent : forall l, forallb is_done l = true -> pend l = 0.
Proof.
  induction l as [|t l IH]; intros H; cbn in *; [reflexivity|].
  apply andb_true_iff in H. destruct H as [H1 H2]. rewrite (IH H2).
  unfold is_done in H1. unfold holds, hold_pc. destruct (at_pc t); try discriminate. reflexivity.
Qed.

(* ---------- the invariant ---------- *)
Definition within (q : option N) (u : N) : Prop :=
  match q with Some m => u <= m | None => True end.

Record inv (q : option N) (s : state) : Prop := {
  inv_quota : quota s = q;
  inv_count : usage s = nlen (stored s) + pend (threads s);   (* usage = stored + reserved in flight *)
  inv_nodup : NoDup (stored s);
  inv_within : within q (usage s);
  (* a writer past its storage step, or accepted, has its entity in storage *)
  inv_present : forall i t, nth_error (threads s) i = Some t ->
                (exists e, at_pc t = Stored e) \/ at_pc t = Done Accepted -> In (target t) (stored s);
  (* a writer that has not started, or was refused, has written nothing *)
  inv_clean : forall i t, nth_error (threads s) i = Some t ->
              at_pc t = Start \/ at_pc t = Done Refused ->
              (forall x, ~ In (i, x) (wal s)) /\ (forall x, ~ In (i, x) (puts s));
  (* everything in storage was put by some writer *)
  inv_origin : forall x, In x (stored s) -> exists i, In (i, x) (puts s)
}.

Lemma over_quota_false : forall q u, over_quota q u = false -> within q u -> within q (u + 1).
Proof.
  intros [m|] u H W; cbn in *; [|exact I]. apply N.leb_gt in H. lia.
Qed.

Lemma pend_init : forall targets, pend (map (fun x => {| target := x; at_pc := Start |}) targets) = 0.
Proof. induction targets as [|x r IH]; cbn; [reflexivity | exact IH]. Qed.

Lemma init_inv : forall q targets, inv q (init q targets).
Proof.
  intros q targets. split; cbn.
  - reflexivity.
  - rewrite pend_init. reflexivity.
  - constructor.
  - destruct q; cbn; [lia | exact I].
  - intros i t H [[e E]|E]; apply nth_error_In in H; apply in_map_iff in H; destruct H as [x [<- _]]; discriminate.
  - intros i t _ _. split; intros x [].
  - intros x [].
Qed.

Ltac thread_cases Hj i j t Hn :=
  destruct (Nat.eq_dec i j) as [<-|Hne];
  [ rewrite (nth_set_eq _ _ _ _ Hn) in Hj; inversion Hj; subst; clear Hj
  | rewrite (nth_set_neq _ _ _ _ Hne) in Hj ].

Lemma step_inv : forall q s i, inv q s -> inv q (step s i).
Proof.
  intros q s i H. unfold step.
  destruct (nth_error (threads s) i) as [t|] eqn:Hn; [|exact H].
  destruct H as [Hq Hc Hd Hw Hp Hcl Ho].
  destruct (at_pc t) eqn:Epc.
  - (* Start: reserve or refuse *)
    destruct (over_quota (quota s) (usage s)) eqn:Eo.
    + split; cbn [quota usage stored wal puts threads]; unfold with_thread; try assumption.
      * pose proof (pend_set_pc _ _ _ (Done Refused) Hn) as PS'. rewrite Epc in PS'. cbn [hold_pc] in PS'. lia.
      * intros j tj Hj Hor. thread_cases Hj i j t Hn.
        -- cbn in Hor. destruct Hor as [[e E]|E]; discriminate.
        -- eapply Hp; eauto.
      * intros j tj Hj Hor. thread_cases Hj i j t Hn.
        -- apply (Hcl i t Hn). left. exact Epc.
        -- eapply Hcl; eauto.
    + split; cbn [quota usage stored wal puts threads]; unfold with_thread; try assumption.
      * pose proof (pend_set_pc _ _ _ (Reserved) Hn) as PS'. rewrite Epc in PS'. cbn [hold_pc] in PS'. lia.
      * rewrite Hq in Eo. apply over_quota_false; assumption.
      * intros j tj Hj Hor. thread_cases Hj i j t Hn.
        -- cbn in Hor. destruct Hor as [[e E]|E]; discriminate.
        -- eapply Hp; eauto.
      * intros j tj Hj Hor. thread_cases Hj i j t Hn.
        -- cbn in Hor. destruct Hor; discriminate.
        -- eapply Hcl; eauto.
  - (* Reserved: append to the WAL *)
    split; cbn [quota usage stored wal puts threads]; unfold with_thread; try assumption.
    + pose proof (pend_set_pc _ _ _ (Logged) Hn) as PS'. rewrite Epc in PS'. cbn [hold_pc] in PS'. lia.
    + intros j tj Hj Hor. thread_cases Hj i j t Hn.
      * cbn in Hor. destruct Hor as [[e E]|E]; discriminate.
      * eapply Hp; eauto.
    + intros j tj Hj Hor. thread_cases Hj i j t Hn.
      * cbn in Hor. destruct Hor; discriminate.
      * destruct (Hcl j tj Hj Hor) as [C1 C2]. split; [|exact C2].
        intros x Hx. apply in_app_or in Hx. destruct Hx as [Hx|[Hx|[]]]; [eapply C1; exact Hx | congruence].
  - (* Logged: storage step *)
    destruct (mem (target t) (stored s)) eqn:Em.
    + split; cbn [quota usage stored wal puts threads]; unfold with_thread; try assumption.
      * pose proof (pend_set_pc _ _ _ (Stored true) Hn) as PS'. rewrite Epc in PS'. cbn [hold_pc] in PS'. lia.
      * intros j tj Hj Hor. thread_cases Hj i j t Hn.
        -- cbn. apply mem_in. exact Em.
        -- eapply Hp; eauto.
      * intros j tj Hj Hor. thread_cases Hj i j t Hn.
        -- cbn in Hor. destruct Hor; discriminate.
        -- destruct (Hcl j tj Hj Hor) as [C1 C2]. split; [exact C1|].
           intros x Hx. apply in_app_or in Hx. destruct Hx as [Hx|[Hx|[]]]; [eapply C2; exact Hx | congruence].
      * intros x Hx. destruct (Ho x Hx) as [k Hk]. exists k. apply in_or_app. left. exact Hk.
    + assert (Hnot : ~ In (target t) (stored s)).
      { intros Hin. apply mem_in in Hin. congruence. }
      split; cbn [quota usage stored wal puts threads]; unfold with_thread; try assumption.
      * pose proof (pend_set_pc _ _ _ (Stored false) Hn) as PS'. rewrite Epc in PS'. cbn [hold_pc] in PS'. rewrite nlen_app1. lia.
      * assert (P : NoDup (target t :: stored s)) by (constructor; assumption).
        eapply Permutation_NoDup; [apply Permutation_cons_append | exact P].
      * intros j tj Hj Hor. thread_cases Hj i j t Hn.
        -- cbn. apply in_or_app. right. left. reflexivity.
        -- apply in_or_app. left. eapply Hp; eauto.
      * intros j tj Hj Hor. thread_cases Hj i j t Hn.
        -- cbn in Hor. destruct Hor; discriminate.
        -- destruct (Hcl j tj Hj Hor) as [C1 C2]. split; [exact C1|].
           intros x Hx. apply in_app_or in Hx. destruct Hx as [Hx|[Hx|[]]]; [eapply C2; exact Hx | congruence].
      * intros x Hx. apply in_app_or in Hx. destruct Hx as [Hx|[<-|[]]].
        -- destruct (Ho x Hx) as [k Hk]. exists k. apply in_or_app. left. exact Hk.
        -- exists i. apply in_or_app. right. left. reflexivity.
  - (* Stored e: settle the reservation *)
    assert (Hin : In (target t) (stored s)) by (apply (Hp i t Hn); left; eexists; exact Epc).
    split; cbn [quota usage stored wal puts threads]; unfold with_thread; try assumption.
    + pose proof (pend_set_pc _ _ _ (Done Accepted) Hn) as PS'. rewrite Epc in PS'. destruct existed; cbn [hold_pc] in PS'; lia.
    + destruct q as [m|]; cbn in *; [|exact I]. destruct existed; lia.
    + intros j tj Hj Hor. thread_cases Hj i j t Hn.
      * cbn. exact Hin.
      * eapply Hp; eauto.
    + intros j tj Hj Hor. thread_cases Hj i j t Hn.
      * cbn in Hor. destruct Hor; discriminate.
      * eapply Hcl; eauto.
  - (* Done: nothing *)
    split; assumption.
Qed.

Lemma run_inv : forall q sched s, inv q s -> inv q (run s sched).
Proof.
  unfold run. induction sched as [|i r IH]; intros s H; cbn; [exact H|].
  apply IH. apply step_inv. exact H.
Qed.

Lemma reach_inv : forall q targets sched, inv q (run (init q targets) sched).
Proof. intros. apply run_inv. apply init_inv. Qed.

(* ---------- who put what; targets never change ---------- *)
Definition puts_by_target (s : state) : Prop :=
  forall i x, In (i, x) (puts s) -> exists t, nth_error (threads s) i = Some t /\ target t = x.

Lemma step_puts_target : forall s j, puts_by_target s -> puts_by_target (step s j).
Proof.
  intros s j H0 i x Hin. unfold step in *.
  destruct (nth_error (threads s) j) as [tj|] eqn:Hn; [|apply H0; exact Hin].
  assert (K : forall p, In (i, x) (puts s) ->
              exists t, nth_error (set_nth (threads s) j {| target := target tj; at_pc := p |}) i = Some t /\ target t = x).
  { intros p Hi. destruct (H0 i x Hi) as [t [Ht Et]].
    destruct (Nat.eq_dec j i) as [<-|Hne].
    - rewrite (nth_set_eq _ _ _ _ Hn). eexists; split; [reflexivity|]. cbn. congruence.
    - rewrite (nth_set_neq _ _ _ _ Hne). eauto. }
  destruct (at_pc tj) eqn:Epc.
  - destruct (over_quota (quota s) (usage s)); cbn [puts threads] in *; unfold with_thread; apply K; exact Hin.
  - cbn [puts threads] in *. unfold with_thread. apply K. exact Hin.
  - cbn [puts threads] in *. unfold with_thread. apply in_app_or in Hin. destruct Hin as [Hin|[Hin|[]]].
    + apply K. exact Hin.
    + inversion Hin; subst. rewrite (nth_set_eq _ _ _ _ Hn). eexists; split; reflexivity.
  - cbn [puts threads] in *. unfold with_thread. apply K. exact Hin.
  - apply H0. exact Hin.
Qed.

Lemma run_puts_target : forall sch s, puts_by_target s -> puts_by_target (run s sch).
Proof.
  unfold run. induction sch as [|j r IH]; intros s H; cbn; [exact H|].
  apply IH. apply step_puts_target. exact H.
Qed.

Lemma set_nth_targets : forall l j tj p, nth_error l j = Some tj ->
  map target (set_nth l j {| target := target tj; at_pc := p |}) = map target l.
Proof.
  induction l as [|y l IH]; intros [|j] tj p Hn; cbn in *; try discriminate.
  - inversion Hn; subst. reflexivity.
  - f_equal. apply IH. exact Hn.
Qed.

Lemma step_targets : forall s j, map target (threads (step s j)) = map target (threads s).
Proof.
  intros s j. unfold step. destruct (nth_error (threads s) j) as [tj|] eqn:Hn; [|reflexivity].
  destruct (at_pc tj); try destruct (over_quota (quota s) (usage s)); cbn [threads]; unfold with_thread;
    try (apply set_nth_targets; exact Hn); reflexivity.
Qed.

Lemma run_targets : forall sch s, map target (threads (run s sch)) = map target (threads s).
Proof.
  unfold run. induction sch as [|j r IH]; intros s; cbn; [reflexivity|].
  rewrite IH. apply step_targets.
Qed.

(* ---------- the property theorems ---------- *)

(* however the writers interleave (any number of writers, any ids, any schedule, at every
   point of the schedule): the entities in storage are distinct, no more than the quota, and
   the usage counter is within the quota; every accepted creation is in storage *)
Theorem quota_holds : forall m targets sched,
  let s := run (init (Some m) targets) sched in
  NoDup (stored s) /\ nlen (stored s) <= m /\ usage s <= m /\
  (forall i t, nth_error (threads s) i = Some t -> at_pc t = Done Accepted -> In (target t) (stored s)) /\
  (forall x, In x (stored s) -> In x targets).
Proof.
  intros m targets sched s. pose proof (reach_inv (Some m) targets sched) as H. fold s in H.
  destruct H as [Hq Hc Hd Hw Hp Hcl Ho]. cbn in Hw.
  split; [exact Hd|]. split; [lia|]. split; [exact Hw|]. split.
  - intros i t Hn E. eapply Hp; eauto.
  - intros x Hx. destruct (Ho x Hx) as [i Hi].
    destruct (run_puts_target sched (init (Some m) targets)) with (i := i) (x := x) as [t [Ht Et]].
    + intros i0 x0 [].
    + exact Hi.
    + apply nth_error_In in Ht. apply (in_map target) in Ht. fold s in Ht.
      unfold s in Ht. rewrite run_targets in Ht. cbn in Ht.
      rewrite map_map in Ht. cbn in Ht. rewrite map_id in Ht. congruence.
Qed.

(* a refused creation leaves nothing behind: the refused writer appended nothing to the
   WAL and put nothing into storage, at any point of any schedule... *)
Theorem refused_wrote_nothing : forall q targets sched i t,
  let s := run (init q targets) sched in
  nth_error (threads s) i = Some t -> at_pc t = Done Refused ->
  (forall x, ~ In (i, x) (wal s)) /\ (forall x, ~ In (i, x) (puts s)).
Proof.
  intros q targets sched i t s Hn E. pose proof (reach_inv q targets sched) as H. fold s in H.
  eapply (inv_clean _ _ H); eauto.
Qed.

(* ... and the step in which a writer is refused changes neither the usage counter nor
   storage nor the WAL (for any state, reachable or not) *)
Theorem refusal_changes_nothing : forall s i t',
  nth_error (threads (step s i)) i = Some t' -> at_pc t' = Done Refused ->
  usage (step s i) = usage s /\ stored (step s i) = stored s /\ wal (step s i) = wal s /\
  puts (step s i) = puts s /\ quota (step s i) = quota s.
Proof.
  intros s i t' Hn E. unfold step in *.
  destruct (nth_error (threads s) i) as [t|] eqn:Ht; [|repeat split].
  destruct (at_pc t) eqn:Epc.
  - destruct (over_quota (quota s) (usage s)); cbn [usage stored wal puts quota threads] in *; [repeat split|].
    unfold with_thread in Hn. rewrite (nth_set_eq _ _ _ _ Ht) in Hn. inversion Hn; subst. discriminate.
  - cbn [threads] in Hn. unfold with_thread in Hn. rewrite (nth_set_eq _ _ _ _ Ht) in Hn. inversion Hn; subst. discriminate.
  - cbn [threads] in Hn. unfold with_thread in Hn. rewrite (nth_set_eq _ _ _ _ Ht) in Hn. inversion Hn; subst. discriminate.
  - cbn [threads] in Hn. unfold with_thread in Hn. rewrite (nth_set_eq _ _ _ _ Ht) in Hn. inversion Hn; subst. discriminate.
  - repeat split.
Qed.

(* usage = stored entities + reservations in flight, always; hence equal at quiescence *)
Theorem usage_exact : forall q targets sched,
  let s := run (init q targets) sched in
  usage s = nlen (stored s) + pend (threads s) /\
  (quiescent s = true -> usage s = nlen (stored s)).
Proof.
  intros q targets sched s. pose proof (reach_inv q targets sched) as H. fold s in H.
  destruct H as [Hq Hc Hd Hw Hp Hcl Ho]. split; [exact Hc|].
  intros Q. unfold quiescent in Q. rewrite (pend_quiescent _ Q) in Hc. lia.
Qed.

(* recovery sets usage to what storage holds: after any number (>= 1) of recoveries the
   counter equals the stored count; at quiescence recovery changes nothing at all *)
Theorem recover_idempotent : forall q targets sched n,
  let s := run (init q targets) sched in
  usage (Nat.iter (S n) recover s) = nlen (stored s) /\
  stored (Nat.iter (S n) recover s) = stored s /\
  recover (recover s) = recover s /\
  (quiescent s = true -> Nat.iter n recover s = s).
Proof.
  intros q targets sched n s.
  assert (A : forall k, stored (Nat.iter k recover s) = stored s).
  { induction k as [|k IH]; cbn; [reflexivity | exact IH]. }
  split.
  { change (usage (recover (Nat.iter n recover s)) = nlen (stored s)).
    unfold recover at 1. cbn [usage]. rewrite A. reflexivity. }
  split; [apply (A (S n))|]. split; [reflexivity|].
  intros Q. destruct (usage_exact q targets sched) as [_ U]. fold s in U. specialize (U Q).
  assert (R : recover s = s).
  { unfold recover. rewrite <- U. destruct s; reflexivity. }
  induction n as [|n IH]; [reflexivity|].
  change (recover (Nat.iter n recover s) = s). rewrite IH. exact R.
Qed.

(* the original recover added the stored count on every call: two calls after one creation
   leave usage 3 for 1 stored entity *)
Example original_recover_adds :
  let s := run (init (Some 5) [7]) [0; 0; 0; 0]%nat in
  usage s = 1 /\ nlen (stored s) = 1 /\ usage (recover_original (recover_original s)) = 3.
Proof. vm_compute. repeat split; reflexivity. Qed.
