(* Proofs about model/Tenant.v (C18): an invariant over all interleavings of
   creators and deleters. *)
From Coq Require Import List Arith NArith Bool Lia Permutation.
From Verif Require Import CheckLib Tenant.
Import ListNotations.
Open Scope N_scope.

(* ---------- lists ---------- *)
Lemma mem_in : forall x l, mem x l = true <-> In x l.
Proof.
  intros x l. unfold mem. rewrite existsb_exists. split.
  - intros [y [Hy E]]. apply N.eqb_eq in E. subst. exact Hy.
  - intros H. exists x. split; [exact H | apply N.eqb_refl].
Qed.

Lemma nth_set_eq : forall {A} (l : list A) i t t', nth_error l i = Some t -> nth_error (set_nth l i t') i = Some t'.
Proof.
  induction l as [|y l IH]; intros [|i] t t' H; cbn in *; try discriminate; [reflexivity|].
  eapply IH; exact H.
Qed.

Lemma nth_set_neq : forall {A} (l : list A) i j t', i <> j -> nth_error (set_nth l i t') j = nth_error l j.
Proof.
  induction l as [|y l IH]; intros [|i] [|j] t' H; cbn; try reflexivity; try congruence.
  apply IH. congruence.
Qed.

Lemma nlen_app1 : forall {A} (l : list A) x, nlen (l ++ [x]) = nlen l + 1.
Proof. intros. unfold nlen. rewrite app_length. cbn. lia. Qed.

Lemma remove_in : forall x y l, In y (remove_id x l) <-> In y l /\ y <> x.
Proof.
  intros x y l. unfold remove_id. rewrite filter_In, negb_true_iff, N.eqb_neq. intuition congruence.
Qed.

Lemma remove_absent : forall x l, ~ In x l -> remove_id x l = l.
Proof.
  induction l as [|y l IH]; intros H; cbn; [reflexivity|].
  destruct (N.eqb x y) eqn:E.
  - apply N.eqb_eq in E. subst. exfalso. apply H. left. reflexivity.
  - cbn. f_equal. apply IH. intros Hin. apply H. right. exact Hin.
Qed.

Lemma remove_len : forall x l, NoDup l -> In x l -> nlen (remove_id x l) + 1 = nlen l.
Proof.
  induction l as [|y l IH]; intros Hn Hin; [destruct Hin|].
  inversion Hn as [|? ? Hy Hl]; subst. cbn [remove_id filter].
  destruct (N.eqb x y) eqn:E.
  - apply N.eqb_eq in E. subst y. cbn [negb]. fold (remove_id x l). rewrite (remove_absent _ _ Hy).
    unfold nlen. cbn [length]. lia.
  - cbn [negb]. fold (remove_id x l). destruct Hin as [->|Hin]; [rewrite N.eqb_refl in E; discriminate|].
    specialize (IH Hl Hin). unfold nlen in *. cbn [length]. lia.
Qed.

(* ---------- reservations in flight ---------- *)
(* a creator holds one counted unit that is not (yet) matched by a new stored entity *)
Definition hold_pc (p : pc) : N :=
  match p with
  | Reserved | Logged | Stored true => 1
  | _ => 0
  end.

Definition holdk (k : wkind) (p : pc) : N :=
  match k with Creator => hold_pc p | Deleter => 0 end.

Definition holds (t : thread) : N := holdk (kind t) (at_pc t).

Fixpoint pend (l : list thread) : N :=
  match l with
  | [] => 0
  | t :: r => holds t + pend r
  end.

Lemma pend_set : forall l i t t', nth_error l i = Some t -> pend (set_nth l i t') + holds t = pend l + holds t'.
Proof.
  induction l as [|y l IH]; intros [|i] t t' H; cbn in *; try discriminate.
  - inversion H; subst. lia.
  - specialize (IH i t t' H). lia.
Qed.

Lemma pend_set_pc : forall l i t p, nth_error l i = Some t ->
  pend (set_nth l i {| kind := kind t; target := target t; at_pc := p |}) + holdk (kind t) (at_pc t)
  = pend l + holdk (kind t) p.
Proof. intros l i t p H. apply (pend_set l i t {| kind := kind t; target := target t; at_pc := p |} H). Qed.

Lemma pend_set_k : forall l i t p k, nth_error l i = Some t -> kind t = k ->
  pend (set_nth l i {| kind := kind t; target := target t; at_pc := p |}) + holdk k (at_pc t)
  = pend l + holdk k p.
Proof. intros l i t p k H <-. apply pend_set_pc. exact H. Qed.

Lemma pend_quiescent : forall l, forallb is_done l = true -> pend l = 0.
Proof.
  induction l as [|t l IH]; intros H; cbn in *; [reflexivity|].
  apply andb_true_iff in H. destruct H as [H1 H2]. rewrite (IH H2).
  unfold is_done in H1. unfold holds, holdk, hold_pc. destruct (kind t); destruct (at_pc t); try discriminate; reflexivity.
Qed.

(* ---------- the invariant ---------- *)
Definition within (q : option N) (u : N) : Prop :=
  match q with Some m => u <= m | None => True end.

Record inv (q : option N) (s : state) : Prop := {
  inv_quota : quota s = q;
  inv_count : usage s = nlen (stored s) + pend (threads s);   (* usage = stored + reserved in flight *)
  inv_nodup : NoDup (stored s);
  inv_within : within q (usage s);
  (* a creator past its storage step, or accepted, has its entity in storage unless a
     delete of that id has been executed *)
  inv_present : forall i t, nth_error (threads s) i = Some t -> kind t = Creator ->
                (exists e, at_pc t = Stored e) \/ at_pc t = Done Accepted ->
                In (target t) (stored s) \/ exists j, In (j, target t) (dels s);
  (* a writer that has not started, or was refused, has written nothing *)
  inv_clean : forall i t, nth_error (threads s) i = Some t ->
              at_pc t = Start \/ at_pc t = Done Refused ->
              (forall x, ~ In (i, x) (wal s)) /\ (forall x, ~ In (i, x) (puts s)) /\ (forall x, ~ In (i, x) (dels s));
  (* everything in storage was put by some writer *)
  inv_origin : forall x, In x (stored s) -> exists i, In (i, x) (puts s)
}.

Lemma over_quota_false : forall q u, over_quota q u = false -> within q u -> within q (u + 1).
Proof.
  intros [m|] u H W; cbn in *; [|exact I]. apply N.leb_gt in H. lia.
Qed.

Lemma pend_init : forall writers,
  pend (map (fun x => {| kind := fst x; target := snd x; at_pc := Start |}) writers) = 0.
Proof.
  induction writers as [|x r IH]; cbn; [reflexivity|].
  unfold holds. cbn. destruct (fst x); cbn; exact IH.
Qed.

Lemma init_inv : forall q writers, inv q (init q writers).
Proof.
  intros q writers. split; cbn.
  - reflexivity.
  - rewrite pend_init. reflexivity.
  - constructor.
  - destruct q; cbn; [lia | exact I].
  - intros i t H _ [[e E]|E]; apply nth_error_In in H; apply in_map_iff in H; destruct H as [x [<- _]]; discriminate.
  - intros i t _ _. repeat split; intros x [].
  - intros x [].
Qed.

Ltac thread_cases Hj i j t Hn :=
  destruct (Nat.eq_dec i j) as [<-|Hne];
  [ rewrite (nth_set_eq _ _ _ _ Hn) in Hj; inversion Hj; subst; clear Hj
  | rewrite (nth_set_neq _ _ _ _ Hne) in Hj ].

Ltac proj := cbn [quota usage stored wal puts dels threads]; unfold with_thread.

(* entries of another writer survive an append by writer i *)
Lemma not_in_app1 : forall (l : list (nat * N)) i j x y, i <> j -> ~ In (j, x) l -> ~ In (j, x) (l ++ [(i, y)]).
Proof.
  intros l i j x y Hne H Hin. apply in_app_or in Hin. destruct Hin as [Hin|[Hin|[]]]; [auto | congruence].
Qed.

Lemma step_inv : forall q s i, inv q s -> inv q (step s i).
Proof.
  intros q s i H. unfold step.
  destruct (nth_error (threads s) i) as [t|] eqn:Hn; [|exact H].
  destruct H as [Hq Hc Hd Hw Hp Hcl Ho].
  destruct (kind t) eqn:Ek.
  - (* ---------- creator ---------- *)
    unfold step_create. destruct (at_pc t) eqn:Epc.
    + (* Start: reserve or refuse *)
      destruct (over_quota (quota s) (usage s)) eqn:Eo.
      * split; proj; try assumption.
        -- pose proof (pend_set_k _ _ _ (Done Refused) _ Hn Ek) as PS'. rewrite Epc in PS'. cbn [holdk hold_pc] in PS'. lia.
        -- intros j tj Hj Hk Hor. thread_cases Hj i j t Hn.
           ++ cbn in Hor. destruct Hor as [[e E]|E]; discriminate.
           ++ eapply Hp; eauto.
        -- intros j tj Hj Hor. thread_cases Hj i j t Hn.
           ++ apply (Hcl i t Hn). left. exact Epc.
           ++ eapply Hcl; eauto.
      * split; proj; try assumption.
        -- pose proof (pend_set_k _ _ _ (Reserved) _ Hn Ek) as PS'. rewrite Epc in PS'. cbn [holdk hold_pc] in PS'. lia.
        -- rewrite Hq in Eo. apply over_quota_false; assumption.
        -- intros j tj Hj Hk Hor. thread_cases Hj i j t Hn.
           ++ cbn in Hor. destruct Hor as [[e E]|E]; discriminate.
           ++ eapply Hp; eauto.
        -- intros j tj Hj Hor. thread_cases Hj i j t Hn.
           ++ cbn in Hor. destruct Hor; discriminate.
           ++ eapply Hcl; eauto.
    + (* Reserved: append to the WAL *)
      split; proj; try assumption.
      * pose proof (pend_set_k _ _ _ (Logged) _ Hn Ek) as PS'. rewrite Epc in PS'. cbn [holdk hold_pc] in PS'. lia.
      * intros j tj Hj Hk Hor. thread_cases Hj i j t Hn.
        -- cbn in Hor. destruct Hor as [[e E]|E]; discriminate.
        -- eapply Hp; eauto.
      * intros j tj Hj Hor. thread_cases Hj i j t Hn.
        -- cbn in Hor. destruct Hor; discriminate.
        -- destruct (Hcl j tj Hj Hor) as [C1 [C2 C3]]. repeat split; try assumption.
           intros x. apply not_in_app1; [exact Hne | apply C1].
    + (* Logged: storage step *)
      destruct (mem (target t) (stored s)) eqn:Em.
      * split; proj; try assumption.
        -- pose proof (pend_set_k _ _ _ (Stored true) _ Hn Ek) as PS'. rewrite Epc in PS'. cbn [holdk hold_pc] in PS'. lia.
        -- intros j tj Hj Hk Hor. thread_cases Hj i j t Hn.
           ++ cbn. left. apply mem_in. exact Em.
           ++ eapply Hp; eauto.
        -- intros j tj Hj Hor. thread_cases Hj i j t Hn.
           ++ cbn in Hor. destruct Hor; discriminate.
           ++ destruct (Hcl j tj Hj Hor) as [C1 [C2 C3]]. repeat split; try assumption.
              intros x. apply not_in_app1; [exact Hne | apply C2].
        -- intros x Hx. destruct (Ho x Hx) as [k Hk]. exists k. apply in_or_app. left. exact Hk.
      * assert (Hnot : ~ In (target t) (stored s)).
        { intros Hin. apply mem_in in Hin. congruence. }
        split; proj; try assumption.
        -- pose proof (pend_set_k _ _ _ (Stored false) _ Hn Ek) as PS'. rewrite Epc in PS'. cbn [holdk hold_pc] in PS'.
           rewrite nlen_app1. lia.
        -- assert (P : NoDup (target t :: stored s)) by (constructor; assumption).
           eapply Permutation_NoDup; [apply Permutation_cons_append | exact P].
        -- intros j tj Hj Hk Hor. thread_cases Hj i j t Hn.
           ++ cbn. left. apply in_or_app. right. left. reflexivity.
           ++ destruct (Hp j tj Hj Hk Hor) as [L|R]; [left; apply in_or_app; left; exact L | right; exact R].
        -- intros j tj Hj Hor. thread_cases Hj i j t Hn.
           ++ cbn in Hor. destruct Hor; discriminate.
           ++ destruct (Hcl j tj Hj Hor) as [C1 [C2 C3]]. repeat split; try assumption.
              intros x. apply not_in_app1; [exact Hne | apply C2].
        -- intros x Hx. apply in_app_or in Hx. destruct Hx as [Hx|[<-|[]]].
           ++ destruct (Ho x Hx) as [k Hk]. exists k. apply in_or_app. left. exact Hk.
           ++ exists i. apply in_or_app. right. left. reflexivity.
    + (* Stored e: settle the reservation *)
      split; proj; try assumption.
      * pose proof (pend_set_k _ _ _ (Done Accepted) _ Hn Ek) as PS'. rewrite Epc in PS'.
        destruct existed; cbn [holdk hold_pc] in PS'; lia.
      * destruct q as [m|]; cbn in *; [|exact I]. destruct existed; lia.
      * intros j tj Hj Hk Hor. thread_cases Hj i j t Hn.
        -- cbn. apply (Hp i t Hn Ek). left. eexists. exact Epc.
        -- eapply Hp; eauto.
      * intros j tj Hj Hor. thread_cases Hj i j t Hn.
        -- cbn in Hor. destruct Hor; discriminate.
        -- eapply Hcl; eauto.
    + (* Done: nothing *)
      split; assumption.
  - (* ---------- deleter ---------- *)
    unfold step_delete. destruct (at_pc t) eqn:Epc.
    + (* Start: the tenant is known *)
      split; proj; try assumption.
      * pose proof (pend_set_k _ _ _ (Reserved) _ Hn Ek) as PS'. cbn [holdk] in PS'. lia.
      * intros j tj Hj Hk Hor. thread_cases Hj i j t Hn.
        -- cbn in Hk. congruence.
        -- eapply Hp; eauto.
      * intros j tj Hj Hor. thread_cases Hj i j t Hn.
        -- cbn in Hor. destruct Hor; discriminate.
        -- eapply Hcl; eauto.
    + (* Reserved: append to the WAL *)
      split; proj; try assumption.
      * pose proof (pend_set_k _ _ _ (Logged) _ Hn Ek) as PS'. cbn [holdk] in PS'. lia.
      * intros j tj Hj Hk Hor. thread_cases Hj i j t Hn.
        -- cbn in Hk. congruence.
        -- eapply Hp; eauto.
      * intros j tj Hj Hor. thread_cases Hj i j t Hn.
        -- cbn in Hor. destruct Hor; discriminate.
        -- destruct (Hcl j tj Hj Hor) as [C1 [C2 C3]]. repeat split; try assumption.
           intros x. apply not_in_app1; [exact Hne | apply C1].
    + (* Logged: remove from storage, free the unit if it was there *)
      pose proof (pend_set_k _ _ _ (Stored (mem (target t) (stored s))) _ Hn Ek) as PS'. cbn [holdk] in PS'.
      destruct (mem (target t) (stored s)) eqn:Em.
      * assert (Hin : In (target t) (stored s)) by (apply mem_in; exact Em).
        pose proof (remove_len _ _ Hd Hin) as RL.
        split; proj; try assumption.
        -- lia.
        -- unfold remove_id. apply NoDup_filter. exact Hd.
        -- destruct q as [m|]; cbn in *; [lia | exact I].
        -- intros j tj Hj Hk Hor. thread_cases Hj i j t Hn.
           ++ cbn in Hk. congruence.
           ++ destruct (N.eq_dec (target tj) (target t)) as [E|NE].
              ** right. exists i. rewrite E. apply in_or_app. right. left. reflexivity.
              ** destruct (Hp j tj Hj Hk Hor) as [L|[k R]].
                 --- left. apply remove_in. split; assumption.
                 --- right. exists k. apply in_or_app. left. exact R.
        -- intros j tj Hj Hor. thread_cases Hj i j t Hn.
           ++ cbn in Hor. destruct Hor; discriminate.
           ++ destruct (Hcl j tj Hj Hor) as [C1 [C2 C3]]. repeat split; try assumption.
              intros x. apply not_in_app1; [exact Hne | apply C3].
        -- intros x Hx. apply remove_in in Hx. apply Ho. apply Hx.
      * split; proj; try assumption.
        -- lia.
        -- intros j tj Hj Hk Hor. thread_cases Hj i j t Hn.
           ++ cbn in Hk. congruence.
           ++ destruct (Hp j tj Hj Hk Hor) as [L|[k R]]; [left; exact L | right; exists k; apply in_or_app; left; exact R].
        -- intros j tj Hj Hor. thread_cases Hj i j t Hn.
           ++ cbn in Hor. destruct Hor; discriminate.
           ++ destruct (Hcl j tj Hj Hor) as [C1 [C2 C3]]. repeat split; try assumption.
              intros x. apply not_in_app1; [exact Hne | apply C3].
    + (* Stored _: return *)
      split; proj; try assumption.
      * pose proof (pend_set_k _ _ _ (Done Accepted) _ Hn Ek) as PS'. cbn [holdk] in PS'. lia.
      * intros j tj Hj Hk Hor. thread_cases Hj i j t Hn.
        -- cbn in Hk. congruence.
        -- eapply Hp; eauto.
      * intros j tj Hj Hor. thread_cases Hj i j t Hn.
        -- cbn in Hor. destruct Hor; discriminate.
        -- eapply Hcl; eauto.
    + split; assumption.
Qed.

Lemma run_inv : forall q sched s, inv q s -> inv q (run s sched).
Proof.
  unfold run. induction sched as [|i r IH]; intros s H; cbn; [exact H|].
  apply IH. apply step_inv. exact H.
Qed.

Lemma reach_inv : forall q writers sched, inv q (run (init q writers) sched).
Proof. intros. apply run_inv. apply init_inv. Qed.

(* ---------- who put / deleted what; kinds and targets never change ---------- *)
Definition spec_of (t : thread) : wkind * N := (kind t, target t).

Definition logs_by_writer (s : state) : Prop :=
  (forall i x, In (i, x) (puts s) -> exists t, nth_error (threads s) i = Some t /\ spec_of t = (Creator, x)) /\
  (forall i x, In (i, x) (dels s) -> exists t, nth_error (threads s) i = Some t /\ spec_of t = (Deleter, x)).

Lemma set_keeps_spec : forall l j tj p i t, nth_error l j = Some tj -> nth_error l i = Some t ->
  exists t', nth_error (set_nth l j {| kind := kind tj; target := target tj; at_pc := p |}) i = Some t' /\ spec_of t' = spec_of t.
Proof.
  intros l j tj p i t Hj Hi. destruct (Nat.eq_dec j i) as [<-|Hne].
  - rewrite (nth_set_eq _ _ _ _ Hj). eexists; split; [reflexivity|]. unfold spec_of. cbn. congruence.
  - rewrite (nth_set_neq _ _ _ _ Hne). eauto.
Qed.

Lemma step_logs : forall s j, logs_by_writer s -> logs_by_writer (step s j).
Proof.
  intros s j [HP HD]. unfold step.
  destruct (nth_error (threads s) j) as [tj|] eqn:Hn; [|split; assumption].
  assert (KP : forall p i x, In (i, x) (puts s) ->
            exists t, nth_error (set_nth (threads s) j {| kind := kind tj; target := target tj; at_pc := p |}) i = Some t
                      /\ spec_of t = (Creator, x)).
  { intros p i x Hi. destruct (HP i x Hi) as [t [Ht Et]].
    destruct (set_keeps_spec _ _ _ p _ _ Hn Ht) as [t' [H1 H2]]. exists t'. split; [exact H1 | congruence]. }
  assert (KD : forall p i x, In (i, x) (dels s) ->
            exists t, nth_error (set_nth (threads s) j {| kind := kind tj; target := target tj; at_pc := p |}) i = Some t
                      /\ spec_of t = (Deleter, x)).
  { intros p i x Hi. destruct (HD i x Hi) as [t [Ht Et]].
    destruct (set_keeps_spec _ _ _ p _ _ Hn Ht) as [t' [H1 H2]]. exists t'. split; [exact H1 | congruence]. }
  assert (Self : forall p, exists t, nth_error (set_nth (threads s) j {| kind := kind tj; target := target tj; at_pc := p |}) j = Some t
                      /\ spec_of t = (kind tj, target tj)).
  { intros p. rewrite (nth_set_eq _ _ _ _ Hn). eexists; split; reflexivity. }
  unfold step_create, step_delete, with_thread.
  destruct (kind tj) eqn:Ek.
  - destruct (at_pc tj) eqn:Epc; try (split; assumption);
      try match goal with |- context [over_quota ?a ?b] => destruct (over_quota a b) end; split; proj; intros i x Hin;
      try (apply KP; exact Hin); try (apply KD; exact Hin).
    apply in_app_or in Hin. destruct Hin as [Hin|[Hin|[]]]; [apply KP; exact Hin|].
    inversion Hin; subst. apply Self.
  - destruct (at_pc tj) eqn:Epc; try (split; assumption);
      split; proj; intros i x Hin; try (apply KP; exact Hin); try (apply KD; exact Hin).
    apply in_app_or in Hin. destruct Hin as [Hin|[Hin|[]]]; [apply KD; exact Hin|].
    inversion Hin; subst. apply Self.
Qed.

Lemma run_logs : forall sch s, logs_by_writer s -> logs_by_writer (run s sch).
Proof.
  unfold run. induction sch as [|j r IH]; intros s H; cbn; [exact H|].
  apply IH. apply step_logs. exact H.
Qed.

Lemma set_nth_specs : forall l j tj p, nth_error l j = Some tj ->
  map spec_of (set_nth l j {| kind := kind tj; target := target tj; at_pc := p |}) = map spec_of l.
Proof.
  induction l as [|y l IH]; intros [|j] tj p Hn; cbn in *; try discriminate.
  - inversion Hn; subst. reflexivity.
  - f_equal. apply IH. exact Hn.
Qed.

Lemma step_specs : forall s j, map spec_of (threads (step s j)) = map spec_of (threads s).
Proof.
  intros s j. unfold step. destruct (nth_error (threads s) j) as [tj|] eqn:Hn; [|reflexivity].
  destruct (kind tj) eqn:Ek; [unfold step_create | unfold step_delete];
    destruct (at_pc tj); try match goal with |- context [over_quota ?a ?b] => destruct (over_quota a b) end; proj;
    first [apply set_nth_specs; exact Hn | rewrite <- Ek; apply set_nth_specs; exact Hn | reflexivity].
Qed.

Lemma run_specs : forall sch s, map spec_of (threads (run s sch)) = map spec_of (threads s).
Proof.
  unfold run. induction sch as [|j r IH]; intros s; cbn; [reflexivity|].
  rewrite IH. apply step_specs.
Qed.

Lemma init_specs : forall q writers, map spec_of (threads (init q writers)) = writers.
Proof.
  intros q writers. cbn. rewrite map_map. unfold spec_of. cbn.
  induction writers as [|[k x] r IH]; cbn; [reflexivity | f_equal; exact IH].
Qed.

Lemma init_logs : forall q writers, logs_by_writer (init q writers).
Proof. intros. split; intros i x []. Qed.

(* ---------- the property theorems ---------- *)

(* however creators and deleters interleave (any number of writers, any ids, any schedule, at
   every point of the schedule): the entities in storage are distinct, no more than the quota,
   and the usage counter is within the quota; every accepted creation is in storage unless a
   delete of that id was executed (by a deleter of exactly that id); storage holds only ids
   that some creator asked for *)
Theorem quota_holds : forall m writers sched,
  let s := run (init (Some m) writers) sched in
  NoDup (stored s) /\ nlen (stored s) <= m /\ usage s <= m /\
  (forall i t, nth_error (threads s) i = Some t -> kind t = Creator -> at_pc t = Done Accepted ->
     In (target t) (stored s) \/ exists j, In (j, target t) (dels s) /\ nth_error writers j = Some (Deleter, target t)) /\
  (forall x, In x (stored s) -> In (Creator, x) writers).
Proof.
  intros m writers sched s. pose proof (reach_inv (Some m) writers sched) as H. fold s in H.
  destruct H as [Hq Hc Hd Hw Hp Hcl Ho]. cbn in Hw.
  pose proof (run_logs sched _ (init_logs (Some m) writers)) as [LP LD]. fold s in LP, LD.
  pose proof (run_specs sched (init (Some m) writers)) as SP. fold s in SP. rewrite init_specs in SP.
  split; [exact Hd|]. split; [lia|]. split; [exact Hw|]. split.
  - intros i t Hn Hk E. destruct (Hp i t Hn Hk (or_intror E)) as [L|[j R]]; [left; exact L|].
    right. exists j. split; [exact R|].
    destruct (LD j _ R) as [tj [Hj Ej]]. rewrite <- SP.
    rewrite nth_error_map, Hj. cbn. congruence.
  - intros x Hx. destruct (Ho x Hx) as [i Hi]. destruct (LP i x Hi) as [t [Ht Et]].
    rewrite <- SP, <- Et. apply in_map. eapply nth_error_In; exact Ht.
Qed.

(* a refused creation leaves nothing behind: the refused writer appended nothing to the
   WAL, put nothing into storage and deleted nothing, at any point of any schedule... *)
Theorem refused_wrote_nothing : forall q writers sched i t,
  let s := run (init q writers) sched in
  nth_error (threads s) i = Some t -> at_pc t = Done Refused ->
  (forall x, ~ In (i, x) (wal s)) /\ (forall x, ~ In (i, x) (puts s)) /\ (forall x, ~ In (i, x) (dels s)).
Proof.
  intros q writers sched i t s Hn E. pose proof (reach_inv q writers sched) as H. fold s in H.
  eapply (inv_clean _ _ H); eauto.
Qed.

(* ... and the step in which a writer is refused changes neither the usage counter nor
   storage nor the WAL (for any state, reachable or not) *)
Theorem refusal_changes_nothing : forall s i t',
  nth_error (threads (step s i)) i = Some t' -> at_pc t' = Done Refused ->
  usage (step s i) = usage s /\ stored (step s i) = stored s /\ wal (step s i) = wal s /\
  puts (step s i) = puts s /\ dels (step s i) = dels s /\ quota (step s i) = quota s.
Proof.
  intros s i t' Hn E. unfold step in *.
  destruct (nth_error (threads s) i) as [t|] eqn:Ht; [|repeat split].
  destruct (kind t); [unfold step_create in * | unfold step_delete in *];
    destruct (at_pc t) eqn:Epc; try (repeat split; fail);
    try (destruct (over_quota (quota s) (usage s)); [repeat split|]);
    cbn [threads] in Hn; unfold with_thread in Hn; rewrite (nth_set_eq _ _ _ _ Ht) in Hn; inversion Hn; subst; discriminate.
Qed.

(* usage = stored entities + reservations in flight, always; hence equal at quiescence *)
Theorem usage_exact : forall q writers sched,
  let s := run (init q writers) sched in
  usage s = nlen (stored s) + pend (threads s) /\
  (quiescent s = true -> usage s = nlen (stored s)).
Proof.
  intros q writers sched s. pose proof (reach_inv q writers sched) as H. fold s in H.
  destruct H as [Hq Hc Hd Hw Hp Hcl Ho]. split; [exact Hc|].
  intros Q. unfold quiescent in Q. rewrite (pend_quiescent _ Q) in Hc. lia.
Qed.

(* the storage step of a delete, at any point of any schedule: deleting an id that is not
   stored changes neither storage nor usage; deleting a stored id removes exactly that id
   and frees exactly one unit (usage was at least 1: no underflow); the other steps of a
   delete touch neither storage nor usage *)
Theorem delete_exact : forall q writers sched i t,
  let s := run (init q writers) sched in
  nth_error (threads s) i = Some t -> kind t = Deleter ->
  let s' := step s i in
  quota s' = quota s /\ puts s' = puts s /\
  (at_pc t <> Logged -> stored s' = stored s /\ usage s' = usage s) /\
  (at_pc t = Logged -> ~ In (target t) (stored s) -> stored s' = stored s /\ usage s' = usage s) /\
  (at_pc t = Logged -> In (target t) (stored s) ->
     (forall y, In y (stored s') <-> In y (stored s) /\ y <> target t) /\
     nlen (stored s') + 1 = nlen (stored s) /\ usage s' + 1 = usage s).
Proof.
  intros q writers sched i t s Hn Hk s'. pose proof (reach_inv q writers sched) as H. fold s in H.
  destruct H as [Hq Hc Hd Hw Hp Hcl Ho].
  subst s'. unfold step. rewrite Hn, Hk. unfold step_delete.
  destruct (at_pc t) eqn:Epc; cbn [quota usage stored puts];
    try (repeat split; try reflexivity; intros; congruence).
  split; [reflexivity|]. split; [reflexivity|]. split; [intros C; congruence|]. split.
  - intros _ Hnot. destruct (mem (target t) (stored s)) eqn:Em; [apply mem_in in Em; contradiction|]. split; reflexivity.
  - intros _ Hin. pose proof Hin as Em. apply mem_in in Em. rewrite Em.
    pose proof (remove_len _ _ Hd Hin) as RL. split; [|split].
    + intros y. apply remove_in.
    + exact RL.
    + lia.
Qed.

(* recovery sets usage to what storage holds: after any number (>= 1) of recoveries the
   counter equals the stored count; at quiescence recovery changes nothing at all *)
Theorem recover_idempotent : forall q writers sched n,
  let s := run (init q writers) sched in
  usage (Nat.iter (S n) recover s) = nlen (stored s) /\
  stored (Nat.iter (S n) recover s) = stored s /\
  recover (recover s) = recover s /\
  (quiescent s = true -> Nat.iter n recover s = s).
Proof.
  intros q writers sched n s.
  assert (A : forall k, stored (Nat.iter k recover s) = stored s).
  { induction k as [|k IH]; cbn; [reflexivity | exact IH]. }
  split.
  { change (usage (recover (Nat.iter n recover s)) = nlen (stored s)).
    unfold recover at 1. cbn [usage]. rewrite A. reflexivity. }
  split; [apply (A (S n))|]. split; [reflexivity|].
  intros Q. destruct (usage_exact q writers sched) as [_ U]. fold s in U. specialize (U Q).
  assert (R : recover s = s).
  { unfold recover. rewrite <- U. destruct s; reflexivity. }
  induction n as [|n IH]; [reflexivity|].
  change (recover (Nat.iter n recover s) = s). rewrite IH. exact R.
Qed.

(* the original recover added the stored count on every call: two calls after one creation
   leave usage 3 for 1 stored entity *)
Example original_recover_adds :
  let s := run (init (Some 5) [(Creator, 7)]) [0; 0; 0; 0]%nat in
  usage s = 1 /\ nlen (stored s) = 1 /\ usage (recover_original (recover_original s)) = 3.
Proof. vm_compute. repeat split; reflexivity. Qed.
