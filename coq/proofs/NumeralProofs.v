(* Proofs for C25: the numeric conversions of the Cypher parser are exact-or-error
   and never panic, for every input string. *)
From Coq Require Import List NArith ZArith Bool Lia ZifyBool ZifyNat ZifyN.
From Verif Require Import Numeral.
Import ListNotations.
Open Scope Z_scope.

(* ------------------------------------------------------------------ *)
(* The mathematical value of a numeral (unbounded integers).           *)
(* ------------------------------------------------------------------ *)

(* Horner value of a digit string, None if some byte is not a digit of the radix *)
Fixpoint horner (radix : Z) (ds : bytes) (acc : Z) : option Z :=
  match ds with
  | [] => Some acc
  | c :: r => match digit_val radix c with
              | None => None
              | Some d => horner radix r (acc * radix + d)
              end
  end.

(* [+-]? digit+ in the given radix, as an unbounded integer *)
Definition signed_value (radix : Z) (s : bytes) : option Z :=
  match s with
  | [] => None
  | c :: r =>
      match r with
      | [] => if N.eqb c 43 || N.eqb c 45 then None else horner radix s 0
      | _ => if N.eqb c 43 then horner radix r 0
             else if N.eqb c 45 then option_map Z.opp (horner radix r 0)
             else horner radix s 0
      end
  end.

(* value of an integer numeral:  ws* "-"? ("0x"|"0X"|"0o"|"0O")? [+-]? digit+ ws*  *)
Definition denote (text : bytes) : option Z :=
  let t := trim text in
  let '(negative, digits) := strip_minus t in
  let '(radix, digits) := split_radix digits in
  option_map (fun v => if negative : bool then - v else v) (signed_value radix digits).

(* value of a plain decimal digit string *)
Definition dec_value (ds : bytes) : Z := fold_left (fun a c => a * 10 + (Z.of_N c - 48)) ds 0.

(* ------------------------------------------------------------------ *)
(* constants                                                            *)
(* ------------------------------------------------------------------ *)
Lemma I128_MAX_val : I128_MAX = 170141183460469231731687303715884105727. Proof. reflexivity. Qed.
Lemma I128_MIN_val : I128_MIN = -170141183460469231731687303715884105728. Proof. reflexivity. Qed.
Lemma I64_MAX_val : I64_MAX = 9223372036854775807. Proof. reflexivity. Qed.
Lemma I64_MIN_val : I64_MIN = -9223372036854775808. Proof. reflexivity. Qed.
Lemma USIZE_MAX_val : USIZE_MAX = 18446744073709551615. Proof. reflexivity. Qed.
Lemma F64_OVER_pos : 1 <= F64_OVER. Proof. vm_compute. discriminate. Qed.
Global Opaque I128_MAX I128_MIN I64_MAX I64_MIN USIZE_MAX F64_OVER.

(* ------------------------------------------------------------------ *)
(* digits and the accumulation loops                                    *)
(* ------------------------------------------------------------------ *)
Lemma digit_val_range : forall radix c d, digit_val radix c = Some d -> 0 <= d < radix.
Proof.
  intros radix c d H. unfold digit_val in H.
  destruct ((48 <=? Z.of_N c) && (Z.of_N c <=? 57)) eqn:E1.
  - destruct (Z.of_N c - 48 <? radix) eqn:E; inversion H; subst; lia.
  - destruct ((97 <=? Z.of_N c) && (Z.of_N c <=? 122)) eqn:E2.
    + destruct (Z.of_N c - 87 <? radix) eqn:E; inversion H; subst; lia.
    + destruct ((65 <=? Z.of_N c) && (Z.of_N c <=? 90)) eqn:E3.
      * destruct (Z.of_N c - 55 <? radix) eqn:E; inversion H; subst; lia.
      * discriminate.
Qed.

Lemma acc_pos_spec : forall hi radix ds acc v,
  acc_pos hi radix ds acc = Ok v -> horner radix ds acc = Some v /\ (acc <= hi -> v <= hi).
Proof.
  intros hi radix ds. induction ds as [|c r IH]; intros acc v H; cbn [acc_pos horner] in *.
  - inversion H; subst. split; [reflexivity | auto].
  - destruct (digit_val radix c) as [d|]; [|discriminate].
    destruct (hi <? acc * radix) eqn:E1; [discriminate|].
    destruct (hi <? acc * radix + d) eqn:E2; [discriminate|].
    apply IH in H. destruct H as [H1 H2]. split; [exact H1 | intros _; apply H2; lia].
Qed.

Lemma acc_pos_no_panic : forall hi radix ds acc, acc_pos hi radix ds acc <> Panic.
Proof.
  intros hi radix ds. induction ds as [|c r IH]; intros acc; cbn [acc_pos]; [discriminate|].
  destruct (digit_val radix c) as [d|]; [|discriminate].
  destruct (hi <? acc * radix); [discriminate|].
  destruct (hi <? acc * radix + d); [discriminate|]. apply IH.
Qed.

Lemma acc_neg_spec : forall lo radix ds acc v,
  acc_neg lo radix ds acc = Ok v -> horner radix ds (- acc) = Some (- v) /\ (lo <= acc -> lo <= v).
Proof.
  intros lo radix ds. induction ds as [|c r IH]; intros acc v H; cbn [acc_neg horner] in *.
  - inversion H; subst. split; [reflexivity | auto].
  - destruct (digit_val radix c) as [d|]; [|discriminate].
    destruct (acc * radix <? lo) eqn:E1; [discriminate|].
    destruct (acc * radix - d <? lo) eqn:E2; [discriminate|].
    apply IH in H. destruct H as [H1 H2].
    replace (- acc * radix + d) with (- (acc * radix - d)) by ring.
    split; [exact H1 | intros _; apply H2; lia].
Qed.

Lemma acc_neg_no_panic : forall lo radix ds acc, acc_neg lo radix ds acc <> Panic.
Proof.
  intros lo radix ds. induction ds as [|c r IH]; intros acc; cbn [acc_neg]; [discriminate|].
  destruct (digit_val radix c) as [d|]; [|discriminate].
  destruct (acc * radix <? lo); [discriminate|].
  destruct (acc * radix - d <? lo); [discriminate|]. apply IH.
Qed.

Lemma horner_nonneg : forall radix ds a w,
  0 <= radix -> horner radix ds a = Some w -> 0 <= a -> 0 <= w.
Proof.
  intros radix ds. induction ds as [|x ds IH]; intros a w Hr Hh Ha; cbn [horner] in Hh.
  - inversion Hh; subst; lia.
  - destruct (digit_val radix x) as [d|] eqn:Ed; [|discriminate].
    apply digit_val_range in Ed. eapply IH; [exact Hr | exact Hh | nia].
Qed.

Lemma horner_radix_pos : forall radix c r a w, horner radix (c :: r) a = Some w -> 0 < radix.
Proof.
  intros radix c r a w H. cbn [horner] in H.
  destruct (digit_val radix c) as [d|] eqn:Ed; [|discriminate].
  apply digit_val_range in Ed. lia.
Qed.

(* i128::from_str_radix: an Ok result is the unbounded value of the string, and is in range *)
Lemma i128_from_str_radix_spec : forall radix s v,
  i128_from_str_radix radix s = Ok v ->
  signed_value radix s = Some v /\ I128_MIN <= v <= I128_MAX.
Proof.
  intros radix s v H. unfold i128_from_str_radix, from_str_radix in H. unfold signed_value.
  pose proof I128_MAX_val as HM. pose proof I128_MIN_val as Hm.
  destruct s as [|c r]; [discriminate|].
  destruct r as [|c2 r2].
  - destruct (N.eqb c 43 || N.eqb c 45); [discriminate|].
    apply acc_pos_spec in H. destruct H as [H1 H2]. split; [exact H1|].
    pose proof (horner_radix_pos _ _ _ _ _ H1) as Hr.
    pose proof (horner_nonneg _ _ _ _ (Z.lt_le_incl _ _ Hr) H1 (Z.le_refl 0)). lia.
  - destruct (N.eqb c 43).
    + apply acc_pos_spec in H. destruct H as [H1 H2]. split; [exact H1|].
      pose proof (horner_radix_pos _ _ _ _ _ H1) as Hr.
      pose proof (horner_nonneg _ _ _ _ (Z.lt_le_incl _ _ Hr) H1 (Z.le_refl 0)). lia.
    + destruct (N.eqb c 45); cbn [andb] in H.
      * apply acc_neg_spec in H. destruct H as [H1 H2]. change (- 0) with 0 in H1. rewrite H1.
        cbn [option_map]. rewrite Z.opp_involutive. split; [reflexivity|].
        pose proof (horner_radix_pos _ _ _ _ _ H1) as Hr.
        pose proof (horner_nonneg _ _ _ _ (Z.lt_le_incl _ _ Hr) H1 (Z.le_refl 0)). lia.
      * apply acc_pos_spec in H. destruct H as [H1 H2]. split; [exact H1|].
        pose proof (horner_radix_pos _ _ _ _ _ H1) as Hr.
        pose proof (horner_nonneg _ _ _ _ (Z.lt_le_incl _ _ Hr) H1 (Z.le_refl 0)). lia.
Qed.

Lemma from_str_radix_no_panic : forall sg lo hi radix s, from_str_radix sg lo hi radix s <> Panic.
Proof.
  intros sg lo hi radix s. unfold from_str_radix.
  destruct s as [|c r]; [discriminate|].
  destruct r as [|c2 r2].
  - destruct (N.eqb c 43 || N.eqb c 45); [discriminate | apply acc_pos_no_panic].
  - destruct (N.eqb c 43); [apply acc_pos_no_panic|].
    destruct (N.eqb c 45 && sg); [apply acc_neg_no_panic | apply acc_pos_no_panic].
Qed.

(* ------------------------------------------------------------------ *)
(* parse_integer_literal                                                *)
(* ------------------------------------------------------------------ *)
Lemma parse_integer_literal_exact : forall s n,
  parse_integer_literal s = Ok n -> denote s = Some n /\ I64_MIN <= n <= I64_MAX.
Proof.
  intros s n H. unfold parse_integer_literal in H. unfold denote.
  destruct (strip_minus (trim s)) as [neg d].
  destruct (split_radix d) as [radix d'].
  destruct (i128_from_str_radix radix d') as [mag| |] eqn:E; try discriminate.
  apply i128_from_str_radix_spec in E. destruct E as [E Hr]. rewrite E. cbn [option_map].
  destruct neg.
  - unfold checked_neg in H. destruct (mag =? I128_MIN); [discriminate|].
    destruct ((I64_MIN <=? - mag) && (- mag <=? I64_MAX)) eqn:Eb; [|discriminate].
    inversion H; subst. split; [reflexivity | lia].
  - destruct ((I64_MIN <=? mag) && (mag <=? I64_MAX)) eqn:Eb; [|discriminate].
    inversion H; subst. split; [reflexivity | lia].
Qed.

Lemma parse_integer_literal_no_panic : forall s, parse_integer_literal s <> Panic.
Proof.
  intros s. unfold parse_integer_literal.
  destruct (strip_minus (trim s)) as [neg d].
  destruct (split_radix d) as [radix d'].
  destruct (i128_from_str_radix radix d') as [mag| |] eqn:E; try discriminate.
  - destruct (if neg then checked_neg mag else Some mag) as [v|]; [|discriminate].
    destruct ((I64_MIN <=? v) && (v <=? I64_MAX)); discriminate.
  - exfalso. exact (from_str_radix_no_panic _ _ _ _ _ E).
Qed.

(* ------------------------------------------------------------------ *)
(* SKIP / LIMIT and bounds                                              *)
(* ------------------------------------------------------------------ *)
Lemma usize_exact : forall s n,
  usize_try_from (parse_integer_literal s) = Ok n ->
  denote s = Some (Z.of_N n) /\ Z.of_N n <= I64_MAX.
Proof.
  intros s n H. unfold usize_try_from in H.
  destruct (parse_integer_literal s) as [v| |] eqn:E; try discriminate.
  apply parse_integer_literal_exact in E. destruct E as [E Hr].
  destruct ((0 <=? v) && (v <=? USIZE_MAX)) eqn:Eb; [|discriminate].
  inversion H; subst. rewrite Z2N.id by lia. split; [exact E | lia].
Qed.

Lemma usize_no_panic : forall s, usize_try_from (parse_integer_literal s) <> Panic.
Proof.
  intros s. unfold usize_try_from.
  destruct (parse_integer_literal s) as [v| |] eqn:E.
  - destruct ((0 <=? v) && (v <=? USIZE_MAX)); discriminate.
  - discriminate.
  - exfalso. exact (parse_integer_literal_no_panic _ E).
Qed.

Lemma skip_limit_exact : forall tok n,
  skip_limit tok = Ok n -> denote tok = Some (Z.of_N n) /\ Z.of_N n <= I64_MAX.
Proof. intros tok n. unfold skip_limit, parse_count_literal. apply usize_exact. Qed.

Lemma skip_limit_no_panic : forall tok, skip_limit tok <> Panic.
Proof. intros tok. unfold skip_limit, parse_count_literal. apply usize_no_panic. Qed.

(* ------------------------------------------------------------------ *)
(* length patterns                                                      *)
(* ------------------------------------------------------------------ *)

(* what a bound token says: absent => the default, present => its exact value *)
Definition bound_is (tok : option bytes) (default result : option N) : Prop :=
  match tok with
  | None => result = default
  | Some t => exists n, denote t = Some (Z.of_N n) /\ result = Some n
  end.

Definition lp_exact (f : lp_form) (mn mx : option N) : Prop :=
  match f with
  | LpStar => mn = Some 1%N /\ mx = None
  | LpExact t => bound_is (Some t) None mn /\ bound_is (Some t) None mx
  | LpRange lo _ hi => bound_is (option_map fst lo) (Some 1%N) mn /\ bound_is hi None mx
  end.

Lemma trim_end_head : forall c l, is_ws c = false -> exists r, trim_end (c :: l) = c :: r.
Proof.
  intros c l H. cbn [trim_end]. destruct (trim_end l) as [|x r].
  - rewrite H. eexists; reflexivity.
  - eexists; reflexivity.
Qed.

(* a token that begins with '.' is never an integer *)
Lemma dot_token_err : forall l, parse_bound_literal (46%N :: l) = Err.
Proof.
  intros l. unfold parse_bound_literal, parse_integer_literal, trim.
  cbn [trim_start]. change (is_ws 46) with false. cbv iota.
  destruct (trim_end_head 46%N l eq_refl) as [r Hr]. rewrite Hr.
  unfold strip_minus. change (N.eqb 46 45) with false. cbv iota.
  assert (Hrad : exists radix, split_radix (46%N :: r) = (radix, 46%N :: r)).
  { unfold split_radix. destruct r as [|b r']; [eexists; reflexivity|].
    change (N.eqb 46 48) with false. cbn [andb]. eexists; reflexivity. }
  destruct Hrad as [radix Hrad]. rewrite Hrad.
  assert (Hd : digit_val radix 46%N = None) by (unfold digit_val; reflexivity).
  unfold i128_from_str_radix, from_str_radix.
  destruct r as [|b r'].
  - change (N.eqb 46 43 || N.eqb 46 45) with false. cbv iota. cbn [acc_pos]. rewrite Hd. reflexivity.
  - change (N.eqb 46 43) with false. change (N.eqb 46 45) with false. cbn [andb]. cbv iota.
    cbn [acc_pos]. rewrite Hd. reflexivity.
Qed.

Lemma empty_token_err : parse_bound_literal [] = Err.
Proof. reflexivity. Qed.

Lemma bound_ok : forall t n, parse_bound_literal t = Ok n -> exists m, denote t = Some (Z.of_N m) /\ Some n = Some m.
Proof.
  intros t n H. unfold parse_bound_literal in H. apply usize_exact in H. exists n. split; [apply H | reflexivity].
Qed.

Lemma swd_head : forall a t, starts_with_dotdot (a :: t) = true -> a = 46%N.
Proof.
  intros a t H. destruct t as [|b t']; cbn [starts_with_dotdot] in H; [discriminate|].
  apply andb_true_iff in H. destruct H as [H _]. apply N.eqb_eq in H. exact H.
Qed.

Lemma length_pattern_exact : forall f mn mx,
  length_pattern f = Ok (mn, mx) -> lp_exact f mn mx.
Proof.
  intros f mn mx H. destruct f as [|t|lo ws2 hi]; cbn [length_pattern lp_exact] in *.
  - inversion H; subst; split; reflexivity.
  - destruct (parse_bound_literal t) as [n| |] eqn:E; try discriminate.
    inversion H; subst. apply bound_ok in E. destruct E as [m [E1 E2]].
    split; cbn [bound_is]; exists m; split; assumption.
  - destruct lo as [[l ws1]|].
    + (* a lower bound is present *)
      assert (Hmin : starts_with_dotdot (range_text (Some (l, ws1)) ws2 hi) = true ->
                     parse_bound_literal l = Err).
      { intros Es. unfold range_text in Es.
        destruct l as [|a l']; [apply empty_token_err|].
        cbn [app] in Es. apply swd_head in Es. subst a. apply dot_token_err. }
      destruct (starts_with_dotdot (range_text (Some (l, ws1)) ws2 hi)) eqn:Es;
        cbn [negb range_ints option_map fst opt_list app nth_error] in H; cbv iota in H.
      * (* the code takes the first integer for the maximum: only when it is not a numeral *)
        rewrite (Hmin eq_refl) in H. discriminate.
      * destruct (parse_bound_literal l) as [n1| |] eqn:E1; try discriminate.
        apply bound_ok in E1. destruct E1 as [m1 [A1 B1]].
        destruct hi as [h|]; cbn [opt_list app nth_error] in H.
        -- destruct (parse_bound_literal h) as [n2| |] eqn:E2; try discriminate.
           inversion H; subst. apply bound_ok in E2. destruct E2 as [m2 [A2 B2]].
           split; cbn [bound_is option_map fst]; [exists m1 | exists m2]; split; assumption.
        -- inversion H; subst.
           split; cbn [bound_is option_map fst]; [exists m1; split; assumption | reflexivity].
    + (* no lower bound: the text begins with ".." *)
      change (starts_with_dotdot (range_text None ws2 hi)) with true in H.
      cbn [negb range_ints option_map opt_list app nth_error] in H; cbv iota in H.
      destruct hi as [h|]; cbn [opt_list app nth_error] in H.
      * destruct (parse_bound_literal h) as [n2| |] eqn:E2; try discriminate.
        inversion H; subst. apply bound_ok in E2. destruct E2 as [m2 [A2 B2]].
        split; cbn [bound_is option_map]; [reflexivity | exists m2; split; assumption].
      * inversion H; subst. split; reflexivity.
Qed.

Lemma bound_opt_no_panic : forall (o : option bytes) (d : option N),
  match o with
  | Some p => match parse_bound_literal p with Ok n => Ok (Some n) | Err => Err | Panic => Panic end
  | None => Ok d
  end <> Panic.
Proof.
  intros [p|] d; [|discriminate]. destruct (parse_bound_literal p) eqn:E; try discriminate.
  exfalso. exact (usize_no_panic _ E).
Qed.

Lemma length_pattern_no_panic : forall f, length_pattern f <> Panic.
Proof.
  intros f. destruct f as [|t|lo ws2 hi]; cbn [length_pattern]; [discriminate| |].
  - destruct (parse_bound_literal t) eqn:E; try discriminate.
    exfalso. exact (usize_no_panic _ E).
  - destruct (negb (starts_with_dotdot (range_text lo ws2 hi))); cbv iota beta.
    + pose proof (bound_opt_no_panic (nth_error (range_ints lo hi) 0) (Some 1%N)) as HP.
      destruct (match nth_error (range_ints lo hi) 0 with Some p => _ | None => _ end) as [mn| |];
        [ | discriminate | congruence].
      pose proof (bound_opt_no_panic (nth_error (range_ints lo hi) 1) None) as HQ.
      destruct (match nth_error (range_ints lo hi) 1 with Some p => _ | None => _ end) as [mx| |];
        [ discriminate | discriminate | congruence].
    + pose proof (bound_opt_no_panic (nth_error (range_ints lo hi) 0) None) as HQ.
      destruct (match nth_error (range_ints lo hi) 0 with Some p => _ | None => _ end) as [mx| |];
        [ discriminate | discriminate | congruence].
Qed.

(* ------------------------------------------------------------------ *)
(* float literals                                                       *)
(* ------------------------------------------------------------------ *)

(* the non-negative decimal m * 10^e is below the binary64 overflow threshold *)
Definition below_overflow (m e : Z) : Prop :=
  (0 <= e -> m * 10 ^ e < F64_OVER) /\ (e < 0 -> m < F64_OVER * 10 ^ (- e)).

Lemma float_fits_sound : forall m nd e, float_fits m nd e = true -> below_overflow m e.
Proof.
  intros m nd e H. unfold float_fits in H. pose proof F64_OVER_pos as HF. unfold below_overflow.
  destruct (m =? 0) eqn:Em.
  - apply Z.eqb_eq in Em. subst m. split; intros He.
    + lia.
    + assert (0 < 10 ^ (- e)) by (apply Z.pow_pos_nonneg; lia). nia.
  - destruct (0 <=? e) eqn:Ee.
    + destruct (400 <? e); [discriminate|]. split; intros He; lia.
    + split; intros He; [lia|].
      assert (Hp : 0 < 10 ^ (- e)) by (apply Z.pow_pos_nonneg; lia).
      destruct (nd <=? - e) eqn:En.
      * assert (10 ^ nd <= 10 ^ (- e)) by (apply Z.pow_le_mono_r; lia). nia.
      * lia.
Qed.

Ltac break_hyp H :=
  match type of H with
  | context [match ?X with _ => _ end] => destruct X eqn:?
  end.

Lemma float_conv_fits : forall s neg m e,
  float_conv s = Ok (neg, m, e) -> below_overflow m e.
Proof.
  intros s neg m e H. unfold float_conv in H.
  repeat (break_hyp H; try discriminate).
  all: inversion H; subst; eapply float_fits_sound; eassumption.
Qed.

Lemma float_conv_no_panic : forall s, float_conv s <> Panic.
Proof.
  intros s. unfold float_conv.
  repeat (match goal with |- context [match ?X with _ => _ end] => destruct X end; try discriminate).
Qed.

(* ------------------------------------------------------------------ *)
(* plain decimal digit strings: denote is the usual decimal value       *)
(* ------------------------------------------------------------------ *)
Lemma is_dec_not_ws : forall c, is_dec c = true -> is_ws c = false.
Proof. intros c. unfold is_dec, is_ws. lia. Qed.

Lemma trim_end_dec : forall s, forallb is_dec s = true -> trim_end s = s.
Proof.
  induction s as [|c r IH]; intros H; cbn [forallb trim_end] in *; [reflexivity|].
  apply andb_true_iff in H. destruct H as [Hc Hr]. rewrite (IH Hr).
  destruct r; [rewrite (is_dec_not_ws _ Hc)|]; reflexivity.
Qed.

Lemma trim_dec : forall s, forallb is_dec s = true -> trim s = s.
Proof.
  intros s H. unfold trim. destruct s as [|c r]; [reflexivity|].
  pose proof H as H0. cbn [forallb] in H0. apply andb_true_iff in H0. destruct H0 as [Hc _].
  cbn [trim_start]. rewrite (is_dec_not_ws _ Hc). apply trim_end_dec. exact H.
Qed.

Lemma digit_val_dec : forall c, is_dec c = true -> digit_val 10 c = Some (Z.of_N c - 48).
Proof.
  intros c H. unfold digit_val. unfold is_dec in H.
  destruct ((48 <=? Z.of_N c) && (Z.of_N c <=? 57)) eqn:E; [|lia].
  destruct (Z.of_N c - 48 <? 10) eqn:E2; [reflexivity|lia].
Qed.

Lemma horner_dec : forall s a, forallb is_dec s = true ->
  horner 10 s a = Some (fold_left (fun a c => a * 10 + (Z.of_N c - 48)) s a).
Proof.
  induction s as [|c r IH]; intros a H; cbn [forallb horner fold_left] in *; [reflexivity|].
  apply andb_true_iff in H. destruct H as [Hc Hr]. rewrite (digit_val_dec _ Hc). apply IH. exact Hr.
Qed.

Lemma denote_decimal : forall s, s <> [] -> forallb is_dec s = true -> denote s = Some (dec_value s).
Proof.
  intros s Hne H. unfold denote. rewrite (trim_dec _ H).
  destruct s as [|c r]; [congruence|].
  pose proof H as H0. cbn [forallb] in H0. apply andb_true_iff in H0. destruct H0 as [Hc Hr].
  assert (E45 : N.eqb c 45 = false) by (unfold is_dec in Hc; lia).
  assert (E43 : N.eqb c 43 = false) by (unfold is_dec in Hc; lia).
  unfold strip_minus. rewrite E45.
  assert (Hs : split_radix (c :: r) = (10, c :: r)).
  { unfold split_radix. destruct r as [|b r']; [reflexivity|].
    cbn [forallb] in Hr. apply andb_true_iff in Hr. destruct Hr as [Hb _].
    assert (N.eqb b 120 = false) by (unfold is_dec in Hb; lia).
    assert (N.eqb b 88 = false) by (unfold is_dec in Hb; lia).
    assert (N.eqb b 111 = false) by (unfold is_dec in Hb; lia).
    assert (N.eqb b 79 = false) by (unfold is_dec in Hb; lia).
    repeat match goal with Hx : N.eqb b _ = false |- _ => rewrite Hx; clear Hx end.
    cbn [orb]. rewrite !andb_false_r. reflexivity. }
  rewrite Hs. unfold signed_value. rewrite E43, E45. cbn [orb].
  assert (Hh : horner 10 (c :: r) 0 = Some (dec_value (c :: r))) by (apply horner_dec; exact H).
  destruct r; rewrite Hh; reflexivity.
Qed.

(* "for every digit string": accepted => the stored number is the decimal value *)
Lemma decimal_literal_exact : forall s n,
  s <> [] -> forallb is_dec s = true -> parse_integer_literal s = Ok n -> n = dec_value s.
Proof.
  intros s n Hne H Hp. apply parse_integer_literal_exact in Hp. destruct Hp as [Hd _].
  rewrite (denote_decimal _ Hne H) in Hd. congruence.
Qed.

Lemma decimal_count_exact : forall s n,
  s <> [] -> forallb is_dec s = true -> skip_limit s = Ok n -> Z.of_N n = dec_value s.
Proof.
  intros s n Hne H Hp. apply skip_limit_exact in Hp. destruct Hp as [Hd _].
  rewrite (denote_decimal _ Hne H) in Hd. congruence.
Qed.
