(* C35, write side: the substitution lemma for statements of coq/model/CypherWrite.v -
   executing a write statement under a parameter environment = executing the statement with
   every parameter inlined as a literal (CREATE / MERGE property maps, ON CREATE / ON MATCH SET,
   SET x.k = e, SET x += {..}, and the reading clauses and RETURN around them). *)
From Coq Require Import List NArith ZArith Bool Lia.
From Verif Require Import CypherCore Cypher CypherProofs CypherSubst CypherWrite.
Import ListNotations.
Open Scope N_scope.

(* ---- inlining over statements ---- *)
Definition inline_crel (pe : penv) (c : crel) : crel :=
  CR (cr_var c) (cr_type c) (cr_out c) (inline_props pe (cr_props c)).
Definition inline_cpath (pe : penv) (p : cpath) : cpath :=
  (inline_npat pe (fst p),
   map (fun s : crel * npat expr => (inline_crel pe (fst s), inline_npat pe (snd s))) (snd p)).
Definition inline_setitem (pe : penv) (it : setitem) : setitem :=
  match it with
  | SetProp x k e => SetProp x k (inline_expr pe e)
  | SetMap x kvs => SetMap x (inline_props pe kvs)
  | SetLabels x ls => SetLabels x ls
  end.
Definition inline_uclause (pe : penv) (u : uclause) : uclause :=
  match u with
  | UCreate ps => UCreate (map (inline_cpath pe) ps)
  | UMerge p oc om => UMerge (inline_cpath pe p) (map (inline_setitem pe) oc) (map (inline_setitem pe) om)
  | USet items => USet (map (inline_setitem pe) items)
  | URemove items => URemove items
  | UDelete d xs => UDelete d xs
  end.
Definition inline_stmt (pe : penv) (s : stmt) : stmt :=
  ST (map (inline_clause pe) (s_reads s)) (map (inline_uclause pe) (s_updates s))
     (option_map (inline_proj pe) (s_ret s)).

(* the statement under a parameter environment: [exec_stmt_cfg] with [pe] instead of [] *)
Definition exec_stmt_env_cfg (wc : wcfg) (cf : cfg) (pe : penv) (g : graph) (s : stmt) : outcome (graph * table) :=
  match exec_ordered wc cf pe false g s, exec_ordered wc cf pe true g s with
  | Ok (g1, t1), Ok (g2, t2) =>
      if graph_iso (map n_id (g_nodes g)) (map r_id (g_rels g)) g1 g2 && bag_eqb t1 t2
      then Ok (g1, t1) else Undet
  | Ok _, _ | _, Ok _ => Undet
  | e, _ => e
  end.
Definition exec_stmt_env (pe : penv) (g : graph) (s : stmt) : outcome (graph * table) :=
  exec_stmt_env_cfg ref_w ref_cfg pe g s.

(* known finding set_param_in_clause_pipeline (known_findings.txt): in `CREATE ... SET x.k = e`
   (no reading clause, the SET directly after the CREATE) the engine does not substitute the
   parameters of e; the SET then fails inside and stores null *)
Fixpoint expr_has_param (e : expr) : bool :=
  match e with
  | EParam _ => true
  | ELit _ | EVar _ | EProp _ _ => false
  | ECmp _ a b | EAnd a b | EOr a b | EXor a b | EArith _ a b | EIn a b => expr_has_param a || expr_has_param b
  | ENot a | EIsNull a | EIsNotNull a | ENeg a => expr_has_param a
  | EList l | EFn _ l => existsb expr_has_param l
  end.
Definition Known_C35 (s : stmt) : bool :=
  match s_reads s, s_updates s with
  | [], UCreate _ :: USet items :: _ =>
      existsb (fun it => match it with SetProp _ _ e => expr_has_param e | _ => false end) items
  | _, _ => false
  end.

(* known finding param_in_earlier_with_where (known_findings.txt): when a query part has several
   WITH clauses, a parameter in the WHERE of a WITH that is not the last one is not substituted;
   the filter swallows the evaluation error and drops every row *)
Definition is_with (c : clause) : bool := match c with CWith _ _ => true | _ => false end.
Fixpoint known_param_with_where (cs : list clause) : bool :=
  match cs with
  | [] => false
  | CWith _ (Some e) :: rest => (expr_has_param e && existsb is_with rest) || known_param_with_where rest
  | _ :: rest => known_param_with_where rest
  end.
Definition Known_C35_query (q : query) : bool :=
  existsb (fun s => known_param_with_where (q_clauses s)) (q_parts q).

Lemma ofold_ext {A B} (f f' : A -> B -> outcome A) (l : list B) :
  (forall a b, f a b = f' a b) -> forall a, ofold f l a = ofold f' l a.
Proof.
  intros H. induction l as [|b l IH]; intros a; [reflexivity|]. cbn [ofold]. rewrite H.
  destruct (f' a b); cbn [obind]; auto.
Qed.

Lemma ofold_map {A B C} (f : A -> C -> outcome A) (h : B -> C) (l : list B) :
  forall a, ofold f (map h l) a = ofold (fun a b => f a (h b)) l a.
Proof.
  induction l as [|b l IH]; intros a; [reflexivity|]. cbn [map ofold].
  destruct (f a (h b)); cbn [obind]; auto.
Qed.

Section WSubst.
  Variables (wc : wcfg) (cf : cfg) (pe : penv).

  Lemma resolve_cpath_ok g r p :
    resolve_cpath cf pe g r p = resolve_cpath cf [] g r (inline_cpath pe p).
  Proof.
    unfold resolve_cpath, inline_cpath. cbn [fst snd]. rewrite <- resolve_npat_ok.
    destruct (resolve_npat cf g pe r (fst p)); cbn [obind]; try reflexivity.
    rewrite omap_map.
    rewrite (omap_ext _ (fun s : crel * npat expr =>
       obind (resolve_props cf g [] r (cr_props (inline_crel pe (fst s)))) (fun ps =>
       obind (resolve_npat cf g [] r (inline_npat pe (snd s))) (fun n1 =>
         Ok ((cr_var (inline_crel pe (fst s)), cr_type (inline_crel pe (fst s)),
              cr_out (inline_crel pe (fst s)), ps), n1))))).
    - reflexivity.
    - intros [c np]. cbn [fst snd inline_crel cr_props cr_var cr_type cr_out].
      rewrite resolve_props_ok, resolve_npat_ok. reflexivity.
  Qed.

  Lemma create_path_ok gr p :
    create_path wc cf pe gr p = create_path wc cf [] gr (inline_cpath pe p).
  Proof. unfold create_path. rewrite resolve_cpath_ok. reflexivity. Qed.

  Lemma apply_set_ok r g it :
    apply_set wc cf pe r g it = apply_set wc cf [] r g (inline_setitem pe it).
  Proof.
    destruct it as [x k e|x kvs|x ls]; cbn [inline_setitem apply_set]; try reflexivity.
    - rewrite inline_expr_ok. reflexivity.
    - rewrite resolve_props_ok. reflexivity.
  Qed.

  Lemma apply_sets_ok r items g :
    ofold (apply_set wc cf pe r) items g = ofold (apply_set wc cf [] r) (map (inline_setitem pe) items) g.
  Proof.
    rewrite ofold_map. apply ofold_ext. intros a b. apply apply_set_ok.
  Qed.

  Lemma merge_row_ok p oc om g r :
    merge_row wc cf pe p oc om g r =
    merge_row wc cf [] (inline_cpath pe p) (map (inline_setitem pe) oc) (map (inline_setitem pe) om) g r.
  Proof.
    unfold merge_row. rewrite resolve_cpath_ok.
    destruct (resolve_cpath cf [] g r (inline_cpath pe p)) as [vp| | |]; cbn [obind]; try reflexivity.
    destruct (vpath_has_null vp); [reflexivity|].
    destruct (match_rows true g [vpath_ppat vp] r) as [|m ms].
    - destruct (create_vpath wc g r vp) as [gr| | |]; cbn [obind]; try reflexivity.
      rewrite apply_sets_ok. reflexivity.
    - f_equal. apply ofold_ext. intros a b. apply apply_sets_ok.
  Qed.

  Lemma per_row_ext (f f' : graph -> row -> outcome (graph * list row)) g rows :
    (forall g r, f g r = f' g r) -> per_row f g rows = per_row f' g rows.
  Proof.
    intros H. unfold per_row. apply ofold_ext. intros a r. rewrite H. reflexivity.
  Qed.

  Lemma exec_uclause_ok u g rows :
    exec_uclause wc cf pe u g rows = exec_uclause wc cf [] (inline_uclause pe u) g rows.
  Proof.
    destruct u as [ps|p oc om|items|items|d xs]; cbn [inline_uclause exec_uclause]; try reflexivity.
    - apply per_row_ext. intros g0 r. f_equal. rewrite ofold_map. apply ofold_ext.
      intros a b. apply create_path_ok.
    - apply per_row_ext. intros g0 r. apply merge_row_ok.
    - apply per_row_ext. intros g0 r. rewrite apply_sets_ok. reflexivity.
  Qed.

  Lemma exec_updates_ok us g rows :
    exec_updates wc cf pe us g rows = exec_updates wc cf [] (map (inline_uclause pe) us) g rows.
  Proof.
    unfold exec_updates. rewrite ofold_map. apply ofold_ext. intros a u. apply exec_uclause_ok.
  Qed.

  Lemma ret_table_ok g rows ret :
    ret_table cf pe g rows ret = ret_table cf [] g rows (option_map (inline_proj pe) ret).
  Proof.
    destruct ret as [p|]; [|reflexivity]. cbn [option_map ret_table].
    rewrite <- project_sorted_ok. reflexivity.
  Qed.

  Lemma exec_ordered_ok rv g s :
    exec_ordered wc cf pe rv g s = exec_ordered wc cf [] rv g (inline_stmt pe s).
  Proof.
    unfold exec_ordered, inline_stmt. cbn [s_reads s_updates s_ret].
    rewrite <- eval_clauses_ok.
    destruct (eval_clauses cf g pe (s_reads s) [[]]) as [rows| | |]; cbn [obind]; try reflexivity.
    rewrite <- exec_updates_ok.
    destruct (exec_updates wc cf pe (s_updates s) g _) as [gr| | |]; cbn [obind]; try reflexivity.
    destruct (well_formed (fst gr)); [|reflexivity]. rewrite <- ret_table_ok. reflexivity.
  Qed.

  Theorem subst_stmt g s :
    exec_stmt_env_cfg wc cf pe g s = exec_stmt_cfg wc cf g (inline_stmt pe s).
  Proof. unfold exec_stmt_env_cfg, exec_stmt_cfg. rewrite !exec_ordered_ok. reflexivity. Qed.
End WSubst.
