(* Proofs for C16: after a crash at any hook point, and after a run to the end, what a new
   process recovers is the effect of the acknowledged operations (plus, atomically, at most
   the one in flight). *)
From Coq Require Import List NArith Bool Lia.
From Verif Require Import CheckLib Persist.
Import ListNotations.
Open Scope N_scope.

Lemma reserve_disk : forall s t k s1, reserve s t k = Some s1 -> disk s1 = disk s /\ wal s1 = wal s.
Proof.
  intros s t k s1 H. unfold reserve in H.
  destruct (alist_get (regs s) t) as [[qn qe]|]; [|discriminate].
  destruct (alist_get (usage s) t) as [[un ue]|]; [|discriminate].
  destruct k.
  - destruct (over qn un); [discriminate|]. inversion H; subst. cbn. auto.
  - destruct (over qe ue); [discriminate|]. inversion H; subst. cbn. auto.
Qed.

Lemma gate_disk : forall s o s1, gate s o = Some s1 -> disk s1 = disk s /\ wal s1 = wal s.
Proof.
  intros s o s1 H. destruct o; cbn in H;
    try (apply reserve_disk in H; exact H);
    try (destruct (alist_get (regs s) t); [|discriminate]);
    inversion H; subst; auto.
Qed.

Lemma release_disk : forall s t k, disk (release s t k) = disk s /\ wal (release s t k) = wal s.
Proof.
  intros s t k. unfold release. destruct (alist_get (usage s) t) as [[un ue]|]; cbn; auto.
Qed.

Lemma settle_disk : forall b s o, disk (settle b s o) = disk s /\ wal (settle b s o) = wal s.
Proof.
  intros b s o. destruct o; cbn; auto using release_disk;
    try (destruct (kv_get (s_nodes b) (t, id)); auto using release_disk);
    try (destruct (kv_get (s_edges b) (t, id)); auto using release_disk).
Qed.

(* the durable steps of an admitted operation: nothing on disk before the storage write,
   exactly the operation's effect after it *)
Lemma durable_steps_disk : forall d s o,
  disk (durable_steps d s o) = if Nat.leb 2 d then effect (disk s) o else disk s.
Proof.
  intros d s o. unfold durable_steps. destruct (wentry_of o) eqn:E.
  - destruct d as [|[|d]]; reflexivity.
  - destruct o; try discriminate. cbn [effect]. destruct (Nat.leb 2 d); reflexivity.
Qed.

Lemma reopen_disk : forall s rs, disk (reopen s rs) = disk s /\ wal (reopen s rs) = wal s.
Proof.
  intros s rs. unfold reopen. destruct (fold_left register rs (fresh_regs, fresh_usage)). split; reflexivity.
Qed.

(* the two shapes of an operation *)
Lemma op_cases : forall s o,
  (exists rs, o = Reopen rs /\ run_op s o = (reopen s rs, true) /\ forall d, crash_in s o d = None) \/
  (exists w, wentry_of o = Some w /\
     run_op s o = match gate s o with
                  | None => (s, false)
                  | Some s1 => (settle (disk s) (durable_steps 2 s1 o) o, true)
                  end /\
     forall d, crash_in s o d = match gate s o with
                                | None => None
                                | Some s1 => Some (durable_steps d s1 o)
                                end).
Proof.
  intros s o. destruct o; try (right; eexists; split; [reflexivity|split; [reflexivity|intros; reflexivity]]).
  left. eexists. split; [reflexivity|split; [reflexivity|intros; reflexivity]].
Qed.

(* a completed operation: acknowledged => exactly its effect; refused => nothing *)
Lemma run_op_disk : forall s o s' a, run_op s o = (s', a) ->
  disk s' = if a then effect (disk s) o else disk s.
Proof.
  intros s o s' a H. destruct (op_cases s o) as [[rs [-> [Hr _]]]|[w [Hw [Hr _]]]]; rewrite Hr in H.
  - injection H as <- <-. cbn [effect]. apply reopen_disk.
  - destruct (gate s o) as [s1|] eqn:Ea; injection H as <- <-; [|reflexivity].
    rewrite (proj1 (settle_disk _ _ _)), durable_steps_disk. cbn [Nat.leb].
    rewrite (proj1 (gate_disk _ _ _ Ea)). reflexivity.
Qed.

Lemma run_disk : forall ops s s' acks, run s ops = (s', acks) ->
  disk s' = fold_left effect (acked ops acks) (disk s) /\ length acks = length ops.
Proof.
  induction ops as [|o ops IH]; intros s s' acks H; cbn in H.
  - inversion H; subst. split; reflexivity.
  - destruct (run_op s o) as [s1 a] eqn:E1. destruct (run s1 ops) as [s2 acks2] eqn:E2.
    inversion H; subst. destruct (IH _ _ _ E2) as [Hd Hl]. pose proof (run_op_disk _ _ _ _ E1) as H1.
    split; [|cbn; rewrite Hl; reflexivity].
    rewrite Hd. destruct a; cbn [acked fold_left]; rewrite H1; reflexivity.
Qed.

Lemma init_disk : forall rs, disk (init rs) = empty_store.
Proof.
  intros rs. unfold init. destruct (fold_left register rs (fresh_regs, fresh_usage)). reflexivity.
Qed.

(* a run to the end: the disk is the specification of the acknowledged operations *)
Theorem run_spec : forall rs ops s acks, run (init rs) ops = (s, acks) ->
  disk s = spec (acked ops acks).
Proof.
  intros rs ops s acks H. destruct (run_disk _ _ _ _ H) as [Hd _]. rewrite Hd, init_disk. reflexivity.
Qed.

(* recovery in a new process returns the tenant's part of the disk, whatever the new
   process has registered *)
Lemma recover_new_process : forall s rs t, fst (recover (reopen s rs) t) = view (disk s) t.
Proof. intros s rs t. unfold recover. cbn [fst]. rewrite (proj1 (reopen_disk s rs)). reflexivity. Qed.

Lemma spec_snoc : forall l o, spec (l ++ [o]) = effect (spec l) o.
Proof. intros l o. unfold spec. rewrite fold_left_app. reflexivity. Qed.

(* crash with the operation [o] in flight *)
Theorem crash_spec : forall rs ops i d o s1 acks s2,
  run (init rs) (firstn i ops) = (s1, acks) -> nth_error ops i = Some o ->
  crash_in s1 o d = Some s2 ->
  disk s2 = spec (acked (firstn i ops) acks) \/
  disk s2 = spec (acked (firstn i ops) acks ++ [o]).
Proof.
  intros rs ops i d o s1 acks s2 Hrun _ Hc. pose proof (run_spec _ _ _ _ Hrun) as Hs.
  assert (H : exists s', gate s1 o = Some s' /\ s2 = durable_steps d s' o).
  { destruct (op_cases s1 o) as [[rs0 [-> [_ Hn]]]|[w [_ [_ Hn]]]]; rewrite Hn in Hc; [discriminate|].
    destruct (gate s1 o) as [s'|]; [|discriminate]. injection Hc as <-. eexists; split; reflexivity. }
  destruct H as [s' [Ea ->]]. rewrite durable_steps_disk, (proj1 (gate_disk _ _ _ Ea)), spec_snoc, <- Hs.
  destruct (Nat.leb 2 d); auto.
Qed.

(* the property, as seen through recover in the new process, for every tenant *)
Theorem recover_after_crash : forall rs ops i d o s1 acks s2 rs' t,
  run (init rs) (firstn i ops) = (s1, acks) -> nth_error ops i = Some o ->
  crash_in s1 o d = Some s2 ->
  fst (recover (reopen s2 rs') t) = view (spec (acked (firstn i ops) acks)) t \/
  fst (recover (reopen s2 rs') t) = view (spec (acked (firstn i ops) acks ++ [o])) t.
Proof.
  intros. rewrite recover_new_process.
  destruct (crash_spec _ _ _ _ _ _ _ _ H H0 H1) as [-> | ->]; auto.
Qed.

Theorem recover_after_run : forall rs ops s acks rs' t,
  run (init rs) ops = (s, acks) ->
  fst (recover (reopen s rs') t) = view (spec (acked ops acks)) t.
Proof. intros. rewrite recover_new_process, (run_spec _ _ _ _ H). reflexivity. Qed.

(* which of the two it is: nothing of the operation before its storage write, all of it after *)
Theorem crash_atomic : forall s1 o d s2, crash_in s1 o d = Some s2 ->
  disk s2 = if Nat.leb 2 d then effect (disk s1) o else disk s1.
Proof.
  intros s1 o d s2 Hc.
  assert (H : exists s', gate s1 o = Some s' /\ s2 = durable_steps d s' o).
  { destruct (op_cases s1 o) as [[rs0 [-> [_ Hn]]]|[w [_ [_ Hn]]]]; rewrite Hn in Hc; [discriminate|].
    destruct (gate s1 o) as [s'|]; [|discriminate]. injection Hc as <-. eexists; split; reflexivity. }
  destruct H as [s' [Ea ->]]. rewrite durable_steps_disk, (proj1 (gate_disk _ _ _ Ea)). reflexivity.
Qed.

(* the log has one entry per acknowledged operation, in order (write-ahead: the entry is
   appended before the storage write, see durable_steps) *)
Fixpoint entries (l : list op) : list wentry :=
  match l with
  | [] => []
  | o :: r => match wentry_of o with Some w => w :: entries r | None => entries r end
  end.

Lemma run_op_wal : forall s o s' a, run_op s o = (s', a) ->
  wal s' = wal s ++ (if a then entries [o] else []).
Proof.
  intros s o s' a H. destruct (op_cases s o) as [[rs [-> [Hr _]]]|[w [Hw [Hr _]]]]; rewrite Hr in H.
  - injection H as <- <-. cbn. rewrite app_nil_r. apply reopen_disk.
  - destruct (gate s o) as [s1|] eqn:Ea; injection H as <- <-; [|rewrite app_nil_r; reflexivity].
    rewrite (proj2 (settle_disk _ _ _)). unfold durable_steps. rewrite Hw. cbn [entries]. rewrite Hw.
    cbn. rewrite (proj2 (gate_disk _ _ _ Ea)). reflexivity.
Qed.

Lemma entries_app : forall a b, entries (a ++ b) = entries a ++ entries b.
Proof.
  induction a as [|o a IH]; intros b; cbn; [reflexivity|].
  destruct (wentry_of o); cbn; rewrite IH; reflexivity.
Qed.

Theorem run_wal : forall ops s s' acks, run s ops = (s', acks) ->
  wal s' = wal s ++ entries (acked ops acks).
Proof.
  induction ops as [|o ops IH]; intros s s' acks H; cbn in H.
  - inversion H; subst. cbn. rewrite app_nil_r. reflexivity.
  - destruct (run_op s o) as [s1 a] eqn:E1. destruct (run s1 ops) as [s2 acks2] eqn:E2.
    inversion H; subst. rewrite (IH _ _ _ E2), (run_op_wal _ _ _ _ E1).
    destruct a; cbn [acked].
    + rewrite <- app_assoc. change (o :: acked ops acks2) with ([o] ++ acked ops acks2).
      rewrite entries_app. reflexivity.
    + rewrite app_nil_r. reflexivity.
Qed.

(* the ORIGINAL persist_update_* appended to the log only: model of that behaviour, for the
   regression witness *)
Definition effect_original (g : store) (o : op) : store :=
  match o with
  | UpdateNode _ _ _ | UpdateEdge _ _ _ => g
  | _ => effect g o
  end.

Definition update_witness : list op :=
  [CreateNode 0 1 [1] [(0, 0)]; UpdateNode 0 1 [(0, 5)]].

Lemma original_loses_update :
  view (fold_left effect_original update_witness empty_store) 0 <> view (spec update_witness) 0 /\
  (let '(s, acks) := run (init []) update_witness in
   acks = [true; true] /\ fst (recover (reopen s []) 0) = view (spec update_witness) 0).
Proof. split; [vm_compute; discriminate|vm_compute; split; reflexivity]. Qed.
