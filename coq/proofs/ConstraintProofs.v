(* Proofs for C11: the unique-constraint index is exactly the set of live holders after every
   history, so constrained values are unique, a write is refused iff another live node holds
   the value, and a refused write changes nothing. *)
From Coq Require Import List NArith Bool Lia ZifyBool ZifyN.
From Verif Require Import Constraint.
Import ListNotations.
Open Scope N_scope.

(* ---------------- containers ---------------- *)
Lemma entry_eqb_spec : forall a b, entry_eqb a b = true <-> a = b.
Proof.
  intros [[[l1 k1] v1] h1] [[[l2 k2] v2] h2]. unfold entry_eqb.
  rewrite !andb_true_iff, !N.eqb_eq. split.
  - intros [[[-> ->] ->] ->]. reflexivity.
  - intros E. inversion E. auto.
Qed.

Lemma mem_entry_spec : forall e l, mem_entry e l = true <-> In e l.
Proof.
  intros e l. unfold mem_entry. rewrite existsb_exists. split.
  - intros [x [Hx E]]. apply entry_eqb_spec in E. subst. exact Hx.
  - intros H. exists e. split; [exact H | apply entry_eqb_spec; reflexivity].
Qed.

Lemma In_insert_all : forall es i e, In e (insert_all es i) <-> In e es \/ In e i.
Proof.
  induction es as [|x es IH]; intros i e; cbn [insert_all fold_right].
  - cbn [In]. tauto.
  - fold (insert_all es i). destruct (mem_entry x (insert_all es i)) eqn:M.
    + apply mem_entry_spec in M. rewrite IH. cbn [In]. split; [tauto|].
      intros [[<-|H]|H]; [apply IH; exact M | tauto | tauto].
    + cbn [In]. rewrite IH. tauto.
Qed.

Lemma In_remove_all : forall es i e, In e (remove_all es i) <-> In e i /\ ~ In e es.
Proof.
  intros es i e. unfold remove_all. rewrite filter_In. split.
  - intros [A B]. split; [exact A|]. intros C. apply mem_entry_spec in C. rewrite C in B. discriminate.
  - intros [A B]. split; [exact A|].
    destruct (mem_entry e es) eqn:M; [apply mem_entry_spec in M; contradiction | reflexivity].
Qed.

Lemma remove_all_nil : forall i, remove_all [] i = i.
Proof.
  intros i. unfold remove_all. induction i as [|x r IH]; [reflexivity|].
  cbn [filter]. change (mem_entry x []) with false. cbn [negb]. rewrite IH. reflexivity.
Qed.

Lemma memN_spec : forall x l, memN x l = true <-> In x l.
Proof.
  intros x l. unfold memN. rewrite existsb_exists. split.
  - intros [y [Hy E]]. apply N.eqb_eq in E. subst. exact Hy.
  - intros H. exists x. split; [exact H | apply N.eqb_refl].
Qed.

Lemma has_con_spec : forall c l k, has_con c l k = true <-> In (l, k) c.
Proof.
  intros c l k. unfold has_con. rewrite existsb_exists. split.
  - intros [[a b] [H E]]. cbn [fst snd] in E. apply andb_true_iff in E. destruct E as [E1 E2].
    apply N.eqb_eq in E1, E2. subst. exact H.
  - intros H. exists (l, k). split; [exact H|]. cbn [fst snd]. rewrite !N.eqb_refl. reflexivity.
Qed.

(* ---------------- property maps ---------------- *)
Lemma pget_premove_same : forall k ps, pget k (premove k ps) = None.
Proof.
  intros k ps. unfold pget, premove. induction ps as [|[a b] ps IH]; cbn [filter find fst]; [reflexivity|].
  destruct (N.eqb a k) eqn:E; cbn [negb]; [exact IH|].
  cbn [find fst]. rewrite E. exact IH.
Qed.

Lemma pget_premove_other : forall k k' ps, k' <> k -> pget k' (premove k ps) = pget k' ps.
Proof.
  intros k k' ps Hne. unfold pget, premove. induction ps as [|[a b] ps IH]; cbn [filter find fst]; [reflexivity|].
  destruct (N.eqb a k) eqn:E; cbn [negb].
  - apply N.eqb_eq in E. subst a. destruct (N.eqb k k') eqn:E2; [apply N.eqb_eq in E2; congruence|]. exact IH.
  - cbn [find fst]. destruct (N.eqb a k'); [reflexivity | exact IH].
Qed.

Lemma pget_pset_same : forall k v ps, pget k (pset k v ps) = Some v.
Proof. intros. unfold pget, pset. cbn [find fst snd]. rewrite N.eqb_refl. reflexivity. Qed.

Lemma pget_pset_other : forall k k' v ps, k' <> k -> pget k' (pset k v ps) = pget k' ps.
Proof.
  intros k k' v ps Hne. unfold pset. unfold pget at 1. cbn [find fst].
  destruct (N.eqb k k') eqn:E; [apply N.eqb_eq in E; congruence|].
  fold (pget k' (premove k ps)). apply pget_premove_other. exact Hne.
Qed.

(* ---------------- entries a node holds ---------------- *)
Definition only_ok (only : option N) (k : N) : Prop :=
  match only with Some k0 => k = k0 | None => True end.

Lemma In_entries_for : forall c n l only e,
  In e (entries_for c n l only) <->
  exists k v, e = (l, k, v, nid n) /\ In (l, k) c /\ pget k (nprops n) = Some v /\ only_ok only k.
Proof.
  intros c n l only e. unfold entries_for. rewrite in_flat_map. split.
  - intros [[l' k'] [Hc He]].
    destruct (N.eqb l' l && match only with Some k0 => N.eqb k' k0 | None => true end) eqn:E; [|destruct He].
    apply andb_true_iff in E. destruct E as [E1 E2]. apply N.eqb_eq in E1. subst l'.
    destruct (pget k' (nprops n)) as [v|] eqn:P; [|destruct He].
    destruct He as [<-|[]]. exists k', v. repeat split; auto.
    destruct only as [k0|]; cbn; [apply N.eqb_eq; exact E2 | exact I].
  - intros [k [v [-> [Hc [P O]]]]]. exists (l, k). split; [exact Hc|].
    rewrite N.eqb_refl. cbn [andb].
    assert (E : match only with Some k0 => N.eqb k k0 | None => true end = true).
    { destruct only as [k0|]; cbn in O; [subst; apply N.eqb_refl | reflexivity]. }
    rewrite E, P. left. reflexivity.
Qed.

Lemma In_entries_all : forall c n only e,
  In e (entries_all c n only) <->
  exists l k v, e = (l, k, v, nid n) /\ In l (nlabels n) /\ In (l, k) c /\
                pget k (nprops n) = Some v /\ only_ok only k.
Proof.
  intros c n only e. unfold entries_all. rewrite in_flat_map. split.
  - intros [l [Hl He]]. apply In_entries_for in He. destruct He as [k [v [-> H]]].
    exists l, k, v. tauto.
  - intros [l [k [v [-> [Hl H]]]]]. exists l. split; [exact Hl|]. apply In_entries_for.
    exists k, v. tauto.
Qed.

Lemma other_holder_spec : forall i e,
  other_holder i e = true <->
  exists x, In x i /\ e_label x = e_label e /\ e_key x = e_key e /\ e_val x = e_val e /\ e_holder x <> e_holder e.
Proof.
  intros i e. unfold other_holder. rewrite existsb_exists. split.
  - intros [x [Hx E]]. exists x. split; [exact Hx|].
    rewrite !andb_true_iff, negb_true_iff, !N.eqb_eq, N.eqb_neq in E. tauto.
  - intros [x [Hx [A [B [C D]]]]]. exists x. split; [exact Hx|].
    rewrite !andb_true_iff, negb_true_iff, !N.eqb_eq, N.eqb_neq. tauto.
Qed.

(* ---------------- node lists ---------------- *)
Lemma find_node_some : forall id ns n, find_node id ns = Some n -> In n ns /\ nid n = id.
Proof.
  intros id ns n H. unfold find_node in H. apply find_some in H. destruct H as [H E].
  apply N.eqb_eq in E. auto.
Qed.

Lemma find_node_none : forall id ns, find_node id ns = None -> forall n, In n ns -> nid n <> id.
Proof.
  intros id ns H n Hn E. unfold find_node in H. eapply find_none in H; [|exact Hn].
  cbn in H. apply N.eqb_neq in H. congruence.
Qed.

Lemma map_nid_upd : forall n' ns, map nid (upd_node n' ns) = map nid ns.
Proof.
  intros n' ns. unfold upd_node. rewrite map_map. apply map_ext. intros a.
  destruct (N.eqb (nid a) (nid n')) eqn:E; [apply N.eqb_eq in E; congruence | reflexivity].
Qed.

Lemma In_upd_node : forall n' ns m,
  In m (upd_node n' ns) <->
  (m = n' /\ exists n, In n ns /\ nid n = nid n') \/ (In m ns /\ nid m <> nid n').
Proof.
  intros n' ns m. unfold upd_node. rewrite in_map_iff. split.
  - intros [a [E Ha]]. destruct (N.eqb (nid a) (nid n')) eqn:Q.
    + apply N.eqb_eq in Q. left. split; [congruence|]. exists a. auto.
    + apply N.eqb_neq in Q. right. subst. auto.
  - intros [[-> [n [Hn E]]]|[Hm Hne]].
    + exists n. split; [|exact Hn]. apply N.eqb_eq in E. rewrite E. reflexivity.
    + exists m. split; [|exact Hm]. apply N.eqb_neq in Hne. rewrite Hne. reflexivity.
Qed.

Lemma NoDup_nid_unique : forall ns a b, NoDup (map nid ns) -> In a ns -> In b ns -> nid a = nid b -> a = b.
Proof.
  induction ns as [|x ns IH]; intros a b ND Ha Hb E; [destruct Ha|].
  cbn [map] in ND. inversion ND as [|? ? Hnin ND']; subst.
  destruct Ha as [<-|Ha]; destruct Hb as [<-|Hb]; auto.
  - exfalso. apply Hnin. rewrite E. apply in_map. exact Hb.
  - exfalso. apply Hnin. rewrite <- E. apply in_map. exact Ha.
Qed.

(* ---------------- the invariant ---------------- *)
Definition holds (c : list (N * N)) (ns : list node) (e : entry) : Prop :=
  exists n, In n ns /\ In e (entries_all c n None).

Definition uniq (i : list entry) : Prop :=
  forall e1 e2, In e1 i -> In e2 i ->
    e_label e1 = e_label e2 -> e_key e1 = e_key e2 -> e_val e1 = e_val e2 -> e_holder e1 = e_holder e2.

Record Inv (s : state) : Prop := {
  inv_nodup : NoDup (map nid (nodes s));
  inv_next : forall n, In n (nodes s) -> nid n < next s;
  inv_exact : forall e, In e (idx s) <-> holds (cons s) (nodes s) e;
  inv_uniq : uniq (idx s) }.

Lemma entries_all_holder : forall c n only e, In e (entries_all c n only) -> e_holder e = nid n.
Proof.
  intros c n only e H. apply In_entries_all in H. destruct H as [l [k [v [-> _]]]]. reflexivity.
Qed.

Lemma entries_all_only_sub : forall c n k e, In e (entries_all c n (Some k)) -> In e (entries_all c n None).
Proof.
  intros c n k e H. apply In_entries_all in H. apply In_entries_all.
  destruct H as [l [k' [v [-> [A [B [C _]]]]]]]. exists l, k', v. cbn. tauto.
Qed.

(* replacing node n by n' (same id), un-holding R and holding A *)
Lemma upd_inv : forall s n n' A R,
  Inv s -> In n (nodes s) -> nid n' = nid n ->
  (forall e, In e (entries_all (cons s) n' None) <->
             In e A \/ (In e (entries_all (cons s) n None) /\ ~ In e R)) ->
  (forall e, In e R -> e_holder e = nid n) ->
  (forall e, In e A -> other_holder (idx s) e = false) ->
  Inv (with_graph s (upd_node n' (nodes s)) (insert_all A (remove_all R (idx s)))).
Proof.
  intros s n n' A R [ND NX EX UQ] Hn Hid H1 H2 H3.
  assert (Hn' : In n' (upd_node n' (nodes s))).
  { apply In_upd_node. left. split; [reflexivity|]. exists n. auto. }
  constructor; cbn [with_graph nodes cons idx next].
  - rewrite map_nid_upd. exact ND.
  - intros m Hm. apply In_upd_node in Hm. destruct Hm as [[-> _]|[Hm _]]; [rewrite Hid|]; auto.
  - intros e. rewrite In_insert_all, In_remove_all. split.
    + intros [HA|[Hi HR]].
      * exists n'. split; [exact Hn'|]. apply H1. left. exact HA.
      * apply EX in Hi. destruct Hi as [m [Hm He]].
        destruct (N.eq_dec (nid m) (nid n)) as [E|E].
        -- assert (m = n) by (eapply NoDup_nid_unique; eauto). subst m.
           exists n'. split; [exact Hn'|]. apply H1. right. auto.
        -- exists m. split; [|exact He]. apply In_upd_node. right. split; [exact Hm | congruence].
    + intros [m [Hm He]]. apply In_upd_node in Hm. destruct Hm as [[-> _]|[Hm Hne]].
      * apply H1 in He. destruct He as [HA|[He HR]]; [left; exact HA|].
        right. split; [|exact HR]. apply EX. exists n. auto.
      * right. split; [apply EX; exists m; auto|].
        intros HR. apply H2 in HR. apply entries_all_holder in He. congruence.
  - intros e1 e2 I1 I2 El Ek Ev.
    apply In_insert_all in I1. apply In_insert_all in I2.
    assert (HAh : forall e, In e A -> e_holder e = nid n').
    { intros e HA. eapply entries_all_holder. apply H1. left. exact HA. }
    assert (HAo : forall a x, In a A -> In x (remove_all R (idx s)) ->
                  e_label x = e_label a -> e_key x = e_key a -> e_val x = e_val a -> e_holder x = e_holder a).
    { intros a x HA Hx E1 E2 E3. apply In_remove_all in Hx. destruct Hx as [Hx _].
      specialize (H3 a HA). destruct (N.eq_dec (e_holder x) (e_holder a)) as [E|E]; [exact E|].
      exfalso. assert (other_holder (idx s) a = true); [|congruence].
      apply other_holder_spec. exists x. auto. }
    destruct I1 as [I1|I1]; destruct I2 as [I2|I2].
    + rewrite (HAh _ I1), (HAh _ I2). reflexivity.
    + symmetry. apply HAo; auto.
    + apply HAo; auto.
    + apply In_remove_all in I1. apply In_remove_all in I2. apply UQ; tauto.
Qed.

(* ---------------- set / remove property ---------------- *)
Lemma set_prop_inv : forall s id k v, Inv s -> Inv (fst (set_prop s id k v)).
Proof.
  intros s id k v HI. unfold set_prop.
  destruct (find_node id (nodes s)) as [n|] eqn:F; [|exact HI].
  apply find_node_some in F. destruct F as [Hn Hid].
  set (n' := {| nid := nid n; nlabels := nlabels n;
                nprops := match v with Some x => pset k x (nprops n) | None => premove k (nprops n) end |}).
  destruct (existsb (other_holder (idx s)) (entries_all (cons s) n' (Some k))) eqn:OH; [exact HI|].
  cbn [fst]. apply upd_inv with (n := n); auto.
  - intros e. rewrite !In_entries_all. cbn [nid nlabels nprops n'].
    assert (PG : forall k', k' <> k ->
              pget k' (match v with Some x => pset k x (nprops n) | None => premove k (nprops n) end)
              = pget k' (nprops n)).
    { intros k' Hne. destruct v; [apply pget_pset_other | apply pget_premove_other]; exact Hne. }
    split.
    + intros [l [k' [w [-> [Hl [Hc [P _]]]]]]].
      destruct (N.eq_dec k' k) as [->|Hne].
      * left. exists l, k, w. cbn. tauto.
      * right. split.
        -- exists l, k', w. rewrite PG in P by exact Hne. cbn. tauto.
        -- intros [l2 [k2 [w2 [E [_ [_ [_ O]]]]]]]. cbn in O. inversion E. congruence.
    + intros [[l [k' [w [-> [Hl [Hc [P O]]]]]]] | [[l [k' [w [-> [Hl [Hc [P _]]]]]]] HR]].
      * exists l, k', w. cbn. tauto.
      * destruct (N.eq_dec k' k) as [->|Hne].
        -- exfalso. apply HR. exists l, k, w. cbn. tauto.
        -- exists l, k', w. rewrite PG by exact Hne. cbn. tauto.
  - intros e He. eapply entries_all_holder. exact He.
  - intros e He. destruct (other_holder (idx s) e) eqn:Q; [|reflexivity].
    exfalso. assert (existsb (other_holder (idx s)) (entries_all (cons s) n' (Some k)) = true); [|congruence].
    apply existsb_exists. exists e. auto.
Qed.

Lemma remove_prop_inv : forall s id k, Inv s -> Inv (fst (remove_prop s id k)).
Proof.
  intros s id k HI. unfold remove_prop.
  destruct (find_node id (nodes s)) as [n|] eqn:F; [|exact HI].
  apply find_node_some in F. destruct F as [Hn Hid]. cbn [fst].
  set (n' := {| nid := nid n; nlabels := nlabels n; nprops := premove k (nprops n) |}).
  change (remove_all (entries_all (cons s) n (Some k)) (idx s))
    with (insert_all [] (remove_all (entries_all (cons s) n (Some k)) (idx s))).
  apply upd_inv with (n := n); auto.
  - intros e. rewrite !In_entries_all. cbn [nid nlabels nprops n' In]. split.
    + intros [l [k' [w [-> [Hl [Hc [P _]]]]]]]. right.
      destruct (N.eq_dec k' k) as [->|Hne]; [rewrite pget_premove_same in P; discriminate|].
      rewrite pget_premove_other in P by exact Hne. split.
      * exists l, k', w. cbn. tauto.
      * intros [l2 [k2 [w2 [E [_ [_ [_ O]]]]]]]. cbn in O. inversion E. congruence.
    + intros [[]|[[l [k' [w [-> [Hl [Hc [P _]]]]]]] HR]].
      destruct (N.eq_dec k' k) as [->|Hne].
      * exfalso. apply HR. exists l, k, w. cbn. tauto.
      * exists l, k', w. rewrite pget_premove_other by exact Hne. cbn. tauto.
  - intros e He. eapply entries_all_holder. exact He.
  - intros e [].
Qed.

(* ---------------- labels ---------------- *)
Lemma add_label_inv : forall s id l, Inv s -> Inv (fst (add_label s id l)).
Proof.
  intros s id l HI. unfold add_label.
  destruct (find_node id (nodes s)) as [n|] eqn:F; [|exact HI].
  apply find_node_some in F. destruct F as [Hn Hid].
  destruct (existsb (other_holder (idx s)) (entries_for (cons s) n l None)) eqn:OH; [exact HI|].
  cbn [fst].
  set (n' := {| nid := nid n; nlabels := if memN l (nlabels n) then nlabels n else l :: nlabels n;
                nprops := nprops n |}).
  rewrite <- (remove_all_nil (idx s)) at 1. apply upd_inv with (n := n); auto.
  - intros e. rewrite !In_entries_all, In_entries_for. cbn [nid nlabels nprops n' In].
    assert (HL : forall x, In x (if memN l (nlabels n) then nlabels n else l :: nlabels n) <-> x = l \/ In x (nlabels n)).
    { intros x. destruct (memN l (nlabels n)) eqn:M.
      - apply memN_spec in M. split; [tauto | intros [->|H]; auto].
      - cbn [In]. split; [intros [<-|H]; auto | intros [->|H]; auto]. }
    split.
    + intros [l' [k' [w [-> [Hl [Hc [P _]]]]]]]. apply HL in Hl. destruct Hl as [->|Hl].
      * left. exists k', w. cbn. tauto.
      * right. split; [|tauto]. exists l', k', w. cbn. tauto.
    + intros [[k' [w [-> [Hc [P _]]]]] | [[l' [k' [w [-> [Hl [Hc [P _]]]]]]] _]].
      * exists l, k', w. rewrite HL. cbn. tauto.
      * exists l', k', w. rewrite HL. cbn. tauto.
  - intros e [].
  - intros e He. destruct (other_holder (idx s) e) eqn:Q; [|reflexivity].
    exfalso. assert (existsb (other_holder (idx s)) (entries_for (cons s) n l None) = true); [|congruence].
    apply existsb_exists. exists e. auto.
Qed.

Lemma remove_label_inv : forall s id l, Inv s -> Inv (fst (remove_label s id l)).
Proof.
  intros s id l HI. unfold remove_label.
  destruct (find_node id (nodes s)) as [n|] eqn:F; [|exact HI].
  apply find_node_some in F. destruct F as [Hn Hid].
  destruct (memN l (nlabels n)) eqn:M; [|exact HI]. cbn [fst].
  set (n' := {| nid := nid n; nlabels := filter (fun x => negb (N.eqb x l)) (nlabels n); nprops := nprops n |}).
  change (remove_all (entries_for (cons s) n l None) (idx s))
    with (insert_all [] (remove_all (entries_for (cons s) n l None) (idx s))).
  apply upd_inv with (n := n); auto.
  - intros e. rewrite !In_entries_all, In_entries_for. cbn [nid nlabels nprops n' In]. split.
    + intros [l' [k' [w [-> [Hl [Hc [P _]]]]]]]. apply filter_In in Hl. destruct Hl as [Hl Hne].
      apply negb_true_iff, N.eqb_neq in Hne. right. split.
      * exists l', k', w. cbn. tauto.
      * intros [k2 [w2 [E _]]]. inversion E. congruence.
    + intros [[]|[[l' [k' [w [-> [Hl [Hc [P _]]]]]]] HR]].
      exists l', k', w. split; [reflexivity|]. split; [|cbn; tauto].
      apply filter_In. split; [exact Hl|]. apply negb_true_iff, N.eqb_neq. intros ->.
      apply HR. exists k', w. cbn. tauto.
  - intros e He. apply In_entries_for in He. destruct He as [k' [w [-> _]]]. reflexivity.
  - intros e [].
Qed.

(* ---------------- delete ---------------- *)
Lemma NoDup_map_filter : forall (f : node -> bool) ns, NoDup (map nid ns) -> NoDup (map nid (filter f ns)).
Proof.
  intros f ns. induction ns as [|x r IH]; intros ND; cbn [filter map]; [constructor|].
  cbn [map] in ND. inversion ND as [|? ? Hnin ND']; subst.
  destruct (f x); [|auto]. cbn [map]. constructor; [|auto].
  intros H. apply Hnin. apply in_map_iff in H. destruct H as [y [E Hy]]. apply filter_In in Hy.
  apply in_map_iff. exists y. tauto.
Qed.

Lemma delete_inv : forall s id, Inv s -> Inv (fst (delete s id)).
Proof.
  intros s id HI. unfold delete.
  destruct (find_node id (nodes s)) as [n|] eqn:F; [|exact HI].
  apply find_node_some in F. destruct F as [Hn Hid]. cbn [fst].
  destruct HI as [ND NX EX UQ]. constructor; cbn [with_graph nodes cons idx next].
  - apply NoDup_map_filter. exact ND.
  - intros m Hm. apply filter_In in Hm. apply NX. tauto.
  - intros e. rewrite In_remove_all. split.
    + intros [Hi HR]. apply EX in Hi. destruct Hi as [m [Hm He]]. exists m. split; [|exact He].
      apply filter_In. split; [exact Hm|]. apply negb_true_iff, N.eqb_neq. intros E.
      assert (m = n) by (eapply NoDup_nid_unique; eauto; congruence). subst m. contradiction.
    + intros [m [Hm He]]. apply filter_In in Hm. destruct Hm as [Hm Hne].
      apply negb_true_iff, N.eqb_neq in Hne. split; [apply EX; exists m; auto|].
      intros HR. apply entries_all_holder in HR. apply entries_all_holder in He. congruence.
  - intros e1 e2 I1 I2. apply In_remove_all in I1. apply In_remove_all in I2. apply UQ; tauto.
Qed.

(* ---------------- create node ---------------- *)
Lemma fresh_inv : forall s ls, Inv s ->
  Inv {| nodes := {| nid := next s; nlabels := ls; nprops := [] |} :: nodes s;
         cons := cons s; idx := idx s; next := N.succ (next s) |}.
Proof.
  intros s ls [ND NX EX UQ]. constructor; cbn [nodes cons idx next].
  - cbn [map nid]. constructor; [|exact ND]. intros H. apply in_map_iff in H.
    destruct H as [m [E Hm]]. apply NX in Hm. lia.
  - intros m [<-|Hm]; [cbn [nid]; lia | apply NX in Hm; lia].
  - intros e. rewrite EX. split.
    + intros [m [Hm He]]. exists m. split; [right; exact Hm | exact He].
    + intros [m [[<-|Hm] He]].
      * apply In_entries_all in He. destruct He as [l [k [v [_ [_ [_ [P _]]]]]]]. cbn in P. discriminate.
      * exists m. auto.
  - exact UQ.
Qed.

Lemma set_props_inv : forall ps s id, Inv s -> Inv (fst (set_props s id ps)).
Proof.
  induction ps as [|[k v] r IH]; intros s id HI; cbn [set_props]; [exact HI|].
  pose proof (set_prop_inv s id k (Some v) HI) as H1.
  destruct (set_prop s id k (Some v)) as [s' e]. cbn [fst] in H1.
  destruct e; [apply IH; exact H1 | |]; cbn [fst]; apply delete_inv; exact HI.
Qed.

Lemma create_node_inv : forall s ls ps, Inv s -> Inv (fst (create_node s ls ps)).
Proof. intros s ls ps HI. unfold create_node. apply set_props_inv. apply fresh_inv. exact HI. Qed.

(* ---------------- create constraint ---------------- *)
Definition backfill (s : state) (l k : N) : list entry :=
  flat_map (fun n => if memN l (nlabels n)
                     then match pget k (nprops n) with Some v => [(l, k, v, nid n)] | None => [] end
                     else []) (nodes s).

Lemma In_backfill : forall s l k e,
  In e (backfill s l k) <->
  exists n v, In n (nodes s) /\ In l (nlabels n) /\ pget k (nprops n) = Some v /\ e = (l, k, v, nid n).
Proof.
  intros s l k e. unfold backfill. rewrite in_flat_map. split.
  - intros [n [Hn He]]. destruct (memN l (nlabels n)) eqn:M; [|destruct He].
    apply memN_spec in M. destruct (pget k (nprops n)) as [v|] eqn:P; [|destruct He].
    destruct He as [<-|[]]. exists n, v. auto.
  - intros [n [v [Hn [Hl [P ->]]]]]. exists n. split; [exact Hn|].
    apply memN_spec in Hl. rewrite Hl, P. left. reflexivity.
Qed.

Lemma has_dup_false : forall vs, has_dup vs = false -> NoDup vs.
Proof.
  induction vs as [|v r IH]; intros H; [constructor|]. cbn [has_dup] in H.
  apply orb_false_iff in H. destruct H as [M D]. constructor; [|auto].
  intros Hin. apply memN_spec in Hin. congruence.
Qed.

Lemma NoDup_map_inj : forall (A B : Type) (f : A -> B) l a b,
  NoDup (map f l) -> In a l -> In b l -> f a = f b -> a = b.
Proof.
  intros A B f. induction l as [|x l IH]; intros a b ND Ha Hb E; [destruct Ha|].
  cbn [map] in ND. inversion ND as [|? ? Hnin ND']; subst.
  destruct Ha as [<-|Ha]; destruct Hb as [<-|Hb]; auto.
  - exfalso. apply Hnin. rewrite E. apply in_map. exact Hb.
  - exfalso. apply Hnin. rewrite <- E. apply in_map. exact Ha.
Qed.

Lemma create_constraint_inv : forall s l k, Inv s -> Inv (fst (create_constraint s l k)).
Proof.
  intros s l k HI. unfold create_constraint. fold (backfill s l k).
  destruct (has_dup (map e_val (backfill s l k))) eqn:D; [exact HI|]. cbn [fst].
  apply has_dup_false in D. destruct HI as [ND NX EX UQ].
  set (c' := if has_con (cons s) l k then cons s else (l, k) :: cons s).
  assert (HC : forall p, In p c' <-> p = (l, k) \/ In p (cons s)).
  { intros p. unfold c'. destruct (has_con (cons s) l k) eqn:HCn.
    - apply has_con_spec in HCn. split; [tauto | intros [->|H]; auto].
    - cbn [In]. split; [intros [<-|H]; auto | intros [->|H]; auto]. }
  assert (HB : forall e, In e (backfill s l k) <-> holds c' (nodes s) e /\ e_label e = l /\ e_key e = k).
  { intros e. rewrite In_backfill. split.
    - intros [n [v [Hn [Hl [P ->]]]]]. split; [|auto]. exists n. split; [exact Hn|].
      apply In_entries_all. exists l, k, v. cbn. rewrite HC. tauto.
    - intros [[n [Hn He]] [E1 E2]]. apply In_entries_all in He.
      destruct He as [l' [k' [v [-> [Hl [_ [P _]]]]]]]. cbn in E1, E2. subst. exists n, v. auto. }
  constructor; cbn [nodes cons idx next]; auto.
  - intros e. rewrite In_insert_all, HB, EX. split.
    + intros [[H _]|[n [Hn He]]]; [exact H|]. exists n. split; [exact Hn|].
      apply In_entries_all in He. apply In_entries_all.
      destruct He as [l' [k' [v [-> [Hl [Hc [P O]]]]]]]. exists l', k', v. rewrite HC. tauto.
    + intros [n [Hn He]]. pose proof He as He0. apply In_entries_all in He.
      destruct He as [l' [k' [v [-> [Hl [Hc [P O]]]]]]]. apply HC in Hc. destruct Hc as [E|Hc].
      * inversion E; subst. left. split; [exists n; auto | auto].
      * right. exists n. split; [exact Hn|]. apply In_entries_all. exists l', k', v. tauto.
  - intros e1 e2 I1 I2 El Ek Ev. apply In_insert_all in I1. apply In_insert_all in I2.
    (* an old entry for (l,k) is also a backfill entry *)
    assert (OLD : forall e, In e (idx s) -> e_label e = l -> e_key e = k -> In e (backfill s l k)).
    { intros e Hi E1 E2. apply HB. split; [|auto]. apply EX in Hi. destruct Hi as [n [Hn He]].
      exists n. split; [exact Hn|]. apply In_entries_all in He. apply In_entries_all.
      destruct He as [l' [k' [v [-> [Hl [Hc [P O]]]]]]]. exists l', k', v. rewrite HC. tauto. }
    assert (BB : forall a b, In a (backfill s l k) -> In b (backfill s l k) -> e_val a = e_val b -> a = b).
    { intros a b Ha Hb E. eapply NoDup_map_inj; eauto. }
    assert (LK : forall e, In e (backfill s l k) -> e_label e = l /\ e_key e = k).
    { intros e He. apply HB in He. tauto. }
    destruct I1 as [I1|I1]; destruct I2 as [I2|I2].
    + rewrite (BB _ _ I1 I2 Ev). reflexivity.
    + destruct (LK _ I1) as [A B]. rewrite (BB e1 e2); auto. apply OLD; congruence.
    + destruct (LK _ I2) as [A B]. rewrite (BB e1 e2); auto. apply OLD; congruence.
    + apply UQ; auto.
Qed.

(* ---------------- every operation, every history ---------------- *)
Lemma empty_inv : Inv empty.
Proof.
  constructor; cbn.
  - constructor.
  - intros n [].
  - intros e. split; [intros [] | intros [n [[] _]]].
  - intros e1 e2 [].
Qed.

Lemma step_inv : forall s o, Inv s -> Inv (fst (step s o)).
Proof.
  intros s o HI. destruct o; cbn [step].
  - apply create_constraint_inv; exact HI.
  - apply create_node_inv; exact HI.
  - apply set_prop_inv; exact HI.
  - apply remove_prop_inv; exact HI.
  - apply add_label_inv; exact HI.
  - apply remove_label_inv; exact HI.
  - apply delete_inv; exact HI.
Qed.

Lemma run_from_inv : forall ops s, Inv s -> Inv (fold_left (fun s o => fst (step s o)) ops s).
Proof.
  induction ops as [|o r IH]; intros s HI; cbn [fold_left]; [exact HI|].
  apply IH. apply step_inv. exact HI.
Qed.

Lemma run_inv : forall ops, Inv (run ops).
Proof. intros ops. apply run_from_inv. apply empty_inv. Qed.

(* ---------------- what the invariant says ---------------- *)
(* the index is exactly the live holders *)
Lemma index_exact : forall s, Inv s -> forall l k v h,
  In (l, k, v, h) (idx s) <->
  In (l, k) (cons s) /\ exists n, In n (nodes s) /\ nid n = h /\ In l (nlabels n) /\ pget k (nprops n) = Some v.
Proof.
  intros s HI l k v h. rewrite (inv_exact s HI). unfold holds. split.
  - intros [n [Hn He]]. apply In_entries_all in He.
    destruct He as [l' [k' [v' [E [Hl [Hc [P _]]]]]]]. inversion E; subst. split; [exact Hc|]. exists n. auto.
  - intros [Hc [n [Hn [<- [Hl P]]]]]. exists n. split; [exact Hn|]. apply In_entries_all.
    exists l, k, v. cbn. auto.
Qed.

(* no two live nodes of a constrained label hold equal values *)
Lemma no_dups : forall s, Inv s -> forall l k v n1 n2,
  In (l, k) (cons s) -> In n1 (nodes s) -> In n2 (nodes s) ->
  In l (nlabels n1) -> In l (nlabels n2) ->
  pget k (nprops n1) = Some v -> pget k (nprops n2) = Some v -> n1 = n2.
Proof.
  intros s HI l k v n1 n2 Hc H1 H2 L1 L2 P1 P2.
  assert (I1 : In (l, k, v, nid n1) (idx s)) by (apply index_exact; auto; split; auto; exists n1; auto).
  assert (I2 : In (l, k, v, nid n2) (idx s)) by (apply index_exact; auto; split; auto; exists n2; auto).
  pose proof (inv_uniq s HI _ _ I1 I2 eq_refl eq_refl eq_refl) as E. cbn in E.
  eapply NoDup_nid_unique; eauto. apply (inv_nodup s HI).
Qed.

(* ---------------- accept / refuse exactness ---------------- *)
(* another live node of label l holds v for key k *)
Definition other_holds (s : state) (id l k v : N) : Prop :=
  exists m, In m (nodes s) /\ nid m <> id /\ In l (nlabels m) /\ pget k (nprops m) = Some v.

Lemma check_iff : forall s A, Inv s ->
  (existsb (other_holder (idx s)) A = true <->
   exists l k v h, In (l, k, v, h) A /\ In (l, k) (cons s) /\ other_holds s h l k v).
Proof.
  intros s A HI. rewrite existsb_exists. split.
  - intros [e [He Ho]]. apply other_holder_spec in Ho.
    destruct Ho as [[[[l2 k2] v2] h2] [Hx [E1 [E2 [E3 E4]]]]].
    destruct e as [[[l k] v] h]. cbn in E1, E2, E3, E4. subst.
    apply (index_exact s HI) in Hx. destruct Hx as [Hc [m [Hm [Hid [Hl P]]]]].
    exists l, k, v, h. split; [exact He|]. split; [exact Hc|]. exists m. subst h2. auto.
  - intros [l [k [v [h [HA [Hc [m [Hm [Hne [Hl P]]]]]]]]]]. exists (l, k, v, h). split; [exact HA|].
    apply other_holder_spec. exists (l, k, v, nid m). split.
    + apply (index_exact s HI). split; [exact Hc|]. exists m. auto.
    + cbn. auto.
Qed.

Lemma set_prop_result : forall s id k v, snd (set_prop s id k v) = ROk \/ snd (set_prop s id k v) = RViolation.
Proof.
  intros. unfold set_prop. destruct (find_node id (nodes s)); [|left; reflexivity].
  destruct (existsb _ _); [right | left]; reflexivity.
Qed.

Lemma set_prop_refuse_iff : forall s id k x n, Inv s -> find_node id (nodes s) = Some n ->
  (snd (set_prop s id k (Some x)) = RViolation <->
   exists l, In l (nlabels n) /\ In (l, k) (cons s) /\ other_holds s id l k x).
Proof.
  intros s id k x n HI F. unfold set_prop. rewrite F.
  pose proof (find_node_some _ _ _ F) as [Hn Hid].
  set (n' := {| nid := nid n; nlabels := nlabels n; nprops := pset k x (nprops n) |}).
  pose proof (check_iff s (entries_all (cons s) n' (Some k)) HI) as CI.
  destruct (existsb (other_holder (idx s)) (entries_all (cons s) n' (Some k))) eqn:Q; cbn [snd].
  - split; [intros _ | reflexivity]. destruct CI as [CI _]. destruct (CI eq_refl) as [l [k' [v [h [HA [Hc Ho]]]]]].
    apply In_entries_all in HA. destruct HA as [l2 [k2 [v2 [E [Hl [_ [P O]]]]]]]. cbn in O, Hl, P. inversion E; subst.
    rewrite pget_pset_same in P. inversion P; subst. exists l2. auto.
  - split; [discriminate|]. intros [l [Hl [Hc Ho]]]. exfalso.
    assert (E : false = true); [apply CI | discriminate E].
    exists l, k, x, (nid n). split; [|rewrite Hid; auto].
    apply In_entries_all. exists l, k, x. cbn. rewrite pget_pset_same. auto.
Qed.

Lemma set_null_accepted : forall s id k, snd (set_prop s id k None) = ROk.
Proof.
  intros. unfold set_prop. destruct (find_node id (nodes s)) as [n|]; [|reflexivity].
  assert (E : entries_all (cons s) {| nid := nid n; nlabels := nlabels n; nprops := premove k (nprops n) |} (Some k) = []).
  { destruct (entries_all _ _ _) as [|e r] eqn:Q; [reflexivity|]. exfalso.
    assert (He : In e (e :: r)) by (left; reflexivity). rewrite <- Q in He.
    apply In_entries_all in He. destruct He as [l [k' [v [_ [_ [_ [P O]]]]]]]. cbn in P, O. subst.
    rewrite pget_premove_same in P. discriminate. }
  rewrite E. reflexivity.
Qed.

Lemma add_label_refuse_iff : forall s id l n, Inv s -> find_node id (nodes s) = Some n ->
  (snd (add_label s id l) = RViolation <->
   exists k v, In (l, k) (cons s) /\ pget k (nprops n) = Some v /\ other_holds s id l k v).
Proof.
  intros s id l n HI F. unfold add_label. rewrite F.
  pose proof (find_node_some _ _ _ F) as [Hn Hid].
  pose proof (check_iff s (entries_for (cons s) n l None) HI) as CI.
  destruct (existsb (other_holder (idx s)) (entries_for (cons s) n l None)) eqn:Q; cbn [snd].
  - split; [intros _ | reflexivity]. destruct CI as [CI _]. destruct (CI eq_refl) as [l' [k [v [h [HA [Hc Ho]]]]]].
    apply In_entries_for in HA. destruct HA as [k2 [v2 [E [_ [P _]]]]]. inversion E; subst. exists k2, v2. auto.
  - split; [discriminate|]. intros [k [v [Hc [P Ho]]]]. exfalso.
    assert (E : false = true); [apply CI | discriminate E].
    exists l, k, v, (nid n). split; [|rewrite Hid; auto]. apply In_entries_for. exists k, v. cbn. auto.
Qed.

Lemma create_constraint_refuse_iff : forall s l k, Inv s ->
  (snd (create_constraint s l k) = RRefused <->
   exists n1 n2 v, In n1 (nodes s) /\ In n2 (nodes s) /\ n1 <> n2 /\
                   In l (nlabels n1) /\ In l (nlabels n2) /\
                   pget k (nprops n1) = Some v /\ pget k (nprops n2) = Some v).
Proof.
  intros s l k HI. unfold create_constraint. fold (backfill s l k).
  destruct (has_dup (map e_val (backfill s l k))) eqn:D; cbn [snd].
  - split; [intros _ | reflexivity].
    (* a repeated value in the backfill list comes from two different nodes *)
    assert (G : forall ns, NoDup (map nid ns) -> (forall n, In n ns -> In n (nodes s)) ->
              has_dup (map e_val (flat_map (fun n => if memN l (nlabels n)
                         then match pget k (nprops n) with Some v => [(l, k, v, nid n)] | None => [] end
                         else []) ns)) = true ->
              exists n1 n2 v, In n1 ns /\ In n2 ns /\ n1 <> n2 /\ In l (nlabels n1) /\ In l (nlabels n2) /\
                              pget k (nprops n1) = Some v /\ pget k (nprops n2) = Some v).
    { induction ns as [|a r IH]; intros ND Sub H; cbn [flat_map map has_dup] in H; [discriminate|].
      cbn [map] in ND. inversion ND as [|? ? Hnin ND']; subst.
      assert (REC : has_dup (map e_val (flat_map (fun n => if memN l (nlabels n)
                         then match pget k (nprops n) with Some v => [(l, k, v, nid n)] | None => [] end
                         else []) r)) = true ->
                    exists n1 n2 v, In n1 (a :: r) /\ In n2 (a :: r) /\ n1 <> n2 /\ In l (nlabels n1) /\
                       In l (nlabels n2) /\ pget k (nprops n1) = Some v /\ pget k (nprops n2) = Some v).
      { intros H'. destruct (IH ND' (fun n Hn => Sub n (or_intror Hn)) H') as [n1 [n2 [v [A [B C]]]]].
        exists n1, n2, v. cbn [In]. tauto. }
      destruct (memN l (nlabels a)) eqn:M; [|cbn [app] in H; auto].
      destruct (pget k (nprops a)) as [v|] eqn:P; [|cbn [app] in H; auto].
      cbn [app map has_dup e_val] in H. apply orb_true_iff in H. destruct H as [H|H]; [|auto].
      apply memN_spec in H. apply in_map_iff in H. destruct H as [e [Ev He]].
      apply in_flat_map in He. destruct He as [b [Hb He]].
      destruct (memN l (nlabels b)) eqn:Mb; [|destruct He].
      destruct (pget k (nprops b)) as [w|] eqn:Pb; [|destruct He].
      destruct He as [<-|[]]. cbn in Ev. subst w. apply memN_spec in M, Mb.
      exists a, b, v. cbn [In]. repeat split; auto.
      intros ->. apply Hnin. apply in_map. exact Hb. }
    unfold backfill in D. destruct (G (nodes s) (inv_nodup s HI) (fun n H => H) D) as [n1 [n2 [v H]]].
    exists n1, n2, v. tauto.
  - split; [discriminate|]. intros [n1 [n2 [v [H1 [H2 [Hne [L1 [L2 [P1 P2]]]]]]]]]. exfalso.
    apply has_dup_false in D. apply Hne.
    assert (I1 : In (l, k, v, nid n1) (backfill s l k)) by (apply In_backfill; exists n1, v; auto).
    assert (I2 : In (l, k, v, nid n2) (backfill s l k)) by (apply In_backfill; exists n2, v; auto).
    pose proof (NoDup_map_inj _ _ e_val _ _ _ D I1 I2 eq_refl) as E. inversion E.
    eapply NoDup_nid_unique; eauto. apply (inv_nodup s HI).
Qed.

(* ---------------- create node: exactness ---------------- *)
Lemma find_node_upd : forall n' ns n, find_node (nid n') ns = Some n -> find_node (nid n') (upd_node n' ns) = Some n'.
Proof.
  intros n' ns n. unfold find_node, upd_node. induction ns as [|a r IH]; intros F; cbn [find map] in *; [discriminate|].
  destruct (N.eqb (nid a) (nid n')) eqn:E.
  - cbn. rewrite N.eqb_refl. reflexivity.
  - rewrite E. apply IH. exact F.
Qed.

Lemma set_props_result : forall ps s id, snd (set_props s id ps) = ROk \/ snd (set_props s id ps) = RViolation.
Proof.
  induction ps as [|[k v] r IH]; intros s id; cbn [set_props]; [left; reflexivity|].
  pose proof (set_prop_result s id k (Some v)) as H.
  destruct (set_prop s id k (Some v)) as [s' e]. cbn [snd] in H.
  destruct H as [->| ->]; [apply IH | right; reflexivity].
Qed.

Lemma set_props_refuse_iff : forall ps s id n, Inv s -> find_node id (nodes s) = Some n ->
  (snd (set_props s id ps) = RViolation <->
   exists k v, In (k, v) ps /\ exists l, In l (nlabels n) /\ In (l, k) (cons s) /\ other_holds s id l k v).
Proof.
  induction ps as [|[k v] r IH]; intros s id n HI F; cbn [set_props].
  - cbn [snd In]. split; [discriminate | intros [? [? [[] _]]]].
  - pose proof (set_prop_refuse_iff s id k v n HI F) as RI.
    pose proof (set_prop_result s id k (Some v)) as RR.
    pose proof (set_prop_inv s id k (Some v) HI) as HI'.
    (* the state after an accepted write: same constraints, same other nodes, same labels on id *)
    assert (FR : snd (set_prop s id k (Some v)) = ROk ->
                 let s' := fst (set_prop s id k (Some v)) in
                 cons s' = cons s /\
                 (exists n', find_node id (nodes s') = Some n' /\ nlabels n' = nlabels n) /\
                 (forall l k v, other_holds s' id l k v <-> other_holds s id l k v)).
    { unfold set_prop. rewrite F. pose proof (find_node_some _ _ _ F) as [Hn Hid].
      destruct (existsb _ _); cbn [snd fst]; [discriminate|]. intros _. cbn [with_graph cons nodes].
      set (n' := {| nid := nid n; nlabels := nlabels n; nprops := pset k v (nprops n) |}).
      split; [reflexivity|]. split.
      - exists n'. split; [|reflexivity]. subst id. exact (find_node_upd n' (nodes s) n F).
      - intros l0 k0 v0. unfold other_holds. cbn [nodes]. split.
        + intros [m [Hm [Hne R]]]. apply In_upd_node in Hm. destruct Hm as [[-> _]|[Hm _]].
          * unfold n' in Hne. cbn [nid] in Hne. congruence.
          * exists m. auto.
        + intros [m [Hm [Hne R]]]. exists m. split; [|auto]. apply In_upd_node. right.
          split; [exact Hm|]. unfold n'. cbn [nid]. congruence. }
    destruct (set_prop s id k (Some v)) as [s' e] eqn:SP. cbn [snd fst] in *.
    destruct RR as [->| ->].
    + destruct (FR eq_refl) as [C [[n' [F' L']] OH]].
      rewrite (IH s' id n' HI' F'). rewrite L', C. split.
      * intros [k0 [v0 [Hin [l [Hl [Hc Ho]]]]]]. exists k0, v0. split; [right; exact Hin|].
        exists l. rewrite <- OH. auto.
      * intros [k0 [v0 [[E|Hin] [l [Hl [Hc Ho]]]]]].
        -- inversion E; subst. exfalso. assert (ROk = RViolation); [|discriminate]. apply RI. exists l. auto.
        -- exists k0, v0. split; [exact Hin|]. exists l. rewrite OH. auto.
    + cbn [snd]. split; [intros _ | reflexivity]. destruct RI as [RI _]. destruct (RI eq_refl) as [l H].
      exists k, v. split; [left; reflexivity|]. exists l. exact H.
Qed.

Lemma create_node_refuse_iff : forall s ls ps, Inv s ->
  (snd (create_node s ls ps) = RViolation <->
   exists k v l m, In (k, v) ps /\ In l ls /\ In (l, k) (cons s) /\
                   In m (nodes s) /\ In l (nlabels m) /\ pget k (nprops m) = Some v).
Proof.
  intros s ls ps HI. unfold create_node.
  set (s0 := {| nodes := {| nid := next s; nlabels := ls; nprops := [] |} :: nodes s;
                cons := cons s; idx := idx s; next := N.succ (next s) |}).
  assert (F : find_node (next s) (nodes s0) = Some {| nid := next s; nlabels := ls; nprops := [] |}).
  { unfold find_node, s0. cbn [nodes find nid]. rewrite N.eqb_refl. reflexivity. }
  rewrite (set_props_refuse_iff ps s0 (next s) _ (fresh_inv s ls HI) F). subst s0. cbn [nlabels cons]. split.
  - intros [k [v [Hin [l [Hl [Hc [m [Hm [Hne [Lm P]]]]]]]]]]. cbn [nodes] in Hm. destruct Hm as [<-|Hm].
    + cbn [nid] in Hne. congruence.
    + exists k, v, l, m. repeat split; assumption.
  - intros [k [v [l [m [Hin [Hl [Hc [Hm [Lm P]]]]]]]]]. exists k, v. split; [exact Hin|]. exists l.
    split; [exact Hl|]. split; [exact Hc|]. exists m. cbn [nodes]. split; [right; exact Hm|].
    split; [|auto]. pose proof (inv_next s HI m Hm). lia.
Qed.

(* ---------------- a refused operation changes nothing ---------------- *)
Lemma del_node_upd : forall n' ns, del_node (nid n') (upd_node n' ns) = del_node (nid n') ns.
Proof.
  intros n' ns. unfold del_node, upd_node. induction ns as [|a r IH]; [reflexivity|]. cbn [map filter].
  destruct (N.eqb (nid a) (nid n')) eqn:E.
  - rewrite N.eqb_refl. cbn [negb]. exact IH.
  - rewrite E. cbn [negb]. rewrite IH. reflexivity.
Qed.

Lemma del_node_absent : forall id ns, (forall n, In n ns -> nid n <> id) -> del_node id ns = ns.
Proof.
  intros id ns. unfold del_node. induction ns as [|a r IH]; intros H; [reflexivity|]. cbn [filter].
  assert (E : N.eqb (nid a) id = false) by (apply N.eqb_neq; apply H; left; reflexivity).
  rewrite E. cbn [negb]. rewrite IH; [reflexivity|]. intros n Hn. apply H. right. exact Hn.
Qed.

Lemma set_prop_frame : forall s id k v,
  cons (fst (set_prop s id k v)) = cons s /\
  del_node id (nodes (fst (set_prop s id k v))) = del_node id (nodes s).
Proof.
  intros s id k v. unfold set_prop. destruct (find_node id (nodes s)) as [n|] eqn:F; [|auto].
  apply find_node_some in F. destruct F as [_ Hid].
  destruct (existsb _ _); cbn [fst]; [auto|]. cbn [with_graph cons nodes]. split; [reflexivity|].
  subst id.
  exact (del_node_upd {| nid := nid n; nlabels := nlabels n;
      nprops := match v with Some x => pset k x (nprops n) | None => premove k (nprops n) end |} (nodes s)).
Qed.

Lemma set_props_err_frame : forall ps s id, snd (set_props s id ps) <> ROk ->
  cons (fst (set_props s id ps)) = cons s /\ nodes (fst (set_props s id ps)) = del_node id (nodes s).
Proof.
  induction ps as [|[k v] r IH]; intros s id H; cbn [set_props] in *; [cbn in H; congruence|].
  pose proof (set_prop_frame s id k (Some v)) as [FC FN].
  destruct (set_prop s id k (Some v)) as [s' e]. cbn [fst] in FC, FN.
  assert (DEL : cons (fst (delete s id)) = cons s /\ nodes (fst (delete s id)) = del_node id (nodes s)).
  { unfold delete. destruct (find_node id (nodes s)) as [n|] eqn:F; cbn [fst with_graph cons nodes]; [auto|].
    split; [reflexivity|]. symmetry. apply del_node_absent. apply find_node_none. exact F. }
  destruct e; cbn [fst snd] in *; [|exact DEL|exact DEL].
  destruct (IH s' id H) as [A B]. rewrite A, B. auto.
Qed.

Definition same_graph (s s' : state) : Prop :=
  nodes s' = nodes s /\ cons s' = cons s /\ forall e, In e (idx s') <-> In e (idx s).

Lemma refused_unchanged : forall s o, Inv s -> snd (step s o) <> ROk -> same_graph s (fst (step s o)).
Proof.
  intros s o HI H.
  assert (SAME : same_graph s s) by (repeat split; auto).
  destruct o; cbn [step] in *.
  - unfold create_constraint in *. destruct (has_dup _); cbn [fst snd] in *; [exact SAME | congruence].
  - pose proof (create_node_inv s ls ps HI) as HI'. unfold create_node in *.
    apply set_props_err_frame in H. destruct H as [C Nn]. cbn [cons nodes] in C, Nn.
    assert (NS : nodes (fst (set_props {| nodes := {| nid := next s; nlabels := ls; nprops := [] |} :: nodes s;
                       cons := cons s; idx := idx s; next := N.succ (next s) |} (next s) ps)) = nodes s).
    { rewrite Nn. unfold del_node. cbn [filter nid]. rewrite N.eqb_refl. cbn [negb].
      apply del_node_absent. intros n Hn. pose proof (inv_next s HI n Hn). lia. }
    split; [exact NS|]. split; [exact C|]. intros e.
    rewrite (inv_exact _ HI'), (inv_exact _ HI). rewrite NS, C. tauto.
  - unfold set_prop in *. destruct (find_node id (nodes s)); [|exact SAME].
    destruct (existsb _ _); cbn [fst snd] in *; [exact SAME | congruence].
  - unfold remove_prop in *. destruct (find_node id (nodes s)); cbn [snd] in H; congruence.
  - unfold add_label in *. destruct (find_node id (nodes s)); [|exact SAME].
    destruct (existsb _ _); cbn [fst snd] in *; [exact SAME | congruence].
  - unfold remove_label in *. destruct (find_node id (nodes s)); [|cbn in H; congruence].
    destruct (memN l (nlabels n)); cbn [snd] in H; congruence.
  - unfold delete in *. destruct (find_node id (nodes s)); cbn [snd] in H; congruence.
Qed.
