(* Proofs about the hierarchy-index model (coq/model/Hierarchy.v). *)
From Coq Require Import List NArith ZArith Bool Arith PeanoNat Lia ZifyBool ZifyNat ZifyN.
From Verif Require Import CheckLib Hierarchy.
Import ListNotations.

(* ================= 1. specification: reach and its executable closure ================= *)
Section Reach.
  Variable par : nat -> list nat.

  (* reflexive-transitive closure of the covering relation child -> parent *)
  Inductive reach : nat -> nat -> Prop :=
  | reach_refl : forall x, reach x x
  | reach_step : forall x q y, In q (par x) -> reach q y -> reach x y.

  Lemma reach_trans : forall x y z, reach x y -> reach y z -> reach x z.
  Proof.
    intros x y z Hxy; induction Hxy as [x|x q y Hin _ IH]; intros Hyz; auto.
    eapply reach_step; eauto.
  Qed.

  Lemma reachb_sound : forall f x y, reachb f par x y = true -> reach x y.
  Proof.
    induction f as [|f IH]; intros x y H; cbn in H; [discriminate|].
    apply orb_true_iff in H as [H|H].
    - apply Nat.eqb_eq in H; subst; constructor.
    - apply existsb_exists in H as [q [Hin Hq]]. eapply reach_step; eauto.
  Qed.

  (* acyclicity witness: a rank that strictly increases along every covering edge, below n *)
  Definition ranked (n : nat) (rk : nat -> nat) : Prop :=
    forall x q, In q (par x) -> rk x < rk q /\ rk q < n.

  Lemma reachb_complete : forall n rk, ranked n rk ->
    forall x y, reach x y -> forall f, n - rk x < f -> reachb f par x y = true.
  Proof.
    intros n rk Hrk x y H; induction H as [x|x q y Hin Hr IH]; intros f Hf.
    - destruct f; [lia|]. cbn. rewrite Nat.eqb_refl. reflexivity.
    - destruct f; [lia|]. cbn. apply orb_true_iff; right.
      apply existsb_exists. exists q; split; auto.
      apply IH. destruct (Hrk x q Hin). lia.
  Qed.

  Theorem closure_spec : forall n rk, ranked n rk ->
    forall x y, reachb (S n) par x y = true <-> reach x y.
  Proof.
    intros n rk Hrk x y; split.
    - apply reachb_sound.
    - intros H. eapply reachb_complete; eauto. lia.
  Qed.

  (* a ranked relation has no cycle through a covering edge *)
  Lemma reach_rank : forall n rk, ranked n rk -> forall x y, reach x y -> rk x <= rk y.
  Proof.
    intros n rk Hrk x y H; induction H as [x|x q y Hin _ IH]; [lia|].
    destruct (Hrk x q Hin). lia.
  Qed.

  Lemma reach_antisym : forall n rk, ranked n rk -> forall x y, reach x y -> reach y x -> x = y.
  Proof.
    intros n rk Hrk x y Hxy Hyx. destruct Hxy as [x|x q y Hin Hq]; auto.
    pose proof (reach_rank n rk Hrk _ _ Hq). pose proof (reach_rank n rk Hrk _ _ Hyx).
    destruct (Hrk x q Hin). lia.
  Qed.
End Reach.

(* ================= 2. manager: the stale flag ================= *)
Definition is_rebuild (o : mop) : bool := match o with MRebuild _ => true | _ => false end.

Lemma m_step_stale_stays : forall e o, e_stale e = true -> is_rebuild o = false ->
  e_stale (m_step e o) = true /\ e_types (m_step e o) = e_types e.
Proof.
  intros e o Hs Hr. destruct o as [ty|prop node v|fresh]; try discriminate; unfold m_step;
    repeat (match goal with |- context [match ?c with _ => _ end] => destruct c eqn:? end);
    cbn; auto.
Qed.

Lemma usable_stale : forall e, e_stale e = true -> usable e = false.
Proof. intros e H. unfold usable. rewrite H. destruct (e_index e); reflexivity. Qed.

Theorem stale_until_rebuild : forall e ty ops,
  memn ty (e_types e) = true ->
  forallb (fun o => negb (is_rebuild o)) ops = true ->
  usable (fold_left m_step ops (m_step e (MEdgeWrite ty))) = false.
Proof.
  intros e ty ops Hty Hops. apply usable_stale.
  assert (H0 : e_stale (m_step e (MEdgeWrite ty)) = true) by (cbn; rewrite Hty; reflexivity).
  revert H0. generalize (m_step e (MEdgeWrite ty)) as e0.
  induction ops as [|o ops IH]; intros e0 H0; cbn; auto.
  cbn in Hops. apply andb_true_iff in Hops as [Ho Hops]. apply negb_true_iff in Ho.
  apply IH; auto. apply m_step_stale_stays; auto.
Qed.

Theorem rebuild_clears : forall e fresh,
  usable (m_step e (MRebuild (Some fresh))) = true.
Proof. reflexivity. Qed.

(* an edge write on a type outside the covering relation, or a write to another property,
   does not change the entry *)
Theorem unrelated_write_is_noop : forall e ty, memn ty (e_types e) = false ->
  m_step e (MEdgeWrite ty) = e.
Proof. intros e ty H. cbn. rewrite H. reflexivity. Qed.
