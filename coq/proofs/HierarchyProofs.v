(* Proofs about the hierarchy-index model (coq/model/Hierarchy.v). *)
From Coq Require Import List NArith ZArith Bool Arith PeanoNat Lia ZifyBool ZifyNat ZifyN Permutation.
From Verif Require Import CheckLib Hierarchy.
Import ListNotations.

(* ================= 1. specification: reach and its executable closure ================= *)
Section Reach.
  Variable par : nat -> list nat.

  (* reflexive-transitive closure of the covering relation child -> parent *)
  Inductive reach : nat -> nat -> Prop :=
  | reach_refl : forall x, reach x x
  | reach_step : forall x q y, In q (par x) -> reach q y -> reach x y.

  Lemma reach_trans : forall x y z, reach x y -> reach y z -> reach x z.
  Proof.
    intros x y z Hxy; induction Hxy as [x|x q y Hin _ IH]; intros Hyz; auto.
    eapply reach_step; eauto.
  Qed.

  Lemma reachb_sound : forall f x y, reachb f par x y = true -> reach x y.
  Proof.
    induction f as [|f IH]; intros x y H; cbn in H; [discriminate|].
    apply orb_true_iff in H as [H|H].
    - apply Nat.eqb_eq in H; subst; constructor.
    - apply existsb_exists in H as [q [Hin Hq]]. eapply reach_step; eauto.
  Qed.

  (* acyclicity witness: a rank that strictly increases along every covering edge, below n *)
  Definition ranked (n : nat) (rk : nat -> nat) : Prop :=
    forall x q, In q (par x) -> rk x < rk q /\ rk q < n.

  Lemma reachb_complete : forall n rk, ranked n rk ->
    forall x y, reach x y -> forall f, n - rk x < f -> reachb f par x y = true.
  Proof.
    intros n rk Hrk x y H; induction H as [x|x q y Hin Hr IH]; intros f Hf.
    - destruct f; [lia|]. cbn. rewrite Nat.eqb_refl. reflexivity.
    - destruct f; [lia|]. cbn. apply orb_true_iff; right.
      apply existsb_exists. exists q; split; auto.
      apply IH. destruct (Hrk x q Hin). lia.
  Qed.

  Theorem closure_spec : forall n rk, ranked n rk ->
    forall x y, reachb (S n) par x y = true <-> reach x y.
  Proof.
    intros n rk Hrk x y; split.
    - apply reachb_sound.
    - intros H. eapply reachb_complete; eauto. lia.
  Qed.

  (* a ranked relation has no cycle through a covering edge *)
  Lemma reach_rank : forall n rk, ranked n rk -> forall x y, reach x y -> rk x <= rk y.
  Proof.
    intros n rk Hrk x y H; induction H as [x|x q y Hin _ IH]; [lia|].
    destruct (Hrk x q Hin). lia.
  Qed.

  Lemma reach_antisym : forall n rk, ranked n rk -> forall x y, reach x y -> reach y x -> x = y.
  Proof.
    intros n rk Hrk x y Hxy Hyx. destruct Hxy as [x|x q y Hin Hq]; auto.
    pose proof (reach_rank n rk Hrk _ _ Hq). pose proof (reach_rank n rk Hrk _ _ Hyx).
    destruct (Hrk x q Hin). lia.
  Qed.
End Reach.

(* ================= 2. manager: the stale flag ================= *)
Definition is_rebuild (o : mop) : bool := match o with MRebuild _ _ => true | _ => false end.

Ltac mstep_cases :=
  unfold m_step, measure_write, e_with;
  repeat (match goal with |- context [match ?c with _ => _ end] => destruct c eqn:? end).

Lemma m_step_stale_stays : forall e o, e_stale e = true -> is_rebuild o = false ->
  e_stale (m_step e o) = true /\ e_types (m_step e o) = e_types e /\ e_label (m_step e o) = e_label e.
Proof.
  intros e o Hs Hr. destruct o as [ty|prop node v|prop node|lab|fresh el]; try discriminate;
    mstep_cases; cbn; auto.
Qed.

Lemma usable_stale : forall e, e_stale e = true -> usable e = false.
Proof. intros e H. unfold usable. rewrite H. destruct (e_index e); reflexivity. Qed.

Lemma stale_run : forall ops e0, e_stale e0 = true ->
  forallb (fun o => negb (is_rebuild o)) ops = true ->
  usable (fold_left m_step ops e0) = false.
Proof.
  intros ops e0 H0 Hops. apply usable_stale. revert e0 H0.
  induction ops as [|o ops IH]; intros e0 H0; cbn; auto.
  cbn in Hops. apply andb_true_iff in Hops as [Ho Hops]. apply negb_true_iff in Ho.
  apply IH; auto. apply m_step_stale_stays; auto.
Qed.

Theorem stale_until_rebuild : forall e ty ops,
  memn ty (e_types e) = true ->
  forallb (fun o => negb (is_rebuild o)) ops = true ->
  usable (fold_left m_step ops (m_step e (MEdgeWrite ty))) = false.
Proof.
  intros e ty ops Hty Hops. apply stale_run; auto. cbn. rewrite Hty. reflexivity.
Qed.

(* a node gaining or losing the measure label takes the index out of service until a rebuild *)
Theorem label_write_stale_until_rebuild : forall e l ops,
  e_label e = Some l ->
  forallb (fun o => negb (is_rebuild o)) ops = true ->
  usable (fold_left m_step ops (m_step e (MLabelWrite l))) = false.
Proof.
  intros e l ops Hl Hops. apply stale_run; auto. cbn. rewrite Hl, Nat.eqb_refl. reflexivity.
Qed.

Theorem rebuild_clears : forall e fresh el,
  usable (m_step e (MRebuild (Some fresh) el)) = true.
Proof. reflexivity. Qed.

Theorem unrelated_write_is_noop : forall e ty, memn ty (e_types e) = false ->
  m_step e (MEdgeWrite ty) = e.
Proof. intros e ty H. cbn. rewrite H. reflexivity. Qed.

(* ---- measure writes keep the index's measure equal to the graph's ---- *)
Definition rebuild_ok (o : mop) : bool :=
  match o with
  | MRebuild (Some ix) _ => match ix_measure ix with Some _ => true | None => false end
  | _ => true
  end.

Lemma usable_inv : forall e, usable e = true -> exists ix, e_index e = Some ix /\ e_stale e = false.
Proof.
  intros e H. unfold usable in H. destruct (e_index e) as [ix|]; [|discriminate].
  exists ix; split; auto. destruct (e_stale e); [discriminate|reflexivity].
Qed.

Lemma synced_write : forall e g prop node v, synced e g ->
  synced (measure_write e prop node v)
         (match e_prop e with
          | Some pr => if Nat.eqb pr prop && eligible e node then upd g node v else g
          | None => g
          end).
Proof.
  intros e g prop node v S. unfold synced in *. unfold measure_write.
  destruct (e_prop e) as [pr|]; auto.
  destruct (Nat.eqb pr prop); cbn [andb]; auto.
  destruct (e_index e) as [ix|] eqn:Ei.
  - destruct (node <? pn (ix_poset ix)).
    + destruct (eligible e node).
      2:{ intros U. destruct (S U) as [ix0 [E3 E4]]. try rewrite Ei in E3. inversion E3; subst ix0.
          exists ix; split; auto. }
      unfold update_measure. destruct (ix_measure ix) as [m|] eqn:Em.
      * intros U. apply usable_inv in U as [ix' [E1 E2]]. cbn in E1, E2.
        destruct S as [ix0 [E3 E4]]; [unfold usable; rewrite Ei, E2; reflexivity|].
        try rewrite Ei in E3. inversion E3; subst ix0. rewrite Em in E4. inversion E4; subst m.
        eexists; split; [cbn; reflexivity|]. reflexivity.
      * intros U. apply usable_inv in U as [ix' [_ U]]. discriminate.
    + intros U. apply usable_inv in U as [ix' [_ U]]. discriminate.
  - intros U. apply usable_inv in U as [ix' [U _]]. discriminate.
Qed.

Lemma synced_step : forall e g o, synced e g -> rebuild_ok o = true ->
  synced (m_step e o) (g_step e g o).
Proof.
  intros e g o S Hr.
  destruct o as [ty|prop node v|prop node|lab|fresh el].
  - (* edge write *) unfold synced in *. cbn [m_step g_step]. destruct (memn ty (e_types e)); auto.
    intros U. apply usable_inv in U as [ix [_ U]]. discriminate.
  - (* measure write *) cbn [m_step g_step]. apply synced_write; auto.
  - (* property removal = write of Null *) cbn [m_step g_step]. apply synced_write; auto.
  - (* label write *) unfold synced in *. cbn [m_step g_step]. destruct (e_label e) as [l|]; auto.
    destruct (Nat.eqb l lab); auto. intros U. apply usable_inv in U as [ix [_ U]]. discriminate.
  - (* rebuild *) unfold synced in *.
    cbn [m_step g_step]. intros U. destruct fresh as [ix|]; [|discriminate].
    cbn in Hr. destruct (ix_measure ix) as [m|] eqn:Em; [|discriminate].
    exists ix; split; auto.
Qed.

Theorem measure_synced : forall ops e g, synced e g ->
  forallb rebuild_ok ops = true ->
  synced (fst (mg_run e g ops)) (snd (mg_run e g ops)).
Proof.
  induction ops as [|o ops IH]; intros e g S Hr; cbn [mg_run fst snd]; auto.
  cbn in Hr. apply andb_true_iff in Hr as [Hr1 Hr2].
  apply IH; auto. apply synced_step; auto.
Qed.

(* ================= 3. Fenwick tree over an abstract array ================= *)
Lemma lowbitp_le : forall p, (Z.pos (lowbitp p) <= Z.pos p)%Z.
Proof. induction p; cbn [lowbitp]; lia. Qed.

Lemma lowbitp_up : forall p,
  (Z.pos (p + lowbitp p) - Z.pos (lowbitp (p + lowbitp p)) <= Z.pos p - Z.pos (lowbitp p))%Z.
Proof.
  induction p as [p IH|p IH|]; cbn [lowbitp].
  - change (p~1 + 1)%positive with (Pos.succ p)~0%positive. cbn [lowbitp]. lia.
  - change (p~0 + (lowbitp p)~0)%positive with (p + lowbitp p)~0%positive. cbn [lowbitp]. lia.
  - cbn. lia.
Qed.

Lemma lowbitp_gap : forall p k,
  (Z.pos p < Z.pos k < Z.pos p + Z.pos (lowbitp p))%Z -> (Z.pos p <= Z.pos k - Z.pos (lowbitp k))%Z.
Proof.
  induction p as [p IH|p IH|]; intros k H; cbn [lowbitp] in H; try lia.
  destruct k as [k|k|]; cbn [lowbitp]; try lia.
Qed.

Lemma lowbit_pos_eq : forall p, lowbit (Pos.to_nat p) = Pos.to_nat (lowbitp p).
Proof. intros p. unfold lowbit. rewrite positive_nat_N. reflexivity. Qed.

Lemma lowbit_bounds : forall j, 0 < j -> 0 < lowbit j <= j.
Proof.
  intros j Hj. rewrite <- (Nat2Pos.id j) by lia. rewrite lowbit_pos_eq.
  pose proof (lowbitp_le (Pos.of_nat j)). lia.
Qed.

Lemma lowbit_up : forall j, 0 < j ->
  (j + lowbit j) - lowbit (j + lowbit j) <= j - lowbit j.
Proof.
  intros j Hj. rewrite <- (Nat2Pos.id j) by lia. set (p := Pos.of_nat j).
  rewrite lowbit_pos_eq, <- Pos2Nat.inj_add, lowbit_pos_eq.
  pose proof (lowbitp_up p). pose proof (lowbitp_le p). pose proof (lowbitp_le (p + lowbitp p)). lia.
Qed.

Lemma lowbit_gap : forall j k, 0 < j -> j < k < j + lowbit j -> j <= k - lowbit k.
Proof.
  intros j k Hj H. rewrite <- (Nat2Pos.id j) in * by lia. rewrite <- (Nat2Pos.id k) in * by lia.
  set (p := Pos.of_nat j) in *. set (q := Pos.of_nat k) in *.
  rewrite lowbit_pos_eq in *.
  pose proof (lowbitp_gap p q). pose proof (lowbitp_le q). lia.
Qed.

(* list helpers *)
Lemma upd_length : forall A (l : list A) i v, length (upd l i v) = length l.
Proof. induction l; destruct i; cbn; auto. Qed.

Lemma nth_upd : forall A (l : list A) i j v d, i < length l ->
  nth j (upd l i v) d = if j =? i then v else nth j l d.
Proof.
  induction l as [|x l IH]; intros i j v d Hi; cbn in Hi; [lia|].
  destruct i, j; cbn; auto. rewrite IH by lia. reflexivity.
Qed.

Lemma nth_upd_other : forall A (l : list A) i j v d, j <> i -> nth j (upd l i v) d = nth j l d.
Proof.
  induction l as [|x l IH]; intros i j v d Hi; [destruct i; reflexivity|].
  destruct i, j; cbn; auto; try lia; try (apply IH; lia).
Qed.

(* prefix sums of an abstract array *)
Fixpoint sum_to (a : nat -> Z) (k : nat) : Z :=
  match k with O => 0%Z | S k' => (sum_to a k' + a k')%Z end.

Definition addf (a : nat -> Z) (pos : nat) (d : Z) : nat -> Z :=
  fun i => if i =? pos then (a i + d)%Z else a i.

Lemma sum_to_ext : forall a b k, (forall i, i < k -> a i = b i) -> sum_to a k = sum_to b k.
Proof. induction k; intros H; cbn; auto. rewrite IHk, H; auto. Qed.

Lemma sum_to_addf : forall a pos d k,
  sum_to (addf a pos d) k = (sum_to a k + (if Nat.ltb pos k then d else 0))%Z.
Proof.
  induction k; cbn [sum_to]; [cbn; lia|]. rewrite IHk. unfold addf.
  destruct (Nat.eqb_spec k pos); destruct (Nat.ltb_spec pos k); destruct (Nat.ltb_spec pos (S k)); lia.
Qed.

(* the Fenwick invariant: cell j holds the sum of a[j - lowbit j, j) *)
Definition fw_inv (t : list Z) (a : nat -> Z) (n : nat) : Prop :=
  length t = S n /\ forall j, 1 <= j <= n -> nth j t 0%Z = (sum_to a j - sum_to a (j - lowbit j))%Z.

Definition covers (k p : nat) : bool := (k - lowbit k <? p) && (p <=? k).

Lemma fw_add_loop_spec : forall fuel t n j d p,
  length t = S n -> 0 < j -> covers j p = true -> n < j + fuel ->
  length (fw_add_loop fuel t n j d) = S n /\ forall k, nth k (fw_add_loop fuel t n j d) 0%Z =
            (nth k t 0 + (if Nat.leb j k && Nat.leb k n && covers k p then d else 0))%Z.
Proof.
  induction fuel as [|f IH]; intros t n j d p Hlen Hj Hc Hf; cbn [fw_add_loop].
  - split; auto. intros k. destruct (Nat.leb_spec j k); destruct (Nat.leb_spec k n); cbn; lia.
  - destruct (Nat.leb_spec j n) as [Hjn|Hjn].
    + pose proof (lowbit_bounds j Hj) as Hb. pose proof (lowbit_up j Hj) as Hu.
      assert (Hc' : covers (j + lowbit j) p = true).
      { unfold covers in *. apply andb_true_iff in Hc as [H1 H2].
        apply Nat.ltb_lt in H1. apply Nat.leb_le in H2.
        apply andb_true_iff; split; [apply Nat.ltb_lt|apply Nat.leb_le]; lia. }
      destruct (IH (upd t j (nth j t 0 + d)%Z) n (j + lowbit j) d p) as [IL IK];
        try rewrite upd_length; auto; try lia.
      split; auto. intros k. rewrite IK. rewrite nth_upd by lia.
      unfold covers in Hc. apply andb_true_iff in Hc as [H1 H2].
      apply Nat.ltb_lt in H1. apply Nat.leb_le in H2.
      destruct (Nat.eqb_spec k j) as [->|Hkj].
      * replace (covers j p) with true by (unfold covers; symmetry; apply andb_true_iff; split;
          [apply Nat.ltb_lt|apply Nat.leb_le]; lia).
        destruct (Nat.leb_spec (j + lowbit j) j); destruct (Nat.leb_spec j j); destruct (Nat.leb_spec j n);
          cbn; lia.
      * destruct (Nat.leb_spec (j + lowbit j) k) as [Hk|Hk]; destruct (Nat.leb_spec j k) as [Hk2|Hk2];
          destruct (Nat.leb_spec k n); cbn [andb]; try lia.
        (* j < k < j + lowbit j : k does not cover p *)
        assert (j <= k - lowbit k) by (apply lowbit_gap; lia).
        unfold covers. destruct (Nat.ltb_spec (k - lowbit k) p); cbn; lia.
    + split; auto. intros k. destruct (Nat.leb_spec j k); destruct (Nat.leb_spec k n); cbn; lia.
Qed.

Lemma fw_add_inv : forall t a n pos d, fw_inv t a n -> pos < n ->
  fw_inv (fw_add t pos d) (addf a pos d) n.
Proof.
  intros t a n pos d [Hlen Hinv] Hpos. unfold fw_add. rewrite Hlen. replace (S n - 1) with n by lia.
  assert (Hc : covers (pos + 1) (pos + 1) = true).
  { unfold covers. pose proof (lowbit_bounds (pos + 1)).
    apply andb_true_iff; split; [apply Nat.ltb_lt|apply Nat.leb_le]; lia. }
  destruct (fw_add_loop_spec (S n) t n (pos + 1) d (pos + 1)) as [HL HK]; auto; try lia.
  split; auto. intros j Hj. rewrite HK, Hinv by lia. rewrite !sum_to_addf.
  pose proof (lowbit_bounds j). unfold covers.
  destruct (Nat.leb_spec (pos + 1) j); destruct (Nat.leb_spec j n); destruct (Nat.ltb_spec (j - lowbit j) (pos + 1));
    destruct (Nat.ltb_spec pos j); destruct (Nat.ltb_spec pos (j - lowbit j)); cbn; lia.
Qed.

Lemma fw_prefix_loop_spec : forall t a n, fw_inv t a n ->
  forall fuel i acc, i <= n -> i <= fuel ->
  fw_prefix_loop fuel t i acc = (acc + sum_to a i)%Z.
Proof.
  intros t a n [Hlen Hinv]. induction fuel as [|f IH]; intros i acc Hi Hf; cbn [fw_prefix_loop].
  - replace i with 0 by lia. cbn. lia.
  - destruct (Nat.ltb_spec 0 i) as [Hpos|Hz].
    + pose proof (lowbit_bounds i Hpos). rewrite IH by lia. rewrite Hinv by lia. lia.
    + replace i with 0 by lia. cbn. lia.
Qed.

Lemma fw_prefix_spec : forall t a n i, fw_inv t a n -> fw_prefix t i = sum_to a (Nat.min i n).
Proof.
  intros t a n i H. unfold fw_prefix. destruct H as [Hlen Hinv] eqn:E. rewrite Hlen.
  replace (S n - 1) with n by lia. erewrite fw_prefix_loop_spec; eauto; lia.
Qed.

Theorem fw_range_spec : forall t a n lo hi, fw_inv t a n -> lo <= hi -> hi < n ->
  fw_range t lo hi = (sum_to a (hi + 1) - sum_to a lo)%Z.
Proof.
  intros t a n lo hi H Hlo Hhi. unfold fw_range.
  destruct (Nat.ltb_spec hi lo); [lia|].
  rewrite !(fw_prefix_spec t a n) by auto. rewrite !Nat.min_l by lia. reflexivity.
Qed.

Lemma fw_inv_ext : forall t a b n, fw_inv t a n -> (forall i, a i = b i) -> fw_inv t b n.
Proof.
  intros t a b n [Hlen Hinv] Hab. split; auto. intros j Hj. rewrite Hinv by auto.
  rewrite (sum_to_ext a b j), (sum_to_ext a b (j - lowbit j)); auto.
Qed.

Lemma fw_inv_zero : forall n, fw_inv (repeat 0%Z (S n)) (fun _ => 0%Z) n.
Proof.
  intros n. split; [apply repeat_length|]. intros j Hj.
  assert (Hz : forall k, sum_to (fun _ => 0%Z) k = 0%Z) by (induction k; cbn; lia).
  rewrite !Hz. rewrite nth_repeat. reflexivity.
Qed.

Lemma fw_build_fold : forall n l t k a, fw_inv t a n -> k + length l <= n ->
  let r := fold_left (fun (st : list Z * nat) v => (fw_add (fst st) (snd st) v, S (snd st))) l (t, k) in
  fw_inv (fst r) (fun i => (a i + (if Nat.leb k i && Nat.ltb i (k + length l) then nth (i - k) l 0 else 0))%Z) n.
Proof.
  intros n. induction l as [|v l IH]; intros t k a Hinv Hk; cbn [fold_left fst snd length] in *.
  - eapply fw_inv_ext; eauto. intros i. destruct (Nat.leb_spec k i); destruct (Nat.ltb_spec i (k + 0)); cbn; lia.
  - eapply fw_inv_ext.
    + apply (IH (fw_add t k v) (S k) (addf a k v)); [apply fw_add_inv; auto; lia | lia].
    + intros i. cbn beta. unfold addf.
      destruct (Nat.eqb_spec i k) as [->|Hik].
      * replace (k - k) with 0 by lia. cbn [nth].
        destruct (Nat.leb_spec (S k) k); destruct (Nat.leb_spec k k); destruct (Nat.ltb_spec k (k + S (length l)));
          cbn [andb]; lia.
      * destruct (Nat.leb_spec (S k) i); destruct (Nat.leb_spec k i); destruct (Nat.ltb_spec i (S k + length l));
          destruct (Nat.ltb_spec i (k + S (length l))); cbn [andb]; try lia.
        replace (i - k) with (S (i - S k)) by lia. cbn [nth]. lia.
Qed.

Theorem fw_build_inv : forall vs, fw_inv (fw_build vs) (fun i => nth i vs 0%Z) (length vs).
Proof.
  intros vs. unfold fw_build.
  eapply fw_inv_ext.
  - apply (fw_build_fold (length vs) vs (repeat 0%Z (S (length vs))) 0 (fun _ => 0%Z)); [apply fw_inv_zero | lia].
  - intros i. cbn beta. destruct (Nat.leb_spec 0 i); [|lia]. rewrite Nat.sub_0_r.
    destruct (Nat.ltb_spec i (0 + length vs)); cbn [andb]; [lia|].
    rewrite nth_overflow by lia. lia.
Qed.

(* ================= 4. nested-set labelling of a forest ================= *)
Lemma NoDup_app_intro : forall A (l1 l2 : list A),
  NoDup l1 -> NoDup l2 -> (forall x, In x l1 -> ~ In x l2) -> NoDup (l1 ++ l2).
Proof.
  induction l1 as [|a l1 IH]; intros l2 H1 H2 Hd; cbn; auto.
  inversion H1; subst. constructor.
  - rewrite in_app_iff. intros [H|H]; [auto|]. apply (Hd a); cbn; auto.
  - apply IH; auto. intros x Hx. apply Hd. cbn; auto.
Qed.

Lemma NoDup_flat_map : forall A B (f : A -> list B) (l : list A),
  NoDup l -> (forall a, In a l -> NoDup (f a)) ->
  (forall a b x, In a l -> In b l -> a <> b -> In x (f a) -> ~ In x (f b)) ->
  NoDup (flat_map f l).
Proof.
  induction l as [|a l IH]; intros Hl Hf Hd; cbn; [constructor|].
  inversion Hl; subst. apply NoDup_app_intro.
  - apply Hf; cbn; auto.
  - apply IH; auto.
    + intros b Hb. apply Hf; cbn; auto.
    + intros b c x Hb Hc. apply Hd; cbn; auto.
  - intros x Hx Hin. apply in_flat_map in Hin as [b [Hb Hxb]].
    apply (Hd a b x); cbn; auto. intros ->. auto.
Qed.

Lemma idx_app_head : forall x A R, ~ In x A -> index_of x (A ++ x :: R) = length A.
Proof.
  induction A as [|a A IH]; intros R H; cbn.
  - rewrite Nat.eqb_refl. reflexivity.
  - destruct (Nat.eqb_spec x a) as [->|Hne]; [exfalso; apply H; cbn; auto|].
    rewrite IH; auto. intros Hin. apply H; cbn; auto.
Qed.

Lemma index_of_lt0 : forall x l, In x l -> index_of x l < length l.
Proof.
  induction l as [|a l IH]; intros H; [destruct H|]. cbn.
  destruct (Nat.eqb_spec x a); [lia|]. destruct H; [congruence|]. apply IH in H. lia.
Qed.

Lemma nth_index_of : forall x l d, In x l -> nth (index_of x l) l d = x.
Proof.
  induction l as [|a l IH]; intros d H; [destruct H|]. cbn.
  destruct (Nat.eqb_spec x a) as [->|Hne]; auto. apply IH. destruct H; congruence.
Qed.

Lemma nth_map_seq : forall A (f : nat -> A) n x d, x < n -> nth x (map f (seq 0 n)) d = f x.
Proof.
  intros A f n x d H. rewrite (nth_indep _ d (f 0)) by (rewrite map_length, seq_length; auto).
  rewrite map_nth, seq_nth; auto.
Qed.

Lemma nth_mid : forall (A M B : list nat) i d, length A <= i < length A + length M ->
  In (nth i (A ++ M ++ B) d) M.
Proof.
  intros A M B i d H. rewrite app_nth2 by lia. rewrite app_nth1 by lia. apply nth_In. lia.
Qed.

Lemma slice_mid : forall (A M B : list nat), M <> [] ->
  slice (A ++ M ++ B) (length A) (length A + length M - 1) = M.
Proof.
  intros A M B HM. unfold slice.
  assert (0 < length M) by (destruct M; cbn; [congruence|lia]).
  replace (length A + length M - 1 + 1 - length A) with (length M) by lia.
  rewrite skipn_app, skipn_all, Nat.sub_diag. cbn [skipn app].
  rewrite firstn_app, firstn_all, Nat.sub_diag. cbn. apply app_nil_r.
Qed.

Section Forest.
  Variables (n : nat) (par ch : nat -> list nat) (rts : list nat) (rk : nat -> nat).
  Hypothesis Hrk : ranked par n rk.
  Hypothesis Hch : forall c v, In c (ch v) <-> In v (par c).
  Hypothesis Hone : forall c, length (par c) <= 1.
  Hypothesis Hnd : forall v, NoDup (ch v).
  Hypothesis Hrts_nd : NoDup rts.
  Hypothesis Hrts : forall r, In r rts <-> (r < n /\ par r = []).
  Hypothesis Hlt : forall c v, In v (par c) -> c < n /\ v < n.

  Let T := preorder (S n) ch.
  Let order := flat_map T rts.

  Lemma preorder_fuel : forall f f' v, rk v < f -> rk v < f' -> preorder f ch v = preorder f' ch v.
  Proof.
    induction f as [|f IH]; intros f' v H1 H2; [lia|]. destruct f'; [lia|]. cbn. f_equal.
    rewrite !flat_map_concat_map. f_equal. apply map_ext_in. intros c Hc.
    apply Hch in Hc. destruct (Hrk c v Hc). apply IH; lia.
  Qed.

  Lemma T_eq : forall v, T v = v :: flat_map T (ch v).
  Proof.
    intros v. unfold T.
    change (preorder (S n) ch v) with (v :: flat_map (preorder n ch) (ch v)). f_equal.
    rewrite !flat_map_concat_map. f_equal. apply map_ext_in. intros c Hc.
    apply Hch in Hc. destruct (Hrk c v Hc). apply preorder_fuel; lia.
  Qed.

  Lemma rk_ind : forall P : nat -> Prop,
    (forall v, (forall c, In c (ch v) -> P c) -> P v) -> forall v, P v.
  Proof.
    intros P H. assert (forall k v, rk v < k -> P v) as G.
    { induction k as [|k IH]; intros v Hv; [lia|]. apply H. intros c Hc. apply IH.
      apply Hch in Hc. destruct (Hrk c v Hc). lia. }
    intros v. apply (G (S (rk v))). lia.
  Qed.

  Lemma T_head : forall v, In v (T v).
  Proof. intros v. rewrite T_eq. cbn; auto. Qed.

  Lemma T_closed : forall v q x, In q (T v) -> In x (ch q) -> In x (T v).
  Proof.
    intros v. pattern v. apply rk_ind. clear v. intros v IH q x Hq Hx.
    rewrite T_eq in Hq |- *. destruct Hq as [<-|Hq].
    - right. apply in_flat_map. exists x; split; auto. apply T_head.
    - right. apply in_flat_map in Hq as [c [Hc Hqc]]. apply in_flat_map. exists c; split; auto.
      eapply IH; eauto.
  Qed.

  Lemma in_T_reach : forall v x, In x (T v) <-> reach par x v.
  Proof.
    intros v x; split.
    - revert x. pattern v. apply rk_ind. clear v. intros v IH x Hx.
      rewrite T_eq in Hx. destruct Hx as [<-|Hx]; [constructor|].
      apply in_flat_map in Hx as [c [Hc Hxc]].
      eapply reach_trans; [apply IH; eauto|].
      eapply reach_step; [apply Hch; eauto|constructor].
    - intros H. induction H as [v|x q v Hin _ IH]; [apply T_head|].
      eapply T_closed; eauto. apply Hch; auto.
  Qed.

  Lemma T_sub : forall v x, In x (T v) -> exists A B, T v = A ++ T x ++ B.
  Proof.
    intros v. pattern v. apply rk_ind. clear v. intros v IH x Hx.
    rewrite (T_eq v) in Hx. destruct Hx as [<-|Hx].
    - exists [], []. rewrite app_nil_r. reflexivity.
    - apply in_flat_map in Hx as [c [Hc Hxc]].
      destruct (IH c Hc x Hxc) as [A [B E]].
      destruct (in_split _ _ Hc) as [l1 [l2 El]].
      exists (v :: flat_map T l1 ++ A), (B ++ flat_map T l2).
      rewrite (T_eq v), El, flat_map_app. cbn [flat_map]. rewrite E.
      cbn [app]. repeat rewrite <- app_assoc. reflexivity.
  Qed.

  Lemma par_unique : forall x q q', In q (par x) -> In q' (par x) -> q = q'.
  Proof.
    intros x q q' H1 H2. pose proof (Hone x) as Hl.
    destruct (par x) as [|a [|b l]]; cbn in *; try lia; intuition congruence.
  Qed.

  Lemma anc_chain : forall x a b, reach par x a -> reach par x b -> reach par a b \/ reach par b a.
  Proof.
    intros x a b Ha. revert b. induction Ha as [x|x q a Hin Hq IH]; intros b Hb; auto.
    destruct Hb as [x|x q' b Hin' Hq'].
    - right. eapply reach_step; eauto.
    - rewrite (par_unique x q' q Hin' Hin) in Hq'. auto.
  Qed.

  Lemma sib_no_reach : forall v c1 c2, In c1 (ch v) -> In c2 (ch v) -> c1 <> c2 -> ~ reach par c1 c2.
  Proof.
    intros v c1 c2 H1 H2 Hne Hr. apply Hch in H1. apply Hch in H2.
    destruct Hr as [|c1 q c2 Hin Hq]; [congruence|].
    rewrite (par_unique c1 q v Hin H1) in Hq.
    pose proof (reach_rank par n rk Hrk _ _ Hq). destruct (Hrk c2 v H2). lia.
  Qed.

  Lemma NoDup_T : forall v, NoDup (T v).
  Proof.
    intros v. pattern v. apply rk_ind. clear v. intros v IH. rewrite T_eq. constructor.
    - intros Hin. apply in_flat_map in Hin as [c [Hc Hvc]]. apply in_T_reach in Hvc.
      pose proof (reach_rank par n rk Hrk _ _ Hvc). apply Hch in Hc. destruct (Hrk c v Hc). lia.
    - apply NoDup_flat_map; auto.
      intros a b x Ha Hb Hne Hxa Hxb. apply in_T_reach in Hxa. apply in_T_reach in Hxb.
      destruct (anc_chain x a b Hxa Hxb) as [H|H].
      + eapply sib_no_reach; [apply Ha|apply Hb| |]; eauto.
      + eapply sib_no_reach; [apply Hb|apply Ha| |]; eauto.
  Qed.

  Lemma root_reach : forall r y, In r rts -> reach par r y -> r = y.
  Proof.
    intros r y Hr H. apply Hrts in Hr as [_ Hp]. destruct H as [|r q y Hin _]; auto.
    rewrite Hp in Hin. destruct Hin.
  Qed.

  Lemma NoDup_order : NoDup order.
  Proof.
    unfold order. apply NoDup_flat_map; auto.
    - intros a _. apply NoDup_T.
    - intros a b x Ha Hb Hne Hxa Hxb. apply in_T_reach in Hxa. apply in_T_reach in Hxb.
      destruct (anc_chain x a b Hxa Hxb) as [H|H].
      + apply Hne. eapply root_reach; eauto.
      + apply Hne. symmetry. eapply root_reach; eauto.
  Qed.

  Lemma to_root : forall k v, n - rk v < k -> v < n -> exists r, In r rts /\ reach par v r.
  Proof.
    induction k as [|k IH]; intros v Hk Hv; [lia|].
    destruct (par v) as [|q l] eqn:E.
    - exists v; split; [apply Hrts; auto|constructor].
    - assert (Hin : In q (par v)) by (rewrite E; cbn; auto).
      destruct (Hrk v q Hin). destruct (Hlt v q Hin).
      destruct (IH q) as [r [Hr Hq]]; try lia.
      exists r; split; auto. eapply reach_step; eauto.
  Qed.

  Lemma order_split : forall v, v < n -> exists A B, order = A ++ T v ++ B.
  Proof.
    intros v Hv. destruct (to_root (S n) v) as [r [Hr Hvr]]; auto; [lia|].
    apply in_T_reach in Hvr. destruct (T_sub r v Hvr) as [A [B E]].
    destruct (in_split _ _ Hr) as [l1 [l2 El]].
    exists (flat_map T l1 ++ A), (B ++ flat_map T l2).
    unfold order. rewrite El, flat_map_app. cbn [flat_map]. rewrite E.
    repeat rewrite <- app_assoc. reflexivity.
  Qed.

  Lemma in_order : forall v, v < n -> In v order.
  Proof.
    intros v Hv. destruct (order_split v Hv) as [A [B E]]. rewrite E.
    apply in_or_app; right. apply in_or_app; left. apply T_head.
  Qed.

  Lemma pos_of : forall v A B, order = A ++ T v ++ B -> index_of v order = length A.
  Proof.
    intros v A B E. pose proof NoDup_order as Hnd'. rewrite E in *. rewrite (T_eq v) in *.
    cbn [app] in *. apply idx_app_head.
    apply NoDup_remove_2 in Hnd'. intros Hin. apply Hnd'. apply in_or_app; auto.
  Qed.

  Lemma T_nonempty : forall v, length (T v) >= 1.
  Proof. intros v. rewrite T_eq. cbn. lia. Qed.

  Definition tin_of (v : nat) := index_of v order.
  Definition tout_of (v : nat) := index_of v order + length (T v) - 1.

  Theorem forest_inside : forall x y, x < n -> y < n ->
    ((tin_of y <=? tin_of x) && (tout_of x <=? tout_of y) = true <-> reach par x y).
  Proof.
    intros x y Hx Hy. unfold tin_of, tout_of.
    destruct (order_split y Hy) as [A [B E]].
    pose proof (T_nonempty x). pose proof (T_nonempty y).
    rewrite (pos_of y A B E). split.
    - intros H'. apply andb_true_iff in H' as [H1 H2]. apply Nat.leb_le in H1, H2.
      apply in_T_reach.
      replace x with (nth (index_of x order) order 0) by (apply nth_index_of, in_order; auto).
      rewrite E. apply nth_mid. rewrite <- E. lia.
    - intros Hr. apply in_T_reach in Hr. destruct (T_sub y x Hr) as [A' [B' E']].
      assert (E2 : order = (A ++ A') ++ T x ++ (B' ++ B)).
      { rewrite E, E'. repeat rewrite <- app_assoc. reflexivity. }
      rewrite (pos_of x _ _ E2). rewrite E'. rewrite !app_length.
      apply andb_true_iff; split; apply Nat.leb_le; lia.
  Qed.

  Theorem forest_slice : forall y, y < n -> slice order (tin_of y) (tout_of y) = T y.
  Proof.
    intros y Hy. unfold tin_of, tout_of. destruct (order_split y Hy) as [A [B E]].
    rewrite (pos_of y A B E). rewrite E. apply slice_mid.
    pose proof (T_nonempty y). destruct (T y); cbn in *; [lia|congruence].
  Qed.

  Theorem forest_count : forall y, tout_of y - tin_of y + 1 = length (T y).
  Proof. intros y. unfold tin_of, tout_of. pose proof (T_nonempty y). lia. Qed.

  Lemma forest_reach_lt : forall x y, reach par x y -> y < n -> x < n.
  Proof.
    intros x y H. induction H as [|x q y Hin _ IH]; auto. intros _. apply Hlt in Hin. tauto.
  Qed.

  Lemma order_lt : forall x, In x order -> x < n.
  Proof.
    intros x Hx. unfold order in Hx. apply in_flat_map in Hx as [r [Hr Hx]].
    apply in_T_reach in Hx. apply Hrts in Hr as [Hr _]. eapply forest_reach_lt; eauto.
  Qed.

  Lemma order_length : length order = n.
  Proof.
    rewrite <- (seq_length n 0). apply Nat.le_antisymm; apply NoDup_incl_length.
    - apply NoDup_order.
    - intros x Hx. apply in_seq. apply order_lt in Hx. lia.
    - apply seq_NoDup.
    - intros x Hx. apply in_seq in Hx. apply in_order. lia.
  Qed.

  Lemma tin_lt : forall v, v < n -> tin_of v < n.
  Proof.
    intros v Hv. unfold tin_of. rewrite <- order_length. apply index_of_lt0. apply in_order; auto.
  Qed.

  Lemma tin_inj : forall i j, i < n -> j < n -> tin_of i = tin_of j -> i = j.
  Proof.
    intros i j Hi Hj E. unfold tin_of in E.
    rewrite <- (nth_index_of i order 0) by (apply in_order; auto).
    rewrite <- (nth_index_of j order 0) by (apply in_order; auto). rewrite E. reflexivity.
  Qed.

  Lemma tin_nth : forall r, r < n -> tin_of (nth r order 0) = r.
  Proof.
    intros r Hr. unfold tin_of. rewrite <- order_length in Hr. pose proof NoDup_order as Hnd'.
    revert r Hr. induction order as [|a l IH]; intros r Hr; [cbn in Hr; lia|].
    inversion Hnd'; subst. destruct r as [|r]; cbn [nth index_of].
    - rewrite Nat.eqb_refl. reflexivity.
    - cbn in Hr. destruct (Nat.eqb_spec (nth r l 0) a) as [E|_].
      + exfalso. apply H1. rewrite <- E. apply nth_In. lia.
      + rewrite IH; auto. lia.
  Qed.

  Lemma tout_lt : forall v, v < n -> tout_of v < n.
  Proof.
    intros v Hv. unfold tout_of. destruct (order_split v Hv) as [A [B E]].
    rewrite (pos_of v A B E). pose proof order_length as Hl. rewrite E, !app_length in Hl.
    pose proof (T_nonempty v). lia.
  Qed.
End Forest.

(* ---- the model's nested-set index on a well-formed forest ---- *)
Record wf_poset (p : poset) (rk : nat -> nat) : Prop := {
  wf_rk : ranked (parents p) (pn p) rk;
  wf_ch : forall c v, In c (children p v) <-> In v (parents p c);
  wf_nd : forall v, NoDup (children p v);
  wf_lt : forall c v, In v (parents p c) -> c < pn p /\ v < pn p
}.
Definition forest (p : poset) : Prop := forall c, length (parents p c) <= 1.

Lemma roots_spec : forall p r, In r (roots p) <-> (r < pn p /\ parents p r = []).
Proof.
  intros p r. unfold roots, nodes. rewrite filter_In, in_seq.
  destruct (parents p r); split; intros [H1 H2]; split; auto; try lia; discriminate.
Qed.

Lemma roots_nodup : forall p, NoDup (roots p).
Proof. intros p. apply NoDup_filter, seq_NoDup. Qed.

Definition mk_index (p : poset) (e : enc) (m : option (list (option Z))) (r : list (rop * rdata)) : index :=
  {| ix_poset := p; ix_enc := e; ix_measure := m; ix_rollups := r |}.

Lemma spec_subsumes_reach : forall p rk, wf_poset p rk ->
  forall x y, spec_subsumes p x y = true <-> reach (parents p) x y.
Proof. intros p rk W x y. unfold spec_subsumes. eapply closure_spec. apply (wf_rk p rk W). Qed.

Lemma spec_desc_spec : forall p rk, wf_poset p rk ->
  forall x y, In x (spec_desc p y) <-> (x < pn p /\ reach (parents p) x y).
Proof.
  intros p rk W x y. unfold spec_desc, nodes. rewrite filter_In, in_seq.
  rewrite (spec_subsumes_reach p rk W). intuition lia.
Qed.

Lemma reach_lt : forall p rk, wf_poset p rk -> forall x y, reach (parents p) x y -> y < pn p -> x < pn p.
Proof.
  intros p rk W x y H. induction H as [|x q y Hin _ IH]; auto. intros _.
  apply (wf_lt p rk W) in Hin. tauto.
Qed.

Theorem nested_subsumes : forall p rk m r, wf_poset p rk -> forest p ->
  forall x y, x < pn p -> y < pn p ->
  subsumes (mk_index p (build_nested p) m r) x y = spec_subsumes p x y.
Proof.
  intros p rk m r W F x y Hx Hy.
  apply eq_true_iff_eq. rewrite (spec_subsumes_reach p rk W).
  unfold subsumes, mk_index, build_nested, nested_arrays, inside; cbn [ix_enc].
  rewrite !nth_map_seq by auto.
  apply (forest_inside (pn p) (parents p) (children p) (roots p) rk); auto;
    try apply W; try apply roots_nodup; try apply roots_spec.
Qed.

Theorem nested_descendants : forall p rk m r, wf_poset p rk -> forest p ->
  forall y, y < pn p ->
  let d := descendants (mk_index p (build_nested p) m r) y in
  NoDup d /\ (forall x, In x d <-> In x (spec_desc p y)) /\
  descendant_count (mk_index p (build_nested p) m r) y = length d /\
  length d = length (spec_desc p y).
Proof.
  intros p rk m r W F y Hy.
  assert (E : descendants (mk_index p (build_nested p) m r) y = preorder (S (pn p)) (children p) y).
  { unfold descendants, mk_index, build_nested, nested_arrays; cbn [ix_enc].
    rewrite !nth_map_seq by auto.
    apply (forest_slice (pn p) (parents p) (children p) (roots p) rk); auto;
      try apply W; try apply roots_nodup; try apply roots_spec. }
  cbv zeta. rewrite E.
  assert (ND : NoDup (preorder (S (pn p)) (children p) y)).
  { apply (NoDup_T (pn p) (parents p) (children p) (roots p) rk); auto;
      try apply W; try apply roots_spec. }
  assert (M : forall x, In x (preorder (S (pn p)) (children p) y) <-> In x (spec_desc p y)).
  { intros x. rewrite (spec_desc_spec p rk W).
    rewrite (in_T_reach (pn p) (parents p) (children p) (roots p) rk)
      by (auto; try apply W; try apply roots_spec).
    split; [intros H; split; auto; eapply reach_lt; eauto | tauto]. }
  repeat split; auto; try apply M.
  - unfold descendant_count, mk_index, build_nested, nested_arrays; cbn [ix_enc].
    rewrite !nth_map_seq by auto.
    apply (forest_count (pn p) (parents p) (children p) (roots p) rk); auto;
      try apply W; try apply roots_spec.
  - apply Nat.le_antisymm; apply NoDup_incl_length; auto.
    + intros x Hx. apply M; auto.
    + unfold spec_desc. apply NoDup_filter, seq_NoDup.
    + intros x Hx. apply M; auto.
Qed.

(* ================= 5. roll-up monoids; per-chain suffix folds ================= *)
Lemma combine_assoc : forall o a b c, combine o a (combine o b c) = combine o (combine o a b) c.
Proof. intros o [|x] [|y] [|z]; destruct o; cbn; try reflexivity; f_equal; lia. Qed.

Lemma combine_comm : forall o a b, combine o a b = combine o b a.
Proof. intros o [|x] [|y]; destruct o; cbn; try reflexivity; f_equal; lia. Qed.

Lemma combine_null_l : forall o a, combine o RNull a = a.
Proof. reflexivity. Qed.

Lemma combine_null_r : forall o a, combine o a RNull = a.
Proof. intros o [|x]; reflexivity. Qed.

(* the declared identity is neutral on every value a fold can produce from integer measures *)
Lemma combine_identity_l : forall o z, combine o (identity o) (RInt z) = RInt z.
Proof. intros [] z; cbn; f_equal; lia. Qed.

(* fold of a value list, the specification of one suffix cell *)
Definition fold_vals (o : rop) (vals : list rv) : rv := fold_right (combine o) (identity o) vals.

Lemma suffix_folds_length : forall o vals, length (suffix_folds o vals) = S (length vals).
Proof. induction vals; cbn; auto. Qed.

Lemma suffix_folds_hd : forall o vals, hd RNull (suffix_folds o vals) = fold_vals o vals.
Proof. induction vals as [|v r IH]; cbn; auto. rewrite IH. reflexivity. Qed.

(* set_measure's suffix table: cell i = fold of the chain's values from position i on *)
Theorem suffix_folds_spec : forall o vals i, i <= length vals ->
  nth i (suffix_folds o vals) RNull = fold_vals o (skipn i vals).
Proof.
  intros o vals. induction vals as [|v r IH]; intros i Hi.
  - cbn in Hi. replace i with 0 by lia. reflexivity.
  - destruct i as [|i].
    + cbn [suffix_folds nth skipn]. rewrite suffix_folds_hd. reflexivity.
    + cbn [suffix_folds nth skipn]. apply IH. cbn in Hi. lia.
Qed.

(* update_measure on a chain: refolding cells pos..0 from the updated measure lands exactly on the
   table a rebuild (set_measure with the updated measure) would produce *)
Theorem refold_spec : forall o chain m suf pos,
  let vals := map (fun v => rv_of (nth v m None) (identity o)) chain in
  pos < length chain ->
  length suf = S (length chain) ->
  (forall i, pos < i -> i <= length chain -> nth i suf RNull = nth i (suffix_folds o vals) RNull) ->
  refold o chain m suf pos = suffix_folds o vals.
Proof.
  intros o chain m suf pos vals. revert suf. induction pos as [|pos IH]; intros suf Hpos Hlen Hsuf.
  - cbn [refold].
    apply nth_ext with (d := RNull) (d' := RNull).
    + rewrite upd_length, suffix_folds_length. unfold vals. rewrite map_length. auto.
    + rewrite upd_length. intros i Hi. rewrite nth_upd by lia.
      destruct (Nat.eqb_spec i 0) as [->|Hne].
      * rewrite Hsuf by lia. rewrite !suffix_folds_spec by (unfold vals; rewrite map_length; lia).
        unfold vals at 2. destruct chain as [|c0 chain']; [cbn in Hpos; lia|]. reflexivity.
      * apply Hsuf; lia.
  - cbn [refold]. apply IH; try lia.
    + rewrite upd_length. auto.
    + intros i Hi Hi2. rewrite nth_upd by lia.
      destruct (Nat.eqb_spec i (S pos)) as [->|Hne]; [|apply Hsuf; lia].
      rewrite Hsuf by lia. rewrite !suffix_folds_spec by (unfold vals; rewrite map_length; lia).
      assert (E : skipn (S pos) vals = nth (S pos) vals RNull :: skipn (S (S pos)) vals).
      { assert (Hl : S pos < length vals) by (unfold vals; rewrite map_length; lia).
        clear -Hl. revert Hl. generalize (S pos) as k. generalize vals as l.
        induction l as [|a l IHl]; intros k Hk; cbn in Hk; [lia|].
        destruct k; [reflexivity|]. cbn [skipn nth]. apply IHl. lia. }
      rewrite E. cbn [fold_vals fold_right]. f_equal.
      unfold vals. rewrite (nth_indep _ RNull (rv_of (nth 0 m None) (identity o))) by (rewrite map_length; lia).
      rewrite (map_nth (fun v => rv_of (nth v m None) (identity o))). reflexivity.
Qed.

(* ================= 6. Poset::from_edges (Kahn) yields a well-formed poset ================= *)
Lemma memn_In : forall x l, memn x l = true <-> In x l.
Proof.
  intros x l. unfold memn. rewrite existsb_exists. split.
  - intros [y [H1 H2]]. apply Nat.eqb_eq in H2. subst; auto.
  - intros H. exists x; split; auto. apply Nat.eqb_refl.
Qed.

Lemma memn_false : forall x l, memn x l = false <-> ~ In x l.
Proof. intros x l. rewrite <- memn_In. destruct (memn x l); split; intros; congruence. Qed.

Lemma filter_remove_one : forall (f : nat -> bool) u l, NoDup l ->
  length (filter (fun c => f c && negb (c =? u)) l) + (if f u && memn u l then 1 else 0)
  = length (filter f l).
Proof.
  intros f u. induction l as [|a l IH]; intros Hnd.
  - cbn. rewrite andb_false_r. reflexivity.
  - inversion Hnd as [|? ? Ha Hl]; subst. specialize (IH Hl). cbn [filter].
    destruct (Nat.eqb_spec a u) as [->|Hne].
    + assert (Hm : memn u l = false) by (apply memn_false; auto).
      rewrite Hm, andb_false_r in IH. rewrite andb_false_r.
      replace (memn u (u :: l)) with true by (symmetry; apply memn_In; cbn; auto).
      rewrite andb_true_r. destruct (f u); cbn [length]; lia.
    + replace (memn u (a :: l)) with (memn u l).
      2:{ unfold memn. cbn [existsb]. destruct (Nat.eqb_spec u a); [congruence|reflexivity]. }
      rewrite andb_true_r. destruct (f a); cbn [length]; lia.
Qed.

Definition kstep (st : list nat * list nat) (p : nat) : list nat * list nat :=
  let '(ig, q) := st in
  let d := nth p ig 0 - 1 in
  (upd ig p d, if d =? 0 then q ++ [p] else q).

Lemma kfold : forall ps ig q, NoDup ps -> (forall p, In p ps -> p < length ig) ->
  (forall x, nth x (fst (fold_left kstep ps (ig, q))) 0 = if memn x ps then nth x ig 0 - 1 else nth x ig 0) /\
  snd (fold_left kstep ps (ig, q)) = q ++ filter (fun p => nth p ig 0 - 1 =? 0) ps /\
  length (fst (fold_left kstep ps (ig, q))) = length ig.
Proof.
  induction ps as [|p ps IH]; intros ig q Hnd Hlt.
  - cbn. rewrite app_nil_r. auto.
  - inversion Hnd as [|? ? Hp Hps]; subst. cbn [fold_left kstep].
    destruct (IH (upd ig p (nth p ig 0 - 1)) (if nth p ig 0 - 1 =? 0 then q ++ [p] else q) Hps) as [I1 [I2 I3]].
    { intros p' Hp'. rewrite upd_length. apply Hlt; cbn; auto. }
    assert (Hpl : p < length ig) by (apply Hlt; cbn; auto).
    split; [|split].
    + intros x. rewrite I1. rewrite nth_upd by auto.
      unfold memn at 2. cbn [existsb]. fold (memn x ps).
      destruct (Nat.eqb_spec x p) as [->|Hne].
      * replace (memn p ps) with false by (symmetry; apply memn_false; auto). reflexivity.
      * reflexivity.
    + rewrite I2. cbn [filter].
      assert (E : filter (fun p0 => nth p0 (upd ig p (nth p ig 0 - 1)) 0 - 1 =? 0) ps
                  = filter (fun p0 => nth p0 ig 0 - 1 =? 0) ps).
      { apply filter_ext_in. intros a Ha. rewrite nth_upd_other; auto. intros ->; auto. }
      rewrite E. destruct (nth p ig 0 - 1 =? 0); [rewrite <- app_assoc|]; reflexivity.
    + rewrite I3, upd_length. reflexivity.
Qed.

Section Kahn.
  Variables (n : nat) (par : list (list nat)).
  Hypothesis Hpar_nd : forall c, NoDup (nth c par []).
  Hypothesis Hpar_lt : forall c q, In q (nth c par []) -> q < n.
  Let P c := nth c par [].

  Definition pending (q : nat) (O : list nat) : list nat :=
    filter (fun c => memn q (P c) && negb (memn c O)) (seq 0 n).

  Definition good (O : list nat) : Prop :=
    forall l1 q l2, O = l1 ++ q :: l2 -> forall c, c < n -> In q (P c) -> In c l2.

  Record kinv (ig Q O : list nat) : Prop := {
    k_len : length ig = n;
    k_A : forall q, q < n -> nth q ig 0 = length (pending q O);
    k_B : forall q, In q Q -> q < n /\ pending q O = [] /\ ~ In q O;
    k_C : NoDup Q;
    k_D : good O;
    k_nd : NoDup O;
    k_lt : forall q, In q O -> q < n }.

  Lemma in_pending : forall q O u, In u (pending q O) <-> (u < n /\ In q (P u) /\ ~ In u O).
  Proof.
    intros q O u. unfold pending. rewrite filter_In, in_seq, andb_true_iff, negb_true_iff, memn_In, memn_false.
    intuition lia.
  Qed.

  Lemma pending_cons : forall q u O, u < n -> ~ In u O ->
    length (pending q (u :: O)) = length (pending q O) - (if memn q (P u) then 1 else 0).
  Proof.
    intros q u O Hu HuO.
    pose proof (filter_remove_one (fun c => memn q (P c) && negb (memn c O)) u (seq 0 n) (seq_NoDup n 0)) as H.
    assert (E : pending q (u :: O) = filter (fun c => (memn q (P c) && negb (memn c O)) && negb (c =? u)) (seq 0 n)).
    { unfold pending. apply filter_ext. intros c. unfold memn at 2. cbn [existsb]. fold (memn c O).
      destruct (c =? u), (memn q (P c)), (memn c O); reflexivity. }
    rewrite E. fold (pending q O) in H.
    replace (memn u (seq 0 n)) with true in H by (symmetry; apply memn_In, in_seq; lia).
    replace (memn u O) with false in H by (symmetry; apply memn_false; auto).
    cbn [negb] in H. rewrite !andb_true_r in H. destruct (memn q (P u)); lia.
  Qed.

  Lemma kinv_step : forall ig u Q O, kinv ig (u :: Q) O ->
    kinv (fst (fold_left kstep (P u) (ig, Q))) (snd (fold_left kstep (P u) (ig, Q))) (u :: O).
  Proof.
    intros ig u Q O K. destruct K as [Klen KA KB KC KD Knd Klt].
    destruct (KB u) as [Hu [Hpu HuO]]; [cbn; auto|].
    inversion KC as [|? ? HuQ HQ]; subst.
    destruct (kfold (P u) ig Q (Hpar_nd u)) as [F1 [F2 F3]].
    { intros p Hp. rewrite Klen. eapply Hpar_lt; eauto. }
    assert (Hpend : forall x, In x (P u) -> In u (pending x O)).
    { intros x Hx. apply in_pending. auto. }
    assert (HA' : forall q, q < n -> nth q (fst (fold_left kstep (P u) (ig, Q))) 0 = length (pending q (u :: O))).
    { intros q Hq. rewrite F1, pending_cons, KA by auto. destruct (memn q (P u)); lia. }
    constructor.
    - rewrite F3. auto.
    - exact HA'.
    - intros q Hq. rewrite F2 in Hq. apply in_app_or in Hq as [Hq|Hq].
      + destruct (KB q) as [H1 [H2 H3]]; [cbn; auto|]. split; auto. split.
        * apply length_zero_iff_nil. rewrite pending_cons, H2 by auto. reflexivity.
        * intros [->|H]; auto.
      + apply filter_In in Hq as [Hq1 Hq2]. apply Nat.eqb_eq in Hq2.
        assert (Hqn : q < n) by (eapply Hpar_lt; eauto). split; auto. split.
        * apply length_zero_iff_nil. rewrite <- HA', F1 by auto.
          replace (memn q (P u)) with true by (symmetry; apply memn_In; auto). auto.
        * intros [<-|H].
          -- specialize (Hpend u Hq1). rewrite Hpu in Hpend. destruct Hpend.
          -- destruct (in_split _ _ H) as [l1 [l2 E]].
             assert (In u l2) by (eapply KD; eauto). apply HuO. rewrite E. apply in_or_app; right; cbn; auto.
    - rewrite F2. apply NoDup_app_intro; auto.
      + apply NoDup_filter. apply Hpar_nd.
      + intros x Hx Hx2. apply filter_In in Hx2 as [Hx2 _].
        destruct (KB x) as [_ [H2 _]]; [cbn; auto|]. specialize (Hpend x Hx2). rewrite H2 in Hpend. destruct Hpend.
    - intros l1 q l2 E c Hc Hqc. destruct l1 as [|a l1]; cbn in E; inversion E; subst.
      + destruct (in_dec Nat.eq_dec c l2) as [|Hn]; auto. exfalso.
        assert (In c (pending q l2)) by (apply in_pending; auto). rewrite Hpu in H. destruct H.
      + eapply KD; eauto.
    - constructor; auto.
    - intros q [<-|H]; auto.
  Qed.

  Lemma kahn_inv : forall fuel ig Q O, kinv ig Q O ->
    exists O', kahn fuel par ig Q O = rev O' /\ good O' /\ NoDup O' /\ (forall q, In q O' -> q < n).
  Proof.
    induction fuel as [|f IH]; intros ig Q O K.
    - exists O. cbn. destruct K; auto.
    - destruct Q as [|u Q].
      + exists O. cbn. destruct K; auto.
      + cbn [kahn]. pose proof (kinv_step ig u Q O K) as K'.
        change (fold_left _ (nth u par []) (ig, Q)) with (fold_left kstep (P u) (ig, Q)).
        destruct (fold_left kstep (P u) (ig, Q)) as [ig' Q']. apply IH. exact K'.
  Qed.
End Kahn.

(* ---- the arrays from_edges builds ---- *)
Definition eeq (e f : nat * nat) : bool := Nat.eqb (fst e) (fst f) && Nat.eqb (snd e) (snd f).

Lemma edge_mem_In : forall e l, edge_mem e l = true <-> In e l.
Proof.
  intros [a b] l. unfold edge_mem. rewrite existsb_exists. split.
  - intros [[c d] [H1 H2]]. cbn in H2. apply andb_true_iff in H2 as [H2 H3].
    apply Nat.eqb_eq in H2, H3. subst; auto.
  - intros H. exists (a, b); split; auto. cbn. rewrite !Nat.eqb_refl. reflexivity.
Qed.

Lemma dedup_spec : forall l seen,
  NoDup (dedup_edges l seen) /\
  forall e, In e (dedup_edges l seen) <-> (In e l /\ ~ In e seen).
Proof.
  induction l as [|a l IH]; intros seen; cbn [dedup_edges].
  - split; [constructor|]. intros e; cbn; tauto.
  - destruct (edge_mem a seen) eqn:E.
    + apply edge_mem_In in E. destruct (IH seen) as [I1 I2]. split; auto.
      intros e. rewrite I2. cbn. split; [tauto|]. intros [[Hae|H] Hn]; [subst; tauto|tauto].
    + assert (Ha : ~ In a seen) by (intros H; apply edge_mem_In in H; congruence).
      destruct (IH (a :: seen)) as [I1 I2]. split.
      * constructor; auto. rewrite I2. cbn. tauto.
      * intros e. cbn. rewrite I2. cbn.
        destruct (edge_mem e [a]) eqn:Ea.
        -- apply edge_mem_In in Ea. cbn in Ea. destruct Ea as [->|[]]. tauto.
        -- assert (a <> e) by (intros ->; assert (In e [e]) by (cbn; auto); apply edge_mem_In in H; congruence).
           tauto.
Qed.

Lemma push_fold : forall (key val : nat * nat -> nat) es acc,
  (forall e, In e es -> key e < length acc) ->
  length (fold_left (fun a e => push_at a (key e) (val e)) es acc) = length acc /\
  forall i, nth i (fold_left (fun a e => push_at a (key e) (val e)) es acc) [] =
            nth i acc [] ++ map val (filter (fun e => key e =? i) es).
Proof.
  intros key val. induction es as [|e es IH]; intros acc Hk; cbn [fold_left].
  - split; auto. intros i. cbn. rewrite app_nil_r. reflexivity.
  - assert (Hl : length (push_at acc (key e) (val e)) = length acc) by (unfold push_at; apply upd_length).
    destruct (IH (push_at acc (key e) (val e))) as [I1 I2].
    { intros e' He'. rewrite Hl. apply Hk; cbn; auto. }
    split; [congruence|]. intros i. rewrite I2. cbn [filter]. unfold push_at.
    assert (key e < length acc) by (apply Hk; cbn; auto).
    destruct (Nat.eqb_spec (key e) i) as [<-|Hne].
    + rewrite nth_upd by auto. rewrite Nat.eqb_refl. cbn [map]. rewrite <- app_assoc. reflexivity.
    + rewrite nth_upd_other by auto. reflexivity.
Qed.

Lemma count_fold : forall es acc, (forall e : nat * nat, In e es -> snd e < length acc) ->
  length (fold_left (fun a (e : nat * nat) => upd a (snd e) (S (nth (snd e) a 0))) es acc) = length acc /\
  forall i, nth i (fold_left (fun a (e : nat * nat) => upd a (snd e) (S (nth (snd e) a 0))) es acc) 0 =
            nth i acc 0 + length (filter (fun e : nat * nat => snd e =? i) es).
Proof.
  induction es as [|e es IH]; intros acc Hk; cbn [fold_left].
  - split; [reflexivity|intros i; cbn; lia].
  - destruct (IH (upd acc (snd e) (S (nth (snd e) acc 0)))) as [I1 I2].
    { intros e' He'. rewrite upd_length. apply Hk; cbn; auto. }
    rewrite upd_length in I1. split; auto. intros i. rewrite I2. cbn [filter].
    assert (snd e < length acc) by (apply Hk; cbn; auto).
    destruct (Nat.eqb_spec (snd e) i) as [<-|Hne].
    + rewrite nth_upd by auto. rewrite Nat.eqb_refl. cbn [length]. lia.
    + rewrite nth_upd_other by auto. reflexivity.
Qed.

Lemma NoDup_map_in : forall A B (f : A -> B) l, NoDup l ->
  (forall a b, In a l -> In b l -> f a = f b -> a = b) -> NoDup (map f l).
Proof.
  induction l as [|a l IH]; intros Hnd Hinj; cbn; [constructor|].
  inversion Hnd; subst. constructor.
  - intros H. apply in_map_iff in H as [b [Hb1 Hb2]].
    assert (b = a) by (apply Hinj; cbn; auto). subst. auto.
  - apply IH; auto. intros x y Hx Hy. apply Hinj; cbn; auto.
Qed.

Lemma index_of_lt : forall x l, In x l -> index_of x l < length l.
Proof.
  induction l as [|a l IH]; intros H; [destruct H|]. cbn.
  destruct (Nat.eqb_spec x a); [lia|]. destruct H; [congruence|]. apply IH in H. lia.
Qed.

Lemma index_of_prefix : forall x A B, In x A -> index_of x (A ++ B) < length A.
Proof.
  induction A as [|a A IH]; intros B H; [destruct H|]. cbn.
  destruct (Nat.eqb_spec x a); [lia|]. destruct H; [congruence|]. apply (IH B) in H. lia.
Qed.

Definition topo_ok (p : poset) : Prop :=
  NoDup (ptopo p) /\ (forall v, In v (ptopo p) <-> v < pn p) /\
  forall c q, In q (parents p c) -> index_of c (ptopo p) < index_of q (ptopo p).

Theorem from_edges_wf : forall n edges p,
  (forall c q, In (c, q) edges -> c < n /\ q < n) ->
  from_edges n edges = inl p ->
  (exists rk, wf_poset p rk) /\ topo_ok p /\ pn p = n /\ length (ppar p) = n /\ length (pch p) = n /\
  (forall c q, In q (parents p c) <-> In (c, q) edges).
Proof.
  intros n edges p Hrange H. unfold from_edges in H.
  set (es := dedup_edges edges []) in *.
  destruct (dedup_spec edges []) as [Hes_nd Hes_in]. fold es in Hes_nd, Hes_in.
  assert (Hes : forall e, In e es <-> In e edges) by (intros e; rewrite Hes_in; cbn; tauto).
  assert (Hes_lt : forall e, In e es -> fst e < n /\ snd e < n).
  { intros [c q] He. apply Hes in He. apply Hrange in He. auto. }
  destruct (push_fold fst snd es (repeat [] n)) as [Pl Pn]; [intros e He; rewrite repeat_length; apply Hes_lt; auto|].
  destruct (push_fold snd fst es (repeat [] n)) as [Cl Cn]; [intros e He; rewrite repeat_length; apply Hes_lt; auto|].
  destruct (count_fold es (repeat 0 n)) as [Il In_]; [intros e He; rewrite repeat_length; apply Hes_lt; auto|].
  set (par := fold_left (fun a e => push_at a (fst e) (snd e)) es (repeat [] n)) in *.
  set (ch := fold_left (fun a e => push_at a (snd e) (fst e)) es (repeat [] n)) in *.
  set (indeg := fold_left (fun a (e : nat * nat) => upd a (snd e) (S (nth (snd e) a 0))) es (repeat 0 n)) in *.
  rewrite repeat_length in Pl, Cl, Il.
  assert (Ppar : forall c, nth c par [] = map snd (filter (fun e => fst e =? c) es)).
  { intros c. rewrite Pn. destruct (Nat.ltb_spec c n); [rewrite nth_repeat|rewrite nth_overflow by (rewrite repeat_length; lia)]; reflexivity. }
  assert (Pch : forall v, nth v ch [] = map fst (filter (fun e => snd e =? v) es)).
  { intros c. rewrite Cn. destruct (Nat.ltb_spec c n); [rewrite nth_repeat|rewrite nth_overflow by (rewrite repeat_length; lia)]; reflexivity. }
  assert (Hpar_in : forall c q, In q (nth c par []) <-> In (c, q) es).
  { intros c q. rewrite Ppar, in_map_iff. split.
    - intros [[a b] [E1 E2]]. apply filter_In in E2 as [E2 E3]. cbn [fst snd] in E1, E3. apply Nat.eqb_eq in E3. rewrite <- E1, <- E3. auto.
    - intros Hin. exists (c, q). split; auto. apply filter_In. split; auto. cbn. apply Nat.eqb_refl. }
  assert (Hch_in : forall v c, In c (nth v ch []) <-> In (c, v) es).
  { intros v c. rewrite Pch, in_map_iff. split.
    - intros [[a b] [E1 E2]]. apply filter_In in E2 as [E2 E3]. cbn [fst snd] in E1, E3. apply Nat.eqb_eq in E3. rewrite <- E1, <- E3. auto.
    - intros Hin. exists (c, v). split; auto. apply filter_In. split; auto. cbn. apply Nat.eqb_refl. }
  assert (Hpar_nd : forall c, NoDup (nth c par [])).
  { intros c. rewrite Ppar. apply NoDup_map_in; [apply NoDup_filter; auto|].
    intros [a b] [a' b'] Ha Hb E. apply filter_In in Ha as [_ Ha]. apply filter_In in Hb as [_ Hb].
    cbn [fst snd] in Ha, Hb, E. apply Nat.eqb_eq in Ha, Hb. congruence. }
  assert (Hch_nd : forall v, NoDup (nth v ch [])).
  { intros c. rewrite Pch. apply NoDup_map_in; [apply NoDup_filter; auto|].
    intros [a b] [a' b'] Ha Hb E. apply filter_In in Ha as [_ Ha]. apply filter_In in Hb as [_ Hb].
    cbn [fst snd] in Ha, Hb, E. apply Nat.eqb_eq in Ha, Hb. congruence. }
  assert (Hpar_lt : forall c q, In q (nth c par []) -> q < n).
  { intros c q Hq. apply Hpar_in in Hq. apply Hes_lt in Hq. tauto. }
  (* initial Kahn invariant *)
  assert (Hdeg : forall q, q < n -> nth q indeg 0 = length (pending n par q [])).
  { intros q Hq. rewrite In_, nth_repeat. cbn [plus].
    rewrite <- (map_length fst (filter (fun e : nat * nat => snd e =? q) es)). rewrite <- Pch.
    apply Nat.le_antisymm; apply NoDup_incl_length; auto.
    - intros c Hc. apply (in_pending n par Hpar_nd Hpar_lt). apply Hch_in in Hc. split; [apply Hes_lt in Hc; tauto|].
      split; [apply Hpar_in; auto|cbn; tauto].
    - apply NoDup_filter, seq_NoDup.
    - intros c Hc. apply (in_pending n par Hpar_nd Hpar_lt) in Hc as [_ [Hc _]]. apply Hch_in, Hpar_in; auto. }
  set (q0 := filter (fun i => nth i indeg 0 =? 0) (seq 0 n)) in *.
  assert (K0 : kinv n par indeg q0 []).
  { constructor; auto.
    - intros q Hq. apply filter_In in Hq as [Hq1 Hq2]. apply in_seq in Hq1. apply Nat.eqb_eq in Hq2.
      split; [lia|]. split; auto. apply length_zero_iff_nil. rewrite <- Hdeg by lia. auto.
    - apply NoDup_filter, seq_NoDup.
    - intros l1 q l2 E. destruct l1; discriminate.
    - constructor.
    - intros q []. }
  destruct (kahn_inv n par Hpar_nd Hpar_lt n indeg q0 [] K0) as [O [EO [HG [HN HL]]]].
  rewrite EO in H. rewrite rev_length in H.
  destruct (Nat.eqb_spec (length O) n) as [Hlen|]; [|discriminate].
  inversion H; subst p; clear H. cbn [pn ppar pch ptopo parents children].
  (* every node is in the order (pigeonhole) *)
  assert (Hall : forall v, v < n -> In v O).
  { intros v Hv. apply (NoDup_length_incl HN (l' := seq 0 n)).
    - rewrite seq_length. lia.
    - intros x Hx. apply in_seq. apply HL in Hx. lia.
    - apply in_seq. lia. }
  assert (Hidx : forall c q, In q (nth c par []) -> index_of c (rev O) < index_of q (rev O) /\ index_of q (rev O) < n).
  { intros c q Hq. pose proof (Hpar_in c q) as Hcq. apply Hcq in Hq as He. apply Hes_lt in He as [Hc Hq']. cbn in Hc, Hq'.
    destruct (in_split _ _ (Hall q Hq')) as [l1 [l2 E]].
    assert (Hc2 : In c l2) by (eapply HG; eauto).
    assert (Hq2 : ~ In q l2).
    { rewrite E in HN. apply NoDup_remove_2 in HN. intros Hx. apply HN. apply in_or_app; auto. }
    rewrite E, rev_app_distr. cbn [rev]. rewrite <- app_assoc. cbn [app].
    rewrite idx_app_head by (rewrite <- in_rev; auto).
    split.
    - apply index_of_prefix. rewrite <- in_rev. auto.
    - rewrite rev_length. rewrite <- Hlen, E, app_length. cbn. lia. }
  split; [|split; [|split; [|split; [|split]]]]; auto.
  - exists (fun v => index_of v (rev O)). constructor; cbn [pn ppar pch ptopo parents children].
    + intros c q Hq. unfold parents in Hq. cbn in Hq. apply Hidx; auto.
    + intros c v. unfold children, parents. cbn. rewrite Hch_in, Hpar_in. tauto.
    + intros v. unfold children. cbn. apply Hch_nd.
    + intros c v Hv. unfold parents in Hv. cbn in Hv. apply Hpar_in in Hv. apply Hes_lt in Hv. auto.
  - unfold topo_ok. cbn. split; [apply NoDup_rev; auto|]. split.
    + intros v. rewrite <- in_rev. split; auto.
    + intros c q Hq. unfold parents in Hq. cbn in Hq. apply Hidx; auto.
  - intros c q. unfold parents. cbn. rewrite Hpar_in. apply Hes.
Qed.

Lemma is_tree_forest : forall p, is_tree p = true -> forest p.
Proof.
  intros p H c. unfold is_tree in H. rewrite forallb_forall in H. unfold parents.
  destruct (Nat.ltb_spec c (length (ppar p))) as [Hc|Hc].
  - apply Nat.leb_le. apply H. apply nth_In. auto.
  - rewrite nth_overflow by lia. cbn. lia.
Qed.

(* ================= 7. index-level roll-up for the nested-set encoding ================= *)
Lemma rop_eqb_eq : forall a b, rop_eqb a b = true <-> a = b.
Proof. intros [] []; cbn; split; intros; congruence. Qed.

Lemma assoc_filter_other : forall o o' l, o <> o' ->
  assoc_op o (filter (fun e : rop * rdata => negb (rop_eqb o' (fst e))) l) = assoc_op o l.
Proof.
  intros o o' l Hne. induction l as [|[k d] l IH]; cbn; auto.
  destruct (rop_eqb o' k) eqn:E; cbn.
  - apply rop_eqb_eq in E. subst k. destruct (rop_eqb o o') eqn:E2; [apply rop_eqb_eq in E2; congruence|auto].
  - rewrite IH. reflexivity.
Qed.

Lemma assoc_set_measure : forall ix measure ops o acc, o <> OCount ->
  assoc_op o (fold_left (fun acc o' => match o' with
                                        | OCount => acc
                                        | _ => set_op o' (rollup_data ix measure o') acc
                                        end) ops acc)
  = if existsb (rop_eqb o) ops then Some (rollup_data ix measure o) else assoc_op o acc.
Proof.
  intros ix measure ops o. induction ops as [|o' ops IH]; intros acc Hne; cbn [fold_left existsb]; auto.
  rewrite IH by auto. destruct (existsb (rop_eqb o) ops); [rewrite orb_true_r; reflexivity|].
  rewrite orb_false_r. destruct (rop_eqb o o') eqn:E.
  - apply rop_eqb_eq in E. subst o'. destruct o; try congruence; cbn; reflexivity.
  - assert (o <> o') by (intros ->; destruct o'; discriminate).
    destruct o'; auto; unfold set_op; cbn [assoc_op]; rewrite E; apply assoc_filter_other; auto.
Qed.

(* by_rank: the value stored at rank tin[v] is the measure of v *)
Definition br_step (tin : list nat) (dflt : rv) (st : list rv * nat) (m : option Z) : list rv * nat :=
  (upd (fst st) (nth (snd st) tin 0) (rv_of m dflt), S (snd st)).

Lemma by_rank_fold : forall (tin : list nat) dflt n l k acc,
  (forall i j, i < n -> j < n -> nth i tin 0 = nth j tin 0 -> i = j) ->
  (forall i, i < n -> nth i tin 0 < length acc) ->
  k + length l <= n ->
  length (fst (fold_left (br_step tin dflt) l (acc, k))) = length acc /\
  forall v, v < n ->
    nth (nth v tin 0) (fst (fold_left (br_step tin dflt) l (acc, k))) RNull =
    if (k <=? v) && (v <? k + length l) then rv_of (nth (v - k) l None) dflt
    else nth (nth v tin 0) acc RNull.
Proof.
  intros tin dflt n. induction l as [|m l IH]; intros k acc Hinj Hlt Hk; cbn [fold_left length] in *.
  - split; auto. intros v Hv. destruct (Nat.leb_spec k v); destruct (Nat.ltb_spec v (k + 0)); cbn; auto; lia.
  - unfold br_step at 2. cbn [fst snd].
    destruct (IH (S k) (upd acc (nth k tin 0) (rv_of m dflt))) as [I1 I2]; auto.
    { intros i Hi. rewrite upd_length. auto. }
    { lia. }
    rewrite upd_length in I1. split; auto. intros v Hv. rewrite I2 by auto.
    destruct (Nat.eqb_spec v k) as [->|Hne].
    + replace (k - k) with 0 by lia. cbn [nth].
      destruct (Nat.leb_spec (S k) k); [lia|]. destruct (Nat.leb_spec k k); [|lia].
      destruct (Nat.ltb_spec k (k + S (length l))); [|lia]. cbn [andb].
      rewrite nth_upd by (apply Hlt; lia). rewrite Nat.eqb_refl. reflexivity.
    + destruct (Nat.leb_spec (S k) v); destruct (Nat.leb_spec k v); destruct (Nat.ltb_spec v (S k + length l));
        destruct (Nat.ltb_spec v (k + S (length l))); cbn [andb]; try lia.
      * replace (v - k) with (S (v - S k)) by lia. reflexivity.
      * rewrite nth_upd_other; auto. intros E. apply Hinj in E; lia.
      * rewrite nth_upd_other; auto. intros E. apply Hinj in E; lia.
Qed.

(* Z sums over lists *)
Definition zsum (f : nat -> Z) (l : list nat) : Z := fold_right (fun x acc => (f x + acc)%Z) 0%Z l.

Lemma zsum_perm : forall f l l', Permutation l l' -> zsum f l = zsum f l'.
Proof. intros f l l' H. unfold zsum. induction H; cbn; lia. Qed.

Lemma zsum_app : forall f l1 l2, zsum f (l1 ++ l2) = (zsum f l1 + zsum f l2)%Z.
Proof. unfold zsum. induction l1; intros; cbn; [lia|]. rewrite IHl1. lia. Qed.

Lemma sum_to_seq : forall a lo len, (sum_to a (lo + len) - sum_to a lo)%Z = zsum a (seq lo len).
Proof.
  intros a lo len. revert lo. induction len as [|len IH]; intros lo.
  - rewrite Nat.add_0_r. cbn. lia.
  - cbn [seq zsum fold_right]. fold (zsum a (seq (S lo) len)). rewrite <- IH.
    replace (lo + S len) with (S lo + len) by lia. cbn [sum_to]. lia.
Qed.

Lemma zsum_map : forall (f : nat -> Z) (g : nat -> nat) l, zsum f (map g l) = zsum (fun x => f (g x)) l.
Proof. unfold zsum. induction l; cbn; congruence. Qed.

Lemma zsum_ext_in : forall f g l, (forall x, In x l -> f x = g x) -> zsum f l = zsum g l.
Proof. unfold zsum. induction l; intros H; cbn; auto. rewrite H, IHl; cbn; auto. intros; apply H; cbn; auto. Qed.

Lemma map_nth_seq : forall (l : list nat) lo len, lo + len <= length l ->
  map (fun r => nth r l 0) (seq lo len) = firstn len (skipn lo l).
Proof.
  induction l as [|a l IH]; intros lo len H.
  - cbn in H. assert (len = 0) by lia. subst. destruct lo; reflexivity.
  - destruct lo as [|lo].
    + destruct len as [|len]; [reflexivity|]. cbn [seq map nth skipn firstn]. f_equal.
      rewrite <- seq_shift, map_map. cbn [nth]. specialize (IH 0 len). cbn [skipn] in IH. apply IH. cbn in H. lia.
    + cbn [skipn]. rewrite <- seq_shift, map_map. cbn [nth]. apply IH. cbn in H. lia.
Qed.

(* the SUM fold of rollup_spec as a Z sum *)
Definition mval (measure : list (option Z)) (d : nat) : Z :=
  match nth d measure None with Some z => z | None => 0%Z end.

Lemma spec_sum_fold : forall measure l a,
  fold_left (fun acc d => match nth d measure None with
                          | Some z => combine OSum acc (RInt z)
                          | None => acc
                          end) l (RInt a) = RInt (a + zsum (mval measure) l).
Proof.
  intros measure. induction l as [|d l IH]; intros a; cbn [fold_left zsum fold_right].
  - f_equal. lia.
  - unfold mval at 1. destruct (nth d measure None); cbn [combine]; rewrite IH; f_equal; fold (zsum (mval measure) l); lia.
Qed.

Lemma rv_int_of : forall m, rv_int (rv_of m (RInt 0)) = match m with Some z => z | None => 0%Z end.
Proof. intros [z|]; reflexivity. Qed.

Section NestedRollup.
  Variables (p : poset) (rk : nat -> nat).
  Hypothesis W : wf_poset p rk.
  Hypothesis F : forest p.
  Let n := pn p.
  Let order := flat_map (preorder (S n) (children p)) (roots p).
  Let tin := map (fun v => index_of v order) (seq 0 n).
  Let tout := map (fun v => index_of v order + length (preorder (S n) (children p) v) - 1) (seq 0 n).

  Ltac fh := auto; try apply W; try apply roots_nodup; try apply roots_spec.

  Lemma nr_enc : build_nested p = ENested tin tout order.
  Proof. reflexivity. Qed.

  Lemma nr_tin : forall v, v < n -> nth v tin 0 = tin_of n (children p) (roots p) v.
  Proof. intros v Hv. unfold tin. rewrite nth_map_seq by auto. reflexivity. Qed.

  Lemma nr_tout : forall v, v < n -> nth v tout 0 = tout_of n (children p) (roots p) v.
  Proof. intros v Hv. unfold tout. rewrite nth_map_seq by auto. reflexivity. Qed.

  Lemma nr_by_rank : forall measure o r, length measure = n -> r < n ->
    nth r (by_rank n tin measure o) RNull =
    rv_of (nth (nth r order 0) measure None) (match o with OSum => RInt 0 | _ => RNull end).
  Proof.
    intros measure o r Hm Hr.
    assert (Hv : nth r order 0 < n).
    { apply (order_lt n (parents p) (children p) (roots p) rk); fh.
      apply nth_In. rewrite (order_length n (parents p) (children p) (roots p) rk); fh. }
    destruct (by_rank_fold tin (match o with OSum => RInt 0 | _ => RNull end) n measure 0 (repeat RNull n)) as [_ B].
    - intros i j Hi Hj E. rewrite !nr_tin in E by auto.
      apply (tin_inj n (parents p) (children p) (roots p) rk) in E; fh.
    - intros i Hi. rewrite repeat_length, nr_tin by auto.
      apply (tin_lt n (parents p) (children p) (roots p) rk); fh.
    - lia.
    - specialize (B (nth r order 0) Hv). rewrite nr_tin in B by auto.
      rewrite (tin_nth n (parents p) (children p) (roots p) rk) in B; fh.
      unfold by_rank. change (fold_left _ measure (repeat RNull n, 0))
        with (fold_left (br_step tin (match o with OSum => RInt 0 | _ => RNull end)) measure (repeat RNull n, 0)).
      rewrite B. rewrite Nat.sub_0_r.
      destruct (Nat.leb_spec 0 (nth r order 0)); [|lia].
      destruct (Nat.ltb_spec (nth r order 0) (0 + length measure)); [reflexivity|lia].
  Qed.

  Lemma nr_by_rank_length : forall measure o, length measure = n -> length (by_rank n tin measure o) = n.
  Proof.
    intros measure o Hm.
    destruct (by_rank_fold tin (match o with OSum => RInt 0 | _ => RNull end) n measure 0 (repeat RNull n)) as [L _].
    - intros i j Hi Hj E. rewrite !nr_tin in E by auto.
      apply (tin_inj n (parents p) (children p) (roots p) rk) in E; fh.
    - intros i Hi. rewrite repeat_length, nr_tin by auto.
      apply (tin_lt n (parents p) (children p) (roots p) rk); fh.
    - lia.
    - unfold by_rank. change (fold_left _ measure (repeat RNull n, 0))
        with (fold_left (br_step tin (match o with OSum => RInt 0 | _ => RNull end)) measure (repeat RNull n, 0)).
      rewrite L. apply repeat_length.
  Qed.

  Lemma nr_desc_perm : forall y, y < n -> Permutation (preorder (S n) (children p) y) (spec_desc p y).
  Proof.
    intros y Hy. destruct (nested_descendants p rk None [] W F y Hy) as [D1 [D2 _]].
    assert (E : descendants (mk_index p (build_nested p) None []) y = preorder (S n) (children p) y).
    { unfold descendants, mk_index; cbn [ix_enc]. rewrite nr_enc, nr_tin, nr_tout by auto.
      apply (forest_slice n (parents p) (children p) (roots p) rk); fh. }
    cbv zeta in D1, D2. rewrite E in D1, D2.
    apply NoDup_Permutation; auto. unfold spec_desc. apply NoDup_filter, seq_NoDup.
  Qed.

  Definition arr (measure : list (option Z)) (r : nat) : Z := mval measure (nth r order 0).

  (* the range sum over the ranks of y's subtree is the sum of the measure over the subtree *)
  Lemma nr_range_sum : forall a measure y, y < n -> (forall r, r < n -> a r = arr measure r) ->
    (sum_to a (nth y tout 0%nat + 1)%nat - sum_to a (nth y tin 0%nat))%Z = zsum (mval measure) (spec_desc p y).
  Proof.
    intros a measure y Hy Ha. rewrite nr_tin, nr_tout by auto.
    set (lo := tin_of n (children p) (roots p) y). set (hi := tout_of n (children p) (roots p) y).
    pose proof (forest_count n (parents p) (children p) (roots p) rk) as Hc.
    assert (Hcnt : hi - lo + 1 = length (preorder (S n) (children p) y)) by (apply Hc; fh).
    assert (Hhi : hi < n) by (apply (tout_lt n (parents p) (children p) (roots p) rk); fh).
    assert (Hlohi : lo <= hi) by (unfold lo, hi, tin_of, tout_of; lia).
    replace (hi + 1) with (lo + (hi + 1 - lo)) by lia. rewrite sum_to_seq.
    rewrite (zsum_ext_in a (fun r => mval measure (nth r order 0))).
    - rewrite <- (zsum_map (mval measure) (fun r => nth r order 0)).
      assert (Hol : length order = n) by (apply (order_length n (parents p) (children p) (roots p) rk); fh).
      rewrite map_nth_seq by (rewrite Hol; lia).
      fold (slice order lo hi). unfold lo, hi.
      rewrite (forest_slice n (parents p) (children p) (roots p) rk); fh.
      apply zsum_perm. apply nr_desc_perm; auto.
    - intros r Hr. apply in_seq in Hr. apply Ha. lia.
  Qed.

  (* the invariant a nested-set index keeps through set_measure and every update_measure *)
  Definition nested_ok (ix : index) (measure : list (option Z)) : Prop :=
    ix_poset ix = p /\ ix_enc ix = build_nested p /\ ix_measure ix = Some measure /\ length measure = n /\
    forall d, assoc_op OSum (ix_rollups ix) = Some d -> exists t, d = RFenwick t /\ fw_inv t (arr measure) n.

  Lemma fw_inv_ext_lt : forall t a b m, fw_inv t a m -> (forall i, i < m -> a i = b i) -> fw_inv t b m.
  Proof.
    intros t a b m [Hlen Hinv] Hab. split; auto. intros j Hj. rewrite Hinv by auto.
    rewrite (sum_to_ext a b j), (sum_to_ext a b (j - lowbit j)); auto; intros i Hi; apply Hab; lia.
  Qed.

  Lemma nested_ok_set : forall measure ops, length measure = n ->
    nested_ok (set_measure (mk_index p (build_nested p) None []) measure ops) measure.
  Proof.
    intros measure ops Hm. repeat split; auto.
    intros d Hd. unfold set_measure, mk_index in Hd. cbn [ix_rollups] in Hd.
    rewrite assoc_set_measure in Hd by discriminate. cbn [assoc_op] in Hd.
    destruct (existsb (rop_eqb OSum) ops); [|discriminate]. inversion Hd; subst d.
    unfold rollup_data. cbn [ix_enc ix_poset is_invertible]. rewrite nr_enc.
    eexists; split; [reflexivity|]. fold n.
    pose proof (fw_build_inv (map rv_int (by_rank n tin measure OSum))) as HI.
    rewrite map_length, nr_by_rank_length in HI by auto.
    eapply fw_inv_ext_lt; [exact HI|]. intros i Hi. cbn beta.
    change 0%Z with (rv_int RNull). rewrite map_nth. rewrite nr_by_rank by auto.
    rewrite rv_int_of. reflexivity.
  Qed.

  Lemma assoc_map_upd : forall (f : rop -> rdata -> rdata) o l,
    assoc_op o (map (fun e : rop * rdata => (fst e, f (fst e) (snd e))) l) = option_map (f o) (assoc_op o l).
  Proof.
    intros f o. induction l as [|[k d] l IH]; cbn; auto.
    destruct (rop_eqb o k) eqn:E; auto. apply rop_eqb_eq in E. subst. reflexivity.
  Qed.

  Lemma mval_upd : forall measure node v x, node < length measure ->
    mval (upd measure node v) x = if x =? node then match v with Some z => z | None => 0%Z end else mval measure x.
  Proof.
    intros measure node v x H. unfold mval. rewrite nth_upd by auto. destruct (x =? node); reflexivity.
  Qed.

  Lemma nested_ok_update : forall ix measure node v, nested_ok ix measure -> node < n ->
    exists ix', update_measure ix node v = Some ix' /\ nested_ok ix' (upd measure node v) /\
      (forall o, assoc_op o (ix_rollups ix') = None <-> assoc_op o (ix_rollups ix) = None).
  Proof.
    intros ix measure node v [Hp [He [Hmm [Hl Hf]]]] Hnode.
    unfold update_measure. rewrite Hmm. eexists; split; [reflexivity|].
    split; [|intros o; cbn [ix_rollups]; rewrite assoc_map_upd; destruct (assoc_op o (ix_rollups ix)); cbn; split; congruence].
    repeat split; cbn [ix_poset ix_enc ix_measure ix_rollups]; auto.
    - rewrite upd_length. auto.
    - intros d Hd. rewrite assoc_map_upd in Hd.
      destruct (assoc_op OSum (ix_rollups ix)) as [d0|] eqn:E0; [|discriminate].
      destruct (Hf d0 eq_refl) as [t [-> Ht]]. cbn [option_map] in Hd. inversion Hd; subst d. clear Hd.
      unfold update_rdata. rewrite He, nr_enc. cbn [is_invertible].
      eexists; split; [reflexivity|].
      assert (Hrank : nth node tin 0 < n).
      { rewrite nr_tin by auto. apply (tin_lt n (parents p) (children p) (roots p) rk); fh. }
      eapply fw_inv_ext_lt; [apply fw_add_inv; eauto|].
      intros r Hr. unfold addf, arr. rewrite mval_upd by lia.
      assert (Hnr : nth (nth node tin 0) order 0 = node).
      { rewrite nr_tin by auto. unfold tin_of. apply nth_index_of.
        apply (in_order n (parents p) (children p) (roots p) rk); fh. }
      destruct (Nat.eqb_spec r (nth node tin 0)) as [->|Hne].
      + rewrite Hnr, Nat.eqb_refl. unfold mval.
        destruct v as [z|], (nth node measure None) as [z0|]; lia.
      + destruct (Nat.eqb_spec (nth r order 0) node) as [E|_]; auto.
        exfalso. apply Hne. rewrite <- E. rewrite nr_tin.
        * symmetry. apply (tin_nth n (parents p) (children p) (roots p) rk); fh.
        * rewrite E. auto.
  Qed.

  Lemma nested_ok_rollup : forall ix measure y, nested_ok ix measure -> y < n ->
    rollup ix y OCount = Some (rollup_spec p measure y OCount) /\
    (assoc_op OSum (ix_rollups ix) <> None -> rollup ix y OSum = Some (rollup_spec p measure y OSum)).
  Proof.
    intros ix measure y [Hp [He [Hmm [Hl Hf]]]] Hy. split.
    - destruct ix as [ip ie im ir]. cbn [ix_poset ix_enc] in Hp, He. subst ip ie.
      destruct (nested_descendants p rk im ir W F y Hy) as [_ [_ [D3 D4]]].
      cbv zeta in D3, D4. unfold mk_index in D3, D4. unfold rollup, rollup_spec. rewrite D3, D4. reflexivity.
    - intros Hs. destruct (assoc_op OSum (ix_rollups ix)) as [d|] eqn:E; [|congruence].
      destruct (Hf d eq_refl) as [t [-> Ht]].
      unfold rollup. rewrite E, He, nr_enc. f_equal.
      change (rollup_spec p measure y OSum) with
        (fold_left (fun acc d => match nth d measure None with
                                 | Some z => combine OSum acc (RInt z)
                                 | None => acc
                                 end) (spec_desc p y) (RInt 0)).
      rewrite spec_sum_fold. f_equal.
      rewrite (fw_range_spec t (arr measure) n); auto.
      + rewrite (nr_range_sum (arr measure) measure y); auto; lia.
      + rewrite nr_tin, nr_tout by auto. unfold tin_of, tout_of.
        assert (length (preorder (S n) (children p) y) >= 1)
          by (apply (T_nonempty n (parents p) (children p) (roots p) rk); fh).
        lia.
      + rewrite nr_tout by auto. apply (tout_lt n (parents p) (children p) (roots p) rk); fh.
  Qed.

  Fixpoint apply_updates (ix : index) (us : list (nat * option Z)) : option index :=
    match us with
    | [] => Some ix
    | (node, v) :: r => match update_measure ix node v with
                        | Some ix' => apply_updates ix' r
                        | None => None
                        end
    end.
  Definition upd_all (measure : list (option Z)) (us : list (nat * option Z)) : list (option Z) :=
    fold_left (fun m u => upd m (fst u) (snd u)) us measure.

  Theorem nested_rollup_after_updates : forall measure ops us, length measure = n -> In OSum ops ->
    (forall u, In u us -> fst u < n) ->
    exists ix', apply_updates (set_measure (mk_index p (build_nested p) None []) measure ops) us = Some ix' /\
      forall y, y < n ->
        rollup ix' y OSum = Some (rollup_spec p (upd_all measure us) y OSum) /\
        rollup ix' y OCount = Some (rollup_spec p (upd_all measure us) y OCount).
  Proof.
    intros measure ops us Hm Hin Hus.
    assert (G : forall us ix m, nested_ok ix m -> assoc_op OSum (ix_rollups ix) <> None ->
                (forall u, In u us -> fst u < n) ->
                exists ix', apply_updates ix us = Some ix' /\ nested_ok ix' (upd_all m us) /\
                            assoc_op OSum (ix_rollups ix') <> None).
    { induction us0 as [|[node v] us0 IH]; intros ix m Hok Hs Hu.
      - exists ix. auto.
      - destruct (nested_ok_update ix m node v Hok) as [ix1 [E1 [Hok1 Hs1]]].
        { apply (Hu (node, v)). cbn; auto. }
        cbn [apply_updates]. rewrite E1. unfold upd_all. cbn [fold_left fst snd].
        apply IH; auto.
        + intros H. apply Hs1 in H. auto.
        + intros u Hin'. apply Hu. cbn; auto. }
    destruct (G us _ measure (nested_ok_set measure ops Hm)) as [ix' [E [Hok Hs]]]; auto.
    { unfold set_measure, mk_index. cbn [ix_rollups]. rewrite assoc_set_measure by discriminate.
      replace (existsb (rop_eqb OSum) ops) with true
        by (symmetry; apply existsb_exists; exists OSum; split; auto).
      discriminate. }
    exists ix'; split; auto. intros y Hy.
    destruct (nested_ok_rollup ix' _ y Hok Hy) as [R1 R2]. split; auto.
  Qed.
End NestedRollup.

Ltac Zify.zify_post_hook ::= Z.div_mod_to_equations.
(* ================= 8. segment tree (MIN / MAX) ================= *)
(* RNull is a two-sided identity of every combine, so folds start from RNull *)
Definition mfold (o : rop) (l : list rv) : rv := fold_right (combine o) RNull l.

Lemma mfold_app : forall o a b, mfold o (a ++ b) = combine o (mfold o a) (mfold o b).
Proof.
  intros o a b. unfold mfold. induction a as [|x a IH]; cbn [app fold_right]; auto.
  rewrite IH. apply combine_assoc.
Qed.

Lemma mfold_perm : forall o l l', Permutation l l' -> mfold o l = mfold o l'.
Proof.
  intros o l l' H. unfold mfold. induction H; cbn [fold_right]; auto.
  - congruence.
  - rewrite !combine_assoc. f_equal. apply combine_comm.
  - congruence.
Qed.

Lemma combine_swap : forall o x y z, combine o (combine o x y) z = combine o (combine o x z) y.
Proof. intros. rewrite <- !combine_assoc. f_equal. apply combine_comm. Qed.

Section SegTree.
  Variable o : rop.
  Variable size : nat.
  Hypothesis Hsize : 1 <= size.

  Local Notation nd t k := (nth k t RNull) (only parsing).
  Definition node_ok (t : list rv) (i : nat) : Prop := nd t i = combine o (nd t (2 * i)) (nd t (2 * i + 1)).
  Definition st_inv (t : list rv) : Prop :=
    length t = 2 * size /\ forall i, 1 <= i < size -> node_ok t i.

  (* fold of the cells l .. r-1 *)
  Definition F (t : list rv) (l r : nat) : rv := mfold o (map (fun k => nth k t RNull) (seq l (r - l))).

  Lemma F_empty : forall t l r, r <= l -> F t l r = RNull.
  Proof. intros t l r H. unfold F. replace (r - l) with 0 by lia. reflexivity. Qed.

  Lemma F_left : forall t l r, l < r -> F t l r = combine o (nd t l) (F t (S l) r).
  Proof.
    intros t l r H. unfold F. replace (r - l) with (S (r - S l)) by lia. reflexivity.
  Qed.

  Lemma F_right : forall t l r, l < r -> F t l r = combine o (F t l (r - 1)) (nd t (r - 1)).
  Proof.
    intros t l r H. unfold F. replace (r - l) with (S (r - 1 - l)) by lia.
    rewrite seq_S, map_app, mfold_app. cbn [map mfold fold_right].
    rewrite combine_null_r. replace (l + (r - 1 - l)) with (r - 1) by lia. reflexivity.
  Qed.

  Lemma F_pair : forall t, st_inv t -> forall d a b, b - a = d -> 1 <= a -> a <= b -> b <= size ->
    F t (2 * a) (2 * b) = F t a b.
  Proof.
    intros t [Hlen Hok]. induction d as [|d IH]; intros a b Hd Ha Hab Hb.
    - rewrite !F_empty by lia. reflexivity.
    - rewrite (F_left t (2 * a)) by lia. rewrite (F_left t (S (2 * a))) by lia.
      rewrite (F_left t a) by lia. rewrite combine_assoc.
      replace (S (S (2 * a))) with (2 * (S a)) by lia.
      rewrite (IH (S a) b) by lia.
      f_equal. replace (S (2 * a)) with (2 * a + 1) by lia. symmetry. apply Hok. lia.
  Qed.

  Lemma odd_cases : forall l, (Nat.odd l = true /\ exists k, l = 2 * k + 1) \/ (Nat.odd l = false /\ exists k, l = 2 * k).
  Proof.
    intros l. destruct (Nat.odd l) eqn:E.
    - left. split; auto. apply Nat.odd_spec in E. destruct E as [k ->]. exists k. lia.
    - right. split; auto. rewrite <- Nat.negb_even in E. apply negb_false_iff in E.
      apply Nat.even_spec in E. destruct E as [k ->]. exists k. lia.
  Qed.

  Lemma range_loop_spec : forall t, st_inv t -> forall fuel l r acc,
    1 <= l -> r <= 2 * size -> r - l < fuel ->
    st_range_loop fuel t o l r acc = combine o acc (F t l r).
  Proof.
    intros t Hinv. induction fuel as [|f IH]; intros l r acc Hl Hr Hf; [lia|].
    cbn [st_range_loop]. destruct (Nat.ltb_spec l r) as [Hlr|Hlr].
    2:{ rewrite F_empty by lia. rewrite combine_null_r. reflexivity. }
    destruct (odd_cases l) as [[El [a Ea]]|[El [a Ea]]]; destruct (odd_cases r) as [[Er [b Eb]]|[Er [b Eb]]];
      rewrite El, Er; cbv beta iota zeta.
    - (* l odd, r odd *)
      rewrite IH by lia.
      replace ((l + 1) / 2) with (a + 1) by lia. replace ((r - 1) / 2) with b by lia.
      rewrite <- (F_pair t Hinv (b - (a + 1)) (a + 1) b) by lia.
      rewrite (F_left t l) by lia. rewrite (F_right t (S l)) by lia.
      replace (2 * (a + 1)) with (S l) by lia. replace (2 * b) with (r - 1) by lia.
      rewrite !combine_assoc. apply combine_swap.
    - (* l odd, r even *)
      rewrite IH by lia.
      replace ((l + 1) / 2) with (a + 1) by lia. replace (r / 2) with b by lia.
      rewrite <- (F_pair t Hinv (b - (a + 1)) (a + 1) b) by lia.
      rewrite (F_left t l) by lia.
      replace (2 * (a + 1)) with (S l) by lia. replace (2 * b) with r by lia.
      rewrite !combine_assoc. reflexivity.
    - (* l even, r odd *)
      rewrite IH by lia.
      replace (l / 2) with a by lia. replace ((r - 1) / 2) with b by lia.
      rewrite <- (F_pair t Hinv (b - a) a b) by lia.
      rewrite (F_right t l) by lia.
      replace (2 * a) with l by lia. replace (2 * b) with (r - 1) by lia.
      rewrite !combine_assoc. apply combine_swap.
    - (* l even, r even *)
      rewrite IH by lia.
      replace (l / 2) with a by lia. replace (r / 2) with b by lia.
      rewrite <- (F_pair t Hinv (b - a) a b) by lia.
      replace (2 * a) with l by lia. replace (2 * b) with r by lia. reflexivity.
  Qed.
End SegTree.

Lemma npow2_loop_spec : forall n fuel s, 1 <= s -> n < s + fuel ->
  n <= npow2_loop fuel s n /\ 1 <= npow2_loop fuel s n.
Proof.
  intros n. induction fuel as [|f IH]; intros s Hs Hf; cbn [npow2_loop]; [lia|].
  destruct (Nat.leb_spec n s); [lia|]. apply IH; lia.
Qed.

Lemma next_pow2_spec : forall n, n <= next_pow2 n /\ 1 <= next_pow2 n.
Proof. intros n. unfold next_pow2. apply npow2_loop_spec; lia. Qed.

Lemma copy_at_spec : forall (vs t : list rv) i, i + length vs <= length t ->
  length (copy_at t i vs) = length t /\
  forall k, nth k (copy_at t i vs) RNull =
            if (i <=? k) && (k <? i + length vs) then nth (k - i) vs RNull else nth k t RNull.
Proof.
  induction vs as [|v vs IH]; intros t i H; cbn [copy_at length] in *.
  - split; auto. intros k. destruct (Nat.leb_spec i k); destruct (Nat.ltb_spec k (i + 0)); cbn; auto; lia.
  - destruct (IH (upd t i v) (S i)) as [I1 I2]; [rewrite upd_length; lia|].
    rewrite upd_length in I1. split; auto. intros k. rewrite I2.
    destruct (Nat.eqb_spec k i) as [->|Hne].
    + destruct (Nat.leb_spec (S i) i); [lia|]. destruct (Nat.leb_spec i i); [|lia].
      destruct (Nat.ltb_spec i (i + S (length vs))); [|lia]. cbn [andb].
      rewrite nth_upd by lia. rewrite Nat.eqb_refl, Nat.sub_diag. reflexivity.
    + rewrite nth_upd_other by auto.
      destruct (Nat.leb_spec (S i) k); destruct (Nat.leb_spec i k); destruct (Nat.ltb_spec k (S i + length vs));
        destruct (Nat.ltb_spec k (i + S (length vs))); cbn [andb]; try lia; auto.
      replace (k - i) with (S (k - S i)) by lia. reflexivity.
Qed.

Definition build_step (o : rop) (t : list rv) (i : nat) : list rv :=
  upd t i (combine o (nth (2 * i) t RNull) (nth (2 * i + 1) t RNull)).

Lemma build_loop_spec : forall o size m t, length t = 2 * size -> m < size ->
  (forall i, m < i < size -> node_ok o t i) ->
  let t' := fold_left (build_step o) (rev (seq 1 m)) t in
  length t' = 2 * size /\ (forall i, 1 <= i < size -> node_ok o t' i) /\
  (forall k, size <= k -> nth k t' RNull = nth k t RNull).
Proof.
  intros o size. induction m as [|m IH]; intros t Hlen Hm Hok; cbv zeta.
  - cbn. split; [auto|]. split; [intros i Hi; apply Hok; lia|auto].
  - rewrite seq_S, rev_app_distr. cbn [rev app fold_left]. replace (1 + m) with (S m) by lia.
    destruct (IH (build_step o t (S m))) as [I1 [I2 I3]].
    + unfold build_step. rewrite upd_length. auto.
    + lia.
    + intros i Hi. unfold node_ok, build_step.
      destruct (Nat.eq_dec i (S m)) as [->|Hne].
      * rewrite nth_upd by lia. rewrite Nat.eqb_refl. rewrite !nth_upd_other by lia. reflexivity.
      * rewrite !nth_upd_other by lia. apply Hok. lia.
    + cbv zeta in I1, I2, I3. split; auto. split; auto.
      intros k Hk. rewrite I3 by auto. unfold build_step. apply nth_upd_other. lia.
Qed.

(* what a segment tree must satisfy to represent the array [vals] *)
Definition st_ok (s : segtree) (vals : list rv) : Prop :=
  1 <= st_size s /\ st_n s = length vals /\ length vals <= st_size s /\
  st_inv (st_op s) (st_size s) (st_tree s) /\
  forall j, j < st_size s -> nth (st_size s + j) (st_tree s) RNull = nth j vals RNull.

Lemma st_build_ok : forall vals o, identity o = RNull -> st_ok (st_build vals o) vals /\ st_op (st_build vals o) = o.
Proof.
  intros vals o Hid. unfold st_build.
  set (n := length vals). set (size := next_pow2 (Nat.max n 1)).
  destruct (next_pow2_spec (Nat.max n 1)) as [P1 P2]. fold size in P1, P2.
  set (t0 := copy_at (repeat (identity o) (2 * size)) size vals).
  destruct (copy_at_spec vals (repeat (identity o) (2 * size)) size) as [C1 C2]; [rewrite repeat_length; lia|].
  fold t0 in C1, C2. rewrite repeat_length in C1.
  change (fold_left _ (rev (seq 1 (size - 1))) t0) with (fold_left (build_step o) (rev (seq 1 (size - 1))) t0).
  destruct (build_loop_spec o size (size - 1) t0) as [B1 [B2 B3]]; auto; try lia.
  cbv zeta in B1, B2, B3.
  split; [|reflexivity]. unfold st_ok. cbn [st_size st_n st_op st_tree].
  split; [lia|]. split; [reflexivity|]. split; [lia|]. split; [split; auto|].
  intros j Hj. rewrite B3 by lia. rewrite C2.
  destruct (Nat.leb_spec size (size + j)); [|lia].
  destruct (Nat.ltb_spec (size + j) (size + length vals)); cbn [andb].
  - f_equal. lia.
  - rewrite Hid, nth_repeat. rewrite nth_overflow by (fold n; lia). reflexivity.
Qed.

Lemma map_nth_seq_rv : forall (l : list rv) lo len, lo + len <= length l ->
  map (fun r => nth r l RNull) (seq lo len) = firstn len (skipn lo l).
Proof.
  induction l as [|a l IH]; intros lo len H.
  - cbn in H. assert (len = 0) by lia. subst. destruct lo; reflexivity.
  - destruct lo as [|lo].
    + destruct len as [|len]; [reflexivity|]. cbn [seq map nth skipn firstn]. f_equal.
      rewrite <- seq_shift, map_map. cbn [nth]. specialize (IH 0 len). cbn [skipn] in IH. apply IH. cbn in H. lia.
    + cbn [skipn]. rewrite <- seq_shift, map_map. cbn [nth]. apply IH. cbn in H. lia.
Qed.

Theorem st_range_ok : forall s vals lo hi, st_ok s vals -> identity (st_op s) = RNull ->
  lo <= hi -> hi < length vals ->
  st_range s lo hi = mfold (st_op s) (firstn (hi + 1 - lo) (skipn lo vals)).
Proof.
  intros s vals lo hi [Hs [Hn [Hle [Hinv Hleaf]]]] Hid Hlo Hhi. unfold st_range.
  destruct (Nat.ltb_spec hi lo); [lia|]. destruct (Nat.leb_spec (st_n s) lo); [lia|]. cbn [orb].
  rewrite Nat.min_l by lia.
  rewrite (range_loop_spec (st_op s) (st_size s)) by (auto; lia).
  rewrite Hid. cbn [combine]. unfold F.
  replace (hi + st_size s + 1 - (lo + st_size s)) with (hi + 1 - lo) by lia.
  rewrite <- map_nth_seq_rv by lia. f_equal.
  assert (G : forall len a, a + len <= st_size s ->
            map (fun k => nth k (st_tree s) RNull) (seq (a + st_size s) len) = map (fun r => nth r vals RNull) (seq a len)).
  { induction len as [|len IHl]; intros a Ha; cbn [seq map]; auto.
    f_equal; [rewrite Nat.add_comm; apply Hleaf; lia|]. apply (IHl (S a)). lia. }
  apply G. lia.
Qed.

Lemma set_loop_spec : forall o size, 1 <= size -> forall fuel i t,
  length t = 2 * size -> 1 <= i < 2 * size -> i < 2 ^ fuel ->
  (forall k, 1 <= k < size -> k <> i / 2 -> node_ok o t k) ->
  length (st_set_loop fuel t o i) = 2 * size /\
  (forall k, 1 <= k < size -> node_ok o (st_set_loop fuel t o i) k) /\
  (forall k, size <= k -> nth k (st_set_loop fuel t o i) RNull = nth k t RNull).
Proof.
  intros o size Hs. induction fuel as [|f IH]; intros i t Hlen Hi Hf Hok.
  - cbn in Hf. lia.
  - cbn [st_set_loop]. destruct (Nat.ltb_spec 1 i) as [H1|H1].
    + set (p := i / 2). assert (Hp : 1 <= p < size) by (unfold p; lia).
      rewrite Nat.pow_succ_r' in Hf.
      destruct (IH p (upd t p (combine o (nth (2 * p) t RNull) (nth (2 * p + 1) t RNull)))) as [I1 [I2 I3]].
      * rewrite upd_length. auto.
      * lia.
      * unfold p. lia.
      * intros k Hk Hne. unfold node_ok.
        destruct (Nat.eq_dec k p) as [->|Hkp].
        -- rewrite nth_upd by lia. rewrite Nat.eqb_refl. rewrite !nth_upd_other by lia. reflexivity.
        -- rewrite !nth_upd_other by lia. apply Hok; auto.
      * split; auto. split; auto. intros k Hk. rewrite I3 by auto. apply nth_upd_other. lia.
    + split; auto. split; auto. intros k Hk. apply Hok; auto. lia.
Qed.

Theorem st_set_ok : forall s vals pos v, st_ok s vals -> pos < length vals ->
  st_ok (st_set s pos v) (upd vals pos v) /\ st_op (st_set s pos v) = st_op s.
Proof.
  intros s vals pos v [Hs [Hn [Hle [[Hlen Hok] Hleaf]]]] Hpos. unfold st_set.
  destruct (Nat.leb_spec (st_n s) pos); [lia|]. cbn [st_op]. split; [|reflexivity].
  set (i := pos + st_size s).
  destruct (set_loop_spec (st_op s) (st_size s) Hs (S (st_size s)) i (upd (st_tree s) i v)) as [L1 [L2 L3]].
  - rewrite upd_length. auto.
  - unfold i. lia.
  - pose proof (Nat.pow_gt_lin_r 2 (st_size s)). rewrite Nat.pow_succ_r'. unfold i. lia.
  - intros k Hk Hne. unfold node_ok. rewrite !nth_upd_other by (unfold i in *; lia). apply Hok. auto.
  - unfold st_ok. cbn [st_size st_n st_op st_tree]. rewrite upd_length.
    split; auto. split; auto. split; auto. split; [split; auto|].
    intros j Hj. rewrite L3 by lia.
    destruct (Nat.eq_dec j pos) as [->|Hne].
    + rewrite Nat.add_comm. fold i. rewrite !nth_upd by (try rewrite Hlen; unfold i; lia).
      rewrite !Nat.eqb_refl. reflexivity.
    + rewrite !nth_upd_other by (unfold i; lia). apply Hleaf. auto.
Qed.

(* ================= 9. nested-set MIN / MAX roll-up at index level ================= *)
Lemma spec_mm_fold : forall o measure l acc,
  fold_left (fun acc d => match nth d measure None with
                          | Some z => combine o acc (RInt z)
                          | None => acc
                          end) l acc
  = combine o acc (mfold o (map (fun x => rv_of (nth x measure None) RNull) l)).
Proof.
  intros o measure. induction l as [|d l IH]; intros acc; cbn [fold_left map mfold fold_right].
  - rewrite combine_null_r. reflexivity.
  - rewrite IH. fold (mfold o (map (fun x => rv_of (nth x measure None) RNull) l)).
    destruct (nth d measure None); cbn [rv_of]; [apply eq_sym, combine_assoc|reflexivity].
Qed.

Definition mm (o : rop) : Prop := o = OMin \/ o = OMax.

Section NestedMM.
  Variables (p : poset) (rk : nat -> nat).
  Hypothesis W : wf_poset p rk.
  Hypothesis F : forest p.
  Let n := pn p.
  Let order := flat_map (preorder (S n) (children p)) (roots p).
  Let tin := map (fun v => index_of v order) (seq 0 n).
  Let tout := map (fun v => index_of v order + length (preorder (S n) (children p) v) - 1) (seq 0 n).
  Ltac fh := auto; try apply W; try apply roots_nodup; try apply roots_spec.

  Definition rank_vals (measure : list (option Z)) : list rv :=
    map (fun x => rv_of (nth x measure None) RNull) order.

  Lemma order_len : length order = n.
  Proof. apply (order_length n (parents p) (children p) (roots p) rk); fh. Qed.

  Lemma rank_vals_nth : forall measure r, r < n ->
    nth r (rank_vals measure) RNull = rv_of (nth (nth r order 0) measure None) RNull.
  Proof.
    intros measure r Hr. unfold rank_vals.
    rewrite (nth_indep _ RNull (rv_of (nth 0 measure None) RNull)) by (rewrite map_length, order_len; auto).
    rewrite (map_nth (fun x => rv_of (nth x measure None) RNull)). reflexivity.
  Qed.

  Definition nested_ok_mm (ix : index) (measure : list (option Z)) : Prop :=
    ix_poset ix = p /\ ix_enc ix = build_nested p /\ ix_measure ix = Some measure /\ length measure = n /\
    forall o d, mm o -> assoc_op o (ix_rollups ix) = Some d ->
      exists s, d = RSeg s /\ st_op s = o /\ st_ok s (rank_vals measure).

  Lemma by_rank_mm : forall measure o, mm o -> length measure = n -> by_rank n tin measure o = rank_vals measure.
  Proof.
    intros measure o Ho Hm. apply nth_ext with (d := RNull) (d' := RNull).
    - rewrite (nr_by_rank_length p rk W F) by auto. unfold rank_vals. rewrite map_length, order_len. reflexivity.
    - intros r Hr. rewrite (nr_by_rank_length p rk W F) in Hr by auto.
      rewrite (nr_by_rank p rk W F) by auto. rewrite rank_vals_nth by auto.
      destruct Ho as [->| ->]; reflexivity.
  Qed.

  Lemma nested_ok_mm_set : forall measure ops, length measure = n ->
    nested_ok_mm (set_measure (mk_index p (build_nested p) None []) measure ops) measure.
  Proof.
    intros measure ops Hm. repeat split; auto.
    intros o d Ho Hd. unfold set_measure, mk_index in Hd. cbn [ix_rollups] in Hd.
    rewrite assoc_set_measure in Hd by (destruct Ho as [->| ->]; discriminate). cbn [assoc_op] in Hd.
    destruct (existsb (rop_eqb o) ops); [|discriminate]. inversion Hd; subst d.
    unfold rollup_data. cbn [ix_enc ix_poset]. rewrite (nr_enc p). cbn [pn]. fold n.
    replace (is_invertible o) with false by (destruct Ho as [->| ->]; reflexivity).
    change (map (fun v => index_of v (flat_map (preorder (S n) (children p)) (roots p))) (seq 0 n)) with tin.
    rewrite by_rank_mm by auto.
    destruct (st_build_ok (rank_vals measure) o) as [B1 B2]; [destruct Ho as [->| ->]; reflexivity|].
    eexists; split; [reflexivity|]. split; auto.
  Qed.

  Lemma nested_ok_mm_update : forall ix measure node v ix', nested_ok_mm ix measure -> node < n ->
    update_measure ix node v = Some ix' -> nested_ok_mm ix' (upd measure node v).
  Proof.
    intros ix measure node v ix' [Hp [He [Hmm [Hl Hf]]]] Hnode Hu.
    unfold update_measure in Hu. rewrite Hmm in Hu. inversion Hu; subst ix'; clear Hu.
    repeat split; cbn [ix_poset ix_enc ix_measure ix_rollups]; auto.
    - rewrite upd_length. auto.
    - intros o d Ho Hd. rewrite (assoc_map_upd) in Hd.
      destruct (assoc_op o (ix_rollups ix)) as [d0|] eqn:E0; [|discriminate].
      destruct (Hf o d0 Ho E0) as [s [-> [Hop Hok]]]. cbn [option_map] in Hd. inversion Hd; subst d. clear Hd.
      unfold update_rdata. rewrite He, (nr_enc p).
      assert (Hrank : nth node tin 0 < n).
      { unfold tin. rewrite nth_map_seq by auto. apply (tin_lt n (parents p) (children p) (roots p) rk); fh. }
      assert (Hnr : nth (nth node tin 0) order 0 = node).
      { unfold tin. rewrite nth_map_seq by auto. apply nth_index_of.
        apply (in_order n (parents p) (children p) (roots p) rk); fh. }
      assert (Hrl : length (rank_vals measure) = n) by (unfold rank_vals; rewrite map_length; apply order_len).
      destruct (st_set_ok s (rank_vals measure) (nth node tin 0) (rv_of v (identity o)) Hok) as [S1 S2]; [lia|].
      eexists; split; [reflexivity|]. split; [etransitivity; [exact S2|exact Hop]|].
      replace (rank_vals (upd measure node v)) with (upd (rank_vals measure) (nth node tin 0) (rv_of v (identity o))); auto.
      apply nth_ext with (d := RNull) (d' := RNull).
      + rewrite upd_length. unfold rank_vals. rewrite !map_length. reflexivity.
      + intros r Hr. rewrite upd_length, Hrl in Hr. rewrite rank_vals_nth by auto.
        destruct (Nat.eq_dec r (nth node tin 0)) as [->|Hne].
        * rewrite nth_upd by lia. rewrite Nat.eqb_refl, Hnr. rewrite nth_upd by lia. rewrite Nat.eqb_refl.
          destruct Ho as [->| ->]; reflexivity.
        * rewrite nth_upd_other by auto. rewrite rank_vals_nth by auto.
          rewrite nth_upd_other; auto. intros E. apply Hne. rewrite <- E.
          unfold tin. rewrite nth_map_seq by (rewrite E; auto). symmetry.
          apply (tin_nth n (parents p) (children p) (roots p) rk); fh.
  Qed.

  Lemma nested_ok_mm_rollup : forall ix measure y o, nested_ok_mm ix measure -> y < n -> mm o ->
    assoc_op o (ix_rollups ix) <> None -> rollup ix y o = Some (rollup_spec p measure y o).
  Proof.
    intros ix measure y o [Hp [He [Hmm [Hl Hf]]]] Hy Ho Hs.
    destruct (assoc_op o (ix_rollups ix)) as [d|] eqn:E; [|congruence].
    destruct (Hf o d Ho E) as [s [-> [Hop Hok]]].
    assert (Hrl : length (rank_vals measure) = n) by (unfold rank_vals; rewrite map_length; apply order_len).
    assert (Hid : identity (st_op s) = RNull) by (rewrite Hop; destruct Ho as [->| ->]; reflexivity).
    assert (Hne : length (preorder (S n) (children p) y) >= 1)
      by (apply (T_nonempty n (parents p) (children p) (roots p) rk); fh).
    assert (R : rollup ix y o = Some (st_range s (nth y tin 0) (nth y tout 0))).
    { unfold rollup. rewrite E, He, (nr_enc p). destruct Ho as [->| ->]; reflexivity. }
    rewrite R. f_equal.
    assert (Htin : nth y tin 0 = tin_of n (children p) (roots p) y) by (unfold tin; rewrite nth_map_seq by auto; reflexivity).
    assert (Htout : nth y tout 0 = tout_of n (children p) (roots p) y) by (unfold tout; rewrite nth_map_seq by auto; reflexivity).
    rewrite (st_range_ok s (rank_vals measure)); auto.
    - rewrite Hop. unfold rank_vals. rewrite skipn_map, firstn_map.
      fold (slice order (nth y tin 0) (nth y tout 0)). rewrite Htin, Htout.
      rewrite (forest_slice n (parents p) (children p) (roots p) rk); fh.
      assert (RS : rollup_spec p measure y o =
                   fold_left (fun acc d => match nth d measure None with
                                           | Some z => combine o acc (RInt z)
                                           | None => acc
                                           end) (spec_desc p y) RNull)
        by (destruct Ho as [->| ->]; reflexivity).
      rewrite RS, spec_mm_fold. cbn [combine].
      apply mfold_perm. apply Permutation_map. apply (nr_desc_perm p rk W F); auto.
    - rewrite Htin, Htout. unfold tin_of, tout_of. lia.
    - rewrite Hrl, Htout. apply (tout_lt n (parents p) (children p) (roots p) rk); fh.
  Qed.

  (* all four monoids, after every sequence of point updates *)
  Theorem nested_rollup_all : forall measure ops us, length measure = n ->
    (forall u, In u us -> fst u < n) ->
    exists ix', apply_updates (set_measure (mk_index p (build_nested p) None []) measure ops) us = Some ix' /\
      forall y o, y < n -> (o = OCount \/ In o ops) ->
        rollup ix' y o = Some (rollup_spec p (upd_all measure us) y o).
  Proof.
    intros measure ops us Hm Hus.
    set (ix0 := set_measure (mk_index p (build_nested p) None []) measure ops).
    assert (G : forall us ix m, nested_ok p ix m -> nested_ok_mm ix m ->
                (forall u, In u us -> fst u < n) ->
                exists ix', apply_updates ix us = Some ix' /\ nested_ok p ix' (upd_all m us) /\
                            nested_ok_mm ix' (upd_all m us) /\
                            (forall o, assoc_op o (ix_rollups ix') = None <-> assoc_op o (ix_rollups ix) = None)).
    { induction us0 as [|[node v] us0 IH]; intros ix m H1 H2 Hu.
      - exists ix. split; [reflexivity|]. split; [exact H1|]. split; [exact H2|]. intros o; tauto.
      - destruct (nested_ok_update p rk W F ix m node v H1) as [ix1 [E1 [Hok1 Hs1]]].
        { apply (Hu (node, v)). cbn; auto. }
        assert (Hok2 : nested_ok_mm ix1 (upd m node v)).
        { apply (nested_ok_mm_update ix m node v ix1); auto. apply (Hu (node, v)). cbn; auto. }
        cbn [apply_updates]. rewrite E1. unfold upd_all. cbn [fold_left fst snd].
        destruct (IH ix1 (upd m node v) Hok1 Hok2) as [ix' [E' [K1 [K2 K3]]]].
        { intros u Hin'. apply Hu. cbn; auto. }
        exists ix'. split; [exact E'|]. split; [exact K1|]. split; [exact K2|]. intros o. rewrite K3. apply Hs1. }
    destruct (G us ix0 measure (nested_ok_set p rk W F measure ops Hm) (nested_ok_mm_set measure ops Hm) Hus)
      as [ix' [E [K1 [K2 K3]]]].
    exists ix'; split; auto. intros y o Hy Ho.
    assert (Hin : forall o', o' <> OCount -> In o' ops -> assoc_op o' (ix_rollups ix') <> None).
    { intros o' Hne Hin H. apply K3 in H. unfold ix0, set_measure, mk_index in H. cbn [ix_rollups] in H.
      rewrite assoc_set_measure in H by auto.
      replace (existsb (rop_eqb o') ops) with true in H
        by (symmetry; apply existsb_exists; exists o'; split; auto; apply rop_eqb_eq; auto).
      discriminate. }
    destruct (nested_ok_rollup p rk W F ix' _ y K1 Hy) as [R1 R2].
    destruct o.
    - apply R2. apply Hin; [discriminate|]. destruct Ho; [discriminate|auto].
    - exact R1.
    - apply nested_ok_mm_rollup; auto; [left; auto|]. apply Hin; [discriminate|]. destruct Ho; [discriminate|auto].
    - apply nested_ok_mm_rollup; auto; [right; auto|]. apply Hin; [discriminate|]. destruct Ho; [discriminate|auto].
  Qed.
End NestedMM.

(* ================= 10. chain decomposition ================= *)
(* consecutive elements of a chain are covering edges parent -> child *)
Fixpoint linked (p : poset) (ch : list nat) : Prop :=
  match ch with
  | a :: ((b :: _) as r) => In b (children p a) /\ linked p r
  | _ => True
  end.

Section Chains.
  Variables (p : poset) (rk : nat -> nat).
  Hypothesis W : wf_poset p rk.
  Hypothesis TO : topo_ok p.
  Let n := pn p.

  (* a rank bounded by n: the position in topo_up *)
  Let tr (v : nat) : nat := index_of v (ptopo p).

  Lemma topo_len : length (ptopo p) = n.
  Proof.
    destruct TO as [Hnd [Hall _]]. rewrite <- (seq_length n 0).
    apply Nat.le_antisymm; apply NoDup_incl_length; auto.
    - intros x Hx. apply in_seq. apply Hall in Hx. fold n in Hx. lia.
    - apply seq_NoDup.
    - intros x Hx. apply in_seq in Hx. apply Hall. fold n. lia.
  Qed.

  Lemma tr_lt : forall v, v < n -> tr v < n.
  Proof.
    intros v Hv. unfold tr. rewrite <- topo_len. apply index_of_lt. destruct TO as [_ [Hall _]]. apply Hall. auto.
  Qed.

  Lemma child_lt : forall v c, In c (children p v) -> c < n /\ v < n /\ tr c < tr v.
  Proof.
    intros v c Hc. apply (wf_ch p rk W) in Hc. destruct (wf_lt p rk W c v Hc).
    destruct TO as [_ [_ Hidx]]. split; auto. split; auto. apply Hidx; auto.
  Qed.

  Lemma grow_spec : forall fuel v used, tr v < fuel -> v < n -> length used = n -> nth v used false = false ->
    exists r, fst (grow_chain fuel p v used) = v :: r /\
      linked p (v :: r) /\ NoDup (v :: r) /\
      (forall x, In x (v :: r) -> x < n /\ nth x used false = false) /\
      length (snd (grow_chain fuel p v used)) = n /\
      forall x, x < n -> nth x (snd (grow_chain fuel p v used)) false = nth x used false || memn x (v :: r).
  Proof.
    induction fuel as [|f IH]; intros v used Hf Hv Hl Hu; [lia|]. cbn [grow_chain].
    set (used1 := upd used v true).
    assert (Hl1 : length used1 = n) by (unfold used1; rewrite upd_length; auto).
    assert (H1 : forall x, nth x used1 false = if x =? v then true else nth x used false).
    { intros x. unfold used1. destruct (Nat.eqb_spec x v) as [->|Hne].
      - rewrite nth_upd by lia. rewrite Nat.eqb_refl. reflexivity.
      - rewrite nth_upd_other by auto. reflexivity. }
    destruct (find (fun c => negb (nth c used1 false)) (children p v)) as [c|] eqn:Ef.
    - apply find_some in Ef as [Hc Hcu]. apply negb_true_iff in Hcu.
      destruct (child_lt v c Hc) as [Hcn [_ Hrk]].
      destruct (IH c used1) as [r [E [Lk [Nd [Hin [Hlen Hnth]]]]]]; auto; try lia.
      destruct (grow_chain f p c used1) as [ch used'] eqn:G. cbn [fst snd] in *. subst ch.
      exists (c :: r). split; [reflexivity|]. split; [cbn [linked]; auto|].
      assert (Hvc : ~ In v (c :: r)).
      { intros Hin'. apply Hin in Hin' as [_ Hx]. rewrite H1, Nat.eqb_refl in Hx. discriminate. }
      split; [constructor; auto|]. split; [|split; auto].
      + intros x [<-|Hx]; [auto|]. destruct (Hin x Hx) as [Hxn Hxu]. split; auto.
        rewrite H1 in Hxu. destruct (x =? v); [discriminate|auto].
      + intros x Hx. rewrite Hnth by auto. rewrite H1.
        unfold memn at 2. cbn [existsb]. fold (memn x (c :: r)).
        destruct (Nat.eqb_spec x v); cbn; [rewrite orb_true_r; reflexivity|reflexivity].
    - exists []. cbn [fst snd]. split; [reflexivity|]. split; [cbn; auto|].
      split; [constructor; [intros []|constructor]|]. split; [|split; auto].
      + intros x [<-|[]]. auto.
      + intros x Hx. rewrite H1. unfold memn. cbn [existsb]. destruct (x =? v); [rewrite orb_true_r|rewrite orb_false_r]; reflexivity.
  Qed.

  Definition dstep (st : list (list nat) * list bool) (u : nat) : list (list nat) * list bool :=
    let '(chains, used) := st in
    if nth u used false then st
    else let '(c, used') := grow_chain (S (pn p)) p u used in (chains ++ [c], used').

  Record dinv (chains : list (list nat)) (used : list bool) : Prop := {
    d_len : length used = n;
    d_used : forall v, v < n -> nth v used false = memn v (concat chains);
    d_nd : NoDup (concat chains);
    d_lt : forall v, In v (concat chains) -> v < n;
    d_link : forall ch, In ch chains -> linked p ch /\ ch <> [] }.

  Lemma dstep_inv : forall chains used u, u < n -> dinv chains used ->
    dinv (fst (dstep (chains, used) u)) (snd (dstep (chains, used) u)) /\
    In u (concat (fst (dstep (chains, used) u))) /\
    (forall x, In x (concat chains) -> In x (concat (fst (dstep (chains, used) u)))).
  Proof.
    intros chains used u Hu [Dl Du Dn Dt Dk]. unfold dstep.
    destruct (nth u used false) eqn:E.
    - cbn [fst snd]. split; [constructor; auto|]. split; auto.
      apply memn_In. rewrite <- Du; auto.
    - destruct (grow_spec (S (pn p)) u used) as [r [G1 [G2 [G3 [G4 [G5 G6]]]]]]; auto.
      { pose proof (tr_lt u Hu). fold n. lia. }
      destruct (grow_chain (S (pn p)) p u used) as [c used'] eqn:G. cbn [fst snd] in *. subst c.
      assert (Ec : concat (chains ++ [u :: r]) = concat chains ++ u :: r).
      { rewrite concat_app. cbn [concat]. rewrite app_nil_r. reflexivity. }
      split; [constructor|].
      + auto.
      + intros v Hv. rewrite Ec, G6 by auto. rewrite Du by auto.
        unfold memn. rewrite existsb_app. reflexivity.
      + rewrite Ec. apply NoDup_app_intro; auto. intros x Hx Hx2. apply G4 in Hx2 as [Hxn Hxu].
        rewrite Du in Hxu by auto. apply memn_In in Hx. congruence.
      + intros v Hv. rewrite Ec in Hv. apply in_app_or in Hv as [Hv|Hv]; auto. apply G4; auto.
      + intros ch Hch. apply in_app_or in Hch as [Hch|[<-|[]]]; auto. split; auto. discriminate.
      + rewrite Ec. split; [apply in_or_app; right; cbn; auto|]. intros x Hx. apply in_or_app; auto.
  Qed.

  Lemma dfold_inv : forall l chains used, (forall u, In u l -> u < n) -> dinv chains used ->
    dinv (fst (fold_left dstep l (chains, used))) (snd (fold_left dstep l (chains, used))) /\
    (forall u, In u l -> In u (concat (fst (fold_left dstep l (chains, used))))) /\
    (forall x, In x (concat chains) -> In x (concat (fst (fold_left dstep l (chains, used))))).
  Proof.
    induction l as [|u l IH]; intros chains used Hl D; cbn [fold_left].
    - split; auto. split; auto. intros u [].
    - destruct (dstep_inv chains used u) as [D1 [D2 D3]]; auto; [apply Hl; cbn; auto|].
      destruct (dstep (chains, used) u) as [chains1 used1] eqn:E. cbn [fst snd] in *.
      destruct (IH chains1 used1) as [I1 [I2 I3]]; auto; [intros x Hx; apply Hl; cbn; auto|].
      split; auto. split.
      + intros x [<-|Hx]; auto.
      + intros x Hx. auto.
  Qed.

  Lemma decompose_eq : decompose_chains p = fst (fold_left dstep (topo_down p) ([], repeat false (pn p))).
  Proof. reflexivity. Qed.

  Theorem chains_partition :
    NoDup (concat (decompose_chains p)) /\
    (forall v, In v (concat (decompose_chains p)) <-> v < n) /\
    (forall ch, In ch (decompose_chains p) -> linked p ch /\ ch <> []).
  Proof.
    rewrite decompose_eq.
    destruct TO as [Hnd [Hall _]].
    destruct (dfold_inv (topo_down p) [] (repeat false (pn p))) as [[Dl Du Dn Dt Dk] [I2 _]].
    - intros u Hu. unfold topo_down in Hu. apply in_rev in Hu. apply Hall in Hu. auto.
    - constructor; cbn [concat]; auto.
      + apply repeat_length.
      + intros v Hv. rewrite nth_repeat. reflexivity.
      + constructor.
      + intros v [].
      + intros ch [].
    - split; auto. split; auto. intros v; split; auto.
      intros Hv. apply I2. unfold topo_down. apply -> in_rev. apply Hall. auto.
  Qed.
End Chains.

(* ================= 11. chain encoding: positions and reach maps ================= *)
(* x sits on chain cid at position pos *)
Definition at_pos (chains : list (list nat)) (x cid pos : nat) : Prop :=
  pos < length (nth cid chains []) /\ nth pos (nth cid chains []) 0 = x.

Definition cinner (cid : nat) (s2 : list (nat * nat) * nat) (v : nat) : list (nat * nat) * nat :=
  (upd (fst s2) v (cid, snd s2), S (snd s2)).
Definition couter (st : list (nat * nat) * nat) (chain : list nat) : list (nat * nat) * nat :=
  let '(tbl, cid) := st in (fst (fold_left (cinner cid) chain (tbl, 0)), S cid).

Lemma chain_of_table_eq : forall n chains,
  chain_of_table n chains = fst (fold_left couter chains (repeat (0, 0) n, 0)).
Proof. reflexivity. Qed.

Lemma NoDup_app_elim : forall A (a b : list A), NoDup (a ++ b) ->
  NoDup a /\ NoDup b /\ forall x, In x a -> ~ In x b.
Proof.
  induction a as [|x a IH]; intros b H; cbn in *.
  - split; [constructor|]. split; auto.
  - inversion H; subst. destruct (IH b H3) as [I1 [I2 I3]]. split; [|split; auto].
    + constructor; auto. intros Hx. apply H2. apply in_or_app; auto.
    + intros y [<-|Hy]; [intros Hb; apply H2; apply in_or_app; auto|auto].
Qed.

Lemma cinner_fold : forall cid chain t pos0, NoDup chain -> (forall v, In v chain -> v < length t) ->
  length (fst (fold_left (cinner cid) chain (t, pos0))) = length t /\
  (forall x, ~ In x chain -> nth x (fst (fold_left (cinner cid) chain (t, pos0))) (0, 0) = nth x t (0, 0)) /\
  (forall i, i < length chain ->
     nth (nth i chain 0) (fst (fold_left (cinner cid) chain (t, pos0))) (0, 0) = (cid, pos0 + i)).
Proof.
  intros cid. induction chain as [|v chain IH]; intros t pos0 Hnd Hlt; cbn [fold_left].
  - split; auto. split; auto. intros i Hi. cbn in Hi. lia.
  - inversion Hnd as [|? ? Hv Hch]; subst. unfold cinner at 2. cbn [fst snd].
    destruct (IH (upd t v (cid, pos0)) (S pos0) Hch) as [I1 [I2 I3]].
    { intros x Hx. rewrite upd_length. apply Hlt; cbn; auto. }
    rewrite upd_length in I1. split; auto. split.
    + intros x Hx. rewrite I2 by (intros H; apply Hx; cbn; auto).
      apply nth_upd_other. intros ->. apply Hx; cbn; auto.
    + intros [|i] Hi; cbn [nth].
      * rewrite I2 by auto. rewrite nth_upd by (apply Hlt; cbn; auto). rewrite Nat.eqb_refl. f_equal. lia.
      * rewrite I3 by (cbn in Hi; lia). f_equal. lia.
Qed.

Lemma couter_fold : forall chains t cid0, NoDup (concat chains) ->
  (forall v, In v (concat chains) -> v < length t) ->
  (forall x, ~ In x (concat chains) -> nth x (fst (fold_left couter chains (t, cid0))) (0, 0) = nth x t (0, 0)) /\
  (forall x cid pos, at_pos chains x cid pos -> cid < length chains ->
     nth x (fst (fold_left couter chains (t, cid0))) (0, 0) = (cid0 + cid, pos)).
Proof.
  induction chains as [|ch chains IH]; intros t cid0 Hnd Hlt; cbn [fold_left].
  - split; auto. intros x cid pos _ H. cbn in H. lia.
  - cbn [concat] in Hnd, Hlt.
    destruct (NoDup_app_elim _ ch (concat chains) Hnd) as [Hch [Hrest Hdisj]].
    change (couter (t, cid0) ch) with (fst (fold_left (cinner cid0) ch (t, 0)), S cid0).
    destruct (cinner_fold cid0 ch t 0 Hch) as [C1 [C2 C3]]; [intros v Hv; apply Hlt, in_or_app; auto|].
    destruct (IH (fst (fold_left (cinner cid0) ch (t, 0))) (S cid0) Hrest) as [I1 I2].
    { intros v Hv. rewrite C1. apply Hlt, in_or_app; auto. }
    split.
    + intros x Hx. rewrite I1 by (intros H; apply Hx, in_or_app; auto).
      apply C2. intros H; apply Hx, in_or_app; auto.
    + intros x cid pos [Hp Hx] Hc. destruct cid as [|cid]; cbn [nth] in Hp, Hx.
      * rewrite I1.
        -- rewrite <- Hx. rewrite C3 by auto. f_equal; lia.
        -- apply Hdisj. rewrite <- Hx. apply nth_In. auto.
      * rewrite (I2 x cid pos); [f_equal; lia|split; auto|cbn in Hc; lia].
Qed.

(* sorted association lists with minimum merge *)
Fixpoint sorted_keys (l : list (nat * nat)) : Prop :=
  match l with
  | (c, _) :: (((c', _) :: _) as r) => c < c' /\ sorted_keys r
  | _ => True
  end.

Lemma sorted_tail : forall e l, sorted_keys (e :: l) -> sorted_keys l.
Proof. intros [c m] [|[c' m'] l]; cbn; tauto. Qed.

Lemma sorted_head_lt : forall c m l c0, sorted_keys ((c, m) :: l) -> assoc c0 l <> None -> c < c0.
Proof.
  intros c m l. revert c m. induction l as [|[c' m'] l IH]; intros c m c0 Hs Ha; cbn in *; [congruence|].
  destruct Hs as [H1 H2]. destruct (Nat.eqb_spec c0 c'); [lia|].
  pose proof (IH c' m' c0 H2 Ha). lia.
Qed.

Lemma amin_sorted : forall c m l, sorted_keys l -> sorted_keys (amin_insert c m l).
Proof.
  intros c m. induction l as [|[c' m'] l IH]; intros Hs; cbn [amin_insert]; [cbn; auto|].
  destruct (Nat.ltb_spec c c'); [cbn; split; auto|].
  destruct (Nat.eqb_spec c c') as [->|Hne].
  - destruct l as [|[c2 m2] l]; cbn in *; auto.
  - specialize (IH (sorted_tail _ _ Hs)).
    destruct l as [|[c2 m2] l]; cbn [amin_insert] in *.
    + cbn. split; auto. lia.
    + destruct Hs as [H1 H2]. destruct (Nat.ltb_spec c c2); [cbn; split; [lia|split; auto]|].
      destruct (Nat.eqb_spec c c2); cbn in *; split; auto; tauto.
Qed.

Lemma amin_assoc : forall c m l c0, sorted_keys l ->
  assoc c0 (amin_insert c m l) =
  if c0 =? c then Some (match assoc c l with Some m' => Nat.min m' m | None => m end) else assoc c0 l.
Proof.
  intros c m. induction l as [|[c' m'] l IH]; intros c0 Hs; cbn [amin_insert assoc].
  - destruct (c0 =? c); reflexivity.
  - destruct (Nat.ltb_spec c c') as [Hlt|Hge].
    + cbn [assoc]. destruct (Nat.eqb_spec c0 c) as [->|Hne]; [|reflexivity].
      destruct (Nat.eqb_spec c c'); [lia|].
      destruct (assoc c l) eqn:E; [|reflexivity].
      assert (c' < c) by (eapply sorted_head_lt; eauto; congruence). lia.
    + destruct (Nat.eqb_spec c c') as [->|Hne].
      * cbn [assoc]. destruct (Nat.eqb_spec c0 c'); reflexivity.
      * cbn [assoc]. rewrite IH by (eapply sorted_tail; eauto).
        destruct (Nat.eqb_spec c0 c') as [->|H0].
        -- destruct (Nat.eqb_spec c' c); [lia|reflexivity].
        -- reflexivity.
Qed.

(* [rcovers l S] : the sorted association list l holds, for every chain c, the least position of
   the set S on that chain (and nothing for chains S does not meet) *)
Definition rcovers (l : list (nat * nat)) (S : nat -> nat -> Prop) : Prop :=
  sorted_keys l /\
  forall c, match assoc c l with
            | Some m => S c m /\ forall i, S c i -> m <= i
            | None => forall i, ~ S c i
            end.

Lemma rcovers_ext : forall l S S', rcovers l S -> (forall c i, S c i <-> S' c i) -> rcovers l S'.
Proof.
  intros l S S' [Hs Hc] He. split; auto. intros c. specialize (Hc c).
  destruct (assoc c l) as [m|].
  - destruct Hc as [H1 H2]. split; [apply He; auto|]. intros i Hi. apply H2, He; auto.
  - intros i Hi. apply (Hc i), He; auto.
Qed.

Lemma rcovers_ins1 : forall l S c m (T : nat -> Prop), rcovers l S ->
  T m -> (forall i, T i -> m <= i) ->
  rcovers (amin_insert c m l) (fun c' i => S c' i \/ (c' = c /\ T i)).
Proof.
  intros l S c m T [Hs Hc] Hm Hmin. split; [apply amin_sorted; auto|].
  intros c0. rewrite amin_assoc by auto. destruct (Nat.eqb_spec c0 c) as [->|Hne].
  - specialize (Hc c). destruct (assoc c l) as [m'|].
    + destruct Hc as [H1 H2]. split.
      * destruct (Nat.min_spec m' m) as [[_ ->]|[_ ->]]; auto.
      * intros i [Hi|[_ Hi]]; [apply H2 in Hi|apply Hmin in Hi]; lia.
    + split; auto. intros i [Hi|[_ Hi]]; [exfalso; eapply Hc; eauto|auto].
  - specialize (Hc c0). destruct (assoc c0 l) as [m'|].
    + destruct Hc as [H1 H2]. split; auto. intros i [Hi|[Hi _]]; [auto|congruence].
    + intros i [Hi|[Hi _]]; [eapply Hc; eauto|congruence].
Qed.

Definition ins_all (acc es : list (nat * nat)) : list (nat * nat) :=
  fold_left (fun a (e : nat * nat) => amin_insert (fst e) (snd e) a) es acc.

Lemma rcovers_ins_list : forall (Sc : nat -> nat -> Prop) es acc S, rcovers acc S ->
  (forall e, In e es -> Sc (fst e) (snd e) /\ forall i, Sc (fst e) i -> snd e <= i) ->
  rcovers (ins_all acc es) (fun c i => S c i \/ (Sc c i /\ exists e, In e es /\ fst e = c)).
Proof.
  intros Sc. induction es as [|e es IH]; intros acc S Hc He; cbn [ins_all fold_left].
  - eapply rcovers_ext; eauto. intros c i. split; auto. intros [H|[_ [e [[] _]]]]; auto.
  - destruct (He e) as [E1 E2]; [cbn; auto|].
    pose proof (rcovers_ins1 acc S (fst e) (snd e) (fun i => Sc (fst e) i) Hc E1 E2) as H1.
    specialize (IH _ _ H1). fold (ins_all (amin_insert (fst e) (snd e) acc) es).
    eapply rcovers_ext; [apply IH; intros e' He'; apply He; cbn; auto|].
    intros c i. split.
    + intros [[H|[-> H]]|[H [e' [He' E]]]]; auto.
      * right. split; auto. exists e. cbn; auto.
      * right. split; auto. exists e'. cbn; auto.
    + intros [H|[H [e' [[<-|He'] E]]]]; auto.
      * left. right. subst c. auto.
      * right. split; auto. exists e'. auto.
Qed.

Lemma assoc_in_sorted : forall l c m, sorted_keys l -> In (c, m) l -> assoc c l = Some m.
Proof.
  induction l as [|[c' m'] l IH]; intros c m Hs Hin; [destruct Hin|]. cbn [assoc].
  destruct Hin as [E|Hin].
  - inversion E; subst. rewrite Nat.eqb_refl. reflexivity.
  - pose proof (IH c m (sorted_tail _ _ Hs) Hin) as Ha.
    destruct (Nat.eqb_spec c c') as [->|]; auto.
    assert (c' < c') by (eapply sorted_head_lt; eauto; congruence). lia.
Qed.

Lemma assoc_some_in : forall l c m, assoc c l = Some m -> In (c, m) l.
Proof.
  induction l as [|[c' m'] l IH]; intros c m H; cbn in *; [discriminate|].
  destruct (Nat.eqb_spec c c') as [->|]; [inversion H; auto|auto].
Qed.

(* merging the whole list of another node: the union of the two sets *)
Lemma rcovers_merge : forall acc S lc Sc, rcovers acc S -> rcovers lc Sc ->
  rcovers (ins_all acc lc) (fun c i => S c i \/ Sc c i).
Proof.
  intros acc S lc Sc Ha [Hs Hc].
  eapply rcovers_ext; [apply (rcovers_ins_list Sc lc acc S Ha)|].
  - intros [c m] He. pose proof (assoc_in_sorted lc c m Hs He) as E. specialize (Hc c). rewrite E in Hc. exact Hc.
  - intros c i. split; [intros [H|[H _]]; auto|]. intros [H|H]; auto. right. split; auto.
    specialize (Hc c). destruct (assoc c lc) as [m|] eqn:E; [|exfalso; eapply Hc; eauto].
    exists (c, m). split; auto. apply assoc_some_in; auto.
Qed.

Lemma linked_nth : forall p ch i, linked p ch -> S i < length ch ->
  In (nth (S i) ch 0) (children p (nth i ch 0)).
Proof.
  intros p. induction ch as [|a ch IH]; intros i Hl Hi; [cbn in Hi; lia|].
  destruct ch as [|b ch]; [cbn in Hi; lia|]. destruct Hl as [H1 H2].
  destruct i as [|i]; [exact H1|]. apply (IH i H2). cbn in *. lia.
Qed.

Lemma reach_last : forall p rk, wf_poset p rk -> forall z v, reach (parents p) z v ->
  z = v \/ exists c, In c (children p v) /\ reach (parents p) z c.
Proof.
  intros p rk W z v H. induction H as [z|z q v Hin Hr IH]; auto. right.
  destruct IH as [->|[c [Hc Hzc]]].
  - exists z. split; [apply (wf_ch p rk W); auto|constructor].
  - exists c. split; auto. eapply reach_step; eauto.
Qed.

Section ChainEnc.
  Variables (p : poset) (rk : nat -> nat).
  Hypothesis W : wf_poset p rk.
  Hypothesis TO : topo_ok p.
  Let n := pn p.
  Let chains := decompose_chains p.
  Let chain_of := chain_of_table n chains.
  Let cpos (v : nat) : nat * nat := nth v chain_of (0, 0).

  Let Part := chains_partition p rk W TO.

  Lemma cpos_at : forall x cid pos, cid < length chains -> at_pos chains x cid pos -> cpos x = (cid, pos).
  Proof.
    intros x cid pos Hc Ha. destruct Part as [Hnd [Hall _]]. unfold cpos, chain_of. rewrite chain_of_table_eq.
    destruct (couter_fold chains (repeat (0, 0) n) 0 Hnd) as [_ C2].
    - intros v Hv. rewrite repeat_length. apply Hall. auto.
    - rewrite (C2 x cid pos Ha Hc). reflexivity.
  Qed.

  Lemma at_exists : forall v, v < n -> exists cid pos, cid < length chains /\ at_pos chains v cid pos.
  Proof.
    intros v Hv. destruct Part as [_ [Hall _]]. apply Hall in Hv. apply in_concat in Hv as [ch [Hch Hv]].
    destruct (In_nth _ _ [] Hch) as [cid [Hc Ec]]. destruct (In_nth _ _ 0 Hv) as [pos [Hp Ep]].
    exists cid, pos. split; auto. unfold at_pos, chains. rewrite Ec. auto.
  Qed.

  Lemma cpos_inv : forall v c i, v < n -> cpos v = (c, i) -> c < length chains /\ at_pos chains v c i.
  Proof.
    intros v c i Hv E. destruct (at_exists v Hv) as [cid [pos [Hc Ha]]].
    rewrite (cpos_at v cid pos Hc Ha) in E. inversion E; subst. auto.
  Qed.

  Lemma chain_down : forall x y c i j, c < length chains -> at_pos chains x c i -> at_pos chains y c j -> i <= j ->
    reach (parents p) y x.
  Proof.
    intros x y c i j Hc [Hi Ex] [Hj Ey] Hij. destruct Part as [_ [_ Hlk]].
    destruct (Hlk (nth c chains [])) as [Hl _]; [apply nth_In; auto|].
    subst x y. remember (j - i) as d eqn:Ed. revert j Hj Hij Ed. induction d as [|d IH]; intros j Hj Hij Ed.
    - replace j with i by lia. constructor.
    - destruct j as [|j]; [lia|]. eapply reach_step; [|apply (IH j); lia].
      apply (wf_ch p rk W). apply linked_nth; auto.
  Qed.

  Lemma chain_elem_lt : forall x c i, c < length chains -> at_pos chains x c i -> x < n.
  Proof.
    intros x c i Hc [Hi Ex]. destruct Part as [_ [Hall _]]. apply Hall. apply in_concat.
    exists (nth c chains []). split; [apply nth_In; auto|]. subst x. apply nth_In. auto.
  Qed.

  (* the positions of v's descendants on each chain *)
  Definition Sd (v c i : nat) : Prop := exists z, z < n /\ reach (parents p) z v /\ cpos z = (c, i).

  Definition rstep (rm : list (list (nat * nat))) (v : nat) : list (list (nat * nat)) :=
    let '(cid, pos) := nth v chain_of (0, 0) in
    upd rm v (fold_left (fun acc c => ins_all acc (nth c rm [])) (children p v) [(cid, pos)]).

  Lemma children_fold : forall rm chs acc S, rcovers acc S ->
    (forall c, In c chs -> rcovers (nth c rm []) (Sd c)) ->
    rcovers (fold_left (fun acc c => ins_all acc (nth c rm [])) chs acc)
           (fun c i => S c i \/ exists ch, In ch chs /\ Sd ch c i).
  Proof.
    intros rm. induction chs as [|ch chs IH]; intros acc S Ha Hc; cbn [fold_left].
    - eapply rcovers_ext; eauto. intros c i. split; auto. intros [H|[ch [[] _]]]; auto.
    - eapply rcovers_ext.
      + apply IH; [apply rcovers_merge; [exact Ha|apply Hc; cbn; auto]|intros c Hin; apply Hc; cbn; auto].
      + intros c i. split.
        * intros [[H|H]|[ch' [Hin H]]]; auto; right; [exists ch|exists ch']; cbn; auto.
        * intros [H|[ch' [[<-|Hin] H]]]; auto. right. exists ch'. auto.
  Qed.

  Lemma Sd_decomp : forall v c i, v < n ->
    (Sd v c i <-> ((c, i) = cpos v \/ exists ch, In ch (children p v) /\ Sd ch c i)).
  Proof.
    intros v c i Hv. split.
    - intros [z [Hz [Hr E]]]. destruct (reach_last p rk W z v Hr) as [->|[ch [Hch Hzc]]]; auto.
      right. exists ch. split; auto. exists z. auto.
    - intros [E|[ch [Hch [z [Hz [Hr E]]]]]].
      + exists v. split; auto. split; [constructor|auto].
      + exists z. split; auto. split; auto. eapply reach_trans; eauto.
        eapply reach_step; [apply (wf_ch p rk W); eauto|constructor].
  Qed.

  Lemma rfold_inv : forall l done rm, ptopo p = done ++ l -> length rm = n ->
    (forall u, In u done -> rcovers (nth u rm []) (Sd u)) ->
    length (fold_left rstep l rm) = n /\
    forall u, In u (done ++ l) -> rcovers (nth u (fold_left rstep l rm) []) (Sd u).
  Proof.
    induction l as [|v l IH]; intros done rm E Hl Hd; cbn [fold_left].
    - rewrite app_nil_r. auto.
    - pose proof TO as [Tnd [Tall Tidx]].
      assert (Hv : v < n) by (apply Tall; rewrite E; apply in_or_app; right; cbn; auto).
      assert (Hvd : ~ In v done).
      { rewrite E in Tnd. apply NoDup_remove_2 in Tnd. intros H. apply Tnd. apply in_or_app; auto. }
      assert (Hch : forall c, In c (children p v) -> In c done).
      { intros c Hc. apply (wf_ch p rk W) in Hc. pose proof (Tidx c v Hc) as Hi.
        rewrite E in Hi. rewrite (idx_app_head v done l Hvd) in Hi.
        destruct (in_dec Nat.eq_dec c done) as [|Hn]; auto. exfalso.
        assert (G : forall d, ~ In c d -> length d <= index_of c (d ++ v :: l)).
        { induction d as [|a d IHd]; intros Hnd'; cbn; [lia|].
          destruct (Nat.eqb_spec c a) as [->|]; [exfalso; apply Hnd'; cbn; auto|].
          assert (Hd' : ~ In c d) by (intros H; apply Hnd'; cbn; auto). specialize (IHd Hd'). lia. }
        specialize (G done Hn). lia. }
      assert (Hstep : length (rstep rm v) = n /\ forall u, In u (done ++ [v]) -> rcovers (nth u (rstep rm v) []) (Sd u)).
      { unfold rstep. destruct (nth v chain_of (0, 0)) as [cid pos] eqn:Ecp. rewrite upd_length. split; auto.
        intros u Hu. apply in_app_or in Hu as [Hu|[<-|[]]].
        - rewrite nth_upd_other by (intros ->; auto). auto.
        - rewrite nth_upd by lia. rewrite Nat.eqb_refl.
          eapply rcovers_ext.
          + apply (children_fold rm (children p v) [(cid, pos)] (fun c i => (c, i) = (cid, pos))).
            * split; [cbn; auto|]. intros c. cbn [assoc]. destruct (Nat.eqb_spec c cid) as [->|Hne].
              -- split; auto. intros i Hi. inversion Hi. lia.
              -- intros i Hi. inversion Hi. congruence.
            * intros c Hc. apply Hd. auto.
          + intros c i. rewrite (Sd_decomp v c i Hv). unfold cpos. rewrite Ecp. tauto. }
      destruct Hstep as [S1 S2].
      destruct (IH (done ++ [v]) (rstep rm v)) as [I1 I2]; auto.
      { rewrite <- app_assoc. exact E. }
      split; auto. intros u Hu. apply I2. rewrite <- app_assoc. exact Hu.
  Qed.

  Lemma reach_maps_ok : forall v, v < n ->
    match build_chain p with
    | EChain co chs reach => co = chain_of /\ chs = chains /\ rcovers (nth v reach []) (Sd v)
    | _ => False
    end.
  Proof.
    intros v Hv. unfold build_chain. fold chains. fold n. fold chain_of.
    change (fold_left _ (ptopo p) (repeat [] n)) with (fold_left rstep (ptopo p) (repeat [] n)).
    split; auto. split; auto.
    destruct (rfold_inv (ptopo p) [] (repeat [] n)) as [_ I2]; auto.
    - apply repeat_length.
    - intros u [].
    - apply I2. cbn [app]. pose proof TO as [_ [Tall _]]. apply Tall. auto.
  Qed.
End ChainEnc.

Lemma NoDup_skipn : forall A k (l : list A), NoDup l -> NoDup (skipn k l).
Proof.
  induction k as [|k IH]; intros l H; cbn; auto. destruct l; auto. inversion H; auto.
Qed.

Lemma in_skipn_nth : forall (l : list nat) k x, In x (skipn k l) <-> exists j, k <= j < length l /\ nth j l 0 = x.
Proof.
  induction l as [|a l IH]; intros k x.
  - rewrite skipn_nil. split; [intros []|intros [j [Hj _]]; cbn in Hj; lia].
  - destruct k as [|k]; cbn [skipn].
    + split.
      * intros H. destruct (In_nth _ _ 0 H) as [j [Hj E]]. exists j. split; auto. lia.
      * intros [j [Hj E]]. rewrite <- E. apply nth_In. lia.
    + rewrite IH. split; intros [j [Hj E]].
      * exists (S j). cbn. split; auto. lia.
      * destruct j as [|j]; [lia|]. exists j. cbn in *. split; auto. lia.
Qed.

Lemma sorted_NoDup : forall l, sorted_keys l -> NoDup l.
Proof.
  induction l as [|[c m] l IH]; intros Hs; constructor.
  - intros Hin. pose proof (assoc_in_sorted l c m (sorted_tail _ _ Hs) Hin) as E.
    assert (c < c) by (eapply sorted_head_lt; eauto; congruence). lia.
  - apply IH. eapply sorted_tail; eauto.
Qed.

Lemma NoDup_concat_in : forall (ls : list (list nat)) l, NoDup (concat ls) -> In l ls -> NoDup l.
Proof.
  induction ls as [|a ls IH]; intros l Hnd Hin; [destruct Hin|]. cbn in Hnd.
  destruct (NoDup_app_elim _ _ _ Hnd) as [N1 [N2 _]]. destruct Hin as [<-|H]; auto.
Qed.

Section ChainIndex.
  Variables (p : poset) (rk : nat -> nat).
  Hypothesis W : wf_poset p rk.
  Hypothesis TO : topo_ok p.
  Let n := pn p.
  Let chains := decompose_chains p.

  Theorem chain_subsumes : forall m r x y, x < n -> y < n ->
    subsumes (mk_index p (build_chain p) m r) x y = spec_subsumes p x y.
  Proof.
    intros m r x y Hx Hy. apply eq_true_iff_eq. rewrite (spec_subsumes_reach p rk W).
    pose proof (reach_maps_ok p rk W TO y Hy) as R.
    unfold subsumes, mk_index. cbn [ix_enc].
    destruct (build_chain p) as [| |co chs rmap]; try contradiction. destruct R as [-> [-> [Hs Hc]]].
    destruct (nth x (chain_of_table (pn p) (decompose_chains p)) (0, 0)) as [cx px] eqn:Ex.
    destruct (cpos_inv p rk W TO x cx px Hx Ex) as [Hcx Hax].
    specialize (Hc cx). destruct (assoc cx (nth y rmap [])) as [mm|].
    - destruct Hc as [[z [Hz [Hzy Ez]]] Hmin]. split.
      + intros Hle. apply Nat.leb_le in Hle.
        destruct (cpos_inv p rk W TO z cx mm Hz Ez) as [_ Haz].
        eapply reach_trans; [|exact Hzy]. eapply (chain_down p rk W TO); eauto.
      + intros Hr. apply Nat.leb_le. apply Hmin. exists x. auto.
    - split; [discriminate|]. intros Hr. exfalso. apply (Hc px). exists x. auto.
  Qed.

  Theorem chain_descendants : forall m r y, y < n ->
    let d := descendants (mk_index p (build_chain p) m r) y in
    NoDup d /\ (forall x, In x d <-> In x (spec_desc p y)) /\
    descendant_count (mk_index p (build_chain p) m r) y = length d /\
    length d = length (spec_desc p y).
  Proof.
    intros m r y Hy.
    pose proof (reach_maps_ok p rk W TO y Hy) as R.
    pose proof (chains_partition p rk W TO) as [Pnd [Pall Plk]].
    unfold descendants, descendant_count, mk_index. cbn [ix_enc].
    destruct (build_chain p) as [| |co chs rmap]; try contradiction. destruct R as [-> [-> [Hs Hc]]].
    fold chains in Pnd, Pall, Plk |- *. cbv zeta.
    set (L := nth y rmap []) in *.
    set (f := fun e : nat * nat => skipn (snd e) (nth (fst e) chains [])).
    assert (Hkey : forall c mm, In (c, mm) L -> c < length chains /\ mm < length (nth c chains [])).
    { intros c mm Hin. pose proof (assoc_in_sorted L c mm Hs Hin) as E. specialize (Hc c). rewrite E in Hc.
      destruct Hc as [[z [Hz [_ Ez]]] _]. destruct (cpos_inv p rk W TO z c mm Hz Ez) as [H1 [H2 _]]. auto. }
    assert (Hmem : forall x, In x (flat_map f L) <-> (x < n /\ reach (parents p) x y)).
    { intros x. rewrite in_flat_map. split.
      - intros [[c mm] [Hin Hx]]. unfold f in Hx. cbn [fst snd] in Hx.
        destruct (Hkey c mm Hin) as [Hcl Hml].
        apply in_skipn_nth in Hx as [j [Hj Ej]].
        pose proof (assoc_in_sorted L c mm Hs Hin) as E. specialize (Hc c). rewrite E in Hc.
        destruct Hc as [[z [Hz [Hzy Ez]]] _]. destruct (cpos_inv p rk W TO z c mm Hz Ez) as [_ Haz].
        assert (Hax : at_pos chains x c j) by (split; auto; lia).
        split; [eapply (chain_elem_lt p rk W TO); eauto|].
        eapply reach_trans; [|exact Hzy]. eapply (chain_down p rk W TO); eauto. lia.
      - intros [Hx Hr]. destruct (at_exists p rk W TO x Hx) as [c [i [Hcl Hax]]].
        pose proof (cpos_at p rk W TO x c i Hcl Hax) as Ex.
        specialize (Hc c). destruct (assoc c L) as [mm|] eqn:E.
        + destruct Hc as [_ Hmin]. exists (c, mm). split; [apply assoc_some_in; auto|].
          unfold f. cbn [fst snd]. apply in_skipn_nth. exists i. destruct Hax as [Hi Ei]. split; auto.
          split; auto. apply Hmin. exists x. auto.
        + exfalso. apply (Hc i). exists x. auto. }
    assert (Hnd : NoDup (flat_map f L)).
    { apply NoDup_flat_map.
      - apply sorted_NoDup; auto.
      - intros [c mm] Hin. unfold f. apply NoDup_skipn. cbn [fst].
        destruct (Hkey c mm Hin) as [Hcl _].
        apply (NoDup_concat_in chains); auto. apply nth_In; auto.
      - intros [c1 m1] [c2 m2] x H1 H2 Hne Hx1 Hx2. unfold f in Hx1, Hx2. cbn [fst snd] in *.
        destruct (Hkey c1 m1 H1) as [Hc1 _]. destruct (Hkey c2 m2 H2) as [Hc2 _].
        apply in_skipn_nth in Hx1 as [j1 [Hj1 E1]]. apply in_skipn_nth in Hx2 as [j2 [Hj2 E2]].
        assert (A1 : at_pos chains x c1 j1) by (split; auto; lia).
        assert (A2 : at_pos chains x c2 j2) by (split; auto; lia).
        pose proof (cpos_at p rk W TO x c1 j1 Hc1 A1) as P1.
        pose proof (cpos_at p rk W TO x c2 j2 Hc2 A2) as P2.
        assert (E12 : (c1, j1) = (c2, j2)) by (etransitivity; [symmetry; exact P1|exact P2]). inversion E12; subst c2.
        pose proof (assoc_in_sorted L c1 m1 Hs H1) as Q1. pose proof (assoc_in_sorted L c1 m2 Hs H2) as Q2.
        rewrite Q1 in Q2. inversion Q2; subst. apply Hne. reflexivity. }
    assert (M : forall x, In x (flat_map f L) <-> In x (spec_desc p y)).
    { intros x. rewrite Hmem, (spec_desc_spec p rk W). reflexivity. }
    split; auto. split; auto. split.
    - (* the structural count is the length of the enumeration *)
      clear -Hkey. unfold f.
      assert (G : forall l a, (forall c mm, In (c, mm) l -> mm < length (nth c chains [])) ->
                fold_left (fun a (e : nat * nat) => a + (length (nth (fst e) chains []) - snd e)) l a
                = a + length (flat_map (fun e : nat * nat => skipn (snd e) (nth (fst e) chains [])) l)).
      { induction l as [|[c mm] l IHl]; intros a Hk; cbn [fold_left flat_map]; [cbn; lia|].
        rewrite IHl by (intros c' m' H; apply Hk; cbn; auto). rewrite app_length, skipn_length. cbn [fst snd]. lia. }
      rewrite G; [lia|]. intros c mm H. apply (Hkey c mm H).
    - apply Nat.le_antisymm; apply NoDup_incl_length; auto.
      + intros x Hx. apply M; auto.
      + unfold spec_desc. apply NoDup_filter, seq_NoDup.
      + intros x Hx. apply M; auto.
  Qed.
End ChainIndex.

(* ================= 12. chain encoding: index-level roll-up and update == rebuild ================= *)
Definition cvals (o : rop) (measure : list (option Z)) (chain : list nat) : list rv :=
  map (fun v => rv_of (nth v measure None) (identity o)) chain.
Definition ctable (o : rop) (measure : list (option Z)) (chains : list (list nat)) : list (list rv) :=
  map (fun chain => suffix_folds o (cvals o measure chain)) chains.

Lemma fold_left_combine : forall o (T : nat * nat -> rv) L a,
  fold_left (fun acc e => combine o acc (T e)) L a = combine o a (mfold o (map T L)).
Proof.
  intros o T. induction L as [|e L IH]; intros a; cbn [fold_left map mfold fold_right].
  - rewrite combine_null_r. reflexivity.
  - rewrite IH. fold (mfold o (map T L)). symmetry. apply combine_assoc.
Qed.

Lemma fold_vals_sum : forall measure l,
  fold_vals OSum (cvals OSum measure l) = RInt (zsum (mval measure) l).
Proof.
  intros measure. unfold fold_vals, cvals, zsum. induction l as [|v l IH]; cbn [map fold_right]; [reflexivity|].
  rewrite IH. assert (Hv : mval measure v = match nth v measure None with Some z => z | None => 0%Z end) by reflexivity.
  rewrite Hv. destruct (nth v measure None); cbn [rv_of identity combine]; f_equal; lia.
Qed.

Lemma fold_vals_mm : forall o measure l, identity o = RNull ->
  fold_vals o (cvals o measure l) = mfold o (map (fun x => rv_of (nth x measure None) RNull) l).
Proof.
  intros o measure l Hid. unfold fold_vals, cvals, mfold. destruct o; try discriminate; reflexivity.
Qed.

Lemma mfold_flat : forall o (g : nat -> rv) (f : nat * nat -> list nat) L,
  mfold o (map (fun e => mfold o (map g (f e))) L) = mfold o (map g (flat_map f L)).
Proof.
  intros o g f. induction L as [|e L IH]; cbn [map flat_map]; [reflexivity|].
  rewrite map_app, mfold_app. unfold mfold at 1. cbn [fold_right]. fold (mfold o (map (fun e0 => mfold o (map g (f e0))) L)).
  rewrite IH. reflexivity.
Qed.

Lemma sum_flat : forall (g : nat -> Z) (f : nat * nat -> list nat) L a,
  fold_left (fun acc e => combine OSum acc (RInt (zsum g (f e)))) L (RInt a) = RInt (a + zsum g (flat_map f L)).
Proof.
  intros g f. induction L as [|e L IH]; intros a; cbn [fold_left flat_map].
  - cbn. f_equal. lia.
  - cbn [combine]. rewrite IH, zsum_app. f_equal. lia.
Qed.

Lemma set_op_map : forall (Fn : rop -> rdata -> rdata) o d acc,
  map (fun e : rop * rdata => (fst e, Fn (fst e) (snd e))) (set_op o d acc)
  = set_op o (Fn o d) (map (fun e : rop * rdata => (fst e, Fn (fst e) (snd e))) acc).
Proof.
  intros Fn o d acc. unfold set_op. cbn [map fst snd]. f_equal.
  induction acc as [|[k x] acc IH]; cbn [filter map fst snd]; auto.
  destruct (negb (rop_eqb o k)); cbn [map fst snd]; rewrite IH; reflexivity.
Qed.

Lemma fold_left_ext_in_rv : forall (F G : rv -> nat * nat -> rv) L a,
  (forall acc e, In e L -> F acc e = G acc e) -> fold_left F L a = fold_left G L a.
Proof.
  intros F G. induction L as [|e L IH]; intros a H; cbn [fold_left]; auto.
  rewrite H by (cbn; auto). apply IH. intros acc e' He'. apply H. cbn; auto.
Qed.

Section ChainRollup.
  Variables (p : poset) (rk : nat -> nat).
  Hypothesis W : wf_poset p rk.
  Hypothesis TO : topo_ok p.
  Let n := pn p.
  Let chains := decompose_chains p.
  Let ix0 := mk_index p (build_chain p) None [].

  Lemma chain_enc : exists rmap, build_chain p = EChain (chain_of_table n chains) chains rmap.
  Proof. unfold build_chain. eexists. reflexivity. Qed.

  Lemma rollup_data_chain : forall measure o,
    rollup_data ix0 measure o = RChainSuffix (ctable o measure chains).
  Proof. intros. reflexivity. Qed.

  (* update_measure refolds exactly the table a rebuild would produce *)
  Lemma ctable_update : forall o measure node v, length measure = n -> node < n ->
    let '(cid, pos) := nth node (chain_of_table n chains) (0, 0) in
    upd (ctable o measure chains) cid
        (refold o (nth cid chains []) (upd measure node v) (nth cid (ctable o measure chains) []) pos)
    = ctable o (upd measure node v) chains.
  Proof.
    intros o measure node v Hm Hnode.
    destruct (nth node (chain_of_table n chains) (0, 0)) as [cid pos] eqn:E.
    destruct (cpos_inv p rk W TO node cid pos Hnode E) as [Hc [Hp En]]. fold chains in Hc, Hp, En.
    pose proof (chains_partition p rk W TO) as [Pnd _]. fold chains in Pnd.
    set (ch := nth cid chains []) in *.
    assert (Hnth : forall c, c < length chains ->
              nth c (ctable o measure chains) [] = suffix_folds o (cvals o measure (nth c chains []))).
    { intros c Hcl. unfold ctable.
      rewrite (nth_indep _ [] (suffix_folds o (cvals o measure []))) by (rewrite map_length; auto).
      rewrite (map_nth (fun chain => suffix_folds o (cvals o measure chain))). reflexivity. }
    assert (Hch_nd : NoDup ch) by (apply (NoDup_concat_in chains); auto; apply nth_In; auto).
    assert (Hother : forall x, In x (concat chains) -> x <> node ->
              rv_of (nth x (upd measure node v) None) (identity o) = rv_of (nth x measure None) (identity o)).
    { intros x _ Hne. rewrite nth_upd_other; auto. }
    apply nth_ext with (d := []) (d' := []).
    - rewrite upd_length. unfold ctable. rewrite !map_length. reflexivity.
    - intros c Hcl. rewrite upd_length in Hcl. unfold ctable in Hcl. rewrite map_length in Hcl.
      assert (Hnth' : nth c (ctable o (upd measure node v) chains) [] = suffix_folds o (cvals o (upd measure node v) (nth c chains []))).
      { unfold ctable.
        rewrite (nth_indep _ [] (suffix_folds o (cvals o (upd measure node v) []))) by (rewrite map_length; auto).
        rewrite (map_nth (fun chain => suffix_folds o (cvals o (upd measure node v) chain))). reflexivity. }
      rewrite Hnth'. destruct (Nat.eq_dec c cid) as [->|Hne].
      + rewrite nth_upd by (unfold ctable; rewrite map_length; auto). rewrite Nat.eqb_refl.
        rewrite Hnth by auto. fold ch.
        apply (refold_spec o ch (upd measure node v) (suffix_folds o (cvals o measure ch)) pos); auto.
        * rewrite suffix_folds_length. unfold cvals. rewrite map_length. reflexivity.
        * intros i Hi Hi2.
          rewrite !suffix_folds_spec by (unfold cvals; rewrite map_length; lia).
          f_equal. fold (cvals o (upd measure node v) ch).
          (* the values at positions > pos are untouched *)
          unfold cvals. rewrite !skipn_map. apply map_ext_in. intros x Hx.
          rewrite nth_upd_other; auto. intros ->.
          apply in_skipn_nth in Hx as [j [Hj Ej]].
          assert (j = pos); [|lia].
          apply (proj1 (NoDup_nth ch 0) Hch_nd); auto; try lia; congruence.
      + rewrite nth_upd_other by auto. rewrite Hnth by auto. f_equal.
        unfold cvals. apply map_ext_in. intros x Hx. rewrite nth_upd_other; auto. intros ->.
        (* node would sit on two different chains *)
        destruct (In_nth _ _ 0 Hx) as [j [Hj Ej]].
        assert (A : at_pos chains node c j) by (split; auto).
        pose proof (cpos_at p rk W TO node c j Hcl A) as P1. fold chains in P1.
        assert (E2 : (c, j) = (cid, pos)) by (etransitivity; [symmetry; exact P1|exact E]).
        inversion E2. auto.
  Qed.

  Definition cbuild (measure : list (option Z)) (acc : list (rop * rdata)) (o : rop) : list (rop * rdata) :=
    match o with OCount => acc | _ => set_op o (rollup_data ix0 measure o) acc end.

  Lemma set_measure_eq : forall measure ops,
    set_measure ix0 measure ops = mk_index p (build_chain p) (Some measure) (fold_left (cbuild measure) ops []).
  Proof. reflexivity. Qed.

  Theorem chain_update_is_rebuild : forall measure ops node v, length measure = n -> node < n ->
    update_measure (set_measure ix0 measure ops) node v = Some (set_measure ix0 (upd measure node v) ops).
  Proof.
    intros measure ops node v Hm Hnode. rewrite !set_measure_eq.
    unfold update_measure, mk_index. cbn [ix_measure ix_poset ix_enc ix_rollups]. f_equal. f_equal.
    set (ix := {| ix_poset := p; ix_enc := build_chain p; ix_measure := Some measure;
                  ix_rollups := fold_left (cbuild measure) ops [] |}).
    set (Fn := fun o d => update_rdata ix (upd measure node v) node (nth node measure None) v o d).
    assert (HF : forall o, o <> OCount -> Fn o (rollup_data ix0 measure o) = rollup_data ix0 (upd measure node v) o).
    { intros o Ho. rewrite !rollup_data_chain. unfold Fn, update_rdata, ix. cbn [ix_enc].
      destruct chain_enc as [rmap ->].
      pose proof (ctable_update o measure node v Hm Hnode) as U.
      destruct (nth node (chain_of_table n chains) (0, 0)) as [cid pos]. rewrite U. reflexivity. }
    assert (G : forall l acc, map (fun e : rop * rdata => (fst e, Fn (fst e) (snd e))) (fold_left (cbuild measure) l acc)
                = fold_left (cbuild (upd measure node v)) l (map (fun e : rop * rdata => (fst e, Fn (fst e) (snd e))) acc)).
    { induction l as [|o l IHl]; intros acc; cbn [fold_left]; auto.
      rewrite IHl. f_equal. destruct o; cbn [cbuild]; auto; rewrite set_op_map, HF by discriminate; reflexivity. }
    apply (G ops []).
  Qed.

  Lemma chain_keys : forall y rmap c mm, y < n -> build_chain p = EChain (chain_of_table n chains) chains rmap ->
    In (c, mm) (nth y rmap []) -> c < length chains /\ mm < length (nth c chains []).
  Proof.
    intros y rmap c mm Hy E Hin. pose proof (reach_maps_ok p rk W TO y Hy) as R. rewrite E in R.
    destruct R as [_ [_ [Hs Hc]]]. pose proof (assoc_in_sorted _ c mm Hs Hin) as A. specialize (Hc c).
    rewrite A in Hc. destruct Hc as [[z [Hz [_ Ez]]] _].
    destruct (cpos_inv p rk W TO z c mm Hz Ez) as [H1 [H2 _]]. auto.
  Qed.

  Lemma ctable_entry : forall oo measure c mm, c < length chains -> mm < length (nth c chains []) ->
    nth mm (nth c (ctable oo measure chains) []) RNull
    = fold_vals oo (cvals oo measure (skipn mm (nth c chains []))).
  Proof.
    intros oo measure c mm K1 K2. unfold ctable.
    rewrite (nth_indep _ [] (suffix_folds oo (cvals oo measure []))) by (rewrite map_length; auto).
    rewrite (map_nth (fun chain => suffix_folds oo (cvals oo measure chain))).
    rewrite suffix_folds_spec by (unfold cvals; rewrite map_length; lia).
    unfold cvals. rewrite skipn_map. reflexivity.
  Qed.

  Theorem chain_rollup_build : forall measure ops y o, length measure = n -> y < n ->
    (o = OCount \/ In o ops) ->
    rollup (set_measure ix0 measure ops) y o = Some (rollup_spec p measure y o).
  Proof.
    intros measure ops y o Hm Hy Ho. rewrite set_measure_eq.
    destruct (chain_descendants p rk W TO (Some measure) (fold_left (cbuild measure) ops []) y Hy) as [D1 [D2 [D3 D4]]].
    cbv zeta in D1, D2, D3, D4.
    destruct (Nat.eq_dec 0 0) as [_|]; [|lia].
    destruct o.
    2:{ (* COUNT *) unfold rollup, rollup_spec. rewrite D3, D4. reflexivity. }
    all: destruct Ho as [Ho|Ho]; [discriminate|].
    all: assert (Hperm : Permutation (descendants (mk_index p (build_chain p) (Some measure) (fold_left (cbuild measure) ops [])) y) (spec_desc p y))
           by (apply NoDup_Permutation; auto; unfold spec_desc; apply NoDup_filter, seq_NoDup).
    all: destruct chain_enc as [rmap Eenc].
    all: pose proof (chain_keys y rmap) as Hkey.
    all: unfold rollup, descendants, mk_index in *; cbn [ix_enc ix_rollups ix_measure] in *.
    all: change (fold_left (cbuild measure) ops []) with
           (fold_left (fun acc o' => match o' with OCount => acc | _ => set_op o' (rollup_data ix0 measure o') acc end) ops []).
    all: rewrite assoc_set_measure by discriminate.
    all: match goal with |- context [existsb (rop_eqb ?oo) ?l] =>
           replace (existsb (rop_eqb oo) l) with true
             by (symmetry; apply existsb_exists; exists oo; split; auto; apply rop_eqb_eq; auto) end.
    all: rewrite rollup_data_chain; rewrite Eenc in *; f_equal.
    all: set (L := nth y rmap []) in *.
    all: set (f := fun e : nat * nat => skipn (snd e) (nth (fst e) chains [])) in *.
    all: assert (HT : forall oo e, In e L ->
           nth (snd e) (nth (fst e) (ctable oo measure chains) []) RNull = fold_vals oo (cvals oo measure (f e)))
         by (intros oo [c mm] Hin; destruct (Hkey c mm Hy eq_refl Hin) as [K1 K2]; apply ctable_entry; auto).
    - (* SUM *)
      rewrite (fold_left_ext_in_rv _ (fun acc e => combine OSum acc (RInt (zsum (mval measure) (f e)))) L).
      + cbn [identity]. rewrite sum_flat.
        change (rollup_spec p measure y OSum) with
          (fold_left (fun acc d => match nth d measure None with
                                   | Some z => combine OSum acc (RInt z)
                                   | None => acc
                                   end) (spec_desc p y) (RInt 0)).
        rewrite spec_sum_fold. f_equal. f_equal. apply zsum_perm. exact Hperm.
      + intros acc e He. rewrite HT by auto. rewrite fold_vals_sum. reflexivity.
    - (* MIN *)
      rewrite (fold_left_ext_in_rv _ (fun acc e => combine OMin acc (mfold OMin (map (fun x => rv_of (nth x measure None) RNull) (f e)))) L).
      + rewrite fold_left_combine. cbn [identity combine]. rewrite mfold_flat.
        change (rollup_spec p measure y OMin) with
          (fold_left (fun acc d => match nth d measure None with
                                   | Some z => combine OMin acc (RInt z)
                                   | None => acc
                                   end) (spec_desc p y) RNull).
        rewrite spec_mm_fold. cbn [combine]. apply mfold_perm, Permutation_map. exact Hperm.
      + intros acc e He. rewrite HT by auto. rewrite fold_vals_mm by reflexivity. reflexivity.
    - (* MAX *)
      rewrite (fold_left_ext_in_rv _ (fun acc e => combine OMax acc (mfold OMax (map (fun x => rv_of (nth x measure None) RNull) (f e)))) L).
      + rewrite fold_left_combine. cbn [identity combine]. rewrite mfold_flat.
        change (rollup_spec p measure y OMax) with
          (fold_left (fun acc d => match nth d measure None with
                                   | Some z => combine OMax acc (RInt z)
                                   | None => acc
                                   end) (spec_desc p y) RNull).
        rewrite spec_mm_fold. cbn [combine]. apply mfold_perm, Permutation_map. exact Hperm.
      + intros acc e He. rewrite HT by auto. rewrite fold_vals_mm by reflexivity. reflexivity.
  Qed.

  Theorem chain_rollup_after_updates : forall measure ops us, length measure = n ->
    (forall u, In u us -> fst u < n) ->
    apply_updates (set_measure ix0 measure ops) us = Some (set_measure ix0 (upd_all measure us) ops) /\
    forall y o, y < n -> (o = OCount \/ In o ops) ->
      rollup (set_measure ix0 (upd_all measure us) ops) y o = Some (rollup_spec p (upd_all measure us) y o).
  Proof.
    intros measure ops us. revert measure. induction us as [|[node v] us IH]; intros measure Hm Hus.
    - split; [reflexivity|]. intros y o Hy Ho. apply chain_rollup_build; auto.
    - cbn [apply_updates]. rewrite chain_update_is_rebuild; auto; [|apply (Hus (node, v)); cbn; auto].
      unfold upd_all. cbn [fold_left fst snd]. apply IH.
      + rewrite upd_length. auto.
      + intros u Hu. apply Hus. cbn; auto.
  Qed.
End ChainRollup.

(* ================= 13. lowest common ancestors ================= *)
(* chain and near-tree compute the LCA set by filtering with the index's own subsumption test, so
   they inherit its correctness *)
Lemma existsb_ext_in_nat : forall (f g : nat -> bool) l, (forall a, In a l -> f a = g a) -> existsb f l = existsb g l.
Proof. induction l as [|a l IH]; intros H; cbn; auto. rewrite H, IH; cbn; auto. intros; apply H; cbn; auto. Qed.

Lemma lca_generic : forall ix p, ix_poset ix = p ->
  (match ix_enc ix with ENested _ _ _ => False | _ => True end) ->
  (forall a b, a < pn p -> b < pn p -> subsumes ix a b = spec_subsumes p a b) ->
  forall x y, x < pn p -> y < pn p -> lowest_common_ancestors ix x y = spec_lca p x y.
Proof.
  intros ix p Hp Henc Hs x y Hx Hy. unfold lowest_common_ancestors, spec_lca. rewrite Hp.
  assert (E : filter (fun c => subsumes ix x c && subsumes ix y c) (nodes p)
            = filter (fun c => spec_subsumes p x c && spec_subsumes p y c) (nodes p)).
  { apply filter_ext_in. intros c Hc. unfold nodes in Hc. apply in_seq in Hc. rewrite !Hs by lia. reflexivity. }
  destruct (ix_enc ix); try contradiction; rewrite E.
  all: apply filter_ext_in; intros c Hc; apply filter_In in Hc as [Hc _]; unfold nodes in Hc; apply in_seq in Hc.
  all: f_equal; apply existsb_ext_in_nat; intros d Hd; apply filter_In in Hd as [Hd _]; unfold nodes in Hd; apply in_seq in Hd.
  all: rewrite Hs by lia; reflexivity.
Qed.

Lemma filter_none : forall (g : nat -> bool) l, (forall d, In d l -> g d = false) -> filter g l = [].
Proof. induction l as [|a l IH]; intros H; cbn; auto. rewrite H by (cbn; auto). apply IH. intros; apply H; cbn; auto. Qed.

Lemma filter_single : forall (g : nat -> bool) c l, NoDup l -> In c l ->
  (forall d, In d l -> g d = (d =? c)) -> filter g l = [c].
Proof.
  intros g c. induction l as [|a l IH]; intros Hnd Hin Hg; [destruct Hin|].
  inversion Hnd; subst. cbn [filter]. rewrite Hg by (cbn; auto).
  destruct (Nat.eqb_spec a c) as [->|Hne].
  - f_equal. apply filter_none. intros d Hd. rewrite Hg by (cbn; auto).
    destruct (Nat.eqb_spec d c); auto. subst. contradiction.
  - destruct Hin as [->|Hin]; [congruence|]. apply IH; auto. intros d Hd. apply Hg. cbn; auto.
Qed.

Lemma filter_filter_nat : forall (g1 g2 : nat -> bool) l,
  filter g2 (filter g1 l) = filter (fun d => g1 d && g2 d) l.
Proof.
  induction l as [|a l IH]; cbn; auto. destruct (g1 a); cbn; [destruct (g2 a); rewrite IH; reflexivity|auto].
Qed.

Section NestedLca.
  Variables (p : poset) (rk : nat -> nat).
  Hypothesis W : wf_poset p rk.
  Hypothesis TO : topo_ok p.
  Hypothesis F : forest p.
  Variables (m : option (list (option Z))) (r : list (rop * rdata)).
  Let n := pn p.
  Let ix := mk_index p (build_nested p) m r.
  Let tr (v : nat) : nat := index_of v (ptopo p).

  Lemma sub_reach : forall a b, a < n -> b < n -> (subsumes ix a b = true <-> reach (parents p) a b).
  Proof.
    intros a b Ha Hb. unfold ix. rewrite (nested_subsumes p rk m r W F) by auto.
    apply (spec_subsumes_reach p rk W).
  Qed.

  Lemma parent_unique : forall x q q', In q (parents p x) -> In q' (parents p x) -> q = q'.
  Proof.
    intros x q q' H1 H2. pose proof (F x) as Hl.
    destruct (parents p x) as [|a [|b l]]; cbn in *; try lia; intuition congruence.
  Qed.

  Lemma walk_spec : forall x y, x < n -> y < n -> forall fuel cur, cur < n -> n - tr cur < fuel ->
    reach (parents p) x cur ->
    (forall d, reach (parents p) x d -> reach (parents p) y d -> reach (parents p) cur d) ->
    (exists c, lca_walk fuel ix y cur = [c] /\ c < n /\ reach (parents p) x c /\ reach (parents p) y c /\
               forall d, reach (parents p) x d -> reach (parents p) y d -> reach (parents p) c d) \/
    (lca_walk fuel ix y cur = [] /\ forall d, reach (parents p) x d -> reach (parents p) y d -> False).
  Proof.
    intros x y Hx Hy. induction fuel as [|f IH]; intros cur Hc Hf Hxc Hall; [lia|].
    cbn [lca_walk]. destruct (subsumes ix y cur) eqn:E.
    - left. exists cur. apply sub_reach in E; [|assumption|assumption]. repeat split; auto.
    - assert (Hn : ~ reach (parents p) y cur) by (intros H; apply sub_reach in H; auto; congruence).
      change (ix_poset ix) with p.
      destruct (parents p cur) as [|q l] eqn:Ep.
      + right. split; auto. intros d Hxd Hyd. pose proof (Hall d Hxd Hyd) as Hcd.
        destruct Hcd as [cur|cur q d Hin _]; [contradiction|]. rewrite Ep in Hin. destruct Hin.
      + assert (Hq : In q (parents p cur)) by (rewrite Ep; cbn; auto).
        destruct (wf_lt p rk W cur q Hq) as [_ Hqn].
        pose proof TO as [_ [Tall Tidx]]. pose proof (Tidx cur q Hq) as Hi. fold (tr cur) in Hi. fold (tr q) in Hi.
        assert (Htq : tr q < n).
        { unfold tr. assert (length (ptopo p) = n) by (apply (topo_len p TO)). rewrite <- H.
          apply index_of_lt. apply Tall. auto. }
        apply (IH q); auto; try lia.
        * eapply reach_trans; [exact Hxc|]. eapply reach_step; eauto. constructor.
        * intros d Hxd Hyd. pose proof (Hall d Hxd Hyd) as Hcd.
          destruct Hcd as [cur|cur q' d Hin Hq'd]; [contradiction|].
          rewrite (parent_unique cur q q' Hq Hin). auto.
  Qed.

  Theorem nested_lca : forall x y, x < n -> y < n ->
    lowest_common_ancestors ix x y = spec_lca p x y.
  Proof.
    intros x y Hx Hy. unfold lowest_common_ancestors. change (ix_enc ix) with (build_nested p).
    change (build_nested p) with (let '(tin, tout, inv) := nested_arrays (pn p) (children p) (roots p) in ENested tin tout inv).
    destruct (nested_arrays (pn p) (children p) (roots p)) as [[tin tout] inv] eqn:En.
    change (ix_poset ix) with p.
    assert (Hsr : forall a b, a < n -> b < n -> (spec_subsumes p a b = true <-> reach (parents p) a b))
      by (intros; apply (spec_subsumes_reach p rk W)).
    assert (Hlt : forall a d, a < n -> reach (parents p) a d -> d < n).
    { intros a d Ha H. induction H as [|a q d Hin _ IH]; auto. apply IH. apply (wf_lt p rk W) in Hin. tauto. }
    destruct (walk_spec x y Hx Hy (S (pn p)) x Hx) as [[c [E [Hc [Hxc [Hyc Hmin]]]]]|[E Hno]].
    - fold n. lia.
    - constructor.
    - auto.
    - rewrite E. symmetry. unfold spec_lca. rewrite filter_filter_nat.
      apply filter_single.
      { unfold nodes. apply seq_NoDup. }
      { unfold nodes. apply in_seq. fold n. lia. }
      intros d Hd. unfold nodes in Hd. apply in_seq in Hd. fold n in Hd.
      destruct (Nat.eqb_spec d c) as [->|Hne].
      + (* c itself is kept *)
        apply andb_true_iff; split.
        * apply andb_true_iff; split; apply Hsr; auto.
        * apply negb_true_iff. apply not_true_is_false. intros Hex. apply existsb_exists in Hex as [d' [Hd' Hb]].
          apply filter_In in Hd' as [Hd'n Hcom]. unfold nodes in Hd'n. apply in_seq in Hd'n. fold n in Hd'n.
          apply andb_true_iff in Hcom as [C1 C2]. apply Hsr in C1; try lia. apply Hsr in C2; try lia.
          apply andb_true_iff in Hb as [Hne Hdc]. apply negb_true_iff, Nat.eqb_neq in Hne. apply Hsr in Hdc; try lia.
          apply Hne. apply (reach_antisym (parents p) (pn p) rk (wf_rk p rk W) d' c); auto.
      + (* any other common ancestor has c strictly below it *)
        destruct (spec_subsumes p x d && spec_subsumes p y d) eqn:Ecom; [|reflexivity]. cbn [andb].
        apply negb_false_iff. apply existsb_exists. exists c. split.
        * apply filter_In. split; [unfold nodes; apply in_seq; fold n; lia|].
          apply andb_true_iff; split; apply Hsr; auto.
        * apply andb_true_iff in Ecom as [C1 C2]. apply Hsr in C1; try lia. apply Hsr in C2; try lia.
          apply andb_true_iff; split; [apply negb_true_iff, Nat.eqb_neq; auto|]. apply Hsr; auto; lia.
    - rewrite E. symmetry. unfold spec_lca.
      rewrite (filter_none (fun c => spec_subsumes p x c && spec_subsumes p y c)); [reflexivity|].
      intros d Hd. unfold nodes in Hd. apply in_seq in Hd. fold n in Hd.
      apply not_true_is_false. intros Hb. apply andb_true_iff in Hb as [C1 C2].
      apply Hsr in C1; try lia. apply Hsr in C2; try lia. all: try exact (Hno d C1 C2).
  Qed.
End NestedLca.

(* ================= 14. near-tree encoding ================= *)
(* the spanning forest: every node keeps its FIRST parent *)
Definition fpar (p : poset) (c : nat) : list nat := firstn 1 (parents p c).
Definition fch (p : poset) (v : nat) : list nat := nth v (forest_children p) [].

Lemma fc_fold : forall (g : nat -> list nat) l acc,
  (forall c f r, In c l -> g c = f :: r -> f < length acc) ->
  length (fold_left (fun a c => match g c with [] => a | f :: _ => push_at a f c end) l acc) = length acc /\
  forall i, nth i (fold_left (fun a c => match g c with [] => a | f :: _ => push_at a f c end) l acc) []
            = nth i acc [] ++ filter (fun c => match g c with f :: _ => f =? i | [] => false end) l.
Proof.
  intros g. induction l as [|c l IH]; intros acc Hk; cbn [fold_left filter].
  - split; auto. intros i. rewrite app_nil_r. reflexivity.
  - destruct (g c) as [|f r] eqn:E.
    + apply IH. intros c' f' r' Hc' E'. apply (Hk c' f' r'); cbn; auto.
    + assert (Hf : f < length acc) by (apply (Hk c f r); cbn; auto).
      assert (Hpl : length (push_at acc f c) = length acc) by (unfold push_at; apply upd_length).
      destruct (IH (push_at acc f c)) as [I1 I2].
      { intros c' f' r' Hc' E'. rewrite Hpl. apply (Hk c' f' r'); cbn; auto. }
      rewrite Hpl in I1. split; auto.
      intros i. rewrite I2. unfold push_at.
      destruct (Nat.eqb_spec f i) as [->|Hne].
      * rewrite nth_upd by auto. rewrite Nat.eqb_refl. rewrite <- app_assoc. reflexivity.
      * rewrite nth_upd_other by auto. reflexivity.
Qed.

Section NearForest.
  Variables (p : poset) (rk : nat -> nat).
  Hypothesis W : wf_poset p rk.
  Let n := pn p.

  Lemma parents_lt : forall c, parents p c <> [] -> c < n.
  Proof.
    intros c H. destruct (parents p c) as [|q l] eqn:E; [congruence|].
    assert (In q (parents p c)) by (rewrite E; cbn; auto). apply (wf_lt p rk W) in H0. tauto.
  Qed.

  Lemma fch_spec : forall v c, In c (fch p v) <-> In v (fpar p c).
  Proof.
    intros v c. unfold fch, forest_children, fpar.
    destruct (fc_fold (parents p) (nodes p) (repeat [] (pn p))) as [_ F2].
    - intros c0 f r _ E. rewrite repeat_length.
      assert (In f (parents p c0)) by (rewrite E; cbn; auto). apply (wf_lt p rk W) in H. tauto.
    - rewrite F2. replace (nth v (repeat [] (pn p)) []) with (@nil nat).
      2:{ destruct (Nat.ltb_spec v (pn p)); [rewrite nth_repeat|rewrite nth_overflow by (rewrite repeat_length; lia)]; reflexivity. }
      cbn [app]. rewrite filter_In. unfold nodes. rewrite in_seq.
      destruct (parents p c) as [|q l] eqn:Ep; cbn [firstn].
      + split; [intros [_ H]; discriminate|intros []].
      + split.
        * intros [_ H]. apply Nat.eqb_eq in H. subst. cbn; auto.
        * intros [<-|[]]. split; [|apply Nat.eqb_refl].
          assert (c < n) by (apply parents_lt; rewrite Ep; discriminate). fold n. lia.
  Qed.

  Lemma fch_eq : forall v, fch p v = filter (fun c => match parents p c with f :: _ => f =? v | [] => false end) (nodes p).
  Proof.
    intros v. unfold fch, forest_children.
    destruct (fc_fold (parents p) (nodes p) (repeat [] (pn p))) as [_ F2].
    - intros c0 f r _ E. rewrite repeat_length.
      assert (In f (parents p c0)) by (rewrite E; cbn; auto). apply (wf_lt p rk W) in H. tauto.
    - rewrite F2. replace (nth v (repeat [] (pn p)) []) with (@nil nat); [reflexivity|].
      destruct (Nat.ltb_spec v (pn p)); [rewrite nth_repeat|rewrite nth_overflow by (rewrite repeat_length; lia)]; reflexivity.
  Qed.

  Lemma fpar_sub : forall c q, In q (fpar p c) -> In q (parents p c).
  Proof. intros c q. unfold fpar. destruct (parents p c); cbn; tauto. Qed.

  Lemma f_ranked : ranked (fpar p) n rk.
  Proof. intros c q H. apply (wf_rk p rk W). apply fpar_sub; auto. Qed.
  Lemma f_one : forall c, length (fpar p c) <= 1.
  Proof. intros c. unfold fpar. destruct (parents p c); cbn; lia. Qed.
  Lemma f_nd : forall v, NoDup (fch p v).
  Proof. intros v. rewrite fch_eq. apply NoDup_filter. unfold nodes. apply seq_NoDup. Qed.
  Lemma f_roots : forall r, In r (roots p) <-> (r < n /\ fpar p r = []).
  Proof.
    intros r. rewrite roots_spec. unfold fpar. fold n. destruct (parents p r); cbn; split; intros [H1 H2]; split; auto; discriminate.
  Qed.
  Lemma f_lt : forall c v, In v (fpar p c) -> c < n /\ v < n.
  Proof. intros c v H. apply (wf_lt p rk W). apply fpar_sub; auto. Qed.
End NearForest.

Lemma filter_lt : forall A (g h : A -> bool) l e, (forall a, g a = true -> h a = true) ->
  In e l -> h e = true -> g e = false -> length (filter g l) < length (filter h l).
Proof.
  intros A g h. induction l as [|a l IH]; intros e Hgh Hin He1 He2; [destruct Hin|].
  assert (Hle : forall l', length (filter g l') <= length (filter h l')).
  { induction l' as [|b l' IHl]; cbn; auto. destruct (g b) eqn:Eg; [rewrite (Hgh b Eg); cbn; lia|].
    destruct (h b); cbn; lia. }
  cbn [filter]. destruct Hin as [->|Hin].
  - rewrite He1, He2. cbn. specialize (Hle l). lia.
  - specialize (IH e Hgh Hin He1 He2). destruct (g a) eqn:Eg; [rewrite (Hgh a Eg); cbn; lia|].
    destruct (h a); cbn; lia.
Qed.

Lemma insert_exc_in : forall tin e l x, In x (insert_exc tin e l) <-> x = e \/ In x l.
Proof.
  intros tin e. induction l as [|f l IH]; intros x; cbn [insert_exc].
  - cbn. intuition.
  - destruct (nth (fst e) tin 0 <? nth (fst f) tin 0); cbn [In]; [intuition|]. rewrite IH. intuition.
Qed.

Lemma sort_exc_in : forall tin l acc x,
  In x (fold_left (fun a e => insert_exc tin e a) l acc) <-> In x l \/ In x acc.
Proof.
  intros tin. induction l as [|e l IHl]; intros acc x; cbn [fold_left].
  - cbn. tauto.
  - rewrite IHl, insert_exc_in. cbn. intuition.
Qed.

Section NearSubsumes.
  Variables (p : poset) (rk : nat -> nat).
  Hypothesis W : wf_poset p rk.
  Let n := pn p.
  Let R := reach (parents p).
  Let Fr := reach (fpar p).
  Let arrs := nested_arrays n (fch p) (roots p).
  Let tin := fst (fst arrs).
  Let tout := snd (fst arrs).
  Let exc := fold_left (fun a e => insert_exc tin e a) (raw_exceptions p) [].

  Lemma near_enc : build_near p = ENear tin tout (snd arrs) exc.
  Proof.
    unfold build_near. change (nested_arrays (pn p) (fun v => nth v (forest_children p) []) (roots p)) with arrs.
    unfold exc, tin, tout. destruct arrs as [[a b] c]. reflexivity.
  Qed.

  Lemma exc_spec : forall c q, In (c, q) exc <-> exists f r, parents p c = f :: r /\ In q r.
  Proof.
    intros c q. unfold exc. rewrite sort_exc_in. unfold raw_exceptions. rewrite in_flat_map. split.
    - intros [[c0 [Hc0 H]]|[]]. destruct (parents p c0) as [|f r] eqn:E; [destruct H|].
      apply in_map_iff in H as [q0 [E0 Hq0]]. inversion E0; subst. exists f, r. auto.
    - intros [f [r [E Hq]]]. left. exists c. split.
      + unfold nodes. apply in_seq. assert (In f (parents p c)) by (rewrite E; cbn; auto).
        apply (wf_lt p rk W) in H. fold n. lia.
      + rewrite E. apply in_map_iff. exists q. auto.
  Qed.

  Lemma edge_split : forall c q, In q (parents p c) <-> In q (fpar p c) \/ In (c, q) exc.
  Proof.
    intros c q. rewrite exc_spec. unfold fpar. destruct (parents p c) as [|f r]; cbn.
    - split; [intros []|intros [[]|[f' [r' [E _]]]]; discriminate].
    - split.
      + intros [<-|H]; auto. right. exists f, r. auto.
      + intros [[<-|[]]|[f' [r' [E H]]]]; auto. inversion E; subst. auto.
  Qed.

  Lemma exc_edge : forall c q, In (c, q) exc -> In q (parents p c) /\ c < n /\ q < n /\ rk c < rk q.
  Proof.
    intros c q H. assert (Hq : In q (parents p c)) by (apply edge_split; auto).
    destruct (wf_lt p rk W c q Hq). destruct (wf_rk p rk W c q Hq). auto.
  Qed.

  Lemma Fr_R : forall a b, Fr a b -> R a b.
  Proof.
    intros a b H. induction H as [|a q b Hin _ IH]; [constructor|].
    eapply reach_step; eauto. apply fpar_sub; auto.
  Qed.

  Definition Ex (x y : nat) : Prop := exists c q, In (c, q) exc /\ Fr x c /\ R q y.

  Lemma R_decomp : forall x y, R x y <-> Fr x y \/ Ex x y.
  Proof.
    intros x y. split.
    - intros H. induction H as [x|x q0 y Hin Hr IH]; [left; constructor|].
      apply edge_split in Hin as [Hf|He].
      + destruct IH as [IH|[c [q [Hc [H1 H2]]]]].
        * left. eapply reach_step; eauto.
        * right. exists c, q. split; auto. split; auto. eapply reach_step; eauto.
      + right. exists x, q0. split; auto. split; [constructor|auto].
    - intros [H|[c [q [Hc [H1 H2]]]]]; [apply Fr_R; auto|].
      eapply reach_trans; [apply Fr_R; eauto|]. eapply reach_step; [apply exc_edge; eauto|auto].
  Qed.

  Hypothesis Hins : forall a b, a < n -> b < n -> (inside tin tout a b = true <-> Fr a b).

  Variable y : nat.
  Hypothesis Hy : y < n.

  Definition nu (x : nat) : nat := length (filter (fun e : nat * nat => rk x <? rk (snd e)) exc).
  Definition sinv (seen : list nat) (x : nat) : Prop := forall s, In s seen -> ~ R s y \/ R s x.

  Lemma via_spec : forall fuel x seen, x < n -> nu x < fuel -> sinv seen x ->
    (fst (via_exception fuel tin tout exc x y seen) = true -> Ex x y) /\
    (fst (via_exception fuel tin tout exc x y seen) = false ->
       ~ Ex x y /\ forall s, In s (snd (via_exception fuel tin tout exc x y seen)) -> In s seen \/ ~ R s y).
  Proof.
    induction fuel as [|f IH]; intros x seen Hx Hnu Hinv; [lia|].
    cbn [via_exception].
    match goal with |- context [(fix loop (es : list (nat * nat)) (seen0 : list nat) {struct es} : bool * list nat := _) exc seen] =>
      set (loop := (fix loop (es : list (nat * nat)) (seen0 : list nat) {struct es} : bool * list nat := _)) end.
    assert (L : forall es seen0, incl es exc -> sinv seen0 x ->
              (fst (loop es seen0) = true -> Ex x y) /\
              (fst (loop es seen0) = false ->
                 (forall c q, In (c, q) es -> Fr x c -> ~ R q y) /\
                 forall s, In s (snd (loop es seen0)) -> In s seen0 \/ ~ R s y)).
    { induction es as [|[c q] es IHes]; intros seen0 Hincl Hi0.
      - cbn. split; [discriminate|]. intros _. split; [intros c q []|auto].
      - assert (Hcq : In (c, q) exc) by (apply Hincl; cbn; auto).
        destruct (exc_edge c q Hcq) as [Hpar [Hc [Hq Hrk]]].
        assert (Hincl' : incl es exc) by (intros e He; apply Hincl; cbn; auto).
        cbn [loop]. unfold loop at 1 2 3. fold loop.
        destruct (inside tin tout x c) eqn:Exc; cbn [negb].
        + apply Hins in Exc; auto.
          assert (Hxq : R x q) by (eapply reach_trans; [apply Fr_R; eauto|]; eapply reach_step; [eauto|constructor]).
          assert (Hrkx : rk x < rk q) by (pose proof (reach_rank (parents p) n rk (wf_rk p rk W) _ _ (Fr_R _ _ Exc)); lia).
          destruct (inside tin tout q y) eqn:Eqy.
          * apply Hins in Eqy; auto. cbn [fst]. split; [|discriminate]. intros _.
            exists c, q. split; auto. split; auto. apply Fr_R; auto.
          * assert (Hnf : ~ Fr q y) by (intros H; apply Hins in H; auto; congruence).
            destruct (memn q seen0) eqn:Em.
            -- apply memn_In in Em. assert (Hdead : ~ R q y).
               { destruct (Hi0 q Em) as [H|H]; auto.
                 pose proof (reach_rank (parents p) n rk (wf_rk p rk W) _ _ H). lia. }
               destruct (IHes seen0 Hincl' Hi0) as [I1 I2]. split; auto.
               intros Hf. destruct (I2 Hf) as [J1 J2]. split; auto.
               intros c' q' [E|Hin] Hfr; [inversion E; subst; auto|eauto].
            -- assert (Hnuq : nu q < f).
               { assert (nu q < nu x); [|lia]. unfold nu.
                 apply (filter_lt _ _ _ exc (c, q)); auto; cbn [snd].
                 - intros e He. apply Nat.ltb_lt in He. apply Nat.ltb_lt. lia.
                 - apply Nat.ltb_lt; auto.
                 - apply Nat.ltb_ge. lia. }
               assert (Hiq : sinv (q :: seen0) q).
               { intros s [<-|Hs]; [right; constructor|]. destruct (Hi0 s Hs) as [H|H]; auto.
                 right. eapply reach_trans; eauto. }
               destruct (IH q (q :: seen0) Hq Hnuq Hiq) as [V1 V2].
               destruct (via_exception f tin tout exc q y (q :: seen0)) as [b seen1] eqn:Ev. cbn [fst snd] in V1, V2.
               destruct b.
               ++ cbn [fst]. split; [|discriminate]. intros _. exists c, q. split; auto. split; auto.
                  apply R_decomp. right. auto.
               ++ destruct (V2 eq_refl) as [Hne Hs1].
                  assert (Hdead : ~ R q y) by (intros H; apply R_decomp in H as [H|H]; auto).
                  assert (Hi1 : sinv seen1 x).
                  { intros s Hs. destruct (Hs1 s Hs) as [[<-|H]|H]; auto. }
                  destruct (IHes seen1 Hincl' Hi1) as [I1 I2]. split; auto.
                  intros Hf. destruct (I2 Hf) as [J1 J2]. split.
                  ** intros c' q' [E|Hin] Hfr; [inversion E; subst; auto|eauto].
                  ** intros s Hs. destruct (J2 s Hs) as [H|H]; auto.
                     destruct (Hs1 s H) as [[<-|H']|H']; auto.
        + assert (Hnx : ~ Fr x c) by (intros H; apply Hins in H; auto; congruence).
          destruct (IHes seen0 Hincl' Hi0) as [I1 I2]. split; auto.
          intros Hf. destruct (I2 Hf) as [J1 J2]. split; auto.
          intros c' q' [E|Hin] Hfr; [inversion E; subst; contradiction|eauto]. }
    destruct (L exc seen (incl_refl _) Hinv) as [L1 L2]. split; auto.
    intros Hf. destruct (L2 Hf) as [J1 J2]. split; auto.
    intros [c [q [Hc [H1 H2]]]]. apply (J1 c q Hc H1 H2).
  Qed.
End NearSubsumes.

Lemma filter_length_le : forall A (g : A -> bool) l, length (filter g l) <= length l.
Proof. induction l as [|a l IH]; cbn; auto. destruct (g a); cbn; lia. Qed.

Section NearIndex.
  Variables (p : poset) (rk : nat -> nat).
  Hypothesis W : wf_poset p rk.
  Let n := pn p.

  Lemma near_inside : forall a b, a < n -> b < n ->
    (inside (fst (fst (nested_arrays n (fch p) (roots p)))) (snd (fst (nested_arrays n (fch p) (roots p)))) a b = true
     <-> reach (fpar p) a b).
  Proof.
    intros a b Ha Hb. unfold nested_arrays, inside. cbn [fst snd]. rewrite !nth_map_seq by auto.
    apply (forest_inside n (fpar p) (fch p) (roots p) rk); auto.
    - apply (f_ranked p rk W).
    - intros c v. apply (fch_spec p rk W).
    - apply f_one.
    - apply (f_nd p rk W).
    - apply roots_nodup.
    - apply f_roots.
    - apply (f_lt p rk W).
  Qed.

  Theorem near_subsumes : forall m r x y, x < n -> y < n ->
    subsumes (mk_index p (build_near p) m r) x y = spec_subsumes p x y.
  Proof.
    intros m r x y Hx Hy. apply eq_true_iff_eq. rewrite (spec_subsumes_reach p rk W).
    unfold subsumes, mk_index. cbn [ix_enc]. rewrite (near_enc p).
    set (tin := fst (fst (nested_arrays (pn p) (fch p) (roots p)))).
    set (tout := snd (fst (nested_arrays (pn p) (fch p) (roots p)))).
    set (exc := fold_left (fun a e => insert_exc tin e a) (raw_exceptions p) []).
    pose proof (R_decomp p rk W x y) as RD. fold tin in RD. fold exc in RD.
    destruct (inside tin tout x y) eqn:Ei.
    - split; auto. intros _. apply RD. left. apply (proj1 (near_inside x y Hx Hy)). exact Ei.
    - assert (Hnf : ~ reach (fpar p) x y).
      { intros H. pose proof (proj2 (near_inside x y Hx Hy) H) as H'. change (inside tin tout x y = true) in H'. congruence. }
      destruct (via_spec p rk W near_inside y Hy (S (length exc)) x [] Hx) as [V1 V2].
      + unfold nu. fold tin. fold exc. pose proof (filter_length_le _ (fun e : nat * nat => rk x <? rk (snd e)) exc). lia.
      + intros s [].
      + fold tin tout exc in V1, V2. split.
        * intros Hv. apply RD. right. apply V1. exact Hv.
        * intros HR. apply RD in HR as [HR|HR]; [contradiction|].
          destruct (fst (via_exception (S (length exc)) tin tout exc x y [])) eqn:Ev; auto.
          destruct (V2 eq_refl) as [Hne _]. contradiction.
  Qed.
End NearIndex.

(* ================= 15. near-tree descendants: the frontier loop ================= *)
Lemma filter_le_impl : forall A (g h : A -> bool) l, (forall a, g a = true -> h a = true) ->
  length (filter g l) <= length (filter h l).
Proof.
  intros A g h l Hgh. induction l as [|b l IH]; cbn; auto.
  destruct (g b) eqn:Eg; [rewrite (Hgh b Eg); cbn; lia|]. destruct (h b); cbn; lia.
Qed.

Lemma push_fold2 : forall (cond : nat * nat -> bool) l rest,
  fold_left (fun fr (e : nat * nat) => if cond e then fst e :: fr else fr) l rest
  = rev (map fst (filter cond l)) ++ rest.
Proof.
  intros cond. induction l as [|e l IH]; intros rest; cbn [fold_left filter]; [reflexivity|].
  rewrite IH. destruct (cond e); cbn [map rev]; [rewrite <- app_assoc|]; reflexivity.
Qed.

Section NearDesc.
  Variables (p : poset) (rk : nat -> nat).
  Hypothesis W : wf_poset p rk.
  Let n := pn p.
  Let R := reach (parents p).
  Let Fr := reach (fpar p).
  Let arrs := nested_arrays n (fch p) (roots p).
  Let tin := fst (fst arrs).
  Let tout := snd (fst arrs).
  Let inv := snd arrs.
  Let exc := fold_left (fun a e => insert_exc tin e a) (raw_exceptions p) [].
  Let Tf := preorder (S n) (fch p).

  Lemma Tf_slice : forall cur, cur < n -> slice inv (nth cur tin 0) (nth cur tout 0) = Tf cur.
  Proof.
    intros cur Hc. unfold inv, tin, tout, arrs, nested_arrays. cbn [fst snd]. rewrite !nth_map_seq by auto.
    apply (forest_slice n (fpar p) (fch p) (roots p) rk); auto.
    - apply (f_ranked p rk W).
    - intros c v. apply (fch_spec p rk W).
    - apply f_one.
    - apply (f_nd p rk W).
    - apply roots_nodup.
    - apply f_roots.
    - apply (f_lt p rk W).
  Qed.

  Lemma Tf_in : forall cur z, In z (Tf cur) <-> Fr z cur.
  Proof.
    intros cur z. apply (in_T_reach n (fpar p) (fch p) (roots p) rk).
    - apply (f_ranked p rk W).
    - intros c v. apply (fch_spec p rk W).
    - apply f_one.
    - apply (f_nd p rk W).
    - apply f_roots.
    - apply (f_lt p rk W).
  Qed.

  Variable y : nat.
  Hypothesis Hy : y < n.

  Definition U (seen : list nat) : nat := length (filter (fun v => negb (memn v seen)) (seq 0 n)).
  Definition hot (frontier seen : list nat) : bool :=
    match frontier with [] => false | h :: _ => negb (memn h seen) end.
  Definition K : nat := S (length exc).
  Definition Psi (frontier seen : list nat) : nat :=
    2 * K * U seen + length frontier + (if hot frontier seen then 0 else K).

  Lemma U_mono : forall s s', incl s s' -> U s' <= U s.
  Proof.
    intros s s' Hi. unfold U. apply filter_le_impl. intros v Hv. apply negb_true_iff in Hv. apply negb_true_iff.
    apply memn_false. apply memn_false in Hv. intros H. apply Hv. auto.
  Qed.

  Lemma U_strict : forall s s' v, incl s s' -> v < n -> ~ In v s -> In v s' -> U s' < U s.
  Proof.
    intros s s' v Hi Hv Hn Hin. unfold U. apply (filter_lt _ _ _ (seq 0 n) v).
    - intros a Ha. apply negb_true_iff in Ha. apply negb_true_iff. apply memn_false. apply memn_false in Ha. auto.
    - apply in_seq. lia.
    - apply negb_true_iff. apply memn_false. auto.
    - apply negb_false_iff. apply memn_In. auto.
  Qed.

  Record jinv (frontier seen done : list nat) : Prop := {
    j_a : forall s, In s seen -> exists cur, In cur done /\ Fr s cur;
    j_b : forall cur s, In cur done -> Fr s cur -> In s seen;
    j_c : forall cur, In cur (done ++ frontier) -> cur < n /\ R cur y;
    j_d : forall cur c q, In cur done -> In (c, q) exc -> Fr q cur -> In c seen \/ In c frontier;
    j_e : In y done \/ In y frontier }.

  Hypothesis Hins : forall a b, a < n -> b < n -> (inside tin tout a b = true <-> Fr a b).

  Lemma loop_spec : forall fuel frontier seen done, jinv frontier seen done -> Psi frontier seen < fuel ->
    forall w, In w (near_desc_loop fuel tin tout inv exc frontier seen) <-> (w < n /\ R w y).
  Proof.
    induction fuel as [|f IH]; intros frontier seen done J HP; [lia|].
    cbn [near_desc_loop]. destruct frontier as [|cur rest].
    - (* finished *)
      destruct J as [Ja Jb Jc Jd Je]. intros w. split.
      + intros Hw. destruct (Ja w Hw) as [cur [Hc Hf]]. destruct (Jc cur) as [Hcn Hcy]; [rewrite app_nil_r; auto|].
        split.
        * eapply (forest_reach_lt n (fpar p)); eauto. apply (f_lt p rk W).
        * eapply reach_trans; [apply (Fr_R p); eauto|auto].
      + intros [Hwn Hw].
        assert (G : forall a b, reach (parents p) a b -> b = y -> a < n -> In a seen).
        { intros a b Hab. induction Hab as [a|a a' b Hin Hr IHw]; intros Eb Han.
          - subst a. destruct Je as [Hd|[]]. apply (Jb y y Hd). constructor.
          - assert (Ha'n : a' < n) by (apply (wf_lt p rk W) in Hin; tauto).
            specialize (IHw Eb Ha'n). destruct (Ja a' IHw) as [cur [Hc Hf]].
            apply (edge_split p rk W) in Hin as [Hfe|He].
            + apply (Jb cur a Hc). eapply reach_step; eauto.
            + destruct (Jd cur a a' Hc He Hf) as [H|[]]. auto. }
        apply (G w y Hw eq_refl Hwn).
    - (* one iteration *)
      destruct (J.(j_c _ _ _) cur) as [Hcn Hcy]; [apply in_or_app; right; cbn; auto|].
      rewrite (Tf_slice cur Hcn).
      set (seen' := Tf cur ++ seen).
      set (cond := fun e : nat * nat => inside tin tout (snd e) cur && negb (memn (fst e) seen')).
      change (fold_left _ exc rest) with (fold_left (fun fr (e : nat * nat) => if cond e then fst e :: fr else fr) exc rest).
      rewrite (push_fold2 cond exc rest).
      set (P := rev (map fst (filter cond exc))).
      assert (HPin : forall c, In c P <-> exists q, In (c, q) exc /\ Fr q cur /\ ~ In c seen').
      { intros c. unfold P. rewrite <- in_rev, in_map_iff. split.
        - intros [[c0 q] [E Hin]]. cbn in E. subst c0. apply filter_In in Hin as [Hin Hc]. unfold cond in Hc. cbn [fst snd] in Hc.
          apply andb_true_iff in Hc as [C1 C2]. destruct (exc_edge p rk W c q Hin) as [_ [Hc1 [Hq1 _]]].
          exists q. split; auto. split; [apply Hins; auto|]. apply negb_true_iff in C2. apply memn_false; auto.
        - intros [q [Hin [Hf Hn]]]. exists (c, q). split; auto. apply filter_In. split; auto. unfold cond. cbn [fst snd].
          destruct (exc_edge p rk W c q Hin) as [_ [Hc1 [Hq1 _]]].
          apply andb_true_iff. split; [apply Hins; auto|]. apply negb_true_iff. apply memn_false; auto. }
      apply (IH (P ++ rest) seen' (cur :: done)).
      + destruct J as [Ja Jb Jc Jd Je]. constructor.
        * intros s Hs. apply in_app_or in Hs as [Hs|Hs].
          -- exists cur. split; [cbn; auto|]. apply Tf_in; auto.
          -- destruct (Ja s Hs) as [c0 [H1 H2]]. exists c0. split; [cbn; auto|auto].
        * intros c0 s [<-|Hc0] Hf; apply in_or_app; [left; apply Tf_in; auto|right; eauto].
        * intros c0 Hc0. cbn [app] in Hc0. destruct Hc0 as [<-|Hc0]; auto.
          apply in_app_or in Hc0 as [H|H]; [apply Jc; apply in_or_app; auto|].
          apply in_app_or in H as [H|H]; [|apply Jc; apply in_or_app; right; cbn; auto].
          apply HPin in H as [q [Hin [Hf _]]]. destruct (exc_edge p rk W c0 q Hin) as [Hpar [Hc1 _]]. split; auto.
          eapply reach_step; [exact Hpar|]. eapply reach_trans; [apply (Fr_R p); eauto|auto].
        * intros c0 c q [<-|Hc0] Hin Hf.
          -- destruct (in_dec Nat.eq_dec c seen') as [H|H]; auto. right. apply in_or_app; left. apply HPin. eauto.
          -- destruct (Jd c0 c q Hc0 Hin Hf) as [H|[<-|H]].
             ++ left. apply in_or_app; auto.
             ++ left. apply in_or_app; left. apply Tf_in. constructor.
             ++ right. apply in_or_app; auto.
        * destruct Je as [H|[<-|H]]; [left; cbn; auto|left; cbn; auto|right; apply in_or_app; auto].
      + (* the potential decreases *)
        assert (Hincl : incl seen seen') by (intros s Hs; apply in_or_app; auto).
        assert (Hcur' : In cur seen') by (apply in_or_app; left; apply Tf_in; constructor).
        assert (HlenP : length P <= length exc).
        { unfold P. rewrite rev_length, map_length. apply filter_length_le. }
        assert (Hhot' : P <> [] -> hot (P ++ rest) seen' = true).
        { intros HPne. destruct P as [|c P'] eqn:EP; [congruence|]. cbn [app hot].
          assert (In c (c :: P')) by (cbn; auto). apply HPin in H as [q [_ [_ Hn]]].
          apply negb_true_iff. apply memn_false; auto. }
        unfold Psi in *. rewrite app_length. cbn [length] in HP. unfold K in *.
        destruct (in_dec Nat.eq_dec cur seen) as [Hs|Hs].
        * (* cur was already seen: not hot before *)
          assert (Hh : hot (cur :: rest) seen = false) by (cbn [hot]; apply negb_false_iff, memn_In; auto).
          rewrite Hh in HP. pose proof (U_mono seen seen' Hincl).
          destruct P as [|c P'] eqn:EP.
          -- cbn [length app]. destruct (hot rest seen'); nia.
          -- rewrite Hhot' by discriminate. nia.
        * pose proof (U_strict seen seen' cur Hincl Hcn Hs Hcur').
          destruct (hot (P ++ rest) seen'); destruct (hot (cur :: rest) seen); nia.
  Qed.
End NearDesc.

(* ================= 16. strictly sorted lists; near-tree descendants as a list ================= *)
Fixpoint ssort (l : list nat) : Prop :=
  match l with [] => True | a :: r => (forall x, In x r -> a < x) /\ ssort r end.

Lemma ssort_seq : forall len a, ssort (seq a len).
Proof.
  induction len as [|len IH]; intros a; cbn; auto. split; auto. intros x Hx. apply in_seq in Hx. lia.
Qed.

Lemma ssort_filter : forall g l, ssort l -> ssort (filter g l).
Proof.
  induction l as [|a l IH]; intros H; cbn; auto. destruct H as [H1 H2].
  destruct (g a); cbn; auto. split; auto. intros x Hx. apply filter_In in Hx as [Hx _]. auto.
Qed.

Lemma insert_sorted_in : forall x l y, In y (insert_sorted x l) <-> y = x \/ In y l.
Proof.
  intros x. induction l as [|a l IH]; intros y; cbn [insert_sorted]; [cbn; intuition|].
  destruct (x <? a); [cbn; intuition|]. destruct (Nat.eqb_spec x a) as [->|]; cbn [In]; [intuition|].
  rewrite IH. intuition.
Qed.

Lemma insert_sorted_ssort : forall x l, ssort l -> ssort (insert_sorted x l).
Proof.
  intros x. induction l as [|a l IH]; intros H; cbn [insert_sorted].
  { cbn. split; [intros y []|exact I]. }
  destruct H as [H1 H2]. destruct (Nat.ltb_spec x a).
  - cbn. split; [|split; auto]. intros y [<-|Hy]; auto. specialize (H1 y Hy). lia.
  - destruct (Nat.eqb_spec x a); [cbn; auto|]. cbn. split; auto.
    intros y Hy. apply insert_sorted_in in Hy as [->|Hy]; [lia|auto].
Qed.

Lemma sort_dedup_spec : forall l, ssort (sort_dedup l) /\ forall y, In y (sort_dedup l) <-> In y l.
Proof.
  induction l as [|a l [I1 I2]]; cbn [sort_dedup fold_right]; [cbn; split; [auto|tauto]|].
  fold (sort_dedup l). split; [apply insert_sorted_ssort; auto|].
  intros y. rewrite insert_sorted_in, I2. cbn. intuition.
Qed.

Lemma ssort_ext : forall l l', ssort l -> ssort l' -> (forall x, In x l <-> In x l') -> l = l'.
Proof.
  induction l as [|a l IH]; intros l' H H' He.
  - destruct l' as [|b l']; auto. exfalso. apply (He b). cbn; auto.
  - destruct l' as [|b l']; [exfalso; apply (He a); cbn; auto|].
    destruct H as [H1 H2]. destruct H' as [H1' H2'].
    assert (a = b).
    { destruct (proj1 (He a) (or_introl eq_refl)) as [E|Hin]; auto.
      destruct (proj2 (He b) (or_introl eq_refl)) as [E|Hin2]; auto.
      specialize (H1' a Hin). specialize (H1 b Hin2). lia. }
    subst b. f_equal. apply IH; auto. intros x. split; intros Hx.
    + destruct (proj1 (He x) (or_intror Hx)) as [E|Hin]; auto. subst. specialize (H1 x Hx). lia.
    + destruct (proj2 (He x) (or_intror Hx)) as [E|Hin]; auto. subst. specialize (H1' x Hx). lia.
Qed.

Lemma ssort_NoDup : forall l, ssort l -> NoDup l.
Proof.
  induction l as [|a l IH]; intros H; constructor; destruct H as [H1 H2]; auto.
  intros Hin. specialize (H1 a Hin). lia.
Qed.

(* ================= 17. near-tree at index level ================= *)
Section NearAll.
  Variables (p : poset) (rk : nat -> nat).
  Hypothesis W : wf_poset p rk.
  Let n := pn p.
  Let ix0 := mk_index p (build_near p) None [].

  Theorem near_descendants : forall m r y, y < n ->
    descendants (mk_index p (build_near p) m r) y = spec_desc p y.
  Proof.
    intros m r y Hy. unfold descendants, mk_index. cbn [ix_enc ix_poset]. rewrite (near_enc p).
    set (tin := fst (fst (nested_arrays (pn p) (fch p) (roots p)))).
    set (tout := snd (fst (nested_arrays (pn p) (fch p) (roots p)))).
    set (inv := snd (nested_arrays (pn p) (fch p) (roots p))).
    set (exc := fold_left (fun a e => insert_exc tin e a) (raw_exceptions p) []).
    destruct (sort_dedup_spec (near_desc_loop (2 * S (pn p) * (length exc + 2)) tin tout inv exc [y] [])) as [S1 S2].
    apply ssort_ext; auto.
    - unfold spec_desc. apply ssort_filter. unfold nodes. apply ssort_seq.
    - intros x. rewrite S2. rewrite (spec_desc_spec p rk W).
      apply (loop_spec p rk W y Hy (near_inside p rk W) (2 * S (pn p) * (length exc + 2)) [y] [] []).
      + constructor.
        * intros s [].
        * intros cur s [].
        * intros cur [<-|[]]. split; [auto|constructor].
        * intros cur c q [].
        * right. cbn; auto.
      + unfold Psi, hot, K, U, memn. cbn [existsb negb length].
        change (fold_left (fun a e => insert_exc (fst (fst (nested_arrays (pn p) (fch p) (roots p)))) e a) (raw_exceptions p) []) with exc.
        match goal with |- context [length (filter ?g (seq 0 (pn p)))] =>
          assert (Hu : length (filter g (seq 0 (pn p))) <= pn p)
            by (rewrite <- (seq_length (pn p) 0) at 2; apply filter_length_le);
          revert Hu; generalize (length (filter g (seq 0 (pn p)))) end.
        generalize (length exc). generalize (pn p). intros a b c Hc. nia.
  Qed.

  Definition nbuild (measure : list (option Z)) (acc : list (rop * rdata)) (o : rop) : list (rop * rdata) :=
    match o with OCount => acc | _ => set_op o (rollup_data ix0 measure o) acc end.

  Lemma near_set_measure_eq : forall measure ops,
    set_measure ix0 measure ops = mk_index p (build_near p) (Some measure) (fold_left (nbuild measure) ops []).
  Proof. reflexivity. Qed.

  Lemma near_rollup_data : forall measure o, rollup_data ix0 measure o = RFoldSet.
  Proof. intros. unfold rollup_data, ix0, mk_index. cbn [ix_enc]. rewrite (near_enc p). reflexivity. Qed.

  Theorem near_update_is_rebuild : forall measure ops node v, length measure = n -> node < n ->
    update_measure (set_measure ix0 measure ops) node v = Some (set_measure ix0 (upd measure node v) ops).
  Proof.
    intros measure ops node v Hm Hnode. rewrite !near_set_measure_eq.
    unfold update_measure, mk_index. cbn [ix_measure ix_poset ix_enc ix_rollups]. f_equal. f_equal.
    set (ix := {| ix_poset := p; ix_enc := build_near p; ix_measure := Some measure;
                  ix_rollups := fold_left (nbuild measure) ops [] |}).
    set (Fn := fun o d => update_rdata ix (upd measure node v) node (nth node measure None) v o d).
    assert (HF : forall o, Fn o (rollup_data ix0 measure o) = rollup_data ix0 (upd measure node v) o).
    { intros o. rewrite !near_rollup_data. reflexivity. }
    assert (G : forall l acc, map (fun e : rop * rdata => (fst e, Fn (fst e) (snd e))) (fold_left (nbuild measure) l acc)
                = fold_left (nbuild (upd measure node v)) l (map (fun e : rop * rdata => (fst e, Fn (fst e) (snd e))) acc)).
    { induction l as [|o l IHl]; intros acc; cbn [fold_left]; auto.
      rewrite IHl. f_equal. destruct o; cbn [nbuild]; auto; rewrite set_op_map, HF; reflexivity. }
    apply (G ops []).
  Qed.

  Lemma near_rollup_gen : forall ix measure y o tin tout inv exc,
    ix_enc ix = ENear tin tout inv exc -> ix_measure ix = Some measure ->
    descendants ix y = spec_desc p y ->
    (o = OCount \/ assoc_op o (ix_rollups ix) = Some RFoldSet) ->
    rollup ix y o = Some (rollup_spec p measure y o).
  Proof.
    intros ix measure y o tin tout inv exc He Hm D Ho. unfold rollup, rollup_spec.
    destruct o.
    2:{ unfold descendant_count. rewrite He, D. reflexivity. }
    all: destruct Ho as [Ho|Ho]; [discriminate|]; rewrite Ho, He, Hm, D; reflexivity.
  Qed.

  Theorem near_rollup_build : forall measure ops y o, length measure = n -> y < n ->
    (o = OCount \/ In o ops) ->
    rollup (set_measure ix0 measure ops) y o = Some (rollup_spec p measure y o).
  Proof.
    intros measure ops y o Hm Hy Ho. rewrite near_set_measure_eq.
    pose proof (near_descendants (Some measure) (fold_left (nbuild measure) ops []) y Hy) as D.
    apply (near_rollup_gen (mk_index p (build_near p) (Some measure) (fold_left (nbuild measure) ops [])) measure y o _ _ _ _ (near_enc p) eq_refl D).
    destruct Ho as [->|Ho]; auto.
    destruct (rop_eqb o OCount) eqn:Ec; [apply rop_eqb_eq in Ec; auto|]. right.
    unfold mk_index. cbn [ix_rollups].
    change (fold_left (nbuild measure) ops []) with
      (fold_left (fun acc o' => match o' with OCount => acc | _ => set_op o' (rollup_data ix0 measure o') acc end) ops []).
    rewrite assoc_set_measure by (intros ->; discriminate).
    replace (existsb (rop_eqb o) ops) with true
      by (symmetry; apply existsb_exists; exists o; split; auto; apply rop_eqb_eq; auto).
    rewrite near_rollup_data. reflexivity.
  Qed.

  Theorem near_rollup_after_updates : forall measure ops us, length measure = n ->
    (forall u, In u us -> fst u < n) ->
    apply_updates (set_measure ix0 measure ops) us = Some (set_measure ix0 (upd_all measure us) ops) /\
    forall y o, y < n -> (o = OCount \/ In o ops) ->
      rollup (set_measure ix0 (upd_all measure us) ops) y o = Some (rollup_spec p (upd_all measure us) y o).
  Proof.
    intros measure ops us. revert measure. induction us as [|[node v] us IH]; intros measure Hm Hus.
    - split; [reflexivity|]. intros y o Hy Ho. apply near_rollup_build; auto.
    - cbn [apply_updates]. rewrite near_update_is_rebuild; auto; [|apply (Hus (node, v)); cbn; auto].
      unfold upd_all. cbn [fold_left fst snd]. apply IH.
      + rewrite upd_length. auto.
      + intros u Hu. apply Hus. cbn; auto.
  Qed.
End NearAll.

(* ================= 18. every encoding the probe can select or that can be forced ================= *)
Lemma build_enc_cases : forall p f en, build_enc p f = inl en ->
  (is_tree p = true /\ en = build_nested p) \/ en = build_near p \/ en = build_chain p.
Proof.
  intros p f en H. unfold build_enc in H. destruct f.
  - destruct (is_tree p) eqn:Et; [inversion H; auto|].
    destruct (extra_parent_count p <=? exception_cap_for (pn p)); [inversion H; auto|].
    destruct ((width_cap_for (pn p) <? length (decompose_chains p)) && (100 <? pn p)); [discriminate|inversion H; auto].
  - destruct (is_tree p) eqn:Et; [inversion H; auto|discriminate].
  - inversion H; auto.
  - inversion H; auto.
Qed.

Theorem all_subsumes_desc : forall p rk f en m r, wf_poset p rk -> topo_ok p -> build_enc p f = inl en ->
  forall x y, x < pn p -> y < pn p ->
  subsumes (mk_index p en m r) x y = spec_subsumes p x y /\
  NoDup (descendants (mk_index p en m r) y) /\
  (forall z, In z (descendants (mk_index p en m r) y) <-> In z (spec_desc p y)) /\
  descendant_count (mk_index p en m r) y = length (spec_desc p y).
Proof.
  intros p rk f en m r W TO H x y Hx Hy.
  destruct (build_enc_cases p f en H) as [[Ht ->]|[->| ->]].
  - pose proof (is_tree_forest p Ht) as F.
    destruct (nested_descendants p rk m r W F y Hy) as [D1 [D2 [D3 D4]]]. cbv zeta in *.
    repeat split; auto; try apply D2; [apply (nested_subsumes p rk m r W F); auto|congruence].
  - pose proof (near_descendants p rk W m r y Hy) as D.
    split; [apply (near_subsumes p rk W); auto|]. rewrite D. split; [|split; [tauto|]].
    + unfold spec_desc. apply NoDup_filter, seq_NoDup.
    + unfold descendant_count, mk_index at 1. cbn [ix_enc]. rewrite (near_enc p).
      fold (mk_index p (build_near p) m r). rewrite <- (near_enc p). fold (mk_index p (build_near p) m r).
      rewrite D. reflexivity.
  - destruct (chain_descendants p rk W TO m r y Hy) as [D1 [D2 [D3 D4]]]. cbv zeta in *.
    repeat split; auto; try apply D2; [apply (chain_subsumes p rk W TO); auto|congruence].
Qed.

Theorem all_rollup : forall p rk f en measure ops us, wf_poset p rk -> topo_ok p -> build_enc p f = inl en ->
  length measure = pn p -> (forall u, In u us -> fst u < pn p) ->
  exists ix', apply_updates (set_measure (mk_index p en None []) measure ops) us = Some ix' /\
    forall y o, y < pn p -> (o = OCount \/ In o ops) ->
      rollup ix' y o = Some (rollup_spec p (upd_all measure us) y o).
Proof.
  intros p rk f en measure ops us W TO H Hm Hus.
  destruct (build_enc_cases p f en H) as [[Ht ->]|[->| ->]].
  - apply (nested_rollup_all p rk W (is_tree_forest p Ht)); auto.
  - destruct (near_rollup_after_updates p rk W measure ops us Hm Hus) as [E R]. eexists; split; [exact E|exact R].
  - destruct (chain_rollup_after_updates p rk W TO measure ops us Hm Hus) as [E R]. eexists; split; [exact E|exact R].
Qed.

Theorem all_lca : forall p rk f en m r, wf_poset p rk -> topo_ok p -> build_enc p f = inl en ->
  forall x y, x < pn p -> y < pn p ->
  lowest_common_ancestors (mk_index p en m r) x y = spec_lca p x y.
Proof.
  intros p rk f en m r W TO H x y Hx Hy.
  destruct (build_enc_cases p f en H) as [[Ht ->]|[->| ->]].
  - apply (nested_lca p rk W TO (is_tree_forest p Ht)); auto.
  - apply lca_generic; auto.
    + unfold mk_index. cbn [ix_enc]. rewrite (near_enc p). exact I.
    + intros a b Ha Hb. apply (near_subsumes p rk W); auto.
  - apply lca_generic; auto.
    + reflexivity.
    + intros a b Ha Hb. apply (chain_subsumes p rk W TO); auto.
Qed.

(* ================= 19. from_edges rejects only cyclic inputs ================= *)
Section KahnComplete.
  Variables (n : nat) (par : list (list nat)).
  Hypothesis Hpar_nd : forall c, NoDup (nth c par []).
  Hypothesis Hpar_lt : forall c q, In q (nth c par []) -> q < n.
  Variable rk : nat -> nat.
  Hypothesis Hacyc : forall c q, In q (nth c par []) -> rk c < rk q.

  Definition kE (Q O : list nat) : Prop :=
    forall q, q < n -> pending n par q O = [] -> In q Q \/ In q O.

  Lemma kE_step : forall ig u Q O, kinv n par ig (u :: Q) O -> kE (u :: Q) O ->
    kE (snd (fold_left kstep (nth u par []) (ig, Q))) (u :: O).
  Proof.
    intros ig u Q O K E q Hq Hp. destruct K as [Klen KA KB KC KD Knd Klt].
    destruct (KB u) as [Hu [Hpu HuO]]; [cbn; auto|].
    destruct (kfold (nth u par []) ig Q (Hpar_nd u)) as [F1 [F2 F3]].
    { intros x Hx. rewrite Klen. eapply Hpar_lt; eauto. }
    rewrite F2.
    pose proof (pending_cons n par Hpar_nd Hpar_lt q u O Hu HuO) as Hc. rewrite Hp in Hc. cbn [length] in Hc.
    destruct (pending n par q O) as [|a l] eqn:Ep.
    - destruct (E q Hq Ep) as [[<-|H]|H].
      + right. cbn; auto.
      + left. apply in_or_app; auto.
      + right. cbn; auto.
    - left. apply in_or_app; right. cbn [length] in Hc.
      destruct (memn q (nth u par [])) eqn:Em; [|lia].
      apply filter_In. split; [apply memn_In; auto|]. apply Nat.eqb_eq.
      rewrite KA, Ep by auto. cbn [length]. lia.
  Qed.

  Lemma all_output : forall ig O, kinv n par ig [] O -> kE [] O -> forall v, v < n -> In v O.
  Proof.
    intros ig O K E.
    assert (G : forall k v, v < n -> rk v < k -> In v O).
    { induction k as [|k IH]; intros v Hv Hk; [lia|].
      destruct (pending n par v O) as [|c l] eqn:Ep.
      - destruct (E v Hv Ep) as [[]|H]; auto.
      - assert (Hc : In c (pending n par v O)) by (rewrite Ep; cbn; auto).
        apply (in_pending n par Hpar_nd Hpar_lt) in Hc as [Hcn [Hvc HcO]].
        exfalso. apply HcO. apply IH; auto. pose proof (Hacyc c v Hvc). lia. }
    intros v Hv. apply (G (S (rk v))); auto.
  Qed.

  Lemma kahn_complete : forall fuel ig Q O, kinv n par ig Q O -> kE Q O -> length O + fuel = n ->
    length (kahn fuel par ig Q O) = n.
  Proof.
    induction fuel as [|f IH]; intros ig Q O K E Hl.
    - cbn. rewrite rev_length. lia.
    - destruct Q as [|u Q].
      + cbn. rewrite rev_length.
        pose proof (all_output ig O K E) as Hall. destruct K as [_ _ _ _ _ Knd Klt].
        apply Nat.le_antisymm.
        * rewrite <- (seq_length n 0). apply NoDup_incl_length; auto.
          intros x Hx. apply in_seq. apply Klt in Hx. lia.
        * rewrite <- (seq_length n 0) at 1. apply NoDup_incl_length; [apply seq_NoDup|].
          intros x Hx. apply in_seq in Hx. apply Hall. lia.
      + cbn [kahn]. pose proof (kinv_step n par Hpar_nd Hpar_lt ig u Q O K) as K'.
        pose proof (kE_step ig u Q O K E) as E'.
        change (fold_left _ (nth u par []) (ig, Q)) with (fold_left kstep (nth u par []) (ig, Q)).
        destruct (fold_left kstep (nth u par []) (ig, Q)) as [ig' Q']. cbn [fst snd] in *.
        apply IH; auto. cbn [length]. lia.
  Qed.
End KahnComplete.

Theorem from_edges_complete : forall n edges err,
  (forall c q, In (c, q) edges -> c < n /\ q < n) ->
  from_edges n edges = inr err ->
  ~ exists rk : nat -> nat, forall c q, In (c, q) edges -> rk c < rk q.
Proof.
  intros n edges err Hrange H [rk Hrk]. unfold from_edges in H.
  set (es := dedup_edges edges []) in *.
  destruct (dedup_spec edges []) as [Hes_nd Hes_in]. fold es in Hes_nd, Hes_in.
  assert (Hes : forall e, In e es <-> In e edges) by (intros e; rewrite Hes_in; cbn; tauto).
  assert (Hes_lt : forall e, In e es -> fst e < n /\ snd e < n).
  { intros [c q] He. apply Hes in He. apply Hrange in He. auto. }
  destruct (push_fold fst snd es (repeat [] n)) as [Pl Pn]; [intros e He; rewrite repeat_length; apply Hes_lt; auto|].
  destruct (push_fold snd fst es (repeat [] n)) as [Cl Cn]; [intros e He; rewrite repeat_length; apply Hes_lt; auto|].
  destruct (count_fold es (repeat 0 n)) as [Il In_]; [intros e He; rewrite repeat_length; apply Hes_lt; auto|].
  set (par := fold_left (fun a e => push_at a (fst e) (snd e)) es (repeat [] n)) in *.
  set (ch := fold_left (fun a e => push_at a (snd e) (fst e)) es (repeat [] n)) in *.
  set (indeg := fold_left (fun a (e : nat * nat) => upd a (snd e) (S (nth (snd e) a 0))) es (repeat 0 n)) in *.
  rewrite repeat_length in Pl, Cl, Il.
  assert (Ppar : forall c, nth c par [] = map snd (filter (fun e => fst e =? c) es)).
  { intros c. rewrite Pn. destruct (Nat.ltb_spec c n); [rewrite nth_repeat|rewrite nth_overflow by (rewrite repeat_length; lia)]; reflexivity. }
  assert (Pch : forall v, nth v ch [] = map fst (filter (fun e => snd e =? v) es)).
  { intros c. rewrite Cn. destruct (Nat.ltb_spec c n); [rewrite nth_repeat|rewrite nth_overflow by (rewrite repeat_length; lia)]; reflexivity. }
  assert (Hpar_in : forall c q, In q (nth c par []) <-> In (c, q) es).
  { intros c q. rewrite Ppar, in_map_iff. split.
    - intros [[a b] [E1 E2]]. apply filter_In in E2 as [E2 E3]. cbn [fst snd] in E1, E3. apply Nat.eqb_eq in E3. rewrite <- E1, <- E3. auto.
    - intros Hin. exists (c, q). split; auto. apply filter_In. split; auto. cbn. apply Nat.eqb_refl. }
  assert (Hch_in : forall v c, In c (nth v ch []) <-> In (c, v) es).
  { intros v c. rewrite Pch, in_map_iff. split.
    - intros [[a b] [E1 E2]]. apply filter_In in E2 as [E2 E3]. cbn [fst snd] in E1, E3. apply Nat.eqb_eq in E3. rewrite <- E1, <- E3. auto.
    - intros Hin. exists (c, v). split; auto. apply filter_In. split; auto. cbn. apply Nat.eqb_refl. }
  assert (Hpar_nd : forall c, NoDup (nth c par [])).
  { intros c. rewrite Ppar. apply NoDup_map_in; [apply NoDup_filter; auto|].
    intros [a b] [a' b'] Ha Hb E. apply filter_In in Ha as [_ Ha]. apply filter_In in Hb as [_ Hb].
    cbn [fst snd] in Ha, Hb, E. apply Nat.eqb_eq in Ha, Hb. congruence. }
  assert (Hch_nd : forall v, NoDup (nth v ch [])).
  { intros c. rewrite Pch. apply NoDup_map_in; [apply NoDup_filter; auto|].
    intros [a b] [a' b'] Ha Hb E. apply filter_In in Ha as [_ Ha]. apply filter_In in Hb as [_ Hb].
    cbn [fst snd] in Ha, Hb, E. apply Nat.eqb_eq in Ha, Hb. congruence. }
  assert (Hpar_lt : forall c q, In q (nth c par []) -> q < n).
  { intros c q Hq. apply Hpar_in in Hq. apply Hes_lt in Hq. tauto. }
  (* initial Kahn invariant *)
  assert (Hdeg : forall q, q < n -> nth q indeg 0 = length (pending n par q [])).
  { intros q Hq. rewrite In_, nth_repeat. cbn [plus].
    rewrite <- (map_length fst (filter (fun e : nat * nat => snd e =? q) es)). rewrite <- Pch.
    apply Nat.le_antisymm; apply NoDup_incl_length; auto.
    - intros c Hc. apply (in_pending n par Hpar_nd Hpar_lt). apply Hch_in in Hc. split; [apply Hes_lt in Hc; tauto|].
      split; [apply Hpar_in; auto|cbn; tauto].
    - apply NoDup_filter, seq_NoDup.
    - intros c Hc. apply (in_pending n par Hpar_nd Hpar_lt) in Hc as [_ [Hc _]]. apply Hch_in, Hpar_in; auto. }
  set (q0 := filter (fun i => nth i indeg 0 =? 0) (seq 0 n)) in *.
  assert (K0 : kinv n par indeg q0 []).
  { constructor; auto.
    - intros q Hq. apply filter_In in Hq as [Hq1 Hq2]. apply in_seq in Hq1. apply Nat.eqb_eq in Hq2.
      split; [lia|]. split; auto. apply length_zero_iff_nil. rewrite <- Hdeg by lia. auto.
    - apply NoDup_filter, seq_NoDup.
    - intros l1 q l2 E. destruct l1; discriminate.
    - constructor.
    - intros q []. }
  assert (E0 : kE n par q0 []).
  { intros q Hq Hp. left. unfold q0. apply filter_In. split; [apply in_seq; lia|].
    apply Nat.eqb_eq. rewrite Hdeg by auto. rewrite Hp. reflexivity. }
  assert (Hac : forall c q, In q (nth c par []) -> rk c < rk q).
  { intros c q Hq. apply Hpar_in in Hq. apply Hes in Hq. apply Hrk; auto. }
  pose proof (kahn_complete n par Hpar_nd Hpar_lt rk Hac n indeg q0 [] K0 E0 eq_refl) as Hlen.
  rewrite Hlen, Nat.eqb_refl in H. discriminate.
Qed.
