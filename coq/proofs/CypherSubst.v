(* C35: the substitution lemma - evaluating under a parameter environment = evaluating the
   query with every parameter inlined as a literal. *)
From Coq Require Import List NArith ZArith Bool Lia.
From Verif Require Import CypherCore Cypher CypherProofs.
Import ListNotations.
Open Scope N_scope.

Lemma expr_ind' (P : expr -> Prop) :
  (forall v, P (ELit v)) -> (forall x, P (EVar x)) -> (forall x k, P (EProp x k)) ->
  (forall p, P (EParam p)) ->
  (forall o a b, P a -> P b -> P (ECmp o a b)) ->
  (forall a b, P a -> P b -> P (EAnd a b)) -> (forall a b, P a -> P b -> P (EOr a b)) ->
  (forall a b, P a -> P b -> P (EXor a b)) -> (forall a, P a -> P (ENot a)) ->
  (forall a, P a -> P (EIsNull a)) -> (forall a, P a -> P (EIsNotNull a)) ->
  (forall o a b, P a -> P b -> P (EArith o a b)) -> (forall a, P a -> P (ENeg a)) ->
  (forall a b, P a -> P b -> P (EIn a b)) ->
  (forall l, Forall P l -> P (EList l)) -> (forall f l, Forall P l -> P (EFn f l)) ->
  forall e, P e.
Proof.
  intros H1 H2 H3 H4 H5 H6 H7 H8 H9 H10 H11 H12 H13 H14 H15 H16.
  fix IH 1. intros [v|x|x k|p|o a b|a b|a b|a b|a|a|a|o a b|a|a b|l|f l].
  - apply H1. - apply H2. - apply H3. - apply H4.
  - apply H5; apply IH. - apply H6; apply IH. - apply H7; apply IH. - apply H8; apply IH.
  - apply H9; apply IH. - apply H10; apply IH. - apply H11; apply IH. - apply H12; apply IH.
  - apply H13; apply IH. - apply H14; apply IH.
  - apply H15. induction l as [|x l IHl]; constructor; [apply IH | exact IHl].
  - apply H16. induction l as [|x l IHl]; constructor; [apply IH | exact IHl].
Qed.

Lemma omap_ext {A B} (f f' : A -> outcome B) l : (forall x, f x = f' x) -> omap f l = omap f' l.
Proof. intros H. unfold omap. f_equal. apply map_ext, H. Qed.

Lemma omap_map {A B C} (f : B -> outcome C) (h : A -> B) l :
  omap f (map h l) = omap (fun x => f (h x)) l.
Proof. unfold omap. rewrite map_map. reflexivity. Qed.

Section Subst.
  Variables (cf : cfg) (g : graph) (pe : penv).

  (* the list evaluator that eval_expr uses for EList / EFn arguments *)
  Fixpoint eval_list (ps : penv) (r : row) (l : list expr) : outcome (list value) :=
    match l with
    | [] => Ok []
    | a :: l' => obind (eval_expr cf g ps r a) (fun x => obind (eval_list ps r l') (fun xs => Ok (x :: xs)))
    end.

  Lemma eval_EList ps r l :
    eval_expr cf g ps r (EList l) = obind (eval_list ps r l) (fun xs => Ok (VList xs)).
  Proof.
    cbn [eval_expr]. f_equal. induction l as [|a l IH]; [reflexivity|].
    cbn [eval_list]. rewrite <- IH. reflexivity.
  Qed.

  Lemma eval_EFn ps r f l :
    eval_expr cf g ps r (EFn f l) = obind (eval_list ps r l) (fun xs => eval_fn g f xs).
  Proof.
    cbn [eval_expr]. f_equal. induction l as [|a l IH]; [reflexivity|].
    cbn [eval_list]. rewrite <- IH. reflexivity.
  Qed.

  Lemma inline_expr_ok : forall e r,
    eval_expr cf g pe r e = eval_expr cf g [] r (inline_expr pe e).
  Proof.
    induction e as [v|x|x k|p|o a b IHa IHb|a b IHa IHb|a b IHa IHb|a b IHa IHb|a IHa|a IHa|a IHa
                    |o a b IHa IHb|a IHa|a b IHa IHb|l IHl|f l IHl] using expr_ind'; intros r;
      try reflexivity;
      try (cbn [inline_expr eval_expr]; rewrite IHa; try rewrite IHb; reflexivity).
    - cbn [inline_expr eval_expr]. destruct (alookup p pe); reflexivity.
    - cbn [inline_expr]. rewrite !eval_EList. f_equal.
      induction IHl as [|a l Ha _ IH]; [reflexivity|]. cbn [map eval_list]. rewrite Ha, IH. reflexivity.
    - cbn [inline_expr]. rewrite !eval_EFn. f_equal.
      induction IHl as [|a l Ha _ IH]; [reflexivity|]. cbn [map eval_list]. rewrite Ha, IH. reflexivity.
  Qed.

  Lemma eval_pred_ok r e : eval_pred cf g pe r e = eval_pred cf g [] r (inline_expr pe e).
  Proof. unfold eval_pred. rewrite inline_expr_ok. reflexivity. Qed.

  Lemma resolve_props_ok r l :
    resolve_props cf g pe r l = resolve_props cf g [] r (inline_props pe l).
  Proof.
    unfold resolve_props, inline_props. rewrite omap_map. apply omap_ext.
    intros [k e]. cbn [fst snd]. rewrite inline_expr_ok. reflexivity.
  Qed.

  Lemma resolve_npat_ok r np :
    resolve_npat cf g pe r np = resolve_npat cf g [] r (inline_npat pe np).
  Proof. unfold resolve_npat, inline_npat. cbn [np_props np_var np_labels]. rewrite resolve_props_ok. reflexivity. Qed.

  Lemma resolve_rpat_ok r rp :
    resolve_rpat cf g pe r rp = resolve_rpat cf g [] r (inline_rpat pe rp).
  Proof.
    unfold resolve_rpat, inline_rpat. cbn [rp_props rp_var rp_types rp_dir rp_len].
    rewrite resolve_props_ok. reflexivity.
  Qed.

  Lemma resolve_ppat_ok r p :
    resolve_ppat cf g pe r p = resolve_ppat cf g [] r (inline_ppat pe p).
  Proof.
    unfold resolve_ppat, inline_ppat. cbn [fst snd]. rewrite <- resolve_npat_ok.
    destruct (resolve_npat cf g pe r (fst p)); cbn [obind]; try reflexivity.
    rewrite omap_map.
    rewrite (omap_ext _ (fun s : rpat expr * npat expr =>
       obind (resolve_rpat cf g [] r (inline_rpat pe (fst s)))
             (fun a0 => obind (resolve_npat cf g [] r (inline_npat pe (snd s))) (fun b => Ok (a0, b))))).
    - reflexivity.
    - intros [rp np]. cbn [fst snd]. rewrite resolve_rpat_ok, resolve_npat_ok. reflexivity.
  Qed.

  Lemma filter_rows_ok w rows :
    filter_rows cf g pe w rows = filter_rows cf g [] (option_map (inline_expr pe) w) rows.
  Proof.
    destruct w as [e|]; [|reflexivity]. cbn [option_map filter_rows]. f_equal.
    apply omap_ext. intros r. rewrite eval_pred_ok. reflexivity.
  Qed.

  Lemma ppat_vars_inline (p : ppat expr) : ppat_vars (inline_ppat pe p) = ppat_vars p.
  Proof.
    unfold ppat_vars, inline_ppat. cbn [fst snd inline_npat np_var]. f_equal.
    induction (snd p) as [|[rp np] l IH]; [reflexivity|]. cbn [map flat_map fst snd].
    rewrite IH. reflexivity.
  Qed.

  Lemma pats_vars_inline (ps : list (ppat expr)) :
    flat_map ppat_vars (map (inline_ppat pe) ps) = flat_map ppat_vars ps.
  Proof. induction ps as [|p ps IH]; [reflexivity|]. cbn [map flat_map]. rewrite ppat_vars_inline, IH. reflexivity. Qed.

  Lemma eval_match_ok opt pats w r :
    eval_match cf g pe opt pats w r =
    eval_match cf g [] opt (map (inline_ppat pe) pats) (option_map (inline_expr pe) w) r.
  Proof.
    unfold eval_match. rewrite omap_map.
    rewrite (omap_ext _ (fun p => resolve_ppat cf g [] r (inline_ppat pe p)) pats (resolve_ppat_ok r)).
    destruct (omap _ pats); cbn [obind]; try reflexivity.
    rewrite <- filter_rows_ok. destruct (filter_rows cf g pe w _); cbn [obind]; try reflexivity.
    rewrite pats_vars_inline. reflexivity.
  Qed.

  Lemma eval_agg_ok a d arg rows :
    eval_agg cf g pe a d arg rows = eval_agg cf g [] a d (option_map (inline_expr pe) arg) rows.
  Proof.
    destruct arg as [e|]; [|reflexivity]. cbn [option_map eval_agg]. f_equal.
    apply omap_ext. intros r. apply inline_expr_ok.
  Qed.

  Lemma project_plain_ok p rows :
    project_plain cf g pe p rows = project_plain cf g [] (inline_proj pe p) rows.
  Proof.
    unfold project_plain, inline_proj. cbn [p_items p_distinct]. apply omap_ext. intros r.
    rewrite omap_map. f_equal. apply omap_ext. intros [it a]. cbn [fst snd].
    destruct it as [e|op dd arg]; cbn [inline_item]; [rewrite inline_expr_ok|]; reflexivity.
  Qed.

  Lemma is_agg_inline it : is_agg (inline_item pe it) = is_agg it.
  Proof. destruct it; reflexivity. Qed.

  Lemma filter_keys_inline (items : list (item * N)) :
    filter (fun ia : item * N => negb (is_agg (fst ia)))
           (map (fun ia : item * N => (inline_item pe (fst ia), snd ia)) items)
    = map (fun ia : item * N => (inline_item pe (fst ia), snd ia))
          (filter (fun ia : item * N => negb (is_agg (fst ia))) items).
  Proof.
    induction items as [|[it a] l IH]; [reflexivity|]. cbn [map filter fst snd].
    rewrite is_agg_inline. destruct (is_agg it); cbn [negb map]; rewrite IH; reflexivity.
  Qed.

  Lemma project_agg_ok empty_ok p rows :
    project_agg cf g pe empty_ok p rows = project_agg cf g [] empty_ok (inline_proj pe p) rows.
  Proof.
    unfold project_agg, inline_proj. cbn [p_items]. rewrite filter_keys_inline.
    set (keys := filter (fun ia : item * N => negb (is_agg (fst ia))) (p_items p)).
    assert (E : forall r,
      omap (fun ia : item * N => match fst ia with IExpr e => eval_expr cf g pe r e | _ => ErrT end) keys =
      omap (fun ia : item * N => match fst ia with IExpr e => eval_expr cf g [] r e | _ => ErrT end)
           (map (fun ia : item * N => (inline_item pe (fst ia), snd ia)) keys)).
    { intros r. rewrite omap_map. apply omap_ext. intros [it a]. cbn [fst snd].
      destruct it; cbn [inline_item]; [apply inline_expr_ok | reflexivity]. }
    rewrite (omap_ext _ (fun r => obind (omap (fun ia : item * N =>
                 match fst ia with IExpr e => eval_expr cf g [] r e | _ => ErrT end)
                 (map (fun ia : item * N => (inline_item pe (fst ia), snd ia)) keys)) (fun k => Ok (k, r))) rows).
    2:{ intros r. rewrite E. reflexivity. }
    destruct (omap _ rows) as [keyed| | |]; cbn [obind]; try reflexivity.
    assert (G : match map (fun ia : item * N => (inline_item pe (fst ia), snd ia)) keys with
                | [] => if empty_ok then [([], rows)] else match rows with [] => [] | _ => [([], rows)] end
                | _ => group_rows keyed
                end =
                match keys with
                | [] => if empty_ok then [([], rows)] else match rows with [] => [] | _ => [([], rows)] end
                | _ => group_rows keyed
                end) by (destruct keys; reflexivity).
    rewrite G. apply omap_ext. intros kg. f_equal.
    clear E G keyed. clearbody keys. clear keys.
    generalize (fst kg). induction (p_items p) as [|[it a] l IH]; intros ks; [reflexivity|].
    destruct it as [e|op dd arg]; simpl map; cbv beta iota; cbn [fst snd inline_item].
    - destruct ks as [|k ks]; [reflexivity|]. rewrite (IH ks). reflexivity.
    - rewrite eval_agg_ok. destruct (eval_agg cf g [] op dd _ (snd kg)); cbn [obind]; try reflexivity.
      rewrite (IH ks). reflexivity.
  Qed.

  Lemma existsb_agg_inline (items : list (item * N)) :
    existsb (fun ia : item * N => is_agg (fst ia))
            (map (fun ia : item * N => (inline_item pe (fst ia), snd ia)) items)
    = existsb (fun ia : item * N => is_agg (fst ia)) items.
  Proof.
    induction items as [|[it a] l IH]; [reflexivity|]. cbn [map existsb fst]. rewrite is_agg_inline, IH. reflexivity.
  Qed.

  Lemma project_sorted_ok empty_ok p rows :
    project_sorted cf g pe empty_ok p rows = project_sorted cf g [] empty_ok (inline_proj pe p) rows.
  Proof.
    unfold project_sorted. rewrite <- project_agg_ok, <- project_plain_ok.
    unfold inline_proj at 1. cbn [p_items]. rewrite existsb_agg_inline.
    destruct (if existsb _ (p_items p) then _ else _) as [es| | |]; cbn [obind]; try reflexivity.
    unfold inline_proj. cbn [p_distinct p_order].
    set (es' := if p_distinct p then _ else es).
    rewrite map_map. cbn [snd].
    rewrite (omap_ext _ (fun e : entry =>
       obind (omap (fun ob : expr * bool =>
                      match eval_expr cf g [] (fst e) (fst ob) with
                      | Ok v => Ok v
                      | err => if cf_orderby_errors cf then err else Ok VNull
                      end) (map (fun ob : expr * bool => (inline_expr pe (fst ob), snd ob)) (p_order p)))
             (fun k => Ok (k, snd e))) es').
    - reflexivity.
    - intros e. rewrite omap_map. f_equal. apply omap_ext. intros [x d]. cbn [fst snd].
      rewrite inline_expr_ok. reflexivity.
  Qed.

  Lemma window_inline {A} p (l : list A) : window (inline_proj pe p) l = window p l.
  Proof. reflexivity. Qed.

  Lemma eval_clause_ok c rows :
    eval_clause cf g pe c rows = eval_clause cf g [] (inline_clause pe c) rows.
  Proof.
    destruct c as [opt pats w|e x|p w]; cbn [inline_clause eval_clause].
    - f_equal. apply omap_ext. intros r. apply eval_match_ok.
    - f_equal. apply omap_ext. intros r. rewrite inline_expr_ok. reflexivity.
    - rewrite <- project_sorted_ok.
      destruct (project_sorted cf g pe (cf_with_empty_agg cf) p rows); cbn [obind]; try reflexivity.
      rewrite !window_inline. unfold inline_proj at 1. cbn [p_order]. rewrite map_map. cbn [snd].
      rewrite <- filter_rows_ok. reflexivity.
  Qed.

  Lemma eval_clauses_ok cs : forall rows,
    eval_clauses cf g pe cs rows = eval_clauses cf g [] (map (inline_clause pe) cs) rows.
  Proof.
    induction cs as [|c cs IH]; intros rows; [reflexivity|]. cbn [map eval_clauses].
    rewrite <- eval_clause_ok. destruct (eval_clause cf g pe c rows); cbn [obind]; try reflexivity. apply IH.
  Qed.

  Lemma eval_squery_ok s :
    eval_squery cf g pe s = eval_squery cf g [] (inline_squery pe s).
  Proof.
    unfold eval_squery, eval_squery_sorted, inline_squery. cbn [q_clauses q_ret].
    rewrite <- eval_clauses_ok. destruct (eval_clauses cf g pe (q_clauses s) [[]]); cbn [obind]; try reflexivity.
    rewrite <- project_sorted_ok. destruct (project_sorted cf g pe true (q_ret s) a); cbn [obind]; reflexivity.
  Qed.

  Theorem subst_query q :
    eval_query_cfg cf g pe q = eval_query_cfg cf g [] (inline pe q).
  Proof.
    unfold eval_query_cfg, inline. cbn [q_parts q_all]. rewrite omap_map.
    rewrite (omap_ext _ (fun s => eval_squery cf g [] (inline_squery pe s)) (q_parts q) eval_squery_ok).
    destruct (omap _ (q_parts q)); cbn [obind]; try reflexivity.
    destruct (q_all q); [reflexivity|]. destruct (q_parts q) as [|s [|s' l]]; reflexivity.
  Qed.
End Subst.

(* ------------------------------------------------------------------ *)
(* parameters as SKIP / LIMIT counts of the final RETURN *)

(* a count: a number, or a parameter that must be bound to a non-negative integer *)
Inductive cnt := CNum (n : N) | CPar (p : N).

Definition resolve_cnt (pe : penv) (c : cnt) : outcome N :=
  match c with
  | CNum n => Ok n
  | CPar p =>
      match alookup p pe with
      | Some (VInt z) => if Z.leb 0 z then Ok (Z.to_N z) else ErrT
      | _ => ErrT
      end
  end.

Definition inline_cnt (pe : penv) (c : cnt) : cnt :=
  match c with
  | CNum n => CNum n
  | CPar p =>
      match alookup p pe with
      | Some (VInt z) => if Z.leb 0 z then CNum (Z.to_N z) else CPar p
      | _ => CPar p
      end
  end.

Definition resolve_ocnt (pe : penv) (o : option cnt) : outcome (option N) :=
  match o with None => Ok None | Some c => obind (resolve_cnt pe c) (fun n => Ok (Some n)) end.

(* a query whose last part's RETURN takes its SKIP / LIMIT from [wq_skip] / [wq_limit] *)
Record wquery := WQ { wq_query : query; wq_skip : option cnt; wq_limit : option cnt }.

Definition set_window_proj (s l : option N) (p : proj) : proj :=
  PJ (p_distinct p) (p_items p) (p_order p) s l.
Fixpoint set_window_last (s l : option N) (parts : list squery) : list squery :=
  match parts with
  | [] => []
  | [x] => [SQ (q_clauses x) (set_window_proj s l (q_ret x))]
  | x :: rest => x :: set_window_last s l rest
  end.
Definition set_window (s l : option N) (q : query) : query := Q (set_window_last s l (q_parts q)) (q_all q).

Definition eval_wquery_cfg (cf : cfg) (g : graph) (pe : penv) (w : wquery) : outcome table :=
  obind (resolve_ocnt pe (wq_skip w)) (fun s =>
  obind (resolve_ocnt pe (wq_limit w)) (fun l =>
    eval_query_cfg cf g pe (set_window s l (wq_query w)))).

Definition inline_wquery (pe : penv) (w : wquery) : wquery :=
  WQ (inline pe (wq_query w)) (option_map (inline_cnt pe) (wq_skip w)) (option_map (inline_cnt pe) (wq_limit w)).

Lemma resolve_cnt_inline pe c : resolve_cnt pe c = resolve_cnt [] (inline_cnt pe c).
Proof.
  destruct c as [n|p]; [reflexivity|]. cbn [resolve_cnt inline_cnt].
  destruct (alookup p pe) as [[| | z | | | |]|]; try reflexivity.
  destruct (Z.leb 0 z); reflexivity.
Qed.

Lemma resolve_ocnt_inline pe o : resolve_ocnt pe o = resolve_ocnt [] (option_map (inline_cnt pe) o).
Proof. destruct o as [c|]; [|reflexivity]. cbn [resolve_ocnt option_map]. rewrite resolve_cnt_inline. reflexivity. Qed.

Lemma set_window_last_inline pe s l parts :
  map (inline_squery pe) (set_window_last s l parts) = set_window_last s l (map (inline_squery pe) parts).
Proof.
  induction parts as [|x [|y rest] IH]; [reflexivity | reflexivity |].
  change (set_window_last s l (x :: y :: rest)) with (x :: set_window_last s l (y :: rest)).
  cbn [map]. rewrite IH. reflexivity.
Qed.

Lemma set_window_inline pe s l q : inline pe (set_window s l q) = set_window s l (inline pe q).
Proof. unfold inline, set_window. cbn [q_parts q_all]. rewrite set_window_last_inline. reflexivity. Qed.

Theorem subst_wquery cf g pe w :
  eval_wquery_cfg cf g pe w = eval_wquery_cfg cf g [] (inline_wquery pe w).
Proof.
  unfold eval_wquery_cfg, inline_wquery. cbn [wq_query wq_skip wq_limit].
  rewrite <- !resolve_ocnt_inline.
  destruct (resolve_ocnt pe (wq_skip w)) as [s| | |]; cbn [obind]; try reflexivity.
  destruct (resolve_ocnt pe (wq_limit w)) as [l| | |]; cbn [obind]; try reflexivity.
  rewrite <- set_window_inline. apply subst_query.
Qed.
