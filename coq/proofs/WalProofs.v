(* Proofs about the bincode model (Bincode.v) and the WAL model (Wal.v) — property C15. *)
From Coq Require Import List NArith ZArith Bool Lia Sorted.
From Coq Require Import ZifyBool ZifyNat ZifyN.
From Verif Require Import CheckLib Bincode Wal.
Import ListNotations.
Open Scope N_scope.

Arguments N.add : simpl never.
Arguments N.sub : simpl never.
Arguments N.mul : simpl never.
Arguments N.div : simpl never.
Arguments N.modulo : simpl never.
Arguments N.eqb : simpl never.
Arguments N.ltb : simpl never.
Arguments N.leb : simpl never.
Arguments N.pow : simpl never.
Arguments N.of_nat : simpl never.
Arguments N.to_nat : simpl never.
Arguments N.lxor : simpl never.
Arguments firstn : simpl nomatch.
Arguments skipn : simpl nomatch.

(* ------------------------------------------------------------------ *)
(** * Well-formed values (what a Rust value of the type can be) *)

Definition isbyte (b : N) : Prop := b < 256.
Definition wf_blob (b : bytes) : Prop := Forall isbyte b /\ nlen b < two64.
Definition wf_str (s : bytes) : Prop := utf8_valid s = true /\ wf_blob s.

Definition wf_entry (e : entry) : Prop :=
  match e with
  | CreateNode t id ls p => wf_str t /\ id < two64 /\ (Forall wf_str ls /\ nlen ls < two64) /\ wf_blob p
  | CreateEdge t id s d ty p =>
      wf_str t /\ id < two64 /\ s < two64 /\ d < two64 /\ wf_str ty /\ wf_blob p
  | DeleteNode t id => wf_str t /\ id < two64
  | DeleteEdge t id => wf_str t /\ id < two64
  | UpdateNodeProps t id p v => wf_str t /\ id < two64 /\ wf_blob p /\ v < two64
  | UpdateEdgeProps t id p v => wf_str t /\ id < two64 /\ wf_blob p /\ v < two64
  | CheckpointE s ts => s < two64 /\ (- two63z <= ts < two63z)%Z
  end.

(* a record as Wal::append builds it, small enough for the u32 length prefix *)
Definition valid_rec (r : record) : Prop :=
  wf_entry (ent r) /\ seq r < two64 /\ cksum r = xor_bytes (encode_entry (ent r))
  /\ nlen (encode_record r) < two32.

(* ------------------------------------------------------------------ *)
(** * Little-endian integers *)

Lemma le_length : forall n x, length (le n x) = n.
Proof. induction n as [|n IH]; intros x; cbn; [reflexivity | now rewrite IH]. Qed.

Lemma le_bytes : forall n x, Forall isbyte (le n x).
Proof.
  induction n as [|n IH]; intros x; cbn; constructor; [|apply IH].
  unfold isbyte. apply N.mod_lt. lia.
Qed.

Lemma unle_le : forall n x, unle (le n x) = x mod 256 ^ N.of_nat n.
Proof.
  induction n as [|n IH]; intros x; cbn [le unle].
  - change (256 ^ N.of_nat 0) with 1. now rewrite N.mod_1_r.
  - rewrite IH. replace (N.of_nat (S n)) with (N.succ (N.of_nat n)) by lia.
    rewrite N.pow_succ_r'. rewrite N.mod_mul_r; [reflexivity | lia |].
    apply N.pow_nonzero. lia.
Qed.

Lemma unle_u32 : forall x, x < two32 -> unle (u32 x) = x.
Proof. intros x H. unfold u32. rewrite unle_le. apply N.mod_small. exact H. Qed.

Lemma unle_u64 : forall x, x < two64 -> unle (u64 x) = x.
Proof. intros x H. unfold u64. rewrite unle_le. apply N.mod_small. exact H. Qed.

(* on byte lists [le] inverts [unle] *)
Lemma le_unle : forall l, Forall isbyte l -> le (length l) (unle l) = l.
Proof.
  induction l as [|b l IH]; intros H; [reflexivity|].
  inversion H as [|? ? Hb Hl]; subst. unfold isbyte in Hb. cbn [length le unle].
  replace ((b + 256 * unle l) mod 256) with b.
  2:{ rewrite (N.mul_comm 256), N.mod_add by lia. symmetry. now apply N.mod_small. }
  replace ((b + 256 * unle l) / 256) with (unle l).
  2:{ rewrite (N.mul_comm 256), N.div_add by lia. rewrite (N.div_small b) by exact Hb. lia. }
  now rewrite IH.
Qed.

Lemma unle_bound : forall l, Forall isbyte l -> unle l < 256 ^ N.of_nat (length l).
Proof.
  induction l as [|b l IH]; intros H; cbn [length unle].
  - cbn. lia.
  - inversion H as [|? ? Hb Hl]; subst. unfold isbyte in Hb. specialize (IH Hl).
    replace (N.of_nat (S (length l))) with (N.succ (N.of_nat (length l))) by lia.
    rewrite N.pow_succ_r'. lia.
Qed.

(* ------------------------------------------------------------------ *)
(** * Parsers: round trip with an unread rest *)

Lemma take_app : forall (a r : bytes), take (length a) (a ++ r) = Some (a, r).
Proof.
  intros a r. unfold take. rewrite app_length.
  replace (Nat.leb (length a) (length a + length r)) with true by (symmetry; apply Nat.leb_le; lia).
  rewrite firstn_app, Nat.sub_diag, firstn_all, firstn_O, app_nil_r.
  rewrite skipn_app, Nat.sub_diag, skipn_all. reflexivity.
Qed.

Lemma d_u32_app : forall x r, x < two32 -> d_u32 (u32 x ++ r) = Some (x, r).
Proof.
  intros x r H. unfold d_u32. replace 4%nat with (length (u32 x)) by apply le_length.
  rewrite take_app, unle_u32 by exact H. reflexivity.
Qed.

Lemma d_u64_app : forall x r, x < two64 -> d_u64 (u64 x ++ r) = Some (x, r).
Proof.
  intros x r H. unfold d_u64. replace 8%nat with (length (u64 x)) by apply le_length.
  rewrite take_app, unle_u64 by exact H. reflexivity.
Qed.

Lemma d_i64_app : forall z r, (- two63z <= z < two63z)%Z -> d_i64 (i64 z ++ r) = Some (z, r).
Proof.
  intros z r H. unfold d_i64, i64. change (le 8) with u64.
  assert (Hm : (0 <= z mod two64z < two64z)%Z) by (apply Z.mod_pos_bound; reflexivity).
  rewrite d_u64_app by (unfold two64, two64z in *; lia).
  f_equal. f_equal. unfold z_of_u64, two63z, two64z in *.
  destruct (Z_lt_le_dec z 0) as [Hn|Hp].
  - assert (E : (z mod 18446744073709551616 = z + 18446744073709551616)%Z).
    { symmetry. apply Z.mod_unique with (q := (-1)%Z); lia. }
    rewrite E. destruct (N.ltb_spec (Z.to_N (z + 18446744073709551616)) 9223372036854775808); lia.
  - rewrite Z.mod_small by lia.
    destruct (N.ltb_spec (Z.to_N z) 9223372036854775808); lia.
Qed.

Lemma d_bytes_app : forall b r, nlen b < two64 -> d_bytes (enc_bytes b ++ r) = Some (b, r).
Proof.
  intros b r H. unfold d_bytes, enc_bytes. rewrite <- app_assoc, d_u64_app by exact H.
  unfold nlen in *. rewrite app_length.
  replace (N.of_nat (length b) <=? N.of_nat (length b + length r)) with true by lia.
  rewrite Nnat.Nat2N.id. apply take_app.
Qed.

Lemma d_str_app : forall s r, wf_str s -> d_str (enc_bytes s ++ r) = Some (s, r).
Proof.
  intros s r [Hu [_ Hl]]. unfold d_str. rewrite d_bytes_app by exact Hl. now rewrite Hu.
Qed.

Lemma enc_bytes_length : forall b, length (enc_bytes b) = (8 + length b)%nat.
Proof. intros b. unfold enc_bytes, u64. now rewrite app_length, le_length. Qed.

Lemma d_strs_n_app : forall l fuel r,
  Forall wf_str l -> nlen l < two64 -> (length (flat_map enc_bytes l) <= fuel)%nat ->
  d_strs_n fuel (nlen l) (flat_map enc_bytes l ++ r) = Some (l, r).
Proof.
  induction l as [|s l IH]; intros fuel r Hw Hn Hf.
  - destruct fuel; reflexivity.
  - inversion Hw as [|? ? Hs Hl]; subst. cbn [flat_map] in *.
    rewrite app_length, enc_bytes_length in Hf.
    destruct fuel as [|fuel]; [lia|]. cbn [d_strs_n].
    replace (nlen (s :: l) =? 0) with false by (unfold nlen; cbn [length]; lia).
    rewrite <- app_assoc. rewrite d_str_app by exact Hs.
    replace (nlen (s :: l) - 1) with (nlen l) by (unfold nlen; cbn [length]; lia).
    rewrite IH; [reflexivity | exact Hl | unfold nlen in *; cbn [length] in Hn; lia | lia].
Qed.

Lemma d_strs_app : forall l r, Forall wf_str l -> nlen l < two64 ->
  d_strs (enc_strs l ++ r) = Some (l, r).
Proof.
  intros l r Hw Hn. unfold d_strs, enc_strs. rewrite <- app_assoc, d_u64_app by exact Hn.
  apply d_strs_n_app; [exact Hw | exact Hn | rewrite app_length; lia].
Qed.

Ltac parse_step :=
  repeat rewrite <- app_assoc;
  first [ rewrite d_str_app by assumption
        | rewrite d_u64_app by assumption
        | rewrite d_bytes_app by (match goal with H : wf_blob _ |- _ => apply H end)
        | rewrite d_strs_app by assumption
        | rewrite d_i64_app by assumption ].

Lemma d_entry_app : forall e r, wf_entry e -> d_entry (encode_entry e ++ r) = Some (e, r).
Proof.
  intros e r H. destruct e; cbn [wf_entry] in H; unfold d_entry, bind, ret; cbn [encode_entry];
    repeat rewrite <- app_assoc; rewrite d_u32_app by (unfold two32; lia);
    repeat (match goal with |- context [N.eqb ?a ?b] =>
              let v := eval vm_compute in (N.eqb a b) in change (N.eqb a b) with v end; cbv iota).
  - destruct H as (Ht & Hid & (Hls & Hn) & Hp).
    rewrite d_str_app by assumption. rewrite d_u64_app by assumption.
    rewrite d_strs_app by assumption. rewrite d_bytes_app by apply Hp. reflexivity.
  - destruct H as (Ht & Hid & Hs & Hd & Hty & Hp).
    rewrite d_str_app by assumption. rewrite d_u64_app by assumption.
    rewrite d_u64_app by assumption. rewrite d_u64_app by assumption.
    rewrite d_str_app by assumption. rewrite d_bytes_app by apply Hp. reflexivity.
  - destruct H as (Ht & Hid).
    rewrite d_str_app by assumption. rewrite d_u64_app by assumption. reflexivity.
  - destruct H as (Ht & Hid).
    rewrite d_str_app by assumption. rewrite d_u64_app by assumption. reflexivity.
  - destruct H as (Ht & Hid & Hp & Hv).
    rewrite d_str_app by assumption. rewrite d_u64_app by assumption.
    rewrite d_bytes_app by apply Hp. rewrite d_u64_app by assumption. reflexivity.
  - destruct H as (Ht & Hid & Hp & Hv).
    rewrite d_str_app by assumption. rewrite d_u64_app by assumption.
    rewrite d_bytes_app by apply Hp. rewrite d_u64_app by assumption. reflexivity.
  - destruct H as (Hs & Hts).
    rewrite d_u64_app by assumption. rewrite d_i64_app by assumption. reflexivity.
Qed.

(* ------------------------------------------------------------------ *)
(** * Records *)

Lemma bytes_eqb_refl : forall a, bytes_eqb a a = true.
Proof. induction a as [|x a IH]; cbn; [reflexivity|]. rewrite N.eqb_refl. exact IH. Qed.

Lemma bytes_eqb_eq : forall a b, bytes_eqb a b = true -> a = b.
Proof.
  induction a as [|x a IH]; intros [|y b] H; cbn in H; try discriminate; [reflexivity|].
  apply andb_true_iff in H. destruct H as [H1 H2]. apply N.eqb_eq in H1. subst. f_equal. now apply IH.
Qed.

Lemma lxor_byte : forall a b, isbyte a -> isbyte b -> isbyte (N.lxor a b).
Proof.
  unfold isbyte. intros a b Ha Hb.
  destruct (N.eq_dec (N.lxor a b) 0) as [E|E]; [rewrite E; lia|].
  change 256 with (2 ^ 8). apply N.log2_lt_pow2; [lia|].
  pose proof (N.log2_lxor a b) as Hx.
  assert (La : N.log2 a < 8).
  { destruct (N.eq_dec a 0) as [->|Na]; [cbn; lia|]. apply N.log2_lt_pow2; [lia|]. exact Ha. }
  assert (Lb : N.log2 b < 8).
  { destruct (N.eq_dec b 0) as [->|Nb]; [cbn; lia|]. apply N.log2_lt_pow2; [lia|]. exact Hb. }
  lia.
Qed.

Lemma fold_lxor_acc : forall l a, fold_left N.lxor l a = N.lxor a (fold_left N.lxor l 0).
Proof.
  induction l as [|x l IH]; intros a; cbn [fold_left].
  - now rewrite N.lxor_0_r.
  - rewrite IH, (IH (N.lxor 0 x)), N.lxor_0_l, N.lxor_assoc. reflexivity.
Qed.

Lemma xor_app : forall a b, xor_bytes (a ++ b) = N.lxor (xor_bytes a) (xor_bytes b).
Proof. intros a b. unfold xor_bytes. rewrite fold_left_app. apply fold_lxor_acc. Qed.

Lemma xor_cons : forall x l, xor_bytes (x :: l) = N.lxor x (xor_bytes l).
Proof. intros x l. change (x :: l) with ([x] ++ l). rewrite xor_app. unfold xor_bytes at 1. cbn [fold_left]. now rewrite N.lxor_0_l. Qed.

Lemma xor_bound : forall l, Forall isbyte l -> isbyte (xor_bytes l).
Proof.
  induction l as [|x l IH]; intros H.
  - unfold isbyte, xor_bytes. cbn. lia.
  - inversion H; subst. rewrite xor_cons. apply lxor_byte; auto.
Qed.

Lemma enc_bytes_isbyte : forall b, Forall isbyte b -> Forall isbyte (enc_bytes b).
Proof. intros b H. unfold enc_bytes. apply Forall_app. split; [apply le_bytes | exact H]. Qed.

Lemma enc_strs_isbyte : forall l, Forall wf_str l -> Forall isbyte (enc_strs l).
Proof.
  intros l H. unfold enc_strs. apply Forall_app. split; [apply le_bytes|].
  induction H as [|s l Hs Hl IH]; cbn [flat_map]; [constructor|].
  apply Forall_app. split; [apply enc_bytes_isbyte, Hs | exact IH].
Qed.

Lemma encode_entry_isbyte : forall e, wf_entry e -> Forall isbyte (encode_entry e).
Proof.
  intros e H. destruct e; cbn [wf_entry encode_entry] in *; unfold wf_str, wf_blob, i64, u32, u64 in *;
  repeat match goal with H : _ /\ _ |- _ => destruct H end;
  repeat (apply Forall_app; split);
  try first [ apply le_bytes
        | apply enc_strs_isbyte; assumption
        | apply enc_bytes_isbyte; assumption ].
  Show.
Qed.

Lemma d_record_app : forall r rest, valid_rec r ->
  d_record (encode_record r ++ rest) = Some (r, rest).
Proof.
  intros [s e c] rest (He & Hs & Hc & _). cbn [seq ent cksum] in *.
  unfold d_record, encode_record, bind, ret. cbn [seq ent cksum].
  repeat rewrite <- app_assoc. rewrite d_u64_app by exact Hs. rewrite d_entry_app by exact He.
  rewrite d_u32_app; [reflexivity|].
  subst c. pose proof (xor_bound _ (encode_entry_isbyte e He)) as Hb. unfold isbyte, two32 in *. lia.
Qed.

(* codec round trip *)
Lemma decode_encode : forall r, valid_rec r -> decode_record (encode_record r) = Some r.
Proof.
  intros r H. unfold decode_record. rewrite <- (app_nil_r (encode_record r)) at 1.
  rewrite d_record_app by exact H. rewrite bytes_eqb_refl.
  destruct H as (_ & _ & Hc & _). rewrite Hc, N.eqb_refl. reflexivity.
Qed.

Lemma decode_inv : forall body r, decode_record body = Some r ->
  body = encode_record r /\ cksum r = xor_bytes (encode_entry (ent r)).
Proof.
  intros body r H. unfold decode_record in H.
  destruct (d_record body) as [[r' rest]|]; [|discriminate].
  destruct (bytes_eqb (encode_record r') body) eqn:E1; [|discriminate].
  destruct (cksum r' =? xor_bytes (encode_entry (ent r'))) eqn:E2; [|discriminate].
  cbn in H. inversion H; subst. split; [symmetry; now apply bytes_eqb_eq | now apply N.eqb_eq].
Qed.

Lemma decode_is_d_record : forall body r, decode_record body = Some r ->
  exists rest, d_record body = Some (r, rest).
Proof.
  intros body r H. unfold decode_record in H.
  destruct (d_record body) as [[r' rest]|]; [|discriminate].
  destruct (_ && _); [|discriminate]. inversion H; subst. now exists rest.
Qed.

Lemma mk_record_valid : forall s e, wf_entry e -> s < two64 ->
  nlen (encode_entry e) + 12 < two32 -> valid_rec (mk_record s e).
Proof.
  intros s e He Hs Hl. unfold valid_rec, mk_record. cbn [seq ent cksum].
  repeat split; try assumption. unfold encode_record. cbn [seq ent cksum].
  unfold nlen in *. rewrite !app_length. unfold u64, u32. rewrite !le_length. lia.
Qed.

(* ------------------------------------------------------------------ *)
(** * Reading a file *)

Definition frames (R : list record) : bytes := flat_map frame R.

Lemma frames_app : forall A B, frames (A ++ B) = frames A ++ frames B.
Proof. intros A B. unfold frames. apply flat_map_app. Qed.

Lemma frame_length : forall r, length (frame r) = (4 + length (encode_record r))%nat.
Proof. intros r. unfold frame. cbv zeta. unfold u32. now rewrite app_length, le_length. Qed.

Lemma firstn_app_exact : forall (a b : bytes), firstn (length a) (a ++ b) = a.
Proof. intros a b. rewrite firstn_app, Nat.sub_diag, firstn_all, firstn_O, app_nil_r. reflexivity. Qed.
Lemma skipn_app_exact : forall (a b : bytes), skipn (length a) (a ++ b) = b.
Proof. intros a b. rewrite skipn_app, Nat.sub_diag, skipn_all. reflexivity. Qed.

Lemma scan_S : forall f bs, bs <> [] ->
  scan (S f) bs =
  if nlen bs <? 4 then ([], Torn, 0)
  else let len := unle (firstn 4 bs) in
       let rest := skipn 4 bs in
       if nlen rest <? len then ([], Torn, 0)
       else match decode_record (firstn (N.to_nat len) rest) with
            | Some r => let '(rs, t, g) := scan f (skipn (N.to_nat len) rest) in (r :: rs, t, 4 + len + g)
            | None => ([], Bad, 0)
            end.
Proof. intros f [|b bs] H; [congruence | reflexivity]. Qed.

Lemma scan_step : forall r f rest, valid_rec r ->
  scan (S f) (frame r ++ rest) =
  let '(rs, t, g) := scan f rest in (r :: rs, t, 4 + nlen (encode_record r) + g).
Proof.
  intros r f rest Hv. pose proof Hv as (_ & _ & _ & Hl).
  rewrite scan_S.
  2:{ intros E. apply (f_equal (@length N)) in E. rewrite app_length, frame_length in E. cbn in E. lia. }
  unfold frame. cbv zeta. rewrite <- app_assoc.
  replace (nlen (u32 (nlen (encode_record r)) ++ encode_record r ++ rest) <? 4) with false.
  2:{ unfold nlen, u32. rewrite app_length, le_length. lia. }
  replace 4%nat with (length (u32 (nlen (encode_record r)))) by apply le_length.
  rewrite firstn_app_exact, skipn_app_exact, unle_u32 by exact Hl.
  replace (nlen (encode_record r ++ rest) <? nlen (encode_record r)) with false.
  2:{ unfold nlen. rewrite app_length. lia. }
  unfold nlen at 1 2. rewrite Nnat.Nat2N.id, firstn_app_exact, skipn_app_exact.
  rewrite decode_encode by exact Hv. reflexivity.
Qed.

Lemma scan_frames_app : forall R f X, Forall valid_rec R ->
  scan (length R + f) (frames R ++ X) =
  let '(rs, t, g) := scan f X in (R ++ rs, t, nlen (frames R) + g).
Proof.
  induction R as [|r R IH]; intros f X H.
  - cbn [length frames flat_map app Nat.add]. destruct (scan f X) as [[rs t] g].
    f_equal. unfold nlen. cbn. lia.
  - inversion H as [|? ? Hr HR]; subst. cbn [length Nat.add]. unfold frames. cbn [flat_map].
    fold (frames R). rewrite <- app_assoc, scan_step by exact Hr. rewrite IH by exact HR.
    destruct (scan f X) as [[rs t] g]. cbn [app]. f_equal.
    unfold nlen. rewrite app_length, frame_length. lia.
Qed.

Lemma frames_length_ge : forall R, (length R <= length (frames R))%nat.
Proof.
  induction R as [|r R IH]; [cbn; lia|]. unfold frames in *. cbn [flat_map length].
  rewrite app_length, frame_length. lia.
Qed.

Lemma scan_file_frames_app : forall R X, Forall valid_rec R ->
  scan_file (frames R ++ X) =
  let '(rs, t, g) := scan (S (length (frames R ++ X)) - length R) X in
  (R ++ rs, t, nlen (frames R) + g).
Proof.
  intros R X H. unfold scan_file. pose proof (frames_length_ge R) as HL.
  replace (S (length (frames R ++ X))) with (length R + (S (length (frames R ++ X)) - length R))%nat at 1
    by (rewrite app_length; lia).
  now apply scan_frames_app.
Qed.

Lemma scan_file_frames : forall R, Forall valid_rec R ->
  scan_file (frames R) = (R, Clean, nlen (frames R)).
Proof.
  intros R H. rewrite <- (app_nil_r (frames R)) at 1. rewrite scan_file_frames_app by exact H.
  pose proof (frames_length_ge R). rewrite app_nil_r.
  destruct (S (length (frames R)) - length R)%nat eqn:E; [lia|]. cbn [scan].
  rewrite app_nil_r. f_equal. lia.
Qed.
