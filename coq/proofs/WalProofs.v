(* Proofs about the bincode model (Bincode.v) and the WAL model (Wal.v) — property C15. *)
From Coq Require Import List NArith ZArith Bool Lia Sorted.
From Coq Require Import ZifyBool ZifyNat ZifyN.
From Verif Require Import CheckLib Bincode Wal.
Import ListNotations.
Open Scope N_scope.

Arguments N.add : simpl never.
Arguments N.sub : simpl never.
Arguments N.mul : simpl never.
Arguments N.div : simpl never.
Arguments N.modulo : simpl never.
Arguments N.eqb : simpl never.
Arguments N.ltb : simpl never.
Arguments N.leb : simpl never.
Arguments N.pow : simpl never.
Arguments N.of_nat : simpl never.
Arguments N.to_nat : simpl never.
Arguments N.lxor : simpl never.
Arguments firstn : simpl nomatch.
Arguments skipn : simpl nomatch.

(* ------------------------------------------------------------------ *)
(** * Well-formed values (what a Rust value of the type can be) *)

Definition isbyte (b : N) : Prop := b < 256.
Definition wf_blob (b : bytes) : Prop := Forall isbyte b /\ nlen b < two64.
Definition wf_str (s : bytes) : Prop := utf8_valid s = true /\ wf_blob s.

Definition wf_entry (e : entry) : Prop :=
  match e with
  | CreateNode t id ls p => wf_str t /\ id < two64 /\ (Forall wf_str ls /\ nlen ls < two64) /\ wf_blob p
  | CreateEdge t id s d ty p =>
      wf_str t /\ id < two64 /\ s < two64 /\ d < two64 /\ wf_str ty /\ wf_blob p
  | DeleteNode t id => wf_str t /\ id < two64
  | DeleteEdge t id => wf_str t /\ id < two64
  | UpdateNodeProps t id p v => wf_str t /\ id < two64 /\ wf_blob p /\ v < two64
  | UpdateEdgeProps t id p v => wf_str t /\ id < two64 /\ wf_blob p /\ v < two64
  | CheckpointE s ts => s < two64 /\ (- two63z <= ts < two63z)%Z
  end.

(* a record as Wal::append builds it, small enough for the u32 length prefix *)
Definition valid_rec (r : record) : Prop :=
  wf_entry (ent r) /\ seq r < two64 /\ cksum r = xor_bytes (encode_entry (ent r))
  /\ nlen (encode_record r) < two32.

(* ------------------------------------------------------------------ *)
(** * Little-endian integers *)

Lemma le_length : forall n x, length (le n x) = n.
Proof. induction n as [|n IH]; intros x; cbn; [reflexivity | now rewrite IH]. Qed.

Lemma le_bytes : forall n x, Forall isbyte (le n x).
Proof.
  induction n as [|n IH]; intros x; cbn; constructor; [|apply IH].
  unfold isbyte. apply N.mod_lt. lia.
Qed.

Lemma unle_le : forall n x, unle (le n x) = x mod 256 ^ N.of_nat n.
Proof.
  induction n as [|n IH]; intros x; cbn [le unle].
  - change (256 ^ N.of_nat 0) with 1. now rewrite N.mod_1_r.
  - rewrite IH. replace (N.of_nat (S n)) with (N.succ (N.of_nat n)) by lia.
    rewrite N.pow_succ_r'. rewrite N.mod_mul_r; [reflexivity | lia |].
    apply N.pow_nonzero. lia.
Qed.

Lemma unle_u32 : forall x, x < two32 -> unle (u32 x) = x.
Proof. intros x H. unfold u32. rewrite unle_le. apply N.mod_small. exact H. Qed.

Lemma unle_u64 : forall x, x < two64 -> unle (u64 x) = x.
Proof. intros x H. unfold u64. rewrite unle_le. apply N.mod_small. exact H. Qed.

(* on byte lists [le] inverts [unle] *)
Lemma le_unle : forall l, Forall isbyte l -> le (length l) (unle l) = l.
Proof.
  induction l as [|b l IH]; intros H; [reflexivity|].
  inversion H as [|? ? Hb Hl]; subst. unfold isbyte in Hb. cbn [length le unle].
  replace ((b + 256 * unle l) mod 256) with b.
  2:{ rewrite (N.mul_comm 256), N.mod_add by lia. symmetry. now apply N.mod_small. }
  replace ((b + 256 * unle l) / 256) with (unle l).
  2:{ rewrite (N.mul_comm 256), N.div_add by lia. rewrite (N.div_small b) by exact Hb. lia. }
  now rewrite IH.
Qed.

Lemma unle_bound : forall l, Forall isbyte l -> unle l < 256 ^ N.of_nat (length l).
Proof.
  induction l as [|b l IH]; intros H; cbn [length unle].
  - cbn. lia.
  - inversion H as [|? ? Hb Hl]; subst. unfold isbyte in Hb. specialize (IH Hl).
    replace (N.of_nat (S (length l))) with (N.succ (N.of_nat (length l))) by lia.
    rewrite N.pow_succ_r'. lia.
Qed.

(* ------------------------------------------------------------------ *)
(** * Parsers: round trip with an unread rest *)

Lemma take_app : forall (a r : bytes), take (length a) (a ++ r) = Some (a, r).
Proof.
  intros a r. unfold take. rewrite app_length.
  replace (Nat.leb (length a) (length a + length r)) with true by (symmetry; apply Nat.leb_le; lia).
  rewrite firstn_app, Nat.sub_diag, firstn_all, firstn_O, app_nil_r.
  rewrite skipn_app, Nat.sub_diag, skipn_all. reflexivity.
Qed.

Lemma d_u32_app : forall x r, x < two32 -> d_u32 (u32 x ++ r) = Some (x, r).
Proof.
  intros x r H. unfold d_u32. replace 4%nat with (length (u32 x)) by apply le_length.
  rewrite take_app, unle_u32 by exact H. reflexivity.
Qed.

Lemma d_u64_app : forall x r, x < two64 -> d_u64 (u64 x ++ r) = Some (x, r).
Proof.
  intros x r H. unfold d_u64. replace 8%nat with (length (u64 x)) by apply le_length.
  rewrite take_app, unle_u64 by exact H. reflexivity.
Qed.

Lemma d_i64_app : forall z r, (- two63z <= z < two63z)%Z -> d_i64 (i64 z ++ r) = Some (z, r).
Proof.
  intros z r H. unfold d_i64, i64. change (le 8) with u64.
  assert (Hm : (0 <= z mod two64z < two64z)%Z) by (apply Z.mod_pos_bound; reflexivity).
  rewrite d_u64_app by (unfold two64, two64z in *; lia).
  f_equal. f_equal. unfold z_of_u64, two63z, two64z in *.
  destruct (Z_lt_le_dec z 0) as [Hn|Hp].
  - assert (E : (z mod 18446744073709551616 = z + 18446744073709551616)%Z).
    { symmetry. apply Z.mod_unique with (q := (-1)%Z); lia. }
    rewrite E. destruct (N.ltb_spec (Z.to_N (z + 18446744073709551616)) 9223372036854775808); lia.
  - rewrite Z.mod_small by lia.
    destruct (N.ltb_spec (Z.to_N z) 9223372036854775808); lia.
Qed.

Lemma d_bytes_app : forall b r, nlen b < two64 -> d_bytes (enc_bytes b ++ r) = Some (b, r).
Proof.
  intros b r H. unfold d_bytes, enc_bytes. rewrite <- app_assoc, d_u64_app by exact H.
  unfold nlen in *. rewrite app_length.
  replace (N.of_nat (length b) <=? N.of_nat (length b + length r)) with true by lia.
  rewrite Nnat.Nat2N.id. apply take_app.
Qed.

Lemma d_str_app : forall s r, wf_str s -> d_str (enc_bytes s ++ r) = Some (s, r).
Proof.
  intros s r [Hu [_ Hl]]. unfold d_str. rewrite d_bytes_app by exact Hl. now rewrite Hu.
Qed.

Lemma enc_bytes_length : forall b, length (enc_bytes b) = (8 + length b)%nat.
Proof. intros b. unfold enc_bytes, u64. now rewrite app_length, le_length. Qed.

Lemma d_strs_n_app : forall l fuel r,
  Forall wf_str l -> nlen l < two64 -> (length (flat_map enc_bytes l) <= fuel)%nat ->
  d_strs_n fuel (nlen l) (flat_map enc_bytes l ++ r) = Some (l, r).
Proof.
  induction l as [|s l IH]; intros fuel r Hw Hn Hf.
  - destruct fuel; reflexivity.
  - inversion Hw as [|? ? Hs Hl]; subst. cbn [flat_map] in *.
    rewrite app_length, enc_bytes_length in Hf.
    destruct fuel as [|fuel]; [lia|]. cbn [d_strs_n].
    replace (nlen (s :: l) =? 0) with false by (unfold nlen; cbn [length]; lia).
    rewrite <- app_assoc. rewrite d_str_app by exact Hs.
    replace (nlen (s :: l) - 1) with (nlen l) by (unfold nlen; cbn [length]; lia).
    rewrite IH; [reflexivity | exact Hl | unfold nlen in *; cbn [length] in Hn; lia | lia].
Qed.

Lemma d_strs_app : forall l r, Forall wf_str l -> nlen l < two64 ->
  d_strs (enc_strs l ++ r) = Some (l, r).
Proof.
  intros l r Hw Hn. unfold d_strs, enc_strs. rewrite <- app_assoc, d_u64_app by exact Hn.
  apply d_strs_n_app; [exact Hw | exact Hn | rewrite app_length; lia].
Qed.

Ltac parse_step :=
  repeat rewrite <- app_assoc;
  first [ rewrite d_str_app by assumption
        | rewrite d_u64_app by assumption
        | rewrite d_bytes_app by (match goal with H : wf_blob _ |- _ => apply H end)
        | rewrite d_strs_app by assumption
        | rewrite d_i64_app by assumption ].

Lemma d_entry_app : forall e r, wf_entry e -> d_entry (encode_entry e ++ r) = Some (e, r).
Proof.
  intros e r H. destruct e; cbn [wf_entry] in H; unfold d_entry, bind, ret; cbn [encode_entry];
    repeat rewrite <- app_assoc; rewrite d_u32_app by (unfold two32; lia);
    repeat (match goal with |- context [N.eqb ?a ?b] =>
              let v := eval vm_compute in (N.eqb a b) in change (N.eqb a b) with v end; cbv iota).
  - destruct H as (Ht & Hid & (Hls & Hn) & Hp).
    rewrite d_str_app by assumption. rewrite d_u64_app by assumption.
    rewrite d_strs_app by assumption. rewrite d_bytes_app by apply Hp. reflexivity.
  - destruct H as (Ht & Hid & Hs & Hd & Hty & Hp).
    rewrite d_str_app by assumption. rewrite d_u64_app by assumption.
    rewrite d_u64_app by assumption. rewrite d_u64_app by assumption.
    rewrite d_str_app by assumption. rewrite d_bytes_app by apply Hp. reflexivity.
  - destruct H as (Ht & Hid).
    rewrite d_str_app by assumption. rewrite d_u64_app by assumption. reflexivity.
  - destruct H as (Ht & Hid).
    rewrite d_str_app by assumption. rewrite d_u64_app by assumption. reflexivity.
  - destruct H as (Ht & Hid & Hp & Hv).
    rewrite d_str_app by assumption. rewrite d_u64_app by assumption.
    rewrite d_bytes_app by apply Hp. rewrite d_u64_app by assumption. reflexivity.
  - destruct H as (Ht & Hid & Hp & Hv).
    rewrite d_str_app by assumption. rewrite d_u64_app by assumption.
    rewrite d_bytes_app by apply Hp. rewrite d_u64_app by assumption. reflexivity.
  - destruct H as (Hs & Hts).
    rewrite d_u64_app by assumption. rewrite d_i64_app by assumption. reflexivity.
Qed.

(* ------------------------------------------------------------------ *)
(** * Records *)

Lemma bytes_eqb_refl : forall a, bytes_eqb a a = true.
Proof. induction a as [|x a IH]; cbn; [reflexivity|]. rewrite N.eqb_refl. exact IH. Qed.

Lemma bytes_eqb_eq : forall a b, bytes_eqb a b = true -> a = b.
Proof.
  induction a as [|x a IH]; intros [|y b] H; cbn in H; try discriminate; [reflexivity|].
  apply andb_true_iff in H. destruct H as [H1 H2]. apply N.eqb_eq in H1. subst. f_equal. now apply IH.
Qed.

Lemma lxor_byte : forall a b, isbyte a -> isbyte b -> isbyte (N.lxor a b).
Proof.
  unfold isbyte. intros a b Ha Hb.
  destruct (N.eq_dec (N.lxor a b) 0) as [E|E]; [rewrite E; lia|].
  change 256 with (2 ^ 8). apply N.log2_lt_pow2; [lia|].
  pose proof (N.log2_lxor a b) as Hx.
  assert (La : N.log2 a < 8).
  { destruct (N.eq_dec a 0) as [->|Na]; [cbn; lia|]. apply N.log2_lt_pow2; [lia|]. exact Ha. }
  assert (Lb : N.log2 b < 8).
  { destruct (N.eq_dec b 0) as [->|Nb]; [cbn; lia|]. apply N.log2_lt_pow2; [lia|]. exact Hb. }
  lia.
Qed.

Lemma fold_lxor_acc : forall l a, fold_left N.lxor l a = N.lxor a (fold_left N.lxor l 0).
Proof.
  induction l as [|x l IH]; intros a; cbn [fold_left].
  - now rewrite N.lxor_0_r.
  - rewrite IH, (IH (N.lxor 0 x)), N.lxor_0_l, N.lxor_assoc. reflexivity.
Qed.

Lemma xor_app : forall a b, xor_bytes (a ++ b) = N.lxor (xor_bytes a) (xor_bytes b).
Proof. intros a b. unfold xor_bytes. rewrite fold_left_app. apply fold_lxor_acc. Qed.

Lemma xor_cons : forall x l, xor_bytes (x :: l) = N.lxor x (xor_bytes l).
Proof. intros x l. change (x :: l) with ([x] ++ l). rewrite xor_app. unfold xor_bytes at 1. cbn [fold_left]. now rewrite N.lxor_0_l. Qed.

Lemma xor_bound : forall l, Forall isbyte l -> isbyte (xor_bytes l).
Proof.
  induction l as [|x l IH]; intros H.
  - unfold isbyte, xor_bytes. cbn. lia.
  - inversion H; subst. rewrite xor_cons. apply lxor_byte; auto.
Qed.

Lemma enc_bytes_isbyte : forall b, Forall isbyte b -> Forall isbyte (enc_bytes b).
Proof. intros b H. unfold enc_bytes. apply Forall_app. split; [apply le_bytes | exact H]. Qed.

Lemma flat_enc_isbyte : forall l, Forall wf_str l -> Forall isbyte (flat_map enc_bytes l).
Proof.
  intros l H. induction H as [|s l Hs Hl IH]; cbn [flat_map]; [constructor|].
  apply Forall_app. split; [apply enc_bytes_isbyte, Hs | exact IH].
Qed.

Lemma encode_entry_isbyte : forall e, wf_entry e -> Forall isbyte (encode_entry e).
Proof.
  intros e H. destruct e; cbn [wf_entry encode_entry] in *; unfold wf_str, wf_blob, i64, u32, u64 in *;
  repeat match goal with H : _ /\ _ |- _ => destruct H end;
  repeat (apply Forall_app; split);
  first [ assumption
        | apply le_bytes
        | apply flat_enc_isbyte; assumption ].
Qed.

Lemma d_record_app : forall r rest, valid_rec r ->
  d_record (encode_record r ++ rest) = Some (r, rest).
Proof.
  intros [s e c] rest (He & Hs & Hc & _). cbn [seq ent cksum] in *.
  unfold d_record, encode_record, bind, ret. cbn [seq ent cksum].
  repeat rewrite <- app_assoc. rewrite d_u64_app by exact Hs. rewrite d_entry_app by exact He.
  rewrite d_u32_app; [reflexivity|].
  subst c. pose proof (xor_bound _ (encode_entry_isbyte e He)) as Hb. unfold isbyte, two32 in *. lia.
Qed.

(* codec round trip *)
Lemma decode_encode : forall r, valid_rec r -> decode_record (encode_record r) = Some r.
Proof.
  intros r H. unfold decode_record. rewrite <- (app_nil_r (encode_record r)) at 1.
  rewrite d_record_app by exact H. rewrite bytes_eqb_refl.
  destruct H as (_ & _ & Hc & _). rewrite Hc, N.eqb_refl. reflexivity.
Qed.

Lemma decode_inv : forall body r, decode_record body = Some r ->
  body = encode_record r /\ cksum r = xor_bytes (encode_entry (ent r)).
Proof.
  intros body r H. unfold decode_record in H.
  destruct (d_record body) as [[r' rest]|]; [|discriminate].
  destruct (bytes_eqb (encode_record r') body) eqn:E1; [|discriminate].
  destruct (cksum r' =? xor_bytes (encode_entry (ent r'))) eqn:E2; [|discriminate].
  cbn in H. inversion H; subst. split; [symmetry; now apply bytes_eqb_eq | now apply N.eqb_eq].
Qed.

Lemma decode_is_d_record : forall body r, decode_record body = Some r ->
  exists rest, d_record body = Some (r, rest).
Proof.
  intros body r H. unfold decode_record in H.
  destruct (d_record body) as [[r' rest]|]; [|discriminate].
  destruct (_ && _); [|discriminate]. inversion H; subst. now exists rest.
Qed.

Lemma mk_record_valid : forall s e, wf_entry e -> s < two64 ->
  nlen (encode_entry e) + 12 < two32 -> valid_rec (mk_record s e).
Proof.
  intros s e He Hs Hl. unfold valid_rec, mk_record. cbn [seq ent cksum].
  repeat split; try assumption. unfold encode_record. cbn [seq ent cksum].
  unfold nlen in *. rewrite !app_length. unfold u64, u32. rewrite !le_length. lia.
Qed.

(* ------------------------------------------------------------------ *)
(** * Reading a file *)

Definition frames (R : list record) : bytes := flat_map frame R.

Lemma frames_app : forall A B, frames (A ++ B) = frames A ++ frames B.
Proof. intros A B. unfold frames. apply flat_map_app. Qed.

Lemma frame_length : forall r, length (frame r) = (4 + length (encode_record r))%nat.
Proof. intros r. unfold frame. cbv zeta. unfold u32. now rewrite app_length, le_length. Qed.

Lemma firstn_app_exact : forall (a b : bytes), firstn (length a) (a ++ b) = a.
Proof. intros a b. rewrite firstn_app, Nat.sub_diag, firstn_all, firstn_O, app_nil_r. reflexivity. Qed.
Lemma skipn_app_exact : forall (a b : bytes), skipn (length a) (a ++ b) = b.
Proof. intros a b. rewrite skipn_app, Nat.sub_diag, skipn_all. reflexivity. Qed.

Lemma scan_S : forall f bs, bs <> [] ->
  scan (S f) bs =
  if nlen bs <? 4 then ([], Torn, 0)
  else let len := unle (firstn 4 bs) in
       let rest := skipn 4 bs in
       if nlen rest <? len then ([], Torn, 0)
       else match decode_record (firstn (N.to_nat len) rest) with
            | Some r => let '(rs, t, g) := scan f (skipn (N.to_nat len) rest) in (r :: rs, t, 4 + len + g)
            | None => ([], Bad, 0)
            end.
Proof. intros f [|b bs] H; [congruence | reflexivity]. Qed.

Lemma scan_step : forall r f rest, valid_rec r ->
  scan (S f) (frame r ++ rest) =
  let '(rs, t, g) := scan f rest in (r :: rs, t, 4 + nlen (encode_record r) + g).
Proof.
  intros r f rest Hv. pose proof Hv as (_ & _ & _ & Hl).
  rewrite scan_S.
  2:{ intros E. apply (f_equal (@length N)) in E. rewrite app_length, frame_length in E. cbn in E. lia. }
  unfold frame. cbv zeta. rewrite <- app_assoc.
  replace (nlen (u32 (nlen (encode_record r)) ++ encode_record r ++ rest) <? 4) with false.
  2:{ unfold nlen, u32. rewrite app_length, le_length. lia. }
  replace 4%nat with (length (u32 (nlen (encode_record r)))) by apply le_length.
  rewrite firstn_app_exact, skipn_app_exact, unle_u32 by exact Hl.
  replace (nlen (encode_record r ++ rest) <? nlen (encode_record r)) with false.
  2:{ unfold nlen. rewrite app_length. lia. }
  unfold nlen at 1 2. rewrite Nnat.Nat2N.id, firstn_app_exact, skipn_app_exact.
  rewrite decode_encode by exact Hv. reflexivity.
Qed.

Lemma scan_frames_app : forall R f X, Forall valid_rec R ->
  scan (length R + f) (frames R ++ X) =
  let '(rs, t, g) := scan f X in (R ++ rs, t, nlen (frames R) + g).
Proof.
  induction R as [|r R IH]; intros f X H.
  - cbn [length frames flat_map app Nat.add]. destruct (scan f X) as [[rs t] g].
    f_equal; try (unfold nlen; cbn; lia).
  - inversion H as [|? ? Hr HR]; subst. cbn [length Nat.add]. unfold frames. cbn [flat_map].
    fold (frames R). rewrite <- app_assoc, scan_step by exact Hr. rewrite IH by exact HR.
    destruct (scan f X) as [[rs t] g]. cbn [app]. f_equal.
    unfold nlen. rewrite app_length, frame_length. lia.
Qed.

Lemma frames_length_ge : forall R, (length R <= length (frames R))%nat.
Proof.
  induction R as [|r R IH]; [cbn; lia|]. unfold frames in *. cbn [flat_map length].
  rewrite app_length, frame_length. lia.
Qed.

Lemma scan_file_frames_app : forall R X, Forall valid_rec R ->
  scan_file (frames R ++ X) =
  let '(rs, t, g) := scan (S (length (frames R ++ X)) - length R) X in
  (R ++ rs, t, nlen (frames R) + g).
Proof.
  intros R X H. unfold scan_file. pose proof (frames_length_ge R) as HL.
  replace (S (length (frames R ++ X))) with (length R + (S (length (frames R ++ X)) - length R))%nat at 1
    by (rewrite app_length; lia).
  now apply scan_frames_app.
Qed.

Lemma scan_file_frames : forall R, Forall valid_rec R ->
  scan_file (frames R) = (R, Clean, nlen (frames R)).
Proof.
  intros R H. rewrite <- (app_nil_r (frames R)) at 1. rewrite scan_file_frames_app by exact H.
  pose proof (frames_length_ge R). rewrite app_nil_r.
  destruct (S (length (frames R)) - length R)%nat eqn:E; [lia|]. cbn [scan].
  rewrite app_nil_r. f_equal. lia.
Qed.

(* ------------------------------------------------------------------ *)
(** * Replay of a directory whose files are whole records *)

Definition afile := (N * list record)%type.
Definition enc (afs : list afile) : dir := map (fun a => (fst a, frames (snd a))) afs.
Definition recs (afs : list afile) : list record := concat (map snd afs).
Definition keep (from : N) (L : list record) : list record := filter (fun r => from <=? seq r) L.

Lemma last_seq_app : forall A B d, last_seq (A ++ B) d = last_seq B (last_seq A d).
Proof. induction A as [|a A IH]; intros B d; cbn [app last_seq]; [reflexivity | apply IH]. Qed.

Lemma keep_app : forall from A B, keep from (A ++ B) = keep from A ++ keep from B.
Proof. intros. apply filter_app. Qed.

Lemma recs_cons : forall a afs, recs (a :: afs) = snd a ++ recs afs.
Proof. reflexivity. Qed.

Lemma recs_app : forall A B, recs (A ++ B) = recs A ++ recs B.
Proof. intros A B. unfold recs. now rewrite map_app, concat_app. Qed.

Lemma replay_files_clean : forall afs from last, Forall valid_rec (recs afs) ->
  replay_files (enc afs) from last =
  (keep from (recs afs), Done (last_seq (keep from (recs afs)) last)).
Proof.
  induction afs as [|[n R] afs IH]; intros from last H; [reflexivity|].
  rewrite recs_cons in H. cbn [snd] in H. apply Forall_app in H. destruct H as [HR HA].
  cbn [enc map replay_files fst snd]. rewrite scan_file_frames by exact HR.
  fold (enc afs). rewrite IH by exact HA. rewrite recs_cons. cbn [snd].
  fold (keep from R). rewrite keep_app, last_seq_app. reflexivity.
Qed.

Lemma sort_sorted : forall d : dir, StronglySorted N.lt (map fst d) -> sort_dir d = d.
Proof.
  induction d as [|f d IH]; intros H; [reflexivity|].
  cbn [map] in H. inversion H as [|? ? Hs Hf]; subst.
  unfold sort_dir in *. cbn [fold_right]. rewrite IH by exact Hs.
  destruct d as [|g d]; [reflexivity|]. cbn [insert].
  cbn [map] in Hf. inversion Hf as [|? ? Hlt _]; subst.
  replace (fst f <=? fst g) with true by lia. reflexivity.
Qed.

Lemma enc_names : forall afs, map fst (enc afs) = map fst afs.
Proof. intros afs. unfold enc. rewrite map_map. reflexivity. Qed.

Lemma enc_app : forall A B, enc (A ++ B) = enc A ++ enc B.
Proof. intros. unfold enc. apply map_app. Qed.

(* ------------------------------------------------------------------ *)
(** * Specification of a history without crashes *)

Fixpoint number (k : N) (l : list entry) : list record :=
  match l with
  | [] => []
  | e :: r => mk_record k e :: number (k + 1) r
  end.

Definition op_entries (o : op) : list entry :=
  match o with
  | Append e => [e]
  | Checkpoint a ts => [CheckpointE a ts]
  | Reopen | Crash _ => []
  end.

Definition entries_of (ops : list op) : list entry := flat_map op_entries ops.
(* what the log must contain: the appended entries in order, numbered 1, 2, 3, ... *)
Definition appended (ops : list op) : list record := number 1 (entries_of ops).

Definition no_crash (ops : list op) : bool :=
  forallb (fun o => match o with Crash _ => false | _ => true end) ops.

(* an entry that is a Rust value and whose record fits the u32 length prefix *)
Definition ok_entry (e : entry) : Prop := wf_entry e /\ nlen (encode_entry e) + 12 < two32.

Lemma number_app : forall a b k, number k (a ++ b) = number k a ++ number (k + nlen a) b.
Proof.
  induction a as [|e a IH]; intros b k; cbn [app number].
  - f_equal. unfold nlen. cbn. lia.
  - rewrite IH. do 3 f_equal. unfold nlen. cbn [length]. lia.
Qed.

Lemma number_valid : forall l k, Forall ok_entry l -> k + nlen l <= two64 ->
  Forall valid_rec (number k l).
Proof.
  induction l as [|e l IH]; intros k H Hk; [constructor|].
  inversion H as [|? ? [He Hl] Hr]; subst. unfold nlen in Hk. cbn [length] in Hk. cbn [number]. constructor.
  - apply mk_record_valid; [exact He | lia | exact Hl].
  - apply IH; [exact Hr | unfold nlen; lia].
Qed.

Lemma number_seq_sorted : forall l k, StronglySorted N.lt (map seq (number k l)).
Proof.
  assert (G : forall l k j, j < k -> Forall (N.lt j) (map seq (number k l))).
  { induction l as [|e l IH]; intros k j H; cbn [number map]; constructor; [exact H|].
    apply IH. lia. }
  induction l as [|e l IH]; intros k; cbn [number map]; constructor; [apply IH|].
  apply G. cbn. lia.
Qed.

Lemma last_seq_number : forall l k d, l <> [] -> last_seq (number k l) d = k + nlen l - 1.
Proof.
  induction l as [|e l IH]; intros k d H; [congruence|]. cbn [number last_seq].
  destruct l as [|e' l].
  - cbn. unfold nlen. cbn. lia.
  - rewrite IH by discriminate. unfold nlen. cbn [length]. lia.
Qed.

Lemma last_seq_nonempty : forall R d d', R <> [] -> last_seq R d = last_seq R d'.
Proof. intros [|r R] d d' H; [congruence | reflexivity]. Qed.

(* ------------------------------------------------------------------ *)
(** * Directory operations on a sorted directory *)

Lemma dir_append_fresh : forall name bs (d : dir),
  Forall (fun f => fst f <> name) d -> dir_append name bs d = d ++ [(name, bs)].
Proof.
  induction d as [|[n c] d IH]; intros H; [reflexivity|].
  inversion H as [|? ? Hn Hd]; subst. cbn [fst] in Hn. cbn [dir_append].
  replace (n =? name) with false by lia. cbn [app]. now rewrite IH.
Qed.

Lemma dir_append_last : forall name bs c (d : dir),
  Forall (fun f => fst f <> name) d ->
  dir_append name bs (d ++ [(name, c)]) = d ++ [(name, c ++ bs)].
Proof.
  induction d as [|[n c'] d IH]; intros H.
  - cbn [app dir_append]. now rewrite N.eqb_refl.
  - inversion H as [|? ? Hn Hd]; subst. cbn [fst] in Hn. cbn [app dir_append].
    replace (n =? name) with false by lia. now rewrite IH.
Qed.

Lemma ss_app_last : forall l c, StronglySorted N.lt l -> Forall (fun x => x < c) l ->
  StronglySorted N.lt (l ++ [c]).
Proof.
  induction l as [|x l IH]; intros c Hs Hf; cbn [app].
  - constructor; constructor.
  - inversion Hs as [|? ? Hs' Hx]; subst. inversion Hf as [|? ? Hxc Hf']; subst.
    constructor; [now apply IH|]. apply Forall_app. split; [exact Hx | constructor; [exact Hxc | constructor]].
Qed.

Lemma ss_app_inv : forall l c, StronglySorted N.lt (l ++ [c]) ->
  StronglySorted N.lt l /\ Forall (fun x => x < c) l.
Proof.
  induction l as [|x l IH]; intros c H; cbn [app] in H.
  - split; constructor.
  - inversion H as [|? ? Hs Hx]; subst. apply IH in Hs. destruct Hs as [Hs Hf].
    apply Forall_app in Hx. destruct Hx as [Hx Hc]. inversion Hc; subst.
    split; constructor; assumption.
Qed.

Definition pick (acc : option file) (f : file) : option file :=
  match acc with None => Some f | Some g => if fst g <? fst f then Some f else acc end.

Lemma newest_fold : forall d acc,
  (acc = None /\ d = [] /\ fold_left pick d acc = None) \/
  (exists h, fold_left pick d acc = Some h /\ (In h d \/ acc = Some h)).
Proof.
  induction d as [|f d IH]; intros acc; cbn [fold_left].
  - destruct acc as [h|]; [right; exists h; auto | left; auto].
  - right. destruct (IH (pick acc f)) as [(E & _ & _)|(h & E & [Hi|Ha])].
    + destruct acc as [g|]; cbn in E; [destruct (fst g <? fst f)|]; discriminate.
    + exists h. split; [exact E | left; now right].
    + exists h. split; [exact E|]. destruct acc as [g|]; cbn in Ha.
      * destruct (fst g <? fst f); inversion Ha; subst; [left; now left | right; reflexivity].
      * inversion Ha; subst. left; now left.
Qed.

Lemma newest_eq : forall d, newest d = fold_left pick d None.
Proof. reflexivity. Qed.

Lemma newest_last : forall (d : dir) f, StronglySorted N.lt (map fst (d ++ [f])) ->
  newest (d ++ [f]) = Some f.
Proof.
  intros d f H. rewrite map_app in H. cbn [map] in H. apply ss_app_inv in H. destruct H as [_ Hf].
  rewrite newest_eq, fold_left_app. cbn [fold_left].
  destruct (newest_fold d None) as [(_ & _ & E)|(h & E & [Hi|Ha])]; [now rewrite E | | discriminate].
  rewrite E. cbn [pick]. rewrite Forall_forall in Hf. specialize (Hf (fst h) (in_map fst _ _ Hi)).
  replace (fst h <? fst f) with true by lia. reflexivity.
Qed.

(* ------------------------------------------------------------------ *)
(** * Invariant of crash-free histories *)

Definition Inv (s : state) (ents : list entry) : Prop :=
  exists afs : list afile,
    sdir s = enc afs /\ recs afs = number 1 ents /\ counter s = nlen ents /\
    StronglySorted N.lt (map fst afs) /\
    Forall (fun a : afile => snd a <> []) afs /\
    Forall (fun a : afile => fst a <= counter s) afs /\
    match cur s with None => True | Some n => exists afs' R, afs = afs' ++ [(n, R)] end.

Lemma Inv_init : Inv init [].
Proof.
  exists []. cbn. repeat split; try constructor.
Qed.

Lemma frames_single : forall r, frames [r] = frame r.
Proof. intros r. unfold frames. cbn [flat_map]. apply app_nil_r. Qed.

Lemma names_ne : forall (afs : list afile) c, Forall (fun a : afile => fst a < c) afs ->
  Forall (fun f : file => fst f <> c) (enc afs).
Proof.
  intros afs c H. unfold enc. rewrite Forall_map. eapply Forall_impl; [|exact H].
  intros a Ha. cbn [fst] in *. cbn beta in Ha. lia.
Qed.

Lemma append_inv : forall s ents e, Inv s ents -> nlen ents + 1 < two64 ->
  exists s', append s e = Some s' /\ Inv s' (ents ++ [e]) /\ counter s' = counter s + 1.
Proof.
  intros s ents e (afs & Hd & Hr & Hc & Hs & Hne & Hle & Hcur) Hb.
  unfold append. replace (two64 <=? counter s + 1) with false by (unfold two64 in *; lia).
  eexists. split; [reflexivity|]. split; [|reflexivity].
  set (c := counter s + 1). set (r := mk_record c e).
  assert (Hnum : number 1 (ents ++ [e]) = number 1 ents ++ [r]).
  { rewrite number_app. cbn [number]. subst r c. rewrite Hc. now rewrite (N.add_comm 1). }
  assert (Hlen : nlen (ents ++ [e]) = c).
  { subst c. unfold nlen in *. rewrite app_length. cbn [length]. lia. }
  destruct (cur s) as [n|] eqn:Ecur.
  - destruct Hcur as (afs' & R & ->).
    rewrite map_app in Hs. cbn [map fst] in Hs. pose proof (ss_app_inv _ _ Hs) as [_ Hlt].
    exists (afs' ++ [(n, R ++ [r])]). cbn [sdir counter cur].
    rewrite Hd, enc_app. cbn [enc map fst snd]. rewrite dir_append_last.
    2:{ apply names_ne. rewrite Forall_map in Hlt. exact Hlt. }
    repeat split.
    + rewrite enc_app. cbn [enc map fst snd]. now rewrite frames_app, frames_single.
    + rewrite recs_app in *. unfold recs in *. cbn [map concat snd] in *. rewrite !app_nil_r in *.
      rewrite Hnum, <- Hr. now rewrite app_assoc.
    + symmetry; exact Hlen.
    + rewrite map_app. exact Hs.
    + apply Forall_app in Hne. destruct Hne as [H1 _]. apply Forall_app. split; [exact H1|].
      constructor; [|constructor]. cbn [snd]. destruct R; discriminate.
    + apply Forall_app in Hle. destruct Hle as [H1 H2]. apply Forall_app. split.
      * eapply Forall_impl; [|exact H1]. intros a Ha. cbn beta in *. lia.
      * inversion H2; subst. constructor; [|constructor]. cbn [fst] in *. lia.
    + now exists afs', (R ++ [r]).
  - exists (afs ++ [(c, [r])]). cbn [sdir counter cur].
    rewrite Hd, dir_append_fresh.
    2:{ apply names_ne. eapply Forall_impl; [|exact Hle]. intros a Ha. cbn beta in *. lia. }
    repeat split.
    + rewrite enc_app. cbn [enc map fst snd]. now rewrite frames_single.
    + rewrite recs_app. unfold recs at 2. cbn [map concat snd]. rewrite app_nil_r. now rewrite Hnum, Hr.
    + symmetry; exact Hlen.
    + rewrite map_app. cbn [map fst]. apply ss_app_last; [exact Hs|].
      rewrite Forall_map. eapply Forall_impl; [|exact Hle]. intros a Ha. cbn beta in *. lia.
    + apply Forall_app. split; [exact Hne|]. constructor; [discriminate|constructor].
    + apply Forall_app. split.
      * eapply Forall_impl; [|exact Hle]. intros a Ha. cbn beta in *. lia.
      * constructor; [cbn [fst]; lia|constructor].
    + now exists afs, [r].
Qed.

Lemma exists_last_or_nil : forall (A : Type) (l : list A),
  l = [] \/ exists l' a, l = l' ++ [a].
Proof.
  intros A l. destruct l as [|x l]; [now left|]. right.
  destruct (@exists_last A (x :: l)) as (l' & a & E); [discriminate|]. now exists l', a.
Qed.

Lemma number_nil_inv : forall k l, number k l = [] -> l = [].
Proof. intros k [|e l] H; [reflexivity | discriminate]. Qed.

Lemma reopen_inv : forall s ents, Inv s ents -> Forall ok_entry ents -> nlen ents < two64 ->
  Inv (reopen s) ents /\ counter (reopen s) = counter s /\ sdir (reopen s) = sdir s.
Proof.
  intros s ents (afs & Hd & Hr & Hc & Hs & Hne & Hle & Hcur) Hok Hb.
  destruct (exists_last_or_nil _ afs) as [->|(afs' & [n R] & ->)].
  - cbn [recs map concat] in Hr. symmetry in Hr. apply number_nil_inv in Hr. subst ents.
    unfold reopen. rewrite Hd. cbn [enc map newest fold_left].
    split; [|split; [cbn [counter]; rewrite Hc; reflexivity | reflexivity]].
    exists []. cbn [sdir counter cur]. repeat split; constructor.
  - assert (HV : Forall valid_rec (number 1 ents)).
    { apply number_valid; [exact Hok | unfold two64 in *; lia]. }
    rewrite <- Hr in HV.
    assert (HR : Forall valid_rec R).
    { rewrite recs_app in HV. apply Forall_app in HV. destruct HV as [_ HV].
      unfold recs in HV. cbn [map concat snd] in HV. now rewrite app_nil_r in HV. }
    assert (RN : R <> []).
    { apply Forall_app in Hne. destruct Hne as [_ H2]. inversion H2; subst. assumption. }
    unfold reopen. rewrite Hd, enc_app. cbn [enc map fst snd].
    rewrite newest_last.
    2:{ change [(n, frames R)] with (enc [(n, R)]). fold (enc afs'). rewrite <- enc_app, enc_names. exact Hs. }
    rewrite scan_file_frames by exact HR. cbn [sdir counter cur].
    assert (Ecnt : last_seq R n = counter s).
    { rewrite (last_seq_nonempty R n (last_seq (recs afs') 0)) by exact RN.
      rewrite <- last_seq_app.
      assert (E : recs afs' ++ R = number 1 ents).
      { rewrite <- Hr, recs_app. unfold recs at 3. cbn [map concat snd]. now rewrite app_nil_r. }
      rewrite E. rewrite last_seq_number.
      - rewrite Hc. lia.
      - intros ->. cbn in E. destruct (recs afs'); destruct R; try discriminate; congruence. }
    split; [|split; [exact Ecnt | reflexivity]].
    exists (afs' ++ [(n, R)]). cbn [sdir counter cur]. rewrite Ecnt.
    repeat split; try assumption. now rewrite enc_app.
Qed.

Lemma step_inv : forall s ents o, Inv s ents ->
  (match o with Crash _ => False | _ => True end) ->
  Forall ok_entry ents -> nlen (ents ++ op_entries o) < two64 ->
  exists s', step s o = Some s' /\ Inv s' (ents ++ op_entries o).
Proof.
  intros s ents o HI Hnc Hok Hb. destruct o as [e| |a ts|k]; cbn [step op_entries] in *.
  - destruct (append_inv s ents e HI) as (s' & E & HI' & _).
    { unfold nlen in *. rewrite app_length in Hb. cbn [length] in Hb. lia. }
    exists s'. now split.
  - rewrite app_nil_r in *. eexists. split; [reflexivity|]. now apply reopen_inv.
  - destruct (append_inv s ents (CheckpointE a ts) HI) as (s' & E & HI' & _).
    { unfold nlen in *. rewrite app_length in Hb. cbn [length] in Hb. lia. }
    unfold checkpoint. rewrite E. eexists. split; [reflexivity|].
    destruct HI' as (afs & H1 & H2 & H3 & H4 & H5 & H6 & _).
    exists afs. cbn [sdir counter cur]. repeat split; assumption.
  - contradiction.
Qed.

Lemma run_inv : forall ops s ents, Inv s ents -> no_crash ops = true ->
  Forall ok_entry (ents ++ entries_of ops) -> nlen (ents ++ entries_of ops) < two64 ->
  exists s', run_from s ops = Some s' /\ Inv s' (ents ++ entries_of ops).
Proof.
  induction ops as [|o ops IH]; intros s ents HI Hnc Hok Hb.
  - cbn [entries_of flat_map run_from] in *. rewrite app_nil_r. now exists s.
  - cbn [no_crash forallb] in Hnc. apply andb_true_iff in Hnc. destruct Hnc as [Ho Hnc].
    unfold entries_of in *. cbn [flat_map] in *. rewrite app_assoc in Hok, Hb |- *.
    destruct (step_inv s ents o HI) as (s1 & E1 & HI1).
    + destruct o; try exact I. discriminate.
    + apply Forall_app in Hok. destruct Hok as [Hok _]. apply Forall_app in Hok. tauto.
    + unfold nlen in *. rewrite app_length in Hb. lia.
    + cbn [run_from]. rewrite E1. apply IH; assumption.
Qed.

Lemma Inv_replay : forall s ents from, Inv s ents -> Forall ok_entry ents -> nlen ents < two64 ->
  replay (sdir s) from =
  (keep from (number 1 ents), Done (last_seq (keep from (number 1 ents)) from)).
Proof.
  intros s ents from (afs & Hd & Hr & _ & Hs & _) Hok Hb.
  unfold replay. rewrite Hd, sort_sorted by (rewrite enc_names; exact Hs).
  rewrite replay_files_clean; rewrite Hr; [reflexivity|].
  apply number_valid; [exact Hok | unfold two64 in *; lia].
Qed.

(* the statement used for the property: all appended records, in order *)
Definition ops_ok (ops : list op) : Prop :=
  no_crash ops = true /\ Forall ok_entry (entries_of ops) /\ nlen (entries_of ops) < two64.

Lemma replay_all : forall ops, ops_ok ops ->
  exists s, run ops = Some s /\
    forall from, replay (sdir s) from =
      (keep from (appended ops), Done (last_seq (keep from (appended ops)) from)).
Proof.
  intros ops (Hnc & Hok & Hb). destruct (run_inv ops init [] Inv_init Hnc Hok Hb) as (s & E & HI).
  exists s. split; [exact E|]. intros from. cbn [app] in HI. now apply Inv_replay.
Qed.

Lemma keep_zero : forall L, keep 0 L = L.
Proof.
  induction L as [|r L IH]; [reflexivity|]. unfold keep in *. cbn [filter].
  replace (0 <=? seq r) with true by lia. now rewrite IH.
Qed.

Lemma replay_all_0 : forall ops, ops_ok ops ->
  exists s, run ops = Some s /\
    replay (sdir s) 0 = (appended ops, Done (last_seq (appended ops) 0)).
Proof.
  intros ops H. destruct (replay_all ops H) as (s & E & Hr). exists s. split; [exact E|].
  rewrite Hr, keep_zero. reflexivity.
Qed.

(* sequence numbers: the i-th appended record carries number i, whatever reopens and
   checkpoints happened in between; in particular they increase strictly *)
Lemma appended_seq_strict : forall ops, StronglySorted N.lt (map seq (appended ops)).
Proof. intros ops. apply number_seq_sorted. Qed.

Lemma appended_entries : forall ops, map ent (appended ops) = entries_of ops.
Proof.
  intros ops. unfold appended. generalize 1. induction (entries_of ops) as [|e l IH]; intros k; [reflexivity|].
  cbn [number map ent mk_record]. now rewrite IH.
Qed.

(* append's return value is the number of the record written *)
Lemma append_returns : forall s ents e, Inv s ents -> nlen ents + 1 < two64 ->
  exists s', append s e = Some s' /\ counter s' = nlen ents + 1.
Proof.
  intros s ents e HI Hb. pose proof HI as (afs & _ & _ & Hc & _).
  destruct (append_inv s ents e HI Hb) as (s' & E & _ & Hc'). exists s'. split; [exact E|]. lia.
Qed.

(* ------------------------------------------------------------------ *)
(** * Torn tail: the newest file cut at any byte *)

(* the records whose bytes lie entirely within the first [k] bytes *)
Fixpoint fit (k : N) (R : list record) : list record :=
  match R with
  | [] => []
  | r :: R' => let l := nlen (frame r) in if l <=? k then r :: fit (k - l) R' else []
  end.

Lemma fit_prefix : forall R k, exists T, R = fit k R ++ T.
Proof.
  induction R as [|r R IH]; intros k; cbn [fit]; [now exists []|]. cbv zeta.
  destruct (nlen (frame r) <=? k).
  - destruct (IH (k - nlen (frame r))) as [T E]. exists T. cbn [app]. now rewrite <- E.
  - now exists (r :: R).
Qed.

(* [fit] is the longest prefix of whole records within [k] bytes *)
Lemma fit_longest : forall R k,
  exists T, R = fit k R ++ T /\ nlen (frames (fit k R)) <= k /\
            match T with [] => True | r :: _ => k < nlen (frames (fit k R)) + nlen (frame r) end.
Proof.
  induction R as [|r R IH]; intros k; cbn [fit]. { exists []. cbn [fit app frames flat_map]. split; [reflexivity|]. split; [unfold nlen; cbn [length]; lia | exact I]. }
  cbv zeta. destruct (N.leb_spec (nlen (frame r)) k) as [Hle|Hgt].
  - destruct (IH (k - nlen (frame r))) as (T & E & H1 & H2). exists T. cbn [app]. rewrite <- E.
    split; [reflexivity|]. unfold frames in *. cbn [flat_map]. unfold nlen in *. rewrite app_length.
    split; [lia|]. destruct T; [exact I|]. lia.
  - exists (r :: R). cbn [app]. split; [reflexivity|]. cbn [frames flat_map]. unfold nlen in *. cbn [length]. split; lia.
Qed.

Lemma trunc_split : forall R k,
  exists X, firstn (N.to_nat k) (frames R) = frames (fit k R) ++ X /\
    (X = [] \/ exists r T, R = fit k R ++ r :: T /\ X = firstn (length X) (frame r)
                           /\ (0 < length X < length (frame r))%nat).
Proof.
  induction R as [|r R IH]; intros k.
  - exists []. cbn [frames flat_map fit]. rewrite firstn_nil. split; [reflexivity | now left].
  - unfold frames at 1. cbn [flat_map fit]. fold (frames R). cbv zeta. rewrite firstn_app.
    destruct (N.leb_spec (nlen (frame r)) k) as [Hle|Hgt].
    + destruct (IH (k - nlen (frame r))) as (X & E & HX).
      rewrite firstn_all2 by (unfold nlen in Hle; lia).
      replace (N.to_nat k - length (frame r))%nat with (N.to_nat (k - nlen (frame r))) by (unfold nlen; lia).
      rewrite E. exists X. split.
      * unfold frames at 2. cbn [flat_map]. fold (frames (fit (k - nlen (frame r)) R)). now rewrite app_assoc.
      * destruct HX as [->|(r' & T & E1 & E2 & E3)]; [now left|]. right. exists r', T.
        split; [|split; assumption]. cbn [app]. now rewrite <- E1.
    + replace (N.to_nat k - length (frame r))%nat with 0%nat by (unfold nlen in Hgt; lia).
      rewrite firstn_O, app_nil_r. exists (firstn (N.to_nat k) (frame r)). cbn [frames flat_map app].
      split; [reflexivity|].
      assert (HL : length (firstn (N.to_nat k) (frame r)) = N.to_nat k).
      { apply firstn_length_le. unfold nlen in Hgt. lia. }
      destruct (N.eq_dec k 0) as [->|Hk]; [left; reflexivity|]. right. exists r, R.
      split; [reflexivity|]. rewrite HL. split; [reflexivity|]. unfold nlen in Hgt. lia.
Qed.

Lemma firstn4_u32 : forall x b, firstn 4 (u32 x ++ b) = u32 x.
Proof. intros x b. replace 4%nat with (length (u32 x)) by apply le_length. apply firstn_app_exact. Qed.
Lemma skipn4_u32 : forall x b, skipn 4 (u32 x ++ b) = b.
Proof. intros x b. replace 4%nat with (length (u32 x)) by apply le_length. apply skipn_app_exact. Qed.

Lemma scan_torn_tail : forall r m f, valid_rec r -> (0 < m < length (frame r))%nat ->
  scan (S f) (firstn m (frame r)) = ([], Torn, 0).
Proof.
  intros r m f Hv Hm. pose proof Hv as (_ & _ & _ & Hl).
  assert (HL : length (firstn m (frame r)) = m) by (apply firstn_length_le; lia).
  rewrite scan_S by (intros E; rewrite E in HL; cbn in HL; lia).
  destruct (N.ltb_spec (nlen (firstn m (frame r))) 4) as [|H4]; [reflexivity|].
  unfold nlen in H4. rewrite HL in H4. cbv zeta.
  rewrite frame_length in Hm. unfold frame. cbv zeta.
  assert (E : firstn m (u32 (nlen (encode_record r)) ++ encode_record r)
              = u32 (nlen (encode_record r)) ++ firstn (m - 4) (encode_record r)).
  { assert (L4 : length (u32 (nlen (encode_record r))) = 4%nat) by apply le_length.
    rewrite firstn_app, L4. rewrite firstn_all2 by lia. reflexivity. }
  rewrite E. rewrite firstn4_u32, skipn4_u32, unle_u32 by exact Hl.
  replace (nlen (firstn (m - 4) (encode_record r)) <? nlen (encode_record r)) with true; [reflexivity|].
  unfold nlen. rewrite firstn_length_le by lia. lia.
Qed.

Lemma scan_file_trunc : forall R k, Forall valid_rec R ->
  exists t, scan_file (firstn (N.to_nat k) (frames R)) = (fit k R, t, nlen (frames (fit k R)))
            /\ (t = Clean \/ t = Torn).
Proof.
  intros R k HV. destruct (trunc_split R k) as (X & E & HX). rewrite E.
  assert (HF : Forall valid_rec (fit k R)).
  { destruct (fit_prefix R k) as [T ET]. rewrite ET in HV. apply Forall_app in HV. tauto. }
  rewrite scan_file_frames_app by exact HF.
  pose proof (frames_length_ge (fit k R)) as HG.
  destruct (S (length (frames (fit k R) ++ X)) - length (fit k R))%nat as [|f] eqn:Ef.
  { rewrite app_length in Ef. lia. }
  destruct HX as [->|(r & T & ER & EX & HL)].
  - cbn [scan]. exists Clean. rewrite app_nil_r. split; [f_equal; lia | now left].
  - rewrite EX, scan_torn_tail.
    + exists Torn. rewrite app_nil_r. split; [f_equal; lia | now right].
    + rewrite ER in HV. apply Forall_app in HV. destruct HV as [_ HV]. now inversion HV.
    + exact HL.
Qed.

Lemma replay_files_app_clean : forall A rest from last, Forall valid_rec (recs A) ->
  replay_files (enc A ++ rest) from last =
  let '(rs, o) := replay_files rest from (last_seq (keep from (recs A)) last) in
  (keep from (recs A) ++ rs, o).
Proof.
  induction A as [|[n R] A IH]; intros rest from last H.
  - cbn [enc map app recs concat keep filter last_seq]. now destruct (replay_files rest from last).
  - rewrite recs_cons in H. cbn [snd] in H. apply Forall_app in H. destruct H as [HR HA].
    cbn [enc map app replay_files fst snd]. rewrite scan_file_frames by exact HR.
    fold (enc A). rewrite IH by exact HA. rewrite recs_cons. cbn [snd].
    fold (keep from R). rewrite keep_app, last_seq_app.
    destruct (replay_files rest from _) as [rs o]. now rewrite app_assoc.
Qed.

Lemma set_file_last : forall name bs c (d : dir),
  Forall (fun f => fst f <> name) d ->
  set_file name bs (d ++ [(name, c)]) = d ++ [(name, bs)].
Proof.
  intros name bs c d H. unfold set_file. rewrite map_app. cbn [map fst]. rewrite N.eqb_refl. f_equal.
  induction H as [|f d Hf Hd IH]; [reflexivity|]. cbn [map]. rewrite IH.
  replace (fst f =? name) with false by lia. reflexivity.
Qed.

(* replay of a directory whose last file is cut at byte k *)
Lemma replay_trunc : forall afs' n R k from,
  StronglySorted N.lt (map fst (afs' ++ [(n, R)])) ->
  Forall valid_rec (recs (afs' ++ [(n, R)])) ->
  replay (truncate_newest k (enc (afs' ++ [(n, R)]))) from =
  (keep from (recs afs' ++ fit k R), Done (last_seq (keep from (recs afs' ++ fit k R)) from)).
Proof.
  intros afs' n R k from Hs HV.
  rewrite recs_app in HV. apply Forall_app in HV. destruct HV as [HA HR].
  unfold recs in HR at 1. cbn [map concat snd] in HR. rewrite app_nil_r in HR.
  pose proof Hs as Hs'. rewrite map_app in Hs'. cbn [map fst] in Hs'. apply ss_app_inv in Hs'. destruct Hs' as [_ Hlt].
  unfold truncate_newest. rewrite enc_app. cbn [enc map fst snd].
  rewrite newest_last.
  2:{ change [(n, frames R)] with (enc [(n, R)]). fold (enc afs'). rewrite <- enc_app, enc_names. exact Hs. }
  rewrite set_file_last by (apply names_ne; rewrite Forall_map in Hlt; exact Hlt).
  unfold replay. rewrite sort_sorted.
  2:{ rewrite map_app. fold (enc afs'). rewrite enc_names. cbn [map fst]. rewrite map_app in Hs. exact Hs. }
  fold (enc afs'). rewrite replay_files_app_clean by exact HA.
  cbn [replay_files]. destruct (scan_file_trunc R k HR) as (t & Et & Ht). rewrite Et.
  fold (keep from (fit k R)). rewrite keep_app, last_seq_app.
  destruct Ht as [->| ->]; cbn [replay_files]; rewrite ?app_nil_r; reflexivity.
Qed.

Lemma Inv_valid : forall s ents, Inv s ents -> Forall ok_entry ents -> nlen ents < two64 ->
  exists afs, sdir s = enc afs /\ recs afs = number 1 ents /\
              StronglySorted N.lt (map fst afs) /\ Forall valid_rec (recs afs).
Proof.
  intros s ents (afs & Hd & Hr & _ & Hs & _) Hok Hb. exists afs. repeat split; try assumption.
  rewrite Hr. apply number_valid; [exact Hok | unfold two64 in *; lia].
Qed.

Lemma torn_all : forall ops, ops_ok ops ->
  exists s before lastR,
    run ops = Some s /\ appended ops = before ++ lastR /\
    match newest (sdir s) with
    | None => before ++ lastR = []
    | Some (_, bs) => bs = frames lastR
    end /\
    forall k from,
      replay (truncate_newest k (sdir s)) from =
      (keep from (before ++ fit k lastR), Done (last_seq (keep from (before ++ fit k lastR)) from)).
Proof.
  intros ops (Hnc & Hok & Hb). destruct (run_inv ops init [] Inv_init Hnc Hok Hb) as (s & E & HI).
  cbn [app] in HI. destruct (Inv_valid s _ HI Hok Hb) as (afs & Hd & Hr & Hs & HV).
  exists s. destruct (exists_last_or_nil _ afs) as [->|(afs' & [n R] & ->)].
  - exists [], []. rewrite Hd. cbn [enc map newest fold_left app]. repeat split; try assumption.
    unfold appended. now rewrite <- Hr.
  - exists (recs afs'), R. split; [exact E|]. split.
    { unfold appended. rewrite <- Hr, recs_app. unfold recs at 2. cbn [map concat snd]. now rewrite app_nil_r. }
    rewrite Hd. split.
    + rewrite enc_app. cbn [enc map fst snd]. rewrite newest_last; [reflexivity|].
      change [(n, frames R)] with (enc [(n, R)]). fold (enc afs'). rewrite <- enc_app, enc_names. exact Hs.
    + intros k from. now apply replay_trunc.
Qed.

(* ------------------------------------------------------------------ *)
(** * One changed byte *)

Lemma set_nth_length : forall l p v, length (set_nth p v l) = length l.
Proof. induction l as [|x l IH]; intros [|p] v; cbn [set_nth length]; auto. Qed.

Lemma set_nth_app_l : forall a b p v, (p < length a)%nat ->
  set_nth p v (a ++ b) = set_nth p v a ++ b.
Proof.
  induction a as [|x a IH]; intros b p v H; cbn [length] in H; [lia|].
  destruct p as [|p]; cbn [app set_nth]; [reflexivity|]. rewrite IH by lia. reflexivity.
Qed.

Lemma set_nth_app_r : forall a b p v, (length a <= p)%nat ->
  set_nth p v (a ++ b) = a ++ set_nth (p - length a) v b.
Proof.
  induction a as [|x a IH]; intros b p v H; cbn [length app] in *.
  - now rewrite Nat.sub_0_r.
  - destruct p as [|p]; [lia|]. cbn [set_nth]. rewrite IH by lia. reflexivity.
Qed.

Lemma set_nth_neq : forall l p v, (p < length l)%nat -> v <> nth p l 0 -> set_nth p v l <> l.
Proof.
  induction l as [|x l IH]; intros p v H Hv; cbn [length] in H; [lia|].
  destruct p as [|p]; cbn [set_nth nth] in *.
  - intros E. inversion E. congruence.
  - intros E. inversion E as [E']. revert E'. apply IH; [lia | exact Hv].
Qed.

Lemma set_nth_isbyte : forall l p v, Forall isbyte l -> isbyte v -> Forall isbyte (set_nth p v l).
Proof.
  induction l as [|x l IH]; intros p v H Hv; [destruct p; constructor|]. inversion H; subst.
  destruct p; cbn [set_nth]; constructor; auto.
Qed.

Lemma nth_app_l : forall (a b : bytes) p, (p < length a)%nat -> nth p (a ++ b) 0 = nth p a 0.
Proof. intros. now apply app_nth1. Qed.
Lemma nth_app_r : forall (a b : bytes) p, (length a <= p)%nat -> nth p (a ++ b) 0 = nth (p - length a) b 0.
Proof. intros. now apply app_nth2. Qed.

Lemma lxor_cancel_l : forall a b c, N.lxor a b = N.lxor a c -> b = c.
Proof.
  intros a b c H. apply (f_equal (N.lxor a)) in H.
  rewrite <- !N.lxor_assoc, N.lxor_nilpotent, !N.lxor_0_l in H. exact H.
Qed.

Lemma xor_set_nth : forall l p v, (p < length l)%nat -> v <> nth p l 0 ->
  xor_bytes (set_nth p v l) <> xor_bytes l.
Proof.
  induction l as [|x l IH]; intros p v H Hv; cbn [length] in H; [lia|].
  destruct p as [|p]; cbn [set_nth nth] in *; rewrite !xor_cons; intros E.
  - rewrite (N.lxor_comm v), (N.lxor_comm x) in E. apply lxor_cancel_l in E. congruence.
  - apply lxor_cancel_l in E. revert E. apply IH; [lia | exact Hv].
Qed.

Lemma app_eq_len : forall (a a' b b' : bytes), length a = length a' -> a ++ b = a' ++ b' ->
  a = a' /\ b = b'.
Proof.
  induction a as [|x a IH]; intros [|y a'] b b' HL E; cbn [length] in HL; try lia.
  - now split.
  - cbn [app] in E. inversion E; subst. destruct (IH a' b b') as [-> ->]; [lia | assumption | now split].
Qed.

Lemma u32_inj_byte : forall x y, isbyte x -> isbyte y -> u32 x = u32 y -> x = y.
Proof.
  intros x y Hx Hy E. apply (f_equal unle) in E. unfold isbyte in *.
  rewrite !unle_u32 in E by (unfold two32; lia). exact E.
Qed.

(* a byte changed after the sequence field of a record body is always noticed *)
Lemma flip_body_detected : forall r q v, valid_rec r ->
  (8 <= q < length (encode_record r))%nat -> isbyte v -> v <> nth q (encode_record r) 0 ->
  decode_record (set_nth q v (encode_record r)) = None.
Proof.
  intros r q v (He & Hs & Hc & _) Hq Hv Hne.
  destruct (decode_record (set_nth q v (encode_record r))) as [r'|] eqn:D; [exfalso | reflexivity].
  apply decode_inv in D. destruct D as [Eb Ec].
  pose proof (f_equal (@length N) Eb) as HL. rewrite set_nth_length in HL.
  unfold encode_record in *. rewrite Hc in *. rewrite Ec in *.
  set (E := encode_entry (ent r)) in *. set (E' := encode_entry (ent r')) in *.
  assert (L8 : forall x, length (u64 x) = 8%nat) by (intros; apply le_length).
  assert (L4 : forall x, length (u32 x) = 4%nat) by (intros; apply le_length).
  rewrite !app_length, !L8, !L4 in HL. rewrite !app_length, L8, L4 in Hq.
  rewrite set_nth_app_r in Eb by (rewrite L8; lia). rewrite L8 in Eb.
  rewrite nth_app_r in Hne by (rewrite L8; lia). rewrite L8 in Hne.
  apply app_eq_len in Eb; [|now rewrite !L8]. destruct Eb as [_ Eb].
  assert (Eby : Forall isbyte E) by (apply encode_entry_isbyte; exact He).
  destruct (Nat.lt_ge_cases (q - 8) (length E)) as [Hin|Hout].
  - rewrite set_nth_app_l in Eb by exact Hin. rewrite nth_app_l in Hne by exact Hin.
    apply app_eq_len in Eb; [|rewrite set_nth_length; lia]. destruct Eb as [E1 E2].
    apply u32_inj_byte in E2.
    + rewrite <- E1 in E2. symmetry in E2. revert E2. apply xor_set_nth; assumption.
    + now apply xor_bound.
    + apply xor_bound. rewrite <- E1. now apply set_nth_isbyte.
  - rewrite set_nth_app_r in Eb by exact Hout. rewrite nth_app_r in Hne by exact Hout.
    apply app_eq_len in Eb; [|lia]. destruct Eb as [E1 E2]. rewrite <- E1 in E2.
    revert E2. apply set_nth_neq; [rewrite L4; lia | exact Hne].
Qed.

(* ------------------------------------------------------------------ *)
(** * Parsers do not look beyond what they consume *)

Definition ext {A} (p : parser A) : Prop :=
  forall b x r t, p b = Some (x, r) -> p (b ++ t) = Some (x, r ++ t).

Lemma take_ext : forall n, ext (take n).
Proof.
  intros n b x r t H. unfold take in *. destruct (Nat.leb_spec n (length b)) as [Hle|]; [|discriminate].
  inversion H; subst. rewrite app_length. replace (Nat.leb n (length b + length t)) with true
    by (symmetry; apply Nat.leb_le; lia).
  rewrite firstn_app, skipn_app. replace (n - length b)%nat with 0%nat by lia.
  rewrite firstn_O, skipn_O, app_nil_r. reflexivity.
Qed.

Lemma d_u32_ext : ext d_u32.
Proof.
  intros b x r t H. unfold d_u32 in *. destruct (take 4 b) as [[h r']|] eqn:E; [|discriminate].
  inversion H; subst. now rewrite (take_ext 4 _ _ _ t E).
Qed.
Lemma d_u64_ext : ext d_u64.
Proof.
  intros b x r t H. unfold d_u64 in *. destruct (take 8 b) as [[h r']|] eqn:E; [|discriminate].
  inversion H; subst. now rewrite (take_ext 8 _ _ _ t E).
Qed.
Lemma d_i64_ext : ext d_i64.
Proof.
  intros b x r t H. unfold d_i64 in *. destruct (d_u64 b) as [[h r']|] eqn:E; [|discriminate].
  inversion H; subst. now rewrite (d_u64_ext _ _ _ t E).
Qed.
Lemma d_bytes_ext : ext d_bytes.
Proof.
  intros b x r t H. unfold d_bytes in *. destruct (d_u64 b) as [[l r']|] eqn:E; [|discriminate].
  rewrite (d_u64_ext _ _ _ t E). destruct (N.leb_spec l (nlen r')) as [Hle|]; [|discriminate].
  replace (l <=? nlen (r' ++ t)) with true by (unfold nlen in *; rewrite app_length; lia).
  now apply take_ext.
Qed.
Lemma d_str_ext : ext d_str.
Proof.
  intros b x r t H. unfold d_str in *. destruct (d_bytes b) as [[s r']|] eqn:E; [|discriminate].
  rewrite (d_bytes_ext _ _ _ t E). destruct (utf8_valid s); [|discriminate]. now inversion H.
Qed.
Lemma d_strs_n_ext : forall f n b l r, d_strs_n f n b = Some (l, r) ->
  forall f' t, (f <= f')%nat -> d_strs_n f' n (b ++ t) = Some (l, r ++ t).
Proof.
  induction f as [|f IH]; intros n b l r H f' t Hf; cbn [d_strs_n] in H.
  - destruct (n =? 0) eqn:En; [|discriminate]. inversion H; subst.
    destruct f'; cbn [d_strs_n]; now rewrite En.
  - destruct f' as [|f']; [lia|]. cbn [d_strs_n]. destruct (n =? 0); [now inversion H|].
    destruct (d_str b) as [[s r1]|] eqn:E1; [|discriminate]. rewrite (d_str_ext _ _ _ t E1).
    destruct (d_strs_n f (n - 1) r1) as [[l' r2]|] eqn:E2; [|discriminate]. inversion H; subst.
    rewrite (IH _ _ _ _ E2 f' t) by lia. reflexivity.
Qed.
Lemma d_strs_ext : ext d_strs.
Proof.
  intros b x r t H. unfold d_strs in *. destruct (d_u64 b) as [[n r']|] eqn:E; [|discriminate].
  rewrite (d_u64_ext _ _ _ t E). apply d_strs_n_ext with (f := length r'); [exact H|].
  rewrite app_length. lia.
Qed.
Lemma bind_ext : forall A B (p : parser A) (f : A -> parser B),
  ext p -> (forall a, ext (f a)) -> ext (bind p f).
Proof.
  intros A B p f Hp Hf b x r t H. unfold bind in *. destruct (p b) as [[a r']|] eqn:E; [|discriminate].
  rewrite (Hp _ _ _ t E). now apply Hf.
Qed.
Lemma ret_ext : forall A (a : A), ext (ret a).
Proof. intros A a b x r t H. unfold ret in *. now inversion H. Qed.
Lemma none_ext : forall A, ext (fun _ : bytes => @None (A * bytes)).
Proof. intros A b x r t H. discriminate. Qed.

Ltac ext_tac :=
  repeat first [ apply ret_ext | apply none_ext | apply d_str_ext | apply d_u64_ext | apply d_u32_ext
               | apply d_bytes_ext | apply d_strs_ext | apply d_i64_ext
               | (apply bind_ext; [|intro]) ].

Lemma d_entry_ext : ext d_entry.
Proof.
  unfold d_entry. apply bind_ext; [apply d_u32_ext|]. intro tag.
  repeat match goal with |- ext (if ?c then _ else _) => destruct c end; ext_tac.
Qed.
Lemma d_record_ext : ext d_record.
Proof.
  unfold d_record. apply bind_ext; [apply d_u64_ext|]. intro s.
  apply bind_ext; [apply d_entry_ext|]. intro e. ext_tac.
Qed.

(* no proper prefix and no proper extension of a record body is accepted *)
Lemma body_prefix_rejected : forall r b1 t, valid_rec r -> encode_record r = b1 ++ t -> t <> [] ->
  decode_record b1 = None.
Proof.
  intros r b1 t Hv E Ht. destruct (decode_record b1) as [r'|] eqn:D; [exfalso | reflexivity].
  apply decode_is_d_record in D. destruct D as [rest0 D].
  pose proof (d_record_ext _ _ _ t D) as D'. rewrite <- E in D'.
  pose proof (d_record_app r [] Hv) as D0. rewrite app_nil_r in D0. rewrite D0 in D'.
  inversion D' as [[E1 E2]]. symmetry in E2. apply app_eq_nil in E2. tauto.
Qed.

Lemma body_extension_rejected : forall r t, valid_rec r -> t <> [] ->
  decode_record (encode_record r ++ t) = None.
Proof.
  intros r t Hv Ht. destruct (decode_record (encode_record r ++ t)) as [r'|] eqn:D; [exfalso | reflexivity].
  pose proof D as D1. apply decode_is_d_record in D1. destruct D1 as [rest0 D1].
  rewrite d_record_app in D1 by exact Hv. inversion D1 as [[E1 E2]]. rewrite <- E1 in D.
  apply decode_inv in D. destruct D as [D _]. apply (f_equal (@length N)) in D.
  rewrite app_length in D. destruct t; [congruence | cbn [length] in D; lia].
Qed.

Lemma firstn4_any : forall (U b : bytes), length U = 4%nat -> firstn 4 (U ++ b) = U /\ skipn 4 (U ++ b) = b.
Proof. intros U b H. rewrite <- H. split; [apply firstn_app_exact | apply skipn_app_exact]. Qed.

(* a frame with one changed byte outside its sequence field is never read as a record *)
Lemma scan_bad_frame : forall r q v f X, valid_rec r ->
  (q < length (frame r))%nat -> ~ (4 <= q < 12)%nat -> isbyte v -> v <> nth q (frame r) 0 ->
  exists t, scan (S f) (set_nth q v (frame r) ++ X) = ([], t, 0) /\ (t = Torn \/ t = Bad).
Proof.
  intros r q v f X Hv Hq Hns Hb Hne. pose proof Hv as (_ & _ & _ & Hl).
  rewrite frame_length in Hq. unfold frame in *. cbv zeta in *.
  set (body := encode_record r) in *. set (U := u32 (nlen body)) in *.
  assert (LU : length U = 4%nat) by apply le_length.
  rewrite scan_S.
  2:{ intros E. apply (f_equal (@length N)) in E. rewrite app_length, set_nth_length, app_length, LU in E.
      cbn in E. lia. }
  replace (nlen (set_nth q v (U ++ body) ++ X) <? 4) with false.
  2:{ unfold nlen. rewrite app_length, set_nth_length, app_length, LU. lia. }
  cbv zeta. destruct (Nat.lt_ge_cases q 4) as [Hlt|Hge].
  - rewrite set_nth_app_l by lia. rewrite nth_app_l in Hne by lia. rewrite <- app_assoc.
    set (U' := set_nth q v U) in *.
    assert (LU' : length U' = 4%nat) by (subst U'; now rewrite set_nth_length).
    destruct (firstn4_any U' (body ++ X) LU') as [-> ->].
    assert (BU' : Forall isbyte U') by (apply set_nth_isbyte; [apply le_bytes | exact Hb]).
    assert (Hlen : unle U' <> nlen body).
    { intros E. pose proof (le_unle U' BU') as E'. rewrite LU', E in E'.
      revert E'. fold (u32 (nlen body)). fold U. intros E'. symmetry in E'. revert E'.
      apply set_nth_neq; [lia | exact Hne]. }
    destruct (N.ltb_spec (nlen (body ++ X)) (unle U')) as [|Hfit]; [exists Torn; split; auto|].
    exists Bad. split; [|now right].
    unfold nlen in Hfit, Hlen. rewrite app_length in Hfit.
    destruct (N.lt_ge_cases (unle U') (N.of_nat (length body))) as [Hs|Hg].
    + rewrite firstn_app. replace (N.to_nat (unle U') - length body)%nat with 0%nat by lia.
      rewrite firstn_O, app_nil_r.
      rewrite (body_prefix_rejected r _ (skipn (N.to_nat (unle U')) body) Hv); [reflexivity | |].
      * fold body. now rewrite firstn_skipn.
      * intros E. apply (f_equal (@length N)) in E. rewrite skipn_length in E. cbn [length] in E. lia.
    + rewrite firstn_app, firstn_all2 by lia. unfold body at 1.
      rewrite body_extension_rejected; [reflexivity | exact Hv |].
      intros E. apply (f_equal (@length N)) in E. rewrite firstn_length_le in E by lia. cbn [length] in E. lia.
  - rewrite set_nth_app_r by lia. rewrite nth_app_r in Hne by lia. rewrite LU in *. rewrite <- app_assoc.
    subst U. rewrite firstn4_u32, skipn4_u32, unle_u32 by exact Hl.
    replace (nlen (set_nth (q - 4) v body ++ X) <? nlen body) with false.
    2:{ unfold nlen. rewrite app_length, set_nth_length. lia. }
    replace (N.to_nat (nlen body)) with (length (set_nth (q - 4) v body))
      by (rewrite set_nth_length; unfold nlen; lia).
    rewrite firstn_app_exact. subst body.
    rewrite flip_body_detected; [exists Bad; split; auto | exact Hv | lia | exact Hb | exact Hne].
Qed.

Lemma locate : forall R p, (p < length (frames R))%nat ->
  exists R1 r R2 q, R = R1 ++ r :: R2 /\ p = (length (frames R1) + q)%nat /\ (q < length (frame r))%nat.
Proof.
  induction R as [|r R IH]; intros p H; [cbn in H; lia|].
  unfold frames in H. cbn [flat_map] in H. fold (frames R) in H. rewrite app_length in H.
  destruct (Nat.lt_ge_cases p (length (frame r))) as [Hlt|Hge].
  - exists [], r, R, p. split; [reflexivity|]. split; [cbn [frames flat_map length]; lia | exact Hlt].
  - destruct (IH (p - length (frame r))%nat) as (R1 & r' & R2 & q & E1 & E2 & E3); [lia|].
    exists (r :: R1), r', R2, q. split; [cbn [app]; now rewrite E1|]. split; [|exact E3].
    unfold frames. cbn [flat_map]. fold (frames R1). rewrite app_length. lia.
Qed.

Lemma encode_record_len : forall r, (12 <= length (encode_record r))%nat.
Proof. intros r. unfold encode_record, u64, u32. rewrite !app_length, !le_length. lia. Qed.

Lemma unle_frame_head : forall a Y, valid_rec a ->
  unle (firstn 4 (frame a ++ Y)) = nlen (encode_record a).
Proof.
  intros a Y (_ & _ & _ & Hl). unfold frame. cbv zeta. rewrite <- app_assoc, firstn4_u32.
  now apply unle_u32.
Qed.
Lemma skipn_frame : forall a Y,
  skipn (N.to_nat (4 + nlen (encode_record a))) (frame a ++ Y) = Y.
Proof.
  intros a Y. replace (N.to_nat (4 + nlen (encode_record a))) with (length (frame a))
    by (rewrite frame_length; unfold nlen; lia).
  apply skipn_app_exact.
Qed.

Lemma in_seq_frames : forall R1 r X q fuel, Forall valid_rec R1 -> valid_rec r ->
  (q < length (frame r))%nat -> (length R1 < fuel)%nat ->
  in_seq_field fuel (frames R1 ++ frame r ++ X) (N.of_nat (length (frames R1) + q)) = false ->
  ~ (4 <= q < 12)%nat.
Proof.
  induction R1 as [|a R1 IH]; intros r X q fuel HR Hr Hq Hf H.
  - destruct fuel as [|fuel]; [lia|]. cbn [frames flat_map app length Nat.add] in H.
    pose proof Hr as (_ & _ & _ & Hl). cbn [in_seq_field] in H.
    rewrite frame_length in Hq. pose proof (encode_record_len r) as H12.
    replace (nlen (frame r ++ X) <? 4) with false in H
      by (unfold nlen; rewrite app_length, frame_length; lia).
    cbv zeta in H. destruct (N.ltb_spec (N.of_nat q) 4); [lia|].
    destruct (N.ltb_spec (N.of_nat q) 12); [discriminate | lia].
  - inversion HR as [|? ? Ha HR1]; subst. destruct fuel as [|fuel]; [cbn [length] in Hf; lia|].
    pose proof Ha as (_ & _ & _ & Hl). pose proof (encode_record_len a) as H12.
    unfold frames in H. cbn [flat_map] in H. fold (frames R1) in H. rewrite <- app_assoc in H.
    cbn [in_seq_field] in H.
    assert (LF : length (frame a) = (4 + length (encode_record a))%nat) by apply frame_length.
    replace (nlen (frame a ++ frames R1 ++ frame r ++ X) <? 4) with false in H
      by (unfold nlen; rewrite app_length, LF; lia).
    cbv zeta in H. rewrite unle_frame_head in H by exact Ha. rewrite skipn_frame in H.
    rewrite app_length, LF in H.
    destruct (N.ltb_spec (N.of_nat (4 + length (encode_record a) + length (frames R1) + q)) 4); [lia|].
    destruct (N.ltb_spec (N.of_nat (4 + length (encode_record a) + length (frames R1) + q)) 12); [lia|].
    destruct (N.ltb_spec (N.of_nat (4 + length (encode_record a) + length (frames R1) + q))
                (4 + nlen (encode_record a))); [unfold nlen in *; lia|].
    replace (N.of_nat (4 + length (encode_record a) + length (frames R1) + q) - (4 + nlen (encode_record a)))
      with (N.of_nat (length (frames R1) + q)) in H by (unfold nlen; lia).
    apply (IH r X q fuel); try assumption. cbn [length] in Hf. lia.
Qed.

Lemma ss_mid : forall l1 x l2, StronglySorted N.lt (l1 ++ x :: l2) ->
  Forall (fun y => y <> x) l1 /\ Forall (fun y => y <> x) l2.
Proof.
  induction l1 as [|a l1 IH]; intros x l2 H; cbn [app] in H.
  - inversion H as [|? ? _ Hf]; subst. split; [constructor|].
    eapply Forall_impl; [|exact Hf]. intros y Hy. cbn beta in Hy. lia.
  - inversion H as [|? ? Hs Hf]; subst. destruct (IH _ _ Hs) as [H1 H2]. split; [|exact H2].
    constructor; [|exact H1]. apply Forall_app in Hf. destruct Hf as [_ Hf]. inversion Hf; subst. lia.
Qed.

Lemma flip_dir_other : forall name pos v (d : dir), Forall (fun f => fst f <> name) d ->
  flip_dir name pos v d = d.
Proof.
  intros name pos v d H. unfold flip_dir. induction H as [|f d Hf Hd IH]; [reflexivity|].
  cbn [map]. rewrite IH. replace (fst f =? name) with false by lia. reflexivity.
Qed.

Lemma flip_dir_app : forall n p v d1 d2,
  flip_dir n p v (d1 ++ d2) = flip_dir n p v d1 ++ flip_dir n p v d2.
Proof. intros. unfold flip_dir. apply map_app. Qed.
Lemma flip_dir_hit : forall n p v bs d,
  flip_dir n p v ((n, bs) :: d) = (n, set_nth (N.to_nat p) v bs) :: flip_dir n p v d.
Proof. intros. unfold flip_dir. cbn [map fst snd]. now rewrite N.eqb_refl. Qed.

Lemma ne_names : forall (A : list afile) name, Forall (fun y => y <> name) (map fst A) ->
  Forall (fun f : file => fst f <> name) (enc A).
Proof.
  intros A name H. unfold enc. rewrite Forall_map. rewrite Forall_map in H.
  eapply Forall_impl; [|exact H]. intros a Ha. exact Ha.
Qed.

(* replay of a directory in which one byte of one file was changed *)
Lemma replay_flip : forall A name R B pos v from,
  StronglySorted N.lt (map fst (A ++ (name, R) :: B)) ->
  Forall valid_rec (recs (A ++ (name, R) :: B)) ->
  (pos < length (frames R))%nat -> isbyte v -> v <> nth pos (frames R) 0 ->
  in_seq_field (S (length (frames R))) (frames R) (N.of_nat pos) = false ->
  exists R1 r R2 o,
    R = R1 ++ r :: R2 /\
    replay (flip_dir name (N.of_nat pos) v (enc (A ++ (name, R) :: B))) from =
    (keep from (recs A ++ R1), o).
Proof.
  intros A name R B pos v from Hs HV Hpos Hb Hne Hk.
  rewrite recs_app, recs_cons in HV. cbn [snd] in HV.
  apply Forall_app in HV. destruct HV as [HA HV]. apply Forall_app in HV. destruct HV as [HR HB].
  destruct (locate R pos Hpos) as (R1 & r & R2 & q & ER & Ep & Hq).
  exists R1, r, R2. subst R. apply Forall_app in HR. destruct HR as [HR1 HR2].
  inversion HR2 as [|? ? Hr HR2']; subst.
  assert (Hfr : frames (R1 ++ r :: R2) = frames R1 ++ frame r ++ frames R2).
  { rewrite frames_app. unfold frames at 2. cbn [flat_map]. reflexivity. }
  rewrite Hfr in *.
  assert (Hnq : ~ (4 <= q < 12)%nat).
  { apply (in_seq_frames R1 r (frames R2) q (S (length (frames R1 ++ frame r ++ frames R2)))); try assumption.
    pose proof (frames_length_ge R1). rewrite app_length. lia. }
  rewrite nth_app_r in Hne by lia. replace (length (frames R1) + q - length (frames R1))%nat with q in Hne by lia.
  rewrite nth_app_l in Hne by exact Hq.
  pose proof Hs as Hs'. rewrite map_app in Hs'. cbn [map fst] in Hs'. apply ss_mid in Hs'. destruct Hs' as [N1 N2].
  rewrite enc_app. cbn [enc map fst snd]. fold (enc B).
  rewrite flip_dir_app, flip_dir_hit.
  rewrite !flip_dir_other by (apply ne_names; assumption).
  rewrite Nnat.Nat2N.id. rewrite Hfr.
  rewrite set_nth_app_r by lia. replace (length (frames R1) + q - length (frames R1))%nat with q by lia.
  rewrite set_nth_app_l by exact Hq.
  unfold replay. rewrite sort_sorted.
  2:{ rewrite map_app. cbn [map fst]. rewrite !enc_names. rewrite map_app in Hs. exact Hs. }
  rewrite replay_files_app_clean by exact HA. cbn [replay_files].
  rewrite scan_file_frames_app by exact HR1.
  pose proof (frames_length_ge R1) as HG.
  destruct (S (length (frames R1 ++ set_nth q v (frame r) ++ frames R2)) - length R1)%nat as [|f] eqn:Ef.
  { rewrite app_length in Ef. lia. }
  destruct (scan_bad_frame r q v f (frames R2) Hr Hq Hnq Hb Hne) as (t & Et & Ht). rewrite Et.
  rewrite app_nil_r. fold (keep from R1). rewrite keep_app.
  destruct Ht as [-> | ->].
  - destruct (enc B); eexists; split; reflexivity.
  - eexists; split; reflexivity.
Qed.

Lemma corrupt_all : forall ops, ops_ok ops ->
  exists s, run ops = Some s /\
    forall name bs pos v from,
      In (name, bs) (sdir s) -> pos < nlen bs -> v < 256 -> v <> nth (N.to_nat pos) bs 0 ->
      Known_C15 (sdir s) name pos = false ->
      exists L' T o,
        replay (flip_dir name pos v (sdir s)) from = (keep from L', o) /\
        appended ops = L' ++ T /\ T <> [].
Proof.
  intros ops (Hnc & Hok & Hb). destruct (run_inv ops init [] Inv_init Hnc Hok Hb) as (s & E & HI).
  cbn [app] in HI. destruct (Inv_valid s _ HI Hok Hb) as (afs & Hd & Hr & Hs & HV).
  exists s. split; [exact E|]. intros name bs pos v from Hin Hpos Hv Hne Hk.
  assert (Hseq : in_seq_field (S (length bs)) bs pos = false).
  { destruct (in_seq_field (S (length bs)) bs pos) eqn:Es; [|reflexivity].
    assert (X : Known_C15 (sdir s) name pos = true); [|congruence].
    unfold Known_C15. apply existsb_exists. exists (name, bs). split; [exact Hin|].
    cbn [fst snd]. now rewrite N.eqb_refl, Es. }
  rewrite Hd in Hin |- *. unfold enc in Hin. apply in_map_iff in Hin.
  destruct Hin as ([n R] & Ea & Hin). cbn [fst snd] in Ea. inversion Ea; subst n bs.
  apply in_split in Hin. destruct Hin as (A & B & ->).
  unfold nlen in Hpos.
  destruct (replay_flip A name R B (N.to_nat pos) v from Hs HV) as (R1 & r & R2 & o & ER & Erep);
    try assumption; [lia | now rewrite Nnat.N2Nat.id|].
  rewrite Nnat.N2Nat.id in Erep. fold (enc (A ++ (name, R) :: B)).
  exists (recs A ++ R1), (r :: R2 ++ recs B), o. split; [exact Erep|]. split; [|discriminate].
  unfold appended. rewrite <- Hr, recs_app, recs_cons. cbn [snd]. rewrite ER.
  now rewrite <- !app_assoc.
Qed.
