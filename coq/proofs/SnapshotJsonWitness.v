(* Witnesses of the recorded C12 classes and a non-trivial well-formed graph. *)
From Coq Require Import List NArith ZArith Bool Lia.
From Verif Require Import SnapshotJson.
From Verif Require Import SnapshotJsonProofs.
Import ListNotations.
Open Scope N_scope.
(* ---------- witnesses of the recorded classes; a non-trivial well-formed graph ---------- *)
Definition rt_holds (g : store) : Prop :=
  exists g' m c k,
    import no_narrow (fun s => s) (fun _ => []) empty_store (fst (export g)) (snd (export g)) []
      = Imported g' c k
    /\ iso m g g'.

Definition one_node (k : str) (v : pv) : store :=
  {| nodes := [{| n_id := 1; n_labels := [[65]]; n_row := [(k, v)]; n_col := [(k, v)] |}];
     edges := []; hier := []; free_n := []; next_n := 2 |}.

Ltac notin :=
  cbn; let H := fresh "H" in
  intros H; repeat (destruct H as [H|H]; [discriminate H|]); exact H.
Ltac wf_concrete :=
  unfold wf_store; repeat split;
  [ repeat (constructor; [notin|]); constructor
  | repeat constructor; notin
  | cbn; repeat constructor
  | repeat constructor; cbn; tauto
  | repeat constructor; cbn; tauto ].

Lemma one_node_refute : forall k v v',
  aget k (merged (hd {| n_id := 0; n_labels := []; n_row := []; n_col := [] |}
     (nodes (outcome_store (import no_narrow (fun s => s) (fun _ => []) empty_store
        (fst (export (one_node k v))) (snd (export (one_node k v))) []))))) = Some v' ->
  aget k (merged (hd {| n_id := 0; n_labels := []; n_row := []; n_col := [] |} (nodes (one_node k v)))) <> Some v' ->
  ~ rt_holds (one_node k v).
Proof.
  intros k v v' H1 H2 (g' & m & c & kk & Himp & Hiso).
  rewrite Himp in H1. cbn [outcome_store] in H1.
  destruct Hiso as [_ _ _ Hn _ _]. cbn [one_node nodes] in Hn.
  destruct (nodes g') as [|n' l'] eqn:En; [inversion Hn|].
  inversion Hn as [|? ? ? ? [_ Hp] _]; subst. cbn [hd] in H1.
  apply H2. cbn [one_node nodes hd]. rewrite <- H1. symmetry. apply Hp.
Qed.

Definition k_k : str := [107].
Definition inf_bits : N := 9218868437227405312.

Lemma refuted_nonfinite : exists g, Known_C12_nonfinite g = true /\ wf_store g /\ ~ rt_holds g.
Proof.
  exists (one_node k_k (PFloat inf_bits)). split; [vm_compute; reflexivity|]. split; [wf_concrete|].
  apply (one_node_refute k_k (PFloat inf_bits) PNull); vm_compute; [reflexivity | discriminate].
Qed.

Lemma refuted_type_tag : exists g, Known_C12_type_tag g = true /\ wf_store g /\ ~ rt_holds g.
Proof.
  exists (one_node k_k (PMap [(k_type, PStr t_duration)])). split; [vm_compute; reflexivity|].
  split; [wf_concrete|].
  apply (one_node_refute k_k _ (PDur 0 0 0 0)); vm_compute; [reflexivity | discriminate].
Qed.

Definition hier_witness : store :=
  {| nodes := []; edges := [];
     hier := [{| h_name := [104]; h_etypes := [[82]]; h_rev := false;
                 h_measure := Some (None, [117]); h_ops := [] |}];
     free_n := []; next_n := 1 |}.

Lemma refuted_hier_ops : exists g, Known_C12_hier_ops g = true /\ wf_store g /\ ~ rt_holds g.
Proof.
  exists hier_witness. split; [vm_compute; reflexivity|]. split.
  - wf_concrete.
  - intros (g' & m & c & kk & Himp & Hiso). vm_compute in Himp. inversion Himp; subst.
    destruct Hiso as [_ _ _ _ _ Hh]. cbn in Hh. discriminate.
Qed.

Definition nv_graph : store :=
  {| nodes := [ {| n_id := 3; n_labels := []; n_row := []; n_col := [] |};
                {| n_id := 7; n_labels := [[65]; [66]];
                   n_row := [([107], PStr [32;97;32]); ([110], PNull)];
                   n_col := [([107], PStr [32;97;32]);
                             ([109], PMap [([116], PStr [110]); (k_type, PStr [80])])] |} ];
     edges := [ {| e_src := 3; e_tgt := 7; e_ty := [82]; e_props := [] |};
                {| e_src := 3; e_tgt := 7; e_ty := [82]; e_props := [([119], PFloat 4607182418800017408)] |};
                {| e_src := 7; e_tgt := 7; e_ty := []; e_props := [] |} ];
     hier := [{| h_name := [104]; h_etypes := [[82]]; h_rev := true;
                 h_measure := Some (Some [65], [117]); h_ops := [RMin; RMax] |}];
     free_n := []; next_n := 8 |}.

Lemma nv_graph_ok : wf_store nv_graph /\ Known_C12 nv_graph = false.
Proof.
  split; [|vm_compute; reflexivity].
  wf_concrete.
Qed.
