(* Proofs about the snapshot persistence model (SnapshotFs.v). *)
From Coq Require Import List NArith Bool Arith Lia.
From Verif Require Import SnapshotFs.
Import ListNotations.

Section FsProofs.
Variable A : Type.
Notation fs := (fs A).
Notation run := (run A).
Notation persist := (persist A).
Notation restore := (restore A).
Notation crash_ops := (crash_ops A).

(* files live in the directory: without it there is no snapshot file and no marker *)
Definition Inv (s : fs) : Prop :=
  has_dir A s = false -> v_final A s = None /\ v_marker A s = None.

Lemma inv_fs0 : Inv fs0.
Proof. intros _. split; reflexivity. Qed.

Lemma persist_complete : forall s b,
  restore (run s (persist b)) = Some b /\ has_dir A (run s (persist b)) = true.
Proof.
  intros [d f t m pf pt pm] b. unfold run, persist. cbn.
  destruct f as [[c x]|]; destruct m as [[c' x']|]; cbn; split; reflexivity.
Qed.

Lemma inv_persist : forall s b, Inv (run s (persist b)).
Proof. intros s b H. destruct (persist_complete s b) as [_ E]. congruence. Qed.

(* every process-crash point of persist, including a partially written tmp file *)
Lemma crash_atomic_files : forall s b i k, Inv s ->
  (i < 5 -> restore (run s (crash_ops (persist b) i k)) = restore s)
  /\ (restore (run s (crash_ops (persist b) i k)) = restore s
      \/ restore (run s (crash_ops (persist b) i k)) = Some b)
  /\ Inv (run s (crash_ops (persist b) i k)).
Proof.
  intros [d f t m pf pt pm] b i k HI. unfold Inv in HI. cbn in HI.
  assert (Hd : d = false -> f = None /\ m = None) by exact HI.
  destruct i as [|[|[|[|[|[|[|i]]]]]]];
    unfold crash_ops, run, persist, Inv; cbn;
    try (destruct d; [|destruct (Hd eq_refl) as [-> ->]]);
    try (destruct f as [[c x]|]); try (destruct m as [[c' x']|]); cbn;
    repeat split; try (intros; lia); try (intros; discriminate); auto.
  all: rewrite ?firstn_nil; cbn; auto.
  all: destruct i; cbn; repeat split; try (intros; discriminate); auto.
Qed.

Definition last_of (l : list (list A)) : option (list A) :=
  match rev l with [] => None | b :: _ => Some b end.

Lemma fold_persist_inv : forall l s, Inv s -> Inv (fold_left (fun s b => run s (persist b)) l s).
Proof. induction l as [|b r IH]; intros s H; cbn; [exact H|]. apply IH. apply inv_persist. Qed.

Lemma fold_persist_restore : forall l s b,
  restore (fold_left (fun s b => run s (persist b)) (l ++ [b]) s) = Some b.
Proof.
  intros l s b. rewrite fold_left_app. cbn [fold_left]. apply persist_complete.
Qed.

Lemma after_acked_inv : forall l, Inv (after_acked A l).
Proof. intros l. apply fold_persist_inv. apply inv_fs0. Qed.

Lemma after_acked_restore : forall l, restore (after_acked A l) = last_of l.
Proof.
  intros l. unfold last_of. destruct l as [|b r] using rev_ind.
  - reflexivity.
  - rewrite rev_app_distr. cbn. apply fold_persist_restore.
Qed.

(* file level, every history of acknowledged persists, every crash point of the next one *)
Theorem files_crash_atomic : forall acked b i k,
  let s := run (after_acked A acked) (crash_ops (persist b) i k) in
  restore s = last_of acked \/ restore s = Some b.
Proof.
  intros acked b i k. cbn zeta.
  destruct (crash_atomic_files (after_acked A acked) b i k (after_acked_inv acked)) as (_ & H & _).
  rewrite after_acked_restore in H. exact H.
Qed.

Theorem files_clean_restart : forall acked, restore (after_acked A acked) = last_of acked.
Proof. exact after_acked_restore. Qed.

(* ---------- graph level ---------- *)
Section Graph.
Variable G : Type.
Variable g0 : G.                                  (* the empty graph of a fresh process *)
Variable imp : G -> list A -> list (list N) -> G. (* a successful import with dedup keys *)

Definition import_ev := (list A * list (list N))%type.

Definition restored (s : fs) : G :=
  match restore s with Some b => imp g0 b [] | None => g0 end.

Definition graph_after (l : list import_ev) : G :=
  fold_left (fun g e => imp g (fst e) (snd e)) l g0.

Definition has_keys (e : import_ev) : bool := match snd e with [] => false | _ => true end.

(* recorded: an import with dedup keys is replayed without them *)
Definition Known_C14_dedup (l : list import_ev) : bool := existsb has_keys l.
(* recorded: one file name, so a later snapshot replaces the earlier ones.  For a crash
   history this is: two or more acknowledged imports, or one acknowledged import and the
   interrupted persist had reached the rename (i >= 5) *)
Definition Known_C14_replaced (acked : list import_ev) (i : nat) : bool :=
  match acked with
  | [] => false
  | [_] => 5 <=? i
  | _ => true
  end.
Definition Known_C14 (acked : list import_ev) (new : import_ev) (i : nat) : bool :=
  Known_C14_dedup (acked ++ [new]) || Known_C14_replaced acked i.
Definition Known_C14_clean (acked : list import_ev) : bool :=
  Known_C14_dedup acked || (2 <=? length acked).

Lemma no_keys : forall e, has_keys e = false -> snd e = [].
Proof. intros [b [|k r]]; cbn; [reflexivity | discriminate]. Qed.

Theorem graph_crash_atomic : forall acked new i k,
  Known_C14 acked new i = false ->
  let s := run (after_acked A (map fst acked)) (crash_ops (persist (fst new)) i k) in
  restored s = graph_after acked \/ restored s = graph_after (acked ++ [new]).
Proof.
  intros acked new i k HK. cbn zeta. unfold Known_C14 in HK. apply orb_false_iff in HK.
  destruct HK as [Hd Hr]. unfold Known_C14_dedup in Hd. rewrite existsb_app in Hd.
  apply orb_false_iff in Hd. destruct Hd as [Hda Hdn]. cbn in Hdn. rewrite orb_false_r in Hdn.
  apply no_keys in Hdn.
  destruct (crash_atomic_files (after_acked A (map fst acked)) (fst new) i k (after_acked_inv _))
    as (Hlt & Hor & _).
  rewrite after_acked_restore in *.
  destruct acked as [|a [|a2 r]]; unfold Known_C14_replaced in Hr.
  - (* no earlier import *)
    unfold restored. destruct Hor as [E|E]; rewrite E; cbn.
    + left. reflexivity.
    + right. unfold graph_after. cbn. now rewrite Hdn.
  - (* one earlier import, the new file has not replaced it *)
    apply Nat.leb_gt in Hr. unfold restored. rewrite (Hlt Hr). cbn.
    cbn in Hda. rewrite orb_false_r in Hda. apply no_keys in Hda.
    left. unfold graph_after. cbn. now rewrite Hda.
  - discriminate.
Qed.

Theorem graph_clean_restart : forall acked,
  Known_C14_clean acked = false ->
  restored (after_acked A (map fst acked)) = graph_after acked.
Proof.
  intros acked HK. unfold Known_C14_clean in HK. apply orb_false_iff in HK. destruct HK as [Hd Hl].
  unfold restored. rewrite after_acked_restore.
  destruct acked as [|a [|a2 r]].
  - reflexivity.
  - cbn in Hd. rewrite orb_false_r in Hd. apply no_keys in Hd. cbn. unfold graph_after. cbn. now rewrite Hd.
  - cbn in Hl. discriminate.
Qed.
End Graph.
End FsProofs.
