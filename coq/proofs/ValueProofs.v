(* Proofs about coq/model/Value.v : the index order pv_cmp is a strict total order on
   property values of every depth, equality is "compares Eq" and coincides with identity
   of (well-formed) values, equal values feed the hasher identically, cy_order is a total
   preorder. *)
From Coq Require Import List NArith ZArith Bool Lia Permutation.
From Verif Require Import CheckLib Value Index.
Import ListNotations.
Open Scope Z_scope.

(* ------------------------------------------------------------------ *)
(* Laws of a comparison function, stated "at x" (x is the first argument) so that a
   nested induction on the first argument has exactly the hypotheses it needs. *)
Definition sym_at {A} (c : A -> A -> comparison) x := forall y, c x y = CompOpp (c y x).
Definition congl_at {A} (c : A -> A -> comparison) x := forall y z, c x y = Eq -> c x z = c y z.
Definition trans_at {A} (c : A -> A -> comparison) x :=
  forall y z, c x y = Lt -> c y z = Lt -> c x z = Lt.
Definition congr_at {A} (c : A -> A -> comparison) x := forall y z, c y z = Eq -> c x y = c x z.
Definition lawful_at {A} (c : A -> A -> comparison) x :=
  sym_at c x /\ congl_at c x /\ trans_at c x /\ congr_at c x.

Section Laws.
  Context {A : Type}.
  Implicit Type c : A -> A -> comparison.

  (* lexicographic lists *)
  Lemma lex_lawful c l : Forall (lawful_at c) l -> lawful_at (lex c) l.
  Proof.
    intros HF. repeat split.
    - (* sym *)
      induction HF as [|x l Hx _ IH]; intros [|y r]; cbn; auto.
      destruct Hx as (Hs & _). rewrite (Hs y).
      destruct (c y x); cbn; auto.
    - (* congl *)
      induction HF as [|x l Hx _ IH]; intros [|y r] [|z t]; cbn; try discriminate; auto.
      destruct Hx as (_ & Hc & _).
      destruct (c x y) eqn:E; try discriminate. intros Hr.
      rewrite (Hc y z E). destruct (c y z); auto.
    - (* trans *)
      induction HF as [|x l Hx _ IH]; intros [|y r] [|z t]; cbn; try discriminate; auto.
      destruct Hx as (_ & Hc & Ht & Hr).
      destruct (c x y) eqn:E; try discriminate.
      + intros H1. rewrite (Hc y z E). destruct (c y z); try discriminate; auto.
        intros H2. exact (IH r t H1 H2).
      + intros _. destruct (c y z) eqn:E2; try discriminate; intros H2.
        * rewrite <- (Hr y z E2), E. reflexivity.
        * rewrite (Ht y z E E2). reflexivity.
    - (* congr *)
      induction HF as [|x l Hx _ IH]; intros [|y r] [|z t]; cbn; try discriminate; auto.
      destruct Hx as (_ & _ & _ & Hr).
      destruct (c y z) eqn:E; try discriminate. intros H1.
      rewrite (Hr y z E). destruct (c x z); auto.
  Qed.

  (* first by c1, then (only among c1-equal elements) by c2 *)
  Lemma lex2_cond c1 c2 c x :
    (forall a b, c a b = match c1 a b with Eq => c2 a b | o => o end) ->
    lawful_at c1 x ->
    (forall y, c1 x y = Eq -> c2 x y = CompOpp (c2 y x)) ->
    (forall y z, c1 x y = Eq -> c1 y z = Eq -> c2 x y = Eq -> c2 x z = c2 y z) ->
    (forall y z, c1 x y = Eq -> c1 y z = Eq -> c2 x y = Lt -> c2 y z = Lt -> c2 x z = Lt) ->
    (forall y z, c1 x y = Eq -> c1 y z = Eq -> c2 y z = Eq -> c2 x y = c2 x z) ->
    lawful_at c x.
  Proof.
    intros Hc (S1 & L1 & T1 & R1) S2 L2 T2 R2. repeat split.
    - intros y. rewrite !Hc. pose proof (S1 y) as Hs.
      destruct (c1 x y) eqn:E.
      + destruct (c1 y x); try discriminate. apply S2; auto.
      + destruct (c1 y x); try discriminate. reflexivity.
      + destruct (c1 y x); try discriminate. reflexivity.
    - intros y z. rewrite !Hc.
      destruct (c1 x y) eqn:E; try discriminate. intros E2.
      rewrite (L1 y z E). destruct (c1 y z) eqn:E3; auto.
    - intros y z. rewrite !Hc.
      destruct (c1 x y) eqn:E; try discriminate.
      + intros E2. rewrite (L1 y z E).
        destruct (c1 y z) eqn:E3; try discriminate; auto.
        intros E4. apply (T2 y z); auto.
      + intros _. destruct (c1 y z) eqn:E3; try discriminate; intros E4.
        * rewrite <- (R1 y z E3), E. reflexivity.
        * rewrite (T1 y z E E3). reflexivity.
    - intros y z. rewrite !Hc.
      destruct (c1 y z) eqn:E; try discriminate. intros E2.
      rewrite (R1 y z E). destruct (c1 x z) eqn:E3; auto.
      apply R2; auto. rewrite (R1 y z E). exact E3.
  Qed.

  Lemma lex2_lawful c1 c2 c x :
    (forall a b, c a b = match c1 a b with Eq => c2 a b | o => o end) ->
    lawful_at c1 x -> lawful_at c2 x -> lawful_at c x.
  Proof.
    intros Hc H1 (S2 & L2 & T2 & R2).
    apply (lex2_cond c1 c2 c x Hc H1).
    - intros y _. apply S2.
    - intros y z _ _. apply L2.
    - intros y z _ _. apply T2.
    - intros y z _ _. apply R2.
  Qed.
End Laws.

(* pulling an order back along a function *)
Lemma pull_lawful {A B} (f : A -> B) (c : B -> B -> comparison) x :
  lawful_at c (f x) -> lawful_at (fun a b => c (f a) (f b)) x.
Proof.
  intros (S & L & T & R). repeat split.
  - intros y. apply S.
  - intros y z. apply L.
  - intros y z. apply T.
  - intros y z. apply R.
Qed.

Lemma lawful_ext {A} (c c' : A -> A -> comparison) x :
  (forall a b, c' a b = c a b) -> lawful_at c x -> lawful_at c' x.
Proof.
  intros E (S & L & T & R). repeat split.
  - intros y. rewrite !E. apply S.
  - intros y z. rewrite !E. apply L.
  - intros y z. rewrite !E. apply T.
  - intros y z. rewrite !E. apply R.
Qed.

Lemma Zcmp_lawful x : lawful_at Z.compare x.
Proof.
  repeat split.
  - intros y. apply Z.compare_antisym.
  - intros y z E. apply Z.compare_eq in E. subst. reflexivity.
  - intros y z. rewrite !Z.compare_lt_iff. lia.
  - intros y z E. apply Z.compare_eq in E. subst. reflexivity.
Qed.

Lemma Ncmp_lawful x : lawful_at N.compare x.
Proof.
  repeat split.
  - intros y. apply N.compare_antisym.
  - intros y z E. apply N.compare_eq in E. subst. reflexivity.
  - intros y z. rewrite !N.compare_lt_iff. lia.
  - intros y z E. apply N.compare_eq in E. subst. reflexivity.
Qed.

Lemma lexZ_lawful l : lawful_at (lex Z.compare) l.
Proof. apply lex_lawful. apply Forall_forall. intros; apply Zcmp_lawful. Qed.

Lemma bytes_cmp_lawful s : lawful_at bytes_cmp s.
Proof. apply lex_lawful. apply Forall_forall. intros; apply Ncmp_lawful. Qed.

Lemma lex_bytes_lawful l : lawful_at (lex bytes_cmp) l.
Proof. apply lex_lawful. apply Forall_forall. intros; apply bytes_cmp_lawful. Qed.

Lemma bool_cmp_lawful b : lawful_at bool_cmp b.
Proof.
  repeat split.
  - intros []; destruct b; reflexivity.
  - intros [] []; destruct b; cbn; congruence.
  - intros [] []; destruct b; cbn; congruence.
  - intros [] []; destruct b; cbn; congruence.
Qed.

(* consequences used by the property theorems *)
Lemma lawful_refl {A} (c : A -> A -> comparison) x : lawful_at c x -> c x x = Eq.
Proof.
  intros (S & _). pose proof (S x) as H. destruct (c x x); auto; discriminate.
Qed.

Lemma lawful_le_trans {A} (c : A -> A -> comparison) :
  (forall x, lawful_at c x) ->
  forall x y z, c x y <> Gt -> c y z <> Gt -> c x z <> Gt.
Proof.
  intros H x y z Hxy Hyz.
  destruct (H x) as (_ & L & T & R).
  destruct (c x y) eqn:E1; try congruence.
  - rewrite (L y z E1). exact Hyz.
  - destruct (c y z) eqn:E2; try congruence.
    + rewrite <- (R y z E2), E1. discriminate.
    + rewrite (T y z E1 E2). discriminate.
Qed.

(* ------------------------------------------------------------------ *)
(* lexicographic Eq is pointwise Eq *)
Lemma lex_eq_inv {A} (c : A -> A -> comparison) (P : A -> A -> Prop) :
  forall l1 l2,
    Forall (fun x => forall y, In y l2 -> c x y = Eq -> P x y) l1 ->
    lex c l1 l2 = Eq -> Forall2 P l1 l2.
Proof.
  induction l1 as [|x l1 IH]; intros [|y l2] HF; cbn; try discriminate; auto.
  inversion HF as [|? ? Hx Hl]; subst.
  destruct (c x y) eqn:E; try discriminate. intros Hr.
  constructor.
  - apply Hx; auto. left; reflexivity.
  - apply IH; auto. eapply Forall_impl; [|exact Hl]. cbn. intros a Ha b Hb. apply Ha. right; exact Hb.
Qed.

Lemma Forall2_eq {A} (l1 l2 : list A) : Forall2 eq l1 l2 -> l1 = l2.
Proof. induction 1; subst; auto. Qed.

Lemma lexZ_eq l1 l2 : lex Z.compare l1 l2 = Eq -> l1 = l2.
Proof.
  intros H. apply Forall2_eq. apply (lex_eq_inv Z.compare eq l1 l2); auto.
  apply Forall_forall. intros x _ y _ E. apply Z.compare_eq; exact E.
Qed.

Lemma bytes_cmp_eq s1 s2 : bytes_cmp s1 s2 = Eq -> s1 = s2.
Proof.
  intros H. apply Forall2_eq. apply (lex_eq_inv N.compare eq s1 s2); auto.
  apply Forall_forall. intros x _ y _ E. apply N.compare_eq; exact E.
Qed.

Lemma lex_bytes_eq l1 l2 : lex bytes_cmp l1 l2 = Eq -> l1 = l2.
Proof.
  intros H. apply Forall2_eq. apply (lex_eq_inv bytes_cmp eq l1 l2); auto.
  apply Forall_forall. intros x _ y _ E. apply bytes_cmp_eq; exact E.
Qed.

(* ------------------------------------------------------------------ *)
(* i64 as f64: the key is monotone *)

Lemma rne_bounds m s : 0 <= m -> 0 < s -> m / 2 ^ s <= rne m s <= m / 2 ^ s + 1.
Proof. intros _ _. unfold rne. destruct (_ || _); lia. Qed.

Lemma rne_mono m m' s : 0 < s -> 0 <= m <= m' -> rne m s <= rne m' s.
Proof.
  intros Hs Hm. unfold rne.
  assert (HP : 0 < 2 ^ s) by (apply Z.pow_pos_nonneg; lia).
  set (P := 2 ^ s) in *. set (h := 2 ^ (s - 1)).
  pose proof (Z.div_le_mono m m' P HP (proj2 Hm)) as Hq.
  pose proof (Z.div_mod m P ltac:(lia)) as E1.
  pose proof (Z.div_mod m' P ltac:(lia)) as E2.
  pose proof (Z.mod_pos_bound m P HP) as B1.
  pose proof (Z.mod_pos_bound m' P HP) as B2.
  set (q := m / P) in *. set (q' := m' / P) in *.
  set (r := m mod P) in *. set (r' := m' mod P) in *.
  destruct (Z.eq_dec q q') as [Eq|Nq].
  - (* same quotient: remainders ordered *)
    rewrite <- Eq in *. assert (r <= r') by nia.
    destruct (h <? r) eqn:A1; destruct (h <? r') eqn:A2; cbn [orb];
      try (destruct (r =? h) eqn:A3); try (destruct (r' =? h) eqn:A4); cbn [andb];
      try (destruct (Z.odd q)); lia.
  - assert (q + 1 <= q') by lia.
    destruct (_ || _); destruct (_ || _); lia.
Qed.

Definition sig53 (m : Z) : Z :=
  let e := Z.log2 m in if e <=? 52 then m * 2 ^ (52 - e) else rne m (e - 52).

Lemma mag_key_sig m : mag_key m = (Z.log2 m + 1022) * two52 + sig53 m.
Proof. reflexivity. Qed.

Lemma two52_pow : two52 = 2 ^ 52.
Proof. reflexivity. Qed.

Lemma sig53_bounds m : 1 <= m -> two52 <= sig53 m <= 2 * two52.
Proof.
  intros Hm. unfold sig53.
  destruct (Z.log2_spec m ltac:(lia)) as [Hlo Hhi].
  pose proof (Z.log2_nonneg m) as He.
  set (e := Z.log2 m) in *.
  rewrite Z.pow_succ_r in Hhi by lia.
  destruct (Z.leb_spec e 52) as [Hle|Hgt].
  - assert (HP : 0 < 2 ^ (52 - e)) by (apply Z.pow_pos_nonneg; lia).
    assert (Hsplit : 2 ^ e * 2 ^ (52 - e) = two52).
    { rewrite <- Z.pow_add_r by lia. rewrite two52_pow. f_equal. lia. }
    nia.
  - assert (HP : 0 < 2 ^ (e - 52)) by (apply Z.pow_pos_nonneg; lia).
    assert (Hsplit : two52 * 2 ^ (e - 52) = 2 ^ e).
    { rewrite two52_pow, <- Z.pow_add_r by lia. f_equal. lia. }
    pose proof (rne_bounds m (e - 52) ltac:(lia) ltac:(lia)) as Hr.
    assert (two52 <= m / 2 ^ (e - 52)) by (apply Z.div_le_lower_bound; nia).
    assert (m / 2 ^ (e - 52) < 2 * two52) by (apply Z.div_lt_upper_bound; nia).
    lia.
Qed.

Lemma mag_key_mono m m' : 1 <= m <= m' -> mag_key m <= mag_key m'.
Proof.
  intros Hm. rewrite !mag_key_sig.
  pose proof (sig53_bounds m ltac:(lia)) as B1.
  pose proof (sig53_bounds m' ltac:(lia)) as B2.
  pose proof (Z.log2_le_mono m m' ltac:(lia)) as Hl.
  destruct (Z.eq_dec (Z.log2 m) (Z.log2 m')) as [E|N].
  - assert (sig53 m <= sig53 m'); [|unfold two52 in *; lia].
    unfold sig53. rewrite <- E.
    pose proof (Z.log2_nonneg m) as He.
    destruct (Z.leb_spec (Z.log2 m) 52).
    + assert (0 < 2 ^ (52 - Z.log2 m)) by (apply Z.pow_pos_nonneg; lia). nia.
    + apply rne_mono; lia.
  - unfold two52 in *. lia.
Qed.

Lemma mag_key_pos m : 1 <= m -> 0 < mag_key m.
Proof.
  intros Hm. rewrite mag_key_sig.
  pose proof (sig53_bounds m Hm). pose proof (Z.log2_nonneg m). unfold two52 in *. lia.
Qed.

Lemma int_key_mono a b : a <= b -> int_key a <= int_key b.
Proof.
  intros H. unfold int_key.
  destruct (Z.eqb_spec a 0), (Z.eqb_spec b 0), (Z.ltb_spec 0 a), (Z.ltb_spec 0 b); try lia.
  - pose proof (mag_key_pos b). lia.
  - pose proof (mag_key_pos (- a)). lia.
  - apply mag_key_mono. lia.
  - pose proof (mag_key_pos b). pose proof (mag_key_pos (- a)). lia.
  - pose proof (mag_key_mono (- b) (- a)). lia.
Qed.

(* the bit pattern i2f_bits is a finite float whose numeric key is int_key *)
Lemma int_key_bound a : in_i64 a = true -> - inf_bits < int_key a < inf_bits.
Proof.
  unfold in_i64. rewrite andb_true_iff, Z.leb_le, Z.ltb_lt. intros [Hlo Hhi].
  assert (B : forall m, 1 <= m <= two63 -> mag_key m < inf_bits).
  { intros m Hm. rewrite mag_key_sig. pose proof (sig53_bounds m ltac:(lia)).
    assert (Z.log2 m <= 63).
    { change 63 with (Z.log2 two63). apply Z.log2_le_mono. lia. }
    unfold two52, inf_bits in *. lia. }
  unfold int_key.
  destruct (Z.eqb_spec a 0); [unfold inf_bits; lia|].
  destruct (Z.ltb_spec 0 a).
  - pose proof (B a ltac:(lia)). pose proof (mag_key_pos a ltac:(lia)). lia.
  - pose proof (B (- a) ltac:(lia)). pose proof (mag_key_pos (- a) ltac:(lia)). lia.
Qed.

Ltac float_unfold :=
  unfold cmp_int_float, cmp_float_int, f_total_cmp, f_partial_cmp, f_is_nan, tc_key, num_key,
    f_mag, f_sign, then_ in *.

Ltac Zify.zify_post_hook ::= Z.div_mod_to_equations.

(* case analysis on every boolean / three-way integer test in the goal *)
Ltac zb_cases :=
  repeat match goal with
  | |- context [Z.leb ?a ?b] => destruct (Z.leb_spec a b)
  | |- context [Z.ltb ?a ?b] => destruct (Z.ltb_spec a b)
  | |- context [Z.eqb ?a ?b] => destruct (Z.eqb_spec a b)
  | |- context [Z.compare ?a ?b] => destruct (Z.compare_spec a b)
  end; cbn [orb andb negb].

Lemma i2f_bits_key a :
  in_i64 a = true ->
  f_is_nan (i2f_bits a) = false /\ num_key (i2f_bits a) = int_key a /\
  0 <= i2f_bits a < two64.
Proof.
  intros H. pose proof (int_key_bound a H) as B. unfold i2f_bits.
  set (k := int_key a) in *. float_unfold. unfold two63, two64, inf_bits in *.
  destruct (Z.ltb_spec k 0).
  - rewrite (Z.mod_small (9223372036854775808 - k)) by lia. zb_cases; lia.
  - rewrite (Z.mod_small k) by lia. zb_cases; lia.
Qed.

(* the Integer x Float arm of the code, literally: the integer is converted, then partial_cmp *)
Lemma cmp_int_float_code a b :
  in_i64 a = true ->
  cmp_int_float a b =
  match f_partial_cmp (i2f_bits a) b with
  | Some o => then_ o Lt
  | None => if f_sign b then Gt else Lt
  end.
Proof.
  intros H. destruct (i2f_bits_key a H) as (Hn & Hk & _).
  unfold cmp_int_float, f_partial_cmp. rewrite Hn, Hk. cbn [orb].
  destruct (f_is_nan b); reflexivity.
Qed.

Lemma cmp_float_int_code a b :
  in_i64 b = true ->
  cmp_float_int a b =
  match f_partial_cmp a (i2f_bits b) with
  | Some o => then_ o Gt
  | None => if f_sign a then Lt else Gt
  end.
Proof.
  intros H. destruct (i2f_bits_key b H) as (Hn & Hk & _).
  unfold cmp_float_int, f_partial_cmp. rewrite Hn, Hk, orb_false_r.
  destruct (f_is_nan a); reflexivity.
Qed.

(* ------------------------------------------------------------------ *)
(* nested induction principle for pv *)
Section PvInd.
  Variable P : pv -> Prop.
  Hypothesis HStr : forall s, P (PStr s).
  Hypothesis HInt : forall z, P (PInt z).
  Hypothesis HFloat : forall b, P (PFloat b).
  Hypothesis HBool : forall b, P (PBool b).
  Hypothesis HDate : forall z, P (PDate z).
  Hypothesis HArr : forall l, Forall P l -> P (PArr l).
  Hypothesis HMap : forall m, Forall (fun kv => P (snd kv)) m -> P (PMap m).
  Hypothesis HVec : forall v, P (PVec v).
  Hypothesis HDur : forall m d s n, P (PDur m d s n).
  Hypothesis HNull : P PNull.

  Fixpoint pv_nested_ind (v : pv) : P v :=
    match v with
    | PStr s => HStr s
    | PInt z => HInt z
    | PFloat b => HFloat b
    | PBool b => HBool b
    | PDate z => HDate z
    | PArr l =>
        HArr l ((fix go (l : list pv) : Forall P l :=
                   match l with
                   | [] => Forall_nil P
                   | x :: r => Forall_cons x (pv_nested_ind x) (go r)
                   end) l)
    | PMap m =>
        HMap m ((fix go (m : list (bytes * pv)) : Forall (fun kv => P (snd kv)) m :=
                   match m with
                   | [] => Forall_nil _
                   | (k, x) :: r => Forall_cons (k, x) (pv_nested_ind x) (go r)
                   end) m)
    | PVec v => HVec v
    | PDur m d s n => HDur m d s n
    | PNull => HNull
    end.
End PvInd.

(* ------------------------------------------------------------------ *)
(* the numeric bucket is the pull-back of a lexicographic integer key:
   [class; numeric key; variant; tie-break], class -1 / +1 for NaN by sign *)
Definition nkey (v : pv) : list Z :=
  match v with
  | PInt a => [0; int_key a; 0; a]
  | PFloat b => if f_is_nan b then [if f_sign b then -1 else 1; 0; 1; tc_key b]
                else [0; num_key b; 1; tc_key b]
  | _ => []
  end.

Lemma num_int_int a b : (a ?= b) = lex Z.compare (nkey (PInt a)) (nkey (PInt b)).
Proof.
  cbn. pose proof (int_key_mono a b). pose proof (int_key_mono b a).
  zb_cases; try reflexivity; lia.
Qed.

Lemma num_float_float x y :
  f_total_cmp x y = lex Z.compare (nkey (PFloat x)) (nkey (PFloat y)).
Proof.
  unfold nkey. float_unfold. unfold two63, two64, inf_bits.
  pose proof (Z.mod_pos_bound x 18446744073709551616 eq_refl).
  pose proof (Z.mod_pos_bound y 18446744073709551616 eq_refl).
  set (rx := x mod 18446744073709551616) in *. set (ry := y mod 18446744073709551616) in *.
  destruct (Z.leb_spec 9223372036854775808 rx); destruct (Z.leb_spec 9223372036854775808 ry);
  match goal with |- context [Z.ltb ?a ?b] => destruct (Z.ltb_spec a b) end;
  match goal with |- context [Z.ltb ?a ?b] => destruct (Z.ltb_spec a b) end;
  cbn [lex]; zb_cases; try reflexivity; lia.
Qed.

Lemma num_int_float a y :
  cmp_int_float a y = lex Z.compare (nkey (PInt a)) (nkey (PFloat y)).
Proof.
  unfold nkey, cmp_int_float, then_.
  destruct (f_is_nan y); [destruct (f_sign y); reflexivity|].
  cbn [lex]. change (0 ?= 0) with Eq. cbv iota.
  destruct (int_key a ?= num_key y); reflexivity.
Qed.

Lemma num_float_int x b :
  cmp_float_int x b = lex Z.compare (nkey (PFloat x)) (nkey (PInt b)).
Proof.
  unfold nkey, cmp_float_int, then_.
  destruct (f_is_nan x); [destruct (f_sign x); reflexivity|].
  cbn [lex]. change (0 ?= 0) with Eq. cbv iota.
  destruct (num_key x ?= int_key b); reflexivity.
Qed.

(* ------------------------------------------------------------------ *)
(* unfolding equations of pv_cmp *)
Definition val_cmp (p q : bytes * pv) : comparison := pv_cmp (snd p) (snd q).

Lemma lex_ext {A} (c c' : A -> A -> comparison) l1 l2 :
  (forall a b, c a b = c' a b) -> lex c l1 l2 = lex c' l1 l2.
Proof.
  intros E. revert l2. induction l1 as [|x l1 IH]; intros [|y l2]; cbn; auto.
  rewrite E. destruct (c' x y); auto.
Qed.

Lemma pv_cmp_map x y :
  pv_cmp (PMap x) (PMap y) =
  match lex bytes_cmp (map fst x) (map fst y) with
  | Eq => lex val_cmp x y
  | o => o
  end.
Proof.
  cbn [pv_cmp]. destruct (lex bytes_cmp (map fst x) (map fst y)); auto.
  apply lex_ext. intros [k u] [k' w]. reflexivity.
Qed.

Lemma dur_as_lex m1 d1 s1 n1 m2 d2 s2 n2 :
  then_ (m1 ?= m2) (then_ (d1 ?= d2) (then_ (s1 ?= s2) (n1 ?= n2))) =
  lex Z.compare [m1; d1; s1; n1] [m2; d2; s2; n2].
Proof.
  cbn. unfold then_.
  destruct (m1 ?= m2), (d1 ?= d2), (s1 ?= s2), (n1 ?= n2); reflexivity.
Qed.

Definition bucket_cmp (a b : pv) : comparison := bucket a ?= bucket b.

Lemma bucket_cmp_lawful x : lawful_at bucket_cmp x.
Proof. apply (pull_lawful bucket Z.compare). apply Zcmp_lawful. Qed.

Lemma pv_cmp_bucket a b :
  pv_cmp a b = match bucket_cmp a b with Eq => pv_cmp a b | o => o end.
Proof.
  unfold bucket_cmp. destruct a, b; try reflexivity.
Qed.

Lemma bucket_cmp_eq a b : bucket_cmp a b = Eq -> bucket a = bucket b.
Proof. apply Z.compare_eq. Qed.

(* a bucket on which pv_cmp is the pull-back of a lawful order *)
Lemma bucket_pull {K} (k : Z) (ck : K -> K -> comparison) (f : pv -> K) :
  (forall y z, bucket y = k -> bucket z = k -> pv_cmp y z = ck (f y) (f z)) ->
  (forall u, lawful_at ck u) ->
  forall x, bucket x = k -> lawful_at pv_cmp x.
Proof.
  intros Hp Hl x Hx.
  apply (lex2_cond bucket_cmp pv_cmp pv_cmp x pv_cmp_bucket (bucket_cmp_lawful x)).
  - intros y E. apply bucket_cmp_eq in E.
    rewrite !Hp by congruence. apply (Hl (f x)).
  - intros y z E1 E2. apply bucket_cmp_eq in E1, E2.
    rewrite !Hp by congruence. apply (Hl (f x)).
  - intros y z E1 E2. apply bucket_cmp_eq in E1, E2.
    rewrite !Hp by congruence. apply (Hl (f x)).
  - intros y z E1 E2. apply bucket_cmp_eq in E1, E2.
    rewrite !Hp by congruence. apply (Hl (f x)).
Qed.

Ltac same_bucket y H :=
  destruct y; cbn in H; try discriminate H.

Lemma num_pull y z :
  bucket y = 1 -> bucket z = 1 -> pv_cmp y z = lex Z.compare (nkey y) (nkey z).
Proof.
  intros Hy Hz. same_bucket y Hy; same_bucket z Hz; cbn [pv_cmp].
  - apply num_int_int.
  - apply num_int_float.
  - apply num_float_int.
  - apply num_float_float.
Qed.

Definition as_bool (v : pv) := match v with PBool b => b | _ => false end.
Definition as_bytes (v : pv) := match v with PStr s => s | _ => [] end.
Definition as_z (v : pv) := match v with PDate z => z | _ => 0 end.
Definition as_zs (v : pv) :=
  match v with PVec l => l | PDur m d s n => [m; d; s; n] | _ => [] end.

Lemma val_cmp_lawful p : lawful_at pv_cmp (snd p) -> lawful_at val_cmp p.
Proof. intros H. apply (pull_lawful snd pv_cmp). exact H. Qed.

Theorem pv_cmp_lawful : forall a, lawful_at pv_cmp a.
Proof.
  induction a as [s|i|b|b|d|l H|m H|v|mo da se na|] using pv_nested_ind.
  - (* strings *)
    apply (bucket_pull 2 bytes_cmp as_bytes); auto using bytes_cmp_lawful.
    intros u w Hu Hw. same_bucket u Hu; same_bucket w Hw. reflexivity.
  - apply (bucket_pull 1 (lex Z.compare) nkey); auto using lexZ_lawful, num_pull.
  - apply (bucket_pull 1 (lex Z.compare) nkey); auto using lexZ_lawful, num_pull.
  - apply (bucket_pull 0 bool_cmp as_bool); auto using bool_cmp_lawful.
    intros u w Hu Hw. same_bucket u Hu; same_bucket w Hw. reflexivity.
  - apply (bucket_pull 3 Z.compare as_z); auto using Zcmp_lawful.
    intros u w Hu Hw. same_bucket u Hu; same_bucket w Hw. reflexivity.
  - (* arrays *)
    pose proof (lex_lawful pv_cmp l H) as (S & L & T & R).
    apply (lex2_cond bucket_cmp pv_cmp pv_cmp _ pv_cmp_bucket (bucket_cmp_lawful _)).
    + intros u E. apply bucket_cmp_eq in E. same_bucket u E. exact (S _).
    + intros u w E1 E2. apply bucket_cmp_eq in E1, E2.
      same_bucket u E1. same_bucket w E2. exact (L _ _).
    + intros u w E1 E2. apply bucket_cmp_eq in E1, E2.
      same_bucket u E1. same_bucket w E2. exact (T _ _).
    + intros u w E1 E2. apply bucket_cmp_eq in E1, E2.
      same_bucket u E1. same_bucket w E2. exact (R _ _).
  - (* maps: keys first, then values *)
    assert (HM : lawful_at (fun x y => pv_cmp (PMap x) (PMap y)) m).
    { apply (lex2_lawful (fun x y => lex bytes_cmp (map fst x) (map fst y)) (lex val_cmp)).
      - intros x y. apply pv_cmp_map.
      - apply (pull_lawful (map fst) (lex bytes_cmp)). apply lex_bytes_lawful.
      - apply lex_lawful. eapply Forall_impl; [|exact H]. intros p. apply val_cmp_lawful. }
    destruct HM as (S & L & T & R).
    apply (lex2_cond bucket_cmp pv_cmp pv_cmp _ pv_cmp_bucket (bucket_cmp_lawful _)).
    + intros u E. apply bucket_cmp_eq in E. same_bucket u E. exact (S _).
    + intros u w E1 E2. apply bucket_cmp_eq in E1, E2.
      same_bucket u E1. same_bucket w E2. exact (L _ _).
    + intros u w E1 E2. apply bucket_cmp_eq in E1, E2.
      same_bucket u E1. same_bucket w E2. exact (T _ _).
    + intros u w E1 E2. apply bucket_cmp_eq in E1, E2.
      same_bucket u E1. same_bucket w E2. exact (R _ _).
  - apply (bucket_pull 6 (lex Z.compare) as_zs); auto using lexZ_lawful.
    intros u w Hu Hw. same_bucket u Hu; same_bucket w Hw. reflexivity.
  - apply (bucket_pull 7 (lex Z.compare) as_zs); auto using lexZ_lawful.
    intros u w Hu Hw. same_bucket u Hu; same_bucket w Hw. apply dur_as_lex.
  - apply (bucket_pull 8 Z.compare (fun _ => 0)); auto using Zcmp_lawful.
    intros u w Hu Hw. same_bucket u Hu; same_bucket w Hw. reflexivity.
Qed.

(* ------------------------------------------------------------------ *)
(* the property-level statements about pv_cmp *)
Theorem pv_cmp_refl a : pv_cmp a a = Eq.
Proof. apply lawful_refl, pv_cmp_lawful. Qed.

Theorem pv_cmp_antisym a b : pv_cmp a b = CompOpp (pv_cmp b a).
Proof. apply (pv_cmp_lawful a). Qed.

Theorem pv_cmp_trans_lt a b c : pv_cmp a b = Lt -> pv_cmp b c = Lt -> pv_cmp a c = Lt.
Proof. apply (pv_cmp_lawful a). Qed.

Theorem pv_cmp_eq_congr a b c : pv_cmp a b = Eq -> pv_cmp a c = pv_cmp b c.
Proof. apply (pv_cmp_lawful a). Qed.

Theorem pv_cmp_trans_le a b c : pv_cmp a b <> Gt -> pv_cmp b c <> Gt -> pv_cmp a c <> Gt.
Proof. apply lawful_le_trans, pv_cmp_lawful. Qed.

Theorem pv_cmp_eq_iff_eqb a b : pv_cmp a b = Eq <-> pv_eqb a b = true.
Proof. unfold pv_eqb. destruct (pv_cmp a b); split; congruence. Qed.

(* Eq only between identical (well-formed) values *)
Lemma tc_key_inj x y :
  0 <= x < two64 -> 0 <= y < two64 -> f_total_cmp x y = Eq -> x = y.
Proof.
  intros Hx Hy H. apply Z.compare_eq in H. revert H.
  float_unfold. rewrite (Z.mod_small x), (Z.mod_small y) by assumption.
  unfold two63, two64 in *. zb_cases; lia.
Qed.

Lemma then_eq o1 o2 : then_ o1 o2 = Eq -> o1 = Eq /\ o2 = Eq.
Proof. destruct o1; cbn; auto; discriminate. Qed.

Lemma forallb_Forall {A} (f : A -> bool) l : forallb f l = true -> Forall (fun x => f x = true) l.
Proof. rewrite forallb_forall. apply Forall_forall. Qed.

Definition eq_at (a : pv) : Prop :=
  wf a = true -> forall b, wf b = true -> pv_cmp a b = Eq -> a = b.

Lemma lex_pv_eq l1 : Forall eq_at l1 -> forallb wf l1 = true ->
  forall l2, forallb wf l2 = true -> lex pv_cmp l1 l2 = Eq -> l1 = l2.
Proof.
  induction 1 as [|x l1 Hx _ IH]; intros W1 [|y l2] W2; cbn; try discriminate; auto.
  cbn in W1, W2. apply andb_true_iff in W1, W2. destruct W1 as [Wx W1], W2 as [Wy W2].
  destruct (pv_cmp x y) eqn:E; try discriminate. intros Hr.
  rewrite (Hx Wx y Wy E). f_equal. apply IH; auto.
Qed.

Lemma lex_val_eq m1 : Forall (fun kv => eq_at (snd kv)) m1 ->
  forallb (fun p => let '(_, x) := p in wf x) m1 = true ->
  forall m2, forallb (fun p => let '(_, x) := p in wf x) m2 = true ->
  map fst m1 = map fst m2 -> lex val_cmp m1 m2 = Eq -> m1 = m2.
Proof.
  induction 1 as [|[k x] m1 Hx _ IH]; intros W1 [|[k' y] m2] W2; cbn; try discriminate; auto.
  cbn in W1, W2. apply andb_true_iff in W1, W2. destruct W1 as [Wx W1], W2 as [Wy W2].
  intros Hk. injection Hk as Hk1 Hk2. unfold val_cmp at 1. cbn [snd].
  destruct (pv_cmp x y) eqn:E; try discriminate. intros Hr.
  cbn [snd] in Hx. rewrite (Hx Wx y Wy E), Hk1. f_equal. apply IH; auto.
Qed.

Theorem pv_cmp_eq_leibniz : forall a, eq_at a.
Proof.
  induction a as [s|i|b|b|d|l H|m H|v|mo da se na|] using pv_nested_ind;
    intros Wa [s'|i'|b'|b'|d'|l'|m'|v'|mo' da' se' na'|] Wb; cbn [pv_cmp bucket];
    try discriminate; try reflexivity.
  - intros E. apply bytes_cmp_eq in E. congruence.
  - intros E. apply Z.compare_eq in E. congruence.
  - unfold cmp_int_float, then_. destruct (f_is_nan b'); [destruct (f_sign b')|];
      try discriminate. destruct (_ ?= _); discriminate.
  - unfold cmp_float_int, then_. destruct (f_is_nan b); [destruct (f_sign b)|];
      try discriminate. destruct (_ ?= _); discriminate.
  - cbn in Wa, Wb. apply andb_true_iff in Wa, Wb.
    rewrite Z.leb_le, Z.ltb_lt in Wa, Wb.
    intros E. apply tc_key_inj in E; try lia. congruence.
  - destruct b, b'; cbn; try discriminate; reflexivity.
  - intros E. apply Z.compare_eq in E. congruence.
  - intros E. cbn in Wa, Wb. f_equal. apply (lex_pv_eq l H Wa l' Wb E).
  - change (pv_cmp (PMap m) (PMap m') = Eq -> PMap m = PMap m'). rewrite pv_cmp_map.
    destruct (lex bytes_cmp (map fst m) (map fst m')) eqn:Ek; try discriminate.
    apply lex_bytes_eq in Ek. intros E. f_equal.
    cbn in Wa, Wb. apply andb_true_iff in Wa, Wb. destruct Wa as [_ Wa], Wb as [_ Wb].
    apply (lex_val_eq m H Wa m' Wb Ek E).
  - intros E. apply lexZ_eq in E. congruence.
  - rewrite dur_as_lex. intros E. apply lexZ_eq in E. congruence.
Qed.

Theorem pv_cmp_eq_iff_eq a b :
  wf a = true -> wf b = true -> (pv_cmp a b = Eq <-> a = b).
Proof.
  intros Wa Wb. split.
  - apply pv_cmp_eq_leibniz; auto.
  - intros ->. apply pv_cmp_refl.
Qed.

Theorem hash_compat a b :
  wf a = true -> wf b = true -> pv_eqb a b = true -> hash_feed a = hash_feed b.
Proof.
  intros Wa Wb E. apply pv_cmp_eq_iff_eqb in E. apply pv_cmp_eq_leibniz in E; auto. congruence.
Qed.

(* ------------------------------------------------------------------ *)
(* cypher_order: first by (rank, bucket); within a bucket it is pv_cmp after replacing every
   NaN by one canonical positive NaN, except for arrays, which recurse *)
Definition cnan : Z := 9221120237041090560.      (* 0x7FF8_0000_0000_0000 *)

Definition cn (v : pv) : pv :=
  match v with
  | PFloat b => if f_is_nan b then PFloat cnan else v
  | _ => v
  end.

Definition rb_cmp (a b : pv) : comparison :=
  lex Z.compare [rank a; bucket a] [rank b; bucket b].

Lemma rb_cmp_lawful x : lawful_at rb_cmp x.
Proof. apply (pull_lawful (fun v => [rank v; bucket v]) (lex Z.compare)). apply lexZ_lawful. Qed.

Lemma rb_cmp_eq a b : rb_cmp a b = Eq -> bucket a = bucket b.
Proof. intros H. apply lexZ_eq in H. congruence. Qed.

Lemma cy_rb a b : cy_order a b = match rb_cmp a b with Eq => cy_order a b | o => o end.
Proof. destruct a, b; reflexivity. Qed.

Lemma nan_cnan : f_is_nan cnan = true.
Proof. vm_compute. reflexivity. Qed.
Lemma sign_cnan : f_sign cnan = false.
Proof. vm_compute. reflexivity. Qed.
Lemma tc_cnan : tc_key cnan = cnan.
Proof. vm_compute. reflexivity. Qed.

Lemma tc_nonnan y : f_is_nan y = false -> tc_key y <= inf_bits.
Proof.
  float_unfold. unfold two63, two64, inf_bits.
  pose proof (Z.mod_pos_bound y 18446744073709551616 eq_refl).
  set (ry := y mod 18446744073709551616) in *.
  zb_cases; intros; try discriminate; lia.
Qed.

Lemma cy_pull x y :
  bucket x = bucket y -> bucket x <> 4 -> cy_order x y = pv_cmp (cn x) (cn y).
Proof.
  intros Hb Hx. destruct x, y; cbn in Hb, Hx; try discriminate Hb; try reflexivity;
    try (exfalso; apply Hx; reflexivity).
  - (* Int, Float *)
    change (cy_order (PInt z) (PFloat bits))
      with (if f_is_nan bits then Lt else pv_cmp (PInt z) (PFloat bits)).
    unfold cn. destruct (f_is_nan bits); [|reflexivity].
    cbn [pv_cmp]. unfold cmp_int_float. rewrite nan_cnan, sign_cnan. reflexivity.
  - (* Float, Int *)
    change (cy_order (PFloat bits) (PInt z))
      with (if f_is_nan bits then Gt else pv_cmp (PFloat bits) (PInt z)).
    unfold cn. destruct (f_is_nan bits); [|reflexivity].
    cbn [pv_cmp]. unfold cmp_float_int. rewrite nan_cnan, sign_cnan. reflexivity.
  - (* Float, Float *)
    change (cy_order (PFloat bits) (PFloat bits0))
      with (match f_is_nan bits, f_is_nan bits0 with
            | true, true => Eq | true, false => Gt | false, true => Lt
            | false, false => pv_cmp (PFloat bits) (PFloat bits0) end).
    unfold cn.
    destruct (f_is_nan bits) eqn:E1; destruct (f_is_nan bits0) eqn:E2; cbn [pv_cmp];
      unfold f_total_cmp; try reflexivity.
    + symmetry. apply Z.compare_gt_iff. rewrite tc_cnan.
      pose proof (tc_nonnan _ E2). unfold cnan, inf_bits in *. lia.
    + symmetry. apply Z.compare_lt_iff. rewrite tc_cnan.
      pose proof (tc_nonnan _ E1). unfold cnan, inf_bits in *. lia.
Qed.

Lemma cy_nonarr x : bucket x <> 4 -> lawful_at cy_order x.
Proof.
  intros Hx. destruct (pv_cmp_lawful (cn x)) as (S & L & T & R).
  apply (lex2_cond rb_cmp cy_order cy_order x cy_rb (rb_cmp_lawful x)).
  - intros u E. apply rb_cmp_eq in E.
    rewrite !cy_pull by congruence. apply S.
  - intros u w E1 E2. apply rb_cmp_eq in E1, E2.
    rewrite !cy_pull by congruence. apply L.
  - intros u w E1 E2. apply rb_cmp_eq in E1, E2.
    rewrite !cy_pull by congruence. apply T.
  - intros u w E1 E2. apply rb_cmp_eq in E1, E2.
    rewrite !cy_pull by congruence. apply R.
Qed.

Theorem cy_order_lawful : forall a, lawful_at cy_order a.
Proof.
  induction a as [s|i|b|b|d|l H|m H|v|mo da se na|] using pv_nested_ind;
    try (apply cy_nonarr; cbn; discriminate).
  pose proof (lex_lawful cy_order l H) as (S & L & T & R).
  apply (lex2_cond rb_cmp cy_order cy_order _ cy_rb (rb_cmp_lawful _)).
  - intros u E. apply rb_cmp_eq in E. same_bucket u E. exact (S _).
  - intros u w E1 E2. apply rb_cmp_eq in E1, E2.
    same_bucket u E1. same_bucket w E2. exact (L _ _).
  - intros u w E1 E2. apply rb_cmp_eq in E1, E2.
    same_bucket u E1. same_bucket w E2. exact (T _ _).
  - intros u w E1 E2. apply rb_cmp_eq in E1, E2.
    same_bucket u E1. same_bucket w E2. exact (R _ _).
Qed.

Theorem cy_order_preorder :
  (forall a, cy_order a a = Eq) /\
  (forall a b, cy_order a b = CompOpp (cy_order b a)) /\
  (forall a b, cy_order a b <> Gt \/ cy_order b a <> Gt) /\
  (forall a b c, cy_order a b <> Gt -> cy_order b c <> Gt -> cy_order a c <> Gt) /\
  (forall a b c, cy_order a b = Lt -> cy_order b c = Lt -> cy_order a c = Lt) /\
  (forall a b c, cy_order a b = Eq -> cy_order b c = Eq -> cy_order a c = Eq) /\
  (forall a b c, cy_order a b = Eq -> cy_order a c = cy_order b c).
Proof.
  repeat split.
  - intros a. apply lawful_refl, cy_order_lawful.
  - intros a b. apply (cy_order_lawful a).
  - intros a b. destruct (cy_order_lawful a) as (S & _). rewrite (S b).
    destruct (cy_order b a); cbn; [left|right|left]; discriminate.
  - apply lawful_le_trans, cy_order_lawful.
  - intros a b c. apply (cy_order_lawful a).
  - intros a b c E1 E2. destruct (cy_order_lawful a) as (_ & L & _). rewrite (L b c E1). exact E2.
  - intros a b c. apply (cy_order_lawful a).
Qed.

(* ------------------------------------------------------------------ *)
(* consequence: a sorted arrangement of a collection of values is unique, so the result of
   sorting (by any correct algorithm) cannot depend on the order the values arrived in *)
From Coq Require Import Sorted.

Definition pv_le (a b : pv) : Prop := pv_cmp a b <> Gt.

Lemma pv_le_antisym a b : wf a = true -> wf b = true -> pv_le a b -> pv_le b a -> a = b.
Proof.
  unfold pv_le. intros Wa Wb H1 H2. apply pv_cmp_eq_leibniz; auto.
  rewrite (pv_cmp_antisym b a) in H2. destruct (pv_cmp a b); cbn in *; congruence.
Qed.

Theorem sorted_perm_unique : forall l1 l2,
  Forall (fun x => wf x = true) l1 -> Permutation l1 l2 ->
  StronglySorted pv_le l1 -> StronglySorted pv_le l2 -> l1 = l2.
Proof.
  induction l1 as [|a l1 IH]; intros l2 W HP S1 S2.
  - apply Permutation_nil in HP. congruence.
  - destruct l2 as [|b l2]; [apply Permutation_sym, Permutation_nil in HP; discriminate|].
    inversion S1 as [|? ? S1' F1]; subst. inversion S2 as [|? ? S2' F2]; subst.
    inversion W as [|? ? Wa W']; subst.
    assert (Wb : wf b = true).
    { assert (In b (a :: l1)) by (eapply Permutation_in; [apply Permutation_sym; exact HP|left; reflexivity]).
      rewrite Forall_forall in W. apply W; auto. }
    assert (a = b).
    { assert (Ha : In a (b :: l2)) by (eapply Permutation_in; [exact HP|left; reflexivity]).
      assert (Hb : In b (a :: l1)) by (eapply Permutation_in; [apply Permutation_sym; exact HP|left; reflexivity]).
      destruct Ha as [Ha|Ha]; [congruence|]. destruct Hb as [Hb|Hb]; [congruence|].
      rewrite Forall_forall in F1, F2. apply pv_le_antisym; auto. }
    subst b. f_equal. apply IH; auto. eapply Permutation_cons_inv; exact HP.
Qed.

(* insertion sort by pv_cmp, as one concrete instance *)
Fixpoint pv_insert (x : pv) (l : list pv) : list pv :=
  match l with
  | [] => [x]
  | y :: r => match pv_cmp x y with Gt => y :: pv_insert x r | _ => x :: y :: r end
  end.

Definition pv_sort (l : list pv) : list pv := fold_right pv_insert [] l.

Lemma pv_insert_perm x l : Permutation (x :: l) (pv_insert x l).
Proof.
  induction l as [|y r IH]; cbn; auto.
  destruct (pv_cmp x y); auto.
  eapply perm_trans; [apply perm_swap|]. apply perm_skip. exact IH.
Qed.

Lemma pv_sort_perm l : Permutation l (pv_sort l).
Proof.
  induction l as [|x l IH]; cbn; auto.
  eapply perm_trans; [apply perm_skip; exact IH|]. apply pv_insert_perm.
Qed.

Lemma pv_insert_sorted x l : StronglySorted pv_le l -> StronglySorted pv_le (pv_insert x l).
Proof.
  induction 1 as [|y r S IH F]; cbn.
  - constructor; constructor.
  - destruct (pv_cmp x y) eqn:E.
    + constructor; [constructor; auto|]. constructor; [unfold pv_le; congruence|].
      eapply Forall_impl; [|exact F]. intros z Hz. unfold pv_le in *.
      apply (pv_cmp_trans_le x y z); congruence.
    + constructor; [constructor; auto|]. constructor; [unfold pv_le; congruence|].
      eapply Forall_impl; [|exact F]. intros z Hz. unfold pv_le in *.
      apply (pv_cmp_trans_le x y z); congruence.
    + constructor; auto.
      assert (Hyx : pv_le y x).
      { unfold pv_le. rewrite (pv_cmp_antisym y x), E. discriminate. }
      assert (HF : Forall (pv_le y) (x :: r)) by (constructor; auto).
      eapply Permutation_Forall; [apply pv_insert_perm|exact HF].
Qed.

Lemma pv_sort_sorted l : StronglySorted pv_le (pv_sort l).
Proof. induction l; cbn; [constructor|apply pv_insert_sorted; auto]. Qed.

Theorem sort_perm_invariant l1 l2 :
  Forall (fun x => wf x = true) l1 -> Permutation l1 l2 -> pv_sort l1 = pv_sort l2.
Proof.
  intros W HP. apply sorted_perm_unique; auto using pv_sort_sorted.
  - eapply Permutation_Forall; [apply pv_sort_perm|exact W].
  - eapply perm_trans; [apply Permutation_sym, pv_sort_perm|].
    eapply perm_trans; [exact HP|apply pv_sort_perm].
Qed.

(* ------------------------------------------------------------------ *)
(* consequence: lookups in an ordered index do not depend on insertion order.
   PropertyIndex is a BTreeMap<PropertyValue, HashSet<NodeId>>; std's B-tree is represented
   here by what it maintains, a key-sorted association list searched with pv_cmp (the search
   stops as soon as the probe is smaller than the entry, as a tree search does). *)
(* index, idx_insert, idx_get, idx_build : coq/model/Index.v *)

Definition pv_lt (a b : pv) : Prop := pv_cmp a b = Lt.
Definition idx_sorted (m : index) : Prop := StronglySorted pv_lt (map fst m).

Lemma pv_cmp_eq_congr_r a b c : pv_cmp b c = Eq -> pv_cmp a b = pv_cmp a c.
Proof. apply (pv_cmp_lawful a). Qed.

Lemma pv_cmp_gt_lt a b : pv_cmp a b = Gt -> pv_cmp b a = Lt.
Proof. intros H. rewrite (pv_cmp_antisym b a), H. reflexivity. Qed.

Lemma pv_cmp_eq_sym a b : pv_cmp a b = Eq -> pv_cmp b a = Eq.
Proof. intros H. rewrite (pv_cmp_antisym b a), H. reflexivity. Qed.

Lemma idx_insert_keys k id m x :
  In x (map fst (idx_insert k id m)) -> x = k \/ In x (map fst m).
Proof.
  induction m as [|[k' ids] r IH]; cbn.
  - intros [H|[]]; auto.
  - destruct (pv_cmp k k'); cbn; intros [H|H]; auto.
    destruct (IH H); auto.
Qed.

Lemma idx_insert_sorted k id m : idx_sorted m -> idx_sorted (idx_insert k id m).
Proof.
  unfold idx_sorted. induction m as [|[k' ids] r IH]; cbn; intros S.
  - constructor; constructor.
  - inversion S as [|? ? S' F]; subst.
    destruct (pv_cmp k k') eqn:E; cbn.
    + constructor; auto.
    + constructor; [constructor; auto|]. constructor; [exact E|].
      eapply Forall_impl; [|exact F]. intros z Hz. exact (pv_cmp_trans_lt k k' z E Hz).
    + constructor; auto.
      apply Forall_forall. intros x Hx. apply idx_insert_keys in Hx. destruct Hx as [->|Hx].
      * apply pv_cmp_gt_lt; exact E.
      * rewrite Forall_forall in F. apply F; exact Hx.
Qed.

Lemma idx_get_insert k id m : idx_sorted m ->
  forall q i, In i (idx_get q (idx_insert k id m)) <->
              (pv_cmp q k = Eq /\ i = id) \/ In i (idx_get q m).
Proof.
  unfold idx_sorted. induction m as [|[k' ids] r IH]; cbn; intros S q i.
  - destruct (pv_cmp q k); cbn; intuition congruence.
  - inversion S as [|? ? S' F]; subst.
    destruct (pv_cmp k k') eqn:E; cbn.
    + (* same key: the id joins the entry *)
      rewrite (pv_cmp_eq_congr_r q k k' E).
      destruct (pv_cmp q k'); cbn; intuition congruence.
    + (* new smallest key *)
      destruct (pv_cmp q k) eqn:E2; cbn.
      * rewrite (pv_cmp_eq_congr q k k' E2), E. cbn. intuition congruence.
      * rewrite (pv_cmp_trans_lt q k k' E2 E). cbn. intuition congruence.
      * intuition congruence.
    + (* goes further right *)
      destruct (pv_cmp q k') eqn:E2; cbn.
      * assert (pv_cmp q k = Lt).
        { rewrite (pv_cmp_eq_congr q k' k E2). apply pv_cmp_gt_lt; exact E. }
        intuition congruence.
      * assert (pv_cmp q k = Lt).
        { apply (pv_cmp_trans_lt q k' k E2). apply pv_cmp_gt_lt; exact E. }
        intuition congruence.
      * apply IH; exact S'.
Qed.

Lemma idx_build_inv ops : forall m0, idx_sorted m0 ->
  idx_sorted (fold_left (fun m p => idx_insert (fst p) (snd p) m) ops m0) /\
  forall q i, In i (idx_get q (fold_left (fun m p => idx_insert (fst p) (snd p) m) ops m0)) <->
              (exists k, In (k, i) ops /\ pv_cmp q k = Eq) \/ In i (idx_get q m0).
Proof.
  induction ops as [|[k id] ops IH]; cbn; intros m0 S.
  - split; auto. intros q i. split; auto. intros [(k & [] & _)|H]; auto.
  - destruct (IH (idx_insert k id m0) (idx_insert_sorted k id m0 S)) as [S' G]. split; auto.
    intros q i. rewrite G, (idx_get_insert k id m0 S). split.
    + intros [(k0 & Hin & E)|[[E ->]|H]]; eauto.
    + intros [(k0 & [Hin|Hin] & E)|H]; eauto. injection Hin as -> ->. auto.
Qed.

(* a lookup returns exactly the ids inserted under a key that compares Eq to the probe *)
Theorem idx_get_build ops q i :
  In i (idx_get q (idx_build ops)) <-> exists k, In (k, i) ops /\ pv_cmp q k = Eq.
Proof.
  destruct (idx_build_inv ops [] (SSorted_nil _)) as [_ G]. unfold idx_build. rewrite G. cbn.
  intuition.
Qed.

(* ... which for well-formed values is the probe itself, and does not depend on the order
   of insertion *)
Theorem idx_lookup_order_free ops ops' q i :
  Permutation ops ops' ->
  (In i (idx_get q (idx_build ops)) <-> In i (idx_get q (idx_build ops'))).
Proof.
  intros HP. rewrite !idx_get_build. split; intros (k & Hin & E); exists k; split; auto.
  - eapply Permutation_in; eauto.
  - eapply Permutation_in; [apply Permutation_sym|]; eauto.
Qed.

Theorem idx_lookup_exact ops q i :
  wf q = true -> Forall (fun p => wf (fst p) = true) ops ->
  (In i (idx_get q (idx_build ops)) <-> In (q, i) ops).
Proof.
  intros Wq W. rewrite idx_get_build. split.
  - intros (k & Hin & E). rewrite Forall_forall in W.
    apply pv_cmp_eq_leibniz in E; auto; [congruence|]. apply (W (k, i) Hin).
  - intros Hin. exists q. split; auto. apply pv_cmp_refl.
Qed.
