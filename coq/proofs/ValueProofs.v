(* Proofs about coq/model/Value.v : the index order pv_cmp is a strict total order on
   property values of every depth, equality is "compares Eq" and coincides with identity
   of (well-formed) values, equal values feed the hasher identically, cy_order is a total
   preorder. *)
From Coq Require Import List NArith ZArith Bool Lia Permutation.
From Verif Require Import CheckLib Value.
Import ListNotations.
Open Scope Z_scope.

(* ------------------------------------------------------------------ *)
(* Laws of a comparison function, stated "at x" (x is the first argument) so that a
   nested induction on the first argument has exactly the hypotheses it needs. *)
Definition sym_at {A} (c : A -> A -> comparison) x := forall y, c x y = CompOpp (c y x).
Definition congl_at {A} (c : A -> A -> comparison) x := forall y z, c x y = Eq -> c x z = c y z.
Definition trans_at {A} (c : A -> A -> comparison) x :=
  forall y z, c x y = Lt -> c y z = Lt -> c x z = Lt.
Definition congr_at {A} (c : A -> A -> comparison) x := forall y z, c y z = Eq -> c x y = c x z.
Definition lawful_at {A} (c : A -> A -> comparison) x :=
  sym_at c x /\ congl_at c x /\ trans_at c x /\ congr_at c x.

Section Laws.
  Context {A : Type}.
  Implicit Type c : A -> A -> comparison.

  (* lexicographic lists *)
  Lemma lex_lawful c l : Forall (lawful_at c) l -> lawful_at (lex c) l.
  Proof.
    intros HF. repeat split.
    - (* sym *)
      induction HF as [|x l Hx _ IH]; intros [|y r]; cbn; auto.
      destruct Hx as (Hs & _). rewrite (Hs y).
      destruct (c y x); cbn; auto.
    - (* congl *)
      induction HF as [|x l Hx _ IH]; intros [|y r] [|z t]; cbn; try discriminate; auto.
      destruct Hx as (_ & Hc & _).
      destruct (c x y) eqn:E; try discriminate. intros Hr.
      rewrite (Hc y z E). destruct (c y z); auto.
    - (* trans *)
      induction HF as [|x l Hx _ IH]; intros [|y r] [|z t]; cbn; try discriminate; auto.
      destruct Hx as (_ & Hc & Ht & Hr).
      destruct (c x y) eqn:E; try discriminate.
      + intros H1. rewrite (Hc y z E). destruct (c y z); try discriminate; auto.
        intros H2. exact (IH r t H1 H2).
      + intros _. destruct (c y z) eqn:E2; try discriminate; intros H2.
        * rewrite <- (Hr y z E2), E. reflexivity.
        * rewrite (Ht y z E E2). reflexivity.
    - (* congr *)
      induction HF as [|x l Hx _ IH]; intros [|y r] [|z t]; cbn; try discriminate; auto.
      destruct Hx as (_ & _ & _ & Hr).
      destruct (c y z) eqn:E; try discriminate. intros H1.
      rewrite (Hr y z E). destruct (c x z); auto.
  Qed.

  (* first by c1, then (only among c1-equal elements) by c2 *)
  Lemma lex2_cond c1 c2 c x :
    (forall a b, c a b = match c1 a b with Eq => c2 a b | o => o end) ->
    lawful_at c1 x ->
    (forall y, c1 x y = Eq -> c2 x y = CompOpp (c2 y x)) ->
    (forall y z, c1 x y = Eq -> c1 y z = Eq -> c2 x y = Eq -> c2 x z = c2 y z) ->
    (forall y z, c1 x y = Eq -> c1 y z = Eq -> c2 x y = Lt -> c2 y z = Lt -> c2 x z = Lt) ->
    (forall y z, c1 x y = Eq -> c1 y z = Eq -> c2 y z = Eq -> c2 x y = c2 x z) ->
    lawful_at c x.
  Proof.
    intros Hc (S1 & L1 & T1 & R1) S2 L2 T2 R2. repeat split.
    - intros y. rewrite !Hc. pose proof (S1 y) as Hs.
      destruct (c1 x y) eqn:E.
      + destruct (c1 y x); try discriminate. apply S2; auto.
      + destruct (c1 y x); try discriminate. reflexivity.
      + destruct (c1 y x); try discriminate. reflexivity.
    - intros y z. rewrite !Hc.
      destruct (c1 x y) eqn:E; try discriminate. intros E2.
      rewrite (L1 y z E). destruct (c1 y z) eqn:E3; auto.
    - intros y z. rewrite !Hc.
      destruct (c1 x y) eqn:E; try discriminate.
      + intros E2. rewrite (L1 y z E).
        destruct (c1 y z) eqn:E3; try discriminate; auto.
        intros E4. apply (T2 y z); auto.
      + intros _. destruct (c1 y z) eqn:E3; try discriminate; intros E4.
        * rewrite <- (R1 y z E3), E. reflexivity.
        * rewrite (T1 y z E E3). reflexivity.
    - intros y z. rewrite !Hc.
      destruct (c1 y z) eqn:E; try discriminate. intros E2.
      rewrite (R1 y z E). destruct (c1 x z) eqn:E3; auto.
      apply R2; auto. rewrite (R1 y z E). exact E3.
  Qed.

  Lemma lex2_lawful c1 c2 c x :
    (forall a b, c a b = match c1 a b with Eq => c2 a b | o => o end) ->
    lawful_at c1 x -> lawful_at c2 x -> lawful_at c x.
  Proof.
    intros Hc H1 (S2 & L2 & T2 & R2).
    apply (lex2_cond c1 c2 c x Hc H1).
    - intros y _. apply S2.
    - intros y z _ _. apply L2.
    - intros y z _ _. apply T2.
    - intros y z _ _. apply R2.
  Qed.
End Laws.

(* pulling an order back along a function *)
Lemma pull_lawful {A B} (f : A -> B) (c : B -> B -> comparison) x :
  lawful_at c (f x) -> lawful_at (fun a b => c (f a) (f b)) x.
Proof.
  intros (S & L & T & R). repeat split.
  - intros y. apply S.
  - intros y z. apply L.
  - intros y z. apply T.
  - intros y z. apply R.
Qed.

Lemma lawful_ext {A} (c c' : A -> A -> comparison) x :
  (forall a b, c' a b = c a b) -> lawful_at c x -> lawful_at c' x.
Proof.
  intros E (S & L & T & R). repeat split.
  - intros y. rewrite !E. apply S.
  - intros y z. rewrite !E. apply L.
  - intros y z. rewrite !E. apply T.
  - intros y z. rewrite !E. apply R.
Qed.

Lemma Zcmp_lawful x : lawful_at Z.compare x.
Proof.
  repeat split.
  - intros y. apply Z.compare_antisym.
  - intros y z E. apply Z.compare_eq in E. subst. reflexivity.
  - intros y z. rewrite !Z.compare_lt_iff. lia.
  - intros y z E. apply Z.compare_eq in E. subst. reflexivity.
Qed.

Lemma Ncmp_lawful x : lawful_at N.compare x.
Proof.
  repeat split.
  - intros y. apply N.compare_antisym.
  - intros y z E. apply N.compare_eq in E. subst. reflexivity.
  - intros y z. rewrite !N.compare_lt_iff. lia.
  - intros y z E. apply N.compare_eq in E. subst. reflexivity.
Qed.

Lemma lexZ_lawful l : lawful_at (lex Z.compare) l.
Proof. apply lex_lawful. apply Forall_forall. intros; apply Zcmp_lawful. Qed.

Lemma bytes_cmp_lawful s : lawful_at bytes_cmp s.
Proof. apply lex_lawful. apply Forall_forall. intros; apply Ncmp_lawful. Qed.

Lemma lex_bytes_lawful l : lawful_at (lex bytes_cmp) l.
Proof. apply lex_lawful. apply Forall_forall. intros; apply bytes_cmp_lawful. Qed.

Lemma bool_cmp_lawful b : lawful_at bool_cmp b.
Proof.
  repeat split.
  - intros []; destruct b; reflexivity.
  - intros [] []; destruct b; cbn; congruence.
  - intros [] []; destruct b; cbn; congruence.
  - intros [] []; destruct b; cbn; congruence.
Qed.

(* consequences used by the property theorems *)
Lemma lawful_refl {A} (c : A -> A -> comparison) x : lawful_at c x -> c x x = Eq.
Proof.
  intros (S & _). pose proof (S x) as H. destruct (c x x); auto; discriminate.
Qed.

Lemma lawful_le_trans {A} (c : A -> A -> comparison) :
  (forall x, lawful_at c x) ->
  forall x y z, c x y <> Gt -> c y z <> Gt -> c x z <> Gt.
Proof.
  intros H x y z Hxy Hyz.
  destruct (H x) as (_ & L & T & R).
  destruct (c x y) eqn:E1; try congruence.
  - rewrite (L y z E1). exact Hyz.
  - destruct (c y z) eqn:E2; try congruence.
    + rewrite <- (R y z E2), E1. discriminate.
    + rewrite (T y z E1 E2). discriminate.
Qed.

(* ------------------------------------------------------------------ *)
(* lexicographic Eq is pointwise Eq *)
Lemma lex_eq_inv {A} (c : A -> A -> comparison) (P : A -> A -> Prop) :
  forall l1 l2,
    Forall (fun x => forall y, In y l2 -> c x y = Eq -> P x y) l1 ->
    lex c l1 l2 = Eq -> Forall2 P l1 l2.
Proof.
  induction l1 as [|x l1 IH]; intros [|y l2] HF; cbn; try discriminate; auto.
  inversion HF as [|? ? Hx Hl]; subst.
  destruct (c x y) eqn:E; try discriminate. intros Hr.
  constructor.
  - apply Hx; auto. left; reflexivity.
  - apply IH; auto. eapply Forall_impl; [|exact Hl]. cbn. intros a Ha b Hb. apply Ha. right; exact Hb.
Qed.

Lemma Forall2_eq {A} (l1 l2 : list A) : Forall2 eq l1 l2 -> l1 = l2.
Proof. induction 1; subst; auto. Qed.

Lemma lexZ_eq l1 l2 : lex Z.compare l1 l2 = Eq -> l1 = l2.
Proof.
  intros H. apply Forall2_eq. apply (lex_eq_inv Z.compare eq l1 l2); auto.
  apply Forall_forall. intros x _ y _ E. apply Z.compare_eq; exact E.
Qed.

Lemma bytes_cmp_eq s1 s2 : bytes_cmp s1 s2 = Eq -> s1 = s2.
Proof.
  intros H. apply Forall2_eq. apply (lex_eq_inv N.compare eq s1 s2); auto.
  apply Forall_forall. intros x _ y _ E. apply N.compare_eq; exact E.
Qed.

Lemma lex_bytes_eq l1 l2 : lex bytes_cmp l1 l2 = Eq -> l1 = l2.
Proof.
  intros H. apply Forall2_eq. apply (lex_eq_inv bytes_cmp eq l1 l2); auto.
  apply Forall_forall. intros x _ y _ E. apply bytes_cmp_eq; exact E.
Qed.

(* ------------------------------------------------------------------ *)
(* i64 as f64: the key is monotone *)

Lemma rne_bounds m s : 0 <= m -> 0 < s -> m / 2 ^ s <= rne m s <= m / 2 ^ s + 1.
Proof. intros _ _. unfold rne. destruct (_ || _); lia. Qed.

Lemma rne_mono m m' s : 0 < s -> 0 <= m <= m' -> rne m s <= rne m' s.
Proof.
  intros Hs Hm. unfold rne.
  assert (HP : 0 < 2 ^ s) by (apply Z.pow_pos_nonneg; lia).
  set (P := 2 ^ s) in *. set (h := 2 ^ (s - 1)).
  pose proof (Z.div_le_mono m m' P HP (proj2 Hm)) as Hq.
  pose proof (Z.div_mod m P ltac:(lia)) as E1.
  pose proof (Z.div_mod m' P ltac:(lia)) as E2.
  pose proof (Z.mod_pos_bound m P HP) as B1.
  pose proof (Z.mod_pos_bound m' P HP) as B2.
  set (q := m / P) in *. set (q' := m' / P) in *.
  set (r := m mod P) in *. set (r' := m' mod P) in *.
  destruct (Z.eq_dec q q') as [Eq|Nq].
  - (* same quotient: remainders ordered *)
    rewrite <- Eq in *. assert (r <= r') by nia.
    destruct (h <? r) eqn:A1; destruct (h <? r') eqn:A2; cbn [orb];
      try (destruct (r =? h) eqn:A3); try (destruct (r' =? h) eqn:A4); cbn [andb];
      try (destruct (Z.odd q)); lia.
  - assert (q + 1 <= q') by lia.
    destruct (_ || _); destruct (_ || _); lia.
Qed.

Definition sig53 (m : Z) : Z :=
  let e := Z.log2 m in if e <=? 52 then m * 2 ^ (52 - e) else rne m (e - 52).

Lemma mag_key_sig m : mag_key m = (Z.log2 m + 1022) * two52 + sig53 m.
Proof. reflexivity. Qed.

Lemma two52_pow : two52 = 2 ^ 52.
Proof. reflexivity. Qed.

Lemma sig53_bounds m : 1 <= m -> two52 <= sig53 m <= 2 * two52.
Proof.
  intros Hm. unfold sig53.
  destruct (Z.log2_spec m ltac:(lia)) as [Hlo Hhi].
  pose proof (Z.log2_nonneg m) as He.
  set (e := Z.log2 m) in *.
  rewrite Z.pow_succ_r in Hhi by lia.
  destruct (Z.leb_spec e 52) as [Hle|Hgt].
  - assert (HP : 0 < 2 ^ (52 - e)) by (apply Z.pow_pos_nonneg; lia).
    assert (Hsplit : 2 ^ e * 2 ^ (52 - e) = two52).
    { rewrite <- Z.pow_add_r by lia. rewrite two52_pow. f_equal. lia. }
    nia.
  - assert (HP : 0 < 2 ^ (e - 52)) by (apply Z.pow_pos_nonneg; lia).
    assert (Hsplit : two52 * 2 ^ (e - 52) = 2 ^ e).
    { rewrite two52_pow, <- Z.pow_add_r by lia. f_equal. lia. }
    pose proof (rne_bounds m (e - 52) ltac:(lia) ltac:(lia)) as Hr.
    assert (two52 <= m / 2 ^ (e - 52)) by (apply Z.div_le_lower_bound; nia).
    assert (m / 2 ^ (e - 52) < 2 * two52) by (apply Z.div_lt_upper_bound; nia).
    lia.
Qed.

Lemma mag_key_mono m m' : 1 <= m <= m' -> mag_key m <= mag_key m'.
Proof.
  intros Hm. rewrite !mag_key_sig.
  pose proof (sig53_bounds m ltac:(lia)) as B1.
  pose proof (sig53_bounds m' ltac:(lia)) as B2.
  pose proof (Z.log2_le_mono m m' ltac:(lia)) as Hl.
  destruct (Z.eq_dec (Z.log2 m) (Z.log2 m')) as [E|N].
  - assert (sig53 m <= sig53 m'); [|unfold two52 in *; lia].
    unfold sig53. rewrite <- E.
    pose proof (Z.log2_nonneg m) as He.
    destruct (Z.leb_spec (Z.log2 m) 52).
    + assert (0 < 2 ^ (52 - Z.log2 m)) by (apply Z.pow_pos_nonneg; lia). nia.
    + apply rne_mono; lia.
  - unfold two52 in *. lia.
Qed.

Lemma mag_key_pos m : 1 <= m -> 0 < mag_key m.
Proof.
  intros Hm. rewrite mag_key_sig.
  pose proof (sig53_bounds m Hm). pose proof (Z.log2_nonneg m). unfold two52 in *. lia.
Qed.

Lemma int_key_mono a b : a <= b -> int_key a <= int_key b.
Proof.
  intros H. unfold int_key.
  destruct (Z.eqb_spec a 0), (Z.eqb_spec b 0), (Z.ltb_spec 0 a), (Z.ltb_spec 0 b); try lia.
  - pose proof (mag_key_pos b). lia.
  - pose proof (mag_key_pos (- a)). lia.
  - apply mag_key_mono. lia.
  - pose proof (mag_key_pos b). pose proof (mag_key_pos (- a)). lia.
  - pose proof (mag_key_mono (- b) (- a)). lia.
Qed.

(* the bit pattern i2f_bits is a finite float whose numeric key is int_key *)
Lemma int_key_bound a : in_i64 a = true -> - inf_bits < int_key a < inf_bits.
Proof.
  unfold in_i64. rewrite andb_true_iff, Z.leb_le, Z.ltb_lt. intros [Hlo Hhi].
  assert (B : forall m, 1 <= m <= two63 -> mag_key m < inf_bits).
  { intros m Hm. rewrite mag_key_sig. pose proof (sig53_bounds m ltac:(lia)).
    assert (Z.log2 m <= 63).
    { change 63 with (Z.log2 two63). apply Z.log2_le_mono. lia. }
    unfold two52, inf_bits in *. lia. }
  unfold int_key.
  destruct (Z.eqb_spec a 0); [unfold inf_bits; lia|].
  destruct (Z.ltb_spec 0 a).
  - pose proof (B a ltac:(lia)). pose proof (mag_key_pos a ltac:(lia)). lia.
  - pose proof (B (- a) ltac:(lia)). pose proof (mag_key_pos (- a) ltac:(lia)). lia.
Qed.

Ltac float_unfold :=
  unfold cmp_int_float, cmp_float_int, f_total_cmp, f_partial_cmp, f_is_nan, tc_key, num_key,
    f_mag, f_sign, then_ in *.

Ltac Zify.zify_post_hook ::= Z.div_mod_to_equations.

Lemma i2f_bits_key a :
  in_i64 a = true ->
  f_is_nan (i2f_bits a) = false /\ num_key (i2f_bits a) = int_key a /\
  0 <= i2f_bits a < two64.
Proof.
  intros H. pose proof (int_key_bound a H) as B. unfold i2f_bits.
  set (k := int_key a) in *. float_unfold. unfold two63, two64, inf_bits in *.
  destruct (Z.ltb_spec k 0).
  - rewrite (Z.mod_small (9223372036854775808 - k)) by lia.
    destruct (Z.leb_spec 9223372036854775808 (9223372036854775808 - k)); try lia.
    destruct (Z.ltb_spec 9218868437227405312 (9223372036854775808 - k - 9223372036854775808)); lia.
  - rewrite (Z.mod_small k) by lia.
    destruct (Z.leb_spec 9223372036854775808 k); try lia.
    destruct (Z.ltb_spec 9218868437227405312 k); lia.
Qed.

(* the Integer x Float arm of the code, literally: the integer is converted, then partial_cmp *)
Lemma cmp_int_float_code a b :
  in_i64 a = true ->
  cmp_int_float a b =
  match f_partial_cmp (i2f_bits a) b with
  | Some o => then_ o Lt
  | None => if f_sign b then Gt else Lt
  end.
Proof.
  intros H. destruct (i2f_bits_key a H) as (Hn & Hk & _).
  unfold cmp_int_float, f_partial_cmp. rewrite Hn, Hk. cbn [orb].
  destruct (f_is_nan b); reflexivity.
Qed.

Lemma cmp_float_int_code a b :
  in_i64 b = true ->
  cmp_float_int a b =
  match f_partial_cmp a (i2f_bits b) with
  | Some o => then_ o Gt
  | None => if f_sign a then Lt else Gt
  end.
Proof.
  intros H. destruct (i2f_bits_key b H) as (Hn & Hk & _).
  unfold cmp_float_int, f_partial_cmp. rewrite Hn, Hk, orb_false_r.
  destruct (f_is_nan a); reflexivity.
Qed.
