(* Proofs about the RESP model (model/Resp.v). *)
From Coq Require Import List NArith ZArith Bool Lia ZifyBool ZifyNat ZifyN.
From Coq Require Import DecimalN DecimalPos.
From Verif Require Import CheckLib Resp.
Import ListNotations.
Open Scope N_scope.

(* ================================================================== *)
(* small facts                                                        *)

Lemma eqb_eq_N (a b : N) : (a =? b) = true <-> a = b.
Proof. apply N.eqb_eq. Qed.

Lemma san_not_cr x : san x <> 13 /\ san x <> 10.
Proof.
  unfold san. destruct (x =? 13) eqn:E1; destruct (x =? 10) eqn:E2; cbn; try lia.
Qed.

Lemma san_id x : x <> 13 -> x <> 10 -> san x = x.
Proof.
  intros H1 H2. unfold san.
  destruct (x =? 13) eqn:E1; [lia|]. destruct (x =? 10) eqn:E2; [lia|]. reflexivity.
Qed.

Lemma map_san_clean s : clean_line s -> map san s = s.
Proof.
  induction 1 as [|x s [H1 H2] _ IH]; cbn; [reflexivity|].
  rewrite san_id by assumption. now rewrite IH.
Qed.

Lemma clean_map_san s : clean_line (map san s).
Proof. induction s as [|x s IH]; cbn; constructor; auto using san_not_cr. Qed.

(* ---------- UTF-8 ---------- *)
Lemma ustep_cr s : ustep s 13 = ustep s 32.
Proof. destruct s; reflexivity. Qed.
Lemma ustep_lf s : ustep s 10 = ustep s 32.
Proof. destruct s; reflexivity. Qed.

Lemma urun_san s l : urun s (map san l) = urun s l.
Proof.
  revert s; induction l as [|x l IH]; intros s; [reflexivity|].
  cbn [map urun]. unfold san at 1.
  destruct (x =? 13) eqn:E1.
  - apply N.eqb_eq in E1; subst x. cbn [orb]. rewrite ustep_cr.
    destruct (ustep s 32); [apply IH|reflexivity].
  - destruct (x =? 10) eqn:E2.
    + apply N.eqb_eq in E2; subst x. cbn [orb]. rewrite ustep_lf.
      destruct (ustep s 32); [apply IH|reflexivity].
    + cbn [orb]. destruct (ustep s x); [apply IH|reflexivity].
Qed.

Lemma utf8_san l : utf8_valid (map san l) = utf8_valid l.
Proof. apply urun_san. Qed.

Lemma utf8_ascii l : Forall (fun x => x <= 127) l -> utf8_valid l = true.
Proof.
  unfold utf8_valid. induction 1 as [|x l H _ IH]; [reflexivity|].
  cbn [urun ustep]. apply N.leb_le in H. now rewrite H.
Qed.

(* ---------- decimal text ---------- *)
Definition is_digit (x : N) : Prop := 48 <= x <= 57.

Lemma bytes_uint_of u : bytes_uint (uint_bytes u) = Some u.
Proof. induction u; cbn [uint_bytes bytes_uint]; try rewrite IHu; reflexivity. Qed.

Lemma uint_bytes_digits u : Forall is_digit (uint_bytes u).
Proof. induction u; cbn [uint_bytes]; constructor; auto; unfold is_digit; lia. Qed.

Lemma uint_bytes_nonnil u : u <> Decimal.Nil -> uint_bytes u <> [].
Proof. destruct u; cbn; congruence. Qed.

Lemma N_to_uint_nonnil n : N.to_uint n <> Decimal.Nil.
Proof.
  destruct n; cbn; [discriminate|]. apply DecimalPos.Unsigned.to_uint_nonnil.
Qed.

Lemma dec_N_nonnil n : dec_N n <> [].
Proof. apply uint_bytes_nonnil, N_to_uint_nonnil. Qed.

Lemma dec_N_digits n : Forall is_digit (dec_N n).
Proof. apply uint_bytes_digits. Qed.

Lemma digits_dec_N n : digits (dec_N n) = Some n.
Proof.
  unfold digits. pose proof (dec_N_nonnil n) as Hn.
  destruct (dec_N n) eqn:E; [congruence|]. rewrite <- E. unfold dec_N.
  rewrite bytes_uint_of. now rewrite DecimalN.Unsigned.of_to.
Qed.

Lemma dec_N_head n : exists x t, dec_N n = x :: t /\ is_digit x.
Proof.
  pose proof (dec_N_nonnil n) as Hn. pose proof (dec_N_digits n) as Hd.
  destruct (dec_N n) as [|x t]; [congruence|]. inversion Hd; subst. eauto.
Qed.

Lemma parse_i64_dec z : (I64_MIN <= z <= I64_MAX)%Z -> parse_i64 (dec_Z z) = Some z.
Proof.
  intros Hz. unfold dec_Z. destruct (z <? 0)%Z eqn:Es.
  - cbn [parse_i64]. change (45 =? 45) with true. cbv iota.
    rewrite digits_dec_N. rewrite Z2N.id by lia.
    replace (- - z)%Z with z by lia.
    destruct (I64_MIN <=? z)%Z eqn:E; [reflexivity|lia].
  - destruct (dec_N_head (Z.to_N z)) as (x & t & E & Hx). unfold parse_i64. rewrite E.
    unfold is_digit in Hx.
    destruct (x =? 45) eqn:E1; [lia|]. destruct (x =? 43) eqn:E2; [lia|].
    rewrite <- E, digits_dec_N. unfold upto. rewrite Z2N.id by lia.
    destruct (z <=? I64_MAX)%Z eqn:E3; [reflexivity|lia].
Qed.

Lemma parse_i64_dec_nat n :
  (Z.of_nat n <= I64_MAX)%Z -> parse_i64 (dec_nat n) = Some (Z.of_nat n).
Proof.
  intros H. pose proof (parse_i64_dec (Z.of_nat n)) as P. unfold dec_Z in P.
  destruct (Z.of_nat n <? 0)%Z eqn:E; [lia|].
  unfold dec_nat. replace (N.of_nat n) with (Z.to_N (Z.of_nat n)) by lia.
  apply P. unfold I64_MIN. lia.
Qed.

Lemma parse_usize_dec_nat n :
  (Z.of_nat n <= USIZE_MAX)%Z -> parse_usize (dec_nat n) = Some (Z.of_nat n).
Proof.
  intros H. unfold dec_nat.
  destruct (dec_N_head (N.of_nat n)) as (x & t & E & Hx). unfold parse_usize. rewrite E.
  unfold is_digit in Hx. destruct (x =? 43) eqn:E2; [lia|].
  rewrite <- E, digits_dec_N. unfold upto.
  replace (Z.of_N (N.of_nat n)) with (Z.of_nat n) by lia.
  destruct (Z.of_nat n <=? USIZE_MAX)%Z eqn:E3; [reflexivity|lia].
Qed.

Lemma upto_range m o z : upto m o = Some z -> (0 <= z <= m)%Z.
Proof.
  unfold upto. destruct o as [n|]; [|discriminate].
  destruct (Z.of_N n <=? m)%Z eqn:E; [|discriminate]. intros [= <-]. lia.
Qed.

Lemma parse_i64_range l z : parse_i64 l = Some z -> (I64_MIN <= z <= I64_MAX)%Z.
Proof.
  unfold parse_i64. destruct l as [|x t]; [discriminate|].
  destruct (x =? 45).
  - destruct (digits t) as [n|]; [|discriminate].
    destruct (I64_MIN <=? - Z.of_N n)%Z eqn:E; [|discriminate]. intros [= <-].
    unfold I64_MAX. lia.
  - destruct (x =? 43); intros H; apply upto_range in H; unfold I64_MIN; lia.
Qed.

Lemma parse_usize_range l z : parse_usize l = Some z -> (0 <= z <= USIZE_MAX)%Z.
Proof.
  unfold parse_usize. destruct l as [|x t]; [discriminate|].
  destruct (x =? 43); apply upto_range.
Qed.

Lemma digit_ascii l : Forall is_digit l -> Forall (fun x => x <= 127) l.
Proof. apply Forall_impl. unfold is_digit. intros; lia. Qed.

Lemma digit_no_cr l : Forall is_digit l -> Forall (fun x => x <> 13) l.
Proof. apply Forall_impl. unfold is_digit. intros; lia. Qed.

Lemma dec_Z_ok z : Forall (fun x => x <= 127 /\ x <> 13) (dec_Z z).
Proof.
  unfold dec_Z. destruct (z <? 0)%Z.
  - constructor; [lia|]. eapply Forall_impl; [|apply dec_N_digits]. unfold is_digit; intros; lia.
  - eapply Forall_impl; [|apply dec_N_digits]. unfold is_digit; intros; lia.
Qed.

Lemma dec_nat_ok n : Forall (fun x => x <= 127 /\ x <> 13) (dec_nat n).
Proof.
  unfold dec_nat. eapply Forall_impl; [|apply dec_N_digits]. unfold is_digit; intros; lia.
Qed.

(* ---------- lines ---------- *)
Lemma nocrlf_no_cr l : Forall (fun x => x <> 13) l -> nocrlf l = true.
Proof.
  induction 1 as [|x l H _ IH]; [reflexivity|].
  cbn [nocrlf]. destruct l as [|y l']; [reflexivity|].
  rewrite IH. destruct (x =? 13) eqn:E; [lia|]. reflexivity.
Qed.

Lemma split_line_app l r : nocrlf l = true -> split_line (l ++ 13 :: 10 :: r) = Some (l, r).
Proof.
  induction l as [|x l IH]; intros H.
  - reflexivity.
  - cbn [app split_line]. destruct l as [|y l'].
    + cbn [app]. destruct (x =? 13) eqn:E.
      * cbn. reflexivity.
      * cbn [andb]. cbn. reflexivity.
    + cbn [nocrlf] in H. apply andb_true_iff in H as [H1 H2].
      cbn [app]. cbn [app] in IH. apply negb_true_iff in H1. rewrite H1.
      rewrite IH by assumption. reflexivity.
Qed.

Lemma split_line_spec b l r :
  split_line b = Some (l, r) -> b = l ++ 13 :: 10 :: r /\ nocrlf l = true.
Proof.
  revert l r; induction b as [|x t IH]; intros l r H; [discriminate|].
  cbn [split_line] in H. destruct t as [|y t']; [discriminate|].
  destruct ((x =? 13) && (y =? 10)) eqn:E.
  - injection H as <- <-. apply andb_true_iff in E as [E1 E2].
    apply N.eqb_eq in E1, E2. subst. split; reflexivity.
  - destruct (split_line (y :: t')) as [[l' r']|] eqn:E'; [|discriminate].
    injection H as <- <-. destruct (IH _ _ eq_refl) as [Hb Hn]. split.
    + cbn [app]. f_equal. exact Hb.
    + cbn [nocrlf]. destruct l' as [|z l'']; [reflexivity|].
      cbn [app] in Hb. injection Hb as -> _. rewrite E. exact Hn.
Qed.

(* a strict prefix of "line CRLF" has no complete line *)
Lemma split_line_strict_prefix l : nocrlf l = true ->
  forall p t, p ++ t = l ++ [13; 10] -> t <> [] -> split_line p = None.
Proof.
  induction l as [|x l IH]; intros Hl p t E Ht.
  - destruct p as [|a [|b p']]; try reflexivity.
    cbn in E. injection E as -> -> E. destruct p'; [|discriminate]. cbn in E. congruence.
  - destruct p as [|a p']; [reflexivity|].
    cbn [app] in E. injection E as -> E.
    assert (Hl' : nocrlf l = true).
    { cbn [nocrlf] in Hl. destruct l; [reflexivity|]. now apply andb_true_iff in Hl. }
    specialize (IH Hl' p' t E Ht).
    cbn [split_line]. destruct p' as [|b p'']; [reflexivity|].
    rewrite IH.
    destruct l as [|y l'].
    + cbn in E. injection E as -> E. destruct (x =? 13); reflexivity.
    + cbn [app] in E. injection E as -> E. cbn [nocrlf] in Hl.
      apply andb_true_iff in Hl as [H1 _]. apply negb_true_iff in H1. now rewrite H1.
Qed.

(* ================================================================== *)
(* one unfolding of parse, with the recursive call abstracted          *)

Definition tagged (mb : Z) (rec : option (bytes -> pres)) (c : N) (l r : bytes) : pres :=
  if c =? 43 then (if utf8_valid l then PDone (SStr l) r else PFail EEnc r)
  else if c =? 45 then (if utf8_valid l then PDone (RErr l) r else PFail EEnc r)
  else if c =? 58 then
    (if utf8_valid l then
       match parse_i64 l with
       | Some z => PDone (RInt z) r
       | None => PFail EProto r
       end
     else PFail EEnc r)
  else if c =? 36 then parse_bulk mb l r
  else if c =? 42 then
    (if utf8_valid l then
       match parse_usize l with
       | None => PFail EProto r
       | Some n =>
           match rec with
           | None => PFail EProto r
           | Some p => elems p (S (length r)) (Z.to_N n) r []
           end
       end
     else PFail EEnc r)
  else match l with [] => PDone RNull r | _ => PFail EProto r end.

Definition parse_step (mb : Z) (rec : option (bytes -> pres)) (b : bytes) : pres :=
  match b with
  | [] => PMore false
  | c :: t =>
      if is_tag c then
        match split_line t with
        | None => PMore false
        | Some (l, r) => tagged mb rec c l r
        end
      else
        match split_line b with
        | None => PMore false
        | Some (l, r) => parse_inline l r
        end
  end.

Definition recd (mb : Z) (d : nat) : option (bytes -> pres) :=
  match d with O => None | S d' => Some (parse mb d') end.

Lemma parse_eq mb d b : parse mb d b = parse_step mb (recd mb d) b.
Proof. destruct d; reflexivity. Qed.

Lemma parse_tag_line mb d c l r :
  is_tag c = true -> nocrlf l = true ->
  parse mb d (c :: l ++ 13 :: 10 :: r) = tagged mb (recd mb d) c l r.
Proof.
  intros Hc Hl. rewrite parse_eq. unfold parse_step. rewrite Hc.
  now rewrite split_line_app.
Qed.

(* ================================================================== *)
(* induction principle for values                                      *)

Fixpoint rv_ind' (P : rv -> Prop)
  (Hs : forall s, P (SStr s)) (He : forall s, P (RErr s)) (Hi : forall z, P (RInt z))
  (Hb : forall o, P (Bulk o)) (Ha : forall l, Forall P l -> P (Arr l)) (Hn : P RNull)
  (v : rv) : P v :=
  match v with
  | SStr s => Hs s
  | RErr s => He s
  | RInt z => Hi z
  | Bulk o => Hb o
  | Arr l => Ha l ((fix go (l : list rv) : Forall P l :=
                      match l with
                      | [] => Forall_nil P
                      | x :: t => Forall_cons x (rv_ind' P Hs He Hi Hb Ha Hn x) (go t)
                      end) l)
  | RNull => Hn
  end.

Lemma repr_arr mb l :
  repr mb (Arr l) <-> (Z.of_nat (length l) <= USIZE_MAX)%Z /\ Forall (repr mb) l.
Proof.
  cbn [repr]. split; intros [H1 H2]; split; auto.
  - induction l as [|x t IH]; constructor; destruct H2 as [Hx Ht]; auto.
    apply IH; [cbn [length] in H1; lia|exact Ht].
  - clear H1. induction H2 as [|x t Hx _ IH]; [exact I|split; assumption].
Qed.

Lemma clean_arr l : clean (Arr l) <-> Forall clean l.
Proof.
  cbn [clean]. split; intros H.
  - induction l as [|x t IH]; constructor; destruct H as [Hx Ht]; auto.
  - induction H as [|x t Hx _ IH]; [exact I|split; assumption].
Qed.

Lemma depth_arr l d : (depth (Arr l) <= S d)%nat <-> Forall (fun x => (depth x <= d)%nat) l.
Proof.
  cbn [depth]. rewrite <- Forall_map with (f := depth) (P := fun k => (k <= d)%nat).
  rewrite <- list_max_le. lia.
Qed.

Lemma sanitize_clean v : clean v -> sanitize v = v.
Proof.
  induction v as [s|s|z|o|l IH|] using rv_ind'; intros H; cbn [sanitize]; try reflexivity.
  - cbn in H. now rewrite map_san_clean.
  - cbn in H. now rewrite map_san_clean.
  - apply clean_arr in H. f_equal.
    induction l as [|x t IHt]; [reflexivity|].
    inversion IH; subst. inversion H; subst. cbn [map]. f_equal; auto.
Qed.

Lemma encode_nonnil v : encode v <> [].
Proof. destruct v as [s|s|z|[d|]|l|]; cbn; discriminate. Qed.

Lemma flat_encode_length l : (length l <= length (flat_map encode l))%nat.
Proof.
  induction l as [|x t IH]; [cbn; lia|].
  cbn [flat_map length]. rewrite app_length.
  pose proof (encode_nonnil x). destruct (encode x); [congruence|cbn [length]; lia].
Qed.

(* ================================================================== *)
(* round trip                                                          *)

Lemma elems_roundtrip (p : bytes -> pres) l :
  Forall (fun v => forall r, p (encode v ++ r) = PDone (sanitize v) r) l ->
  forall acc fuel r, (length l <= fuel)%nat ->
  elems p fuel (N.of_nat (length l)) (flat_map encode l ++ r) acc
  = PDone (Arr (rev acc ++ map sanitize l)) r.
Proof.
  induction 1 as [|v l Hv _ IH]; intros acc fuel r Hf.
  - destruct fuel; cbn; now rewrite app_nil_r.
  - cbn [length] in *. destruct fuel as [|f]; [lia|].
    cbn [elems]. destruct (N.of_nat (S (length l)) =? 0) eqn:E; [lia|].
    cbn [flat_map]. rewrite <- app_assoc. rewrite Hv.
    replace (N.pred (N.of_nat (S (length l)))) with (N.of_nat (length l)) by lia.
    rewrite IH by lia. cbn [rev map]. now rewrite <- app_assoc.
Qed.

Definition mb_ok (mb : Z) : Prop := (0 <= mb <= I64_MAX)%Z.

Lemma line_payload_ok l : Forall (fun x => x <= 127 /\ x <> 13) l ->
  nocrlf l = true /\ utf8_valid l = true.
Proof.
  intros H. split.
  - apply nocrlf_no_cr. eapply Forall_impl; [|exact H]. now intros x [_ ?].
  - apply utf8_ascii. eapply Forall_impl; [|exact H]. now intros x [? _].
Qed.

Lemma roundtrip mb : mb_ok mb -> forall v d r,
  repr mb v -> (depth v <= d)%nat ->
  parse mb d (encode v ++ r) = PDone (sanitize v) r.
Proof.
  intros Hmb v.
  induction v as [s|s|z|o|l IH|] using rv_ind'; intros d r Hr Hd.
  - (* SStr *)
    cbn [encode sanitize]. cbn [app]. rewrite <- app_assoc. cbn [crlf app].
    rewrite parse_tag_line; [|reflexivity|].
    + unfold tagged. change (43 =? 43) with true. cbv iota.
      rewrite utf8_san. cbn in Hr. now rewrite Hr.
    + apply nocrlf_no_cr. eapply Forall_impl; [|apply clean_map_san]. now intros x [? _].
  - (* RErr *)
    cbn [encode sanitize]. cbn [app]. rewrite <- app_assoc. cbn [crlf app].
    rewrite parse_tag_line; [|reflexivity|].
    + unfold tagged. change (45 =? 43) with false. change (45 =? 45) with true. cbv iota.
      rewrite utf8_san. cbn in Hr. now rewrite Hr.
    + apply nocrlf_no_cr. eapply Forall_impl; [|apply clean_map_san]. now intros x [? _].
  - (* RInt *)
    cbn [encode sanitize]. cbn [app]. rewrite <- app_assoc. cbn [crlf app].
    destruct (line_payload_ok _ (dec_Z_ok z)) as [H1 H2].
    rewrite parse_tag_line; [|reflexivity|exact H1].
    unfold tagged. change (58 =? 43) with false. change (58 =? 45) with false.
    change (58 =? 58) with true. cbv iota. rewrite H2.
    cbn in Hr. now rewrite parse_i64_dec.
  - (* Bulk *)
    destruct o as [dd|].
    + cbn [encode sanitize]. cbn [app]. rewrite <- !app_assoc. cbn [crlf app].
      destruct (line_payload_ok _ (dec_nat_ok (length dd))) as [H1 H2].
      rewrite parse_tag_line; [|reflexivity|exact H1].
      unfold tagged. change (36 =? 43) with false. change (36 =? 45) with false.
      change (36 =? 58) with false. change (36 =? 36) with true. cbv iota.
      unfold parse_bulk. rewrite H2.
      cbn [repr] in Hr. unfold zlen in Hr. unfold mb_ok in Hmb.
      rewrite parse_i64_dec_nat by lia.
      destruct (Z.of_nat (length dd) =? -1)%Z eqn:E1; [lia|].
      destruct (Z.of_nat (length dd) <? 0)%Z eqn:E2; [lia|].
      destruct (mb <? Z.of_nat (length dd))%Z eqn:E3; [lia|]. cbn [orb].
      destruct (USIZE_MAX <? Z.of_nat (length dd) + 2)%Z eqn:E4;
        [unfold USIZE_MAX, I64_MAX in *; lia|].
      rewrite app_length. cbn [length].
      destruct (Z.of_nat (length dd + S (S (length r))) <? Z.of_nat (length dd) + 2)%Z eqn:E5; [lia|].
      rewrite Nat2Z.id.
      rewrite skipn_app, skipn_all, Nat.sub_diag. cbn [skipn app].
      change (13 =? 13) with true. change (10 =? 10) with true. cbn [andb].
      rewrite firstn_app, firstn_all, Nat.sub_diag. cbn [firstn]. now rewrite app_nil_r.
    + cbn [encode sanitize app].
      change (36 :: 45 :: 49 :: 13 :: 10 :: r) with (36 :: [45; 49] ++ 13 :: 10 :: r).
      rewrite parse_tag_line; reflexivity.
  - (* Arr *)
    cbn [encode sanitize]. cbn [app]. rewrite <- !app_assoc. cbn [crlf app].
    destruct (line_payload_ok _ (dec_nat_ok (length l))) as [H1 H2].
    rewrite parse_tag_line; [|reflexivity|exact H1].
    unfold tagged. change (42 =? 43) with false. change (42 =? 45) with false.
    change (42 =? 58) with false. change (42 =? 36) with false.
    change (42 =? 42) with true. cbv iota. rewrite H2.
    apply repr_arr in Hr as [Hlen Hall].
    rewrite parse_usize_dec_nat by exact Hlen.
    destruct d as [|d']; [cbn [depth] in Hd; lia|]. cbn [recd].
    apply depth_arr in Hd.
    replace (Z.to_N (Z.of_nat (length l))) with (N.of_nat (length l)) by lia.
    rewrite elems_roundtrip.
    + reflexivity.
    + rewrite Forall_forall in *. intros v Hv r'. apply IH; auto.
    + rewrite app_length. pose proof (flat_encode_length l). lia.
  - (* RNull *)
    cbn [encode sanitize app].
    change (95 :: 13 :: 10 :: r) with (95 :: [] ++ 13 :: 10 :: r).
    rewrite parse_tag_line; reflexivity.
Qed.

(* ================================================================== *)
(* safety and progress: every outcome is a value / more / error, and    *)
(* what is left is a suffix of the input                                *)

Definition suffix_res (r : bytes) (res : pres) : Prop :=
  match res with
  | PDone _ r' | PFail _ r' => exists pre, r = pre ++ r'
  | PMore _ => True
  | PPanic | PAbort => False
  end.

Definition good_res (b : bytes) (res : pres) : Prop :=
  match res with
  | PDone _ r => exists pre, b = pre ++ r /\ (3 <= length pre)%nat
  | PFail _ r => exists pre, b = pre ++ r /\ (2 <= length pre)%nat
  | PMore _ => True
  | PPanic | PAbort => False
  end.

Definition good (p : bytes -> pres) : Prop := forall b, good_res b (p b).

Lemma suffix_refl r : exists pre : bytes, r = pre ++ r.
Proof. now exists []. Qed.

Lemma parse_bulk_suffix mb l r : suffix_res r (parse_bulk mb l r).
Proof.
  unfold parse_bulk. destruct (utf8_valid l); [|apply suffix_refl].
  destruct (parse_i64 l) as [n|] eqn:En; [|apply suffix_refl].
  apply parse_i64_range in En.
  destruct (n =? -1)%Z; [apply suffix_refl|].
  destruct ((n <? 0)%Z || (mb <? n)%Z) eqn:E1; [apply suffix_refl|].
  apply orb_false_iff in E1 as [E1 _].
  destruct (USIZE_MAX <? n + 2)%Z eqn:E2; [unfold USIZE_MAX, I64_MAX in *; lia|].
  destruct (Z.of_nat (length r) <? n + 2)%Z eqn:E3; [exact I|].
  pose proof (firstn_skipn (Z.to_nat n) r) as Hfs.
  pose proof (skipn_length (Z.to_nat n) r) as Hlen.
  destruct (skipn (Z.to_nat n) r) as [|x [|y r']] eqn:Es; cbn [length] in Hlen; try lia.
  destruct ((x =? 13) && (y =? 10)).
  - exists (firstn (Z.to_nat n) r ++ [x; y]). rewrite <- app_assoc. cbn [app]. now symmetry.
  - exists (firstn (Z.to_nat n) r). now symmetry.
Qed.

Lemma elems_suffix p : good p -> forall fuel n r acc,
  (length r < fuel)%nat -> suffix_res r (elems p fuel n r acc).
Proof.
  intros Hp fuel; induction fuel as [|f IH]; intros n r acc Hf; [lia|].
  cbn [elems]. destruct (n =? 0); [apply suffix_refl|].
  pose proof (Hp r) as Hg. destruct (p r) as [v r'|k|e r'| |]; cbn in Hg |- *; try tauto.
  - destruct Hg as (pre & -> & Hpre). rewrite app_length in Hf.
    specialize (IH (N.pred n) r' (v :: acc)). 
    destruct (elems p f (N.pred n) r' (v :: acc)) as [v2 r2|k2|e2 r2| |]; cbn in IH |- *;
      try (apply IH; lia).
    + destruct IH as [pre2 ->]; [lia|]. exists (pre ++ pre2). now rewrite app_assoc.
    + destruct IH as [pre2 ->]; [lia|]. exists (pre ++ pre2). now rewrite app_assoc.
  - destruct Hg as (pre & -> & _). now exists pre.
Qed.

Lemma tagged_suffix mb rec c l r :
  (forall p, rec = Some p -> good p) -> suffix_res r (tagged mb rec c l r).
Proof.
  intros Hrec. unfold tagged.
  destruct (c =? 43). { destruct (utf8_valid l); apply suffix_refl. }
  destruct (c =? 45). { destruct (utf8_valid l); apply suffix_refl. }
  destruct (c =? 58).
  { destruct (utf8_valid l); [|apply suffix_refl]. destruct (parse_i64 l); apply suffix_refl. }
  destruct (c =? 36). { apply parse_bulk_suffix. }
  destruct (c =? 42).
  { destruct (utf8_valid l); [|apply suffix_refl].
    destruct (parse_usize l); [|apply suffix_refl].
    destruct rec as [p|]; [|apply suffix_refl].
    apply elems_suffix; [now apply Hrec|lia]. }
  destruct l; apply suffix_refl.
Qed.

Lemma inline_tokens_nil : inline_tokens [] = Some [].
Proof. reflexivity. Qed.

Lemma parse_step_good mb rec :
  (forall p, rec = Some p -> good p) -> good (parse_step mb rec).
Proof.
  intros Hrec b. unfold parse_step. destruct b as [|c t]; [exact I|].
  destruct (is_tag c).
  - destruct (split_line t) as [[l r]|] eqn:Es; [|exact I].
    apply split_line_spec in Es as [-> _].
    pose proof (tagged_suffix mb rec c l r Hrec) as Hs.
    destruct (tagged mb rec c l r) as [v r'|k|e r'| |]; cbn in Hs |- *; try tauto.
    + destruct Hs as [pre ->]. exists (c :: l ++ 13 :: 10 :: pre). split.
      * cbn [app]. rewrite <- app_assoc. reflexivity.
      * cbn [length]. rewrite app_length. cbn [length]. lia.
    + destruct Hs as [pre ->]. exists (c :: l ++ 13 :: 10 :: pre). split.
      * cbn [app]. rewrite <- app_assoc. reflexivity.
      * cbn [length]. rewrite app_length. cbn [length]. lia.
  - destruct (split_line (c :: t)) as [[l r]|] eqn:Es; [|exact I].
    apply split_line_spec in Es as [Eb _]. rewrite Eb.
    unfold parse_inline. destruct (utf8_valid l).
    + destruct l as [|x l'].
      * rewrite inline_tokens_nil. exists [13; 10]. split; [reflexivity|cbn; lia].
      * destruct (inline_tokens (x :: l')) as [[|t1 ts]|].
        -- exists ((x :: l') ++ [13; 10]). split; [now rewrite <- app_assoc|].
           rewrite app_length. cbn [length]. lia.
        -- exists ((x :: l') ++ [13; 10]). split; [now rewrite <- app_assoc|].
           rewrite app_length. cbn [length]. lia.
        -- exists ((x :: l') ++ [13; 10]). split; [now rewrite <- app_assoc|].
           rewrite app_length. cbn [length]. lia.
    + exists (l ++ [13; 10]). split; [now rewrite <- app_assoc|].
      rewrite app_length. cbn [length]. lia.
Qed.

Lemma parse_good mb d : good (parse mb d).
Proof.
  induction d as [|d IH]; intros b; rewrite parse_eq; apply parse_step_good; cbn [recd].
  - discriminate.
  - now intros p [= <-].
Qed.

(* ================================================================== *)
(* a strict prefix of a frame: more data, nothing else                 *)

Lemma split_app {A} (p t a b : list A) :
  p ++ t = a ++ b ->
  (exists q, p = a ++ q /\ b = q ++ t) \/
  (exists t', t' <> [] /\ a = p ++ t' /\ t = t' ++ b).
Proof.
  revert a; induction p as [|x p IH]; intros a E.
  - destruct a as [|y a].
    + left. exists []. split; [reflexivity|exact (eq_sym E)].
    + right. exists (y :: a). split; [discriminate|]. split; [reflexivity|exact E].
  - destruct a as [|y a].
    + left. exists (x :: p). split; [reflexivity|exact (eq_sym E)].
    + cbn [app] in E. injection E as -> E. destruct (IH _ E) as [(q & -> & ->)|(t' & Ht & -> & ->)].
      * left. exists q. split; reflexivity.
      * right. exists t'. split; [exact Ht|]. split; reflexivity.
Qed.

Lemma prefix_header mb d c l p t :
  is_tag c = true -> nocrlf l = true ->
  p ++ t = c :: l ++ [13; 10] -> t <> [] -> parse mb d p = PMore false.
Proof.
  intros Hc Hl E Ht. rewrite parse_eq. unfold parse_step.
  destruct p as [|c' p']; [reflexivity|]. cbn [app] in E. injection E as -> E.
  rewrite Hc. now rewrite (split_line_strict_prefix l Hl p' t E Ht).
Qed.

Definition prefix_more (p : bytes -> pres) (v : rv) : Prop :=
  forall q t, q ++ t = encode v -> t <> [] -> exists k, p q = PMore k.

Lemma elems_prefix (p : bytes -> pres) l :
  Forall (fun v => forall r, p (encode v ++ r) = PDone (sanitize v) r) l ->
  Forall (prefix_more p) l ->
  forall q t acc fuel, q ++ t = flat_map encode l -> t <> [] -> (length q < fuel)%nat ->
  elems p fuel (N.of_nat (length l)) q acc = PMore true.
Proof.
  induction l as [|v l IH]; intros Hrt Hpm q t acc fuel E Ht Hf.
  - cbn in E. apply app_eq_nil in E as [_ ->]. congruence.
  - inversion Hrt as [|? ? Hv Hrt']; subst. inversion Hpm as [|? ? Hq Hpm']; subst.
    destruct fuel as [|f]; [lia|]. cbn [elems length].
    destruct (N.of_nat (S (length l)) =? 0) eqn:E0; [lia|].
    cbn [flat_map] in E. destruct (split_app _ _ _ _ E) as [(q' & -> & E')|(t' & Ht' & E' & _)].
    + rewrite Hv. replace (N.pred (N.of_nat (S (length l)))) with (N.of_nat (length l)) by lia.
      rewrite app_length in Hf. pose proof (encode_nonnil v).
      eapply IH; eauto. destruct (encode v); [congruence|cbn [length] in Hf; lia].
    + destruct (Hq q t' (eq_sym E') Ht') as [k ->]. reflexivity.
Qed.

Lemma prefix_more_parse mb : mb_ok mb -> forall v d,
  repr mb v -> (depth v <= d)%nat -> prefix_more (parse mb d) v.
Proof.
  intros Hmb v.
  induction v as [s|s|z|o|l IH|] using rv_ind'; intros d Hr Hd q t E Ht.
  - exists false. cbn [encode] in E. eapply prefix_header; eauto; [reflexivity|].
    apply nocrlf_no_cr. eapply Forall_impl; [|apply clean_map_san]. now intros x [? _].
  - exists false. cbn [encode] in E. eapply prefix_header; eauto; [reflexivity|].
    apply nocrlf_no_cr. eapply Forall_impl; [|apply clean_map_san]. now intros x [? _].
  - exists false. cbn [encode] in E. eapply prefix_header; eauto; [reflexivity|].
    apply (line_payload_ok _ (dec_Z_ok z)).
  - destruct o as [dd|].
    + cbn [encode] in E.
      destruct (line_payload_ok _ (dec_nat_ok (length dd))) as [H1 H2].
      replace (36 :: dec_nat (length dd) ++ crlf ++ dd ++ crlf)
        with ((36 :: dec_nat (length dd) ++ crlf) ++ dd ++ crlf) in E
        by (cbn [app]; now rewrite <- app_assoc).
      destruct (split_app _ _ _ _ E) as [(q' & -> & E')|(t' & Ht' & E' & _)].
      * exists true. cbn [app]. rewrite <- app_assoc. cbn [crlf app].
        rewrite parse_tag_line; [|reflexivity|exact H1].
        unfold tagged. change (36 =? 43) with false. change (36 =? 45) with false.
        change (36 =? 58) with false. change (36 =? 36) with true. cbv iota.
        unfold parse_bulk. rewrite H2.
        cbn [repr] in Hr. unfold zlen in Hr. unfold mb_ok in Hmb.
        rewrite parse_i64_dec_nat by lia.
        destruct (Z.of_nat (length dd) =? -1)%Z eqn:E1; [lia|].
        destruct (Z.of_nat (length dd) <? 0)%Z eqn:E2; [lia|].
        destruct (mb <? Z.of_nat (length dd))%Z eqn:E3; [lia|]. cbn [orb].
        destruct (USIZE_MAX <? Z.of_nat (length dd) + 2)%Z eqn:E4;
          [unfold USIZE_MAX, I64_MAX in *; lia|].
        assert (Hlen : (length q' + length t = length dd + 2)%nat).
        { apply (f_equal (@length N)) in E'. rewrite !app_length in E'. cbn [crlf length] in E'. lia. }
        assert (length t <> 0)%nat by (destruct t; [congruence|cbn; lia]).
        destruct (Z.of_nat (length q') <? Z.of_nat (length dd) + 2)%Z eqn:E5; [reflexivity|lia].
      * exists false.
        apply (prefix_header mb d 36 (dec_nat (length dd)) q t'); auto.
    + exists false. cbn [encode] in E.
      change [36; 45; 49; 13; 10] with (36 :: [45; 49] ++ [13; 10]) in E.
      eapply prefix_header; eauto; reflexivity.
  - cbn [encode] in E.
    destruct (line_payload_ok _ (dec_nat_ok (length l))) as [H1 H2].
    replace (42 :: dec_nat (length l) ++ crlf ++ flat_map encode l)
      with ((42 :: dec_nat (length l) ++ crlf) ++ flat_map encode l) in E
      by (cbn [app]; now rewrite <- app_assoc).
    destruct (split_app _ _ _ _ E) as [(q' & -> & E')|(t' & Ht' & E' & _)].
    + exists true. cbn [app]. rewrite <- app_assoc. cbn [crlf app].
      rewrite parse_tag_line; [|reflexivity|exact H1].
      unfold tagged. change (42 =? 43) with false. change (42 =? 45) with false.
      change (42 =? 58) with false. change (42 =? 36) with false.
      change (42 =? 42) with true. cbv iota. rewrite H2.
      apply repr_arr in Hr as [Hlen Hall].
      rewrite parse_usize_dec_nat by exact Hlen.
      destruct d as [|d']; [cbn [depth] in Hd; lia|]. cbn [recd].
      apply depth_arr in Hd.
      replace (Z.to_N (Z.of_nat (length l))) with (N.of_nat (length l)) by lia.
      eapply elems_prefix with (t := t); eauto.
      * rewrite Forall_forall in *. intros v Hv r'. apply roundtrip; auto.
      * rewrite Forall_forall in *. intros v Hv. apply IH; auto.
    + exists false.
      apply (prefix_header mb d 42 (dec_nat (length l)) q t'); auto.
  - exists false. cbn [encode] in E.
    change [95; 13; 10] with (95 :: [] ++ [13; 10]) in E.
    eapply prefix_header; eauto; reflexivity.
Qed.

(* ================================================================== *)
(* frames as the server sees them                                      *)

Definition pending (q : bytes) : Prop := exists k, decode q = More k q.

Definition frame_ok (e : bytes) (v : rv) : Prop :=
  e <> [] /\
  (forall r, decode (e ++ r) = Done v r) /\
  (forall p t, p ++ t = e -> t <> [] -> pending p).

Lemma max_bulk_ok : mb_ok MAX_BULK.
Proof. unfold mb_ok, MAX_BULK, I64_MAX. lia. Qed.

Lemma decode_roundtrip v r :
  repr MAX_BULK v -> (depth v <= MAX_DEPTH)%nat -> decode (encode v ++ r) = Done (sanitize v) r.
Proof.
  intros Hr Hd. unfold decode, decode_with. now rewrite (roundtrip _ max_bulk_ok) by assumption.
Qed.

Lemma decode_prefix v p t :
  repr MAX_BULK v -> (depth v <= MAX_DEPTH)%nat ->
  p ++ t = encode v -> t <> [] -> exists k, decode p = More k p.
Proof.
  intros Hr Hd E Ht. unfold decode, decode_with.
  destruct (prefix_more_parse _ max_bulk_ok v MAX_DEPTH Hr Hd p t E Ht) as [k ->]. now exists k.
Qed.

Lemma inline_roundtrip mb d l r :
  wf_inline l -> parse mb d ((l ++ crlf) ++ r) = PDone (inline_value l) r.
Proof.
  intros (Hc & Hn & Hu & t1 & ts & Ht).
  destruct l as [|c l']; [contradiction|].
  rewrite parse_eq. rewrite <- app_assoc. cbn [crlf app]. unfold parse_step. rewrite Hc.
  change (c :: l' ++ 13 :: 10 :: r) with ((c :: l') ++ 13 :: 10 :: r).
  rewrite split_line_app by exact Hn.
  unfold parse_inline, inline_value. rewrite Hu, Ht. reflexivity.
Qed.

Lemma inline_prefix mb d l p t :
  wf_inline l -> p ++ t = l ++ crlf -> t <> [] -> parse mb d p = PMore false.
Proof.
  intros (Hc & Hn & _) E Ht.
  destruct l as [|c l']; [contradiction|].
  rewrite parse_eq. unfold parse_step. destruct p as [|c' p']; [reflexivity|].
  cbn [app] in E. injection E as -> E. rewrite Hc.
  now rewrite (split_line_strict_prefix (c :: l') Hn (c :: p') t) by (cbn [app]; now f_equal).
Qed.

Lemma frame_wf_ok f : frame_wf f -> frame_ok (frame_bytes f) (frame_value f).
Proof.
  destruct f as [v|l]; cbn [frame_wf frame_bytes frame_value].
  - intros (Hr & Hc & Hd). split; [apply encode_nonnil|]. split.
    + intros r. rewrite decode_roundtrip by assumption. now rewrite sanitize_clean.
    + intros p t E Ht. eapply decode_prefix; eauto.
  - intros Hw. split.
    + destruct Hw as (Hc & _). destruct l; [contradiction|discriminate].
    + split.
      * intros r. unfold decode, decode_with. now rewrite inline_roundtrip.
      * intros p t E Ht. exists false. unfold decode, decode_with.
        now rewrite (inline_prefix _ _ l p t).
Qed.

Lemma pending_nil : pending [].
Proof. exists false. reflexivity. Qed.

(* ================================================================== *)
(* the server loop                                                     *)

Definition fr (f : frame) : event := Frame (frame_value f).

Lemma flat_frames_length fs :
  Forall frame_wf fs -> (length fs <= length (flat_map frame_bytes fs))%nat.
Proof.
  induction 1 as [|f fs Hf _ IH]; [cbn; lia|].
  cbn [flat_map length]. rewrite app_length.
  destruct (frame_wf_ok f Hf) as (Hn & _). destruct (frame_bytes f); [congruence|cbn [length]; lia].
Qed.

Lemma drain_frames fs : Forall frame_wf fs -> forall q fuel,
  pending q -> (length fs < fuel)%nat ->
  drain fuel (flat_map frame_bytes fs ++ q) = (q, map fr fs).
Proof.
  induction 1 as [|f fs Hf _ IH]; intros q fuel Hq Hfuel.
  - destruct fuel as [|fu]; [lia|]. cbn [flat_map app drain map].
    destruct Hq as [k ->]. reflexivity.
  - destruct fuel as [|fu]; [cbn in Hfuel; lia|]. cbn [flat_map drain map].
    rewrite <- app_assoc. destruct (frame_wf_ok f Hf) as (_ & Hd & _). rewrite Hd.
    rewrite IH; [reflexivity|exact Hq|cbn [length] in Hfuel; lia].
Qed.

(* any prefix of a stream of frames = some whole frames + a pending remainder *)
Lemma stream_prefix fs : Forall frame_wf fs -> forall P T,
  P ++ T = flat_map frame_bytes fs ->
  exists fs1 fs2 q, fs = fs1 ++ fs2 /\ P = flat_map frame_bytes fs1 ++ q /\
                    pending q /\ q ++ T = flat_map frame_bytes fs2.
Proof.
  induction 1 as [|f fs Hf Hfs IH]; intros P T E.
  - cbn in E. apply app_eq_nil in E as [-> ->].
    exists [], [], []. repeat split; auto using pending_nil.
  - cbn [flat_map] in E. destruct (split_app _ _ _ _ E) as [(P' & -> & E')|(t' & Ht' & E' & ->)].
    + destruct (IH P' T (eq_sym E')) as (fs1 & fs2 & q & -> & -> & Hq & Hrest).
      exists (f :: fs1), fs2, q. repeat split; auto.
      cbn [flat_map]. now rewrite app_assoc.
    + exists [], (f :: fs), P.
      split; [reflexivity|]. split; [reflexivity|]. split.
      * destruct (frame_wf_ok f Hf) as (_ & _ & Hp). apply (Hp P t'); auto.
      * cbn [flat_map]. rewrite E'. now rewrite app_assoc.
Qed.

Lemma run_frames chunks : forall fs q,
  Forall frame_wf fs -> pending q -> q ++ concat chunks = flat_map frame_bytes fs ->
  run q chunks = ([], map fr fs).
Proof.
  induction chunks as [|c cs IH]; intros fs q Hfs Hq E.
  - cbn [concat] in E. rewrite app_nil_r in E. subst q. cbn [run].
    destruct fs as [|f fs]; [reflexivity|].
    inversion Hfs as [|? ? Hf _]; subst. destruct (frame_wf_ok f Hf) as (_ & Hd & _).
    destruct Hq as [k Hk]. cbn [flat_map] in Hk. rewrite Hd in Hk. discriminate.
  - cbn [concat] in E. rewrite app_assoc in E.
    destruct (stream_prefix fs Hfs _ _ E) as (fs1 & fs2 & q' & -> & E1 & Hq' & E2).
    apply Forall_app in Hfs as [Hfs1 Hfs2].
    cbn [run]. unfold feed. rewrite E1.
    rewrite drain_frames; auto.
    + rewrite (IH fs2 q' Hfs2 Hq' E2). now rewrite map_app.
    + rewrite app_length. pose proof (flat_frames_length fs1 Hfs1). lia.
Qed.

Theorem chunking fs chunks :
  Forall frame_wf fs -> concat chunks = flat_map frame_bytes fs ->
  run [] chunks = ([], map fr fs).
Proof. intros Hfs E. apply run_frames; auto using pending_nil. Qed.

(* the loop never gets stuck or crashes, whatever arrives *)
Lemma decode_good b :
  match decode b with
  | Done _ r => exists pre, b = pre ++ r /\ (3 <= length pre)%nat
  | Fail _ r => exists pre, b = pre ++ r /\ (2 <= length pre)%nat
  | More _ r => r = b
  | Panic | Abort => False
  end.
Proof.
  unfold decode, decode_with. pose proof (parse_good MAX_BULK MAX_DEPTH b) as H.
  destruct (parse MAX_BULK MAX_DEPTH b); cbn in H; auto.
Qed.

Lemma drain_sane fuel : forall b, (length b < fuel)%nat ->
  forall e, In e (snd (drain fuel b)) -> e <> Stuck /\ e <> Crashed.
Proof.
  induction fuel as [|f IH]; intros b Hf e He; [lia|].
  cbn [drain] in He. pose proof (decode_good b) as Hg.
  destruct (decode b) as [v r|k r|er r| |]; try contradiction.
  - destruct Hg as (pre & -> & Hpre). rewrite app_length in Hf.
    specialize (IH r ltac:(lia)). destruct (drain f r) as [b' ev]. cbn [snd] in *.
    destruct He as [<-|He]; [split; discriminate|]. now apply IH.
  - cbn in He. destruct He as [<-|[]]. split; discriminate.
Qed.

Lemma feed_sane buf chunk e : In e (snd (feed buf chunk)) -> e <> Stuck /\ e <> Crashed.
Proof. unfold feed. apply drain_sane. lia. Qed.

(* ================================================================== *)
(* nesting of decoded values                                           *)

Lemma elems_depth p k : (forall b v r, p b = PDone v r -> (depth v <= k)%nat) ->
  forall fuel n r acc v r', Forall (fun x => (depth x <= k)%nat) acc ->
  elems p fuel n r acc = PDone v r' -> (depth v <= S k)%nat.
Proof.
  intros Hp fuel; induction fuel as [|f IH]; intros n r acc v r' Hacc H; cbn [elems] in H.
  - destruct (n =? 0); [|discriminate]. injection H as <- _.
    apply depth_arr. now apply Forall_rev.
  - destruct (n =? 0).
    + injection H as <- _. apply depth_arr. now apply Forall_rev.
    + destruct (p r) as [v1 r1|?|? ?| |] eqn:E; try discriminate.
      eapply IH; [|exact H]. constructor; [eapply Hp; eauto|exact Hacc].
Qed.

Lemma depth_bulk_list k ts :
  Forall (fun x => (depth x <= k)%nat) (map (fun t => Bulk (Some t)) ts).
Proof. apply Forall_map, Forall_forall. intros; cbn [depth]; lia. Qed.

Lemma parse_depth mb d : forall b v r, parse mb d b = PDone v r -> (depth v <= S d)%nat.
Proof.
  induction d as [|d IH]; intros b v r H; rewrite parse_eq in H; unfold parse_step in H;
    (destruct b as [|c t]; [discriminate|]);
    (destruct (is_tag c);
     [ destruct (split_line t) as [[l r0]|]; [|discriminate]; unfold tagged in H;
       repeat match type of H with
              | (if ?c then _ else _) = _ => destruct c
              | match ?o with _ => _ end = _ => destruct o eqn:?
              end; try discriminate; try (injection H as <- _; cbn [depth]; lia)
     | destruct (split_line (c :: t)) as [[l r0]|]; [|discriminate]; unfold parse_inline in H;
       repeat match type of H with
              | (if ?c then _ else _) = _ => destruct c
              | match ?o with _ => _ end = _ => destruct o eqn:?
              end; try discriminate; injection H as <- _; apply depth_arr;
       exact (depth_bulk_list _ (_ :: _)) ]).
  all: try (unfold parse_bulk in H;
       repeat match type of H with
              | (if ?c then _ else _) = _ => destruct c
              | match ?o with _ => _ end = _ => destruct o eqn:?
              end; try discriminate; injection H as <- _; cbn [depth]; lia).
  cbn [recd] in *. match goal with E : Some _ = Some _ |- _ => injection E as <- end.
  eapply elems_depth in H; eauto.
Qed.

(* ================================================================== *)
(* allocation meter                                                    *)

Definition CC : Z := 96.

Definition cost_tagged (mb : Z) (rec : option (bytes -> pres)) (crec : bytes -> Z)
           (c : N) (l r : bytes) : Z :=
  if (c =? 43) || (c =? 45) then (if utf8_valid l then zlen l else ERRMSG)
  else if c =? 58 then
    (if utf8_valid l then match parse_i64 l with Some _ => 0%Z | None => ERRMSG end
     else ERRMSG)
  else if c =? 36 then cost_bulk mb l r
  else if c =? 42 then
    (if utf8_valid l then
       match parse_usize l with
       | None => ERRMSG
       | Some n =>
           match rec with
           | None => ERRMSG
           | Some p => cost_elems p crec (S (length r)) (Z.to_N n) r
           end
       end
     else ERRMSG)
  else match l with [] => 0%Z | _ => ERRMSG end.

Definition cost_step (mb : Z) (rec : option (bytes -> pres)) (crec : bytes -> Z) (b : bytes) : Z :=
  match b with
  | [] => 0%Z
  | c :: t =>
      if is_tag c then
        match split_line t with
        | None => 0%Z
        | Some (l, r) => cost_tagged mb rec crec c l r
        end
      else
        match split_line b with
        | None => 0%Z
        | Some (l, _) => cost_inline l
        end
  end.

Definition costd (mb : Z) (d : nat) : bytes -> Z :=
  match d with O => fun _ => 0%Z | S d' => cost mb d' end.

Lemma cost_eq mb d b : cost mb d b = cost_step mb (recd mb d) (costd mb d) b.
Proof. destruct d; reflexivity. Qed.

Definition res_bound (b : bytes) (res : pres) (cst : Z) : Prop :=
  (0 <= cst)%Z /\
  match res with
  | PDone _ r => (cst + ELEM <= CC * (zlen b - zlen r))%Z
  | _ => (cst <= CC * zlen b + ERRMSG)%Z
  end.

Definition bounded (p : bytes -> pres) (c : bytes -> Z) : Prop :=
  forall b, res_bound b (p b) (c b).

Ltac zl := cbv beta iota; unfold inline_cost in *; unfold zlen, CC, ELEM, ERRMSG in *;
           repeat (progress cbn [length] in * || rewrite app_length in * );
           lia.

Lemma cost_elems_bound p c : good p -> bounded p c ->
  forall fuel n r acc, (length r < fuel)%nat ->
  (0 <= cost_elems p c fuel n r)%Z /\
  match elems p fuel n r acc with
  | PDone _ r' => (cost_elems p c fuel n r <= CC * (zlen r - zlen r'))%Z
  | _ => (cost_elems p c fuel n r <= CC * zlen r + ERRMSG)%Z
  end.
Proof.
  intros Hg Hb fuel; induction fuel as [|f IH]; intros n r acc Hf; [lia|].
  cbn [elems cost_elems]. destruct (n =? 0). { split; [lia|zl]. }
  pose proof (Hg r) as Hgr. pose proof (Hb r) as [Hc0 Hbr].
  destruct (p r) as [v r1|k|e r1| |]; cbn in Hgr; try (split; [assumption|exact Hbr]).
  destruct Hgr as (pre & -> & Hpre).
  assert (Hf1 : (length r1 < f)%nat) by (rewrite app_length in Hf; lia).
  destruct (IH (N.pred n) r1 (v :: acc) Hf1) as [H0 H1].
  split; [unfold ELEM; lia|].
  destruct (elems p f (N.pred n) r1 (v :: acc)); zl.
Qed.

Lemma parse_bulk_done mb l r v r' : parse_bulk mb l r = PDone v r' ->
  (v = Bulk None /\ r' = r) \/ (exists d, v = Bulk (Some d) /\ r = d ++ 13 :: 10 :: r').
Proof.
  unfold parse_bulk. intros H.
  destruct (utf8_valid l); [|discriminate].
  destruct (parse_i64 l) as [n|]; [|discriminate].
  destruct (n =? -1)%Z. { injection H as <- <-. now left. }
  destruct ((n <? 0)%Z || (mb <? n)%Z); [discriminate|].
  destruct (USIZE_MAX <? n + 2)%Z; [discriminate|].
  destruct (Z.of_nat (length r) <? n + 2)%Z; [discriminate|].
  pose proof (firstn_skipn (Z.to_nat n) r) as Hfs.
  destruct (skipn (Z.to_nat n) r) as [|x [|y r2]] eqn:Es; try discriminate.
  destruct ((x =? 13) && (y =? 10)) eqn:E; [|discriminate].
  apply andb_true_iff in E as [E1 E2]. apply N.eqb_eq in E1, E2. subst x y.
  injection H as <- <-. right. eexists. split; [reflexivity|]. now symmetry.
Qed.

Lemma cost_bulk_bound mb c l r :
  res_bound (c :: l ++ 13 :: 10 :: r) (parse_bulk mb l r) (cost_bulk mb l r).
Proof.
  unfold cost_bulk, res_bound.
  pose proof (parse_bulk_suffix mb l r) as Hs.
  destruct (parse_bulk mb l r) as [v r'|k|e r'| |] eqn:E; cbn in Hs; try contradiction.
  - apply parse_bulk_done in E as [[-> ->]|(d & -> & ->)].
    + split; cbv beta iota; zl.
    + split; cbv beta iota; zl.
  - split; cbv beta iota; zl.
  - destruct Hs as [pre ->]. split; cbv beta iota; zl.
Qed.

Lemma tagged_cost_bound mb rec crec c l r :
  (forall p, rec = Some p -> good p /\ bounded p crec) ->
  res_bound (c :: l ++ 13 :: 10 :: r) (tagged mb rec c l r) (cost_tagged mb rec crec c l r).
Proof.
  intros Hrec. unfold tagged, cost_tagged.
  destruct (c =? 43). { cbn [orb]. destruct (utf8_valid l); split; zl. }
  destruct (c =? 45). { cbn [orb]. destruct (utf8_valid l); split; zl. }
  cbn [orb]. destruct (c =? 58).
  { destruct (utf8_valid l); [|split; zl]. destruct (parse_i64 l); split; zl. }
  destruct (c =? 36). { apply cost_bulk_bound. }
  destruct (c =? 42).
  { destruct (utf8_valid l); [|split; zl]. destruct (parse_usize l) as [n|]; [|split; zl].
    destruct rec as [p|]; [|split; zl]. destruct (Hrec p eq_refl) as [Hg Hb].
    destruct (cost_elems_bound p crec Hg Hb (S (length r)) (Z.to_N n) r [] ltac:(lia)) as [H0 H1].
    pose proof (elems_suffix p Hg (S (length r)) (Z.to_N n) r [] ltac:(lia)) as Hs.
    split; [exact H0|].
    destruct (elems p (S (length r)) (Z.to_N n) r []) as [v r'|k|e r'| |]; cbn in Hs; try contradiction.
    - destruct Hs as [pre ->]. zl.
    - zl.
    - zl. }
  destruct l; split; zl.
Qed.

Lemma toks_len_zero : inline_tokens [] = Some [].
Proof. reflexivity. Qed.

Lemma cost_step_bound mb rec crec :
  (forall p, rec = Some p -> good p /\ bounded p crec) ->
  bounded (parse_step mb rec) (cost_step mb rec crec).
Proof.
  intros Hrec b. unfold parse_step, cost_step. destruct b as [|c t]; [split; zl|].
  destruct (is_tag c).
  - destruct (split_line t) as [[l r]|] eqn:Es; [|split; zl].
    apply split_line_spec in Es as [-> _]. now apply tagged_cost_bound.
  - destruct (split_line (c :: t)) as [[l r]|] eqn:Es; [|split; zl].
    apply split_line_spec in Es as [Eb _]. rewrite Eb.
    unfold parse_inline, cost_inline. destruct (utf8_valid l); [|split; zl].
    destruct l as [|x l'].
    + rewrite toks_len_zero. split; zl.
    + destruct (inline_tokens (x :: l')) as [[|t1 ts]|]; split; zl.
Qed.

Lemma parse_cost_bounded mb d : bounded (parse mb d) (cost mb d).
Proof.
  induction d as [|d IH]; intros b; rewrite parse_eq, cost_eq; apply cost_step_bound; cbn [recd costd].
  - discriminate.
  - intros p [= <-]. split; [apply parse_good|exact IH].
Qed.

Lemma alloc_bound b : (0 <= alloc b <= CC * zlen b + ERRMSG)%Z.
Proof.
  unfold alloc. destruct (parse_cost_bounded MAX_BULK MAX_DEPTH b) as [H0 H1].
  split; [exact H0|].
  pose proof (parse_good MAX_BULK MAX_DEPTH b) as Hg.
  destruct (parse MAX_BULK MAX_DEPTH b) as [v r|k|e r| |]; cbn in Hg; try lia.
  destruct Hg as (pre & -> & _). zl.
Qed.

(* ================================================================== *)
(* statements in the form used by props/C20.v, C21.v, C22.v            *)

Lemma wf_roundtrip v r :
  wf MAX_BULK MAX_DEPTH v -> decode (encode v ++ r) = Done v r.
Proof.
  intros (Hr & Hc & Hd). rewrite decode_roundtrip by assumption. now rewrite sanitize_clean.
Qed.

Lemma wf_prefix v p t :
  wf MAX_BULK MAX_DEPTH v -> p ++ t = encode v -> t <> [] -> exists k, decode p = More k p.
Proof. intros (Hr & Hc & Hd). now apply decode_prefix. Qed.

Lemma inline_frame_roundtrip l r :
  wf_inline l -> decode ((l ++ crlf) ++ r) = Done (inline_value l) r.
Proof. intros H. unfold decode, decode_with. now rewrite inline_roundtrip. Qed.

Lemma inline_frame_prefix l p t :
  wf_inline l -> p ++ t = l ++ crlf -> t <> [] -> decode p = More false p.
Proof. intros H E Ht. unfold decode, decode_with. now rewrite (inline_prefix _ _ l p t). Qed.

Lemma decode_safe b : decode b <> Panic /\ decode b <> Abort.
Proof.
  pose proof (decode_good b) as H. destruct (decode b); try contradiction; split; discriminate.
Qed.

Lemma decode_depth b v r : decode b = Done v r -> (depth v <= S MAX_DEPTH)%nat.
Proof.
  unfold decode, decode_with. destruct (parse MAX_BULK MAX_DEPTH b) eqn:E; try discriminate.
  intros [= <- <-]. eapply parse_depth; eauto.
Qed.

Lemma clean_sanitize v : clean (sanitize v).
Proof.
  induction v as [s|s|z|o|l IH|] using rv_ind'; cbn [sanitize clean]; auto using clean_map_san.
  induction IH as [|x t Hx _ IHt]; cbn [map]; [exact I|split; assumption].
Qed.

Lemma i64_max_ok : mb_ok I64_MAX.
Proof. unfold mb_ok, I64_MAX. lia. Qed.

Lemma reply_one_frame v :
  repr I64_MAX v -> decode_with I64_MAX (depth v) (encode v) = Done (sanitize v) [].
Proof.
  intros Hr. unfold decode_with.
  rewrite <- (app_nil_r (encode v)) at 1.
  now rewrite (roundtrip _ i64_max_ok v (depth v) [] Hr (le_n _)).
Qed.

Lemma reply_one_frame_limits v :
  repr MAX_BULK v -> (depth v <= MAX_DEPTH)%nat -> decode (encode v) = Done (sanitize v) [].
Proof.
  intros Hr Hd. rewrite <- (app_nil_r (encode v)) at 1. now apply decode_roundtrip.
Qed.

Lemma reply_one_frame_ex v :
  repr I64_MAX v ->
  exists v', decode_with I64_MAX (depth v) (encode v) = Done v' [] /\ v' = sanitize v.
Proof. intros H. exists (sanitize v). split; [now apply reply_one_frame|reflexivity]. Qed.
